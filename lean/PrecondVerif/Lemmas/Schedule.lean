/-
Helper lemmas for the schedule automata (C04): histories as folds, "frozen between triggers",
one-step facts of the Distributed Shampoo / Tearfree steps, the blend arithmetic over a ring.
-/
import Mathlib.Algebra.Ring.Defs
import Mathlib.Algebra.Group.Basic
import PrecondVerif.Model.Schedule

namespace PrecondVerif.Schedule

/-! ### histories -/

section History
variable {S I O : Type} (step : S → I → S × O)

theorem run_nil (s : S) : run step s [] = s := rfl

theorem run_cons (s : S) (i : I) (is : List I) :
    run step s (i :: is) = run step (step s i).1 is := rfl

theorem run_append (s : S) (a b : List I) :
    run step s (a ++ b) = run step (run step s a) b := by
  simp [run, List.foldl_append]

theorem stateAt_zero (s : S) (is : List I) : stateAt step s is 0 = s := by
  simp [stateAt, run]

theorem stateAt_succ (s : S) (is : List I) (k : Nat) (h : k < is.length) :
    stateAt step s is (k + 1) = (step (stateAt step s is k) is[k]).1 := by
  unfold stateAt
  rw [List.take_add_one, run_append, List.getElem?_eq_getElem h]
  rfl

theorem stateAt_length (s : S) (is : List I) : stateAt step s is is.length = run step s is := by
  simp [stateAt]

/-- a counter that every step advances by one counts the steps -/
theorem run_count (cnt : S → Nat) (hc : ∀ s i, cnt (step s i).1 = cnt s + 1) (s : S) (is : List I) :
    cnt (run step s is) = cnt s + is.length := by
  induction is generalizing s with
  | nil => simp [run]
  | cons i is ih => rw [run_cons, ih, hc]; simp; omega

theorem stateAt_count (cnt : S → Nat) (hc : ∀ s i, cnt (step s i).1 = cnt s + 1) (s : S)
    (is : List I) (k : Nat) (hk : k ≤ is.length) : cnt (stateAt step s is k) = cnt s + k := by
  unfold stateAt
  rw [run_count step cnt hc, List.length_take, Nat.min_eq_left hk]

/-- A component that a step may change only when `trig (count)` holds is constant over every
stretch of the history that contains no trigger. -/
theorem frozen_between {X : Type} (cnt : S → Nat) (f : S → X) (trig : Nat → Prop)
    (hc : ∀ s i, cnt (step s i).1 = cnt s + 1)
    (hf : ∀ s i, ¬ trig (cnt s) → f (step s i).1 = f s)
    (s0 : S) (is : List I) (j k : Nat) (hjk : j ≤ k) (hk : k ≤ is.length)
    (hno : ∀ t, j ≤ t → t < k → ¬ trig (cnt s0 + t)) :
    f (stateAt step s0 is k) = f (stateAt step s0 is j) := by
  obtain ⟨d, rfl⟩ := Nat.exists_eq_add_of_le hjk
  induction d with
  | zero => rfl
  | succ d ih =>
    have hlt : j + d < is.length := by omega
    have e : j + (d + 1) = (j + d) + 1 := by omega
    rw [e, stateAt_succ step s0 is (j + d) hlt, hf]
    · exact ih (by omega) (by omega) (fun t h1 h2 => hno t h1 (by omega))
    · rw [stateAt_count step cnt hc s0 is (j + d) (by omega)]
      exact hno (j + d) (by omega) (by omega)

end History

/-! ### scheduled interval -/

theorem scheduledIntervalInt_ge_one (s e d : Rat) : 1 ≤ scheduledIntervalInt s e d :=
  Int.le_max_right _ _

theorem scheduledInterval_ge_one (s e d : Rat) : 1 ≤ scheduledInterval s e d := by
  have := scheduledIntervalInt_ge_one s e d
  unfold scheduledInterval
  omega

theorem scheduledInterval_one_or_ten (s e d : Rat) :
    scheduledInterval s e d = 1 ∨ 10 ∣ scheduledInterval s e d := by
  unfold scheduledInterval scheduledIntervalInt
  generalize ((s + (1 - d) * e) / 10).floor = q
  rcases Int.le_total (q * 10) 1 with h | h
  · left; rw [Int.max_eq_right h]; rfl
  · right; rw [Int.max_eq_left h]
    have hq : 0 ≤ q := by omega
    refine ⟨q.toNat, ?_⟩
    omega

/-! ### Distributed Shampoo, one step -/

section DS
variable {σ π μ γ φ δ m α : Type}

theorem dsPerformStats_eq (si c : Nat) (h : 1 ≤ si) : dsPerformStats si c = (c % si == 0) := by
  unfold dsPerformStats
  split
  · rfl
  · have : si = 1 := by omega
    subst this; simp [Nat.mod_one]

theorem dsCandidate_perform (K : DSKernels σ π μ γ φ δ m α) (itv c : Nat) (st : σ) (p : π) (f : φ)
    (h : c % itv = 0) : dsCandidate K itv c st p f = K.rootAll st p f := by
  unfold dsCandidate dsPerformPrecond
  simp [h]

theorem dsCandidate_skip (K : DSKernels σ π μ γ φ δ m α) (itv c : Nat) (st : σ) (p : π) (f : φ)
    (h : c % itv ≠ 0) : dsCandidate K itv c st p f = (K.junk st, K.failMetrics) := by
  unfold dsCandidate dsPerformPrecond
  have h1 : itv ≠ 1 := by intro e; subst e; simp [Nat.mod_one] at h
  simp [h, h1]

theorem gate_fail (K : DSKernels σ π μ γ φ δ m α) (hbad : K.bad K.failMetrics = true) (old x : π) :
    gate K old (x, K.failMetrics) = old := by
  simp [gate, hbad]

end DS

/-! ### blend over a ring -/

section Blend
variable {α : Type} [Ring α]

theorem blend_zero (a b : α) : blend (0 : α) a b = b := by
  unfold blend; rw [zero_mul, zero_add, sub_zero, one_mul]

theorem blend_one (a b : α) : blend (1 : α) a b = a := by
  unfold blend; rw [one_mul, sub_self, zero_mul, add_zero]

theorem runShampoo_before (start c : Nat) (h : c < start) : (runShampoo start c : α) = 0 := by
  unfold runShampoo; rw [if_neg (by omega)]

theorem runShampoo_after (start c : Nat) (h : start ≤ c) : (runShampoo start c : α) = 1 := by
  unfold runShampoo; rw [if_pos h]

end Blend

end PrecondVerif.Schedule
