/-
The executed rounding functions (`roundNE`, `fl32`, `bf16Round` of `Model/Quant.lean`) obey the relative
error model on the normal range, and the rounding-error analysis of `Lemmas/QuantFp.lean` under a hypothesis
on `fl` that is restricted to zero and to magnitudes `≥ lo` (`FlOKAbove`), with an explicit guard on the
column (`NormalCol`) that keeps every rounded operation in that range.
-/
import PrecondVerif.Lemmas.QuantFp
import Mathlib.Algebra.Order.Ring.Rat
import Mathlib.Algebra.Order.Field.Power

set_option linter.unusedSectionVars false
set_option linter.unusedVariables false

namespace PrecondVerif.Quant

/-! ### `floorLog2`, `roundNE`, `fl32`, `bf16Round` -/

/-- `2 ^ floorLog2 a ≤ a` for positive rationals (`Nat.log2_self_le`, `Nat.lt_log2_self`) -/
theorem floorLog2_le (a : ℚ) (ha : 0 < a) : (2 : ℚ) ^ (floorLog2 a) ≤ a := by
  unfold floorLog2
  simp only
  split
  · rename_i h1
    split
    · rename_i h2; exact h2
    · exact h1
  · have hnum : 0 < a.num := Rat.num_pos.mpr ha
    have hn0 : a.num.toNat ≠ 0 := by omega
    have h1 := Nat.log2_self_le hn0
    have h2 := @Nat.lt_log2_self a.den
    have hd : (0 : ℚ) < (a.den : ℚ) := by exact_mod_cast a.den_pos
    have hnq : ((a.num.toNat : ℕ) : ℚ) = (a.num : ℚ) := by
      have : ((a.num.toNat : ℕ) : ℤ) = a.num := Int.toNat_of_nonneg hnum.le
      exact_mod_cast this
    have ha' : a = (a.num.toNat : ℚ) / (a.den : ℚ) := by rw [hnq]; exact (Rat.num_div_den a).symm
    have e : (2 : ℚ) ^ ((a.num.toNat.log2 : ℤ) - (a.den.log2 : ℤ) - 1)
        = (2 : ℚ) ^ a.num.toNat.log2 / (2 : ℚ) ^ (a.den.log2 + 1) := by
      rw [show ((a.num.toNat.log2 : ℤ) - (a.den.log2 : ℤ) - 1)
          = (a.num.toNat.log2 : ℤ) - ((a.den.log2 + 1 : ℕ) : ℤ) by push_cast; ring]
      rw [zpow_sub₀ (by norm_num), zpow_natCast, zpow_natCast]
    rw [e]
    have h1q : (2 : ℚ) ^ a.num.toNat.log2 ≤ (a.num.toNat : ℚ) := by exact_mod_cast h1
    have h2q : (a.den : ℚ) ≤ (2 : ℚ) ^ (a.den.log2 + 1) := by exact_mod_cast h2.le
    conv_rhs => rw [ha']
    exact div_le_div₀ (by positivity) h1q hd h2q

/-- round-to-nearest-even to `p` bits: relative error `≤ 2^-p` on `|x| ≥ 2^emin` (no upper limit: `roundNE`
has unbounded exponents above) -/
theorem roundNE_err (p : Nat) (emin : Int) (x : ℚ) (hx : (2 : ℚ) ^ emin ≤ |x|) :
    |roundNE p emin x - x| ≤ (2 : ℚ) ^ (-(p : ℤ)) * |x| := by
  have hpos : (0 : ℚ) < (2 : ℚ) ^ emin := by positivity
  have hx0 : x ≠ 0 := by
    intro h; rw [h, abs_zero] at hx; exact absurd hx (not_le.mpr hpos)
  have hapos : 0 < |x| := abs_pos.mpr hx0
  unfold roundNE
  rw [if_neg hx0]
  simp only
  have ha : (if x < 0 then -x else x) = |x| := absG_eq x
  rw [ha]
  generalize he : (if floorLog2 |x| < emin then emin else floorLog2 |x|) = e
  have h2e : (2 : ℚ) ^ e ≤ |x| := by
    rw [← he]; split
    · exact hx
    · exact floorLog2_le _ hapos
  have hulp : (0 : ℚ) < (2 : ℚ) ^ (e - (p : ℤ) + 1) := by positivity
  have hr := round_err (x / (2 : ℚ) ^ (e - (p : ℤ) + 1))
  have e1 : ((roundHalfEven (x / (2 : ℚ) ^ (e - (p : ℤ) + 1)) : Int) : ℚ) * (2 : ℚ) ^ (e - (p : ℤ) + 1) - x
      = (((roundHalfEven (x / (2 : ℚ) ^ (e - (p : ℤ) + 1)) : Int) : ℚ) - x / (2 : ℚ) ^ (e - (p : ℤ) + 1))
          * (2 : ℚ) ^ (e - (p : ℤ) + 1) := by
    field_simp
  have e2 : (2 : ℚ) ^ (e - (p : ℤ) + 1) = (2 : ℚ) ^ (-(p : ℤ)) * (2 : ℚ) ^ e * 2 := by
    rw [← zpow_add₀ (by norm_num : (2 : ℚ) ≠ 0), ← zpow_add_one₀ (by norm_num : (2 : ℚ) ≠ 0)]
    congr 1; ring
  rw [e1, abs_mul, abs_of_pos hulp]
  calc |((roundHalfEven (x / (2 : ℚ) ^ (e - (p : ℤ) + 1)) : Int) : ℚ) - x / (2 : ℚ) ^ (e - (p : ℤ) + 1)|
          * (2 : ℚ) ^ (e - (p : ℤ) + 1)
        ≤ 1 / 2 * (2 : ℚ) ^ (e - (p : ℤ) + 1) := mul_le_mul_of_nonneg_right hr hulp.le
    _ = (2 : ℚ) ^ (-(p : ℤ)) * (2 : ℚ) ^ e := by rw [e2]; ring
    _ ≤ (2 : ℚ) ^ (-(p : ℤ)) * |x| := mul_le_mul_of_nonneg_left h2e (by positivity)

theorem roundNE_zero (p : Nat) (emin : Int) : roundNE p emin 0 = 0 := by
  unfold roundNE; simp

/-- the overflow-checked rounding agrees with `roundNE` whenever it returns a value -/
theorem roundToFormat_eq_roundNE {p : Nat} {emin emax : Int} {x r : ℚ}
    (h : roundToFormat p emin emax x = some r) : r = roundNE p emin x := by
  unfold roundToFormat at h
  unfold roundNE
  by_cases hx : x = 0
  · rw [if_pos hx] at h ⊢; exact (Option.some.inj h).symm
  · rw [if_neg hx] at h ⊢
    simp only at h ⊢
    split_ifs at h ⊢ <;> (cases h; rfl)

/-- **float32 rounding obeys the standard model on the normal range**: `|fl32 t - t| ≤ 2⁻²⁴ |t|` for
`t = 0` and for every rational `|t| ≥ 2⁻¹²⁶` -/
theorem fl32_FlOK (t : ℚ) (ht : t = 0 ∨ (1 : ℚ) / 2 ^ 126 ≤ |t|) : FlOK fl32 (1 / 2 ^ 24) t := by
  unfold FlOK fl32
  rcases ht with rfl | ht
  · simp [roundNE_zero]
  · have h := roundNE_err 24 (-126) t (by
      have : (2 : ℚ) ^ (-126 : ℤ) = 1 / 2 ^ 126 := by
        rw [zpow_neg, show ((126 : ℤ)) = ((126 : ℕ) : ℤ) by norm_num, zpow_natCast]; norm_num
      rw [this]; exact ht)
    have e : (2 : ℚ) ^ (-((24 : ℕ) : ℤ)) = 1 / 2 ^ 24 := by
      rw [zpow_neg, zpow_natCast]; norm_num
    rw [e] at h
    exact h

/-- **bfloat16 cast**: whenever `bf16Round x` is finite and `|x| ≥ 2⁻¹²⁶`, it is within `2⁻⁸ |x|` of `x` -/
theorem bf16Round_err {x r : ℚ} (h : bf16Round x = some r) (hx : (1 : ℚ) / 2 ^ 126 ≤ |x|) :
    |r - x| ≤ 1 / 2 ^ 8 * |x| := by
  unfold bf16Round at h
  rw [roundToFormat_eq_roundNE h]
  have h' := roundNE_err 8 (-126) x (by
    have : (2 : ℚ) ^ (-126 : ℤ) = 1 / 2 ^ 126 := by
      rw [zpow_neg, show ((126 : ℤ)) = ((126 : ℕ) : ℤ) by norm_num, zpow_natCast]; norm_num
    rw [this]; exact hx)
  have e : (2 : ℚ) ^ (-((8 : ℕ) : ℤ)) = 1 / 2 ^ 8 := by
    rw [zpow_neg, zpow_natCast]; norm_num
  rw [e] at h'
  exact h'

/-! ### the error analysis with a rounding hypothesis restricted to `{0} ∪ {|t| ≥ lo}` -/

section
variable {α : Type} [Field α] [LinearOrder α] [IsStrictOrderedRing α]

/-- `fl` obeys the relative-error model on zero and on every magnitude `≥ lo` -/
def FlOKAbove (fl : α → α) (u lo : α) : Prop := ∀ t, (t = 0 ∨ lo ≤ |t|) → FlOK fl u t

theorem FlOKAbove.zero {fl : α → α} {u lo : α} (h : FlOKAbove fl u lo) : fl 0 = 0 := by
  have := h 0 (Or.inl rfl)
  unfold FlOK at this
  simp only [abs_zero, mul_zero, sub_zero] at this
  exact abs_eq_zero.mp (le_antisymm this (abs_nonneg _))

theorem fl32_FlOKAbove : FlOKAbove fl32 (1 / 2 ^ 24) (1 / 2 ^ 126) := fun t ht => fl32_FlOK t ht

/-- one computed division, when its operands keep every rounding at magnitude `≥ lo` -/
theorem divFl_err_guard {fl : α → α} {u lo : α} (hu : 0 ≤ u) (hu2 : u ≤ 1 / 2) (hlo : 0 ≤ lo)
    (hfl : FlOKAbove fl u lo) (recip : Bool) (a b : α)
    (hab : a = 0 ∨ 2 * lo ≤ |a / b|) (hb : lo ≤ |1 / b|) :
    |divFl fl recip a b - a / b| ≤ opErr recip u * |a / b| := by
  cases recip
  · have h := hfl (a / b) (by
      rcases hab with rfl | h
      · left; simp
      · right; linarith)
    unfold FlOK at h
    simpa [divFl, opErr] using h
  · simp only [divFl, opErr, if_true]
    have h1 := hfl (1 / b) (Or.inr hb)
    unfold FlOK at h1
    have e1 : a * fl (1 / b) - a / b = a * (fl (1 / b) - 1 / b) := by ring
    have h3 : |a * fl (1 / b) - a / b| ≤ u * |a / b| := by
      rw [e1, abs_mul]
      calc |a| * |fl (1 / b) - 1 / b| ≤ |a| * (u * |1 / b|) := mul_le_mul_of_nonneg_left h1 (abs_nonneg a)
        _ = u * |a / b| := by rw [div_eq_mul_one_div a b, abs_mul]; ring
    have h2 := hfl (a * fl (1 / b)) (by
      rcases hab with rfl | h
      · left; simp
      · right
        have := abs_sub_abs_le_abs_sub (a / b) (a * fl (1 / b))
        rw [abs_sub_comm] at this
        nlinarith [abs_nonneg (a / b)])
    unfold FlOK at h2
    have h4 : |a * fl (1 / b)| ≤ (1 + u) * |a / b| := by
      have := abs_sub_abs_le_abs_sub (a * fl (1 / b)) (a / b)
      linarith
    have h5 : |fl (a * fl (1 / b)) - a * fl (1 / b)| ≤ u * ((1 + u) * |a / b|) :=
      le_trans h2 (mul_le_mul_of_nonneg_left h4 hu)
    have tri : |fl (a * fl (1 / b)) - a / b|
        ≤ |fl (a * fl (1 / b)) - a * fl (1 / b)| + |a * fl (1 / b) - a / b| := abs_sub_le _ _ _
    nlinarith [abs_nonneg (a / b)]

/-- the bound of `roundtrip_fp_general` is at most `1/2 + (3N+2)u` when `N·u ≤ 1/16` -/
theorem xla_bound_le {N : Nat} {u : α} (hN : 1 ≤ N) (hu : 0 ≤ u) (hNu : (N : α) * u ≤ 1 / 16) (rb rr : Bool) :
    (1 + opErr rb u) * (1 + u) / 2 + (N : α) * (opErr rr u + u + opErr rr u * u)
      ≤ 1 / 2 + (3 * (N : α) + 2) * u := by
  have hN1 : (1 : α) ≤ (N : α) := by exact_mod_cast hN
  have hu16 : u ≤ 1 / 16 := by nlinarith
  have hb := opErr_le hu rb
  have hr := opErr_le hu rr
  have hb0 := opErr_nonneg hu rb
  have hr0 := opErr_nonneg hu rr
  have huu : u ^ 2 ≤ u / 16 := by nlinarith
  have hNuu : (N : α) * u ^ 2 ≤ u / 16 := by nlinarith
  have s1 : (1 + opErr rb u) * (1 + u) / 2 ≤ (1 + (2 * u + u ^ 2)) * (1 + u) / 2 := by
    have : (1 + opErr rb u) * (1 + u) ≤ (1 + (2 * u + u ^ 2)) * (1 + u) :=
      mul_le_mul_of_nonneg_right (by linarith) (by linarith)
    linarith
  have s2 : (N : α) * (opErr rr u + u + opErr rr u * u)
      ≤ (N : α) * ((2 * u + u ^ 2) + u + (2 * u + u ^ 2) * u) := by
    apply mul_le_mul_of_nonneg_left _ (by linarith)
    have : opErr rr u * u ≤ (2 * u + u ^ 2) * u := mul_le_mul_of_nonneg_right hr hu
    linarith
  have hNu3 : (N : α) * u ^ 3 ≤ u / 256 := by
    have : (N : α) * u ^ 3 = ((N : α) * u ^ 2) * u := by ring
    rw [this]
    nlinarith
  have hu3 : u ^ 3 ≤ u / 256 := by
    have : u ^ 3 = u ^ 2 * u := by ring
    rw [this]; nlinarith
  nlinarith

/-- the no-wrap condition holds when `N·u ≤ 1/16` -/
theorem xla_cond {N : Nat} {u : α} (hN : 1 ≤ N) (hu : 0 ≤ u) (hNu : (N : α) * u ≤ 1 / 16) (rb rr : Bool) :
    (N : α) * (1 + opErr rr u) < ((N : α) + 1 / 2) * (1 - opErr rb u) := by
  have hN1 : (1 : α) ≤ (N : α) := by exact_mod_cast hN
  have hu16 : u ≤ 1 / 16 := by nlinarith
  have hb := opErr_le hu rb
  have hr := opErr_le hu rr
  have huu : u ^ 2 ≤ u / 16 := by nlinarith
  have hNuu : (N : α) * u ^ 2 ≤ u / 16 := by nlinarith
  have e1 : (N : α) * opErr rr u ≤ (N : α) * (2 * u + u ^ 2) := mul_le_mul_of_nonneg_left hr (by linarith)
  have e2 : (N : α) * opErr rb u ≤ (N : α) * (2 * u + u ^ 2) := mul_le_mul_of_nonneg_left hb (by linarith)
  nlinarith

variable [HasFloor α] [LawfulFloor α]

/-- **Guard on a column**: it is identically zero, or every rounded operation of quantize / to_float stays
at magnitude `≥ lo`:  the exact bucket `b = max|col| / N` satisfies `2·lo ≤ b` and `2·b·lo ≤ 1`, `N·lo ≤ 1`,
and every non-zero entry is at least `4·lo·b`.  (float32, `lo = 2⁻¹²⁶`: `2⁻¹²⁵ ≤ b ≤ 2¹²⁵`, `N ≤ 2¹²⁶`,
non-zero entries `≥ 2⁻¹²⁴` buckets.)  Decidable at `ℚ`. -/
def NormalCol (lo : α) (N : Nat) (col : List α) : Prop :=
  maxAbs col = 0 ∨
    (2 * lo ≤ bucketSize N col ∧ 2 * bucketSize N col * lo ≤ 1 ∧ (N : α) * lo ≤ 1 ∧
      ∀ x ∈ col, x = 0 ∨ 4 * lo * bucketSize N col ≤ |x|)

instance (lo : α) (N : Nat) (col : List α) : Decidable (NormalCol lo N col) := by
  unfold NormalCol; infer_instance

/-- the Boolean guard the driver evaluates is the guard of the theorems -/
theorem normalColB_iff (lo : ℚ) (N : Nat) (col : List ℚ) :
    normalColB lo N col = true ↔ NormalCol lo N col := by
  unfold normalColB NormalCol
  simp only [Bool.or_eq_true, Bool.and_eq_true, decide_eq_true_eq, List.all_eq_true, absG_eq, and_assoc]

section columnGuard
variable {N : Nat} (hN : 1 ≤ N) (col : List α) {fl : α → α} {u lo : α}
include hN

/-- the hypotheses of the algebraic core hold for what the model computes, under the guard -/
theorem quantEntryFl_spec_guard (hu : 0 ≤ u) (hu16 : u ≤ 1 / 16) (hlo : 0 ≤ lo) (hfl : FlOKAbove fl u lo)
    (rb rr : Bool) (hm : 0 < maxAbs col)
    (g1 : 2 * lo ≤ bucketSize N col) (g2 : 2 * bucketSize N col * lo ≤ 1) (g4 : (N : α) * lo ≤ 1)
    {x : α} (g3 : x = 0 ∨ 4 * lo * bucketSize N col ≤ |x|) :
    let B := bucketSizeFl fl rb N col
    let rh := divFl fl rr x B
    let q := quantEntryFl fl rr B x
    opErr rb u < 1 ∧
    |B - bucketSize N col| ≤ opErr rb u * bucketSize N col ∧
    |rh - x / B| ≤ opErr rr u * |x / B| ∧
    |(q : α) - rh| ≤ 1 / 2 ∧
    |dequantEntryFl fl B q - (q : α) * B| ≤ u * |(q : α) * B| := by
  intro B rh q
  have hNp : (0 : α) < (N : α) := natCast_pos'' hN
  have hbpos : 0 < bucketSize N col := (bucketSize_pos_iff hN col).mpr hm
  have he1 : opErr rb u ≤ 1 / 4 := le_trans (opErr_le hu rb) (by nlinarith)
  have hub1 : opErr rb u < 1 := by linarith
  -- bucket
  have hB : |B - bucketSize N col| ≤ opErr rb u * bucketSize N col := by
    have h : |bucketSizeFl fl rb N col - bucketSize N col| ≤ opErr rb u * |bucketSize N col| := by
      refine divFl_err_guard hu (by linarith) hlo hfl rb (maxAbs col) (N : α) (Or.inr ?_) ?_
      · have : |maxAbs col / (N : α)| = bucketSize N col := abs_of_pos hbpos
        rw [this]; exact g1
      · rw [abs_of_pos (by positivity), le_div_iff₀ hNp]; linarith
    rwa [abs_of_pos hbpos] at h
  obtain ⟨hBpos, hBge, hBle⟩ := fp_bh_bounds hbpos hub1 hB
  have hBge2 : bucketSize N col / 2 ≤ B := by nlinarith
  have hBle2 : B ≤ 2 * bucketSize N col := by nlinarith
  have hnz : bucketNZ B = B := by unfold bucketNZ; rw [if_pos hBpos]
  -- ratio
  have hR : |rh - x / B| ≤ opErr rr u * |x / B| := by
    refine divFl_err_guard hu (by linarith) hlo hfl rr x B ?_ ?_
    · rcases g3 with h | h
      · exact Or.inl h
      · right
        rw [abs_div, abs_of_pos hBpos, le_div_iff₀ hBpos]
        nlinarith
    · rw [abs_of_pos (by positivity), le_div_iff₀ hBpos]
      nlinarith
  refine ⟨hub1, hB, hR, ?_, ?_⟩
  · have : q = roundHalfEven rh := by
      show roundHalfEven (divFl fl rr x (bucketNZ B)) = roundHalfEven (divFl fl rr x B)
      rw [hnz]
    rw [this]
    exact round_err rh
  · refine hfl _ ?_
    by_cases hq : q = 0
    · left; rw [hq]; simp
    · right
      rw [abs_mul, abs_of_pos hBpos]
      have h1 : (1 : α) ≤ |(q : α)| := by
        have : (1 : Int) ≤ |q| := Int.one_le_abs hq
        have h' : ((1 : Int) : α) ≤ ((|q| : Int) : α) := Int.cast_le.mpr this
        simpa using h'
      nlinarith

end columnGuard

theorem quantEntryFl_zero' {fl : α → α} (h0 : fl 0 = 0) (rr : Bool) (b : α) :
    quantEntryFl fl rr b (0 : α) = 0 := by
  unfold quantEntryFl divFl
  cases rr <;> simp [h0, round_zero]

theorem dequantEntryFl_zero' {fl : α → α} (h0 : fl 0 = 0) (b : α) : dequantEntryFl fl b 0 = 0 := by
  unfold dequantEntryFl; simp [h0]

theorem dequantizeFl_sub' {fl : α → α} (h0 : fl 0 = 0) (rb rr : Bool)
    (N rows cols : Nat) (ed : Bool) (x : Nat → Nat → α) (i c : Nat) :
    dequantizeFl fl ed (quantizeFl fl rb rr N rows cols ed x) i c - x i c
      = dequantEntryFl fl (bucketSizeFl fl rb N (column rows (pre ed x) c))
          (quantEntryFl fl rr (bucketSizeFl fl rb N (column rows (pre ed x) c)) (pre ed x i c))
        - pre ed x i c := by
  conv_lhs => rw [pre_add ed x i c]
  cases ed
  · simp [dequantizeFl]
  · by_cases hic : i = c
    · subst hic
      simp [dequantizeFl, pre_diag, quantEntryFl_zero' h0, dequantEntryFl_zero' h0]
    · simp [dequantizeFl, hic]

/-! ### re-quantization of a dequantized column keeps the integers (rounded arithmetic) -/

/-- a number within `< 1/2` of an integer rounds to it -/
theorem round_eq_of_near {r : α} {q : Int} (h : |r - (q : α)| < 1 / 2) : roundHalfEven r = q := by
  have h1 := abs_le.mp (round_err r)
  have h2 := abs_lt.mp h
  have lo : ((q - 1 : Int) : α) < ((roundHalfEven r : Int) : α) := by push_cast; linarith [h1.1, h2.1]
  have hi : ((roundHalfEven r : Int) : α) < ((q + 1 : Int) : α) := by push_cast; linarith [h1.2, h2.2]
  have := Int.cast_lt.mp lo
  have := Int.cast_lt.mp hi
  omega

/-- algebraic core: `y ≈ q·B` (error `u`), new bucket `B' ≈ B` (error `κ ≤ 4u`), new ratio `r' ≈ y / B'`
(error `e ≤ 3u`), `|q| ≤ N`, `N·u ≤ 1/32`  ⟹  `|r' - q| < 1/2` -/
theorem fp_requant_core {N : Nat} {B B' y r' u e κ : α} {q : Int} (hN : 1 ≤ N)
    (hu : 0 ≤ u) (hNu : (N : α) * u ≤ 1 / 32) (he0 : 0 ≤ e) (he : e ≤ 3 * u) (hκ0 : 0 ≤ κ) (hκ : κ ≤ 4 * u)
    (hB : 0 < B) (hq : |q| ≤ (N : Int))
    (hy : |y - (q : α) * B| ≤ u * |(q : α) * B|)
    (hB' : |B' - B| ≤ κ * B)
    (hr : |r' - y / B'| ≤ e * |y / B'|) :
    |r' - (q : α)| < 1 / 2 := by
  have hN1 : (1 : α) ≤ (N : α) := by exact_mod_cast hN
  have hu32 : u ≤ 1 / 32 := by nlinarith
  have hκ8 : κ ≤ 1 / 8 := by linarith
  have hqN : |(q : α)| ≤ (N : α) := by
    have h' : ((|q| : Int) : α) ≤ ((N : Int) : α) := Int.cast_le.mpr hq
    simpa using h'
  obtain ⟨hB'pos, hB'ge, _⟩ := fp_bh_bounds hB (by linarith) hB'
  -- d = y / B' - q
  have hd1 : |y - (q : α) * B'| ≤ (N : α) * B * (u + κ) := by
    have t1 : |y - (q : α) * B'| ≤ |y - (q : α) * B| + |(q : α) * B - (q : α) * B'| := abs_sub_le _ _ _
    have t2 : |(q : α) * B - (q : α) * B'| ≤ (N : α) * (κ * B) := by
      rw [← mul_sub, abs_mul, abs_sub_comm]
      exact mul_le_mul hqN hB' (abs_nonneg _) (by linarith)
    have t3 : u * |(q : α) * B| ≤ u * ((N : α) * B) := by
      apply mul_le_mul_of_nonneg_left _ hu
      rw [abs_mul, abs_of_pos hB]
      exact mul_le_mul_of_nonneg_right hqN hB.le
    nlinarith
  have hd2 : |y / B' - (q : α)| * B' = |y - (q : α) * B'| := by
    have : y / B' - (q : α) = (y - (q : α) * B') / B' := by field_simp
    rw [this, abs_div, abs_of_pos hB'pos, div_mul_cancel₀ _ hB'pos.ne']
  have hd3 : |y / B' - (q : α)| * (1 - κ) ≤ (N : α) * (u + κ) := by
    have h : |y / B' - (q : α)| * (B * (1 - κ)) ≤ (N : α) * B * (u + κ) := by
      calc |y / B' - (q : α)| * (B * (1 - κ)) ≤ |y / B' - (q : α)| * B' :=
            mul_le_mul_of_nonneg_left hB'ge (abs_nonneg _)
        _ = |y - (q : α) * B'| := hd2
        _ ≤ (N : α) * B * (u + κ) := hd1
    have h' : (|y / B' - (q : α)| * (1 - κ)) * B ≤ ((N : α) * (u + κ)) * B := by linarith
    exact le_of_mul_le_mul_right h' hB
  have hNκ : (N : α) * κ ≤ 4 * ((N : α) * u) := by
    have := mul_le_mul_of_nonneg_left hκ (by linarith : (0 : α) ≤ (N : α))
    linarith
  have hd4 : |y / B' - (q : α)| ≤ 5 / 28 := by
    have : |y / B' - (q : α)| * (7 / 8) ≤ |y / B' - (q : α)| * (1 - κ) :=
      mul_le_mul_of_nonneg_left (by linarith) (abs_nonneg _)
    nlinarith
  have hyB : |y / B'| ≤ (N : α) + |y / B' - (q : α)| := by
    have := abs_sub_abs_le_abs_sub (y / B') (q : α)
    linarith
  have tri : |r' - (q : α)| ≤ |r' - y / B'| + |y / B' - (q : α)| := abs_sub_le _ _ _
  have hr2 : |r' - y / B'| ≤ 3 * u * ((N : α) + 5 / 28) := by
    calc |r' - y / B'| ≤ e * |y / B'| := hr
      _ ≤ 3 * u * ((N : α) + 5 / 28) :=
        mul_le_mul he (by linarith) (abs_nonneg _) (by linarith)
  nlinarith

section requant
variable {N : Nat} (hN : 1 ≤ N) (col : List α) {fl : α → α} {u : α}
include hN

/-- Re-quantizing the dequantized column (any division variants `rb'`, `rr'` the second time) returns the
same integer for every entry. -/
theorem quantEntryFl_requant (hu : 0 ≤ u) (hNu : (N : α) * u ≤ 1 / 32) (hfl : ∀ t, FlOK fl u t)
    (rb rr rb' rr' : Bool) (hm : 0 < maxAbs col) {x : α} (hx : x ∈ col) :
    let B := bucketSizeFl fl rb N col
    let col' := col.map fun z => dequantEntryFl fl B (quantEntryFl fl rr B z)
    quantEntryFl fl rr' (bucketSizeFl fl rb' N col') (dequantEntryFl fl B (quantEntryFl fl rr B x))
      = quantEntryFl fl rr B x := by
  intro B col'
  have hN1 : (1 : α) ≤ (N : α) := by exact_mod_cast hN
  have hNp : (0 : α) < (N : α) := by linarith
  have hNu16 : (N : α) * u ≤ 1 / 16 := by linarith
  have hu32 : u ≤ 1 / 32 := by nlinarith
  have huu : u ^ 2 ≤ u / 32 := by nlinarith
  have hE : ∀ r : Bool, opErr r u ≤ 3 * u := fun r => le_trans (opErr_le hu r) (by nlinarith)
  have hub1 : opErr rb u < 1 := by have := hE rb; linarith
  have hcond := xla_cond (α := α) hN hu hNu16 rb rr
  have hBpos : 0 < B := bucketSizeFl_pos hN col hu hfl rb hub1 hm
  -- every dequantized entry: |y - qB| ≤ u|qB|, |q| ≤ N
  have hq : ∀ z ∈ col, |quantEntryFl fl rr B z| ≤ (N : Int) := fun z hz =>
    quantEntryFl_abs_le hN col hu hfl rb rr hub1 hcond hm hz
  have hy : ∀ z, |dequantEntryFl fl B (quantEntryFl fl rr B z) - ((quantEntryFl fl rr B z : Int) : α) * B|
      ≤ u * |((quantEntryFl fl rr B z : Int) : α) * B| := fun z => hfl _
  have hqa : ∀ z ∈ col, |((quantEntryFl fl rr B z : Int) : α)| ≤ (N : α) := fun z hz => by
    have h' : ((|quantEntryFl fl rr B z| : Int) : α) ≤ ((N : Int) : α) := Int.cast_le.mpr (hq z hz)
    simpa using h'
  -- the new column maximum m' lies in [N B (1-u), N B (1+u)]
  have hup : ∀ w ∈ col', |w| ≤ (N : α) * B * (1 + u) := by
    intro w hw
    obtain ⟨z, hz, rfl⟩ := List.mem_map.mp hw
    have h1 := hy z
    have h2 : |((quantEntryFl fl rr B z : Int) : α) * B| ≤ (N : α) * B := by
      rw [abs_mul, abs_of_pos hBpos]; exact mul_le_mul_of_nonneg_right (hqa z hz) hBpos.le
    have h3 := abs_sub_abs_le_abs_sub (dequantEntryFl fl B (quantEntryFl fl rr B z))
      (((quantEntryFl fl rr B z : Int) : α) * B)
    nlinarith
  have hm'up : maxAbs col' ≤ (N : α) * B * (1 + u) := by
    rcases maxAbs_attained col' with h | ⟨w, hw, h⟩
    · rw [h]; positivity
    · rw [← h]; exact hup w hw
  obtain ⟨z, hz, hzN⟩ := quantEntryFl_max hN col hu hfl rb rr hub1 hcond hm
  have hm'lo : (N : α) * B * (1 - u) ≤ maxAbs col' := by
    have hmem : dequantEntryFl fl B (quantEntryFl fl rr B z) ∈ col' := List.mem_map.mpr ⟨z, hz, rfl⟩
    refine le_trans ?_ (le_maxAbs hmem)
    have h1 := hy z
    have h2 : |((quantEntryFl fl rr B z : Int) : α) * B| = (N : α) * B := by
      rw [abs_mul, abs_of_pos hBpos]
      have : ((|quantEntryFl fl rr B z| : Int) : α) = ((N : Int) : α) := by rw [hzN]
      have h' : |((quantEntryFl fl rr B z : Int) : α)| = (N : α) := by simpa using this
      rw [h']
    have h3 := abs_sub_abs_le_abs_sub (((quantEntryFl fl rr B z : Int) : α) * B)
      (dequantEntryFl fl B (quantEntryFl fl rr B z))
    rw [abs_sub_comm] at h3
    rw [h2] at h1 h3
    nlinarith
  have hm' : 0 < maxAbs col' := lt_of_lt_of_le (by
    have : 0 < (N : α) * B * (1 - u) := by
      apply mul_pos (mul_pos hNp hBpos); linarith
    exact this) hm'lo
  -- new exact bucket b' = m'/N ∈ [B(1-u), B(1+u)], new computed bucket B'
  have hb'lo : B * (1 - u) ≤ bucketSize N col' := by
    unfold bucketSize; rw [le_div_iff₀ hNp]; linarith
  have hb'up : bucketSize N col' ≤ B * (1 + u) := by
    unfold bucketSize; rw [div_le_iff₀ hNp]; linarith
  have hB'e := bucketSizeFl_err hN col' hu hfl rb'
  have hκ : |bucketSizeFl fl rb' N col' - B| ≤ (u + opErr rb' u + u * opErr rb' u) * B := by
    have t := abs_sub_le (bucketSizeFl fl rb' N col') (bucketSize N col') B
    have t2 : |bucketSize N col' - B| ≤ u * B := by
      rw [abs_le]; constructor <;> nlinarith
    have t3 : opErr rb' u * bucketSize N col' ≤ opErr rb' u * (B * (1 + u)) :=
      mul_le_mul_of_nonneg_left hb'up (opErr_nonneg hu rb')
    nlinarith
  have hκ4 : u + opErr rb' u + u * opErr rb' u ≤ 4 * u := by
    have := hE rb'
    have h0 := opErr_nonneg hu rb'
    have h2 := opErr_le hu rb'
    nlinarith
  have hB'pos : 0 < bucketSizeFl fl rb' N col' :=
    bucketSizeFl_pos hN col' hu hfl rb' (by have := hE rb'; linarith) hm'
  have hnz : bucketNZ (bucketSizeFl fl rb' N col') = bucketSizeFl fl rb' N col' := by
    unfold bucketNZ; rw [if_pos hB'pos]
  show roundHalfEven (divFl fl rr' (dequantEntryFl fl B (quantEntryFl fl rr B x))
      (bucketNZ (bucketSizeFl fl rb' N col'))) = quantEntryFl fl rr B x
  rw [hnz]
  apply round_eq_of_near
  exact fp_requant_core hN hu hNu (opErr_nonneg hu rr') (hE rr')
    (by have := opErr_nonneg hu rb'; positivity) hκ4 hBpos (hq x hx) (hy x) hκ
    (divFl_err hu hfl rr' _ _)

end requant

/-- what gets bucketed when a dequantized value is quantized again, in rounded arithmetic -/
theorem pre_dequantizeFl {fl : α → α} (h0 : fl 0 = 0) (rb rr : Bool) (N rows cols : Nat) (ed : Bool)
    (x : Nat → Nat → α) (i c : Nat) :
    pre ed (dequantizeFl fl ed (quantizeFl fl rb rr N rows cols ed x)) i c
      = dequantEntryFl fl (bucketSizeFl fl rb N (column rows (pre ed x) c))
          (quantEntryFl fl rr (bucketSizeFl fl rb N (column rows (pre ed x) c)) (pre ed x i c)) := by
  cases ed
  · simp [pre, dequantizeFl]
  · by_cases h : i = c
    · subst h
      simp [pre, dequantizeFl, offDiag, quantEntryFl_zero' h0, dequantEntryFl_zero' h0]
    · simp [pre, dequantizeFl, offDiag, h]

theorem column_pre_dequantizeFl {fl : α → α} (h0 : fl 0 = 0) (rb rr : Bool) (N rows cols : Nat) (ed : Bool)
    (x : Nat → Nat → α) (c : Nat) :
    column rows (pre ed (dequantizeFl fl ed (quantizeFl fl rb rr N rows cols ed x))) c
      = (column rows (pre ed x) c).map fun y =>
          dequantEntryFl fl (bucketSizeFl fl rb N (column rows (pre ed x) c))
            (quantEntryFl fl rr (bucketSizeFl fl rb N (column rows (pre ed x) c)) y) := by
  unfold column
  rw [List.map_map]
  apply List.map_congr_left
  intro i _
  exact pre_dequantizeFl h0 rb rr N rows cols ed x i c

end

end PrecondVerif.Quant
