/-
Round 4, item (1): frequent-directions slots of Distributed Shampoo through C03's gated, warm-started (optionally
periodically reset) slot machine, with C09's guarded `_fd_update_root` as the kernel.
-/
import PrecondVerif.Props.C09
import PrecondVerif.Props.C03

set_option linter.unusedSectionVars false

namespace PrecondVerif.Compose
open PrecondVerif.FD PrecondVerif.Gate Matrix

section FDSlot
variable {R : Type} [Field R] [LinearOrder R] [IsStrictOrderedRing R] [StarRing R] [TrivialStar R]
  [StarOrderedRing R] {d k : ℕ}

/-- the frequent-directions root of Distributed Shampoo (guarded `_fd_update_root`) as the warm-started root routine of a
C03 slot: the sketch being updated IS the stored value; `Gs count` is the gradient factor of the step, the reported error
and the `efficient_cond` carry are adversarial -/
def fdWarmRoot (svd : SvdFn R d (k + d)) (sqrt pw : R → R) (g : Guards R) (cfg : DsCfg R) (Gs : Nat → Mat R d d)
    (errOf : Nat → DsOut R d k → XF) (junk : Nat → DsOut R d k) : WarmRoot (DsOut R d k) :=
  fun count prev =>
    ⟨dsFdUpdateRootG sqrt pw g cfg prev.st (svd (dsB sqrt cfg prev.st (Gs count))),
     errOf count (dsFdUpdateRootG sqrt pw g cfg prev.st (svd (dsB sqrt cfg prev.st (Gs count)))), junk count⟩

/-- "`C` is bracketed by the sketch `st`": `V diag(l) Vᵀ ≤ C ≤ V diag(l) Vᵀ + t·I` -/
def Brackets (st : State R d k) (C : Matrix (Fin d) (Fin d) R) : Prop :=
  (C - toM (sketch st)).PosSemidef ∧ (toM (sketch st) + st.t • (1 : Matrix (Fin d) (Fin d) R) - C).PosSemidef

/-- what the per-step ridge and the re-masking of `_fd_update_root` add to the sketch before it is decayed -/
def ridgeShift (cfg : DsCfg R) (st : State R d k) : Matrix (Fin d) (Fin d) R :=
  toM (sketch (dsInput cfg st)) - toM (sketch st)

/-- did the gate accept the root result of this step? -/
def fdAccepted (thr : XF) (itv count : Nat) (i : Inp (DsOut R d k)) : Bool :=
  performStep itv count && (!i.err.isNaN && i.err.lt thr)

/-- is `count` a reset step (`count % reset_frequency = 0` when `reset_preconditioner` is on)? -/
def isReset (rf : Option Nat) (count : Nat) : Bool :=
  match rf with
  | none => false
  | some f => count % f == 0

/-- the matrix the stored sketch is claimed to bracket, along a run of the gated (optionally periodically reset)
warm-start slot machine: an ACCEPTED refresh step replaces `C` by `β·(C_w + ridgeShift) + G̃ G̃ᵀ`, where `C_w = 0` on a
reset step (`count % reset_frequency = 0`: the warm start is the zero sketch) and `C_w = C` otherwise; every other step
(not a refresh step, or rejected: NaN / too large error) leaves `C` untouched -/
def fdCovRun (thr : XF) (itv : Nat) (rf : Option Nat) (zero : DsOut R d k → DsOut R d k) (cfg : DsCfg R)
    (Gs : Nat → Mat R d d) (root : WarmRoot (DsOut R d k)) :
    Nat → Slot (DsOut R d k) → Matrix (Fin d) (Fin d) R → Nat → Matrix (Fin d) (Fin d) R
  | _, _, C, 0 => C
  | count, s, C, n + 1 =>
    let w := warmStart rf zero count s.precond
    let Cw : Matrix (Fin d) (Fin d) R := if isReset rf count then 0 else C
    let C' := if fdAccepted thr itv count (root count w) then
        cfg.β • (Cw + ridgeShift cfg w.st) + toM (outer (dsMaskG cfg.ps (Gs count))) else C
    fdCovRun thr itv rf zero cfg Gs root (count + 1) (slotStepReset select thr itv rf zero count root s) C' n

theorem warmStart_eq {π : Type} (rf : Option Nat) (zero : π → π) (count : Nat) (p : π) :
    warmStart rf zero count p = if isReset rf count then zero p else p := by
  cases rf <;> simp [warmStart, isReset]

theorem slotStepReset_precond {π : Type} (thr : XF) (hthr : thr.isNaN = false) (itv : Nat) (rf : Option Nat)
    (zero : π → π) (count : Nat) (root : WarmRoot π) (s : Slot π) :
    (slotStepReset select thr itv rf zero count root s).precond =
      if performStep itv count && (!(root count (warmStart rf zero count s.precond)).err.isNaN &&
          (root count (warmStart rf zero count s.precond)).err.lt thr)
      then (root count (warmStart rf zero count s.precond)).cand else s.precond := by
  unfold slotStepReset slotStep
  simp only [candidate_eq]
  by_cases hp : performStep itv count = true
  · simp only [hp, if_true, Bool.true_and]
    exact C03.gate_decision _ thr hthr _ _
  · have hp' : performStep itv count = false := by cases h : performStep itv count <;> simp_all
    simp only [hp', Bool.false_and, Bool.false_eq_true, if_false]
    exact select_of_skip _ _ (skip_self hthr)

theorem brackets_zero : Brackets (State.zero d k : State R d k) 0 := by
  unfold Brackets
  rw [sketch_eq, sketchM_zero]
  simp only [State.zero, sub_zero, zero_smul, add_zero]
  exact ⟨PosSemidef.zero, PosSemidef.zero⟩

/-- the invariant kept along the run -/
def FdGood (st : State R d k) : Prop := (∀ a, 0 ≤ st.l a) ∧ 0 ≤ st.t

theorem dsInput_l_nonneg (cfg : DsCfg R) (he : 0 ≤ cfg.ridgeEps) (htol : 0 ≤ cfg.tol) (st : State R d k)
    (hl : ∀ a, 0 ≤ st.l a) (a : Fin k) : 0 ≤ (dsInput cfg st).l a := by
  simp only [dsInput]
  apply mul_nonneg
  · apply add_nonneg (hl a)
    unfold dsRidge
    exact mul_nonneg he (le_trans htol (le_max_right _ _))
  · unfold active; split <;> simp

/-- one accepted FD step keeps the bracket (C09's guarded bracket, with the ridge shift made part of `C`) -/
theorem fd_step_brackets (svd : SvdFn R d (k + d)) (sqrt pw : R → R) (hsq : ∀ x, 0 ≤ x → sqrt x * sqrt x = x)
    (hs0 : ∀ x, 0 ≤ sqrt x) (g : Guards R) (hlo : g.lo ≤ 1) (hhi : 1 ≤ g.hi) (hgt : 0 ≤ g.thr) (cfg : DsCfg R)
    (hβ : 0 ≤ cfg.β) (hps : cfg.ps ≠ 0) (he : 0 ≤ cfg.ridgeEps) (htol : 0 ≤ cfg.tol) (hk : k ≤ d)
    (hsvd : ∀ (st : State R d k) (G : Mat R d d), SvdSpec (dsB sqrt cfg st G) (svd (dsB sqrt cfg st G)))
    (st : State R d k) (G : Mat R d d) (C : Matrix (Fin d) (Fin d) R) (hg : FdGood st) (hb : Brackets st C) :
    Brackets (dsFdUpdateRootG sqrt pw g cfg st (svd (dsB sqrt cfg st G))).st
        (cfg.β • (C + ridgeShift cfg st) + toM (outer (dsMaskG cfg.ps G))) ∧
      FdGood (dsFdUpdateRootG sqrt pw g cfg st (svd (dsB sqrt cfg st G))).st := by
  have hC1 : (C + ridgeShift cfg st - toM (sketch (dsInput cfg st))).PosSemidef := by
    have : C + ridgeShift cfg st - toM (sketch (dsInput cfg st)) = C - toM (sketch st) := by
      unfold ridgeShift; abel
    rw [this]; exact hb.1
  have hC2 : (toM (sketch (dsInput cfg st)) + st.t • (1 : Matrix (Fin d) (Fin d) R) - (C + ridgeShift cfg st)).PosSemidef := by
    have : toM (sketch (dsInput cfg st)) + st.t • (1 : Matrix (Fin d) (Fin d) R) - (C + ridgeShift cfg st) =
        toM (sketch st) + st.t • (1 : Matrix (Fin d) (Fin d) R) - C := by
      unfold ridgeShift; abel
    rw [this]; exact hb.2
  refine ⟨C09.ds_fd_update_root_guarded_bracket sqrt pw hsq hs0 g hlo hhi hgt cfg hβ hps hk st
    (dsInput_l_nonneg cfg he htol st hg.1) hg.2 G _ (hsvd st G) _ hC1 hC2, ?_⟩
  rw [C09.ds_guards_are_identities sqrt pw hsq hs0 g hlo hhi hgt cfg hβ hk st hg.2 G _ (hsvd st G)]
  constructor
  · intro a
    simp only [dsFdUpdateRootO, hps, if_false]
    exact stepO_l_nonneg cfg.β st.t _ a
  · simp only [dsFdUpdateRootO, hps, if_false]
    split
    · rename_i h; exact le_of_lt h
    · exact le_refl _

/-- **the stored FD sketch brackets the accepted history** -/
theorem fd_run_brackets (svd : SvdFn R d (k + d)) (sqrt pw : R → R) (hsq : ∀ x, 0 ≤ x → sqrt x * sqrt x = x)
    (hs0 : ∀ x, 0 ≤ sqrt x) (g : Guards R) (hlo : g.lo ≤ 1) (hhi : 1 ≤ g.hi) (hgt : 0 ≤ g.thr) (cfg : DsCfg R)
    (hβ : 0 ≤ cfg.β) (hps : cfg.ps ≠ 0) (he : 0 ≤ cfg.ridgeEps) (htol : 0 ≤ cfg.tol) (hk : k ≤ d)
    (hsvd : ∀ (st : State R d k) (G : Mat R d d), SvdSpec (dsB sqrt cfg st G) (svd (dsB sqrt cfg st G)))
    (thr : XF) (hthr : thr.isNaN = false) (itv : Nat) (rf : Option Nat) (zero : DsOut R d k → DsOut R d k)
    (hz : ∀ p, (zero p).st = State.zero d k) (Gs : Nat → Mat R d d) (errOf : Nat → DsOut R d k → XF)
    (junk : Nat → DsOut R d k) :
    ∀ (n count : Nat) (s : Slot (DsOut R d k)) (C : Matrix (Fin d) (Fin d) R),
      FdGood s.precond.st → Brackets s.precond.st C →
      FdGood (slotRunReset select thr itv rf zero (fdWarmRoot svd sqrt pw g cfg Gs errOf junk) count s n).precond.st ∧
      Brackets (slotRunReset select thr itv rf zero (fdWarmRoot svd sqrt pw g cfg Gs errOf junk) count s n).precond.st
        (fdCovRun thr itv rf zero cfg Gs (fdWarmRoot svd sqrt pw g cfg Gs errOf junk) count s C n)
  | 0, _, _, _, hg, hb => ⟨hg, hb⟩
  | n + 1, count, s, C, hg, hb => by
    show FdGood (slotRunReset select thr itv rf zero _ (count + 1) (slotStepReset select thr itv rf zero count _ s) n).precond.st ∧
      Brackets (slotRunReset select thr itv rf zero _ (count + 1) (slotStepReset select thr itv rf zero count _ s) n).precond.st
        (fdCovRun thr itv rf zero cfg Gs _ (count + 1) (slotStepReset select thr itv rf zero count _ s) _ n)
    have hw : FdGood (warmStart rf zero count s.precond).st ∧
        Brackets (warmStart rf zero count s.precond).st (if isReset rf count then 0 else C) := by
      rw [warmStart_eq]
      by_cases hr : isReset rf count = true
      · rw [if_pos hr, if_pos hr, hz]
        exact ⟨⟨fun _ => le_refl _, le_refl _⟩, brackets_zero⟩
      · rw [if_neg hr, if_neg hr]; exact ⟨hg, hb⟩
    have hstep := fd_step_brackets svd sqrt pw hsq hs0 g hlo hhi hgt cfg hβ hps he htol hk hsvd
      (warmStart rf zero count s.precond).st (Gs count) _ hw.1 hw.2
    apply fd_run_brackets svd sqrt pw hsq hs0 g hlo hhi hgt cfg hβ hps he htol hk hsvd thr hthr itv rf zero hz Gs errOf
      junk n (count + 1)
    · rw [slotStepReset_precond thr hthr]
      split
      · exact hstep.2
      · exact hg
    · rw [slotStepReset_precond thr hthr]
      unfold fdAccepted
      split
      · exact hstep.1
      · exact hb

end FDSlot
end PrecondVerif.Compose
