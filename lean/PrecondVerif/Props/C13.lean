/-
C13 — device-count invariance of the distributed preconditioner computation.

Model: `Model/Devices.lean` (executed by `drv_c13` on tagged statistics). Everything here is index
algebra on `List`/`Nat` and holds for every number of devices `D ≥ 1`, every number of statistics
`N` (all residues mod `D`, including `N < D` and the empty tree), every per-matrix computation
`f : α → β` (Newton / eigh root, quantized wrapper, low-rank root — `α` carries the statistic, its
exponent, its padding start and the previous preconditioner) and every filler element.

Not provable here (decided on executed inputs by the harness only): that XLA evaluates `f` on a
matrix to the same bits whatever the size of the batch it sits in.
-/
import PrecondVerif.Lemmas.Devices

namespace PrecondVerif.C13
open PrecondVerif.Devices

variable {α β γ δ : Type}

/-! ### padding count -/

/-- `to_pad = -N % D` pads to a multiple of `D` with fewer than `D` fillers. -/
theorem toPad_spec (N D : Nat) (hD : 1 ≤ D) : (N + toPad N D) % D = 0 ∧ toPad N D < D :=
  ⟨toPad_add_mod N D hD, toPad_lt N D hD⟩

/-- … and it is the least such count (no replica computes more fillers than necessary). -/
theorem toPad_minimal (N D k : Nat) (hD : 1 ≤ D) (h : (N + k) % D = 0) : toPad N D ≤ k :=
  toPad_le_of_mod N D k hD h

/-- The model's `toPad` is Python's `-N % D` (floor-mod; `Int.emod` for a positive divisor). -/
theorem toPad_eq_python_mod (N D : Nat) (hD : 1 ≤ D) : (toPad N D : Int) = (-(N : Int)) % (D : Int) := by
  obtain ⟨k, hk⟩ := dvd_add_toPad N D hD
  have hlt := toPad_lt N D hD
  have h1 : (toPad N D : Int) = -(N : Int) + (k : Int) * (D : Int) := by
    have : ((N + toPad N D : Nat) : Int) = ((D * k : Nat) : Int) := by rw [hk]
    rw [Int.natCast_add, Int.natCast_mul] at this
    rw [Int.mul_comm (k : Int)]
    omega
  have h2 : (toPad N D : Int) % (D : Int) = (toPad N D : Int) :=
    Int.emod_eq_of_lt (Int.natCast_nonneg _) (by exact_mod_cast hlt)
  rw [← h2]
  conv => lhs; rw [h1]
  exact Int.add_mul_emod_self_right _ _ _

/-! ### batch / unbatch -/

/-- `batch` of a non-empty list whose length is a multiple of `D` is a `[D, n / D]` array … -/
theorem batch_shape (xs : List α) (D : Nat) (hD : 1 ≤ D) (hdvd : D ∣ xs.length) (hne : xs ≠ []) :
    (batch xs D).length = D ∧ ∀ r ∈ batch xs D, r.length = xs.length / D := by
  obtain ⟨b, hb, hl⟩ := exists_width xs D hdvd hne
  rw [batch_eq_chunks xs D b hD hb hl]
  have hq : xs.length / D = b := by rw [hl, Nat.mul_div_cancel_left _ hD]
  exact ⟨chunks_length b D xs, fun r hr => by rw [hq]; exact chunks_row_length b D xs hl r hr⟩

/-- … whose replica `d` holds the contiguous block `xs[d*b : (d+1)*b]`, `b = n / D`
(which statistic lands on which replica and slot). -/
theorem batch_index_map (xs : List α) (D d : Nat) (hD : 1 ≤ D) (hdvd : D ∣ xs.length) (hne : xs ≠ [])
    (hd : d < D) :
    deviceSlice (batch xs D) d = (xs.drop (d * (xs.length / D))).take (xs.length / D) := by
  obtain ⟨b, hb, hl⟩ := exists_width xs D hdvd hne
  have hq : xs.length / D = b := by rw [hl, Nat.mul_div_cancel_left _ hD]
  rw [batch_eq_chunks xs D b hD hb hl, hq]
  exact chunks_getD b D xs d hd

/-- The placement map the driver reports (`placeOf`): padded position `i` is computed on replica
`i / b` in slot `i % b`. -/
theorem batch_place_of_index (xs : List α) (D i : Nat) (hD : 1 ≤ D) (hdvd : D ∣ xs.length)
    (hi : i < xs.length) :
    (deviceSlice (batch xs D) (placeOf (xs.length / D) i).1)[(placeOf (xs.length / D) i).2]? = xs[i]? := by
  have hne : xs ≠ [] := by intro h; subst h; simp at hi
  obtain ⟨b, hb, hl⟩ := exists_width xs D hdvd hne
  have hq : xs.length / D = b := by rw [hl, Nat.mul_div_cancel_left _ hD]
  have hdlt : i / b < D := by
    apply (Nat.div_lt_iff_lt_mul hb).mpr
    rw [← hl]; exact hi
  simp only [placeOf]
  rw [batch_index_map xs D (i / (xs.length / D)) hD hdvd hne (by rw [hq]; exact hdlt), hq,
    List.getElem?_take_of_lt (Nat.mod_lt _ hb), List.getElem?_drop]
  congr 1
  rw [Nat.mul_comm]
  exact Nat.div_add_mod i b

/-- `unbatch ∘ batch = id` (both the `b2 > 1` and the `b2 = 1` branch of `unbatch`). -/
theorem batch_unbatch_id (xs : List α) (D : Nat) (hD : 1 ≤ D) (hdvd : D ∣ xs.length) (hne : xs ≠ []) :
    unbatch (batch xs D) = xs := by
  obtain ⟨b, hb, hl⟩ := exists_width xs D hdvd hne
  rw [batch_eq_chunks xs D b hD hb hl, unbatch_uniform _ b hb (chunks_row_length b D xs hl),
    chunks_flatten, List.take_of_length_le (by rw [hl]; exact Nat.le_refl _)]

/-! ### the data-parallel (pmap) computation -/

/-- The statement of DESIGN §5, literally: pad, batch, map `f` on every replica's slice, all-gather,
unbatch, keep the first `N` — equals mapping `f` over the statistics. -/
theorem pmap_gather_unbatch_take (f : α → β) (filler : α) (D : Nat) (xs : List α) (hD : 1 ≤ D)
    (hne : xs ≠ []) :
    (unbatch (allGather D fun d =>
        (deviceSlice (batch (xs ++ List.replicate (toPad xs.length D) filler) D) d).map f)).take xs.length
      = xs.map f := by
  have h := pmapAll_eq f filler D xs hD hne
  unfold pmapAll pmapGathered padTo at h
  rw [h, List.map_append, List.take_left' (by rw [List.length_map])]

/-- **Device-count invariance, replicated state**: what every replica stores for the `N` real
statistics is `f` of each of them, in order — for every `D ≥ 1` (so any two device counts agree),
every `N` including `N < D`, `D ∤ N` and the empty tree. -/
theorem pmap_result_independent_of_D (f : α → β) (filler : α) (D : Nat) (xs : List α) (hD : 1 ≤ D) :
    pmapCompute f filler D xs = xs.map f := by
  unfold pmapCompute
  cases xs with
  | nil => rfl
  | cons x xs =>
    rw [if_neg (by simp)]
    have h := pmap_gather_unbatch_take f filler D (x :: xs) hD (by simp)
    unfold pmapAll pmapGathered padTo
    exact h

theorem pmap_result_same_for_any_two_device_counts (f : α → β) (filler : α) (D D' : Nat) (xs : List α)
    (hD : 1 ≤ D) (hD' : 1 ≤ D') :
    pmapCompute f filler D xs = pmapCompute f filler D' xs := by
  rw [pmap_result_independent_of_D f filler D xs hD, pmap_result_independent_of_D f filler D' xs hD']

/-- The filler results are exactly the trailing `to_pad` entries of the unbatched list … -/
theorem fillers_at_the_end (f : α → β) (filler : α) (D : Nat) (xs : List α) (hD : 1 ≤ D) (hne : xs ≠ []) :
    pmapAll f filler D xs = xs.map f ++ List.replicate (toPad xs.length D) (f filler) := by
  rw [pmapAll_eq f filler D xs hD hne, padTo, List.map_append, List.map_replicate]

/-- … and they are discarded: the stored result depends neither on the filler (identity statistic,
exponent 1, padding start 0 in the code) nor on what the computation does on it. -/
theorem fillers_discarded (f f' : α → β) (filler filler' : α) (D : Nat) (xs : List α) (hD : 1 ≤ D)
    (hf : ∀ x ∈ xs, f' x = f x) :
    pmapCompute f' filler' D xs = pmapCompute f filler D xs := by
  rw [pmap_result_independent_of_D f filler D xs hD, pmap_result_independent_of_D f' filler' D xs hD]
  exact List.map_congr_left hf

/-- Quantized preconditioners: payload, diagonal and bucket sizes are gathered and unbatched
separately and zipped afterwards; the result is again `f` of each statistic. -/
theorem pmap_quantized_result_independent_of_D (f : α → β × γ × δ) (filler : α) (D : Nat) (xs : List α)
    (hD : 1 ≤ D) : pmapComputeQ f filler D xs = xs.map f := by
  unfold pmapComputeQ
  cases xs with
  | nil => rfl
  | cons x xs =>
    rw [if_neg (by simp)]
    have h := pmapAll_eq f filler D (x :: xs) hD (by simp)
    unfold pmapAll at h
    simp only [unbatch_map, h, zip3_proj]
    rw [padTo, List.map_append, List.take_left' (by rw [List.length_map])]

/-- The `batch_axis_name=None` branch (no collective, `unbatch` of a `[1, N]` array; `N = 1` takes the
`b2 = 1` branch). -/
theorem replicated_result (f : α → β) (xs : List α) : replicatedCompute f xs = xs.map f := by
  unfold replicatedCompute
  cases xs with
  | nil => rfl
  | cons x xs =>
    rw [if_neg (by simp)]
    have hl : (x :: xs).length = 1 * (x :: xs).length := (Nat.one_mul _).symm
    have hpos : 0 < (x :: xs).length := by simp
    rw [batch_eq_chunks (x :: xs) 1 _ (Nat.le_refl 1) hpos hl]
    have hrow : deviceSlice (chunks (x :: xs).length 1 (x :: xs)) 0 = x :: xs := by
      simp [chunks, deviceSlice]
    rw [hrow, unbatch_uniform [(x :: xs).map f] (x :: xs).length hpos (by simp), List.flatten_singleton]
    exact List.take_of_length_le (by rw [List.length_map]; exact Nat.le_refl _)

/-! ### the sharded (pjit) variant -/

/-- The global arrays have a positive length that is a multiple of `D`, equal to what
`shape_and_dtype_fn` declares; a tree without statistics gets exactly `D` fillers. -/
theorem sharded_padding_spec (filler : α) (xs : List α) (D : Nat) (hD : 1 ≤ D) :
    (shardedPad filler xs D).length % D = 0 ∧ 0 < (shardedPad filler xs D).length ∧
    (shardedPad filler xs D).length = shardedDeclared xs.length D ∧
    (xs = [] → (shardedPad filler xs D).length = D) := by
  refine ⟨Nat.mod_eq_zero_of_dvd (shardedPad_dvd filler xs D hD), ?_, ?_, ?_⟩
  · exact List.length_pos_iff.mpr (shardedPad_ne_nil filler xs D hD)
  · rw [shardedPad_length]
    unfold shardedToPad shardedDeclared
    by_cases h0 : xs.length = 0
    · simp [h0, toPad_eq_zero_of_mod 0 D (Nat.zero_mod D)]
    · simp only [h0, if_false]
      rw [if_neg (by omega)]
  · intro h; subst h; simp [shardedPad, shardedToPad]

/-- Partitioning over `D` devices, mapping per shard and recombining is the map over the padded list. -/
theorem sharded_compute_eq (f : α → β) (filler : α) (D : Nat) (xs : List α) (hD : 1 ≤ D) :
    shardedCompute f filler D xs =
      xs.map f ++ List.replicate (shardedToPad xs.length D) (f filler) := by
  unfold shardedCompute
  rw [flatten_gather_batch f _ D hD (shardedPad_dvd filler xs D hD) (shardedPad_ne_nil filler xs D hD),
    shardedPad, List.map_append, List.map_replicate]

/-- **Device-count invariance, sharded state**: every per-parameter view
`global[index_start : index_start + count]` that stays inside the `N` real statistics is the same for
any two declared device counts, namely the corresponding slice of `map f`. -/
theorem sharded_slices_independent_of_D (f : α → β) (filler : α) (D D' : Nat) (xs : List α)
    (hD : 1 ≤ D) (hD' : 1 ≤ D') (s c : Nat) (hsc : s + c ≤ xs.length) :
    slice s c (shardedCompute f filler D xs) = slice s c (xs.map f) ∧
    slice s c (shardedCompute f filler D xs) = slice s c (shardedCompute f filler D' xs) := by
  have key : ∀ E, 1 ≤ E → slice s c (shardedCompute f filler E xs) = slice s c (xs.map f) := by
    intro E hE
    rw [sharded_compute_eq f filler E xs hE]
    unfold slice
    rw [List.drop_append_of_le_length (by rw [List.length_map]; omega),
      List.take_append_of_le_length (by rw [List.length_drop, List.length_map]; omega)]
  exact ⟨key D hD, by rw [key D hD, key D' hD']⟩

/-! ### the hypotheses are satisfiable / concrete instances -/

example : toPad 7 3 = 2 ∧ toPad 6 3 = 0 ∧ toPad 2 8 = 6 ∧ toPad 0 5 = 0 := by decide

example : batch [0, 1, 2, 3, 4, 5] 3 = [[0, 1], [2, 3], [4, 5]] := by decide

/-- `b2 = 1` branch -/
example : unbatch (batch [0, 1, 2] 3) = [0, 1, 2] ∧ rowWidth (batch [0, 1, 2] 3) = 1 := by decide

/-- 7 statistics on 3 replicas: 2 fillers (tag 99), computed on the last replica and dropped -/
example : pmapGathered (· + 100) 99 3 [0, 1, 2, 3, 4, 5, 6] =
      [[100, 101, 102], [103, 104, 105], [106, 199, 199]] ∧
    pmapCompute (· + 100) 99 3 [0, 1, 2, 3, 4, 5, 6] = [100, 101, 102, 103, 104, 105, 106] := by decide

/-- without the padding the batched array would be ragged (3 rows for 2 replicas) -/
example : batch [0, 1, 2] 2 = [[0], [1], [2]] := by decide

/-- sharded: an empty tree on 4 devices holds 4 fillers; 5 statistics on 4 devices hold 3 -/
example : shardedCompute (· + 100) 99 4 [] = [199, 199, 199, 199] ∧
    shardedCompute (· + 100) 99 4 [0, 1, 2, 3, 4] = [100, 101, 102, 103, 104, 199, 199, 199] ∧
    shardedDeclared 0 4 = 4 ∧ shardedDeclared 5 4 = 8 := by decide

end PrecondVerif.C13
