/-
C15 — the Tearfree optimizer equals its documented composition

    update(t) = -lr(t) · momentum( weight decay( graft( second_order( merge and pad(g) ) ) ) ).

All theorems are about the definitions of `Model/Tearfree.lean` that `drv_c15` executes (`tearfreeTx`, `graftTx`,
`secondOrderTx`, `momentumTx`, `lrTx`, `rootOfEigh`, …), for every vector length, tensor shape, history and option
record.

Part A holds for EVERY scalar type carrying the arithmetic notation (in particular for the driver's `Float`): it is
pure bookkeeping — `sharded_chain` threads states positionally, `momentum.apply`'s run-time list of optax
transformations is the documented stage, the learning rate comes last.
Part B needs commutative-ring / ordered-field laws (ℚ, ℝ): exact linearity in the learning rate (constant or
scheduled), the momentum formulas of the docstring, the side of the weight decay.
Part C: merge / pad / unpad / unmerge round trip on flat data (built on C06).
Part D: the block inverse root under the `eigh` specification; the per-block cut; independence of the `eigh` output;
zero padding (full: the real block of the padded root is the root of the real block).
Part E: statistics closed form over histories and the refresh cadence (statistics first, then roots from them).

Gap (stated): optax's `trace`, `scale`, `add_decayed_weights`, `scale_by_schedule` are modelled from their documentation
(and compared bit for bit with the real chain on dyadic data by the harness); `adafactor` is opaque; floating-point
rounding is outside these exact theorems (tolerances in the harness).
-/
import PrecondVerif.Lemmas.Tearfree
import Mathlib.Analysis.SpecialFunctions.Pow.Real

set_option linter.unusedSectionVars false
set_option linter.overlappingInstances false

namespace PrecondVerif.C15
open PrecondVerif.Tearfree PrecondVerif.Shapes

/-! ## Part A — composition (any scalar type) -/
section Any
variable {α : Type} [Zero α] [One α] [Add α] [Sub α] [Mul α] [Neg α] [LT α] [DecidableLT α] [BEq α]

/-- `sharded_chain(a, b, c)`: stage `k` receives the updates produced by stage `k-1`, the `k`-th entry of the state tuple
and the unchanged params; the new state tuple holds the stages' new states in the same positions. -/
theorem sharded_chain_positional {S₁ S₂ S₃ U P : Type} (a : Tx S₁ U P) (b : Tx S₂ U P) (c : Tx S₃ U P)
    (u : U) (s : S₁ × S₂ × S₃) (p : P) :
    (chain3 a b c).update u s p =
      ((c.update (b.update (a.update u s.1 p).1 s.2.1 p).1 s.2.2 p).1,
       ((a.update u s.1 p).2, (b.update (a.update u s.1 p).1 s.2.1 p).2,
        (c.update (b.update (a.update u s.1 p).1 s.2.1 p).1 s.2.2 p).2)) :=
  chain3_update a b c u s p

/-- a run-time `sharded_chain(*transforms)` keeps one state entry per transformation -/
theorem sharded_chain_state_length {S U P : Type} (l : List (Tx S U P)) (u : U) (ss : List S) (p : P)
    (h : ss.length = l.length) : ((chainL l).update u ss p).2.length = l.length :=
  chainLGo_length l u ss p h

/-- `momentum.apply(options)` — the chain of `optax.scale(1 - decay)` (ema), `optax.trace(decay, nesterov)` and
`optax.add_decayed_weights` in the configured order — IS the documented momentum stage, for all 32 option patterns;
the velocity stays at its position of the state tuple. -/
theorem momentum_chain_is_documented_stage (o : MomOpts α) (u tr x : List α) :
    (momentumTx o).update u (momState o tr) x =
      ((specMomentumStage o u tr x).1, momState o (specMomentumStage o u tr x).2) :=
  momentumTx_update o u tr x

/-- `tearfree(lr, options)`, any graft stage `G`: the update is `-lr(n)` times the momentum stage of the graft stage's
output; the graft stage's state, the velocity and the schedule counter are each advanced by their own stage only. -/
theorem tearfree_is_composition_generic {GS : Type} (G : Tx GS (List α) (List α)) (o : MomOpts α) (lr : LR α)
    (g : List α) (gs : GS) (tr : List α) (n : Nat) (x : List α) :
    (tearfreeTx G o lr).update g (gs, momState o tr, n) x =
      (specLr lr n (specMomentumStage o (G.update g gs x).1 tr x).1,
       ((G.update g gs x).2, momState o (specMomentumStage o (G.update g gs x).1 tr x).2, lr.next n)) :=
  tearfreeTx_update G o lr g gs tr n x

/-- the state `init` returns has exactly the shape the composition theorem starts from: velocity 0, counter 0 -/
theorem tearfree_init_state {GS : Type} (G : Tx GS (List α) (List α)) (o : MomOpts α) (lr : LR α) (p : List α) :
    (tearfreeTx G o lr).init p = (G.init p, momState o (p.map fun _ => 0), 0) :=
  tearfreeTx_init G o lr p

/-- whole histories: folding the code-shaped chain over any history equals folding the documented composition -/
theorem tearfree_history {GS : Type} (G : Tx GS (List α) (List α)) (o : MomOpts α) (lr : LR α)
    (h : List (List α × List α)) (p : List α) :
    (runTx (tearfreeTx G o lr) ((tearfreeTx G o lr).init p) h).1 =
      specRun G o lr (G.init p) (p.map fun _ => 0) 0 h := by
  rw [tearfreeTx_init]
  exact runTx_tearfree G o lr h _ _ _

variable [Div α]

/-- **tearfree_is_composition** — the full pipeline on a preconditioned leaf (graft type ≠ NONE, leaf not masked):

  merge and pad `g` (original → merged → padded shape) → preconditioner built for the PADDED MERGED shape → unpad and
  unmerge → norm transplant against the graft step of the ORIGINAL `g` (before `start`: the graft step itself) →
  weight decay / ema pre-scale / trace (Nesterov) / weight decay in the configured order → `-lr(n)`;

the state tuple `((count, ((), precond, ()), norm), momentum tuple, schedule count)` is updated position by position. -/
theorem tearfree_is_composition {PS NS : Type} (sqrt : α → α) (go : GraftOpts α) (hne : go.type ≠ .none)
    (shape : List Nat) (hm : Graft.tfMaskSkipped go.rank1 go.anyDimGt shape = false)
    (mergeDims blockSize : Nat) (precond : List Nat → Tx PS (List α) (List α))
    (norm : Tx NS (List α) (List α)) (mo : MomOpts α) (lr : LR α)
    (g x tr : List α) (c n : Nat) (ps : PS) (ns : NS) :
    let s := deriveShapes mergeDims blockSize shape
    let merged := (tfMerge 0 s blockSize (ofFlatL s.original g)).flat
    let pr := (precond s.padded).update merged ps x
    let b := (tfUnmerge s blockSize (ofFlatL s.padded pr.1)).flat
    let gr := norm.update g ns x
    let u := Graft.tfMaybeGraft sqrt c go.start false gr.1 b
    let m := specMomentumStage mo u tr x
    (tearfreeTx (graftTx sqrt go shape (secondOrderTx mergeDims blockSize shape precond) norm) mo lr).update g
        (⟨c, ((), ps, ()), ns⟩, momState mo tr, n) x
      = (specLr lr n m.1, (⟨c + 1, ((), pr.2, ()), gr.2⟩, momState mo m.2, lr.next n)) := by
  intro s merged pr b gr u m
  rw [tearfreeTx_update]
  simp only [graftTx, hne, if_false, hm, Bool.false_eq_true, secondOrderTx, chain3_update, mergeTx, unmergeTx]
  rfl

/-- a leaf excluded by the skip rules (evaluated on the ORIGINAL shape) never reaches the second-order stage: its
update is the graft step through momentum and `-lr`, at every step -/
theorem tearfree_masked_leaf {DS NS : Type} (sqrt : α → α) (go : GraftOpts α) (hne : go.type ≠ .none)
    (shape : List Nat) (hm : Graft.tfMaskSkipped go.rank1 go.anyDimGt shape = true)
    (direction : Tx DS (List α) (List α)) (norm : Tx NS (List α) (List α)) (mo : MomOpts α) (lr : LR α)
    (g x tr : List α) (c n : Nat) (ds : DS) (ns : NS) :
    (tearfreeTx (graftTx sqrt go shape direction norm) mo lr).update g (⟨c, ds, ns⟩, momState mo tr, n) x
      = (specLr lr n (specMomentumStage mo (norm.update g ns x).1 tr x).1,
         (⟨c + 1, ds, (norm.update g ns x).2⟩,
          momState mo (specMomentumStage mo (norm.update g ns x).1 tr x).2, lr.next n)) := by
  rw [tearfreeTx_update]
  simp only [graftTx, hne, if_false, hm, if_true, Graft.tfMaybeGraft, Graft.tfMaybeGraftG]

/-- `GraftingType.NONE`: the direction (second-order) stage alone feeds momentum, whatever the skip options say -/
theorem tearfree_no_graft {DS NS : Type} (sqrt : α → α) (go : GraftOpts α) (hn : go.type = .none)
    (shape : List Nat) (direction : Tx DS (List α) (List α)) (norm : Tx NS (List α) (List α))
    (mo : MomOpts α) (lr : LR α) (g x tr : List α) (n : Nat) (gs : GState DS NS) :
    (tearfreeTx (graftTx sqrt go shape direction norm) mo lr).update g (gs, momState mo tr, n) x
      = (specLr lr n (specMomentumStage mo (direction.update g gs.direction x).1 tr x).1,
         ({ gs with direction := (direction.update g gs.direction x).2 },
          momState mo (specMomentumStage mo (direction.update g gs.direction x).1 tr x).2, lr.next n)) := by
  rw [tearfreeTx_update]
  simp only [graftTx, hn, if_true]

/-- `second_order.apply`: merge → precondition → unmerge, the preconditioner living on the padded merged shape -/
theorem second_order_is_merge_precondition_unmerge {PS : Type} (mergeDims blockSize : Nat) (shape : List Nat)
    (precond : List Nat → Tx PS (List α) (List α)) (g x : List α) (ps : PS) :
    let s := deriveShapes mergeDims blockSize shape
    let pr := (precond s.padded).update (tfMerge 0 s blockSize (ofFlatL s.original g)).flat ps x
    (secondOrderTx mergeDims blockSize shape precond).update g ((), ps, ()) x
      = ((tfUnmerge s blockSize (ofFlatL s.padded pr.1)).flat, ((), pr.2, ())) := by
  intro s pr
  rfl

/-- the graft counter and the schedule counter both count updates: after any history they agree with its length -/
theorem step_counters_agree {DS NS : Type} (sqrt : α → α) (go : GraftOpts α) (hne : go.type ≠ .none)
    (shape : List Nat) (direction : Tx DS (List α) (List α)) (norm : Tx NS (List α) (List α))
    (mo : MomOpts α) (f : Nat → α) (h : List (List α × List α)) :
    ∀ s : GState DS NS × List (List α) × Nat,
      (runTx (tearfreeTx (graftTx sqrt go shape direction norm) mo (.sched f)) s h).2.1.count = s.1.count + h.length ∧
      (runTx (tearfreeTx (graftTx sqrt go shape direction norm) mo (.sched f)) s h).2.2.2 = s.2.2 + h.length := by
  induction h with
  | nil => intro s; exact ⟨rfl, rfl⟩
  | cons a rest ih =>
    intro s
    rcases a with ⟨g, x⟩
    simp only [runTx, List.length_cons]
    have := ih ((tearfreeTx (graftTx sqrt go shape direction norm) mo (.sched f)).update g s x).2
    refine ⟨this.1.trans ?_, this.2.trans ?_⟩
    · simp only [tearfreeTx, chain3_update, graftTx, hne, if_false]; omega
    · simp only [tearfreeTx, chain3_update, lrTx]; omega

end Any

/-! ## Part B — exact algebra (ordered fields: ℚ, ℝ) -/
section Field
variable {α : Type} [Field α] [LinearOrder α] [IsStrictOrderedRing α]

/-- **linear_in_lr**: for EVERY graft / second-order stage, option record, start state and history — multiplying the
learning rate (a constant or a whole schedule) by `c` multiplies every update by `c`, exactly, and leaves the final
optimizer state unchanged. -/
theorem linear_in_lr {GS : Type} (G : Tx GS (List α) (List α)) (o : MomOpts α) (lr : LR α) (c : α)
    (h : List (List α × List α)) (s : GS × List (List α) × Nat) :
    (runTx (tearfreeTx G o (lr.scale c)) s h).1 = (runTx (tearfreeTx G o lr) s h).1.map (fun u => u.map fun y => c * y) ∧
    (runTx (tearfreeTx G o (lr.scale c)) s h).2 = (runTx (tearfreeTx G o lr) s h).2 := by
  rw [runTx_scale]
  exact ⟨rfl, rfl⟩

/-- one step of the same statement -/
theorem linear_in_lr_step {GS : Type} (G : Tx GS (List α) (List α)) (o : MomOpts α) (lr : LR α) (c : α)
    (g : List α) (s : GS × List (List α) × Nat) (x : List α) :
    (tearfreeTx G o (lr.scale c)).update g s x =
      (((tearfreeTx G o lr).update g s x).1.map fun y => c * y, ((tearfreeTx G o lr).update g s x).2) :=
  tearfreeTx_update_scale G o lr c g s x

/-- **momentum_formulas**: without weight decay the chain built by `momentum.apply` computes, entry by entry,
`velocity' = decay·velocity + (1 - decay)·update` (ema) resp. `decay·velocity + update` (trace), and returns
`velocity'`, or with Nesterov `maybe_decay·update + decay·velocity'` (`maybe_decay = 1 - decay` if ema else 1) — the
formulas of `momentum.Options`' docstring. -/
theorem momentum_formulas (o : MomOpts α) (hd : o.decay ≠ 0) (hw : ¬ 0 < o.wd) (u tr x : List α) :
    (momentumTx o).update u (momState o tr) x =
      (if o.nesterov then
          List.zipWith (fun g v' => docOutput o.ema true o.decay g v') u (List.zipWith (docVelocity o.ema o.decay) tr u)
        else List.zipWith (docVelocity o.ema o.decay) tr u,
       momState o (List.zipWith (docVelocity o.ema o.decay) tr u)) := by
  rw [momentumTx_update]
  have hs : specMomentumStage o u tr x = specMomentum o u tr := by
    simp only [specMomentumStage, specDecay, hw, if_false]
    split <;> rfl
  rw [hs, specMomentum_output o hd, specMomentum_velocity o hd]

/-- `momentum_decay = 0` switches momentum off (`if options.momentum_decay:`): only the weight decay remains -/
theorem momentum_off (o : MomOpts α) (hd : o.decay = 0) (u tr x : List α) :
    (momentumTx o).update u (momState o tr) x = (specDecay o.wd u x, momState o tr) := by
  rw [momentumTx_update]
  have h0 : (o.decay == 0) = true := by simp [hd]
  simp only [specMomentumStage, specMomentum, h0, if_true]
  split <;> rfl

/-- **weight_decay_order**, after momentum (`weight_decay_after_momentum = True`, the default): the velocity never sees
the weights, and `wd·x` is added to what momentum returns. -/
theorem weight_decay_after_momentum (o : MomOpts α) (ha : o.after = true) (hw : 0 < o.wd) (u tr x : List α) :
    (momentumTx o).update u (momState o tr) x =
      (List.zipWith (fun g p => g + o.wd * p) (specMomentum o u tr).1 x, momState o (specMomentum o u tr).2) := by
  rw [momentumTx_update]
  simp only [specMomentumStage, ha, if_true, specDecay, hw]

/-- **weight_decay_order**, before momentum: the velocity accumulates `update + wd·x`. -/
theorem weight_decay_before_momentum (o : MomOpts α) (ha : o.after = false) (hw : 0 < o.wd) (u tr x : List α) :
    (momentumTx o).update u (momState o tr) x =
      ((specMomentum o (List.zipWith (fun g p => g + o.wd * p) u x) tr).1,
       momState o (specMomentum o (List.zipWith (fun g p => g + o.wd * p) u x) tr).2) := by
  rw [momentumTx_update]
  simp only [specMomentumStage, ha, Bool.false_eq_true, if_false, specDecay, hw, if_true]

/-- **weight_decay_order** — both sides in one statement: with `wd > 0` the chain built by `momentum.apply` adds `wd·x`
to the output of momentum when `weight_decay_after_momentum`, and to its input otherwise. -/
theorem weight_decay_order (o : MomOpts α) (hw : 0 < o.wd) (u tr x : List α) :
    (momentumTx o).update u (momState o tr) x =
      if o.after then
        (List.zipWith (fun g p => g + o.wd * p) (specMomentum o u tr).1 x, momState o (specMomentum o u tr).2)
      else
        ((specMomentum o (List.zipWith (fun g p => g + o.wd * p) u x) tr).1,
         momState o (specMomentum o (List.zipWith (fun g p => g + o.wd * p) u x) tr).2) := by
  cases ha : o.after
  · simpa using weight_decay_before_momentum o ha hw u tr x
  · simpa using weight_decay_after_momentum o ha hw u tr x

/-- in particular the new velocity does not depend on the parameters when the decay comes after momentum -/
theorem velocity_ignores_weights_after (o : MomOpts α) (ha : o.after = true) (u tr x x' : List α) :
    ((momentumTx o).update u (momState o tr) x).2 = ((momentumTx o).update u (momState o tr) x').2 := by
  rw [momentumTx_update, momentumTx_update]
  simp only [specMomentumStage, ha, if_true]

end Field

/-- the two orders are genuinely different: one step from velocity 1 with `update = 1`, `x = 1`, `decay = wd = 1/2` leaves
velocity 3/2 (after) resp. 2 (before) -/
theorem weight_decay_order_matters :
    (specMomentumStage (⟨false, false, 1 / 2, 1 / 2, true⟩ : MomOpts ℚ) [1] [1] [1]).2 = [3 / 2] ∧
    (specMomentumStage (⟨false, false, 1 / 2, 1 / 2, false⟩ : MomOpts ℚ) [1] [1] [1]).2 = [2] := by
  constructor <;> norm_num [specMomentumStage, specMomentum, specDecay]

/-! ## Part C — merge / pad round trip (from C06) -/
section Shapes
variable {α : Type} [Zero α]

/-- **merge_pad_roundtrip**, on the flat data the stages exchange: merging and zero-padding a leaf, tabulating it,
re-reading it, un-padding and un-merging returns exactly the leaf — for every shape with positive dimensions, merge
limit and block size. -/
theorem merge_pad_roundtrip (mergeDims blockSize : Nat) (shape : List Nat) (g : List α)
    (hlen : g.length = prod shape) (hd : ∀ d ∈ shape, 1 ≤ d) :
    let s := deriveShapes mergeDims blockSize shape
    (tfUnmerge s blockSize (ofFlatL s.padded (tfMerge 0 s blockSize (ofFlatL s.original g)).flat)).flat = g :=
  merge_unmerge_flat mergeDims blockSize shape g hlen hd

/-- hence the second-order stage with the identity in place of the preconditioner is the identity: whatever reaches a
real entry of the output was computed at the corresponding merged index; padding entries are dropped -/
theorem second_order_identity_preconditioner (mergeDims blockSize : Nat) (shape : List Nat) (g x : List α)
    (hlen : g.length = prod shape) (hd : ∀ d ∈ shape, 1 ≤ d) :
    ((secondOrderTx mergeDims blockSize shape
        (fun _ => (⟨fun _ => (), fun u s _ => (u, s)⟩ : Tx Unit (List α) (List α)))).update g ((), (), ()) x).1 = g :=
  merge_unmerge_flat mergeDims blockSize shape g hlen hd

/-- what un-merge delivers at an original index is its input's entry at the merged index (padding never read) -/
theorem unmerge_reads_merged_index (s : TFShapes) (blockSize : Nat) (t : Tensor α) (idx : List Nat) :
    (tfUnmerge s blockSize t).get idx = t.get (unravel s.merged (ravel s.original idx)) :=
  tfUnmerge_get s blockSize t idx

/-- the tensor handed to the preconditioner has the padded shape -/
theorem merged_tensor_has_padded_shape (mergeDims blockSize : Nat) (shape : List Nat) (t : Tensor α) :
    (tfMerge 0 (deriveShapes mergeDims blockSize shape) blockSize t).shape =
      (deriveShapes mergeDims blockSize shape).padded :=
  tfMerge_shape mergeDims blockSize shape t

end Shapes

/-- the two facts a probe taught: with the default `merge_dims = 1024` a `(4, 6)` leaf reaches Shampoo as a vector of 24
(ONE preconditioner, exponent 2), yet the graft's rank-1 skip rule — evaluated on the original shape — keeps it
preconditioned, although a genuine 24-vector would be skipped. -/
theorem merged_shape_vs_mask_shape :
    (deriveShapes 1024 1024 [4, 6]).padded = [24] ∧
    shampooExponent (deriveShapes 1024 1024 [4, 6]).padded = 2 ∧
    (blocksMetadata 1024 (deriveShapes 1024 1024 [4, 6]).padded).blockSizes = [24] ∧
    Graft.tfMaskSkipped true 4096 [4, 6] = false ∧ Graft.tfMaskSkipped true 4096 [24] = true := by
  decide

/-- with merging off the same leaf has two preconditioners and exponent 4; a block size of 4 pads `(5, 3)` to `(8, 3)` -/
theorem unmerged_and_padded_shapes :
    shampooExponent (deriveShapes 2 1024 [4, 6]).padded = 4 ∧
    (deriveShapes 2 4 [5, 3]).padded = [8, 3] ∧ (blocksMetadata 4 [8, 3]).numBlocks = 2 := by
  decide

/-! ## Part D — the block inverse root -/
section Root
open Matrix
variable {α : Type} [Field α] [LinearOrder α] [IsStrictOrderedRing α] {n : ℕ}

/-- **shampoo_block_root_spec**. Let `(w, V)` be what `eigh` returns for the block statistics `C` (specification:
`VᵀV = 1`, `V diag(w) Vᵀ = C`, eigenvalues non-negative), `p > 0` the exponent `2·rank`, `hp x = x ** (-0.5/p)` (specification:
`hp x > 0` and `(hp x · hp x)^p · x = 1` for `x > 0`), `0 ≤ cut`. Then the stored preconditioner `X = rootOfEigh hp cut (w, V)`
is symmetric and `X^p · C = Π`, where `Π = V diag(keep) Vᵀ` is the orthogonal projector (`Π² = Π = Πᵀ`, `ΠC = CΠ`) on the
eigenspace of the eigenvalues `> cut · max(w)` — the maximum OF THIS BLOCK (`wmax` sees only this block's `w`). -/
theorem shampoo_block_root_spec (hp : α → α) (cut : α) (hcut : 0 ≤ cut) (p : ℕ) (hpos : 0 < p) (hhp : HpSpec hp p)
    (C : Matrix (Fin n) (Fin n) α) (e : EighOut α n) (hs : EighSpec C e) (hw : ∀ a, 0 ≤ e.w a) :
    (Matrix.of (rootOfEigh hp cut e))ᵀ = Matrix.of (rootOfEigh hp cut e) ∧
    (Matrix.of (rootOfEigh hp cut e)) ^ p * C = projM cut e ∧
    projM cut e * projM cut e = projM cut e ∧ (projM cut e)ᵀ = projM cut e ∧
    projM cut e * C = C * projM cut e :=
  ⟨root_symm hp cut e, root_pow_mul hp cut e C hs hcut hw p hpos hhp, proj_idem cut e hs.ortho, proj_symm cut e,
    proj_comm cut e C hs⟩

/-- … and positive semidefinite (over ℝ, ℚ: trivial star) — whatever `eigh` returned -/
theorem shampoo_block_root_psd [StarRing α] [TrivialStar α] [StarOrderedRing α] (hp : α → α) (cut : α)
    (e : EighOut α n) : (Matrix.of (rootOfEigh hp cut e)).PosSemidef :=
  root_psd hp cut e

/-- an eigenvalue is dropped exactly when it is `≤ cut · (largest eigenvalue of the same block)`; retained ones are positive -/
theorem eigenvalue_cut_is_per_block (hp : α → α) (cut : α) (hcut : 0 ≤ cut) (w : Fin n → α) (hw : ∀ a, 0 ≤ w a) (a : Fin n) :
    (half hp cut w a = if cut * wmax w < w a then hp (w a) else 0) ∧ (kept cut w a = true → 0 < w a) := by
  refine ⟨?_, kept_pos cut hcut w hw a⟩
  simp [half, kept]

/-- the stored preconditioner does not depend on WHICH eigendecomposition `eigh` returns: any two outputs meeting the
specification for the same statistics give the same matrix (same retained set — the cut is relative to the same
maximum — and the same inverse root). No hypothesis on the spectrum (repeated or zero eigenvalues included). -/
theorem block_root_independent_of_eigh (hp : α → α) (cut : α) (C : Matrix (Fin n) (Fin n) α) (e e' : EighOut α n)
    (hs : EighSpec C e) (hs' : EighSpec C e') : rootOfEigh hp cut e = rootOfEigh hp cut e' :=
  rootOfEigh_unique hp cut C e e' hs hs'

/-- **zero_padding_invisible**: let `C` be the statistics of a block and `blockdiag(C, 0)` (`padFn k C`) those of the same
block zero-padded by `k` rows/columns. Whatever `eigh` returns for the padded statistics (specification only), the stored
preconditioner is `blockdiag(root C, 0)`: its real block IS the preconditioner of the unpadded block, everything else is
exactly zero. -/
theorem zero_padding_invisible (hp : α → α) (cut : α) (hcut : 0 ≤ cut) (C : Matrix (Fin n) (Fin n) α)
    (e : EighOut α n) (hs : EighSpec C e) (hw : ∀ a, 0 ≤ e.w a) (k : ℕ) (e' : EighOut α (n + k))
    (hs' : EighSpec (Matrix.of (padFn k C)) e') :
    rootOfEigh hp cut e' = padFn k (rootOfEigh hp cut e) := by
  rw [rootOfEigh_unique hp cut _ e' (padEigh k e) hs' (padEigh_spec k C e hs), rootOfEigh_padEigh hp cut hcut k e hw]

/-- … hence the values delivered for real entries are those of the unpadded computation, and padding entries receive
exactly 0 — for ANY content `x'` of the padded positions of the input. -/
theorem zero_padding_invisible_apply (hp : α → α) (cut : α) (hcut : 0 ≤ cut) (C : Matrix (Fin n) (Fin n) α)
    (e : EighOut α n) (hs : EighSpec C e) (hw : ∀ a, 0 ≤ e.w a) (k : ℕ) (e' : EighOut α (n + k))
    (hs' : EighSpec (Matrix.of (padFn k C)) e') (x' : Fin (n + k) → α) :
    (∀ i : Fin n, ∑ c, rootOfEigh hp cut e' (Fin.castAdd k i) c * x' c
        = ∑ c : Fin n, rootOfEigh hp cut e i c * x' (Fin.castAdd k c)) ∧
    (∀ i : Fin k, ∑ c, rootOfEigh hp cut e' (Fin.natAdd n i) c * x' c = 0) := by
  rw [zero_padding_invisible hp cut hcut C e hs hw k e' hs']
  constructor
  · intro i; rw [Fin.sum_univ_add]; simp
  · intro i; simp

/-- the hypothesis of `zero_padding_invisible` holds along every history: the statistics contribution of a gradient with
zero-padded rows is `blockdiag(G Gᵀ, 0)`, and `_ema_update` keeps that form -/
theorem padded_statistics_stay_padded (k m : ℕ) (decay : α) (S : Fin n → Fin n → α) (G : Fin n → Fin m → α)
    (G' : Fin (n + k) → Fin m → α) (hl : ∀ i c, G' (Fin.castAdd k i) c = G i c) (hr : ∀ i c, G' (Fin.natAdd n i) c = 0) :
    (fun i j => emaScalar decay (padFn k S i j) (∑ c, G' i c * G' j c))
      = padFn k (fun i j => emaScalar decay (S i j) (∑ c, G i c * G j c)) := by
  have h := padFn_gram k m G G' hl hr
  have h2 := padFn_ema k decay S (fun i j => ∑ c, G i c * G j c)
  rw [← h2]
  funext i j
  rw [← congrFun (congrFun h i) j]

/-- a coordinate on which the statistics vanish carries no weight in any retained eigenvector, and the corresponding rows
and columns of the preconditioner are exactly zero (no block structure assumed) -/
theorem padded_rows_and_columns_vanish (hp : α → α) (cut : α) (hcut : 0 ≤ cut) (C : Matrix (Fin n) (Fin n) α)
    (e : EighOut α n) (hs : EighSpec C e) (hw : ∀ a, 0 ≤ e.w a) (i : Fin n) (hrow : ∀ j, C i j = 0) (j : Fin n) :
    rootOfEigh hp cut e i j = 0 ∧ rootOfEigh hp cut e j i = 0 ∧
    (∀ a, kept cut e.w a = true → e.V i a = 0) := by
  have h1 := root_zero_row hs hp cut hcut hw i hrow
  have hsym := congrFun (congrFun (root_symm hp cut e) i) j
  simp only [Matrix.transpose_apply, Matrix.of_apply] at hsym
  exact ⟨h1 j, by rw [hsym]; exact h1 j, fun a hk => retained_vec_zero hs cut hcut hw i hrow a hk⟩

end Root

/-! ## Part E — statistics over histories and the refresh cadence of Tearfree Shampoo (ties C15 to C04) -/
section Cadence
variable {α : Type} [Field α] [LinearOrder α] [IsStrictOrderedRing α]

/-- **statistics closed form, `second_moment_decay = 1`**: every entry of every block statistic is its initial value plus
the plain sum of the contributions `new t` of the statistics-refresh steps (`t % update_statistics_freq = 0`) -/
theorem statistics_closed_form_sum (sf : ℕ) (new : ℕ → α) (S₀ : α) (T : ℕ) :
    statRun 1 sf new S₀ T = S₀ + ∑ t ∈ Finset.range T, if t % sf = 0 then new t else 0 :=
  statRun_sum sf new S₀ T

/-- **statistics closed form, `second_moment_decay = β ≠ 1`**: an exponential moving average over the refresh steps only —
the contribution of refresh step `t` has weight `(1-β)·β^(number of refresh steps after t)`, the initial value `β^(number of
refresh steps)`; a step that is not a refresh step neither adds nor decays anything. By induction over the history. -/
theorem statistics_closed_form_ema (β : α) (hβ : β ≠ 1) (sf : ℕ) (new : ℕ → α) (S₀ : α) (T : ℕ) :
    statRun β sf new S₀ T = β ^ refreshes sf T * S₀ +
      ∑ t ∈ Finset.range T,
        if t % sf = 0 then (1 - β) * β ^ (refreshes sf T - refreshes sf (t + 1)) * new t else 0 :=
  statRun_ema β hβ sf new S₀ T

/-- with `update_statistics_freq = 1` every step counts: `refreshes 1 t = t` -/
theorem statistics_every_step (t : ℕ) : refreshes 1 t = t := refreshes_one t

end Cadence

section CadenceModel
variable {α : Type} [Zero α] [One α] [Add α] [Sub α] [Mul α] [LT α] [DecidableLT α] [BEq α] [Max α] {P : Type}

/-- `statRun` is what `shampooTx` does to each entry: `_ema_update` acts entry by entry on the stored arrays -/
theorem statistics_update_entrywise (decay : α) (old new : Array α) (k : ℕ) (h : k < old.size) :
    rd (emaUpdate decay old new) k = emaScalar decay (rd old k) (rd new k) :=
  emaUpdate_get decay old new k h

/-- **cadence of `shampoo._update`** with `c = state.count`: statistics refreshed from this step's blocked gradient iff
`c % update_statistics_freq = 0`; THEN roots recomputed from the refreshed statistics iff `c % update_preconditioners_freq = 0`;
the gradient preconditioned with the resulting roots; count + 1. -/
theorem shampoo_cadence (eigh : EighFn α) (hp : ℕ → α → α) (cut decay : α) (bs sf pf : ℕ) (ps : List ℕ)
    (u : List α) (st : ShState α) (x : P) :
    let m := blocksMetadata bs ps
    let Bt := blockify (ofFlatL ps u) m
    let xs := (List.range m.numBlocks).map fun n => extractBlock Bt.flat.toArray Bt.shape m.blockSizes m.blocksAxis n
    let bl₁ := if st.count % sf = 0 then List.zipWith (blockStatsUpdate decay m.blockSizes) xs st.blocks else st.blocks
    let bl₂ := if st.count % pf = 0 then bl₁.map (blockPrecondUpdate eigh (hp (shampooExponent ps)) cut m.blockSizes) else bl₁
    ((shampooTx (P := P) eigh hp cut decay bs sf pf ps).update u st x).2 = ⟨st.count + 1, bl₂⟩ ∧
    ((shampooTx (P := P) eigh hp cut decay bs sf pf ps).update u st x).1 =
      (deblockify (ofFlat Bt.shape
        (assembleBlocks (List.zipWith (blockApply m.blockSizes) xs bl₂) Bt.shape m.blockSizes m.blocksAxis)) m).flat :=
  shampoo_update_cadence eigh hp cut decay bs sf pf ps u st x

/-- on a preconditioner-refresh step every stored root is `_pth_inv_root` of the statistic stored next to it — the
statistics AFTER this step's update, whether or not this step refreshed them -/
theorem refresh_step_roots_of_current_statistics (eigh : EighFn α) (hp : ℕ → α → α) (cut decay : α) (bs sf pf : ℕ)
    (ps : List ℕ) (u : List α) (st : ShState α) (x : P) (hpf : st.count % pf = 0) :
    ∀ b ∈ ((shampooTx (P := P) eigh hp cut decay bs sf pf ps).update u st x).2.blocks,
      b.roots = List.zipWith (fun d C => blockRoot eigh (hp (shampooExponent ps)) cut d C)
        (blocksMetadata bs ps).blockSizes b.stats :=
  refresh_roots_are_of_current_statistics eigh hp cut decay bs sf pf ps u st x hpf

/-- on every other step the roots are carried over unchanged -/
theorem other_steps_keep_roots (eigh : EighFn α) (hp : ℕ → α → α) (cut decay : α) (bs sf pf : ℕ)
    (ps : List ℕ) (u : List α) (st : ShState α) (x : P) (hpf : st.count % pf ≠ 0)
    (hlen : st.blocks.length = (blocksMetadata bs ps).numBlocks) :
    (((shampooTx (P := P) eigh hp cut decay bs sf pf ps).update u st x).2.blocks.map fun b => b.roots)
      = st.blocks.map fun b => b.roots :=
  nonrefresh_keeps_roots eigh hp cut decay bs sf pf ps u st x hpf hlen

/-- and when it is not a statistics-refresh step the statistics are carried over unchanged -/
theorem other_steps_keep_statistics (eigh : EighFn α) (hp : ℕ → α → α) (cut decay : α) (bs sf pf : ℕ)
    (ps : List ℕ) (u : List α) (st : ShState α) (x : P) (hsf : st.count % sf ≠ 0) :
    (((shampooTx (P := P) eigh hp cut decay bs sf pf ps).update u st x).2.blocks.map fun b => b.stats)
      = st.blocks.map fun b => b.stats :=
  nonrefresh_keeps_statistics eigh hp cut decay bs sf pf ps u st x hsf

end CadenceModel

/-- NEGATIVE (regression documentation of D7, repaired by `fix:` 45ad67a): with the cut taken relative to the largest
eigenvalue over ALL blocks of the batch, a block whose statistics are `10⁻⁸` times another block's gets a ZERO
preconditioner — its update vanishes — while the per-block rule keeps it. Witness: 1×1 block, `w = 10⁻⁸`, global max 1. -/
theorem global_max_cut_drops_small_block :
    rootOfEighGlobalMax (fun _ : ℚ => 1) (1 / 1000000) 1 (⟨fun _ => 1 / 100000000, fun _ _ => 1⟩ : EighOut ℚ 1) 0 0 = 0 ∧
    rootOfEigh (fun _ : ℚ => 1) (1 / 1000000) (⟨fun _ => 1 / 100000000, fun _ _ => 1⟩ : EighOut ℚ 1) 0 0 = 1 := by
  constructor
  · norm_num [rootOfEighGlobalMax, FD.sumFin]
  · norm_num [rootOfEigh, half, kept, wmax, vmax, FD.sumFin]

/-! ## Non-vacuity: the hypotheses are satisfiable -/

/-- the real power `x ↦ x ** (-0.5/p)` meets `HpSpec` for every `p > 0` -/
example (p : ℕ) (hp : 0 < p) : HpSpec (fun x : ℝ => x ^ (-(1 / (2 * (p : ℝ))))) p := by
  intro x hx
  refine ⟨Real.rpow_pos_of_pos hx _, ?_⟩
  have hp' : (p : ℝ) ≠ 0 := Nat.cast_ne_zero.mpr (Nat.pos_iff_ne_zero.mp hp)
  rw [← Real.rpow_add hx, ← Real.rpow_natCast, ← Real.rpow_mul hx.le]
  have : (-(1 / (2 * (p : ℝ))) + -(1 / (2 * (p : ℝ)))) * (p : ℝ) = -1 := by field_simp; ring
  rw [this, Real.rpow_neg_one, inv_mul_cancel₀ (ne_of_gt hx)]

/-- an `eigh` output meeting `EighSpec` with a retained and a dropped eigenvalue: `C = diag(4, 0)` -/
example : EighSpec (Matrix.diagonal ![(4 : ℝ), 0]) (⟨![4, 0], fun i j => if i = j then 1 else 0⟩ : EighOut ℝ 2) where
  ortho := by
    ext i j
    fin_cases i <;> fin_cases j <;> simp [Matrix.mul_apply, Fin.sum_univ_two]
  recon := by
    ext i j
    fin_cases i <;> fin_cases j <;> simp [Matrix.mul_apply, Fin.sum_univ_two, Matrix.diagonal]

/-- the hypothesis of `zero_padding_invisible` on the padded side is satisfiable whenever the unpadded one is:
`(V ⊕ 1, w ⊕ 0)` meets the `eigh` specification for `blockdiag(C, 0)` -/
example {n : ℕ} (k : ℕ) (C : Matrix (Fin n) (Fin n) ℝ) (e : EighOut ℝ n) (hs : EighSpec C e) :
    EighSpec (Matrix.of (padFn k C)) (padEigh k e) := padEigh_spec k C e hs

/-- a statistics history meeting `statistics_closed_form_ema`: `β = 1/2`, refresh every 2nd step, three steps -/
example : statRun (1 / 2 : ℚ) 2 (fun t => (t : ℚ) + 1) 0 3 = 7 / 4 := by
  norm_num [statRun, emaScalar]

/-- a configuration meeting the hypotheses of `tearfree_is_composition` and `momentum_formulas` -/
example : (GType.rmsprop ≠ GType.none) ∧ Graft.tfMaskSkipped true 4096 [4, 6] = false ∧
    ((⟨true, true, 9 / 10, 0, true⟩ : MomOpts ℚ).decay ≠ 0) ∧ ¬ (0 < (⟨true, true, 9 / 10, 0, true⟩ : MomOpts ℚ).wd) := by
  refine ⟨by decide, by decide, by norm_num, by norm_num⟩

/-- `merge_pad_roundtrip`'s hypotheses on a padded leaf: `(5, 3)` with block size 4 -/
example : ([1, 2, 3, 4, 5, 6, 7, 8, 9, 10, 11, 12, 13, 14, 15] : List ℚ).length = prod [5, 3] ∧ ∀ d ∈ [5, 3], 1 ≤ d := by
  decide

end PrecondVerif.C15
