/-
Compose — theorems that span several per-property models, so that the framework says something about the optimizers as
a whole rather than about isolated pieces.  Nothing is re-modelled: `Model/Compose.lean` only instantiates the parameters
the per-property models leave open (root routine, gate, statistics update, batch position, kernels), and every proof is a
chain of the per-property theorems.  Lemma files: `Lemmas/Compose.lean` (slot automaton, parameter, devices),
`ComposePad.lean` (padding invariance of C01's routines), `ComposeForms.lean` (other root routines, tree, entry level),
`ComposeTF.lean` (Tearfree blocks), `ComposeQuant.lean`, `ComposeFD.lean`.  Namespaces carry the id of the check that audits
them (`lean_stage(extra_props=(…, "Compose"))` in c02, c03, c09, c13, c14, c15).

WHAT COMPOSES (Distributed Shampoo)
`ComposeProps.C03` — the stored preconditioner of one slot.  C04's automaton (statistics interval, any refresh-interval
  function, `steps == 1` shortcut, `efficient_cond` carry) with C03's gate IS C03's slot machine
  (`schedule_step_is_slot_machine_step`, `…_run_…`).  For every history / schedule / time the stored value is the initial
  one or the routine's output for the statistics current at a refresh step, with an accepted (non-NaN, `< thr`) error and
  the routine's certificate: Newton — `|X^p · A_d − I_s| ≤ err` for the ridge actually used
  (`stored_preconditioner_is_identity_or_honest_root`, C01 `newton_error_honest`; zero on padding, symmetric; at ℚ);
  the `matrix_size == 1` branch (`…_onebyone_form`); eigh (`…_eigh_form`, `n·err/ridge`); any certified routine
  (`…_is_initial_or_certified_root`); the quantized triple — stored = `quantize X`, dequantized within half a bucket
  (`stored_quantized_is_initial_or_quantized_honest_root`, C11; `selectTriple` = the one select).  Good stays good.
`ComposeProps.C09` — frequent-directions slots: `stored_fd_sketch_brackets_accepted_history` (C03's warm-start / reset
  slot machine × C09's guarded `_fd_update_root`: the stored sketch brackets the discounted covariance of exactly the
  ACCEPTED refresh gradients; restart at accepted reset steps).  Tearfree Sketchy under C04's cadence:
  `sketchy_run_brackets_refresh_covariance`.
`ComposeProps.C02` — one parameter = its slots `b·k + j` + C02's update half.  `Low = Spec` with gate ∘ root in place of
  C02's abstract root (`composed_low_refines_spec`), the slots' statistics are C02's flat list, every matrix the update of
  step `t` uses is the identity or an honest root of a refresh step `r ≤ t` (`r < t` sharded)
  (`update_uses_honest_roots`, `…_dispatch` with the `1 × 1` branch as the code takes it, `…_certified_roots`), and entry by
  entry the direction is the mode product of ITS block's slice with ITS block's preconditioners
  (`ds_update_entry_is_block_entry`, C06 tiling).
`ComposeProps.C13` — devices and the padded batch.  The tree-wide padded batch on `D` devices (pmap) or as pjit global
  arrays = the per-statistic single-device routine (`distributed_equals_single_device`, `sharded_…`), for C08's Newton and
  eigh models and — padding invariance of `InvRoot.newtonRoot` and `powerIteration` proved by simulation
  (`newton_root_padding_invariant_c01`) — for C01's routine with honesty (`distributed_c01_roots_honest`); reported errors,
  gate decisions and stored slots do not depend on `D` or the layout (`gate_decisions_independent_of_devices`); one whole
  step on a parameter TREE is the map of the per-leaf steps (`tree_step_is_map_of_param_steps`, `…_newton`,
  `tree_step_independent_of_devices`).
`ComposeProps.C14` — resumption in sharded mode: `ds_sharded_resume_eq_uninterrupted` (C14 × C07's sharded layout fixpoint).
WHAT COMPOSES (Tearfree)
`ComposeProps.C15` — every entry of the update of a padded, blocked leaf is the entry computed from its block's own
  gradient slice and stored state (`tearfree_blocked_update_is_per_block_update`, C06 `deblockify_pointwise`), the slice
  is contiguous, and padding never changes real entries (`tearfree_padding_never_changes_real_entries`, array-level
  adapter of C15's `zero_padding_invisible`).

ADAPTERS.  C02's matrices are `Nat → Nat → α`, C01's `Fin n → Fin n → α` (`toMx` / `ofMx`), C08's tabulated `A2` (`ofA2`),
C15's block arrays vs Mathlib matrices (`rd_matToArr`); C01's errors are field elements, C03's are `XF` (report map `rep`,
`XF.fin` at ℚ); C08's and C01's Newton transcriptions are not identified with each other — not needed any more.

WHAT DOES NOT COMPOSE / HYPOTHESES THAT STAY.  LOBPCG (`lobpcg_topk_precondition`): its top-k pairs are unconstrained inputs
of C01's model and C01 proves nothing about the deflated problem's relation to the original one, so there is no
certificate to carry through the gate; not routed.  The slot-level eigh form with C01's `eighRoot` assumes no padding; eigh
WITH the padded batch is covered on C08's eigh model, now without `KernelPadOK`
(`distributed_equals_single_device_eigh_unconditional`, `tree_step_is_map_of_param_steps_eigh`: only `KernelMeetsSpec`).  External kernels stay hypotheses wherever the per-property theorems have them
(`SvdSpec`, `EighSpec` / `EighKernelOK`, scalar roots); `MaxEvPadOK` (discharged for power iteration and the constant);
the FD bracket includes the per-step ridge shift `_fd_update_root` adds (as in C09).  Floating-point rounding, XLA batch
determinism and finiteness in IEEE arithmetic remain oracle-only, as in the per-property checks.
-/
import PrecondVerif.Lemmas.Compose
import PrecondVerif.Lemmas.ComposePad
import PrecondVerif.Lemmas.ComposeForms
import PrecondVerif.Lemmas.ComposeTF
import PrecondVerif.Lemmas.ComposeQuant
import PrecondVerif.Lemmas.ComposeFD
import PrecondVerif.Props.C07
import PrecondVerif.Props.C14

set_option linter.unusedSectionVars false

/-! ## (1) stored preconditioners: C03 × C04 × C01 -/

namespace PrecondVerif.ComposeProps.C03
open PrecondVerif.InvRoot PrecondVerif.Gate PrecondVerif.Schedule PrecondVerif.Compose

section Generic
variable {σ π γ φ δ m α : Type} [Add α] [Mul α] [Sub α] [OfNat α 0] [OfNat α 1]

/-- C04's gate, instantiated with C03's `_skip`, is C03's `select`; its `efficient_cond` carry is rejected. -/
theorem schedule_gate_is_c03_select (thr : XF) (hthr : thr.isNaN = false) (statsUpd : σ → γ → σ)
    (root : σ → π → φ → π × XF) (junk : σ → π) (graftUpd : δ → γ → Nat → δ × α × α)
    (shampooUpd : m → π → γ → Nat → m × α × α) (finish : α → α → Nat → α) (old : π) (cand : π × XF) :
    let K := gateKernels thr statsUpd root junk graftUpd shampooUpd finish
    Schedule.gate K old cand = select cand.2 thr cand.1 old ∧ K.bad K.failMetrics = true :=
  ⟨rfl, skip_self hthr⟩

/-- One `update` call of C04's automaton IS one step of C03's slot machine, fed with the root result for the statistics
after this step's statistics update — for every refresh-interval function (fixed or learning-rate scheduled). -/
theorem schedule_step_is_slot_machine_step (thr : XF) (statsUpd : σ → γ → σ) (root : σ → π → φ → π × XF)
    (junk : σ → π) (graftUpd : δ → γ → Nat → δ × α × α) (shampooUpd : m → π → γ → Nat → m × α × α)
    (finish : α → α → Nat → α) (cfg : DSCfg) (s : DSState σ π XF δ m) (i : DSInp γ φ) :
    let K := gateKernels thr statsUpd root junk graftUpd shampooUpd finish
    slotOf (dsStep K cfg s i).1 =
      slotStep select thr (cfg.interval s.count) s.count (slotOf s)
        (slotInput root junk (dsStats' K cfg s i.grad) i.fault s.precond) :=
  dsStep_is_slotStep thr statsUpd root junk graftUpd shampooUpd finish cfg s i

/-- With a fixed interval the whole (preconditioner, error) trajectory of C04's automaton is a run of C03's slot
machine (`Gate.slotRun`), so every C03 theorem about `slotRun` (`slots_inv`, `slots_finite`) applies to it. -/
theorem schedule_run_is_slot_machine_run (thr : XF) (statsUpd : σ → γ → σ) (root : σ → π → φ → π × XF)
    (junk : σ → π) (graftUpd : δ → γ → Nat → δ × α × α) (shampooUpd : m → π → γ → Nat → m × α × α)
    (finish : α → α → Nat → α) (cfg : DSCfg) (itv : Nat) (hitv : cfg.interval = fun _ => itv)
    (is : List (DSInp γ φ)) (s0 : DSState σ π XF δ m) :
    let K := gateKernels thr statsUpd root junk graftUpd shampooUpd finish
    slotOf (run (dsStep K cfg) s0 is) =
      slotRun select thr itv s0.count (slotOf s0) (slotInputs K cfg root junk s0 is) :=
  run_is_slotRun thr statsUpd root junk graftUpd shampooUpd finish cfg itv hitv is s0

/-- **Generic form of (1).**  Any root routine (its results are adversarial), any statistics update, any schedule, any
history: the preconditioner stored after `k` updates is the initial one, or the candidate the routine returned at a
refresh step `r < k` (C04's `perform` predicate) for the statistics AFTER that step's statistics update and the
preconditioner stored then, and its reported error is non-NaN and strictly below the threshold. -/
theorem stored_preconditioner_is_initial_or_accepted_root (thr : XF) (hthr : thr.isNaN = false)
    (statsUpd : σ → γ → σ) (root : σ → π → φ → π × XF) (junk : σ → π) (graftUpd : δ → γ → Nat → δ × α × α)
    (shampooUpd : m → π → γ → Nat → m × α × α) (finish : α → α → Nat → α) (cfg : DSCfg)
    (s0 : DSState σ π XF δ m) (is : List (DSInp γ φ)) (k : Nat) (hk : k ≤ is.length) :
    let K := gateKernels thr statsUpd root junk graftUpd shampooUpd finish
    let S := stateAt (dsStep K cfg) s0 is
    (S k).precond = s0.precond ∨
      ∃ r, ∃ hr : r < k, (s0.count + r) % cfg.interval (s0.count + r) = 0 ∧
        (S k).precond = (root (S (r + 1)).stats (S r).precond (is[r]'(by omega)).fault).1 ∧
        (root (S (r + 1)).stats (S r).precond (is[r]'(by omega)).fault).2.isNaN = false ∧
        (root (S (r + 1)).stats (S r).precond (is[r]'(by omega)).fault).2.lt thr = true :=
  stored_is_initial_or_accepted thr hthr statsUpd root junk graftUpd shampooUpd finish cfg s0 is k hk

/-- **Good stays good** (C03's `slots_finite_warm_start` through C04's schedule; `Good` = "finite" is the instance the
property names): if the initial preconditioner is good and the routine maps a good stored value to a good candidate
whenever its error passes the gate, every stored preconditioner is good — whatever the rejected candidates were. -/
theorem stored_preconditioner_stays_good (thr : XF) (hthr : thr.isNaN = false) (statsUpd : σ → γ → σ)
    (root : σ → π → φ → π × XF) (junk : σ → π) (graftUpd : δ → γ → Nat → δ × α × α)
    (shampooUpd : m → π → γ → Nat → m × α × α) (finish : α → α → Nat → α) (cfg : DSCfg)
    (s0 : DSState σ π XF δ m) (is : List (DSInp γ φ)) (Good : π → Prop) (h0 : Good s0.precond)
    (hroot : ∀ st prev f, Good prev → (root st prev f).2.isNaN = false → (root st prev f).2.lt thr = true →
      Good (root st prev f).1) (k : Nat) (hk : k ≤ is.length) :
    Good (stateAt (dsStep (gateKernels thr statsUpd root junk graftUpd shampooUpd finish) cfg) s0 is k).precond :=
  stored_good thr hthr statsUpd root junk graftUpd shampooUpd finish cfg s0 is Good h0 hroot k hk

end Generic

section Newton
variable {α : Type} [Field α] [LinearOrder α] [IsStrictOrderedRing α] {n : Nat}
variable {γ δ m β : Type} [Add β] [Mul β] [Sub β] [OfNat β 0] [OfNat β 1]

/-- **(1) `stored_preconditioner_is_identity_or_honest_root`.**  C03's gate and C04's schedule around C01's Newton
routine (`newtonSlotRoot`: `matrix_inverse_pth_root` with padding start `s ≠ 0` on `n × n` statistics).  For every
statistics update, history, statistics interval, refresh-interval function and time `k`: the stored preconditioner is
the initial one (the identity in the optimizer), or there is a refresh step `r < k` such that, with `A` the statistics
after step `r`'s statistics update and `o` the routine's output on `A`: the stored matrix is `o.x`, the reported error
is non-NaN and below the threshold, `total_retries ≥ 1`, and `|o.x^p · A_d − I_s| ≤ o.err` entrywise for
`A_d = mask(A) + ridge_epsilon·max(max_ev, _EPSILON)·10^(retries−1)·I_s` — the ridge actually used.
Constants and scalar kernels as in C01 (`NewtonOK`: `1 < max_error_ratio`, `0 ≤ error_tolerance`, `1 ≤ num_tries`,
`rootp z ^ p = z`, `sqrt ≥ 0`, exact `cast32`). -/
theorem stored_preconditioner_is_identity_or_honest_root (N : NewtonCfg α) (hN : NewtonOK N) (rep : α → XF)
    (s : Nat) (hs : s ≠ 0) (thr : XF) (hthr : thr.isNaN = false) (statsUpd : Mat α n n → γ → Mat α n n)
    (graftUpd : δ → γ → Nat → δ × β × β) (shampooUpd : m → Mat α n n → γ → Nat → m × β × β)
    (finish : β → β → Nat → β) (cfg : DSCfg) (s0 : DSState (Mat α n n) (Mat α n n) XF δ m)
    (is : List (DSInp γ Unit)) (k : Nat) (hk : k ≤ is.length) :
    let K := gateKernels thr statsUpd (newtonSlotRoot N rep s) id graftUpd shampooUpd finish
    let S := stateAt (dsStep K cfg) s0 is
    (S k).precond = s0.precond ∨
      ∃ r, r < k ∧ (s0.count + r) % cfg.interval (s0.count + r) = 0 ∧
        (S k).precond = (newtonOut N s (S (r + 1)).stats).x ∧
        (rep (newtonOut N s (S (r + 1)).stats).err).isNaN = false ∧
        (rep (newtonOut N s (S (r + 1)).stats).err).lt thr = true ∧
        1 ≤ (newtonOut N s (S (r + 1)).stats).retries ∧
        ∀ i j, |((Matrix.of (newtonOut N s (S (r + 1)).stats).x) ^ N.p *
            dampedM s (S (r + 1)).stats
              (newtonRidge N s (S (r + 1)).stats * 10 ^ ((newtonOut N s (S (r + 1)).stats).retries - 1))
            - Es α n s) i j| ≤ (newtonOut N s (S (r + 1)).stats).err :=
  stored_newton N hN rep s hs thr hthr statsUpd graftUpd shampooUpd finish cfg s0 is k hk

/-- Every stored preconditioner is exactly zero on padding rows and columns (C01's `newton_padding_zero` carried through
the gate and the schedule), provided the initial one is — no hypothesis on the statistics. -/
theorem stored_preconditioner_zero_on_padding (N : NewtonCfg α) (hN : NewtonOK N) (rep : α → XF) (s : Nat)
    (thr : XF) (hthr : thr.isNaN = false) (statsUpd : Mat α n n → γ → Mat α n n)
    (graftUpd : δ → γ → Nat → δ × β × β) (shampooUpd : m → Mat α n n → γ → Nat → m × β × β)
    (finish : β → β → Nat → β) (cfg : DSCfg) (s0 : DSState (Mat α n n) (Mat α n n) XF δ m)
    (is : List (DSInp γ Unit)) (k : Nat) (hk : k ≤ is.length)
    (h0 : ∀ i j : Fin n, s ≤ i.val ∨ s ≤ j.val → s0.precond i j = 0) :
    ∀ i j : Fin n, s ≤ i.val ∨ s ≤ j.val →
      (stateAt (dsStep (gateKernels thr statsUpd (newtonSlotRoot N rep s) id graftUpd shampooUpd finish) cfg)
        s0 is k).precond i j = 0 :=
  stored_good thr hthr statsUpd (newtonSlotRoot N rep s) id graftUpd shampooUpd finish cfg s0 is
    (fun X => ∀ i j : Fin n, s ≤ i.val ∨ s ≤ j.val → X i j = 0) h0
    (fun st _ _ _ _ _ i j hij =>
      C01.newton_padding_zero s N.c N.p N.pα N.alpha N.sqrt N.rootp N.cast32 N.thousand N.epsFloor N.eps
        (N.maxEvOf n s st) st hN.htol hN.hnt hN.hp hN.hroot hN.hsqrt i j hij) k hk

/-- Every stored preconditioner is symmetric (C01's `newton_symmetric`), provided the initial one and the initial
statistics are and the statistics update preserves symmetry (`w1·L + w2·G Gᵀ` does). -/
theorem stored_preconditioner_symmetric (N : NewtonCfg α) (hN : NewtonOK N) (rep : α → XF) (s : Nat) (hs : s ≠ 0)
    (thr : XF) (hthr : thr.isNaN = false) (statsUpd : Mat α n n → γ → Mat α n n)
    (graftUpd : δ → γ → Nat → δ × β × β) (shampooUpd : m → Mat α n n → γ → Nat → m × β × β)
    (finish : β → β → Nat → β) (cfg : DSCfg) (s0 : DSState (Mat α n n) (Mat α n n) XF δ m)
    (is : List (DSInp γ Unit)) (k : Nat) (hk : k ≤ is.length)
    (h0 : ∀ i j, s0.precond i j = s0.precond j i) (hs0 : ∀ i j, s0.stats i j = s0.stats j i)
    (hupd : ∀ (A : Mat α n n) g, (∀ i j, A i j = A j i) → ∀ i j, statsUpd A g i j = statsUpd A g j i) :
    ∀ i j, (stateAt (dsStep (gateKernels thr statsUpd (newtonSlotRoot N rep s) id graftUpd shampooUpd finish) cfg)
        s0 is k).precond i j =
      (stateAt (dsStep (gateKernels thr statsUpd (newtonSlotRoot N rep s) id graftUpd shampooUpd finish) cfg)
        s0 is k).precond j i := by
  intro i j
  rcases stored_newton N hN rep s hs thr hthr statsUpd graftUpd shampooUpd finish cfg s0 is k hk
    with h | ⟨r, hr, _, h2, _⟩
  · rw [h]; exact h0 i j
  · rw [h2]
    exact C01.newton_symmetric s N.c N.p N.pα N.alpha N.sqrt N.rootp N.cast32 N.thousand N.epsFloor N.eps _ _
      (stats_invariant _ cfg s0 is (fun A => ∀ i j, A i j = A j i) hs0 (fun st g h => hupd st g h) (r + 1) (by omega))
      hN.htol hN.hnt hN.hp hN.hroot hN.hsqrt i j

end Newton


/-! ### (1) for the other root routines: any certified routine, the `1 × 1` branch, the eigh root -/

section Forms
variable {α : Type} [Field α] [LinearOrder α] [IsStrictOrderedRing α] {n : Nat}
variable {γ δ m β : Type} [Add β] [Mul β] [Sub β] [OfNat β 0] [OfNat β 1]

/-- **(1) for an arbitrary routine with a certificate.**  If every output `(x, e)` of the root routine on statistics
satisfying an invariant `I` of the statistics update carries `Cert stats x e`, then every stored preconditioner is the
initial one or carries the certificate for the statistics after the statistics update of a refresh step `r < k`, with
an error `e` that is not NaN and below the threshold.  The Newton, `1 × 1` and eigh forms are instances. -/
theorem stored_preconditioner_is_initial_or_certified_root {σ π φ : Type} (thr : XF) (hthr : thr.isNaN = false)
    (statsUpd : σ → γ → σ) (root : σ → π → φ → π × XF) (junk : σ → π) (graftUpd : δ → γ → Nat → δ × β × β)
    (shampooUpd : m → π → γ → Nat → m × β × β) (finish : β → β → Nat → β) (Cert : σ → π → XF → Prop)
    (I : σ → Prop) (hcert : ∀ st prev f, I st → Cert st (root st prev f).1 (root st prev f).2) (cfg : DSCfg)
    (s0 : DSState σ π XF δ m) (is : List (DSInp γ φ)) (h0 : I s0.stats) (hupd : ∀ st g, I st → I (statsUpd st g))
    (k : Nat) (hk : k ≤ is.length) :
    let K := gateKernels thr statsUpd root junk graftUpd shampooUpd finish
    let S := stateAt (dsStep K cfg) s0 is
    (S k).precond = s0.precond ∨
      ∃ r e, r < k ∧ (s0.count + r) % cfg.interval (s0.count + r) = 0 ∧ e.isNaN = false ∧ e.lt thr = true ∧
        I (S (r + 1)).stats ∧ Cert (S (r + 1)).stats (S k).precond e :=
  stored_certified thr hthr statsUpd root junk graftUpd shampooUpd finish Cert I hcert cfg s0 is h0 hupd k hk

/-- **(1), `1 × 1` form** (`matrix_size == 1`: C01's `oneByOne`, which the code takes instead of the Newton iteration).
Slot with a scalar statistic `a ≥ 0` (kept non-negative by the statistics update), `ridge_epsilon > 0`, `_EPSILON > 0`,
kernel `invroot x ^ p · x = 1` for `x > 0`: the stored scalar is the initial one, or for a refresh step `r < k` and the
statistic `a` after its update: `d = ridge_epsilon·max(max_ev, _EPSILON) > 0`, stored `= invroot (a + d)`,
`stored^p · (a + d) = 1`, and the reported error is `rep 0` — accepted by the gate. -/
theorem stored_preconditioner_onebyone_form (N : NewtonCfg α) (rep : α → XF) (invroot : α → α) (he : 0 < N.eps)
    (hf : 0 < N.epsFloor) (hinv : ∀ x, 0 < x → invroot x ^ N.p * x = 1) (hcast : ∀ x, N.cast32 x = x) (thr : XF)
    (hthr : thr.isNaN = false) (statsUpd : α → γ → α) (graftUpd : δ → γ → Nat → δ × β × β)
    (shampooUpd : m → α → γ → Nat → m × β × β) (finish : β → β → Nat → β) (cfg : DSCfg)
    (s0 : DSState α α XF δ m) (is : List (DSInp γ Unit)) (h0 : 0 ≤ s0.stats)
    (hupd : ∀ a g, 0 ≤ a → 0 ≤ statsUpd a g) (k : Nat) (hk : k ≤ is.length) :
    let K := gateKernels thr statsUpd (scalarSlotRoot N rep invroot) id graftUpd shampooUpd finish
    let S := stateAt (dsStep K cfg) s0 is
    (S k).precond = s0.precond ∨
      ∃ r e, r < k ∧ (s0.count + r) % cfg.interval (s0.count + r) = 0 ∧ e.isNaN = false ∧ e.lt thr = true ∧
        0 ≤ (S (r + 1)).stats ∧ ScalarHonest N rep invroot (S (r + 1)).stats (S k).precond e :=
  stored_certified thr hthr statsUpd (scalarSlotRoot N rep invroot) id graftUpd shampooUpd finish
    (ScalarHonest N rep invroot) (fun a => 0 ≤ a)
    (fun a prev f ha => scalarSlotRoot_cert N rep invroot he hf hinv hcast a prev f ha) cfg s0 is h0 hupd k hk

/-- **(1), eigh form** (`matrix_inverse_pth_root_eigh`: C01's `eighRoot` on the output of an external eigen-solver for
the regularised statistic; no padding, `n ≤ s`).  Under C01's hypotheses on the solver's output (`EighKernelOK`: `U`
orthogonal, computed eigenvalues `≥ ridge > 0`) and the scalar kernels: the stored preconditioner is the initial one, or
for a refresh step `r < k`, the statistics `A` after its update and the error `err` the routine reported (`e = rep err`,
not NaN, below the threshold): `|X^p · (A + ridge·I) − 1| ≤ n · err / ridge` entrywise (`EighHonest`) — the slack
proportional to the regularised condition number of C01's `eigh_error_honest`. -/
theorem stored_preconditioner_eigh_form (kernel : (n : Nat) → Mat α n n → Mat α n n × Vec α n)
    (ridgeFn : (n : Nat) → Mat α n n → α) (sqrt invroot : α → α) (rep : α → XF) (p s : Nat) (hs : s ≠ 0) (hns : n ≤ s)
    (hsqrt : ∀ x, 0 ≤ x → sqrt x * sqrt x = x) (hinv : ∀ x, 0 < x → 0 ≤ invroot x ∧ invroot x ^ p * x = 1)
    (hker : ∀ A : Mat α n n, EighKernelOK kernel ridgeFn s A) (thr : XF) (hthr : thr.isNaN = false)
    (statsUpd : Mat α n n → γ → Mat α n n) (graftUpd : δ → γ → Nat → δ × β × β)
    (shampooUpd : m → Mat α n n → γ → Nat → m × β × β) (finish : β → β → Nat → β) (cfg : DSCfg)
    (s0 : DSState (Mat α n n) (Mat α n n) XF δ m) (is : List (DSInp γ Unit)) (k : Nat) (hk : k ≤ is.length) :
    let K := gateKernels thr statsUpd (eighSlotRoot kernel ridgeFn sqrt invroot rep s) id graftUpd shampooUpd finish
    let S := stateAt (dsStep K cfg) s0 is
    (S k).precond = s0.precond ∨
      ∃ r e, r < k ∧ (s0.count + r) % cfg.interval (s0.count + r) = 0 ∧ e.isNaN = false ∧ e.lt thr = true ∧
        EighHonest ridgeFn rep p s (S (r + 1)).stats (S k).precond e := by
  intro K S
  rcases stored_certified thr hthr statsUpd (eighSlotRoot kernel ridgeFn sqrt invroot rep s) id graftUpd shampooUpd
    finish (EighHonest ridgeFn rep p s) (fun _ => True)
    (fun A prev f _ => eighSlotRoot_cert kernel ridgeFn sqrt invroot rep p s hs hns hsqrt hinv A prev f (hker A))
    cfg s0 is trivial (fun _ _ _ => trivial) k hk with h | ⟨r, e, h1, h2, h3, h4, _, h6⟩
  · exact Or.inl h
  · exact Or.inr ⟨r, e, h1, h2, h3, h4, h6⟩

end Forms

/-! ### (1), quantized form: C03 `selectTriple` × C11 quantize / dequantize × C01 Newton -/

section QuantizedForm
open PrecondVerif.Quant PrecondVerif.DShampoo
variable {α : Type} [Field α] [LinearOrder α] [IsStrictOrderedRing α] [HasFloor α] [LawfulFloor α] [Inhabited α]
variable {γ δ m β : Type} [Add β] [Mul β] [Sub β] [OfNat β 0] [OfNat β 1]

/-- **(1), quantized form.**  Slot whose stored value is C11's quantized triple `QV` (payload, diagonal, bucket sizes),
root routine quantize ∘ Newton (`quantNewtonSlotRoot`, `Nq ≥ 1` buckets per column, statistic size `d ≠ 0`), C03's gate,
C04's schedule.  The stored triple is the initial one, or for a refresh step `r < k` and the statistics `A` after its
update there is a matrix `X` with: `X` is the Newton output on `A`, honest (`NewtonCert`: `e = rep err`, `retries ≥ 1`,
`|X^p · A_d − I| ≤ err`), `e` not NaN and below the threshold; the stored triple IS `quantize X`; and dequantized it is
within half a bucket of `X` in every column (`C11.roundtrip_half_bucket`). -/
theorem stored_quantized_is_initial_or_quantized_honest_root (N : NewtonCfg α) (hN : NewtonOK N) (rep : α → XF)
    (Nq : Nat) (hNq : 1 ≤ Nq) (ed : Bool) (d : Nat) (hd : d ≠ 0) (thr : XF) (hthr : thr.isNaN = false)
    (statsUpd : Mx α → γ → Mx α) (junk : Mx α → QV α) (graftUpd : δ → γ → Nat → δ × β × β)
    (shampooUpd : m → QV α → γ → Nat → m × β × β) (finish : β → β → Nat → β) (cfg : DSCfg)
    (s0 : DSState (Mx α) (QV α) XF δ m) (is : List (DSInp γ Unit)) (k : Nat) (hk : k ≤ is.length) :
    let K := gateKernels thr statsUpd (quantNewtonSlotRoot N rep Nq ed d) junk graftUpd shampooUpd finish
    let S := stateAt (dsStep K cfg) s0 is
    (S k).precond = s0.precond ∨
      ∃ r e, r < k ∧ (s0.count + r) % cfg.interval (s0.count + r) = 0 ∧ e.isNaN = false ∧ e.lt thr = true ∧
        QuantCert N rep Nq ed d (S (r + 1)).stats (S k).precond e := by
  intro K S
  rcases stored_certified thr hthr statsUpd (quantNewtonSlotRoot N rep Nq ed d) junk graftUpd shampooUpd finish
    (QuantCert N rep Nq ed d) (fun _ => True)
    (fun L prev f _ => quantNewtonSlotRoot_cert N hN rep Nq hNq ed d hd L prev f) cfg s0 is trivial
    (fun _ _ _ => trivial) k hk with h | ⟨r, e, h1, h2, h3, h4, _, h6⟩
  · exact Or.inl h
  · exact Or.inr ⟨r, e, h1, h2, h3, h4, h6⟩

/-- the select the automaton applies to the stored `QV` is, component by component, the three parallel selects of
`_pmap_quantized_compute_preconditioners` (C03 `quantized_triple_consistent`): the stored triple is never a mixture -/
theorem quantized_slot_select_is_select_triple (err thr : XF) (new old : QV α) :
    selectTriple err thr (new.q, new.diag, new.bucket) (old.q, old.diag, old.bucket) =
      ((select err thr new old).q, (select err thr new old).diag, (select err thr new old).bucket) :=
  qv_select_is_triple err thr new old

end QuantizedForm

/-- (1) at ℚ, the scalar type the exact driver runs: errors are reported as `XF.fin`, the threshold is a rational `τ`;
the accepted error is below `τ` as a rational number. -/
theorem stored_preconditioner_honest_rat {n : Nat} {γ : Type} (N : NewtonCfg ℚ) (hN : NewtonOK N) (s : Nat)
    (hs : s ≠ 0) (τ : ℚ) (statsUpd : Mat ℚ n n → γ → Mat ℚ n n) (cfg : DSCfg)
    (s0 : DSState (Mat ℚ n n) (Mat ℚ n n) XF Unit Unit) (is : List (DSInp γ Unit)) (k : Nat) (hk : k ≤ is.length) :
    let K : DSKernels (Mat ℚ n n) (Mat ℚ n n) XF γ Unit Unit Unit Nat :=
      gateKernels (XF.fin τ) statsUpd (newtonSlotRoot N XF.fin s) id (fun _ _ _ => ((), 0, 0))
        (fun _ _ _ _ => ((), 0, 0)) (fun a _ _ => a)
    let S := stateAt (dsStep K cfg) s0 is
    (S k).precond = s0.precond ∨
      ∃ r, r < k ∧ (s0.count + r) % cfg.interval (s0.count + r) = 0 ∧
        (S k).precond = (newtonOut N s (S (r + 1)).stats).x ∧ (newtonOut N s (S (r + 1)).stats).err < τ ∧
        ∀ i j, |((Matrix.of (newtonOut N s (S (r + 1)).stats).x) ^ N.p *
            dampedM s (S (r + 1)).stats
              (newtonRidge N s (S (r + 1)).stats * 10 ^ ((newtonOut N s (S (r + 1)).stats).retries - 1))
            - Es ℚ n s) i j| ≤ (newtonOut N s (S (r + 1)).stats).err := by
  intro K S
  rcases stored_newton N hN XF.fin s hs (XF.fin τ) rfl statsUpd (fun _ _ _ => ((), (0 : Nat), (0 : Nat)))
    (fun _ _ _ _ => ((), (0 : Nat), (0 : Nat))) (fun a _ _ => a) cfg s0 is k hk with h | ⟨r, hr, h1, h2, _, h4, _, h6⟩
  · exact Or.inl h
  · exact Or.inr ⟨r, hr, h1, h2, (xf_fin_lt _ _).mp h4, h6⟩

/-- the hypotheses on the Newton constants are satisfiable (ℚ, `p = 1`, the constants of the source) -/
example : ∃ N : NewtonCfg ℚ, NewtonOK N :=
  ⟨{ c := { numIters := 100, tol := 1 / 1000000, rmax := 6 / 5, retryThr := 1 / 20, numTries := 6 },
     p := 1, pα := 1, alpha := -1, sqrt := fun _ => 3, rootp := id, cast32 := id, thousand := 1000,
     epsFloor := 1 / 1000000, eps := 1 / 1000000, maxEvOf := fun _ _ _ => 1 },
   ⟨by norm_num, by norm_num, by norm_num, by norm_num, fun z _ => by simp, fun _ => by norm_num, fun _ => rfl⟩⟩

/-- both branches of (1) occur in C04's token instance under C03's gate: with interval 2 the root accepted at step 0 is
still stored after 2 updates, a rejected one (NaN error at step 0) leaves the initial value -/
example :
    let cfg : DSCfg := { si := 1, interval := fun _ => 2, start := 0, sharded := false }
    let K (e : XF) : DSKernels Nat Nat XF Nat Unit Unit Unit Nat :=
      gateKernels (XF.fin (1 / 10)) (fun s g => s + g) (fun s _ _ => (100 + s, e)) id (fun _ _ _ => ((), 0, 0))
        (fun _ _ _ _ => ((), 0, 0)) (fun a _ _ => a)
    let s0 : DSState Nat Nat XF Unit Unit := ⟨0, 0, 7, XF.fin 0, (), ()⟩
    (stateAt (dsStep (K (XF.fin (1 / 100))) cfg) s0 [⟨5, ()⟩, ⟨6, ()⟩] 2).precond = 105 ∧
      (stateAt (dsStep (K XF.nan) cfg) s0 [⟨5, ()⟩, ⟨6, ()⟩] 2).precond = 7 := by
  decide +kernel

end PrecondVerif.ComposeProps.C03

/-! ## (2) the update: C02 × (1) -/

namespace PrecondVerif.ComposeProps.C02
open PrecondVerif.InvRoot PrecondVerif.Gate PrecondVerif.Schedule PrecondVerif.DShampoo PrecondVerif.Shapes
open PrecondVerif.Graft PrecondVerif.Compose

variable {α : Type} [Field α] [LinearOrder α] [IsStrictOrderedRing α] [Inhabited α]

/-- The statistics held by the slot automata of a parameter, collected in slot order, ARE C02's flat statistics list
(`Low`, the running-index loop of `updated_statistics_from_grad`) and the documented family (`Spec`): the state that
(1) speaks about is the state C02 speaks about.  Hypotheses: all slots carry the parameter's step counter, and there
is one slot per (block, preconditioned axis). -/
theorem composed_statistics_are_flat_list (thr : XF) (N : NewtonCfg α) (rep : α → XF) (G : Geom) (w1 w2 : α)
    (dims : Nat → Nat) (cfg : DSCfg) (slots : List (SlotState α)) (g : List α) (step : Nat)
    (hc : ∀ sl ∈ slots, sl.count = step) (hlen : slots.length = (G.blocks g).length * G.pdims.length) :
    (slotsStep (slotKernels thr N rep G w1 w2 dims) cfg slots g).map (·.stats) =
        lowStats G w1 w2 cfg.si step (slots.map (·.stats)) g ∧
      (slotsStep (slotKernels thr N rep G w1 w2 dims) cfg slots g).map (·.stats) =
        specStats G w1 w2 cfg.si step (slots.map (·.stats)) g := by
  have h := slotsStep_stats thr N rep G w1 w2 dims cfg slots g step hc hlen
  exact ⟨by rw [h, PrecondVerif.C02.stats_flat_list_eq_spec], h⟩

/-- The counter hypothesis of `composed_statistics_are_flat_list` holds along every run that starts synchronised, and
the number of slots never changes. -/
theorem composed_counters_in_sync
    (upd : Nat → List α → List α → PState α → List (Mx α) → List (Mx α) → Option (TOut α)) (mk : SlotK α)
    (cfg : DSCfg) (hist : List (List α × List α)) (s0 : ParamState α)
    (h0 : ∀ sl ∈ s0.slots, sl.count = s0.count) :
    (∀ sl ∈ (run (paramStepWith upd mk cfg) s0 hist).slots,
        sl.count = (run (paramStepWith upd mk cfg) s0 hist).count) ∧
      (run (paramStepWith upd mk cfg) s0 hist).count = s0.count + hist.length ∧
      (run (paramStepWith upd mk cfg) s0 hist).slots.length = s0.slots.length :=
  param_run_sync upd mk cfg hist s0 h0

/-- **`Low` refines `Spec` with gate ∘ Newton as the root** (C02's abstract root replaced by the composed slot
automata): one `update` call of the code-shaped parameter model — slots refreshed through C04's schedule, C03's gate and
C01's Newton routine (or any other slot kernels `mk`), update half by the rotate-and-`tensordot` / arithmetic-selection
code shape — equals the documented one, new state AND emitted update. -/
theorem composed_low_refines_spec (sqrt : α → α) (nc : Nat → α) (G : Geom) (h : Hyper α) (skipP : Bool) (mk : SlotK α)
    (cfg : DSCfg) (s : ParamState α) (g param : List α)
    (hgr : (dsGraftStep sqrt nc h.g g s.fo.diag).1.length = prod G.shape) (hg : g.length = prod G.shape)
    (hp : param.length = prod G.shape) (hm : s.fo.mom.length = prod G.shape)
    (hdm : s.fo.dmom.length = prod G.shape) :
    lowParamStep sqrt nc G h skipP mk cfg s (g, param) = specParamStep sqrt nc G h skipP mk cfg s (g, param) :=
  lowParamStep_eq_spec sqrt nc G h skipP mk cfg s g param hgr hg hp hm hdm

/-- **(2) `update_uses_honest_roots`.**  Along every history of (gradient, parameter) pairs, at every step `t`:
(a) the update the code-shaped model emits is the documented pipeline (`specTransform`: graft, rescale, weight decay,
momenta, warm-up selection, Nesterov, learning rate) applied to the documented blocked mode products of the gradient
with the list `used` of this step's preconditioners (`specPrecondGrad`: block `b`, axis `a` ↦ slot `b·k + #…`);
(b) every entry `P` of `used` (slot `i`, statistic size `dims i ≠ 0`) is the slot's initial preconditioner (the identity),
or an honest Newton root — `HonestRootOf`: `P = X` with reported error non-NaN and `< thr`, `retries ≥ 1`,
`|X^p · A_d − I| ≤ err` entrywise for the ridge actually used — of that slot's statistics `A` as they were after the
statistics update of a refresh step `r` (C04's schedule: `(count₀ + r) % interval(count₀ + r) = 0`), where `r ≤ t` in
replicated mode (the current step's refresh is used) and `r < t` in sharded mode (previous refresh only). -/
theorem update_uses_honest_roots (sqrt : α → α) (nc : Nat → α) (N : NewtonCfg α) (hN : NewtonOK N) (rep : α → XF)
    (thr : XF) (hthr : thr.isNaN = false) (G : Geom) (h : Hyper α) (skipP : Bool) (w1 w2 : α) (dims : Nat → Nat)
    (hd : ∀ i, dims i ≠ 0) (cfg : DSCfg) (s0 : ParamState α) (hist : List (List α × List α)) (t : Nat)
    (ht : t < hist.length) :
    let mk := slotKernels thr N rep G w1 w2 dims
    let step := lowParamStep sqrt nc G h skipP mk cfg
    let S := stateAt step s0 hist
    ((dsGraftStep sqrt nc h.g hist[t].1 (S t).fo.diag).1.length = prod G.shape → hist[t].1.length = prod G.shape →
      hist[t].2.length = prod G.shape → (S t).fo.mom.length = prod G.shape → (S t).fo.dmom.length = prod G.shape →
      (step (S t) hist[t]).2 =
        (if skipP then some hist[t].1 else specPrecondGrad G (usedAt mk cfg (S t) hist[t].1) hist[t].1).map fun pg =>
          specTransform sqrt nc h (S t).count skipP hist[t].1 hist[t].2 (S t).fo pg) ∧
    ∀ i (hi : i < s0.slots.length), ∃ P, (usedAt mk cfg (S t) hist[t].1)[i]? = some P ∧
      (P = s0.slots[i].precond ∨
        ∃ r slr, (r < t ∨ (cfg.sharded = false ∧ r = t)) ∧
          (s0.slots[i].count + r) % cfg.interval (s0.slots[i].count + r) = 0 ∧
          (S (r + 1)).slots[i]? = some slr ∧ HonestRootOf N rep thr (dims i) slr.stats P) := by
  intro mk step S
  refine ⟨fun hgr hg hp hm hdm => ?_, fun i hi => ?_⟩
  · have e := congrArg Prod.snd
      (lowParamStep_eq_spec sqrt nc G h skipP mk cfg (S t) hist[t].1 hist[t].2 hgr hg hp hm hdm)
    exact e
  · exact used_preconds_honest N hN rep thr hthr G w1 w2 dims hd _ cfg s0 hist t ht i hi


/-- **(2) for arbitrary certified per-slot routines** (`slotKernelsWith`): every matrix the update of step `t` is computed
with is the slot's initial one or carries its routine's certificate for the slot's statistics at a refresh step `r ≤ t`
(`r < t` sharded), with an accepted error. -/
theorem update_uses_certified_roots (thr : XF) (hthr : thr.isNaN = false)
    (rootOf : Nat → Mx α → Mx α → Unit → Mx α × XF) (Cert : Nat → Mx α → Mx α → XF → Prop) (I : Nat → Mx α → Prop)
    (hcert : ∀ i st prev f, I i st → Cert i st (rootOf i st prev f).1 (rootOf i st prev f).2)
    (G : Geom) (w1 w2 : α) (hupd : ∀ i st g, I i st → I i (slotStatsUpd G w1 w2 i st g))
    (upd : Nat → List α → List α → PState α → List (Mx α) → List (Mx α) → Option (TOut α))
    (cfg : DSCfg) (s0 : ParamState α) (hist : List (List α × List α)) (t : Nat) (ht : t < hist.length)
    (i : Nat) (hi : i < s0.slots.length) (h0 : I i s0.slots[i].stats) :
    let mk := slotKernelsWith thr rootOf G w1 w2
    let S := stateAt (paramStepWith upd mk cfg) s0 hist
    ∃ P, (usedAt mk cfg (S t) hist[t].1)[i]? = some P ∧
      (P = s0.slots[i].precond ∨
        ∃ r slr e, (r < t ∨ (cfg.sharded = false ∧ r = t)) ∧
          (s0.slots[i].count + r) % cfg.interval (s0.slots[i].count + r) = 0 ∧
          (S (r + 1)).slots[i]? = some slr ∧ e.isNaN = false ∧ e.lt thr = true ∧ Cert i slr.stats P e) :=
  used_preconds_certified thr hthr rootOf Cert I hcert G w1 w2 hupd upd cfg s0 hist t ht i hi h0

/-- **(2) with the root routine as the code dispatches it** (`dispatchSlotRootMx`: the scalar branch for statistics of
size 1, the coupled Newton iteration for size ≥ 2 — so the `1 × 1` slots are covered by the branch the code takes).
Statistics weights `w1, w2 ≥ 0`, initial statistics with non-negative `(0,0)` entry (`ε·I`), `ridge_epsilon > 0`,
`_EPSILON > 0`: every matrix of `used` is the initial one or carries `DispatchCert` — for `dims i = 1`: `P = (x)`,
`x = invroot (a + d)`, `x^p (a + d) = 1`, error `rep 0`; otherwise `P = X`, `e = rep err`, `retries ≥ 1`,
`|X^p · A_d − I| ≤ err` for the ridge actually used. -/
theorem update_uses_honest_roots_dispatch (N : NewtonCfg α) (hN : NewtonOK N) (rep : α → XF) (invroot : α → α)
    (he : 0 < N.eps) (hf : 0 < N.epsFloor) (hinv : ∀ x, 0 < x → invroot x ^ N.p * x = 1) (thr : XF)
    (hthr : thr.isNaN = false) (G : Geom) (w1 w2 : α) (hw1 : 0 ≤ w1) (hw2 : 0 ≤ w2) (dims : Nat → Nat)
    (hd : ∀ i, dims i ≠ 0)
    (upd : Nat → List α → List α → PState α → List (Mx α) → List (Mx α) → Option (TOut α))
    (cfg : DSCfg) (s0 : ParamState α) (hist : List (List α × List α)) (t : Nat) (ht : t < hist.length)
    (i : Nat) (hi : i < s0.slots.length) (h0 : 0 ≤ s0.slots[i].stats 0 0) :
    let mk := slotKernelsWith thr (dispatchSlotRootMx N rep invroot dims) G w1 w2
    let S := stateAt (paramStepWith upd mk cfg) s0 hist
    ∃ P, (usedAt mk cfg (S t) hist[t].1)[i]? = some P ∧
      (P = s0.slots[i].precond ∨
        ∃ r slr e, (r < t ∨ (cfg.sharded = false ∧ r = t)) ∧
          (s0.slots[i].count + r) % cfg.interval (s0.slots[i].count + r) = 0 ∧
          (S (r + 1)).slots[i]? = some slr ∧ e.isNaN = false ∧ e.lt thr = true ∧
          DispatchCert N rep invroot dims i slr.stats P e) :=
  used_preconds_certified thr hthr (dispatchSlotRootMx N rep invroot dims) (DispatchCert N rep invroot dims)
    (fun _ L => 0 ≤ L 0 0) (fun i L prev f hL => dispatch_cert N hN rep invroot he hf hinv dims hd i L prev f hL)
    G w1 w2 (fun i L g hL => slotStatsUpd_diag_nonneg G w1 w2 hw1 hw2 i L g 0 hL) upd cfg s0 hist t ht i hi h0


/-- **`ds_update_entry_is_block_entry`: the entry-level form of block locality, on the composed model.**  For every leaf
geometry (merging, block size, preconditioner type), every list `P` of stored preconditioners — in particular
`usedAt mk cfg (S t) g` of (2), whose entries are the identity or honest roots — and every in-bounds index `idx` of the
merged shape: `preconditioned_grad` succeeds with `reshape(u, original_shape)` flattened, for the code shape (`Low`,
rotate-and-`tensordot`) and the documented one (`Spec`) alike, and the entry `u[idx]` is the entry at `j` of the mode
products of block `k`'s own gradient slice with block `k`'s own slot matrices (`slotMats P … (specSlots … k)`: slots
`k·K + #preconditioned axes before a`), where `(k, j) = locateBlock idx` is the one block containing the entry and its
index inside it (C06 `partition_blocks_tile`, `partition_contiguous`, `partition_merge_id`).  No other block's gradient
or preconditioner enters. -/
theorem ds_update_entry_is_block_entry (G : Geom) (P : List (Mx α)) (g : List α) (idx : List Nat)
    (hi : inBounds G.tshape idx) :
    ∃ u : Tensor α, lowPrecondGrad G P g = some ((u.reshape G.shape).flat) ∧
      specPrecondGrad G P g = some ((u.reshape G.shape).flat) ∧ u.shape = G.tshape ∧
      ∃ hk : (locateBlock G.tshape G.block idx).1 < (G.blocks g).length,
        u.get idx =
          (specBlock ((G.blocks g)[(locateBlock G.tshape G.block idx).1])
            (slotMats P Mx.zero (specSlots G.ptype G.rank (locateBlock G.tshape G.block idx).1))).get
            (locateBlock G.tshape G.block idx).2 := by
  obtain ⟨u, h1, h2, h3⟩ := ds_precond_grad_entry G P g idx hi
  exact ⟨u, by rw [(PrecondVerif.C02.preconditioned_grad_low_eq_spec G P g).1, h1], h1, h2, h3⟩

/-- the hypotheses are satisfiable: a `[2, 3]` parameter, SGD graft, one block, two slots in sync -/
example : (dsGraftStep (fun x : Rat => x) (fun n => (n : Rat)) ⟨.sgd, 1, 0, 0, 1, true, none, 0⟩ [1, 2, 3, 4, 5, 6] []).1.length
    = prod [2, 3] := by decide

end PrecondVerif.ComposeProps.C02

/-! ## (3) devices and the padded batch: C13 × C08 (× C01) -/

namespace PrecondVerif.ComposeProps.C13
open PrecondVerif.InvRoot PrecondVerif.BlockDiag PrecondVerif.Devices PrecondVerif.Compose

variable {α ρ : Type}

/-- **(3) `distributed_equals_single_device`.**  The preconditioner computation of one DS step for the whole tree — the
statistics of all leaves flattened, each handed to the per-matrix routine with the tree-wide `max_size` (padded,
`padding_start = size`, cut), the batch filled up with `-N % D` fillers, split over `D` replicas, every replica mapping
the routine over its slice, `all_gather`, `unbatch`, fillers dropped, every leaf given its slice back — equals, leaf by
leaf and statistic by statistic, the routine run alone on the unpadded statistic on one device.  For every `D ≥ 1`
(all residues of `N mod D`, `N < D`, the empty tree), every tree, every routine that is padding invariant, any filler. -/
theorem distributed_equals_single_device (root : Nat → Nat → A2 α → ρ)
    (root_padding_invariant : ∀ N s a, s ≤ N → root N s a = root s s a) (filler : Stat α) (D : Nat) (hD : 1 ≤ D)
    (leaves : List (List (Stat α))) :
    distributedTreeRoots root filler D leaves = leaves.map (·.map fun st => root st.size st.size st.dat) := by
  rw [distributed_eq_batched root filler D hD leaves]
  exact PrecondVerif.C08.batched_roots_are_map root root_padding_invariant leaves

/-- the sharded (pjit) variant: global arrays partitioned over `D` devices (a multiple of `D`, `D` fillers for an empty
tree), per-leaf views `global[index_start : index_start + count]` with C08's `indexStarts` -/
theorem sharded_equals_single_device (root : Nat → Nat → A2 α → ρ)
    (root_padding_invariant : ∀ N s a, s ≤ N → root N s a = root s s a) (filler : Stat α) (D : Nat) (hD : 1 ≤ D)
    (leaves : List (List (Stat α))) :
    shardedTreeRoots root filler D leaves = leaves.map (·.map fun st => root st.size st.size st.dat) := by
  rw [sharded_eq_batched root filler D hD leaves]
  exact PrecondVerif.C08.batched_roots_are_map root root_padding_invariant leaves

/-- hence any two device counts, and the replicated and the sharded layout, give every leaf the same roots -/
theorem distributed_same_for_any_devices_and_layout (root : Nat → Nat → A2 α → ρ)
    (root_padding_invariant : ∀ N s a, s ≤ N → root N s a = root s s a) (filler filler' : Stat α) (D D' : Nat)
    (hD : 1 ≤ D) (hD' : 1 ≤ D') (leaves : List (List (Stat α))) :
    distributedTreeRoots root filler D leaves = shardedTreeRoots root filler' D' leaves := by
  rw [distributed_equals_single_device root root_padding_invariant filler D hD,
    sharded_equals_single_device root root_padding_invariant filler' D' hD']

/-- (3) for the masked coupled Newton model of C08 (ridge computed from the statistic): no residual hypothesis — the
distributed padded batch returns, for every statistic, exactly root, error, iteration count, error ratio and
`total_retries` of the single-device unpadded run. -/
theorem distributed_equals_single_device_newton [Field α] [LinearOrder α] [IsStrictOrderedRing α] (c : Cfg α)
    (hp : 0 < c.p) (ridgeOf : Nat → A2 α → α) (filler : Stat α) (D : Nat) (hD : 1 ≤ D)
    (leaves : List (List (Stat α))) :
    distributedTreeRoots (fun N s a => paddedRoot N s c (ridgeOf s a) a) filler D leaves =
      leaves.map (·.map fun st => rootA st.size st.size c (ridgeOf st.size st.dat) st.dat) := by
  rw [distributed_equals_single_device _ (fun N s a hs => by
    show paddedRoot N s c (ridgeOf s a) a = paddedRoot s s c (ridgeOf s a) a
    rw [PrecondVerif.C08.root_padding_invariant_newton c hp hs,
      PrecondVerif.C08.root_padding_invariant_newton c hp (le_refl s)]) filler D hD]
  congr 1
  funext leaf
  apply List.map_congr_left
  intro st _
  exact PrecondVerif.C08.root_padding_invariant_newton c hp (le_refl _) _ _

/-- (3) for the eigh root of C08, under the kernel's block decomposition of zero-padded matrices (`KernelPadOK`) -/
theorem distributed_equals_single_device_eigh [Field α] [LinearOrder α] [IsStrictOrderedRing α] (kernel : Kernel α)
    (hk : KernelPadOK kernel) (invE : α → α) (ridgeOf : Nat → A2 α → α) (filler : Stat α) (D : Nat) (hD : 1 ≤ D)
    (leaves : List (List (Stat α))) :
    distributedTreeRoots (fun N s a => paddedEighRoot kernel invE N s (ridgeOf s a) a) filler D leaves =
      leaves.map (·.map fun st => eighRootA kernel invE st.size st.size (ridgeOf st.size st.dat) st.dat) := by
  rw [distributed_equals_single_device _ (fun N s a hs => by
    show paddedEighRoot kernel invE N s (ridgeOf s a) a = paddedEighRoot kernel invE s s (ridgeOf s a) a
    rw [PrecondVerif.C08.root_padding_invariant_eigh kernel hk invE hs,
      PrecondVerif.C08.root_padding_invariant_eigh kernel hk invE (le_refl s)]) filler D hD]
  congr 1
  funext leaf
  apply List.map_congr_left
  intro st _
  exact PrecondVerif.C08.root_padding_invariant_eigh kernel hk invE (le_refl _) _ _

/-- **Padding invariance of C01's Newton routine** (`InvRoot.newtonRoot`, the model `C01.newton_error_honest` is about):
run on an `N × N` matrix whose masked live block is that of `A₂` (`s ≤ N`, `padding_start = s`, same `max_ev` input), it
returns `blockdiag(root of A₂, 0)` with the same reported error, iteration count, error ratio and `total_retries` — every
data-dependent branch (inner-loop exit, converged/old blend, ridge escalation) is taken identically.  Proved by a
simulation between the two operation records (`Lemmas/ComposePad.lean`), for every exponent `p` including `0`. -/
theorem newton_root_padding_invariant_c01 [Field α] [LinearOrder α] [IsStrictOrderedRing α] {s N : Nat} (hs : s ≤ N)
    (c : NConsts α) (p : Nat) (pα alpha : α) (sqrt rootp cast32 : α → α) (thousand epsFloor eps maxEv : α)
    (A₁ : Mat α N N) (A₂ : Mat α s s) (hA : IsEmb (Mat.mask s A₁) (Mat.mask s A₂)) :
    let r₁ := newtonRoot s c p pα alpha sqrt rootp cast32 thousand epsFloor eps maxEv A₁
    let r₂ := newtonRoot s c p pα alpha sqrt rootp cast32 thousand epsFloor eps maxEv A₂
    IsEmb r₁.x r₂.x ∧ r₁.err = r₂.err ∧ r₁.iters = r₂.iters ∧ r₁.ratio = r₂.ratio ∧ r₁.retries = r₂.retries :=
  newtonRoot_padding_invariant hs c p pα alpha sqrt rootp cast32 thousand epsFloor eps maxEv A₁ A₂ hA

/-- C01's power iteration (`max_ev`) does not see the padding either: on `blockdiag(A, 0)` with the zero-extended start
vector it returns the estimate for `A` (same iterates on the live coordinates, same stopping step). -/
theorem power_iteration_padding_invariant_c01 [Field α] [LinearOrder α] [IsStrictOrderedRing α] {s N : Nat}
    (hs : s ≤ N) (sqrt : α → α) (tol : α) (numIters : Nat) {A₁ : Mat α N N} {A₂ : Mat α s s} (hA : IsEmb A₁ A₂)
    {v₁ : Vec α N} {v₂ : Vec α s} (hv : IsEmbV v₁ v₂) :
    powerIteration sqrt tol numIters A₁ v₁ = powerIteration sqrt tol numIters A₂ v₂ :=
  powerIteration_padding_invariant hs sqrt tol numIters hA hv

/-- hence `MaxEvPadOK` holds for both ways the optimizer obtains `max_ev`: C01's power iteration on the masked statistic
started from the masked prefix of one fixed sequence (relative ridge), and the constant (absolute ridge) -/
theorem max_ev_pad_ok [Field α] [LinearOrder α] [IsStrictOrderedRing α] (Nw : NewtonCfg α) :
    (∀ (sqrt : α → α) (tol : α) (numIters : Nat) (u : Nat → α),
        Nw.maxEvOf = piMaxEv sqrt tol numIters u → MaxEvPadOK Nw) ∧
      (∀ c : α, (Nw.maxEvOf = fun _ _ _ => c) → MaxEvPadOK Nw) := by
  refine ⟨fun sqrt tol numIters u h N s a hs => ?_, fun c h N s a _ => ?_⟩
  · rw [h]; exact piMaxEv_padding_invariant hs sqrt tol numIters u a
  · rw [h]

/-- **(3) joined to (1)–(2): `distributed_c01_roots_honest`.**  With C01's Newton routine in the batch position
(`paddedRootC01`: pad to `max_size` with `pad_square_matrix`, `padding_start = size`, cut) and a `max_ev` input that does
not see the padding (`MaxEvPadOK`; `max_ev_pad_ok`), what `D` devices compute for a statistic `st` of the tree-wide padded
batch is exactly `newtonOut N st.size (ofA2 st.size st.dat)` — the per-statistic single-device computation (1) and (2)
are about (`newtonSlotRootMx`) — and it is honest: `|X^p · A_d − I| ≤ err` for the ridge actually used.  No residual
hypothesis on the routine (round 1 had padding invariance as a hypothesis). -/
theorem distributed_c01_roots_honest [Field α] [LinearOrder α] [IsStrictOrderedRing α] (N : NewtonCfg α)
    (hN : NewtonOK N) (hmax : MaxEvPadOK N) (filler : Stat α) (D : Nat) (hD : 1 ≤ D)
    (leaves : List (List (Stat α))) :
    distributedTreeRoots (paddedRootC01 N) filler D leaves =
        leaves.map (·.map fun st =>
          (toMx (newtonOut N st.size (ofA2 st.size st.dat)).x, (newtonOut N st.size (ofA2 st.size st.dat)).err,
            (newtonOut N st.size (ofA2 st.size st.dat)).retries)) ∧
      ∀ leaf ∈ leaves, ∀ st ∈ leaf, st.size ≠ 0 → ∀ i j,
        |((Matrix.of (newtonOut N st.size (ofA2 st.size st.dat)).x) ^ N.p *
            dampedM st.size (ofA2 st.size st.dat) (newtonRidge N st.size (ofA2 st.size st.dat) *
              10 ^ ((newtonOut N st.size (ofA2 st.size st.dat)).retries - 1))
            - Es α st.size st.size) i j| ≤ (newtonOut N st.size (ofA2 st.size st.dat)).err := by
  refine ⟨?_, fun leaf _ st _ hs => (newtonOut_honest N hN st.size hs _).2⟩
  rw [distributed_equals_single_device _
    (fun M s a hs => paddedRootC01_padding_invariant N hs a (hmax M s a hs)) filler D hD]
  congr 1
  funext leaf
  apply List.map_congr_left
  intro st _
  exact paddedRootC01_self N st.size st.dat


/-- **`tree_step_is_map_of_param_steps`: one whole Distributed Shampoo step of the composed model on a parameter TREE.**
`treeStepBatched` is the code shape: statistics per leaf, ONE root computation for the whole tree (all slots of all
leaves flattened, padded to the tree-wide `max_size`, split over `D` devices, gathered, regrouped), then every slot's
schedule / gate step with the result the batch returned for it and every leaf's update half.  If the batch routine is
padding invariant and is, unpadded, each slot's own routine, the result — new state of every leaf (counter, statistics,
preconditioners, errors, momenta) and every emitted update — is exactly that of stepping every leaf on its own
(`treeStepIndep` = `mapIdx` of `paramStepWith`): the leaves interact through nothing but the shared batch, and the shared
batch does not make them interact (C08 `ds_param_update_local` at the level of the whole step).  Any `D ≥ 1`, any tree. -/
theorem tree_step_is_map_of_param_steps [Field α] [LinearOrder α] [IsStrictOrderedRing α] [Inhabited α]
    (rootB : Nat → Nat → A2 α → DShampoo.Mx α × Gate.XF) (hpad : ∀ N s a, s ≤ N → rootB N s a = rootB s s a)
    (filler : Stat α) (D : Nat) (hD : 1 ≤ D)
    (upd : Nat → Nat → List α → List α → DShampoo.PState α → List (DShampoo.Mx α) → List (DShampoo.Mx α) →
      Option (DShampoo.TOut α))
    (mk : Nat → SlotK α) (dims : Nat → Nat → Nat)
    (hroot : ∀ l i L prev, (mk l i).rootAll L prev () = rootB (dims l i) (dims l i) (tabM (dims l i) L))
    (cfg : Schedule.DSCfg) (ps : List (ParamState α)) (inp : Nat → List α × List α) :
    treeStepBatched rootB filler D upd mk dims cfg ps inp = treeStepIndep upd mk cfg ps inp :=
  treeStepBatched_eq_indep rootB hpad filler D hD upd mk dims hroot cfg ps inp

/-- … with gate ∘ C01-Newton everywhere (`slotKernels`, the kernels of (2); `newtonBatchRoot` in the batch position) no
hypothesis on the routine remains: only `MaxEvPadOK` on the `max_ev` input (`max_ev_pad_ok`).  So (1) and (2) — stated
for a single slot / parameter — hold verbatim for every leaf of a tree stepped by the distributed, batched code shape. -/
theorem tree_step_is_map_of_param_steps_newton [Field α] [LinearOrder α] [IsStrictOrderedRing α] [Inhabited α]
    (Nw : NewtonCfg α) (hmax : MaxEvPadOK Nw) (rep : α → Gate.XF) (thr : Gate.XF) (filler : Stat α) (D : Nat)
    (hD : 1 ≤ D)
    (upd : Nat → Nat → List α → List α → DShampoo.PState α → List (DShampoo.Mx α) → List (DShampoo.Mx α) →
      Option (DShampoo.TOut α))
    (G : Nat → DShampoo.Geom) (w1 w2 : α) (dims : Nat → Nat → Nat) (cfg : Schedule.DSCfg)
    (ps : List (ParamState α)) (inp : Nat → List α × List α) :
    treeStepBatched (newtonBatchRoot Nw rep) filler D upd (fun l => slotKernels thr Nw rep (G l) w1 w2 (dims l)) dims
        cfg ps inp =
      treeStepIndep upd (fun l => slotKernels thr Nw rep (G l) w1 w2 (dims l)) cfg ps inp :=
  treeStepBatched_eq_indep (newtonBatchRoot Nw rep) (newtonBatchRoot_padding_invariant Nw rep hmax) filler D hD upd _
    dims (fun l i L prev => newtonSlotRootMx_eq_batch Nw rep (dims l i) L prev) cfg ps inp

/-- **`gate_decisions_independent_of_devices`** (C13 ∘ C03 ∘ C08).  The per-matrix routine returns (root, reported error)
pairs — any routine, so any fault history: NaN / Inf / huge errors on any subset of the statistics — and is padding
invariant (in particular its error for one statistic does not depend on what else sits in the batch or on the replica it
lands on).  Then for every device count `D`, `D'` and either layout (pmap all-gather, pjit global arrays): the reported
error of every statistic, hence C03's gate decision for every slot, hence every stored slot after the gate, are those of
the single-device per-statistic computation.  A non-finite guard that reduces over the whole per-device batch makes the
routine's error depend on its batch neighbours, i.e. breaks the hypothesis `root_padding_invariant`-style locality of the
routine: that is the seeded change this statement excludes. -/
theorem gate_decisions_independent_of_devices {π : Type} (rootE : Nat → Nat → A2 α → π × Gate.XF)
    (root_padding_invariant : ∀ N s a, s ≤ N → rootE N s a = rootE s s a) (filler filler' : Stat α) (D D' : Nat)
    (hD : 1 ≤ D) (hD' : 1 ≤ D') (leaves : List (List (Stat α))) (thr : Gate.XF) (old : List (List π)) :
    let single := leaves.map (·.map fun st => rootE st.size st.size st.dat)
    (distributedTreeRoots rootE filler D leaves).map (·.map Prod.snd) = single.map (·.map Prod.snd) ∧
      (shardedTreeRoots rootE filler' D' leaves).map (·.map Prod.snd) = single.map (·.map Prod.snd) ∧
      gateTree thr (distributedTreeRoots rootE filler D leaves) old = gateTree thr single old ∧
      gateTree thr (shardedTreeRoots rootE filler' D' leaves) old = gateTree thr single old := by
  intro single
  rw [distributed_equals_single_device rootE root_padding_invariant filler D hD,
    sharded_equals_single_device rootE root_padding_invariant filler' D' hD']
  exact ⟨rfl, rfl, rfl, rfl⟩

/-- … and the whole composed tree step (statistics, batch roots, schedule / gate per slot, update half per leaf) is the
same for any two device counts -/
theorem tree_step_independent_of_devices [Field α] [LinearOrder α] [IsStrictOrderedRing α] [Inhabited α]
    (rootB : Nat → Nat → A2 α → DShampoo.Mx α × Gate.XF) (hpad : ∀ N s a, s ≤ N → rootB N s a = rootB s s a)
    (filler filler' : Stat α) (D D' : Nat) (hD : 1 ≤ D) (hD' : 1 ≤ D')
    (upd : Nat → Nat → List α → List α → DShampoo.PState α → List (DShampoo.Mx α) → List (DShampoo.Mx α) →
      Option (DShampoo.TOut α))
    (mk : Nat → SlotK α) (dims : Nat → Nat → Nat)
    (hroot : ∀ l i L prev, (mk l i).rootAll L prev () = rootB (dims l i) (dims l i) (tabM (dims l i) L))
    (cfg : Schedule.DSCfg) (ps : List (ParamState α)) (inp : Nat → List α × List α) :
    treeStepBatched rootB filler D upd mk dims cfg ps inp = treeStepBatched rootB filler' D' upd mk dims cfg ps inp := by
  rw [treeStepBatched_eq_indep rootB hpad filler D hD upd mk dims hroot cfg ps inp,
    treeStepBatched_eq_indep rootB hpad filler' D' hD' upd mk dims hroot cfg ps inp]

/-- (3) for the eigh root WITHOUT `KernelPadOK` (C08 `root_padding_invariant_eigh_unconditional`): it suffices that the
eigen-solver's answers meet the `eigh` specification (`KernelMeetsSpec` / `DsEighSpec`: orthonormal eigenvectors,
reconstruction of the masked regularised matrix, the eigenvalues zeroed by `e *= flip(ix)` are the zero ones) on the
matrices it is actually given — every statistic padded to any `max_size`, and unpadded — and `invE 0 = 0`.  Whatever
decomposition of `blockdiag(R, 0)` the kernel returns, `D` devices compute the single-device unpadded root. -/
theorem distributed_equals_single_device_eigh_unconditional [Field α] [LinearOrder α] [IsStrictOrderedRing α]
    (kernel : Kernel α) (invE : α → α) (h0 : invE 0 = 0) (ridgeOf : Nat → A2 α → α)
    (hspec : ∀ (N s : Nat) (a : A2 α), s ≤ N → KernelMeetsSpec kernel N s (ridgeOf s a) (padSq s N a))
    (hspec0 : ∀ (s : Nat) (a : A2 α), KernelMeetsSpec kernel s s (ridgeOf s a) a)
    (filler : Stat α) (D : Nat) (hD : 1 ≤ D) (leaves : List (List (Stat α))) :
    distributedTreeRoots (fun N s a => paddedEighRoot kernel invE N s (ridgeOf s a) a) filler D leaves =
      leaves.map (·.map fun st => eighRootA kernel invE st.size st.size (ridgeOf st.size st.dat) st.dat) := by
  have hroot : ∀ N s a, s ≤ N → paddedEighRoot kernel invE N s (ridgeOf s a) a = eighRootA kernel invE s s (ridgeOf s a) a :=
    fun N s a hs => (PrecondVerif.C08.root_padding_invariant_eigh_unconditional kernel invE h0 hs _ a (hspec N s a hs)
      (hspec0 s a)).1
  rw [distributed_equals_single_device _ (fun N s a hs => by
    show paddedEighRoot kernel invE N s (ridgeOf s a) a = paddedEighRoot kernel invE s s (ridgeOf s a) a
    rw [hroot N s a hs, hroot s s a (le_refl s)]) filler D hD]
  congr 1
  funext leaf
  apply List.map_congr_left
  intro st _
  exact hroot _ _ _ (le_refl _)

/-- **eigh with padding inside the automaton, on a parameter tree.**  `eighBatchRoot`: C08's eigh root in the batch position
(pad to the tree-wide `max_size`, `padding_start = size`, cut) with a reported error computed from the statistic and that
root; every slot's own routine is the same thing unpadded.  Under the kernel specification above (no `KernelPadOK`) the
batched, distributed tree step equals the per-leaf steps — so the generic slot / parameter theorems
(`stored_preconditioner_is_initial_or_certified_root`, `update_uses_certified_roots`) hold verbatim for every leaf of a
tree stepped with `eigh=True` through the padded batch, as `tree_step_is_map_of_param_steps_newton` gives for Newton. -/
theorem tree_step_is_map_of_param_steps_eigh [Field α] [LinearOrder α] [IsStrictOrderedRing α] [Inhabited α]
    (kernel : Kernel α) (invE : α → α) (h0 : invE 0 = 0) (ridgeOf : Nat → A2 α → α)
    (hspec : ∀ (N s : Nat) (a : A2 α), s ≤ N → KernelMeetsSpec kernel N s (ridgeOf s a) (padSq s N a))
    (hspec0 : ∀ (s : Nat) (a : A2 α), KernelMeetsSpec kernel s s (ridgeOf s a) a)
    (errOf : Nat → A2 α → A2 α → Gate.XF) (thr : Gate.XF) (filler : Stat α) (D : Nat) (hD : 1 ≤ D)
    (upd : Nat → Nat → List α → List α → DShampoo.PState α → List (DShampoo.Mx α) → List (DShampoo.Mx α) →
      Option (DShampoo.TOut α))
    (G : Nat → DShampoo.Geom) (w1 w2 : α) (dims : Nat → Nat → Nat) (cfg : Schedule.DSCfg)
    (ps : List (ParamState α)) (inp : Nat → List α × List α) :
    let mk : Nat → SlotK α := fun l => slotKernelsWith thr
      (fun i L _ _ => eighBatchRoot kernel invE ridgeOf errOf (dims l i) (dims l i) (tabM (dims l i) L)) (G l) w1 w2
    treeStepBatched (eighBatchRoot kernel invE ridgeOf errOf) filler D upd mk dims cfg ps inp =
      treeStepIndep upd mk cfg ps inp := by
  intro mk
  have hroot : ∀ N s a, s ≤ N → paddedEighRoot kernel invE N s (ridgeOf s a) a = eighRootA kernel invE s s (ridgeOf s a) a :=
    fun N s a hs => (PrecondVerif.C08.root_padding_invariant_eigh_unconditional kernel invE h0 hs _ a (hspec N s a hs)
      (hspec0 s a)).1
  exact treeStepBatched_eq_indep (eighBatchRoot kernel invE ridgeOf errOf)
    (fun N s a hs => by
      unfold eighBatchRoot
      rw [hroot N s a hs, hroot s s a (le_refl s)]) filler D hD upd mk dims (fun l i L prev => rfl) cfg ps inp


/-- concrete instance: 3 statistics of sizes 2, 5, 3 in two leaves on 4 devices (one filler), `max_size = 5`; a routine
that only reports (size, first diagonal entry) is padding invariant, and every leaf gets its own results back -/
example :
    distributedTreeRoots (α := ℚ) (fun _ s a => (s, rdM a 0 0)) ⟨0, #[]⟩ 4
        [[⟨2, #[#[7, 0], #[0, 7]]⟩], [⟨5, #[#[1]]⟩, ⟨3, #[#[2]]⟩]]
      = [[(2, 7)], [(5, 1), (3, 2)]] := by
  decide +kernel

end PrecondVerif.ComposeProps.C13

/-! ## (4) Tearfree Sketchy: C04's cadence × C09's bracket -/

namespace PrecondVerif.ComposeProps.C09
open PrecondVerif.FD PrecondVerif.Schedule PrecondVerif.Compose Matrix

variable {R : Type} [Field R] [LinearOrder R] [IsStrictOrderedRing R] [StarRing R] [TrivialStar R]
  [StarOrderedRing R] {d k m : ℕ} {υ : Type}

/-- **Sketchy's stored state brackets the covariance along the whole run.**  C04's Sketchy automaton with update
frequency `f` (any `f`, any start counter), C09's `_update_axis` (`sketchyKernels`) as its kernel, any SVD meeting its
specification, decay `β ≥ 0`, rank `k ≤ d`: if the initial sketch brackets `C` (`V diag(e²) Vᵀ ≤ C ≤ V diag(e²) Vᵀ + t·I`;
the zero sketch brackets `0`), then after every history `gs` the stored sketch brackets `covFrom β C (refreshGrads …)`,
the recurrence `C ← β·C + G Gᵀ` run over exactly the gradients of the steps with `count % f = 0` — skipped steps neither
enter the sketch nor discount it.  (Every prefix of a history is a history, so this holds at every time of the run.) -/
theorem sketchy_run_brackets_refresh_covariance (svd : SvdFn R d (k + m)) (sqrt pw : R → R)
    (hsq : ∀ x, 0 ≤ x → sqrt x * sqrt x = x) (hs0 : ∀ x, 0 ≤ sqrt x) (epsilon : R) (relative : Bool) (β : R)
    (hβ : 0 ≤ β) (hk : k ≤ d) (precondition : SkState R d k → Mat R d m → υ) (f : Nat)
    (hsvd : ∀ (st : SkState R d k) (G : Mat R d m), SvdSpec (sketchyB sqrt β st G) (svd (sketchyB sqrt β st G)))
    (gs : List (Mat R d m)) (s0 : SKState (SkState R d k)) (C : Mat R d d)
    (hlo : (toM C - toM (sketch s0.sketch.denote)).PosSemidef)
    (hhi : (toM (sketch s0.sketch.denote) + s0.sketch.t • (1 : Matrix (Fin d) (Fin d) R) - toM C).PosSemidef) :
    let s := run (sketchyStep (sketchyKernels svd sqrt pw epsilon relative β precondition) f) s0 gs
    (toM (covFrom β C (refreshGrads f s0.count gs)) - toM (sketch s.sketch.denote)).PosSemidef ∧
      (toM (sketch s.sketch.denote) + s.sketch.t • (1 : Matrix (Fin d) (Fin d) R)
        - toM (covFrom β C (refreshGrads f s0.count gs))).PosSemidef :=
  sketchy_run_bracket svd sqrt pw hsq hs0 epsilon relative β hβ hk precondition f hsvd gs s0 C hlo hhi

/-- with `update_freq = 1` every gradient enters: the bracket is around the full discounted second moment -/
theorem sketchy_every_step_is_full_covariance {γ : Type} (c : Nat) (gs : List γ) : refreshGrads 1 c gs = gs := by
  induction gs generalizing c with
  | nil => rfl
  | cons g gs ih => simp [refreshGrads, Nat.mod_one, ih]

/-- which gradients a cadence lets through: frequency 3 from counter 0 keeps steps 0, 3, 6 -/
example : refreshGrads 3 0 [10, 11, 12, 13, 14, 15, 16] = [10, 13, 16] := by decide

end PrecondVerif.ComposeProps.C09

/-! ## (4b) Tearfree Shampoo: the blocked update is the per-block update (C15 × C04's cadence × C06's blocks) -/

namespace PrecondVerif.ComposeProps.C15
open PrecondVerif.Tearfree PrecondVerif.Shapes PrecondVerif.Compose

variable {α : Type} [Zero α] [One α] [Add α] [Sub α] [Mul α] [LT α] [DecidableLT α] [BEq α] [Max α] {P : Type}

/-- **Block level.**  One `shampoo._update` call on a (merged, padded) leaf of shape `ps` holding one stored state per
block: every block `n` goes through `tfBlockStep` — statistics cond (`count % update_statistics_freq`), then preconditioner
cond on the result, then apply — as a function of ITS OWN gradient slice `extractBlock … n` and ITS OWN stored state only;
the new state is the list of the per-block new states and the emitted update is `deblockify ∘ assembleBlocks` of the
per-block outputs (C04's Tearfree cadence, C15 `shampoo_cadence`). -/
theorem tearfree_blocked_update_is_per_block_update_blocks (eigh : EighFn α) (hp : ℕ → α → α) (cut decay : α)
    (bs sf pf : ℕ) (ps : List ℕ) (u : List α) (st : ShState α) (x : P)
    (hlen : st.blocks.length = (blocksMetadata bs ps).numBlocks) :
    let m := blocksMetadata bs ps
    let Bt := blockify (ofFlatL ps u) m
    let xs := (List.range m.numBlocks).map fun n => extractBlock Bt.flat.toArray Bt.shape m.blockSizes m.blocksAxis n
    let per := List.zipWith (tfBlockStep eigh (hp (shampooExponent ps)) cut decay m.blockSizes sf pf st.count) xs st.blocks
    ((shampooTx (P := P) eigh hp cut decay bs sf pf ps).update u st x).2 = ⟨st.count + 1, per.map Prod.fst⟩ ∧
    ((shampooTx (P := P) eigh hp cut decay bs sf pf ps).update u st x).1 =
      (deblockify (ofFlat Bt.shape (assembleBlocks (per.map Prod.snd) Bt.shape m.blockSizes m.blocksAxis)) m).flat :=
  tf_blocked_is_per_block eigh hp cut decay bs sf pf ps u st x hlen

/-- **`tearfree_blocked_update_is_per_block_update` (entry level; C06 `deblockify_pointwise` + `blockify_shape`).**  For
every leaf `_init` accepts (at most two large axes, each a multiple of the block size) and every in-bounds entry `idx`
of the (merged, padded) leaf: with `blk = blockIndexOf idx` the block the entry lies in (`blk < num_blocks`) and
`innerIndexOf idx` its index inside that block, the update entry at `idx` IS the entry at that inner index of
`tfBlockStep` — cadenced statistics update, cadenced root refresh, apply — run on block `blk`'s own gradient slice and own
stored state.  No other block's gradient or state enters. -/
theorem tearfree_blocked_update_is_per_block_update (eigh : EighFn α) (hp : ℕ → α → α) (cut decay : α)
    (bs sf pf : ℕ) (ps : List ℕ) (u : List α) (st : ShState α) (x : P) (hb : 0 < bs)
    (hle : (blocksMetadata bs ps).largeAxes.length ≤ 2)
    (hdiv : ∀ a ∈ (blocksMetadata bs ps).largeAxes, bs ∣ ps.getD a 0)
    (hlen : st.blocks.length = (blocksMetadata bs ps).numBlocks) (idx : List Nat) (hi : inBounds ps idx) :
    let m := blocksMetadata bs ps
    let Bt := blockify (ofFlatL ps u) m
    let blk := blockIndexOf m idx
    blk < m.numBlocks ∧
    (ofFlatL ps ((shampooTx (P := P) eigh hp cut decay bs sf pf ps).update u st x).1).get idx =
      rd (tfBlockStep eigh (hp (shampooExponent ps)) cut decay m.blockSizes sf pf st.count
            (extractBlock Bt.flat.toArray Bt.shape m.blockSizes m.blocksAxis blk)
            (st.blocks.getD blk ⟨[], []⟩)).2
        (ravel m.blockSizes (innerIndexOf m idx)) :=
  tf_update_entry eigh hp cut decay bs sf pf ps u st x hb hle hdiv hlen idx hi

/-- … and the block's "own gradient slice" is the contiguous sub-tensor of the leaf starting at the block's offsets
(C06 `blockify_block_contiguous`): entry `j` of `extractBlock … n` is the leaf's entry at `tfBlockOffsets n + j`. -/
theorem tearfree_block_slice_is_contiguous (bs : ℕ) (ps : List ℕ) (u : List α) (hb : 0 < bs)
    (hle : (blocksMetadata bs ps).largeAxes.length ≤ 2)
    (hdiv : ∀ a ∈ (blocksMetadata bs ps).largeAxes, bs ∣ ps.getD a 0) (n : Nat)
    (hn : n < (blocksMetadata bs ps).numBlocks) (j : List Nat) (hj : inBounds (blocksMetadata bs ps).blockSizes j) :
    let m := blocksMetadata bs ps
    let Bt := blockify (ofFlatL ps u) m
    rd (extractBlock Bt.flat.toArray Bt.shape m.blockSizes m.blocksAxis n) (ravel m.blockSizes j) =
      (ofFlatL ps u).get (addOff (tfBlockOffsets m n) j) :=
  tf_block_slice_get bs ps u hb hle hdiv n hn j hj

/-- **Padding never changes real entries** (adapter of C15's `zero_padding_invisible` — stated on Mathlib matrices — to the
block arrays `blockApply` / `applyAxis` work on).  One factor of `_precondition_blocks` along an axis of padded extent
`n + k`, with the root `blockRoot` computes from the stored statistics array `C'`, when those statistics are
`blockdiag(C, 0)` (the solver's output meets `EighSpec` for `padFn k C`; kept along every history by
`C15.padded_statistics_stay_padded`): the output entry in a real row `i < n` is `Σ_{c<n} R[i][c] · x[o,c,r]` with `R` the
root of the UNPADDED statistics — neither the padded entries of `x` nor the padding of the statistics enter — and the
entries in padding rows are exactly `0`.  (Same two lemmas as `C15.zero_padding_invisible`: `rootOfEigh_unique`,
`rootOfEigh_padEigh`; `Props/C15` itself is not imported to keep this file light.) -/
theorem tearfree_padding_never_changes_real_entries {α : Type} [Field α] [LinearOrder α] [IsStrictOrderedRing α]
    (eigh : EighFn α) (hp : α → α) (cut : α) (hcut : 0 ≤ cut) (v : AxView) (n k : Nat) (hv : v.d = n + k)
    (C' x : Array α) (C : Matrix (Fin n) (Fin n) α) (e : EighOut α n) (hs : EighSpec C e) (hw : ∀ a, 0 ≤ e.w a)
    (hs' : EighSpec (Matrix.of (padFn k C)) (eigh (n + k) (arrToMat (n + k) C')))
    (o i r : Nat) (ho : o < v.outer) (hi : i < n + k) (hr : r < v.inner) :
    rd (applyAxis v (blockRoot eigh hp cut (n + k) C') x) ((o * v.d + i) * v.inner + r) =
      if h : i < n then ∑ c : Fin n, rootOfEigh hp cut e ⟨i, h⟩ c * rd x ((o * v.d + c.val) * v.inner + r) else 0 :=
  applyAxis_padded_root eigh hp cut hcut v n k hv C' x C e hs hw hs' o i r ho hi hr

end PrecondVerif.ComposeProps.C15

/-! ## (5) frequent-directions slots: C03's gated warm-start / reset slot machine × C09's guarded `_fd_update_root` -/

namespace PrecondVerif.ComposeProps.C09
open PrecondVerif.FD PrecondVerif.Gate PrecondVerif.Compose Matrix

variable {R : Type} [Field R] [LinearOrder R] [IsStrictOrderedRing R] [StarRing R] [TrivialStar R]
  [StarOrderedRing R] {d k : ℕ}

/-- **`stored_fd_sketch_brackets_accepted_history`.**  C03's slot machine with the stored sketch as the warm start
(`slotRunReset`; `rf = none` is plain `slotRunDep`, `rf = some f` is `reset_preconditioner` with `reset_frequency = f`),
kernel = C09's guarded `_fd_update_root` (`fdWarmRoot`: `dsFdUpdateRootG` on the SVD of `dsB`), reported errors and
`efficient_cond` carries adversarial, any refresh interval, any start counter, any number of steps.  If the initial
sketch brackets `C` (the zero sketch brackets `0`: `brackets_zero`) then after the run the stored sketch brackets
`fdCovRun …`: the matrix obtained from `C` by `C ← β·(C_w + ridgeShift) + G̃ G̃ᵀ` at exactly the ACCEPTED refresh steps
(`count % itv = 0`, error not NaN and `< thr`), `G̃` the padding-masked gradient factor of that step, `C_w = C` normally
and `C_w = 0` on a reset step (the covariance restarts at each accepted reset step), and left UNTOUCHED by every other
step — a rejected step (NaN error after D25, error ≥ threshold) neither changes the stored sketch nor enters `C`.
`ridgeShift` is what `_fd_update_root` itself adds before decaying (per-step ridge on the active directions, re-masking):
it is part of the bracketed matrix, exactly as in C09's one-step theorem.
Hypotheses that stay (all C09's): the SVD meets `SvdSpec` on the matrices it is handed (stated for all inputs: an
external kernel), `sqrt` the non-negative root, guards window containing 1, `β ≥ 0`, `padding_start ≠ 0`,
`ridge_epsilon ≥ 0`, `error_tolerance ≥ 0`, `k ≤ d`; the initial stored state has `l ≥ 0`, `t ≥ 0` (`FdGood`). -/
theorem stored_fd_sketch_brackets_accepted_history (svd : SvdFn R d (k + d)) (sqrt pw : R → R)
    (hsq : ∀ x, 0 ≤ x → sqrt x * sqrt x = x) (hs0 : ∀ x, 0 ≤ sqrt x) (g : Guards R) (hlo : g.lo ≤ 1) (hhi : 1 ≤ g.hi)
    (hgt : 0 ≤ g.thr) (cfg : DsCfg R) (hβ : 0 ≤ cfg.β) (hps : cfg.ps ≠ 0) (he : 0 ≤ cfg.ridgeEps)
    (htol : 0 ≤ cfg.tol) (hk : k ≤ d)
    (hsvd : ∀ (st : State R d k) (G : Mat R d d), SvdSpec (dsB sqrt cfg st G) (svd (dsB sqrt cfg st G)))
    (thr : XF) (hthr : thr.isNaN = false) (itv : Nat) (rf : Option Nat) (zero : DsOut R d k → DsOut R d k)
    (hz : ∀ p, (zero p).st = State.zero d k) (Gs : Nat → Mat R d d) (errOf : Nat → DsOut R d k → XF)
    (junk : Nat → DsOut R d k) (n count : Nat) (s : Slot (DsOut R d k)) (C : Matrix (Fin d) (Fin d) R)
    (hg : FdGood s.precond.st) (hb : Brackets s.precond.st C) :
    let root := fdWarmRoot svd sqrt pw g cfg Gs errOf junk
    Brackets (slotRunReset select thr itv rf zero root count s n).precond.st
      (fdCovRun thr itv rf zero cfg Gs root count s C n) :=
  (fd_run_brackets svd sqrt pw hsq hs0 g hlo hhi hgt cfg hβ hps he htol hk hsvd thr hthr itv rf zero hz Gs errOf junk
    n count s C hg hb).2

/-- reading `fdCovRun`: a step that is not an accepted refresh leaves the bracketed matrix (and, by C03's
`reset_step_spec`, the stored sketch) untouched; an accepted one applies the FD recurrence, restarted from `0` on a reset
step -/
theorem fd_cov_run_step (thr : XF) (itv : Nat) (rf : Option Nat) (zero : DsOut R d k → DsOut R d k) (cfg : DsCfg R)
    (Gs : Nat → Mat R d d) (root : WarmRoot (DsOut R d k)) (count : Nat) (s : Slot (DsOut R d k))
    (C : Matrix (Fin d) (Fin d) R) (n : Nat) :
    fdCovRun thr itv rf zero cfg Gs root count s C (n + 1) =
      fdCovRun thr itv rf zero cfg Gs root (count + 1) (slotStepReset select thr itv rf zero count root s)
        (if fdAccepted thr itv count (root count (warmStart rf zero count s.precond)) then
          cfg.β • ((if isReset rf count then 0 else C) + ridgeShift cfg (warmStart rf zero count s.precond).st) +
            toM (outer (dsMaskG cfg.ps (Gs count)))
         else C) n := rfl

end PrecondVerif.ComposeProps.C09

/-! ## (6) resumption in sharded mode: C14 × C07 -/

namespace PrecondVerif.ComposeProps.C14
open PrecondVerif.Ser PrecondVerif.Layout

variable {α σ G U : Type}

/-- one sharded update keeps the initial layout (C07 `sharded_layout_fixpoint_steps` at one step) -/
theorem sharded_layout_step_fixpoint (c : Cfg) (ps : List (List Nat)) (L : ShardedLayout) (hs : c.shard = true)
    (hdims : dimsPos ps) (h : shardedInit c ps = .ok L)
    (hacc : rootReject c (globalDims c ps).2 .update = none) : shardedStep c ps L = .ok L := by
  have h1 := PrecondVerif.C07.sharded_layout_fixpoint_steps c ps L 1 hs hdims h hacc
  unfold shardedSteps at h1
  cases hst : shardedStep c ps L with
  | error e => rw [hst] at h1; cases h1
  | ok L' =>
    rw [hst] at h1
    simp only [shardedSteps, bind, Except.bind, pure, Except.pure] at h1
    rw [Except.ok.inj h1]

/-- **`ds_sharded_resume_eq_uninterrupted`** (C14 ∘ C07, sharded mode): Distributed Shampoo with
`shard_optimizer_states` — global statistics / preconditioner arrays over the devices plus per-parameter local stats —
for any configuration whose root is not rejected: the C07 sharded layout `L` of `sharded_init_fn` is a fixed point of the
sharded update (`C07.sharded_layout_fixpoint_steps`), so by `C14.resume_eq_uninterrupted_of_invariant` (invariant "the
state has layout `L`") interrupting after ANY `k` steps, serializing, restoring into a template of that layout and
continuing yields exactly the updates and the final state of the uninterrupted run.  Hypotheses as in C14's replicated
instance: `layoutOf` reads the layout off a state tree, states of layout `L` have one skeleton, and the value-level step
moves the layout as C07's `shardedStep` says (tied to the real `update` by the C07 check). -/
theorem ds_sharded_resume_eq_uninterrupted (c : Cfg) (ps : List (List Nat)) (L : ShardedLayout) (hs : c.shard = true)
    (hdims : dimsPos ps) (hinit : shardedInit c ps = .ok L)
    (hacc : rootReject c (globalDims c ps).2 .update = none)
    (layoutOf : PyTree α σ → ShardedLayout) (skel : PyTree Unit σ)
    (hskel : ∀ s, layoutOf s = L → skeleton s = skel)
    (step : PyTree α σ → G → U × PyTree α σ)
    (hstep : ∀ s g, layoutOf s = L → shardedStep c ps (layoutOf s) = .ok (layoutOf (step s g).2))
    (tmpl s₀ : PyTree α σ) (h0 : layoutOf s₀ = L) (ht : layoutOf tmpl = L) (hwf : wf s₀ = true) (gs : List G)
    (k : Nat) :
    resume step tmpl s₀ gs k = .ok (run step s₀ gs) := by
  have hfix := sharded_layout_step_fixpoint c ps L hs hdims hinit hacc
  refine PrecondVerif.C14.resume_eq_uninterrupted_of_invariant step (fun s => layoutOf s = L) tmpl s₀ h0 ?_ ?_ hwf ?_ gs k
  · intro s g hsL
    have := hstep s g hsL
    rw [hsL, hfix] at this
    exact (Except.ok.inj this).symm
  · intro s hsL
    show skeleton s = skeleton s₀
    rw [hskel s hsL, hskel s₀ h0]
  · show skeleton tmpl = skeleton s₀
    rw [hskel tmpl ht, hskel s₀ h0]

end PrecondVerif.ComposeProps.C14
