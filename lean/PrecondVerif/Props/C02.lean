/-
C02 — the Distributed Shampoo update equals the documented blocked-Shampoo math.

"Documented" (formalised in `Model/DShampoo.lean`, section `Spec`; printed here for inspection), per parameter,
per block `b` of the merged-and-partitioned gradient, per preconditioned axis `a`:

  L_{b,a} ← β2·L_{b,a} + w2·(G_b ×_a G_b)   on statistics steps,  w2 = 1 if β2 = 1 else 1 − β2,  L⁰ = ε·I
  P_{b,a} = gate(root(L_{b,a}, p)),  p = 2·#preconditioned axes, or the override           (root: C01, gate: C03)
  PG_b    = G_b ×_{a₁} P_{b,a₁} ×_{a₂} …                                                   (P^T G Q for matrices)
  graft   = graft step (7 types) · (lr if the learning rate is coupled)
  S       = PG · ‖graft‖ / (‖PG‖ + _EPSILON)                        (PG itself for GraftingType.NONE)
  u       = (S from start_preconditioning_step on, graft before)  + wd·x  (coupled weight decay)
  m       ← β1·m + w·u,   w = 1 − β1 with moving_average_for_momentum else 1      (both momenta are advanced)
  out     = w·u + β1·m (Nesterov) or m;   + (lr if coupled else 1)·wd·x  (decoupled weight decay)
  update  = −(lr if decoupled else 1)·out
In sharded mode `PG` uses the preconditioners stored BEFORE this step.

The theorems show that the code-shaped model `Low` (flat statistics list with a running index, `_preconds_for_grad`
slots with `None`, rotate-and-`tensordot` loop, arithmetic selection `run*a + (1−run)*b`) refines this `Spec`; the
inverse root is an abstract function in both (it is not even mentioned: the comparison is split at the state
boundary), so the statements are independent of Newton / eigh / ridge escalation.
-/
import PrecondVerif.Lemmas.DShampoo
import PrecondVerif.Props.C06

set_option linter.unusedSectionVars false
set_option linter.unusedSimpArgs false

namespace PrecondVerif.C02
open PrecondVerif.Shapes PrecondVerif.Graft PrecondVerif.DShampoo

/-! ### slots and statistics -/

/-- Flat index ↔ (block, preconditioned axis): `s = b·k + j` is a bijection between `[0, n·k)` and
`[0, n) × [0, k)`, and the statistics loop (which counts `preconditioned_dims`) and the preconditioner slices
(which use `num_preconditioners = sum(should_precondition_dims)`) agree on `k`. -/
theorem stats_slot_bijection (G : Geom) (n : Nat) :
    G.pdims.length = G.k ∧
    (∀ b j, b < n → j < G.k → b * G.k + j < n * G.k ∧ (b * G.k + j) / G.k = b ∧ (b * G.k + j) % G.k = j) ∧
    (∀ s, s < n * G.k → s / G.k < n ∧ s % G.k < G.k ∧ s / G.k * G.k + s % G.k = s) := by
  refine ⟨pdims_length G, ?_, ?_⟩
  · intro b j hb hj
    have hk : 0 < G.k := Nat.lt_of_le_of_lt (Nat.zero_le _) hj
    refine ⟨?_, ?_, ?_⟩
    · calc b * G.k + j < b * G.k + G.k := by omega
        _ = (b + 1) * G.k := by rw [Nat.succ_mul]
        _ ≤ n * G.k := Nat.mul_le_mul_right _ hb
    · rw [Nat.mul_comm, Nat.mul_add_div hk, Nat.div_eq_of_lt hj, Nat.add_zero]
    · rw [Nat.mul_comm, Nat.mul_add_mod, Nat.mod_eq_of_lt hj]
  · intro s hs
    have hk : 0 < G.k := Nat.pos_of_ne_zero (by intro h0; simp [h0] at hs)
    exact ⟨Nat.div_lt_of_lt_mul (by rwa [Nat.mul_comm]), Nat.mod_lt _ hk, Nat.div_add_mod' s _⟩

section Generic
variable {α : Type} [Add α] [Mul α] [OfNat α 0]

/-- The flat statistics list produced by the loop of `updated_statistics_from_grad` (running `index`) is the
documented family: slot `b·k + j` holds `w1·L + w2·(G_b ×_a G_b)` for block `b` and the `j`-th preconditioned
axis `a`; on a non-statistics step nothing changes. Every rank, block count, `k`. -/
theorem stats_flat_list_eq_spec [Inhabited α] (G : Geom) (w1 w2 : α) (si step : Nat) (stats : List (Mx α))
    (g : List α) : lowStats G w1 w2 si step stats g = specStats G w1 w2 si step stats g :=
  lowStats_eq_specStats G w1 w2 si step stats g

/-- Entry of the flat list, explicitly. -/
theorem stats_slot_value (w1 w2 : α) (stats : List (Mx α)) (pdims : List Nat) (blocks : List (Tensor α))
    (b j : Nat) (hb : b < blocks.length) (hj : j < pdims.length) :
    (lowNewStats w1 w2 stats blocks pdims)[b * pdims.length + j]? =
      some (statStep w1 w2 (stats.getD (b * pdims.length + j) Mx.zero) blocks[b] pdims[j]) := by
  have := lowStatsGo_getElem? w1 w2 stats pdims blocks 0 b j hb hj
  simpa [lowNewStats] using this

/-- `_preconds_for_grad` (with its `None` padding for INPUT / OUTPUT) gives axis `a` of block `b` the slot
`b·k + #preconditioned axes before a`, and no slot to an axis that is not preconditioned. -/
theorem slots_low_eq_spec (pt : PType) (rank b : Nat) : lowSlots pt rank b = specSlots pt rank b :=
  lowSlots_eq_specSlots pt rank b

/-! ### rotate-and-tensordot -/

/-- The loop of `_precondition_block` (tensordot with the first axis / cyclic transpose, once per axis) returns
the mode products along the preconditioned axes and the identity along the others — same shape, same entry at
every index — for every rank and every pattern of preconditioned axes. -/
theorem rotate_tensordot_eq_mode_products (g : Tensor α) (slots : List (Option (Mx α)))
    (h : slots.length = g.shape.length) :
    (lowBlock g slots).shape = g.shape ∧ (specBlock g slots).shape = g.shape ∧
    ∀ idx : List Nat, idx.length = g.shape.length → (lowBlock g slots).get idx = (specBlock g slots).get idx :=
  lowBlock_eq_specBlock g slots h

/-- Matrices: the loop computes `Pᵀ G Q`, i.e. `Σ_b (Σ_a G[a,b]·P[a,i])·Q[b,j]`. -/
theorem precondition_matrix_PtGQ (g : Tensor α) (m n : Nat) (hs : g.shape = [m, n]) (P Q : Mx α) (i j : Nat) :
    (lowBlock g [some P, some Q]).get [i, j] =
      lsum ((List.range n).map fun b => lsum ((List.range m).map fun a => g.get [a, b] * P a i) * Q b j) := by
  have h := (lowBlock_eq_specBlock g [some P, some Q] (by simp [hs])).2.2 [i, j] (by simp [hs])
  rw [h]
  simp [specBlock, specBlockFrom, modeProd, hs]

/-- One-sided preconditioning of a matrix (OUTPUT): only the last axis is multiplied, `G Q`. -/
theorem precondition_matrix_output (g : Tensor α) (m n : Nat) (hs : g.shape = [m, n]) (Q : Mx α) (i j : Nat) :
    (lowBlock g [none, some Q]).get [i, j] = lsum ((List.range n).map fun b => g.get [i, b] * Q b j) := by
  have h := (lowBlock_eq_specBlock g [none, some Q] (by simp [hs])).2.2 [i, j] (by simp [hs])
  rw [h]
  simp [specBlock, specBlockFrom, modeProd, hs]

end Generic

/-! ### selection, pipeline order -/
section Field
variable {α : Type} [Field α] [LinearOrder α] [IsStrictOrderedRing α]

/-- For `run ∈ {0, 1}` (it is `(step ≥ start).astype(float)`) and operands of a field (finite values), the
arithmetic selection of the code is the documented selection. (On non-finite operands it is not: C03.) -/
theorem blend_eq_select (step start : Nat) (a b : List α) (h : a.length = b.length) :
    blend (runShampoo step start : α) a b = selectRun step start a b :=
  DShampoo.blend_eq_select step start a b h

theorem blend_eq_select_scalar (r x y : α) (h : r = 0 ∨ r = 1) :
    r * x + (1 - r) * y = if r = 1 then x else y := blend_scalar r x y h

/-- `_transform_grad` with its arithmetic selection equals the documented pipeline, whenever the vectors of one
parameter have one length. -/
theorem transform_low_eq_spec (sqrt : α → α) (nc : Nat → α) (h : Hyper α) (step : Nat) (skip : Bool)
    (g param : List α) (st : PState α) (precond : List α) (n : Nat)
    (hgr : (dsGraftStep sqrt nc h.g g st.diag).1.length = n) (hp : param.length = n) (hpc : precond.length = n)
    (hm : st.mom.length = n) (hdm : st.dmom.length = n) :
    lowTransform sqrt nc h step skip g param st precond = specTransform sqrt nc h step skip g param st precond :=
  lowTransform_eq_specTransform sqrt nc h step skip g param st precond n hgr hp hpc hm hdm

/-- The documented per-coordinate formula, all 2⁵ flag combinations at once (`docCoord`): candidate selection,
coupled weight decay, momentum, Nesterov, decoupled weight decay, −lr — in this order. -/
theorem update_coordinate_formula (sqrt : α → α) (nc : Nat → α) (h : Hyper α) (step : Nat) (skip : Bool)
    (g param : List α) (st : PState α) (precond : List α) (i : Nat) (s gr x m dm : α)
    (hs : (candidates sqrt nc h skip g param st precond).shampoo[i]? = some s)
    (hg : (candidates sqrt nc h skip g param st precond).graft[i]? = some gr)
    (hx : param[i]? = some x) (hm : st.mom[i]? = some m) (hdm : st.dmom[i]? = some dm) :
    (specTransform sqrt nc h step skip g param st precond).upd[i]? =
      some (docCoord h (decide (h.g.start ≤ step)) s gr x m dm) :=
  spec_update_coord sqrt nc h step skip g param st precond i s gr x m dm hs hg hx hm hdm

/-- Nesterov uses the momentum AFTER this step's accumulation and the update AFTER coupled weight decay:
`w·u + β1·(β1·m + w·u)`; without Nesterov the result is the new momentum `β1·m + w·u`. -/
theorem momentum_nesterov_order (h : Hyper α) (run : Bool) (s gr x m dm u m0 : α) (hd : decoupledWdOn h = false)
    (hu : u = (if run then s else gr) + (if coupledWd h then h.wd * x else 0))
    (hm0 : m0 = if run then m else dm) :
    docCoord h run s gr x m dm =
      -(momentumMultiplier h.g) *
        (if h.nesterov then momW h * u + h.beta1 * (h.beta1 * m0 + momW h * u) else h.beta1 * m0 + momW h * u) := by
  subst hu hm0
  unfold docCoord docOut
  rw [hd]
  cases run <;> cases h.nesterov <;> cases coupledWd h <;>
    simp only [Bool.false_eq_true, ↓reduceIte] <;> ring

/-- Coupled weight decay enters the update BEFORE the momentum (so it is accumulated): the result is the one
for `wd = 0` with both candidates shifted by `wd·x`. Decoupled weight decay is added AFTER momentum and Nesterov,
is never accumulated, and is multiplied by `lr` exactly once (through `wd_lr` when the learning rate is coupled,
through the final `−lr` when it is decoupled). -/
theorem weight_decay_placement (h : Hyper α) (run : Bool) (s gr x m dm : α) :
    (coupledWd h = true → decoupledWdOn h = false ∧
      docOut h run s gr x m dm = docOut { h with wd := 0 } run (s + h.wd * x) (gr + h.wd * x) x m dm) ∧
    (decoupledWdOn h = true → coupledWd h = false ∧
      docOut h run s gr x m dm = docOut { h with wd := 0 } run s gr x m dm + wdLr h * h.wd * x ∧
      docCoord h run s gr x m dm =
        docCoord { h with wd := 0 } run s gr x m dm - (wdLr h * momentumMultiplier h.g) * h.wd * x) := by
  have hz0 : coupledWd ({ h with wd := 0 } : Hyper α) = false := by simp [coupledWd]
  have hz1 : decoupledWdOn ({ h with wd := 0 } : Hyper α) = false := by simp [decoupledWdOn]
  refine ⟨?_, ?_⟩
  · intro hc
    have hdec : decoupledWdOn h = false := by
      unfold coupledWd at hc; unfold decoupledWdOn
      cases hdw : h.decoupledWd <;> simp_all
    refine ⟨hdec, ?_⟩
    unfold docOut
    rw [hc, hdec, hz0, hz1]
    dsimp only [momW]
    cases run <;> cases h.nesterov <;> cases h.movingAvg <;>
      simp only [Bool.false_eq_true, ↓reduceIte] <;> ring
  · intro hdn
    have hcp : coupledWd h = false := by
      unfold decoupledWdOn at hdn; unfold coupledWd
      cases hdw : h.decoupledWd <;> simp_all
    refine ⟨hcp, ?_, ?_⟩
    · unfold docOut
      rw [hcp, hdn, hz0, hz1]
      dsimp only [momW]
      cases run <;> cases h.nesterov <;> cases h.movingAvg <;>
        simp only [Bool.false_eq_true, ↓reduceIte] <;> ring
    · unfold docCoord docOut
      rw [hcp, hdn, hz0, hz1]
      dsimp only [momW]
      cases run <;> cases h.nesterov <;> cases h.movingAvg <;>
        simp only [Bool.false_eq_true, ↓reduceIte] <;> ring

/-- Learning-rate coupling. Decoupled (default): `lr` multiplies the result once, at the very end — the update
is `lr` times the update for `lr = 1` and the stored state does not depend on `lr`. Coupled: the final factor is
`−1`, `lr` multiplies the graft step (hence the transplanted norm) and the decoupled weight decay instead. -/
theorem lr_coupling (sqrt : α → α) (nc : Nat → α) (h : Hyper α) (step : Nat) (skip : Bool)
    (g param : List α) (st : PState α) (precond : List α) :
    (h.g.decoupledLr = true →
      (specTransform sqrt nc h step skip g param st precond).upd =
          (specTransform sqrt nc { h with g := { h.g with lr := 1 } } step skip g param st precond).upd.map
            (fun y => h.g.lr * y) ∧
        (specTransform sqrt nc h step skip g param st precond).st =
          (specTransform sqrt nc { h with g := { h.g with lr := 1 } } step skip g param st precond).st) ∧
    (h.g.decoupledLr = false →
      momentumMultiplier h.g = 1 ∧ precondMultiplier h.g = h.g.lr ∧ wdLr h = h.g.lr) := by
  constructor
  · intro hd
    exact spec_lr_decoupled sqrt nc h step skip g param st precond hd
  · intro hd
    simp [momentumMultiplier, precondMultiplier, wdLr, hd]

end Field

/-! ### statistics over a history, exponent -/

/-- Closed form of the second-moment recurrence by induction over the history, for every interleaving of
statistics and non-statistics steps: `L_T = w1^m·L⁰ + w2·Σ_s w1^{m_s}·(G_s ×_a G_s)`, `m` the number of
statistics steps, `m_s` the number of statistics steps after `s`; only statistics steps contribute. -/
theorem statistics_closed_form {α : Type} [CommRing α] (w1 w2 : α) (a i j : Nat)
    (hist : List (Bool × Tensor α)) (L0 : Mx α) :
    statRun w1 w2 a L0 hist i j = w1 ^ refreshCount hist * L0 i j + w2 * gramSum w1 a i j hist :=
  statRun_closed w1 w2 a i j hist L0

/-- … in particular from `L⁰ = ε·I`, with `w2 = 1` for `β2 = 1` (a plain sum) and `1 − β2` otherwise. -/
theorem statistics_closed_form_init {α : Type} [Field α] [DecidableEq α] (β2 ε : α) (a i j : Nat)
    (hist : List (Bool × Tensor α)) :
    statRun (statW1 β2) (statW2 β2) a (statInit ε) hist i j =
      β2 ^ refreshCount hist * (if i = j then ε else 0) +
        (if β2 = 1 then 1 else 1 - β2) * gramSum β2 a i j hist := by
  rw [statRun_closed]
  unfold statW1 statW2 statInit dsW2
  by_cases h : β2 = 1
  · subst h; simp
  · simp [h]

/-- Exponent of the inverse root: the override when given, else twice the number of preconditioned axes —
`2·rank` for ALL (and whenever rank ≤ 1), `2·(rank−1)` for INPUT, `2` for OUTPUT. -/
theorem exponent_spec (G : Geom) (override : Nat) :
    G.exponent override = (if override = 0 then 2 * G.k else override) ∧
    G.exponent 0 = 2 * (match G.ptype with
      | .all => G.rank
      | .input => if G.rank ≤ 1 then G.rank else G.rank - 1
      | .output => if G.rank ≤ 1 then G.rank else 1) := by
  constructor
  · unfold Geom.exponent Geom.k exponentForPreconditioner; rfl
  · unfold Geom.exponent
    simp only [if_true]
    exact C06.exponent_spec G.ptype G.rank

/-! ### sharded mode, assembled statement -/
section Update
variable {α : Type} [Field α] [LinearOrder α] [IsStrictOrderedRing α] [Inhabited α]

/-- In sharded mode the update of a step is computed with the preconditioners stored BEFORE the step — whatever
this step's root computation returns (`after`) is irrelevant — and in replicated mode with the ones stored after
this step's refresh and gate. -/
theorem sharded_uses_previous_preconditioner (sqrt : α → α) (nc : Nat → α) (G : Geom) (h : Hyper α) (step : Nat)
    (skip : Bool) (g param : List α) (st : PState α) (before after after' : List (Mx α)) :
    specUpdate sqrt nc true G h step skip g param st before after =
        specUpdate sqrt nc true G h step skip g param st before after' ∧
      specUpdate sqrt nc true G h step skip g param st before after =
        specUpdate sqrt nc false G h step skip g param st after' before ∧
      specUpdate sqrt nc false G h step skip g param st before after =
        specUpdate sqrt nc false G h step skip g param st after after := by
  refine ⟨rfl, rfl, rfl⟩

/-- `Preconditioner.preconditioned_grad` (reshape, partition, `_preconds_for_grad` slots, rotate-and-tensordot per
block, `merge_partitions`, reshape) equals the documented blocked mode products, for every rank, block layout,
merging and preconditioner type; and the `assert len(partitions) == 1` of `merge_partitions` never fails. -/
theorem preconditioned_grad_low_eq_spec (G : Geom) (P : List (Mx α)) (g : List α) :
    lowPrecondGrad G P g = specPrecondGrad G P g ∧ (specPrecondGrad G P g).isSome = true :=
  lowPrecondGrad_eq_specPrecondGrad G P g

/-- **`Low` refines `Spec`** for one parameter and one `update` call, between the state boundaries: the statistics
lists are equal, and the whole update half (preconditioned gradient with the preconditioners of the mode —
previous refresh when sharded —, graft, rescale, weight decay, momenta, selection, Nesterov, learning rate: update
AND new first-order state) of the code-shaped model equals the documented math, whenever the vectors of the
parameter have `prod shape` entries. -/
theorem low_refines_spec (sqrt : α → α) (nc : Nat → α) (sharded : Bool) (G : Geom) (h : Hyper α) (w1 w2 : α)
    (si step : Nat) (skip : Bool) (stats before after : List (Mx α)) (g param : List α) (st : PState α)
    (hgr : (dsGraftStep sqrt nc h.g g st.diag).1.length = prod G.shape) (hg : g.length = prod G.shape)
    (hp : param.length = prod G.shape) (hm : st.mom.length = prod G.shape)
    (hdm : st.dmom.length = prod G.shape) :
    lowStats G w1 w2 si step stats g = specStats G w1 w2 si step stats g ∧
    lowUpdate sqrt nc sharded G h step skip g param st before after =
      specUpdate sqrt nc sharded G h step skip g param st before after :=
  ⟨lowStats_eq_specStats G w1 w2 si step stats g,
   lowUpdate_eq_specUpdate sqrt nc sharded G h step skip g param st before after hgr hg hp hm hdm⟩

end Update

/-! ### the compressed branch (`compression_rank ≠ 0`) -/

/-- One iteration of `_precondition_block` in its compressed branch (low-rank basis, complement, scaled component,
`where(skip, …)`) equals the dense branch `tensordot(g, M, [[0],[0]])` with `M` the matrix the packed preconditioner
denotes, `c (I − V Vᵀ) + V diag(e) Vᵀ` — the identity when the preconditioner is flagged — for ANY packed content
(no orthogonality needed) and every tensor rank. -/
theorem compressed_branch_eq_denoted_dense {α : Type} [CommRing α] [BEq α] (g : Tensor α) (d r : Nat) (P : Mx α) :
    packedStep g d r P = tensordot0 g (denoteStored (.packed d r P)) :=
  packedStep_eq_tensordot0 g d r P

/-- The denoted matrix is C10's `denote` of the fields `_low_rank_unpack` reads, so C10's theorems
(`denote_is_documented_matrix`, `low_rank_root_denotes`) are about the very matrix the Spec multiplies with. -/
theorem denoted_matrix_is_C10_denote {α : Type} [CommRing α] (d r : Nat) (P : Mx α) (i b : Fin d) :
    denoteMx r P i.val b.val =
      LowRank.denote (fun (i : Fin d) (q : Fin r) => P i.val q.val) (fun q => pkE r P q.val) (pkC r P) i b :=
  denoteMx_eq_C10_denote d r P i b

section UpdateC
variable {α : Type} [Field α] [LinearOrder α] [IsStrictOrderedRing α] [Inhabited α]

/-- **`Low` refines `Spec`, compressed preconditioners included**: the update half of the code-shaped model on
STORED preconditioners (each square, or packed `d × (r+2)`; any mixture over the slots) equals the documented math
applied to the matrices they denote. -/
theorem low_refines_spec_compressed (sqrt : α → α) (nc : Nat → α) (sharded : Bool) (G : Geom) (h : Hyper α)
    (step : Nat) (skip : Bool) (g param : List α) (st : PState α) (before after : List (Stored α))
    (hgr : (dsGraftStep sqrt nc h.g g st.diag).1.length = prod G.shape) (hg : g.length = prod G.shape)
    (hp : param.length = prod G.shape) (hm : st.mom.length = prod G.shape)
    (hdm : st.dmom.length = prod G.shape) :
    lowUpdateC sqrt nc sharded G h step skip g param st before after =
      specUpdate sqrt nc sharded G h step skip g param st (before.map denoteStored) (after.map denoteStored) :=
  lowUpdateC_eq_specUpdate sqrt nc sharded G h step skip g param st before after hgr hg hp hm hdm

end UpdateC

/-! ### non-vacuity -/

example : (dsGraftStep (fun x : Rat => x) (fun n => (n : Rat)) ⟨.sgd, 1, 0, 0, 1, true, none, 0⟩ [1, 2, 3, 4, 5, 6] []).1.length = prod [2, 3] := by
  decide
example : lowSlots .input 3 2 = [some 4, some 5, none] ∧ specSlots .output 3 2 = [none, none, some 2] := by decide
example : (({ shape := [2, 3, 4], block := 2, mergeBlock := 6, bestEffort := true, ptype := .all } : Geom).tshape = [6, 4]) ∧
    (({ shape := [2, 3, 4], block := 2, mergeBlock := 6, bestEffort := true, ptype := .input } : Geom).exponent 0 = 2) := by
  decide
example : ((fun _ => (1 : Rat)) 0 = 0 ∨ (fun _ => (1 : Rat)) 0 = 1) := Or.inr rfl
example : refreshCount [(true, (⟨[1], fun _ => (1 : Rat)⟩ : Tensor Rat)), (false, ⟨[1], fun _ => 2⟩), (true, ⟨[1], fun _ => 3⟩)] = 2 := by
  decide
example : ([some (fun _ _ => (1 : Rat)), none] : List (Option (Mx Rat))).length = (⟨[2, 3], fun _ => (0 : Rat)⟩ : Tensor Rat).shape.length := rfl

end PrecondVerif.C02
