/-
C10 — the low-rank packed preconditioner agrees with the dense matrix it denotes.

Model: `Model/LowRank.lean` (`fdPack`/`fdUnpack`/`lowRankPack`/`lowRankUnpack` with the code's literal slot
indices, `applyPacked` = compressed branch of `_precondition_block`, `blockLoop` = its loop over the axes of a
gradient block of any tensor rank, `lowRankRoot` = `_low_rank_root` after `eigh`), executed by `drv_c10` at `Rat`
and `Float`; `Shapes.precondDim` / `Shapes.shouldCompress` = `_precond_dim` / `_should_compress` (argument `|rank|`).
Statements hold for every size `d`, rank `r`, number of trailing elements `n`, tensor rank, axis pattern and every
scalar type that is a commutative ring (field for the root), in particular ℚ (the driver's `Rat` run) and ℝ.
`eigh` and the real power `x ↦ x^(-1/p)` are parameters; only `U Uᵀ = 1` is used of `eigh`.
-/
import PrecondVerif.Lemmas.LowRank

namespace PrecondVerif.C10
open PrecondVerif.LowRank PrecondVerif.Shapes Matrix

/-! ### packing -/

/-- **unpack ∘ pack = id** for all `d, r` with `r + 2 < d` (this inequality is exactly slot disjointness): all six
fields of `_fd_low_rank_pack` are read back by `_fd_low_rank_unpack`. -/
theorem unpack_pack {α : Type} [Zero α] [One α] [BEq α] [LawfulBEq α] (h10 : (1 : α) ≠ 0)
    {d r : Nat} (h : r + 2 < d) (F : Fields α d r) : fdUnpack h (fdPack F) = F :=
  fdUnpack_fdPack h10 h F

/-- the same for `_low_rank_pack` / `_low_rank_unpack`: the flag comes back `False`. -/
theorem lowrank_unpack_pack {α : Type} [Zero α] [One α] [BEq α] [LawfulBEq α] (h10 : (1 : α) ≠ 0)
    {d r : Nat} (h : r + 2 < d) (V : Mat α d r) (e : Vec α r) (c : α) :
    lowRankUnpack h (lowRankPack V e c) = { eigvecs := V, invEigvals := e, const := c, hasZeros := false } := by
  simp only [lowRankUnpack, lowRankPack, fdUnpack_fdPack h10 h]

/-- **pack ∘ unpack = id** on matrices whose unused slots are zero (rows `r .. d-2` of column `-2`, rows
`2 .. d-r-1` of column `-1`) and whose `has_zeros` slot holds 0 or 1. -/
theorem pack_unpack {α : Type} [Zero α] [One α] [BEq α] [LawfulBEq α] {d r : Nat} (h : r + 2 < d)
    (P : Mat α d (r + 2))
    (hInv : ∀ i : Fin d, r ≤ i.val → i.val < d - 1 → P i ⟨(r + 2) - 2, by omega⟩ = 0)
    (hLast : ∀ i : Fin d, 2 ≤ i.val → i.val < d - r → P i ⟨(r + 2) - 1, by omega⟩ = 0)
    (hFlag : P ⟨d - 1, by omega⟩ ⟨(r + 2) - 2, by omega⟩ = 0 ∨ P ⟨d - 1, by omega⟩ ⟨(r + 2) - 2, by omega⟩ = 1) :
    fdPack (fdUnpack h P) = P :=
  fdPack_fdUnpack h P ⟨hInv, hLast, hFlag⟩

/-- **negative**: without `r + 2 < d` the slots overlap.  For `d = 2, r = 1` the `tail` slot `[1, -1]` is
overwritten by the `eigvals` slot `[-r:, -1]` (row `d - r = 1`): two field sets that differ in `tail` pack to the
same matrix, so no unpack can invert the packing (the code's asserts reject such sizes). -/
theorem pack_not_injective_when_too_small :
    fdPack (α := Int) (d := 2) (r := 1) ⟨fun _ _ => 0, fun _ => 5, fun _ => 0, 0, 7, false⟩ =
    fdPack (α := Int) (d := 2) (r := 1) ⟨fun _ _ => 0, fun _ => 5, fun _ => 0, 0, 8, false⟩ := by
  funext i j
  revert i j
  decide

/-! ### `_precond_dim` and `_should_compress` -/

/-- `_precond_dim` and `_should_compress` agree: when compressing, the storage dimension is `r + 2 < d`;
otherwise it is `d` (dense). -/
theorem precondDim_consistent_with_shouldCompress (r d : Nat) :
    (shouldCompress r d = true → precondDim r d = r + 2 ∧ r + 2 < d) ∧
    (shouldCompress r d = false → precondDim r d = d) := by
  unfold shouldCompress precondDim
  constructor
  · intro h
    simp only [Bool.and_eq_true, bne_iff_ne, ne_eq, decide_eq_true_eq] at h
    rw [if_neg h.1, if_neg (by omega)]
    exact ⟨rfl, h.2⟩
  · intro h
    by_cases h0 : r = 0
    · rw [if_pos h0]
    · rw [if_neg h0]
      have : ¬ r + 2 < d := by
        intro hlt
        simp [h0, hlt] at h
      rw [if_pos (by omega)]

/-- the test `_precondition_block` uses (`application_dim != dim`) selects the compressed branch exactly when
`_should_compress` holds. -/
theorem compressed_branch_iff_shouldCompress (r d : Nat) :
    precondDim r d ≠ d ↔ shouldCompress r d = true := by
  have h := precondDim_consistent_with_shouldCompress r d
  constructor
  · intro hne
    by_contra hs
    exact hne (h.2 (by simpa using hs))
  · intro hs
    have := h.1 hs
    omega

/-! ### applying a packed preconditioner -/

/-- the dense matrix a packed preconditioner denotes is `c (I − V Vᵀ) + V diag(e) Vᵀ` (Mathlib's matrix operations) -/
theorem denote_is_documented_matrix {α : Type} [CommRing α] {d r : Nat} (V : Mat α d r) (e : Vec α r) (c : α) :
    toM (denote V e c) = c • (1 - toM V * (toM V)ᵀ) + toM V * Matrix.diagonal e * (toM V)ᵀ :=
  denote_eq V e c

/-- **one axis**: the compressed branch on the `(d, n)` view of a block (any number `n` of trailing elements, i.e.
any tensor rank) equals the dense branch `tensordot(g, M, [[0],[0]])` with `M` the denoted matrix — for ANY `V, e, c`
(no orthogonality needed) — and is the bare roll of the axes when the preconditioner is flagged. -/
theorem apply_packed_eq_dense {α : Type} [CommRing α] {d r n : Nat} (V : Mat α d r) (e : Vec α r) (c : α)
    (G : Mat α d n) :
    applyPacked V e c false G = applyDense (denote V e c) G ∧
    applyPacked V e c true G = G.transpose ∧
    toM (applyPacked V e c false G) = (toM G)ᵀ * (c • (1 - toM V * (toM V)ᵀ) + toM V * Matrix.diagonal e * (toM V)ᵀ) := by
  refine ⟨applyPacked_eq_applyDense V e c G, applyPacked_skip V e c G, ?_⟩
  rw [applyPacked_eq_applyDense]
  show toM (applyDense (denote V e c) G) = _
  rw [applyDense_eq, denote_eq]

/-- **every tensor rank, every axis pattern**: `_precondition_block` with packed preconditioners on any subset of
the axes (others dense or skipped) computes the same block as the same loop in which every packed preconditioner is
replaced by the dense matrix it denotes (identity when flagged). -/
theorem precondition_block_eq_denoted {α : Type} [CommRing α] [BEq α] (ops : List (AxisOp α)) (shape : List Nat)
    (a : Array α) : preconditionBlock ops shape a = preconditionBlockDenoted ops shape a :=
  preconditionBlock_eq_denoted ops shape a

/-- matrix gradient, packed preconditioner on axis 0: the block becomes `Mᵀ G` (`G` when flagged). -/
theorem precondition_matrix_axis0 {α : Type} [CommRing α] [BEq α] {m n r : Nat} (h : r + 2 < m) (P : Nat → Nat → α)
    (G : Mat α m n) :
    preconditionBlock [.packed r P, .roll] [m, n] (flat G) =
      flat (m := m) (n := n) (if (lowRankUnpack h (ofIdx m (r + 2) P)).hasZeros then G
        else ((toM (denoteP h (ofIdx m (r + 2) P)))ᵀ * toM G)) :=
  block_matrix_axis0 h P G

/-- matrix gradient, packed preconditioner on axis 1: the block becomes `G M` (`G` when flagged). -/
theorem precondition_matrix_axis1 {α : Type} [CommRing α] [BEq α] {m n r : Nat} (h : r + 2 < n) (P : Nat → Nat → α)
    (G : Mat α m n) :
    preconditionBlock [.roll, .packed r P] [m, n] (flat G) =
      flat (m := m) (n := n) (if (lowRankUnpack h (ofIdx n (r + 2) P)).hasZeros then G
        else (toM G * toM (denoteP h (ofIdx n (r + 2) P)))) :=
  block_matrix_axis1 h P G

/-! ### `_low_rank_root` -/

/-- **the packed root denotes `U' diag(w) U'ᵀ`**: for any output `(e, U)` of `eigh` with `U Uᵀ = 1`, any real power
`pw`, both signs of the rank, any `padding_start ≠ 0`: unpacking the matrix `_low_rank_root` returns and forming the dense
matrix it denotes gives `U' diag(w) U'ᵀ`, where `U'` is `U` with its columns flipped (rank > 0) or rolled by the number of
padded dimensions (rank < 0), `w k = inv_e' k` (the direction's own root value `max(e, ridge)^(-1/p)`) on the first `r`
positions and `w k = const` on all others. -/
theorem low_rank_root_denotes {α : Type} [Field α] [BEq α] [LawfulBEq α] [Max α] [LE α] [DecidableLE α] {d r : Nat} (h : r + 2 < d)
    (pw : α → α) (neg : Bool) (ps : Option Nat) (hps : ps ≠ some 0) (ridge : α) (e : Vec α d) (U : Mat α d d)
    (hU : toM U * (toM U)ᵀ = 1) :
    let σ := perm d neg (d - ps.getD d)
    let invE := invEigs pw ridge (maskedEigs ps e)
    let c := (lowRankRootFields (r := r) (by omega) pw neg ps ridge e U).const
    toM (denoteP h (lowRankRoot h pw neg ps ridge e U)) =
      toM (fun a k => U a (σ k)) * Matrix.diagonal (fun k => if k.val < r then invE (σ k) else c)
        * (toM fun a k => U a (σ k))ᵀ := by
  intro σ invE c
  have h1 := denote_root_fields (r := r) (by omega) pw neg ps ridge e U hU
  simp only [denoteP, lowRankRoot_unpack h pw neg ps hps ridge e U]
  exact h1

/-- which directions are retained: position `k` of the flipped order is ascending index `d - 1 - k` (the `k`-th
LARGEST eigenvalue of `eigh`'s ascending output); position `k < p` of the rolled order is ascending index
`k + (d - p)` — the `k`-th SMALLEST of the `p` unpadded ones, which `eigh` places after the `d - p` zeros. -/
theorem retained_directions (d p : Nat) (hp : p ≤ d) (k : Fin d) :
    (perm d false (d - p) k).val = d - 1 - k.val ∧
    (perm d true (d - p) k).val = if k.val < p then k.val + (d - p) else k.val - p :=
  ⟨perm_pos d (d - p) k, perm_neg d p hp k⟩

/-- **`const` is the mean of the other root values over the unpadded dimensions**: with `padding_start = p`,
`r < p ≤ d`, the constant is the sum over the positions `r ≤ k < p` divided by `p - r` (the padded positions `k ≥ p`
contribute exactly zero because their eigenvalues are masked). -/
theorem low_rank_root_const_is_mean {α : Type} [Field α] [BEq α] [LawfulBEq α] [Max α] [LE α] [DecidableLE α] {d r : Nat} (hr : r ≤ d)
    (pw : α → α) (neg : Bool) (p : Nat) (hrp : r < p) (hp : p ≤ d) (ridge : α) (e : Vec α d) (U : Mat α d d) :
    (lowRankRootFields hr pw neg (some p) ridge e U).const =
      (∑ k : Fin d, if r ≤ k.val ∧ k.val < p
          then invEigs pw ridge (maskedEigs (some p) e) (perm d neg (d - p) k) else 0) / ((p - r : Nat) : α) :=
  const_is_mean_unpadded hr pw neg p hrp hp ridge e U

/-- without padding (`padding_start is None`): the mean over the `d - r` not retained directions. -/
theorem low_rank_root_const_is_mean_nopad {α : Type} [Field α] [BEq α] [Max α] [LE α] [DecidableLE α] {d r : Nat} (hr : r < d)
    (pw : α → α) (neg : Bool) (ridge : α) (e : Vec α d) (U : Mat α d d) :
    (lowRankRootFields (Nat.le_of_lt hr) pw neg none ridge e U).const =
      (∑ k : Fin d, if r ≤ k.val then invEigs pw ridge e (perm d neg 0 k) else 0) / ((d - r : Nat) : α) := by
  have := const_root_fields (Nat.le_of_lt hr) pw neg none ridge e U
  simpa [hr, maskedEigs] using this

/-- **retained root values are exact**: given the specification of the real power (`pw x ^ p * x = 1` for `x > 0`),
an eigenvalue `≥ ridge > 0` (every eigenvalue of `A + ridge·I` for PSD `A`) gets exactly its inverse `p`-th root. -/
theorem retained_root_exact {α : Type} [Field α] [LinearOrder α] [IsStrictOrderedRing α] [BEq α] [LawfulBEq α] {d : Nat}
    (pw : α → α) (p : Nat) (hpw : ∀ x : α, 0 < x → pw x ^ p * x = 1) (ridge : α) (hridge : 0 < ridge)
    (e : Vec α d) (i : Fin d) (hi : ridge ≤ e i) : invEigs pw ridge e i ^ p * e i = 1 :=
  invEigs_exact pw p hpw ridge hridge e i hi

/-- the same for a zero (or any) ridge and a strictly positive eigenvalue: `matrix_epsilon = 0` keeps exact roots on
the non-singular directions. -/
theorem retained_root_exact_pos {α : Type} [Field α] [LinearOrder α] [IsStrictOrderedRing α] [BEq α] [LawfulBEq α] {d : Nat}
    (pw : α → α) (p : Nat) (hpw : ∀ x : α, 0 < x → pw x ^ p * x = 1) (ridge : α)
    (e : Vec α d) (i : Fin d) (hpos : 0 < e i) (hi : ridge ≤ e i) : invEigs pw ridge e i ^ p * e i = 1 :=
  invEigs_exact_pos pw p hpw ridge e i hpos hi

/-- **zero ridge, singular statistics (D26)**: with `ridge = 0` an eigenvalue `e i ≤ 0` — an exact zero or a
rounding-level negative value of a singular matrix — gets root value `0`: that direction contributes nothing to
`U' diag(w) U'ᵀ` of `low_rank_root_denotes` (its weight is `0` when retained, and it adds `0` to the mean otherwise).
The unrepaired code evaluated `0 ^ (-1/p) = inf` here. -/
theorem zero_ridge_nonpositive_contributes_zero {α : Type} [Field α] [LinearOrder α] [BEq α] {d : Nat} (pw : α → α)
    (e : Vec α d) (i : Fin d) (hi : e i ≤ 0) : invEigs pw 0 e i = 0 :=
  invEigs_zero_ridge pw 0 (le_refl 0) e i hi

/-- **the root stays finite**: for every ridge and every eigenvalue the real power is evaluated only at a strictly
positive argument — each root value is `0` or `pw x` with `x = max(e i, ridge) > 0`, never `pw 0` or `pw` of a negative
number (the only arguments where `x ^ (-1/p)` is infinite or undefined). -/
theorem root_power_only_at_positive {α : Type} [Field α] [LinearOrder α] [BEq α] {d : Nat} (pw : α → α)
    (ridge : α) (e : Vec α d) (i : Fin d) :
    invEigs pw ridge e i = 0 ∨ (0 < max (e i) ridge ∧ invEigs pw ridge e i = pw (max (e i) ridge)) :=
  invEigs_pw_positive pw ridge e i

/-- `padding_start == 0`: the root is the zero matrix. -/
theorem low_rank_root_zero_when_all_padded {α : Type} [Field α] [BEq α] [Max α] [LE α] [DecidableLE α] {d r : Nat} (h : r + 2 < d)
    (pw : α → α) (neg : Bool) (ridge : α) (e : Vec α d) (U : Mat α d d) :
    lowRankRoot h pw neg (some 0) ridge e U = fun _ _ => 0 := rfl

/-! ### non-vacuity -/

/-- the hypotheses of `low_rank_root_denotes` / `retained_root_exact` are met: `U = 1` is orthogonal, and at `p = 1`
the real power is `x ↦ 1 / x` -/
example : toM (fun i j : Fin 4 => if i = j then (1 : Rat) else 0) * (toM (fun i j : Fin 4 => if i = j then (1 : Rat) else 0))ᵀ = 1 := by
  have : toM (fun i j : Fin 4 => if i = j then (1 : Rat) else 0) = 1 := by
    funext i j; simp [Matrix.one_apply]
  rw [this, Matrix.transpose_one, Matrix.mul_one]

example : ∀ x : Rat, 0 < x → (fun x => 1 / x) x ^ 1 * x = 1 := by
  intro x hx
  have : x ≠ 0 := ne_of_gt hx
  simp [this]


/-- the hypotheses of `pack_unpack` are met by every packed matrix -/
example : ∃ P : Mat Rat 5 4, (∀ i : Fin 5, 2 ≤ i.val → i.val < 4 → P i ⟨2, by omega⟩ = 0) ∧ P ⟨0, by omega⟩ ⟨3, by omega⟩ = 3 :=
  ⟨fdPack ⟨fun _ _ => 1, fun _ => 7, fun _ => 5, 3, 11, true⟩, by decide, by decide⟩

/-- `r + 2 < d` is satisfiable with both outcomes of `shouldCompress` -/
example : shouldCompress 2 5 = true ∧ shouldCompress 2 4 = false ∧ precondDim 2 5 = 4 ∧ precondDim 2 4 = 4 := by decide

end PrecondVerif.C10
