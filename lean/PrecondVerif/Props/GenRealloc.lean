/-
C17 — the per-dimension allocation of `create_redist_dict` as regenerated from the source equals the hand-written
model, and the budget theorems hold for it directly, for any arithmetic.  Helper lemmas: `Lemmas/GenBridgeRealloc.lean`.
Built by the C17 check through `lean_stage(extra_props=("GenRealloc",))`.
-/
import PrecondVerif.Lemmas.GenBridgeRealloc

namespace PrecondVerif.GenProps.C17
open PrecondVerif PrecondVerif.Gen PrecondVerif.GenRealloc

/-- **Bridge.** For every opaque arithmetic `ops`, dimension `d`, base rank `k` and group (list of `(key, score)` in
group order, keys distinct): the translated loop body of `for dim in group_dict:` returns exactly what the hand
model `Realloc.groupRun` returns — the same ranks in sorted order, or `none` exactly when the model reports one of
the three failed `assert`s. -/
theorem redist_group_bridge {R : Type} (ops : Py.RealOps R) (d : Nat) (k : Int) (group : List (Int × R))
    (hnd : (group.map Prod.fst).Nodup) :
    redistGroup ops (d : Int) k group = outcome (modelRun ops k d group) :=
  redistGroup_bridge ops d k group hnd

/-- **Budget for any arithmetic, about the code as translated today** (`C17.budget_any_arithmetic` transported):
whatever `+ * / floor <` do — rounding, overflow, NaN — if the translated body returns ranks, they are the group's
keys, each rank is at most the dimension, and their sum is at most `size × sketchy_rank`. -/
theorem gen_budget_any_arithmetic {R : Type} (ops : Py.RealOps R) (d : Nat) (k : Int) (group : List (Int × R))
    (hnd : (group.map Prod.fst).Nodup) (res : List (Int × Int)) (h : redistGroup ops (d : Int) k group = some res) :
    (res.map Prod.fst).Perm (group.map Prod.fst) ∧ (∀ p ∈ res, p.2 ≤ (d : Int)) ∧
      (res.map Prod.snd).sum ≤ (group.length : Int) * k := by
  rw [redistGroup_bridge ops d k group hnd] at h
  unfold modelRun at h
  cases hm : @Realloc.groupRun Int R (instAdd ops) (instZero ops) (instLT ops) (instDec ops) (allocOf ops) k d group with
  | error e => rw [hm] at h; simp [outcome] at h
  | ok r =>
    rw [hm] at h
    simp only [outcome, Option.some.injEq] at h
    subst h
    exact @Realloc.groupRun_budget Int R (instAdd ops) (instZero ops) (instLT ops) (instDec ops) (allocOf ops) k d group r hm

/-- The `assert realloc[key] <= dim` of the translated body can never be the reason for `none`: the model it
equals never reports `rankExceedsDim`. -/
theorem gen_rank_assert_never_fails {R : Type} (ops : Py.RealOps R) (d : Nat) (k : Int) (group : List (Int × R))
    (r d' : Int) : modelRun ops k d group ≠ .error (.rankExceedsDim r d') :=
  @Realloc.groupRun_ne_rankExceedsDim Int R (instAdd ops) (instZero ops) (instLT ops) (instDec ops) (allocOf ops) k d group r d'

/-! non-vacuity: exact integer arithmetic as the opaque scalars (`/` as floor division) -/
def intOps : Py.RealOps Int :=
  { add := (· + ·), mul := (· * ·), div := Int.fdiv, ofInt := id, floor := id, truthy := fun x => decide (x ≠ 0),
    lt := fun a b => decide (a < b) }

example : redistGroup intOps 8 4 [(0, 1), (1, 6), (2, 1)] = some [(1, 7), (0, 2), (2, 3)] := by decide
example : redistGroup intOps 8 0 [(0, 1), (1, 6)] = none := by decide

end PrecondVerif.GenProps.C17
