/-
C06 — merging, blocking, blockifying and padding are lossless and self-consistent.
Only property theorems and non-vacuity examples live here; helper lemmas are in
`Lemmas/Shapes.lean`. All statements quantify over every rank, every dimension,
every block size and merge limit.
-/
import PrecondVerif.Lemmas.Shapes
import PrecondVerif.Lemmas.Partition
import PrecondVerif.Lemmas.Blockify
import PrecondVerif.Lemmas.PartitionIdx
import PrecondVerif.Lemmas.BlockifyIdx
import PrecondVerif.Lemmas.ClosedForms

namespace PrecondVerif.C06
open PrecondVerif.Shapes

/-- Merging small dimensions preserves the element count. -/
theorem merge_prod (shape : List Nat) (m : Nat) (h : ∀ d ∈ shape, 1 ≤ d) :
    prod (mergeSmallDims shape m) = prod shape := by
  unfold mergeSmallDims
  split
  · rename_i hc; simp [prod_all_one hc.2]
  · rw [mergeGo_prod m shape 1 (Nat.le_refl 1) h]; simp

/-- Every merged dimension respects the limit, unless it is a single original dimension
that was already too large. -/
theorem merge_respects_limit (shape : List Nat) (m : Nat) :
    ∀ x ∈ mergeSmallDims shape m, x ≤ m ∨ x ∈ shape := by
  intro x hx
  unfold mergeSmallDims at hx
  split at hx
  · rename_i hc
    simp at hx; subst hx
    right
    obtain ⟨hne, hall⟩ := hc
    cases shape with
    | nil => exact absurd rfl hne
    | cons a l =>
      simp only [List.all_cons, Bool.and_eq_true, beq_iff_eq] at hall
      simp [hall.1]
  · exact mergeGo_mem m shape shape 1 (Or.inr (Or.inr rfl)) (fun d hd => hd) x hx

/-- No unit dimension survives merging, except the all-ones tensor which becomes `[1]`. -/
theorem merge_no_units (shape : List Nat) (m : Nat) :
    mergeSmallDims shape m = [1] ∨ ∀ x ∈ mergeSmallDims shape m, 1 < x := by
  unfold mergeSmallDims
  split
  · left; rfl
  · right; exact mergeGo_gt_one m shape 1

/-- Block sizes along one axis add up to the dimension. -/
theorem split_sum (d b : Nat) : (splitSizes d b).sum = d := splitSizes_sum d b

/-- No block exceeds the block size (when blocking applies at all). -/
theorem split_le_block (d b : Nat) (hb : 0 < b) (hd : b < d) :
    ∀ s ∈ splitSizes d b, s ≤ b := splitSizes_le d b hb hd

/-- An unsplit axis (block size 0 or ≥ d) is one block of the full dimension. -/
theorem split_unsplit (d b : Nat) (h : ¬ (0 < b ∧ b < d)) : splitSizes d b = [d] := by
  unfold splitSizes; rw [if_neg h]

/-- No empty block. -/
theorem split_pos (d b : Nat) (hd : 1 ≤ d) : ∀ s ∈ splitSizes d b, 1 ≤ s := splitSizes_pos d b hd

/-- Number of blocks along an axis: `⌈d / b⌉` in the code's `(d-1)//b + 1` form. -/
theorem split_count (d b : Nat) :
    (splitSizes d b).length = if 0 < b ∧ b < d then (d - 1) / b + 1 else 1 := splitSizes_length d b

/-- `BlockPartitioner`: merging the partition of ANY tensor (any rank, any dims, any block size)
succeeds and returns a tensor with the same shape and the same entry at every in-bounds index. -/
theorem merge_partition_id {α} [Inhabited α] (t : Tensor α) (b : Nat) :
    ∃ u, mergePartitions t.shape b (partition t b) = some u ∧ u.Eqv t := by
  have h := mergeAxesRev_partAxes (fun i => splitSizes (t.shape.getD i 0) b) (splitAxes t.shape b) [t]
    (splitAxes_nodup _ _) (fun a _ => splitSizes_ne_nil _ _)
    (by
      intro u hu a ha
      simp only [List.mem_singleton] at hu
      subst hu
      exact ⟨splitAxes_lt _ _ a ha, splitSizes_sum _ _⟩)
  show ∃ u, (match mergeAxesRev (fun i => splitSizes (t.shape.getD i 0) b) (splitAxes t.shape b)
      (partAxes (fun i => splitSizes (t.shape.getD i 0) b) (splitAxes t.shape b) [t]) with
      | [u] => some u
      | _ => none) = some u ∧ u.Eqv t
  generalize mergeAxesRev (fun i => splitSizes (t.shape.getD i 0) b) (splitAxes t.shape b)
      (partAxes (fun i => splitSizes (t.shape.getD i 0) b) (splitAxes t.shape b) [t]) = res at h
  cases h with
  | cons hab htl =>
    cases htl
    exact ⟨_, rfl, hab⟩

/-- The number of blocks is the product of the per-axis block counts. -/
theorem partition_count {α} (t : Tensor α) (b : Nat) :
    (partition t b).length =
      prod ((splitAxes t.shape b).map fun i => (splitSizes (t.shape.getD i 0) b).length) := by
  rw [partition_eq_partAxes, partAxes_length]; simp

/-- Row-major index maps are mutually inverse (every reshape is the identity on flat data). -/
theorem ravel_unravel_id (shape : List Nat) (k : Nat) (h : k < prod shape) :
    ravel shape (unravel shape k) = k := ravel_unravel shape k h

theorem unravel_ravel_id (shape idx : List Nat) (h : inBounds shape idx) :
    unravel shape (ravel shape idx) = idx := unravel_ravel shape idx h

/-- Reshaping there and back is the identity on every in-bounds index whenever the element
counts agree. -/
theorem reshape_roundtrip {α} (t : Tensor α) (s : List Nat) (idx : List Nat)
    (hp : prod s = prod t.shape) (hi : inBounds t.shape idx) :
    ((t.reshape s).reshape t.shape).get idx = t.get idx := by
  simp only [Tensor.reshape]
  have hlt : ravel t.shape idx < prod s := hp ▸ ravel_lt t.shape idx hi
  rw [ravel_unravel s _ hlt, unravel_ravel t.shape idx hi]

/-- Tearfree `_deblockify ∘ _blockify` is the identity on every in-bounds entry, for every
parameter Tearfree Shampoo's `_init` accepts: any rank, at most two large axes (`dim ≥ block_size`),
each large axis a multiple of the block size. Covers the pure-reshape cases and the
reshape ∘ transpose ∘ reshape case (inverse permutations proved). -/
theorem deblockify_blockify_id {α} (t : Tensor α) (b : Nat)
    (hle : (blocksMetadata b t.shape).largeAxes.length ≤ 2)
    (hdiv : ∀ a ∈ (blocksMetadata b t.shape).largeAxes, b ∣ t.shape.getD a 0) :
    (deblockify (blockify t (blocksMetadata b t.shape)) (blocksMetadata b t.shape)).Eqv t :=
  deblockify_blockify_eqv t b hle hdiv

/-- Tearfree padding: never shrinks, pads to a multiple of the block, by less than a block,
and leaves small dimensions alone. -/
theorem pad_ge (s b : Nat) : s ≤ padDim s b := by
  unfold padDim
  split
  · exact Nat.le_refl s
  · split
    · rename_i hb hs
      have hb' : 0 < b := Nat.pos_of_ne_zero hb
      have := Nat.lt_div_mul_add hb' (a := s + b - 1)
      have h2 : (s + b - 1) / b * b ≤ s + b - 1 := Nat.div_mul_le_self _ _
      omega
    · exact Nat.le_refl s

theorem pad_multiple (s b : Nat) (hb : 0 < b) (hs : b ≤ s) : b ∣ padDim s b := by
  unfold padDim
  rw [if_neg (by omega), if_pos hs]
  exact Nat.dvd_mul_left b _

theorem pad_lt_block (s b : Nat) (hb : 0 < b) : padDim s b < s + b := by
  unfold padDim
  rw [if_neg (by omega)]
  split
  · have h2 : (s + b - 1) / b * b ≤ s + b - 1 := Nat.div_mul_le_self _ _
    omega
  · omega

theorem pad_small_unchanged (s b : Nat) (h : s < b) : padDim s b = s := by
  unfold padDim
  rw [if_neg (by omega), if_neg (by omega)]

/-- Tearfree merge-and-pad followed by unpad-and-unmerge returns every real entry. -/
theorem unmerge_merge_id {α} (zero : α) (mergeDims blockSize : Nat) (t : Tensor α)
    (hd : ∀ d ∈ t.shape, 1 ≤ d) (idx : List Nat) (hi : inBounds t.shape idx) :
    let s := deriveShapes mergeDims blockSize t.shape
    (tfUnmerge s blockSize (tfMerge zero s blockSize t)).get idx = t.get idx := by
  intro s
  have hprod : prod s.merged = prod t.shape := by
    show prod (deriveShapes mergeDims blockSize t.shape).merged = prod t.shape
    simp only [deriveShapes]
    split
    · rename_i h1
      have := merge_prod t.shape mergeDims hd
      rw [h1] at this
      simpa using this
    · exact merge_prod t.shape mergeDims hd
  have hlt : ravel t.shape idx < prod s.merged := hprod ▸ ravel_lt t.shape idx hi
  have hin : inBounds s.merged (unravel s.merged (ravel t.shape idx)) :=
    unravel_inBounds _ _ hlt
  have horig : s.original = t.shape := by
    show (deriveShapes mergeDims blockSize t.shape).original = t.shape
    simp only [deriveShapes]; split <;> rfl
  have key : (t.reshape s.merged).get (unravel s.merged (ravel t.shape idx)) = t.get idx := by
    simp only [Tensor.reshape]
    rw [ravel_unravel _ _ hlt, unravel_ravel _ _ hi]
  unfold tfUnmerge tfMerge
  simp only [Tensor.reshape, Tensor.padTo, Tensor.cropTo, horig]
  split <;> split <;>
    simp only [Tensor.reshape, Tensor.padTo, Tensor.cropTo, lt2_of_inBounds _ _ hin, if_true] <;>
    (simp only [Tensor.reshape] at key; exact key)

/-- `_precond_dim` and `_should_compress` agree: a dimension is stored compressed exactly
when compression is applied. -/
theorem precondDim_consistent (r d : Nat) :
    (shouldCompress r d = true ↔ precondDim r d < d) ∧
    (shouldCompress r d = false → precondDim r d = d) ∧
    (shouldCompress r d = true → precondDim r d = r + 2) := by
  unfold shouldCompress precondDim
  refine ⟨?_, ?_, ?_⟩ <;> by_cases h0 : r = 0 <;> by_cases h1 : r + 2 ≥ d <;>
    simp [h0, h1] <;> omega

/-- The slot list handed to `_precondition_block` always has one entry per axis. -/
theorem preconds_for_grad_length (pt : PType) (rank i : Nat) :
    (precondsForGrad pt rank i).length = rank := by
  unfold precondsForGrad numPreconditioned shouldPreconditionDims
  cases pt <;> simp <;> split <;> simp <;> omega

/-- Slots are present exactly on the preconditioned axes. -/
theorem preconds_for_grad_slots (pt : PType) (rank i : Nat) :
    (precondsForGrad pt rank i).map Option.isSome = shouldPreconditionDims pt rank := by
  unfold precondsForGrad numPreconditioned shouldPreconditionDims
  cases pt <;> simp
  · apply List.ext_getElem <;> simp
  · split
    · apply List.ext_getElem <;> simp
    · simp
      apply List.ext_getElem <;> simp
  · split
    · apply List.ext_getElem <;> simp
    · simp

/-- Exponent is twice the number of preconditioned axes, and that number is the rank for
ALL (or rank ≤ 1) and `rank - 1` / `1` for one-sided preconditioning. -/
theorem exponent_spec (pt : PType) (rank : Nat) :
    exponentForPreconditioner pt rank =
      2 * (match pt with
           | .all => rank
           | .input => if rank ≤ 1 then rank else rank - 1
           | .output => if rank ≤ 1 then rank else 1) := by
  unfold exponentForPreconditioner numPreconditioned shouldPreconditionDims
  cases pt <;> simp
  · split <;> simp
  · split <;> simp


/-! ### second round: where every entry goes -/

/-- **Blocks are contiguous sub-tensors.** Block number `k` of `BlockPartitioner.partition` — `k` counted in
`itertools.product` order of the per-axis pieces, first axis slowest: `blockCoords k` are the row-major digits of
`k` in the grid of piece counts — is exactly `t[o_1 : o_1+s_1, …, o_r : o_r+s_r]`, where `(o_a, s_a)` is the
`k_a`-th (prefix sum, size) of the split of axis `a`: its shape is `blockDims k`, its entry at `idx` is the
tensor's entry at `blockOffsets k + idx`, and no side of a split axis exceeds the block size. -/
theorem partition_contiguous {α} (t : Tensor α) (b k : Nat) (hk : k < (partition t b).length) :
    ((partition t b)[k]).shape = blockDims t.shape b k ∧
    (∀ idx : List Nat, idx.length = t.shape.length →
      ((partition t b)[k]).get idx = t.get (addOff (blockOffsets t.shape b k) idx)) ∧
    (∀ a, a < t.shape.length → 0 < b → b < t.shape.getD a 0 → (blockDims t.shape b k).getD a 0 ≤ b) := by
  have hk' : k < prod (blockGrid t.shape b) := by rw [← partition_length]; exact hk
  obtain ⟨blk, e, hs, hg⟩ := partition_getElem? t b k hk'
  rw [List.getElem?_eq_getElem hk] at e
  simp only [Option.some.injEq] at e
  rw [e]
  refine ⟨hs, hg, ?_⟩
  intro a ha hb hd
  have hl : a < (blockCoords t.shape b k).length := by
    simp [blockCoords, unravel_length_eq, blockGrid_length, ha]
  have : (blockDims t.shape b k).getD a 0 =
      (splitSizes (t.shape.getD a 0) b).getD ((blockCoords t.shape b k).getD a 0) 0 := by
    simp [blockDims, List.getD_eq_getElem?_getD, List.getElem?_zipWith, ha, hl]
  rw [this, List.getD_eq_getElem?_getD]
  cases h : (splitSizes (t.shape.getD a 0) b)[(blockCoords t.shape b k).getD a 0]? with
  | none => simp
  | some s =>
    simp only [Option.getD_some]
    exact split_le_block _ b hb hd s (List.mem_of_getElem? h)

/-- number of blocks = product of the per-axis piece counts (all axes; an unsplit axis counts 1) -/
theorem partition_count_grid {α} (t : Tensor α) (b : Nat) :
    (partition t b).length = prod (blockGrid t.shape b) := partition_length t b

/-- **The blocks tile the tensor**: every in-bounds entry lies in exactly one block — `locateBlock` finds the
block number and the index inside the block, and any other (block, index) pair reaching the entry is that one. -/
theorem partition_blocks_tile (shape : List Nat) (b : Nat) (idx : List Nat) (hi : inBounds shape idx) :
    (locateBlock shape b idx).1 < prod (blockGrid shape b) ∧
    inBounds (blockDims shape b (locateBlock shape b idx).1) (locateBlock shape b idx).2 ∧
    addOff (blockOffsets shape b (locateBlock shape b idx).1) (locateBlock shape b idx).2 = idx ∧
    ∀ k j, k < prod (blockGrid shape b) → inBounds (blockDims shape b k) j →
      addOff (blockOffsets shape b k) j = idx →
      k = (locateBlock shape b idx).1 ∧ j = (locateBlock shape b idx).2 :=
  locateBlock_spec shape b idx hi

/-- every entry of every block is an entry of the tensor (no block reaches outside) -/
theorem partition_block_inside (shape : List Nat) (b k : Nat) (j : List Nat)
    (hk : k < prod (blockGrid shape b)) (hj : inBounds (blockDims shape b k) j) :
    inBounds shape (addOff (blockOffsets shape b k) j) := block_entry_inBounds shape b k j hk hj

/-- `merge_partitions` of ANY blocks that agree entry-wise with the blocks of `partition t` (e.g. blocks
transformed by something that is the identity) succeeds and returns `t`. -/
theorem merge_partition_congr {α} [Inhabited α] (t : Tensor α) (b : Nat) (parts : List (Tensor α))
    (h : List.Forall₂ Tensor.Eqv parts (partition t b)) :
    ∃ u, mergePartitions t.shape b parts = some u ∧ u.Eqv t := mergePartitions_of_eqv t b parts h

/-- **`partition ∘ merge_partitions = id`**: merging any list of blocks with the announced shapes succeeds, and
partitioning the result returns the blocks (shape and every in-bounds entry). -/
theorem partition_merge_id {α} [Inhabited α] (shape : List Nat) (b : Nat) (parts : List (Tensor α))
    (hs : parts.map (·.shape) = cartesian (splitAll shape b)) :
    ∃ u, mergePartitions shape b parts = some u ∧ u.shape = shape ∧
      List.Forall₂ Tensor.Eqv (partition u b) parts := partition_mergePartitions shape b parts hs

/-- **Announced preconditioners agree with the blocks produced** (ALL / INPUT / OUTPUT, any compression rank):
the shapes of the blocks `partition` returns are, in order, `itertools.product(*split_sizes)`;
`shapes_for_preconditioners` is, block by block in that order, the list of `[d, precond_dim d]` over the dims `d`
of THAT block at the axes `should_precondition_dims` flags; so there are (#blocks × #preconditioned axes) of
them. -/
theorem precond_shapes_agree_with_blocks {α} (pt : PType) (r : Nat) (t : Tensor α) (b : Nat) :
    (partition t b).map (·.shape) = cartesian (splitAll t.shape b) ∧
    shapesForPreconditioners pt r t.shape b =
      ((partition t b).flatMap fun blk =>
        (selectDims blk.shape (shouldPreconditionDims pt blk.shape.length)).map fun d => (d, precondDim r d)) ∧
    (∀ blk ∈ partition t b, blk.shape.length = t.shape.length) ∧
    (shapesForPreconditioners pt r t.shape b).length =
      (partition t b).length * numPreconditioned pt t.shape.length := by
  refine ⟨partition_shapes t b, ?_, partition_shape_length t b, shapesForPreconditioners_length pt r t b⟩
  rw [shapesForPreconditioners_eq_blocks]
  congr 1
  funext blk
  rw [blockPrecondDims_eq_select]

/-- shape of the Tearfree blockified array: `block_sizes` with `num_blocks` inserted at the blocks axis; no side
of a block exceeds the block size. -/
theorem blockify_shape {α} (t : Tensor α) (b : Nat) (hb : 0 < b)
    (hle : (blocksMetadata b t.shape).largeAxes.length ≤ 2)
    (hdiv : ∀ a ∈ (blocksMetadata b t.shape).largeAxes, b ∣ t.shape.getD a 0) :
    (blockify t (blocksMetadata b t.shape)).shape = blockedShape (blocksMetadata b t.shape) ∧
    ∀ s ∈ (blocksMetadata b t.shape).blockSizes, s ≤ b := by
  refine ⟨blockify_shape_eq t b hb hle hdiv, ?_⟩
  intro s hs
  simp only [blocksMetadata, List.mem_map] at hs
  obtain ⟨d, _, rfl⟩ := hs
  exact Nat.min_le_right d b

/-- **Tearfree blocks are contiguous sub-tensors.** For 0, 1 or 2 large axes (small axes before, between and
after them), the entry at index `x` of `_blockify t` — block number `blk = x[blocks_axis]`, index inside the block
`inner = x` without that coordinate — is the parameter entry at `tfBlockOffsets blk + inner`: the block's grid
coordinates times the block size on the large axes, 0 on the small ones; and that index is in bounds. -/
theorem blockify_block_contiguous {α} (t : Tensor α) (b : Nat) (hb : 0 < b)
    (hle : (blocksMetadata b t.shape).largeAxes.length ≤ 2)
    (hdiv : ∀ a ∈ (blocksMetadata b t.shape).largeAxes, b ∣ t.shape.getD a 0)
    (x : List Nat) (hx : inBounds (blockedShape (blocksMetadata b t.shape)) x) :
    (blockify t (blocksMetadata b t.shape)).get x =
      t.get (addOff (tfBlockOffsets (blocksMetadata b t.shape) (x.getD (blocksMetadata b t.shape).blocksAxis 0))
        (popAt x (blocksMetadata b t.shape).blocksAxis)) ∧
    inBounds t.shape (unblockedIndex (blocksMetadata b t.shape) x) ∧
    unblockedIndex (blocksMetadata b t.shape) x =
      addOff (tfBlockOffsets (blocksMetadata b t.shape) (x.getD (blocksMetadata b t.shape).blocksAxis 0))
        (popAt x (blocksMetadata b t.shape).blocksAxis) := by
  obtain ⟨h1, h2⟩ := blockify_get_eq t b hb hle hdiv x hx
  exact ⟨h1, h2, rfl⟩

/-- **`_deblockify`, entry by entry**, for ANY array `X` of the blockified shape (not only outputs of `_blockify`):
the parameter entry at `idx` is `X` at (block number of `idx`) inserted at the blocks axis into (index of `idx`
inside its block). This is what entry-level statements about `deblockify ∘ f ∘ blockify` need. -/
theorem deblockify_pointwise {α} (S : List Nat) (b : Nat) (hb : 0 < b)
    (hle : (blocksMetadata b S).largeAxes.length ≤ 2)
    (hdiv : ∀ a ∈ (blocksMetadata b S).largeAxes, b ∣ S.getD a 0)
    (X : Tensor α) (hX : X.shape = blockedShape (blocksMetadata b S))
    (idx : List Nat) (hi : inBounds S idx) :
    (deblockify X (blocksMetadata b S)).get idx =
      X.get (insertAt (innerIndexOf (blocksMetadata b S) idx) (blocksMetadata b S).blocksAxis
        (blockIndexOf (blocksMetadata b S) idx)) ∧
    inBounds X.shape (blockedIndex (blocksMetadata b S) idx) :=
  deblockify_get_eq S b hb hle hdiv X hX idx hi

/-- the two index maps undo each other: the block and inner index of a parameter entry lead back to it -/
theorem unblocked_blocked_id (S : List Nat) (b : Nat) (hb : 0 < b)
    (hle : (blocksMetadata b S).largeAxes.length ≤ 2)
    (hdiv : ∀ a ∈ (blocksMetadata b S).largeAxes, b ∣ S.getD a 0)
    (idx : List Nat) (hi : inBounds S idx) :
    unblockedIndex (blocksMetadata b S) (blockedIndex (blocksMetadata b S) idx) = idx := by
  -- read the round trip on the tensor of indices
  let ti : Tensor (List Nat) := ⟨S, id⟩
  have hE := deblockify_blockify_id ti b hle hdiv
  have hi' : inBounds (deblockify (blockify ti (blocksMetadata b ti.shape)) (blocksMetadata b ti.shape)).shape idx := by
    rw [hE.1]; exact hi
  have hrt := hE.2 idx hi'
  have hsh := blockify_shape_eq ti b hb hle hdiv
  obtain ⟨h1, h2⟩ := deblockify_get_eq S b hb hle hdiv (blockify ti (blocksMetadata b S)) hsh idx
    hi
  rw [hsh] at h2
  obtain ⟨h3, _⟩ := blockify_get_eq ti b hb hle hdiv _ h2
  have : (deblockify (blockify ti (blocksMetadata b ti.shape)) (blocksMetadata b ti.shape)).get idx = idx := hrt
  rw [show (blocksMetadata b ti.shape) = blocksMetadata b S from rfl] at this
  rw [h1, h3] at this
  exact this


/-! ### third round: closed forms -/

/-- **Per-axis pieces in closed form**: the `j`-th piece of an axis of size `d` starts at `j * b`, and when the axis
is split (`0 < b < d`) it ends at `min ((j+1)·b, d)` — all pieces but the last have size `b`. -/
theorem axis_piece_closed_form (d b j : Nat) (hj : j < (splitSizes d b).length) :
    (offsets (splitSizes d b) 0).getD j 0 = j * b ∧
    (splitSizes d b).getD j 0 = (if 0 < b ∧ b < d then min ((j + 1) * b) d else d) - j * b :=
  ⟨axis_offset_closed d b j hj, axis_size_closed d b j hj⟩

/-- `blockOffsets` (prefix sums of `splitSizes`) is `[k_1·b, …, k_r·b]`. -/
theorem block_offsets_closed_form (shape : List Nat) (b k : Nat) (hk : k < prod (blockGrid shape b)) :
    blockOffsets shape b k = (blockCoords shape b k).map (· * b) := (blockOffsets_closed shape b k hk).1

/-- **Block `k` is the slice `t[k_1·b : min((k_1+1)·b, d_1), …, k_r·b : min((k_r+1)·b, d_r)]`** (on an unsplit
axis `k_a = 0` and the slice is the whole axis) — the textbook form of "contiguous sub-tensor no larger than the
block size": shape = stop − start axis by axis, entry `idx` = the tensor's entry at `start + idx`. -/
theorem partition_block_is_slice {α} (t : Tensor α) (b k : Nat) (hk : k < (partition t b).length) :
    ((partition t b)[k]).shape =
      List.zipWith (fun d ka => (if 0 < b ∧ b < d then min ((ka + 1) * b) d else d) - ka * b) t.shape
        (blockCoords t.shape b k) ∧
    ∀ idx : List Nat, idx.length = t.shape.length →
      ((partition t b)[k]).get idx = t.get (addOff ((blockCoords t.shape b k).map (· * b)) idx) := by
  have hk' : k < prod (blockGrid t.shape b) := by rw [← partition_length]; exact hk
  obtain ⟨h1, h2, _⟩ := partition_contiguous t b k hk
  obtain ⟨c1, c2⟩ := blockOffsets_closed t.shape b k hk'
  rw [c2] at h1
  refine ⟨h1, ?_⟩
  intro idx hi
  rw [h2 idx hi, c1]

/-- **`tfBlockOffsets` in closed form** (any shape and block size): it has the parameter's rank; on the `i`-th large
axis it is the `i`-th grid coordinate of the block times the block size; it is 0 on every small axis. -/
theorem tf_block_offsets_closed_form (b : Nat) (S : List Nat) (blk : Nat) :
    (tfBlockOffsets (blocksMetadata b S) blk).length = S.length ∧
    (∀ i (hi : i < (blocksMetadata b S).largeAxes.length),
      (tfBlockOffsets (blocksMetadata b S) blk).getD ((blocksMetadata b S).largeAxes[i]) 0 =
        (unravel (blocksMetadata b S).blocksPerLargeAxis blk).getD i 0 * b) ∧
    (∀ k, k ∉ (blocksMetadata b S).largeAxes → (tfBlockOffsets (blocksMetadata b S) blk).getD k 0 = 0) :=
  tfBlockOffsets_closed b S blk

/-- converse of `unblocked_blocked_id`: an entry of the blockified array is found again from its parameter index -/
theorem blocked_unblocked_id (S : List Nat) (b : Nat) (hb : 0 < b)
    (hle : (blocksMetadata b S).largeAxes.length ≤ 2)
    (hdiv : ∀ a ∈ (blocksMetadata b S).largeAxes, b ∣ S.getD a 0)
    (x : List Nat) (hx : inBounds (blockedShape (blocksMetadata b S)) x) :
    blockedIndex (blocksMetadata b S) (unblockedIndex (blocksMetadata b S) x) = x :=
  Shapes.blocked_unblocked_id S b hb hle hdiv x hx

/-- **The Tearfree blocks tile the (padded) parameter**: every in-bounds parameter index comes from exactly one
in-bounds index of the blockified array — exactly one (block number at the blocks axis, index inside the block). -/
theorem blockify_blocks_tile (S : List Nat) (b : Nat) (hb : 0 < b)
    (hle : (blocksMetadata b S).largeAxes.length ≤ 2)
    (hdiv : ∀ a ∈ (blocksMetadata b S).largeAxes, b ∣ S.getD a 0)
    (idx : List Nat) (hi : inBounds S idx) :
    inBounds (blockedShape (blocksMetadata b S)) (blockedIndex (blocksMetadata b S) idx) ∧
    unblockedIndex (blocksMetadata b S) (blockedIndex (blocksMetadata b S) idx) = idx ∧
    ∀ x, inBounds (blockedShape (blocksMetadata b S)) x → unblockedIndex (blocksMetadata b S) x = idx →
      x = blockedIndex (blocksMetadata b S) idx := blocked_tile S b hb hle hdiv idx hi

/-! ### non-vacuity: concrete instances meeting the hypotheses -/

example : mergeSmallDims [1, 2, 512, 1, 2048, 1, 3, 4] 1024 = [1024, 2048, 12] := by decide
example : splitSizes 7 3 = [3, 3, 1] := by decide
example : (∀ d ∈ [3, 5], 1 ≤ d) ∧ inBounds [3, 5] [2, 4] := by simp [inBounds]
example : padDim 5 2 = 6 ∧ padDim 1 2 = 1 := by decide
example : shouldCompress 1 4 = true ∧ precondDim 1 4 = 3 := by decide
example : precondsForGrad .input 2 3 = [some 3, none] := by decide
example : (blocksMetadata 2 [4, 3]).largeAxes = [0, 1] ∧ (blocksMetadata 3 [6, 2]).largeAxes = [0] ∧ 3 ∣ 6 := by decide

example : blockOffsets [5, 3] 2 4 = [4, 0] ∧ blockDims [5, 3] 2 4 = [1, 2] ∧ blockCoords [5, 3] 2 4 = [2, 0] := by
  decide
example : locateBlock [5, 3] 2 [4, 1] = (4, [0, 1]) ∧ inBounds [5, 3] [4, 1] := ⟨by decide, by simp [inBounds]⟩
example : blockedIndex (blocksMetadata 4 [8, 3, 8]) [5, 1, 6] = [3, 1, 1, 2] ∧
    unblockedIndex (blocksMetadata 4 [8, 3, 8]) [3, 1, 1, 2] = [5, 1, 6] ∧
    blockedShape (blocksMetadata 4 [8, 3, 8]) = [4, 4, 3, 4] ∧
    (blocksMetadata 4 [8, 3, 8]).largeAxes = [0, 2] := by decide

example : blockOffsets [7, 3] 3 2 = [6, 0] ∧ (blockCoords [7, 3] 3 2).map (· * 3) = [6, 0] ∧
    blockDims [7, 3] 3 2 = [1, 3] := by decide
example : tfBlockOffsets (blocksMetadata 4 [8, 3, 8]) 3 = [4, 0, 4] := by decide

end PrecondVerif.C06
