/-
C06 — merging, blocking, blockifying and padding are lossless and self-consistent.
Only property theorems and non-vacuity examples live here; helper lemmas are in
`Lemmas/Shapes.lean`. All statements quantify over every rank, every dimension,
every block size and merge limit.
-/
import PrecondVerif.Lemmas.Shapes
import PrecondVerif.Lemmas.Partition
import PrecondVerif.Lemmas.Blockify

namespace PrecondVerif.C06
open PrecondVerif.Shapes

/-- Merging small dimensions preserves the element count. -/
theorem merge_prod (shape : List Nat) (m : Nat) (h : ∀ d ∈ shape, 1 ≤ d) :
    prod (mergeSmallDims shape m) = prod shape := by
  unfold mergeSmallDims
  split
  · rename_i hc; simp [prod_all_one hc.2]
  · rw [mergeGo_prod m shape 1 (Nat.le_refl 1) h]; simp

/-- Every merged dimension respects the limit, unless it is a single original dimension
that was already too large. -/
theorem merge_respects_limit (shape : List Nat) (m : Nat) :
    ∀ x ∈ mergeSmallDims shape m, x ≤ m ∨ x ∈ shape := by
  intro x hx
  unfold mergeSmallDims at hx
  split at hx
  · rename_i hc
    simp at hx; subst hx
    right
    obtain ⟨hne, hall⟩ := hc
    cases shape with
    | nil => exact absurd rfl hne
    | cons a l =>
      simp only [List.all_cons, Bool.and_eq_true, beq_iff_eq] at hall
      simp [hall.1]
  · exact mergeGo_mem m shape shape 1 (Or.inr (Or.inr rfl)) (fun d hd => hd) x hx

/-- No unit dimension survives merging, except the all-ones tensor which becomes `[1]`. -/
theorem merge_no_units (shape : List Nat) (m : Nat) :
    mergeSmallDims shape m = [1] ∨ ∀ x ∈ mergeSmallDims shape m, 1 < x := by
  unfold mergeSmallDims
  split
  · left; rfl
  · right; exact mergeGo_gt_one m shape 1

/-- Block sizes along one axis add up to the dimension. -/
theorem split_sum (d b : Nat) : (splitSizes d b).sum = d := splitSizes_sum d b

/-- No block exceeds the block size (when blocking applies at all). -/
theorem split_le_block (d b : Nat) (hb : 0 < b) (hd : b < d) :
    ∀ s ∈ splitSizes d b, s ≤ b := splitSizes_le d b hb hd

/-- An unsplit axis (block size 0 or ≥ d) is one block of the full dimension. -/
theorem split_unsplit (d b : Nat) (h : ¬ (0 < b ∧ b < d)) : splitSizes d b = [d] := by
  unfold splitSizes; rw [if_neg h]

/-- No empty block. -/
theorem split_pos (d b : Nat) (hd : 1 ≤ d) : ∀ s ∈ splitSizes d b, 1 ≤ s := splitSizes_pos d b hd

/-- Number of blocks along an axis: `⌈d / b⌉` in the code's `(d-1)//b + 1` form. -/
theorem split_count (d b : Nat) :
    (splitSizes d b).length = if 0 < b ∧ b < d then (d - 1) / b + 1 else 1 := splitSizes_length d b

/-- `BlockPartitioner`: merging the partition of ANY tensor (any rank, any dims, any block size)
succeeds and returns a tensor with the same shape and the same entry at every in-bounds index. -/
theorem merge_partition_id {α} [Inhabited α] (t : Tensor α) (b : Nat) :
    ∃ u, mergePartitions t.shape b (partition t b) = some u ∧ u.Eqv t := by
  have h := mergeAxesRev_partAxes (fun i => splitSizes (t.shape.getD i 0) b) (splitAxes t.shape b) [t]
    (splitAxes_nodup _ _) (fun a _ => splitSizes_ne_nil _ _)
    (by
      intro u hu a ha
      simp only [List.mem_singleton] at hu
      subst hu
      exact ⟨splitAxes_lt _ _ a ha, splitSizes_sum _ _⟩)
  show ∃ u, (match mergeAxesRev (fun i => splitSizes (t.shape.getD i 0) b) (splitAxes t.shape b)
      (partAxes (fun i => splitSizes (t.shape.getD i 0) b) (splitAxes t.shape b) [t]) with
      | [u] => some u
      | _ => none) = some u ∧ u.Eqv t
  generalize mergeAxesRev (fun i => splitSizes (t.shape.getD i 0) b) (splitAxes t.shape b)
      (partAxes (fun i => splitSizes (t.shape.getD i 0) b) (splitAxes t.shape b) [t]) = res at h
  cases h with
  | cons hab htl =>
    cases htl
    exact ⟨_, rfl, hab⟩

/-- The number of blocks is the product of the per-axis block counts. -/
theorem partition_count {α} (t : Tensor α) (b : Nat) :
    (partition t b).length =
      prod ((splitAxes t.shape b).map fun i => (splitSizes (t.shape.getD i 0) b).length) := by
  rw [partition_eq_partAxes, partAxes_length]; simp

/-- Row-major index maps are mutually inverse (every reshape is the identity on flat data). -/
theorem ravel_unravel_id (shape : List Nat) (k : Nat) (h : k < prod shape) :
    ravel shape (unravel shape k) = k := ravel_unravel shape k h

theorem unravel_ravel_id (shape idx : List Nat) (h : inBounds shape idx) :
    unravel shape (ravel shape idx) = idx := unravel_ravel shape idx h

/-- Reshaping there and back is the identity on every in-bounds index whenever the element
counts agree. -/
theorem reshape_roundtrip {α} (t : Tensor α) (s : List Nat) (idx : List Nat)
    (hp : prod s = prod t.shape) (hi : inBounds t.shape idx) :
    ((t.reshape s).reshape t.shape).get idx = t.get idx := by
  simp only [Tensor.reshape]
  have hlt : ravel t.shape idx < prod s := hp ▸ ravel_lt t.shape idx hi
  rw [ravel_unravel s _ hlt, unravel_ravel t.shape idx hi]

/-- Tearfree `_deblockify ∘ _blockify` is the identity on every in-bounds entry, for every
parameter Tearfree Shampoo's `_init` accepts: any rank, at most two large axes (`dim ≥ block_size`),
each large axis a multiple of the block size. Covers the pure-reshape cases and the
reshape ∘ transpose ∘ reshape case (inverse permutations proved). -/
theorem deblockify_blockify_id {α} (t : Tensor α) (b : Nat)
    (hle : (blocksMetadata b t.shape).largeAxes.length ≤ 2)
    (hdiv : ∀ a ∈ (blocksMetadata b t.shape).largeAxes, b ∣ t.shape.getD a 0) :
    (deblockify (blockify t (blocksMetadata b t.shape)) (blocksMetadata b t.shape)).Eqv t :=
  deblockify_blockify_eqv t b hle hdiv

/-- Tearfree padding: never shrinks, pads to a multiple of the block, by less than a block,
and leaves small dimensions alone. -/
theorem pad_ge (s b : Nat) : s ≤ padDim s b := by
  unfold padDim
  split
  · exact Nat.le_refl s
  · split
    · rename_i hb hs
      have hb' : 0 < b := Nat.pos_of_ne_zero hb
      have := Nat.lt_div_mul_add hb' (a := s + b - 1)
      have h2 : (s + b - 1) / b * b ≤ s + b - 1 := Nat.div_mul_le_self _ _
      omega
    · exact Nat.le_refl s

theorem pad_multiple (s b : Nat) (hb : 0 < b) (hs : b ≤ s) : b ∣ padDim s b := by
  unfold padDim
  rw [if_neg (by omega), if_pos hs]
  exact Nat.dvd_mul_left b _

theorem pad_lt_block (s b : Nat) (hb : 0 < b) : padDim s b < s + b := by
  unfold padDim
  rw [if_neg (by omega)]
  split
  · have h2 : (s + b - 1) / b * b ≤ s + b - 1 := Nat.div_mul_le_self _ _
    omega
  · omega

theorem pad_small_unchanged (s b : Nat) (h : s < b) : padDim s b = s := by
  unfold padDim
  rw [if_neg (by omega), if_neg (by omega)]

/-- Tearfree merge-and-pad followed by unpad-and-unmerge returns every real entry. -/
theorem unmerge_merge_id {α} (zero : α) (mergeDims blockSize : Nat) (t : Tensor α)
    (hd : ∀ d ∈ t.shape, 1 ≤ d) (idx : List Nat) (hi : inBounds t.shape idx) :
    let s := deriveShapes mergeDims blockSize t.shape
    (tfUnmerge s blockSize (tfMerge zero s blockSize t)).get idx = t.get idx := by
  intro s
  have hprod : prod s.merged = prod t.shape := by
    show prod (deriveShapes mergeDims blockSize t.shape).merged = prod t.shape
    simp only [deriveShapes]
    split
    · rename_i h1
      have := merge_prod t.shape mergeDims hd
      rw [h1] at this
      simpa using this
    · exact merge_prod t.shape mergeDims hd
  have hlt : ravel t.shape idx < prod s.merged := hprod ▸ ravel_lt t.shape idx hi
  have hin : inBounds s.merged (unravel s.merged (ravel t.shape idx)) :=
    unravel_inBounds _ _ hlt
  have horig : s.original = t.shape := by
    show (deriveShapes mergeDims blockSize t.shape).original = t.shape
    simp only [deriveShapes]; split <;> rfl
  have key : (t.reshape s.merged).get (unravel s.merged (ravel t.shape idx)) = t.get idx := by
    simp only [Tensor.reshape]
    rw [ravel_unravel _ _ hlt, unravel_ravel _ _ hi]
  unfold tfUnmerge tfMerge
  simp only [Tensor.reshape, Tensor.padTo, Tensor.cropTo, horig]
  split <;> split <;>
    simp only [Tensor.reshape, Tensor.padTo, Tensor.cropTo, lt2_of_inBounds _ _ hin, if_true] <;>
    (simp only [Tensor.reshape] at key; exact key)

/-- `_precond_dim` and `_should_compress` agree: a dimension is stored compressed exactly
when compression is applied. -/
theorem precondDim_consistent (r d : Nat) :
    (shouldCompress r d = true ↔ precondDim r d < d) ∧
    (shouldCompress r d = false → precondDim r d = d) ∧
    (shouldCompress r d = true → precondDim r d = r + 2) := by
  unfold shouldCompress precondDim
  refine ⟨?_, ?_, ?_⟩ <;> by_cases h0 : r = 0 <;> by_cases h1 : r + 2 ≥ d <;>
    simp [h0, h1] <;> omega

/-- The slot list handed to `_precondition_block` always has one entry per axis. -/
theorem preconds_for_grad_length (pt : PType) (rank i : Nat) :
    (precondsForGrad pt rank i).length = rank := by
  unfold precondsForGrad numPreconditioned shouldPreconditionDims
  cases pt <;> simp <;> split <;> simp <;> omega

/-- Slots are present exactly on the preconditioned axes. -/
theorem preconds_for_grad_slots (pt : PType) (rank i : Nat) :
    (precondsForGrad pt rank i).map Option.isSome = shouldPreconditionDims pt rank := by
  unfold precondsForGrad numPreconditioned shouldPreconditionDims
  cases pt <;> simp
  · apply List.ext_getElem <;> simp
  · split
    · apply List.ext_getElem <;> simp
    · simp
      apply List.ext_getElem <;> simp
  · split
    · apply List.ext_getElem <;> simp
    · simp

/-- Exponent is twice the number of preconditioned axes, and that number is the rank for
ALL (or rank ≤ 1) and `rank - 1` / `1` for one-sided preconditioning. -/
theorem exponent_spec (pt : PType) (rank : Nat) :
    exponentForPreconditioner pt rank =
      2 * (match pt with
           | .all => rank
           | .input => if rank ≤ 1 then rank else rank - 1
           | .output => if rank ≤ 1 then rank else 1) := by
  unfold exponentForPreconditioner numPreconditioned shouldPreconditionDims
  cases pt <;> simp
  · split <;> simp
  · split <;> simp

/-! ### non-vacuity: concrete instances meeting the hypotheses -/

example : mergeSmallDims [1, 2, 512, 1, 2048, 1, 3, 4] 1024 = [1024, 2048, 12] := by decide
example : splitSizes 7 3 = [3, 3, 1] := by decide
example : (∀ d ∈ [3, 5], 1 ≤ d) ∧ inBounds [3, 5] [2, 4] := by simp [inBounds]
example : padDim 5 2 = 6 ∧ padDim 1 2 = 1 := by decide
example : shouldCompress 1 4 = true ∧ precondDim 1 4 = 3 := by decide
example : precondsForGrad .input 2 3 = [some 3, none] := by decide
example : (blocksMetadata 2 [4, 3]).largeAxes = [0, 1] ∧ (blocksMetadata 3 [6, 2]).largeAxes = [0] ∧ 3 ∣ 6 := by decide

end PrecondVerif.C06
