/-
Bridge theorems between the Lean definitions GENERATED from the Python source on every run
(`Gen/Src.lean`, written by `harness/py2lean.py`) and the hand-written models the C06 / C10 theorems are about.

`Gen.f (casts of the inputs) = casts of (Model.f inputs)` for ALL inputs in the stated domain: any list of
naturals as a shape (`ints l`), any natural block size / merge limit / dimension, any integer
`compression_rank`.  With a bridge in place every theorem of `Props/C06.lean` / `Props/C10.lean` about the
model function is a theorem about the code as translated today (`gen_*` theorems below spell out some).
When the source changes behaviour, `Gen/Src.lean` changes and the corresponding proof stops type-checking.

Theorems are grouped by the property whose check builds them: namespaces `GenProps.C02`, `.C05`, `.C06`, `.C07`,
`.C10`, `.C12`, `.C13`, `.C15` (a check passes `extra_props=("Gen",)` and gets the theorems of its own namespace)
(`GenProps.C13`: the padding count, available to the C13 check through `lean_stage(extra_props=("Gen",))`).
Helper lemmas are in `Lemmas/GenBridge.lean`.
-/
import PrecondVerif.Lemmas.GenBridge

namespace PrecondVerif.GenProps.C06
open PrecondVerif PrecondVerif.GenBridge

/-- `distributed_shampoo.merge_small_dims` as translated = `Shapes.mergeSmallDims`. -/
theorem merge_small_dims_bridge (s : List Nat) (m : Nat) :
    Gen.mergeSmallDims (ints s) (m : Int) = ints (Shapes.mergeSmallDims s m) :=
  mergeSmallDims_bridge s m

/-- `BlockPartitioner.__init__` as translated: `_split_sizes` = `Shapes.splitAll`, and `_splits` is, for every
axis `i` with `0 < block_size < d`, the pair `(i, [b, 2b, …, nsplit·b])` (`GenBridge.splitsSpec`). -/
theorem block_partitioner_init_bridge (shape : List Nat) (b : Nat) :
    Gen.blockPartitionerInit (ints shape) (b : Int) =
      (splitsSpec b 0 shape, (Shapes.splitAll shape b).map ints) :=
  blockPartitionerInit_bridge shape b

/-- the axes recorded in `_splits` are exactly `Shapes.splitAxes` (in order). -/
theorem block_partitioner_split_axes (shape : List Nat) (b : Nat) :
    (Gen.blockPartitionerInit (ints shape) (b : Int)).1.map (·.1) = ints (Shapes.splitAxes shape b) := by
  rw [blockPartitionerInit_bridge, splitsSpec_axes]
  simp [ints]

/-- the `jnp.split` indices recorded for a split axis are the offsets of its pieces after the first
(`Shapes.Tensor.split` slices at `Shapes.offsets (splitSizes d b) 0`). -/
theorem block_partitioner_split_indices (d b : Nat) (h : 0 < b ∧ b < d) :
    splitIndices d b = ints (Shapes.offsets (Shapes.splitSizes d b) 0).tail :=
  splitIndices_offsets d b h

/-- `Preconditioner.should_precondition_dims` as translated never falls through to `None` for the three
`PreconditionerType` values and equals `Shapes.shouldPreconditionDims` at `rank = len(split_sizes)`. -/
theorem should_precondition_dims_bridge (ss : List (List Int)) (pt : Shapes.PType) :
    Gen.shouldPreconditionDims ss (ptypeCode pt) = some (Shapes.shouldPreconditionDims pt ss.length) :=
  shouldPreconditionDims_bridge ss pt

/-- `tearfree/reshaper.py::_derive_shapes` as translated = `Shapes.deriveShapes` (all three fields). -/
theorem derive_shapes_bridge (mergeDims blockSize : Nat) (shape : List Nat) :
    Gen.deriveShapes (mergeDims : Int) (blockSize : Int) (ints shape) =
      (ints (Shapes.deriveShapes mergeDims blockSize shape).original,
       ints (Shapes.deriveShapes mergeDims blockSize shape).merged,
       ints (Shapes.deriveShapes mergeDims blockSize shape).padded) :=
  deriveShapes_bridge mergeDims blockSize shape

/-- `tearfree/shampoo.py::_blocks_metadata` as translated = `Shapes.blocksMetadata` (all seven integer fields;
`debug_name` is not translated). `blocks_axis = min(large_axes, default=0)` equals the model's `headD 0`
because `large_axes` is increasing. -/
theorem blocks_metadata_bridge (blockSize : Nat) (shape : List Nat) :
    Gen.blocksMetadata (blockSize : Int) (ints shape) =
      (let m := Shapes.blocksMetadata blockSize shape
       (ints m.blockSizes, (m.numBlocks : Int), (m.largeBlockSize : Int), ints m.paramShape, ints m.largeAxes,
        ints m.blocksPerLargeAxis, (m.blocksAxis : Int))) :=
  blocksMetadata_bridge blockSize shape


/-- `Preconditioner._preconditioner_shape` as translated: `[dim, _precond_dim(rank, dim)]`. -/
theorem preconditioner_shape_bridge (c : Int) (d : Nat) :
    Gen.preconditionerShape c (d : Int) = [(d : Int), ((Shapes.precondDim c.natAbs d : Nat) : Int)] :=
  preconditionerShape_bridge c d

/-- `Preconditioner.shapes_for_preconditioners` as translated (loop over `itertools.product(*split_sizes)`,
`map(self._preconditioner_shape, t / t[:-1] / t[-1:])`) = `Shapes.shapesForPreconditioners`' body for ANY list of
per-axis size lists, every preconditioner type and every integer compression rank; pairs appear as 2-lists. -/
theorem shapes_for_preconditioners_bridge (ss : List (List Nat)) (pt : Shapes.PType) (c : Int) :
    Gen.shapesForPreconditioners (ss.map ints) (ptypeCode pt) c =
      ((Shapes.cartesian ss).flatMap fun t => (Shapes.blockPrecondDims pt t).map fun d => (d, Shapes.precondDim c.natAbs d)).map
        (fun p => [(p.1 : Int), (p.2 : Int)]) :=
  shapesForPreconditioners_bridge ss pt c

/-- the same composed with `BlockPartitioner.__init__` as translated: the model's `shapesForPreconditioners`. -/
theorem shapes_for_preconditioners_of_partitioner (shape : List Nat) (b : Nat) (pt : Shapes.PType) (c : Int) :
    Gen.shapesForPreconditioners (Gen.blockPartitionerInit (ints shape) (b : Int)).2 (ptypeCode pt) c =
      (Shapes.shapesForPreconditioners pt c.natAbs shape b).map (fun p => [(p.1 : Int), (p.2 : Int)]) := by
  rw [blockPartitionerInit_bridge]
  exact shapesForPreconditioners_bridge (Shapes.splitAll shape b) pt c

/-- `Preconditioner.exponent_for_preconditioner` as translated never yields `None` and equals
`Shapes.exponentForPreconditioner` at `rank = len(split_sizes)`. -/
theorem exponent_for_preconditioner_bridge (ss : List (List Int)) (pt : Shapes.PType) :
    Gen.exponentForPreconditioner ss (ptypeCode pt) =
      some ((Shapes.exponentForPreconditioner pt ss.length : Nat) : Int) :=
  exponent_bridge ss pt

/-- `Preconditioner._preconds_for_grad` as translated: whenever the slice `preconditioners[start:end]` has one
entry per preconditioned axis, the `assert len(..) == rank` holds (the result is `some _`, repaired D2) and the
result is the slice padded with `None` on the unpreconditioned axes. -/
theorem preconds_for_grad_assert_holds (P : List (Option Int)) (pt : Shapes.PType) (rank : Nat) (s e : Int)
    (hlen : (Gen.Py.slice P s e).length = Shapes.numPreconditioned pt rank) :
    Gen.precondsForGrad P (ptypeCode pt) (rank : Int) s e = some (padSlots pt rank (Gen.Py.slice P s e)) :=
  precondsForGrad_shape P pt rank s e hlen

/-- … and on the list of positions `0 … n-1` with the call site's `start = i·k`, `end = (i+1)·k` it is the model's
`Shapes.precondsForGrad pt rank i`. -/
theorem preconds_for_grad_bridge (pt : Shapes.PType) (rank blockIx n : Nat)
    (hn : (blockIx + 1) * Shapes.numPreconditioned pt rank ≤ n) :
    Gen.precondsForGrad ((List.range n).map fun (j : Nat) => some (j : Int)) (ptypeCode pt) (rank : Int)
        ((blockIx * Shapes.numPreconditioned pt rank : Nat) : Int)
        (((blockIx + 1) * Shapes.numPreconditioned pt rank : Nat) : Int) =
      some ((Shapes.precondsForGrad pt rank blockIx).map (Option.map fun (j : Nat) => (j : Int))) :=
  precondsForGrad_bridge pt rank blockIx n hn

/-! #### C06 theorems transported to the generated code -/

/-- `C06.merge_prod` for the code as translated: merging preserves the element count. -/
theorem gen_merge_prod (s : List Nat) (m : Nat) (h : ∀ d ∈ s, 1 ≤ d) :
    Gen.Py.prod (Gen.mergeSmallDims (ints s) (m : Int)) = Gen.Py.prod (ints s) := by
  rw [mergeSmallDims_bridge, py_prod_eq, py_prod_eq]
  congr 1
  unfold Shapes.mergeSmallDims
  split
  · rename_i hc; simp [Shapes.prod_all_one hc.2]
  · rw [Shapes.mergeGo_prod m s 1 (Nat.le_refl 1) h]; simp

/-- `C06.split_sum` for the code as translated: the block sizes of every axis add up to the dimension. -/
theorem gen_split_sizes_sum (shape : List Nat) (b : Nat) :
    (Gen.blockPartitionerInit (ints shape) (b : Int)).2.map Gen.Py.sum = ints shape := by
  rw [blockPartitionerInit_bridge]
  simp only [Shapes.splitAll, ints, List.map_map]
  apply List.map_congr_left
  intro d _
  simp only [Function.comp]
  have := py_sum_eq (Shapes.splitSizes d b)
  simp only [ints] at this
  rw [this, Shapes.splitSizes_sum]

/-- `C06.pad_ge`/`pad_multiple` for the code as translated: every padded dimension is the model's `padDim`
of the merged one (so it is ≥ it, a multiple of the block size when large, and < merged + block). -/
theorem gen_padded_eq_padDim (mergeDims blockSize : Nat) (shape : List Nat)
    (h : Shapes.mergeSmallDims shape mergeDims ≠ [1]) :
    (Gen.deriveShapes (mergeDims : Int) (blockSize : Int) (ints shape)).2.2 =
      ints ((Shapes.mergeSmallDims shape mergeDims).map (Shapes.padDim · blockSize)) := by
  rw [deriveShapes_bridge]
  simp [Shapes.deriveShapes, h]

/-! non-vacuity -/
example : Gen.mergeSmallDims [1, 2, 512, 1, 2048, 1, 3, 4] 1024 = [1024, 2048, 12] := by decide
example : Gen.blockPartitionerInit [7, 2] 3 = ([(0, [3, 6])], [[3, 3, 1], [2]]) := by decide
example : Gen.deriveShapes 4 2 [3, 1, 5, 2, 2] = ([3, 1, 5, 2, 2], [3, 5, 4], [4, 6, 4]) := by decide
example : Gen.blocksMetadata 2 [4, 1, 6] = ([2, 1, 2], 6, 2, [4, 1, 6], [0, 2], [2, 3], 0) := by rfl
example : Gen.shouldPreconditionDims [[3], [2]] 2 = some [true, false] := by decide
example : Gen.shapesForPreconditioners [[3, 1], [2]] 2 (-1) = [[3, 3], [1, 1]] := by decide
example : Gen.exponentForPreconditioner [[3], [2], [2]] 3 = some 2 := by decide
example : Gen.precondsForGrad [some 0, some 1, some 2, some 3] 2 3 2 4 = some [some 2, some 3, none] := by decide
example : Gen.precondsForGrad [some 0, some 1] 2 3 0 1 = none := by decide

end PrecondVerif.GenProps.C06

namespace PrecondVerif.GenProps.C10
open PrecondVerif PrecondVerif.GenBridge

/-- `_precond_dim` as translated = `Shapes.precondDim` at `r = |compression_rank|`, for every integer rank. -/
theorem precond_dim_bridge (c : Int) (d : Nat) :
    Gen.precondDim c (d : Int) = ((Shapes.precondDim c.natAbs d : Nat) : Int) :=
  precondDim_bridge c d

/-- `_should_compress` as translated = `Shapes.shouldCompress` at `r = |compression_rank|`. -/
theorem should_compress_bridge (c : Int) (d : Nat) :
    Gen.shouldCompress c (d : Int) = Shapes.shouldCompress c.natAbs d :=
  shouldCompress_bridge c d

/-- `C06.precondDim_consistent` for the code as translated: a dimension is stored compressed exactly when
compression is applied, and then with `|rank| + 2` columns. -/
theorem gen_precond_dim_consistent (c : Int) (d : Nat) :
    (Gen.shouldCompress c (d : Int) = true ↔ Gen.precondDim c (d : Int) < (d : Int)) ∧
    (Gen.shouldCompress c (d : Int) = false → Gen.precondDim c (d : Int) = (d : Int)) ∧
    (Gen.shouldCompress c (d : Int) = true → Gen.precondDim c (d : Int) = (c.natAbs : Int) + 2) := by
  rw [precondDim_bridge, shouldCompress_bridge]
  unfold Shapes.shouldCompress Shapes.precondDim
  refine ⟨?_, ?_, ?_⟩ <;> by_cases h0 : c.natAbs = 0 <;> by_cases h1 : c.natAbs + 2 ≥ d <;>
    simp [h0, h1] <;> omega

example : Gen.precondDim (-2) 5 = 4 ∧ Gen.shouldCompress (-2) 5 = true ∧ Gen.precondDim 3 5 = 5 := by decide

end PrecondVerif.GenProps.C10

namespace PrecondVerif.GenProps.C13
open PrecondVerif PrecondVerif.GenBridge

/-- The padding count `to_pad = -n % d` (the common shape of every such assignment in `distributed_shampoo.py`,
extracted by the assign-pattern rule) is the least non-negative `r` with `d ∣ n + r`: direct theorems about the
generated definition (no hand-written model involved). -/
theorem to_pad_spec (n D : Nat) (hD : 0 < D) :
    0 ≤ Gen.toPad (n : Int) (D : Int) ∧ Gen.toPad (n : Int) (D : Int) < (D : Int) ∧
      (D : Int) ∣ (n : Int) + Gen.toPad (n : Int) (D : Int) :=
  toPad_spec n D hD

theorem to_pad_minimal (n D : Nat) (hD : 0 < D) (r : Int) (hr : 0 ≤ r) (hdvd : (D : Int) ∣ (n : Int) + r) :
    Gen.toPad (n : Int) (D : Int) ≤ r :=
  toPad_minimal n D hD r hr hdvd

/-- `Gen.toPad` = `Devices.toPad` (the C13 model's `(D - n % D) % D`) for every positive device count. -/
theorem to_pad_devices_bridge (n D : Nat) (hD : 0 < D) :
    Gen.toPad (n : Int) (D : Int) = ((Devices.toPad n D : Nat) : Int) :=
  toPad_devices n D hD

example : Gen.toPad 5 4 = 3 ∧ Gen.toPad 8 4 = 0 ∧ Gen.toPad 0 3 = 0 := by decide

end PrecondVerif.GenProps.C13

namespace PrecondVerif.GenProps.C02
open PrecondVerif PrecondVerif.GenBridge

/-! The geometry `Model/DShampoo.lean` (`Geom`) is built from: merged shape, block sizes, preconditioned axes,
exponent, slot lists — as regenerated from the source. -/

theorem merge_small_dims_bridge (s : List Nat) (m : Nat) :
    Gen.mergeSmallDims (ints s) (m : Int) = ints (Shapes.mergeSmallDims s m) :=
  mergeSmallDims_bridge s m

theorem split_sizes_bridge (shape : List Nat) (b : Nat) :
    (Gen.blockPartitionerInit (ints shape) (b : Int)).2 = (Shapes.splitAll shape b).map ints := by
  rw [blockPartitionerInit_bridge]

theorem should_precondition_dims_bridge (ss : List (List Int)) (pt : Shapes.PType) :
    Gen.shouldPreconditionDims ss (ptypeCode pt) = some (Shapes.shouldPreconditionDims pt ss.length) :=
  shouldPreconditionDims_bridge ss pt

/-- the exponent `Geom.exponent` uses when not overridden. -/
theorem exponent_for_preconditioner_bridge (ss : List (List Int)) (pt : Shapes.PType) :
    Gen.exponentForPreconditioner ss (ptypeCode pt) =
      some ((Shapes.exponentForPreconditioner pt ss.length : Nat) : Int) :=
  exponent_bridge ss pt

theorem preconds_for_grad_bridge (pt : Shapes.PType) (rank blockIx n : Nat)
    (hn : (blockIx + 1) * Shapes.numPreconditioned pt rank ≤ n) :
    Gen.precondsForGrad ((List.range n).map fun (j : Nat) => some (j : Int)) (ptypeCode pt) (rank : Int)
        ((blockIx * Shapes.numPreconditioned pt rank : Nat) : Int)
        (((blockIx + 1) * Shapes.numPreconditioned pt rank : Nat) : Int) =
      some ((Shapes.precondsForGrad pt rank blockIx).map (Option.map fun (j : Nat) => (j : Int))) :=
  precondsForGrad_bridge pt rank blockIx n hn

end PrecondVerif.GenProps.C02

namespace PrecondVerif.GenProps.C05
open PrecondVerif PrecondVerif.GenBridge

/-- `_skip_preconditioning` (closure of `distributed_shampoo`) as translated = `Graft.dsSkip`. -/
theorem ds_skip_bridge (rankLt dimGt : Nat) (shape : List Nat) :
    Gen.dsSkipPreconditioning (rankLt : Int) (dimGt : Int) (ints shape) = Graft.dsSkip rankLt dimGt shape :=
  dsSkip_bridge rankLt dimGt shape

/-- the predicate of tearfree `grafting._mask_skipped` (`_maybe_mask` returns the mask) = `Graft.tfMaskSkipped`. -/
theorem tf_mask_skipped_bridge (rank1 : Bool) (anyDimGt : Nat) (shape : List Nat) :
    Gen.tfMaskSkipped rank1 (anyDimGt : Int) (ints shape) = Graft.tfMaskSkipped rank1 anyDimGt shape :=
  tfMaskSkipped_bridge rank1 anyDimGt shape

example : Gen.dsSkipPreconditioning 2 4096 [5] = true ∧ Gen.dsSkipPreconditioning 1 4 [2, 5] = true ∧
    Gen.dsSkipPreconditioning 1 4 [2, 4] = false := by decide
example : Gen.tfMaskSkipped true 4096 [7] = true ∧ Gen.tfMaskSkipped false 4096 [7] = false := by decide

end PrecondVerif.GenProps.C05

namespace PrecondVerif.GenProps.C07
open PrecondVerif PrecondVerif.GenBridge

/-! `Model/Layout.lean` computes the state layout from these `Model/Shapes.lean` functions; the bridges make the
layout theorems speak about the shape bookkeeping as translated today. -/

theorem merge_small_dims_bridge (s : List Nat) (m : Nat) :
    Gen.mergeSmallDims (ints s) (m : Int) = ints (Shapes.mergeSmallDims s m) :=
  mergeSmallDims_bridge s m

theorem shapes_for_preconditioners_bridge (shape : List Nat) (b : Nat) (pt : Shapes.PType) (c : Int) :
    Gen.shapesForPreconditioners (Gen.blockPartitionerInit (ints shape) (b : Int)).2 (ptypeCode pt) c =
      (Shapes.shapesForPreconditioners pt c.natAbs shape b).map (fun p => [(p.1 : Int), (p.2 : Int)]) :=
  C06.shapes_for_preconditioners_of_partitioner shape b pt c

theorem precond_dim_bridge (c : Int) (d : Nat) :
    Gen.precondDim c (d : Int) = ((Shapes.precondDim c.natAbs d : Nat) : Int) :=
  precondDim_bridge c d

theorem derive_shapes_bridge (mergeDims blockSize : Nat) (shape : List Nat) :
    Gen.deriveShapes (mergeDims : Int) (blockSize : Int) (ints shape) =
      (ints (Shapes.deriveShapes mergeDims blockSize shape).original,
       ints (Shapes.deriveShapes mergeDims blockSize shape).merged,
       ints (Shapes.deriveShapes mergeDims blockSize shape).padded) :=
  deriveShapes_bridge mergeDims blockSize shape

theorem blocks_metadata_bridge (blockSize : Nat) (shape : List Nat) :
    Gen.blocksMetadata (blockSize : Int) (ints shape) =
      (let m := Shapes.blocksMetadata blockSize shape
       (ints m.blockSizes, (m.numBlocks : Int), (m.largeBlockSize : Int), ints m.paramShape, ints m.largeAxes,
        ints m.blocksPerLargeAxis, (m.blocksAxis : Int))) :=
  blocksMetadata_bridge blockSize shape

end PrecondVerif.GenProps.C07

namespace PrecondVerif.GenProps.C12
open PrecondVerif PrecondVerif.GenBridge

/-- `sm3._get_expanded_shape(shape, i)` as translated (direct theorem, `Model/SM3.lean` works on indices and has no
shape helper): ones everywhere except `shape[i]` at position `i`, so reshaping accumulator `i` to it broadcasts
along every other axis (`SM3.coverVals` reads accumulator `i` at `idx[i]`). -/
theorem sm3_expanded_shape (shape : List Nat) (i : Nat) (hi : i < shape.length) :
    Gen.sm3ExpandedShape (ints shape) (i : Int) =
      ints (List.replicate i 1 ++ [shape.getD i 0] ++ List.replicate (shape.length - i - 1) 1) :=
  sm3ExpandedShape_eq shape i hi

/-- it has the rank of the gradient and the element count of accumulator `i`. -/
theorem sm3_expanded_shape_rank_and_count (shape : List Nat) (i : Nat) (hi : i < shape.length) :
    (Gen.sm3ExpandedShape (ints shape) (i : Int)).length = shape.length ∧
      Gen.Py.prod (Gen.sm3ExpandedShape (ints shape) (i : Int)) = ((shape.getD i 0 : Nat) : Int) := by
  rw [sm3ExpandedShape_eq shape i hi, py_prod_eq]
  refine ⟨by simp; omega, ?_⟩
  congr 1
  have hrep : ∀ n : Nat, Shapes.prod (List.replicate n 1) = 1 := by
    intro n; induction n with
    | zero => rfl
    | succ n ih => simp [List.replicate_succ, ih]
  have happ : ∀ a b : List Nat, Shapes.prod (a ++ b) = Shapes.prod a * Shapes.prod b := by
    intro a b; induction a with
    | nil => simp
    | cons x xs ih => simp [ih, Nat.mul_assoc]
  simp [happ, hrep]

example : Gen.sm3ExpandedShape [4, 5, 6] 1 = [1, 5, 1] := by decide

end PrecondVerif.GenProps.C12

namespace PrecondVerif.GenProps.C15
open PrecondVerif PrecondVerif.GenBridge

/-! `Model/Tearfree.lean` (C15) derives the merged / padded shape, the blocks of Tearfree Shampoo and the graft mask with
these `Model/Shapes.lean` / `Model/Graft.lean` functions (`secondOrderTx`, `shampooTx`, `graftTx`); the bridges make the
composition theorems of `Props/C15.lean` speak about the shape bookkeeping as translated from the source today. -/

/-- `reshaper._derive_shapes` as translated = `Shapes.deriveShapes` (original, merged, padded). -/
theorem derive_shapes_bridge (mergeDims blockSize : Nat) (shape : List Nat) :
    Gen.deriveShapes (mergeDims : Int) (blockSize : Int) (ints shape) =
      (ints (Shapes.deriveShapes mergeDims blockSize shape).original,
       ints (Shapes.deriveShapes mergeDims blockSize shape).merged,
       ints (Shapes.deriveShapes mergeDims blockSize shape).padded) :=
  deriveShapes_bridge mergeDims blockSize shape

/-- `distributed_shampoo.merge_small_dims` (called by `_derive_shapes`) = `Shapes.mergeSmallDims`. -/
theorem merge_small_dims_bridge (s : List Nat) (m : Nat) :
    Gen.mergeSmallDims (ints s) (m : Int) = ints (Shapes.mergeSmallDims s m) :=
  mergeSmallDims_bridge s m

/-- `tearfree.shampoo._blocks_metadata` as translated = `Shapes.blocksMetadata`. -/
theorem blocks_metadata_bridge (blockSize : Nat) (shape : List Nat) :
    Gen.blocksMetadata (blockSize : Int) (ints shape) =
      (let m := Shapes.blocksMetadata blockSize shape
       (ints m.blockSizes, (m.numBlocks : Int), (m.largeBlockSize : Int), ints m.paramShape, ints m.largeAxes,
        ints m.blocksPerLargeAxis, (m.blocksAxis : Int))) :=
  blocksMetadata_bridge blockSize shape

/-- the predicate of `grafting._mask_skipped` — evaluated on the ORIGINAL shape — = `Graft.tfMaskSkipped`. -/
theorem tf_mask_skipped_bridge (rank1 : Bool) (anyDimGt : Nat) (shape : List Nat) :
    Gen.tfMaskSkipped rank1 (anyDimGt : Int) (ints shape) = Graft.tfMaskSkipped rank1 anyDimGt shape :=
  tfMaskSkipped_bridge rank1 anyDimGt shape

/-- the probe's lesson on the translated source: `(4, 6)` reaches Shampoo as `[24]`, yet is not masked. -/
example : Gen.deriveShapes 1024 1024 [4, 6] = ([4, 6], [24], [24]) ∧ Gen.tfMaskSkipped true 4096 [4, 6] = false := by decide

end PrecondVerif.GenProps.C15
