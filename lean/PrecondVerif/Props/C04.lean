/-
C04 — statistics / preconditioner refresh and warm-up follow the configured schedule.

Only property theorems and non-vacuity examples live here; helper lemmas are in
`Lemmas/Schedule.lean`, the automata in `Model/Schedule.lean`.

All statements hold for every kernel (statistics update, root computation with an arbitrary,
adversarial acceptance outcome, momentum updates), every statistics interval ≥ 1, every
preconditioner-interval function of the step (fixed or learning-rate scheduled), every start step,
every initial state and every gradient / fault history `is` (lists of any length: the lifted
statements are proved by induction over the history). `stateAt step s0 is k` is the optimizer state
before step number `k`, i.e. after the first `k` updates; `is[k]` is the input of step `k`.
-/
import PrecondVerif.Lemmas.Schedule

namespace PrecondVerif.C04
open PrecondVerif.Schedule

section DS
variable {σ π μ γ φ δ m α : Type} [Add α] [Mul α] [Sub α] [OfNat α 0] [OfNat α 1]
variable (K : DSKernels σ π μ γ φ δ m α) (cfg : DSCfg)

/-- One update advances the step counter by exactly one. -/
theorem count_advances_step (s : DSState σ π μ δ m) (i : DSInp γ φ) :
    (dsStep K cfg s i).1.count = s.count + 1 := rfl

/-- After `k` updates the counter is the initial counter plus `k`. -/
theorem count_advances (s0 : DSState σ π μ δ m) (is : List (DSInp γ φ)) (k : Nat)
    (hk : k ≤ is.length) :
    (stateAt (dsStep K cfg) s0 is k).count = s0.count + k :=
  stateAt_count (dsStep K cfg) (·.count) (fun _ _ => rfl) s0 is k hk

/-- Statistics are bit-for-bit the previous ones on every step whose index is not a multiple of
the statistics interval. -/
theorem stats_change_only_on_multiples (hsi : 1 ≤ cfg.si) (s0 : DSState σ π μ δ m)
    (is : List (DSInp γ φ)) (k : Nat) (hk : k < is.length) (hn : (s0.count + k) % cfg.si ≠ 0) :
    (stateAt (dsStep K cfg) s0 is (k + 1)).stats = (stateAt (dsStep K cfg) s0 is k).stats := by
  rw [stateAt_succ _ s0 is k hk]
  have hc := count_advances K cfg s0 is k (Nat.le_of_lt hk)
  show dsStats' K cfg _ _ = _
  unfold dsStats'
  rw [dsPerformStats_eq _ _ hsi, hc]
  simp [hn]

/-- On multiples of the statistics interval the statistics absorb exactly the gradient of that step. -/
theorem stats_refresh_on_multiples (hsi : 1 ≤ cfg.si) (s0 : DSState σ π μ δ m)
    (is : List (DSInp γ φ)) (k : Nat) (hk : k < is.length) (hm : (s0.count + k) % cfg.si = 0) :
    (stateAt (dsStep K cfg) s0 is (k + 1)).stats
      = K.statsUpd (stateAt (dsStep K cfg) s0 is k).stats is[k].grad := by
  rw [stateAt_succ _ s0 is k hk]
  have hc := count_advances K cfg s0 is k (Nat.le_of_lt hk)
  show dsStats' K cfg _ _ = _
  unfold dsStats'
  rw [dsPerformStats_eq _ _ hsi, hc]
  simp [hm]

/-- Over any stretch of steps `[j, k)` without a multiple of the statistics interval the statistics
stay identical (so the statistics at any time are those of the last multiple). -/
theorem stats_frozen_between_multiples (hsi : 1 ≤ cfg.si) (s0 : DSState σ π μ δ m)
    (is : List (DSInp γ φ)) (j k : Nat) (hjk : j ≤ k) (hk : k ≤ is.length)
    (hno : ∀ t, j ≤ t → t < k → (s0.count + t) % cfg.si ≠ 0) :
    (stateAt (dsStep K cfg) s0 is k).stats = (stateAt (dsStep K cfg) s0 is j).stats := by
  refine frozen_between (dsStep K cfg) (·.count) (·.stats) (fun t => t % cfg.si = 0)
    (fun _ _ => rfl) ?_ s0 is j k hjk hk hno
  intro s i hn
  show dsStats' K cfg _ _ = _
  unfold dsStats'
  rw [dsPerformStats_eq _ _ hsi]
  simp [hn]

/-- Preconditioners are the previous ones on every step whose index is not a multiple of the
interval in force at that step. The only assumption on the code constants is that the initial
error of `efficient_cond` is rejected by the gate (`threshold >= threshold`). -/
theorem precond_change_only_on_multiples (hbad : K.bad K.failMetrics = true)
    (s0 : DSState σ π μ δ m) (is : List (DSInp γ φ)) (k : Nat) (hk : k < is.length)
    (hn : (s0.count + k) % cfg.interval (s0.count + k) ≠ 0) :
    (stateAt (dsStep K cfg) s0 is (k + 1)).precond = (stateAt (dsStep K cfg) s0 is k).precond := by
  rw [stateAt_succ _ s0 is k hk]
  have hc := count_advances K cfg s0 is k (Nat.le_of_lt hk)
  show gate K _ (dsCandidate K _ _ _ _ _) = _
  rw [hc, dsCandidate_skip K _ _ _ _ _ hn, gate_fail K hbad]

/-- Range form: no refresh step in `[j, k)` ⇒ identical preconditioners. -/
theorem precond_frozen_between_refreshes (hbad : K.bad K.failMetrics = true)
    (s0 : DSState σ π μ δ m) (is : List (DSInp γ φ)) (j k : Nat) (hjk : j ≤ k) (hk : k ≤ is.length)
    (hno : ∀ t, j ≤ t → t < k → (s0.count + t) % cfg.interval (s0.count + t) ≠ 0) :
    (stateAt (dsStep K cfg) s0 is k).precond = (stateAt (dsStep K cfg) s0 is j).precond := by
  refine frozen_between (dsStep K cfg) (·.count) (·.precond) (fun t => t % cfg.interval t = 0)
    (fun _ _ => rfl) ?_ s0 is j k hjk hk hno
  intro s i hn
  show gate K _ (dsCandidate K _ _ _ _ _) = _
  rw [dsCandidate_skip K _ _ _ _ _ hn, gate_fail K hbad]

/-- The diagnostics stored with the preconditioners change only on the same steps. -/
theorem metrics_change_only_on_multiples (s0 : DSState σ π μ δ m) (is : List (DSInp γ φ)) (k : Nat)
    (hk : k < is.length) (hn : (s0.count + k) % cfg.interval (s0.count + k) ≠ 0) :
    (stateAt (dsStep K cfg) s0 is (k + 1)).metrics = (stateAt (dsStep K cfg) s0 is k).metrics := by
  rw [stateAt_succ _ s0 is k hk]
  have hc := count_advances K cfg s0 is k (Nat.le_of_lt hk)
  show (if dsPerformPrecond _ _ then _ else _) = _
  rw [hc]
  unfold dsPerformPrecond
  simp [hn]

/-- On a refresh step the new preconditioner is the gate applied to the root of the statistics
*after* this step's statistics update (and the stored diagnostics are those of that root). -/
theorem refresh_uses_current_stats (s0 : DSState σ π μ δ m) (is : List (DSInp γ φ)) (k : Nat)
    (hk : k < is.length) (hm : (s0.count + k) % cfg.interval (s0.count + k) = 0) :
    let s := stateAt (dsStep K cfg) s0 is k
    let s' := stateAt (dsStep K cfg) s0 is (k + 1)
    s'.precond = gate K s.precond (K.rootAll s'.stats s.precond is[k].fault) ∧
    s'.metrics = (K.rootAll s'.stats s.precond is[k].fault).2 := by
  intro s s'
  have e : s' = (dsStep K cfg s is[k]).1 := stateAt_succ _ s0 is k hk
  have hc : s.count = s0.count + k := count_advances K cfg s0 is k (Nat.le_of_lt hk)
  rw [e]
  constructor
  · show gate K _ (dsCandidate K _ _ _ _ _) = _
    rw [hc, dsCandidate_perform K _ _ _ _ _ hm]; rfl
  · show (if dsPerformPrecond _ _ then (dsCandidate K _ _ _ _ _).2 else _) = _
    rw [hc, dsCandidate_perform K _ _ _ _ _ hm]
    unfold dsPerformPrecond
    simp [hm]; rfl

/-- At any later time before the next refresh the preconditioner still is the (accepted) root of the
statistics that were current at the last refresh step `r`. -/
theorem precond_reflects_stats_of_last_refresh (hbad : K.bad K.failMetrics = true)
    (s0 : DSState σ π μ δ m) (is : List (DSInp γ φ)) (r k : Nat) (hrk : r < k) (hk : k ≤ is.length)
    (hm : (s0.count + r) % cfg.interval (s0.count + r) = 0)
    (hno : ∀ t, r + 1 ≤ t → t < k → (s0.count + t) % cfg.interval (s0.count + t) ≠ 0) :
    (stateAt (dsStep K cfg) s0 is k).precond
      = gate K (stateAt (dsStep K cfg) s0 is r).precond
          (K.rootAll (stateAt (dsStep K cfg) s0 is (r + 1)).stats
            (stateAt (dsStep K cfg) s0 is r).precond (is[r]'(by omega)).fault) := by
  rw [precond_frozen_between_refreshes K cfg hbad s0 is (r + 1) k hrk hk hno]
  exact (refresh_uses_current_stats K cfg s0 is r (by omega) hm).1

end DS

/-- The learning-rate scheduled interval is always at least one, whatever the schedule does
(increasing learning rates and negative intermediate values included). -/
theorem scheduled_interval_ge_one (s e : Rat) (decay : Nat → Rat) (t : Nat) :
    1 ≤ (Interval.scheduled s e decay).at t :=
  scheduledInterval_ge_one s e (decay t)

/-- It is 1 or a multiple of ten ("rounds to the nearest 10"). -/
theorem scheduled_interval_one_or_multiple_of_ten (s e : Rat) (decay : Nat → Rat) (t : Nat) :
    (Interval.scheduled s e decay).at t = 1 ∨ 10 ∣ (Interval.scheduled s e decay).at t :=
  scheduledInterval_one_or_ten s e (decay t)

section Warmup
variable {σ π μ γ φ δ m α : Type} [Ring α]
variable (K : DSKernels σ π μ γ φ δ m α) (cfg : DSCfg)

/-- Before `start_preconditioning_step` the update is exactly the graft optimizer's momentum
update (post-processed by the common nesterov / weight-decay / sign step): the Shampoo branch does
not enter. Exact over any ring; over floats it additionally needs the Shampoo branch to be finite
(`0 * x = 0`), which the correspondence run observes. -/
theorem warmup_is_graft_momentum (s : DSState σ π μ δ m) (i : DSInp γ φ) (h : s.count < cfg.start) :
    (dsStep K cfg s i).2 =
      K.finish (K.graftUpd s.graft i.grad s.count).2.2 (K.graftUpd s.graft i.grad s.count).2.1 s.count := by
  show K.finish (blend (runShampoo cfg.start s.count) _ _) (blend (runShampoo cfg.start s.count) _ _) _ = _
  rw [runShampoo_before cfg.start s.count h, blend_zero, blend_zero]

/-- From `start_preconditioning_step` on the update is the Shampoo momentum update computed with the
preconditioner of this step (replicated mode: the freshly gated one; sharded mode: the stored one). -/
theorem after_warmup_uses_preconditioner (s : DSState σ π μ δ m) (i : DSInp γ φ)
    (h : cfg.start ≤ s.count) :
    let used := if cfg.sharded then s.precond else (dsStep K cfg s i).1.precond
    (dsStep K cfg s i).2 =
      K.finish (K.shampooUpd s.mom used i.grad s.count).2.2
        (K.shampooUpd s.mom used i.grad s.count).2.1 s.count := by
  intro used
  show K.finish (blend (runShampoo cfg.start s.count) _ _) (blend (runShampoo cfg.start s.count) _ _) _ = _
  rw [runShampoo_after cfg.start s.count h, blend_one, blend_one]
  rfl

/-- Lifted over histories started at count 0: step `k` is a warm-up step iff `k < start`. -/
theorem warmup_boundary (s0 : DSState σ π μ δ m) (h0 : s0.count = 0) (is : List (DSInp γ φ)) (k : Nat)
    (hk : k < is.length) :
    let s := stateAt (dsStep K cfg) s0 is k
    (k < cfg.start → (dsStep K cfg s is[k]).2 =
        K.finish (K.graftUpd s.graft is[k].grad k).2.2 (K.graftUpd s.graft is[k].grad k).2.1 k) ∧
    (cfg.start ≤ k → (dsStep K cfg s is[k]).2 =
        K.finish (K.shampooUpd s.mom (if cfg.sharded then s.precond else (dsStep K cfg s is[k]).1.precond)
            is[k].grad k).2.2
          (K.shampooUpd s.mom (if cfg.sharded then s.precond else (dsStep K cfg s is[k]).1.precond)
            is[k].grad k).2.1 k) := by
  intro s
  have hc : s.count = k := by
    have := count_advances K cfg s0 is k (Nat.le_of_lt hk)
    rw [h0, Nat.zero_add] at this; exact this
  constructor
  · intro h
    have := warmup_is_graft_momentum K cfg s is[k] (by rw [hc]; exact h)
    rw [hc] at this; exact this
  · intro h
    have := after_warmup_uses_preconditioner K cfg s is[k] (by rw [hc]; exact h)
    simp only [hc] at this; exact this

end Warmup

section Tearfree
variable {σ ρ γ υ : Type} (K : TFKernels σ ρ γ υ) (sf pf : Nat)

/-- Tearfree Shampoo: the counter counts updates; statistics change only on multiples of
`update_statistics_freq` (absorbing that step's gradient), roots only on multiples of
`update_preconditioners_freq`, where they are the roots of the statistics after this step's
statistics update; the emitted direction uses the resulting roots. -/
theorem tearfree_cadence (s0 : TFState σ ρ) (is : List γ) (k : Nat) (hk : k < is.length) :
    let s := stateAt (tfShampooStep K sf pf) s0 is k
    let s' := stateAt (tfShampooStep K sf pf) s0 is (k + 1)
    s.count = s0.count + k ∧ s'.count = s.count + 1 ∧
    (s'.stats = if (s0.count + k) % sf = 0 then K.statsUpd s.stats is[k] else s.stats) ∧
    (s'.roots = if (s0.count + k) % pf = 0 then K.root s'.stats else s.roots) ∧
    (tfShampooStep K sf pf s is[k]).2 = K.precondition s'.roots is[k] := by
  intro s s'
  have e : s' = (tfShampooStep K sf pf s is[k]).1 := stateAt_succ _ s0 is k hk
  have hc : s.count = s0.count + k :=
    stateAt_count (tfShampooStep K sf pf) (·.count) (fun _ _ => rfl) s0 is k (Nat.le_of_lt hk)
  refine ⟨hc, by rw [e]; rfl, ?_, ?_, by rw [e]; rfl⟩
  · rw [e]; show (if (s.count % sf == 0) = true then _ else _) = _
    rw [hc]; simp
  · rw [e]
    show (if (s.count % pf == 0) = true then K.root (tfShampooStep K sf pf s is[k]).1.stats else s.roots) = _
    rw [hc]; simp

/-- Range form for Tearfree Shampoo: nothing changes between multiples. -/
theorem tearfree_frozen_between_multiples (s0 : TFState σ ρ) (is : List γ) (j k : Nat) (hjk : j ≤ k)
    (hk : k ≤ is.length) :
    ((∀ t, j ≤ t → t < k → (s0.count + t) % sf ≠ 0) →
      (stateAt (tfShampooStep K sf pf) s0 is k).stats = (stateAt (tfShampooStep K sf pf) s0 is j).stats) ∧
    ((∀ t, j ≤ t → t < k → (s0.count + t) % pf ≠ 0) →
      (stateAt (tfShampooStep K sf pf) s0 is k).roots = (stateAt (tfShampooStep K sf pf) s0 is j).roots) := by
  constructor
  · intro hno
    refine frozen_between (tfShampooStep K sf pf) (·.count) (·.stats) (fun t => t % sf = 0)
      (fun _ _ => rfl) ?_ s0 is j k hjk hk hno
    intro s i hn
    show (if (s.count % sf == 0) = true then _ else _) = _
    simp [hn]
  · intro hno
    refine frozen_between (tfShampooStep K sf pf) (·.count) (·.roots) (fun t => t % pf = 0)
      (fun _ _ => rfl) ?_ s0 is j k hjk hk hno
    intro s i hn
    show (if (s.count % pf == 0) = true then _ else _) = _
    simp [hn]

end Tearfree

section Sketchy
variable {κ γ υ : Type} (K : SKKernels κ γ υ) (f : Nat)

/-- Sketchy: one cadence for sketch, tail and inverse roots; the direction uses the new sketch. -/
theorem sketchy_cadence (s0 : SKState κ) (is : List γ) (k : Nat) (hk : k < is.length) :
    let s := stateAt (sketchyStep K f) s0 is k
    let s' := stateAt (sketchyStep K f) s0 is (k + 1)
    s.count = s0.count + k ∧ s'.count = s.count + 1 ∧
    (s'.sketch = if (s0.count + k) % f = 0 then K.upd s.sketch is[k] else s.sketch) ∧
    (sketchyStep K f s is[k]).2 = K.precondition s'.sketch is[k] := by
  intro s s'
  have e : s' = (sketchyStep K f s is[k]).1 := stateAt_succ _ s0 is k hk
  have hc : s.count = s0.count + k :=
    stateAt_count (sketchyStep K f) (·.count) (fun _ _ => rfl) s0 is k (Nat.le_of_lt hk)
  refine ⟨hc, by rw [e]; rfl, ?_, by rw [e]; rfl⟩
  rw [e]; show (if (s.count % f == 0) = true then _ else _) = _
  rw [hc]; simp

/-- Range form for Sketchy. -/
theorem sketchy_frozen_between_multiples (s0 : SKState κ) (is : List γ) (j k : Nat) (hjk : j ≤ k)
    (hk : k ≤ is.length) (hno : ∀ t, j ≤ t → t < k → (s0.count + t) % f ≠ 0) :
    (stateAt (sketchyStep K f) s0 is k).sketch = (stateAt (sketchyStep K f) s0 is j).sketch := by
  refine frozen_between (sketchyStep K f) (·.count) (·.sketch) (fun t => t % f = 0)
    (fun _ _ => rfl) ?_ s0 is j k hjk hk hno
  intro s i hn
  show (if (s.count % f == 0) = true then _ else _) = _
  simp [hn]

end Sketchy

section Graft
variable {D N γ υ : Type} (dirStep : D → γ → D × υ) (normStep : N → γ → N × υ) (scale : υ → υ → υ)
variable (start : Nat) (masked : Bool)

/-- Grafting wrapper: the counter counts updates; before `start_preconditioning_step` (and for
masked tensors always) the output is the graft update itself, from that step on the direction
rescaled to the graft norm; both inner optimizers are stepped on every update. -/
theorem graft_switch_at_start (s0 : GraftState D N) (is : List γ) (k : Nat) (hk : k < is.length) :
    let step := graftStep dirStep normStep scale start masked
    let s := stateAt step s0 is k
    let s' := stateAt step s0 is (k + 1)
    s.count = s0.count + k ∧ s'.count = s.count + 1 ∧
    s'.direction = (dirStep s.direction is[k]).1 ∧ s'.norm = (normStep s.norm is[k]).1 ∧
    (step s is[k]).2 =
      if masked = true ∨ s0.count + k < start then (normStep s.norm is[k]).2
      else scale (dirStep s.direction is[k]).2 (normStep s.norm is[k]).2 := by
  intro step s s'
  have e : s' = (step s is[k]).1 := stateAt_succ _ s0 is k hk
  have hc : s.count = s0.count + k :=
    stateAt_count step (·.count) (fun _ _ => rfl) s0 is k (Nat.le_of_lt hk)
  refine ⟨hc, by rw [e]; rfl, by rw [e]; rfl, by rw [e]; rfl, ?_⟩
  show (if masked = true then _ else if s.count ≥ start then _ else _) = _
  rw [hc]
  by_cases hm : masked = true
  · simp [hm]
  · by_cases hs : s0.count + k < start
    · simp [hm, hs, Nat.not_le.mpr hs]
    · simp [hm, hs, Nat.le_of_not_lt hs]

/-- In the assembled Tearfree optimizer (grafting wrapped around Tearfree Shampoo, both started at
count 0) the two counters agree at every time, so the warm-up switch and the refresh cadence refer
to the same step index. -/
theorem tearfree_counters_in_sync {σ ρ : Type} (K : TFKernels σ ρ γ υ) (sf pf : Nat)
    (s0 : GraftState (TFState σ ρ) N) (h0 : s0.count = s0.direction.count) (is : List γ) :
    let s := run (graftStep (tfShampooStep K sf pf) normStep scale start masked) s0 is
    s.count = s.direction.count ∧ s.count = s0.count + is.length := by
  induction is generalizing s0 with
  | nil => exact ⟨h0, rfl⟩
  | cons i is ih =>
    have := ih (graftStep (tfShampooStep K sf pf) normStep scale start masked s0 i).1
      (by show s0.count + 1 = s0.direction.count + 1; rw [h0])
    refine ⟨this.1, ?_⟩
    have h2 := this.2
    simp only [run_cons]
    rw [h2]
    show s0.count + 1 + is.length = s0.count + (is.length + 1)
    omega

end Graft

/-! ### non-vacuity: the token instance the driver executes meets every hypothesis -/

/-- the gate hypothesis holds for the driver's kernels -/
example : tokKernels.bad tokKernels.failMetrics = true := rfl

/-- statistics interval 2, fixed preconditioner interval 3, start 2: a concrete 7-step history
where step 3 refreshes the preconditioner from the statistics that absorbed gradients 0 and 2. -/
example :
    let cfg : DSCfg := { si := 2, interval := (Interval.fixed 3).at, start := 2, sharded := false }
    let is : List (DSInp Nat Bool) := (List.range 7).map fun t => { grad := t, fault := true }
    1 ≤ cfg.si ∧ 3 < is.length ∧ (tokInit.count + 3) % cfg.interval (tokInit.count + 3) = 0 ∧
    (stateAt (dsStep tokKernels cfg) tokInit is 4).precond = some [2, 0] ∧
    (stateAt (dsStep tokKernels cfg) tokInit is 6).precond = some [2, 0] ∧
    (stateAt (dsStep tokKernels cfg) tokInit is 7).precond = some [6, 4, 2, 0] := by
  decide

/-- a scheduled interval that really moves: start 4, end 40, decay ½ gives ⌊24/10⌋·10 = 20, decay 1 gives 1 -/
example : scheduledInterval 4 40 (1/2) = 20 ∧ scheduledInterval 4 40 1 = 1 ∧ scheduledInterval 4 40 3 = 1 := by
  decide +kernel

/-- warm-up hypotheses are satisfiable on both sides of the boundary -/
example : (runShampoo 2 1 : Rat) = 0 ∧ (runShampoo 2 2 : Rat) = 1 := by decide +kernel

end PrecondVerif.C04
