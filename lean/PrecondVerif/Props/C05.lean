/-
C05 — grafting: warm-up uses the graft step, afterwards only its norm is transplanted.

Part A states the identities in ANY real normed space `E` (hence every dimension, and every representation of
the preconditioner: only `‖·‖` and `•` of the preconditioned gradient enter). The definitions `dsShampooG`,
`dsPrecondGrad`, `tfMaybeGraftG` are the ones the driver executes (instantiated there at flat lists).

Part B states them for the executable list model `dsTransform` / `tfMaybeGraft` themselves, over every linearly
ordered field with a square-root function meeting `SqrtSpec` (at ℝ: `Real.sqrt`, no residual hypothesis), for
every vector length, step, start step and configuration.

It also characterises the exclusion predicates (`ds_skip_iff`, `tearfree_mask_iff`) and the composed one-leaf Tearfree
update `tfTransform` the driver folds over a history (`tearfree_transform_list`).

Part C / C': closed forms of the graft accumulators and of every closed-form graft step of Distributed Shampoo (AdaGrad,
RMSProp, their normalised variants, SQRT_N, RMSProp with `clip_by_scaled_gradient_norm`) by induction over the gradient
history, and the accumulator the driver's fold carries (`graft_accumulator_history`).

Part D: the wrapper around an OPAQUE graft step `s` (`dsApplyGraft`, `tfApplyGraft`: the definitions `dsTransform` /
`tfTransform` are built from): for ANY vector `s` the pre-start / excluded update is `s`, the post-start update is
`(‖s‖/(‖p‖+ε))·p` — this is what covers optax's ADAFACTOR, which stays opaque.

Gap (stated, not hidden): after the start step the norm of a Distributed Shampoo update is
`‖graft‖·‖p‖/(‖p‖+ε)` with `ε = _EPSILON = 1e-25`, i.e. strictly below `‖graft‖` (`ds_graft_norm_strict`);
floating-point rounding of norms is outside these exact-arithmetic theorems (checked by the harness with a
tolerance).
-/
import PrecondVerif.Lemmas.Graft
import Mathlib.Analysis.InnerProductSpace.PiL2

set_option linter.unusedSectionVars false

namespace PrecondVerif.C05
open PrecondVerif.Graft

/-! ## Part A — any real normed space -/
section Normed
variable {E : Type} [NormedAddCommGroup E] [NormedSpace ℝ E]

/-- After the start step the update is a non-negative multiple of the preconditioned gradient. -/
theorem ds_graft_direction (ε : ℝ) (hε : 0 ≤ ε) (graft p : E) :
    dsShampooG (normedOps E) ε graft p = (‖graft‖ / (‖p‖ + ε)) • p ∧ 0 ≤ ‖graft‖ / (‖p‖ + ε) :=
  ⟨rfl, dsMultiplier_nonneg hε (norm_nonneg graft) (norm_nonneg p)⟩

/-- Its norm is the graft norm up to the exact `ε` term. -/
theorem ds_graft_norm (ε : ℝ) (hε : 0 ≤ ε) (graft p : E) :
    ‖dsShampooG (normedOps E) ε graft p‖ = ‖graft‖ * ‖p‖ / (‖p‖ + ε) :=
  dsShampooG_nrm (normedOps_normLike E) hε graft p

/-- `0 ≤ ‖graft‖ − ‖upd‖ ≤ ‖graft‖·ε/‖p‖` for `p ≠ 0`. -/
theorem ds_graft_norm_gap (ε : ℝ) (hε : 0 < ε) (graft p : E) (hp : p ≠ 0) :
    0 ≤ ‖graft‖ - ‖dsShampooG (normedOps E) ε graft p‖ ∧
      ‖graft‖ - ‖dsShampooG (normedOps E) ε graft p‖ ≤ ‖graft‖ * ε / ‖p‖ := by
  rw [ds_graft_norm ε hε.le]
  exact ⟨ds_gap_nonneg (norm_nonneg graft) (norm_nonneg p) hε,
    ds_gap_le (norm_nonneg graft) (norm_pos_iff.mpr hp) hε⟩

/-- The slack is real: with `ε > 0` the transplanted norm is strictly smaller than the graft norm. -/
theorem ds_graft_norm_strict (ε : ℝ) (hε : 0 < ε) (graft p : E) (hg : graft ≠ 0) :
    ‖dsShampooG (normedOps E) ε graft p‖ < ‖graft‖ := by
  rw [ds_graft_norm ε hε.le]
  have hG : 0 < ‖graft‖ := norm_pos_iff.mpr hg
  have hP : 0 ≤ ‖p‖ := norm_nonneg p
  rw [div_lt_iff₀ (by positivity)]
  nlinarith

/-- Zero preconditioned gradient ⇒ zero update. -/
theorem ds_graft_zero (ε : ℝ) (graft : E) : dsShampooG (normedOps E) ε graft (0 : E) = 0 := by
  show (_ : ℝ) • (0 : E) = 0
  exact smul_zero _

/-- A parameter excluded from preconditioning gets (a multiple `‖g‖/(‖g‖+ε)` of) the graft step itself. -/
theorem ds_skipped_is_graft (ε : ℝ) (graft precond : E) :
    dsShampooG (normedOps E) ε graft (dsPrecondGrad true graft precond)
      = (‖graft‖ / (‖graft‖ + ε)) • graft := rfl

/-- Tearfree: exact norm transplant when the base update is non-zero, zero update when it is zero,
the graft update itself before the start step and for masked leaves. -/
theorem tearfree_graft_exact (count start : Nat) (g b : E) :
    (start ≤ count → b ≠ 0 → ‖tfMaybeGraftG (normedOps E) count start false g b‖ = ‖g‖) ∧
    (start ≤ count → b ≠ 0 →
        tfMaybeGraftG (normedOps E) count start false g b = (‖g‖ / ‖b‖) • b ∧ 0 ≤ ‖g‖ / ‖b‖) ∧
    (start ≤ count → b = 0 → tfMaybeGraftG (normedOps E) count start false g b = 0) ∧
    (count < start → ∀ masked, tfMaybeGraftG (normedOps E) count start masked g b = g) ∧
    tfMaybeGraftG (normedOps E) count start true g b = g := by
  refine ⟨?_, ?_, ?_, ?_, ?_⟩
  · intro hc hb
    exact tfMaybeGraftG_nrm (normedOps_normLike E) hc g b (norm_pos_iff.mpr hb)
  · intro hc hb
    have hpos : 0 < ‖b‖ := norm_pos_iff.mpr hb
    refine ⟨?_, div_nonneg (norm_nonneg g) hpos.le⟩
    unfold tfMaybeGraftG
    simp only [Bool.false_eq_true, if_false, if_pos hc]
    show tfMultiplier ‖g‖ ‖b‖ • b = _
    rw [tfMultiplier_pos hpos]
  · intro hc hb
    have h0 : (normedOps E).nrm b = 0 := by show ‖b‖ = 0; rw [hb, norm_zero]
    rw [tfMaybeGraftG_null (normedOps_normLike E) hc g b h0, hb]
  · intro hc masked
    exact tfMaybeGraftG_warmup count start masked hc g b
  · exact tfMaybeGraftG_masked count start g b

end Normed

/-! Non-vacuity: every dimension `n`, Euclidean norm. -/
example (n : ℕ) (graft p : EuclideanSpace ℝ (Fin n)) (hp : p ≠ 0) :
    0 ≤ ‖graft‖ - ‖dsShampooG (normedOps _) (1e-25 : ℝ) graft p‖ ∧
      ‖graft‖ - ‖dsShampooG (normedOps _) (1e-25 : ℝ) graft p‖ ≤ ‖graft‖ * 1e-25 / ‖p‖ :=
  ds_graft_norm_gap _ (by norm_num) graft p hp

example : ‖dsShampooG (normedOps ℝ) (1 : ℝ) (3 : ℝ) (4 : ℝ)‖ = 12 / 5 := by
  rw [ds_graft_norm 1 (by norm_num)]; norm_num

example : ‖tfMaybeGraftG (normedOps ℝ) 5 2 false (3 : ℝ) (-4 : ℝ)‖ = 3 := by
  have h := (tearfree_graft_exact 5 2 (3 : ℝ) (-4 : ℝ)).1 (by norm_num) (by norm_num)
  simpa using h

/-! ## Part B — the executable list model -/
section ListModel
variable {α : Type} [Field α] [LinearOrder α] [IsStrictOrderedRing α]

/-- Direction, list model: `upd = p * c` with `c = ‖graft‖/(‖p‖+ε) ≥ 0`. -/
theorem ds_graft_direction_list {sqrt : α → α} (hs : SqrtSpec sqrt) (ε : α) (hε : 0 ≤ ε)
    (graft p : List α) :
    dsShampooG (listOps sqrt) ε graft p = scale (norm sqrt graft / (norm sqrt p + ε)) p ∧
      0 ≤ norm sqrt graft / (norm sqrt p + ε) :=
  ⟨rfl, dsMultiplier_nonneg hε (norm_nonneg' hs graft) (norm_nonneg' hs p)⟩

/-- Norm, list model, with the gap bounds and the zero case. -/
theorem ds_graft_norm_list {sqrt : α → α} (hs : SqrtSpec sqrt) (ε : α) (hε : 0 < ε)
    (graft p : List α) :
    norm sqrt (dsShampooG (listOps sqrt) ε graft p)
        = norm sqrt graft * norm sqrt p / (norm sqrt p + ε) ∧
    0 ≤ norm sqrt graft - norm sqrt (dsShampooG (listOps sqrt) ε graft p) ∧
    (0 < norm sqrt p →
      norm sqrt graft - norm sqrt (dsShampooG (listOps sqrt) ε graft p)
        ≤ norm sqrt graft * ε / norm sqrt p) ∧
    ((∀ x ∈ p, x = 0) → dsShampooG (listOps sqrt) ε graft p = p) := by
  have hN := listOps_normLike hs
  have h1 : norm sqrt (dsShampooG (listOps sqrt) ε graft p)
      = norm sqrt graft * norm sqrt p / (norm sqrt p + ε) := dsShampooG_nrm hN hε.le graft p
  refine ⟨h1, ?_, ?_, ?_⟩
  · rw [h1]; exact ds_gap_nonneg (norm_nonneg' hs graft) (norm_nonneg' hs p) hε
  · intro hp; rw [h1]; exact ds_gap_le (norm_nonneg' hs graft) hp hε
  · intro hz
    exact dsShampooG_null hN ε graft p ((norm_eq_zero_iff hs p).mpr hz)

/-- Before the start step the update of `_transform_grad` is the graft step (times the `lr` factors),
whatever the preconditioned gradient, the skip flag and the square-root function are. -/
theorem ds_transform_warmup (sqrt : α → α) (nc : Nat → α) (c : DSConfig α) (step : Nat)
    (skip : Bool) (g acc precond : List α) (hacc : acc.length = g.length)
    (hp : precond.length = g.length) (hw : step < c.start) :
    (dsTransform sqrt nc c step skip g acc precond).1
      = finalScale (momentumMultiplier c)
          (scale (precondMultiplier c) (dsGraftStep sqrt nc c g acc).1) := by
  have hr : runShampoo (α := α) step c.start = 0 := by
    unfold runShampoo; rw [if_neg (Nat.not_le.mpr hw)]
  have hgl : (scale (precondMultiplier c) (dsGraftStep sqrt nc c g acc).1).length = g.length := by
    rw [scale_length, dsGraftStep_length _ _ _ _ _ hacc]
  simp only [dsTransform, dsApplyGraft, hr]
  rw [blend_zero]
  rw [dsShampooUpdate_length]
  cases skip
  · simp only [dsPrecondGrad, Bool.false_eq_true, if_false]; rw [hgl, hp]
  · simp only [dsPrecondGrad, if_true]; exact le_refl _

/-- From the start step on, for a preconditioned parameter and a grafting type other than NONE, the update is
`-(mm·m)` times the preconditioned gradient with `m = ‖graft‖/(‖p‖+ε) ≥ 0`, and its norm is
`|mm|·‖graft‖·‖p‖/(‖p‖+ε)` where `graft` is the (lr-coupled) graft step. -/
theorem ds_transform_after_start {sqrt : α → α} (hs : SqrtSpec sqrt) (nc : Nat → α) (c : DSConfig α)
    (step : Nat) (g acc precond : List α) (hacc : acc.length = g.length)
    (hp : precond.length = g.length) (hstart : c.start ≤ step) (ht : c.graftType ≠ .none)
    (hε : 0 ≤ c.eps) :
    let graft := scale (precondMultiplier c) (dsGraftStep sqrt nc c g acc).1
    let m := norm sqrt graft / (norm sqrt precond + c.eps)
    (dsTransform sqrt nc c step false g acc precond).1
        = scale (-(momentumMultiplier c * m)) precond ∧
      0 ≤ m ∧
      norm sqrt (dsTransform sqrt nc c step false g acc precond).1
        = |momentumMultiplier c| * (norm sqrt graft * norm sqrt precond / (norm sqrt precond + c.eps)) := by
  intro graft m
  have hr : runShampoo (α := α) step c.start = 1 := by
    unfold runShampoo; rw [if_pos hstart]
  have hgl : graft.length = g.length := by
    show (scale _ _).length = _
    rw [scale_length, dsGraftStep_length _ _ _ _ _ hacc]
  have hm : 0 ≤ m := dsMultiplier_nonneg hε (norm_nonneg' hs graft) (norm_nonneg' hs precond)
  have hout : (dsTransform sqrt nc c step false g acc precond).1
      = scale (-(momentumMultiplier c * m)) precond := by
    simp only [dsTransform, dsApplyGraft, hr, dsPrecondGrad, Bool.false_eq_true, if_false]
    rw [blend_one _ _ (by rw [dsShampooUpdate_length, hp]; exact hgl.ge)]
    unfold dsShampooUpdate
    rw [if_neg ht]
    exact finalScale_scale _ _ _
  refine ⟨hout, hm, ?_⟩
  rw [hout, norm_scale hs, abs_neg, abs_mul, abs_of_nonneg hm]
  show _ = |momentumMultiplier c| * (norm sqrt graft * norm sqrt precond / (norm sqrt precond + c.eps))
  show |momentumMultiplier c| * (norm sqrt graft / (norm sqrt precond + c.eps)) * norm sqrt precond = _
  ring

/-- A parameter excluded from preconditioning: from the start step on the update is the (lr-coupled) graft step
scaled by `-(mm·‖graft‖/(‖graft‖+ε))`; before it `ds_transform_warmup` applies. -/
theorem ds_skipped_is_graft_list (sqrt : α → α) (nc : Nat → α) (c : DSConfig α)
    (step : Nat) (g acc precond : List α)
    (hstart : c.start ≤ step) (ht : c.graftType ≠ .none) :
    let graft := scale (precondMultiplier c) (dsGraftStep sqrt nc c g acc).1
    (dsTransform sqrt nc c step true g acc precond).1
      = scale (-(momentumMultiplier c * (norm sqrt graft / (norm sqrt graft + c.eps)))) graft := by
  intro graft
  have hr : runShampoo (α := α) step c.start = 1 := by
    unfold runShampoo; rw [if_pos hstart]
  simp only [dsTransform, dsApplyGraft, hr, dsPrecondGrad, if_true]
  rw [blend_one _ _ (by rw [dsShampooUpdate_length])]
  unfold dsShampooUpdate
  rw [if_neg ht]
  exact finalScale_scale _ _ _

omit [LinearOrder α] [IsStrictOrderedRing α] in
/-- The two `lr` factors always multiply to `lr`: the norm of the update is `lr` times the norm of the graft
optimizer's own step in both the coupled and the decoupled mode. -/
theorem ds_lr_factors (c : DSConfig α) : momentumMultiplier c * precondMultiplier c = c.lr := by
  unfold momentumMultiplier precondMultiplier
  cases c.decoupledLr <;> simp

/-- Tearfree, list model. -/
theorem tearfree_graft_exact_list {sqrt : α → α} (hs : SqrtSpec sqrt) (count start : Nat)
    (g b : List α) :
    (start ≤ count → 0 < norm sqrt b →
        norm sqrt (tfMaybeGraft sqrt count start false g b) = norm sqrt g) ∧
    (start ≤ count → (∀ x ∈ b, x = 0) → tfMaybeGraft sqrt count start false g b = b) ∧
    (count < start → ∀ masked, tfMaybeGraft sqrt count start masked g b = g) ∧
    tfMaybeGraft sqrt count start true g b = g := by
  have hN := listOps_normLike hs
  refine ⟨?_, ?_, ?_, ?_⟩
  · intro hc hb; exact tfMaybeGraftG_nrm hN hc g b hb
  · intro hc hz
    exact tfMaybeGraftG_null hN hc g b ((norm_eq_zero_iff hs b).mpr hz)
  · intro hc masked; exact tfMaybeGraftG_warmup count start masked hc g b
  · exact tfMaybeGraftG_masked count start g b

/-- The executable one-leaf Tearfree update (`tfTransform`, momentum and weight decay off): before the start step
and for masked leaves it is `-lr` times the graft optimizer's step; from the start step on, for an unmasked leaf
with non-zero second-order update `b`, it is a multiple of `b` whose norm is `|lr|` times the graft step's norm;
and it is the zero vector (`b` itself scaled) when `b` is zero. -/
theorem tearfree_transform_list {sqrt : α → α} (hs : SqrtSpec sqrt) (gt : TFGraftType) (decay eps lr : α)
    (count start : Nat) (g acc b : List α) :
    let gs := (tfGraftStep sqrt gt decay eps acc g).1
    (count < start → ∀ masked, (tfTransform sqrt gt decay eps lr count start masked g acc b).1 = tfFinal lr gs) ∧
    (tfTransform sqrt gt decay eps lr count start true g acc b).1 = tfFinal lr gs ∧
    (start ≤ count → 0 < norm sqrt b →
      norm sqrt (tfTransform sqrt gt decay eps lr count start false g acc b).1 = |lr| * norm sqrt gs ∧
      (tfTransform sqrt gt decay eps lr count start false g acc b).1
        = scale (-(lr * (norm sqrt gs / norm sqrt b))) b) ∧
    (start ≤ count → (∀ x ∈ b, x = 0) →
      (tfTransform sqrt gt decay eps lr count start false g acc b).1 = b) := by
  intro gs
  have hfin : ∀ v : List α, tfFinal lr v = scale (-1 * lr) v := fun v => rfl
  refine ⟨?_, ?_, ?_, ?_⟩
  · intro hc masked
    show tfFinal lr (tfMaybeGraft sqrt count start masked gs b) = _
    rw [(tearfree_graft_exact_list hs count start gs b).2.2.1 hc masked]
  · show tfFinal lr (tfMaybeGraft sqrt count start true gs b) = _
    rw [(tearfree_graft_exact_list hs count start gs b).2.2.2]
  · intro hc hb
    constructor
    · show norm sqrt (tfFinal lr (tfMaybeGraft sqrt count start false gs b)) = _
      rw [hfin, norm_scale hs, (tearfree_graft_exact_list hs count start gs b).1 hc hb]
      simp
    · show tfFinal lr (tfMaybeGraft sqrt count start false gs b) = _
      unfold tfMaybeGraft tfMaybeGraftG
      simp only [Bool.false_eq_true, if_false, if_pos hc]
      show tfFinal lr (scale (tfMultiplier (norm sqrt gs) (norm sqrt b)) b) = _
      rw [tfMultiplier_pos hb]
      unfold tfFinal scale
      rw [List.map_map]
      apply List.map_congr_left
      intro x _
      simp only [Function.comp]
      ring
  · intro hc hz
    show tfFinal lr (tfMaybeGraft sqrt count start false gs b) = _
    rw [(tearfree_graft_exact_list hs count start gs b).2.1 hc hz, hfin]
    exact scale_of_all_zero _ hz

end ListModel

/-! Non-vacuity at ℝ with `Real.sqrt`: no residual hypothesis. -/
example (c : DSConfig ℝ) (nc : Nat → ℝ) (step : Nat) (g acc precond : List ℝ)
    (hacc : acc.length = g.length) (hp : precond.length = g.length) (hstart : c.start ≤ step)
    (ht : c.graftType ≠ .none) (hε : 0 ≤ c.eps) :
    0 ≤ norm Real.sqrt (scale (precondMultiplier c) (dsGraftStep Real.sqrt nc c g acc).1)
          / (norm Real.sqrt precond + c.eps) :=
  (ds_transform_after_start realSqrtSpec nc c step g acc precond hacc hp hstart ht hε).2.1

example : ∃ c : DSConfig ℝ, c.graftType ≠ .none ∧ 0 ≤ c.eps ∧ c.start ≤ 3 :=
  ⟨⟨.adagrad, 1, 1e-10, 1e-25, 1/2, true, none, 2⟩, by decide, by norm_num, by norm_num⟩

/-- `_skip_preconditioning`: exactly the parameters of rank below the threshold or with a dimension above the limit. -/
theorem ds_skip_iff (rankLt dimGt : Nat) (shape : List Nat) :
    dsSkip rankLt dimGt shape = true ↔ shape.length < rankLt ∨ ∃ s ∈ shape, dimGt < s := by
  simp [dsSkip, List.any_eq_true]

/-- Tearfree `_mask_skipped`. -/
theorem tearfree_mask_iff (rank1 : Bool) (anyDimGt : Nat) (shape : List Nat) :
    tfMaskSkipped rank1 anyDimGt shape = true ↔
      (rank1 = true ∧ shape.length ≤ 1) ∨ ∃ s ∈ shape, anyDimGt < s := by
  simp [tfMaskSkipped, List.any_eq_true]

example : dsSkip 2 4096 [5] = true ∧ dsSkip 1 4096 [5] = false ∧ dsSkip 1 8 [9, 4] = true ∧
    tfMaskSkipped true 4096 [5] = true ∧ tfMaskSkipped false 4096 [5] = false ∧ tfMaskSkipped false 5 [6, 2] = true := by
  decide

/-- Non-vacuity of `tearfree_transform_list` at ℝ: SGD graft `g = (3,4)`, second-order update `b = (0,-2)`, `lr = 1/2`:
the update has norm `|lr|·‖g‖`. -/
example : norm Real.sqrt (tfTransform Real.sqrt .sgd (0 : ℝ) 0 (1 / 2) 3 1 false [3, 4] [0, 0] [0, -2]).1
    = |(1 / 2 : ℝ)| * norm Real.sqrt [3, 4] := by
  have hb : 0 < norm Real.sqrt [(0 : ℝ), -2] := by
    have h0 := norm_nonneg' realSqrtSpec [(0 : ℝ), -2]
    rcases h0.lt_or_eq with h | h
    · exact h
    · have := (norm_eq_zero_iff realSqrtSpec [(0 : ℝ), -2]).mp h.symm (-2) (by simp)
      norm_num at this
  exact ((tearfree_transform_list realSqrtSpec .sgd (0 : ℝ) 0 (1 / 2) 3 1 [3, 4] [0, 0] [0, -2]).2.2.1
    (by norm_num) hb).1

/-! ## Part C — accumulator closed forms (every history length, every coordinate) -/
section Closed
variable {α : Type} [Field α]

/-- RMSProp-style accumulator of Distributed Shampoo after the history `hist` (oldest first), coordinate `i`:
`β^T·a₀ + w₂·Σ_{k<T} β^(T-1-k)·g_k[i]²`. -/
theorem rmsprop_acc_closed_form (β w2 : α) (i : Nat) (hist : List (List α)) (acc0 : List α) (a0 : α)
    (h0 : acc0[i]? = some a0) (hl : ∀ g ∈ hist, i < g.length) :
    (accRun β w2 acc0 hist)[i]? = some
      (β ^ hist.length * a0
        + w2 * ∑ k ∈ Finset.range hist.length,
            β ^ (hist.length - 1 - k) * ((hist.getD k []).getD i 0) ^ 2) := by
  rw [accRun_getElem? β w2 i hist acc0 a0 h0 hl, accRun1_closed]
  simp only [List.length_map]
  congr 2
  apply congrArg
  apply Finset.sum_congr rfl
  intro k hk
  have hk' : k < hist.length := Finset.mem_range.mp hk
  congr 2
  rw [List.getD_eq_getElem?_getD, List.getD_eq_getElem?_getD, List.getElem?_map,
    List.getElem?_eq_getElem hk']
  simp [List.getElem?_eq_getElem hk']

/-- AdaGrad accumulator: `a₀ + Σ_k g_k[i]²`. -/
theorem adagrad_acc_closed_form (i : Nat) (hist : List (List α)) (acc0 : List α) (a0 : α)
    (h0 : acc0[i]? = some a0) (hl : ∀ g ∈ hist, i < g.length) :
    (accRun 1 1 acc0 hist)[i]? = some
      (a0 + ∑ k ∈ Finset.range hist.length, ((hist.getD k []).getD i 0) ^ 2) := by
  rw [rmsprop_acc_closed_form 1 1 i hist acc0 a0 h0 hl]
  simp

/-- Tearfree RMSProp accumulator (its own operation order) has the same closed form with
`w₂ = 1` for `decay = 1` and `1 - decay` otherwise. -/
theorem tearfree_rmsprop_acc_closed_form [DecidableEq α] (decay : α) (i : Nat)
    (hist : List (List α)) (acc0 : List α) (a0 : α)
    (h0 : acc0[i]? = some a0) (hl : ∀ g ∈ hist, i < g.length) :
    (tfAccRun decay acc0 hist)[i]? = some
      (decay ^ hist.length * a0
        + dsW2 decay * ∑ k ∈ Finset.range hist.length,
            decay ^ (hist.length - 1 - k) * ((hist.getD k []).getD i 0) ^ 2) := by
  rw [tfAccRun_eq]
  exact rmsprop_acc_closed_form decay (dsW2 decay) i hist acc0 a0 h0 hl

end Closed

/-- Closed form of the AdaGrad graft step of Distributed Shampoo after the history `hist` followed by the
current gradient `g`, coordinate `i`: `g[i] / (sqrt(a₀ + Σ_k g_k[i]²) + diagonal_epsilon)`. -/
theorem adagrad_step_closed_form {α : Type} [Field α] [LinearOrder α] [IsStrictOrderedRing α]
    (sqrt : α → α) (nc : Nat → α) (c : DSConfig α) (hc : c.graftType = .adagrad) (i : Nat)
    (hist : List (List α)) (g acc0 : List α) (a0 : α) (h0 : acc0[i]? = some a0)
    (hl : ∀ g' ∈ hist ++ [g], i < g'.length) :
    (dsGraftStep sqrt nc c g (accRun 1 1 acc0 hist)).1[i]? = some
      (g.getD i 0 /
        (sqrt (a0 + ∑ k ∈ Finset.range (hist ++ [g]).length,
            (((hist ++ [g]).getD k []).getD i 0) ^ 2) + c.diagEps)) := by
  have hacc : accStep 1 1 (accRun 1 1 acc0 hist) g = accRun 1 1 acc0 (hist ++ [g]) := by
    simp [accRun, List.foldl_append]
  have hi : i < g.length := hl g (by simp)
  have hx : g[i]? = some (g.getD i 0) := by
    rw [List.getD_eq_getElem?_getD, List.getElem?_eq_getElem hi]; simp
  unfold dsGraftStep
  rw [hc]
  simp only [hacc, diagStep]
  rw [List.getElem?_zipWith, hx, adagrad_acc_closed_form i (hist ++ [g]) acc0 a0 h0 hl]

/-- Closed form of the RMSProp graft step of Distributed Shampoo (no clipping) after the history `hist` followed by the
current gradient `g`, coordinate `i`: `g[i] / (sqrt(β^T·a₀ + w₂·Σ_k β^(T-1-k)·g_k[i]²) + diagonal_epsilon)` with
`w₂ = dsW2 β` (`1` for `β = 1`, else `1 - β`). -/
theorem rmsprop_step_closed_form {α : Type} [Field α] [LinearOrder α] [IsStrictOrderedRing α]
    (sqrt : α → α) (nc : Nat → α) (c : DSConfig α) (hc : c.graftType = .rmsprop) (hcl : c.clip = none) (i : Nat)
    (hist : List (List α)) (g acc0 : List α) (a0 : α) (h0 : acc0[i]? = some a0)
    (hl : ∀ g' ∈ hist ++ [g], i < g'.length) :
    (dsGraftStep sqrt nc c g (accRun c.beta2 (dsW2 c.beta2) acc0 hist)).1[i]? = some
      (g.getD i 0 /
        (sqrt (c.beta2 ^ (hist ++ [g]).length * a0
          + dsW2 c.beta2 * ∑ k ∈ Finset.range (hist ++ [g]).length,
              c.beta2 ^ ((hist ++ [g]).length - 1 - k) * (((hist ++ [g]).getD k []).getD i 0) ^ 2)
          + c.diagEps)) := by
  have hacc : accStep c.beta2 (dsW2 c.beta2) (accRun c.beta2 (dsW2 c.beta2) acc0 hist) g
      = accRun c.beta2 (dsW2 c.beta2) acc0 (hist ++ [g]) := by
    simp [accRun, List.foldl_append]
  have hi : i < g.length := hl g (by simp)
  have hx : g[i]? = some (g.getD i 0) := by
    rw [List.getD_eq_getElem?_getD, List.getElem?_eq_getElem hi]; simp
  unfold dsGraftStep
  rw [hc]
  simp only [hacc, diagStep, hcl]
  rw [List.getElem?_zipWith, hx,
    rmsprop_acc_closed_form c.beta2 (dsW2 c.beta2) i (hist ++ [g]) acc0 a0 h0 hl]

example : (accRun (1 : ℚ) 1 [0, 0] [[1, 2], [3, 4]])[1]? = some (0 + (2 ^ 2 + 4 ^ 2)) := by
  rw [adagrad_acc_closed_form 1 [[1, 2], [3, 4]] [0, 0] 0 rfl (by decide)]
  simp [Finset.sum_range_succ]

/-! ## Part C' — the remaining closed-form graft steps: normalised variants, SQRT_N, clipped RMSProp -/
section Variants
variable {α : Type} [Field α] [LinearOrder α] [IsStrictOrderedRing α]

/-- ADAGRAD_NORMALIZED: every gradient is divided by (its norm + `_EPSILON`) BEFORE it enters the accumulator; the step
after the history `hist` followed by `g`, coordinate `i`, is
`(g[i]/(‖g‖+ε)) / (sqrt(a₀ + Σ_k (g_k[i]/(‖g_k‖+ε))²) + diagonal_epsilon)`. -/
theorem adagrad_normalized_step_closed_form (sqrt : α → α) (nc : Nat → α) (c : DSConfig α)
    (hc : c.graftType = .adagradNormalized) (i : Nat)
    (hist : List (List α)) (g acc0 : List α) (a0 : α) (h0 : acc0[i]? = some a0)
    (hl : ∀ g' ∈ hist ++ [g], i < g'.length) :
    (dsGraftStep sqrt nc c g (accRun 1 1 acc0 (hist.map (normalize sqrt c.eps)))).1[i]? = some
      (g.getD i 0 / (norm sqrt g + c.eps) /
        (sqrt (a0 + ∑ k ∈ Finset.range (hist ++ [g]).length,
            (((hist ++ [g]).getD k []).getD i 0 / (norm sqrt ((hist ++ [g]).getD k []) + c.eps)) ^ 2)
          + c.diagEps)) := by
  rw [dsGraftStep_adagradNormalized sqrt nc c hc]
  have hl' : ∀ g' ∈ hist.map (normalize sqrt c.eps) ++ [normalize sqrt c.eps g], i < g'.length := by
    intro g' hg'
    rw [← List.map_singleton (f := normalize sqrt c.eps), ← List.map_append] at hg'
    obtain ⟨g'', hg'', rfl⟩ := List.mem_map.mp hg'
    rw [normalize_length]; exact hl g'' hg''
  have h := adagrad_step_closed_form sqrt nc { c with graftType := .adagrad } rfl i
    (hist.map (normalize sqrt c.eps)) (normalize sqrt c.eps g) acc0 a0 h0 hl'
  rw [h]
  have hm : hist.map (normalize sqrt c.eps) ++ [normalize sqrt c.eps g]
      = (hist ++ [g]).map (normalize sqrt c.eps) := by simp
  simp only [hm, List.length_map, map_normalize_getD, normalize_getD]

/-- RMSPROP_NORMALIZED (no clipping): the same with the decayed accumulator. -/
theorem rmsprop_normalized_step_closed_form (sqrt : α → α) (nc : Nat → α) (c : DSConfig α)
    (hc : c.graftType = .rmspropNormalized) (hcl : c.clip = none) (i : Nat)
    (hist : List (List α)) (g acc0 : List α) (a0 : α) (h0 : acc0[i]? = some a0)
    (hl : ∀ g' ∈ hist ++ [g], i < g'.length) :
    (dsGraftStep sqrt nc c g
        (accRun c.beta2 (dsW2 c.beta2) acc0 (hist.map (normalize sqrt c.eps)))).1[i]? = some
      (g.getD i 0 / (norm sqrt g + c.eps) /
        (sqrt (c.beta2 ^ (hist ++ [g]).length * a0
          + dsW2 c.beta2 * ∑ k ∈ Finset.range (hist ++ [g]).length,
              c.beta2 ^ ((hist ++ [g]).length - 1 - k) *
                (((hist ++ [g]).getD k []).getD i 0 / (norm sqrt ((hist ++ [g]).getD k []) + c.eps)) ^ 2)
          + c.diagEps)) := by
  rw [dsGraftStep_rmspropNormalized sqrt nc c hc]
  have hl' : ∀ g' ∈ hist.map (normalize sqrt c.eps) ++ [normalize sqrt c.eps g], i < g'.length := by
    intro g' hg'
    rw [← List.map_singleton (f := normalize sqrt c.eps), ← List.map_append] at hg'
    obtain ⟨g'', hg'', rfl⟩ := List.mem_map.mp hg'
    rw [normalize_length]; exact hl g'' hg''
  have h := rmsprop_step_closed_form sqrt nc { c with graftType := .rmsprop } rfl hcl i
    (hist.map (normalize sqrt c.eps)) (normalize sqrt c.eps g) acc0 a0 h0 hl'
  rw [h]
  have hm : hist.map (normalize sqrt c.eps) ++ [normalize sqrt c.eps g]
      = (hist ++ [g]).map (normalize sqrt c.eps) := by simp
  simp only [hm, List.length_map, map_normalize_getD, normalize_getD]

/-- SQRT_N (`jnp.ones_like(g) * jnp.sign(g)`): the step is the sign vector whatever the history, the accumulator is
untouched, and when no coordinate of `g` is zero its norm is `sqrt(n)` — hence the name. -/
theorem sqrt_n_step_closed_form (sqrt : α → α) (nc : Nat → α) (c : DSConfig α)
    (hc : c.graftType = .sqrtN) (g acc : List α) :
    (dsGraftStep sqrt nc c g acc).1 = g.map (fun x => 1 * sgn x) ∧
    (dsGraftStep sqrt nc c g acc).2 = acc ∧
    (∀ i, i < g.length → (dsGraftStep sqrt nc c g acc).1[i]? = some (sgn (g.getD i 0))) ∧
    ((∀ x ∈ g, x ≠ 0) → norm sqrt (dsGraftStep sqrt nc c g acc).1 = sqrt (g.length : α)) := by
  have h1 : (dsGraftStep sqrt nc c g acc).1 = g.map (fun x => 1 * sgn x) := by
    unfold dsGraftStep; rw [hc]
  have h2 : (dsGraftStep sqrt nc c g acc).2 = acc := by
    unfold dsGraftStep; rw [hc]
  refine ⟨h1, h2, ?_, ?_⟩
  · intro i hi
    rw [h1, List.getElem?_map, List.getElem?_eq_getElem hi, List.getD_eq_getElem?_getD,
      List.getElem?_eq_getElem hi]
    simp
  · intro hnz
    rw [h1]; unfold Graft.norm; rw [sumSq_map_sgn g hnz]

/-- Clipped RMSProp (`clip_by_scaled_gradient_norm = cl`), plain or normalised: the unclipped step `u` (closed forms
`rmsprop_step_closed_form` / `rmsprop_normalized_step_closed_form` for the configuration with `clip := none`) divided by
`max(1, (‖u‖ / sqrt(n)) / cl)`, `n` the number of entries; the accumulator is the unclipped one. -/
theorem rmsprop_clipped_step_closed_form (sqrt : α → α) (nc : Nat → α) (c : DSConfig α)
    (hc : c.graftType = .rmsprop ∨ c.graftType = .rmspropNormalized) (cl : α) (hcl : c.clip = some cl)
    (g acc : List α) :
    let u := (dsGraftStep sqrt nc { c with clip := none } g acc).1
    let d := max 1 (norm sqrt u / sqrt (nc u.length) / cl)
    (dsGraftStep sqrt nc c g acc).1 = scale (1 / d) u ∧
    (dsGraftStep sqrt nc c g acc).2 = (dsGraftStep sqrt nc { c with clip := none } g acc).2 ∧
    (∀ (i : Nat) (ui : α), u[i]? = some ui → (dsGraftStep sqrt nc c g acc).1[i]? = some (ui / d)) := by
  intro u d
  have h := dsGraftStep_clip sqrt nc c hc cl hcl g acc
  have h1 : (dsGraftStep sqrt nc c g acc).1 = scale (1 / d) u := by
    rw [h]; exact clipScaled_eq_scale sqrt nc cl u
  refine ⟨h1, by rw [h], ?_⟩
  intro i ui hui
  rw [h1]; unfold scale
  rw [List.getElem?_map, hui]
  simp [div_eq_mul_inv]

/-- What the clipping achieves (`SqrtSpec`): the clipped step is the unclipped one when its scaled norm
`‖u‖/sqrt(n)` is at most `cl`, and otherwise its norm is exactly `cl·sqrt(n)`. -/
theorem rmsprop_clip_norm {sqrt : α → α} (hs : SqrtSpec sqrt) (nc : Nat → α) (cl : α) (hcl : 0 < cl)
    (u : List α) (hn : 0 < sqrt (nc u.length)) :
    (norm sqrt u / sqrt (nc u.length) / cl ≤ 1 → clipScaled sqrt nc cl u = u) ∧
    (1 ≤ norm sqrt u / sqrt (nc u.length) / cl →
      norm sqrt (clipScaled sqrt nc cl u) = cl * sqrt (nc u.length)) := by
  constructor
  · intro h
    rw [clipScaled_eq_scale, max_eq_left h]
    unfold scale
    simp
  · intro h
    rw [clipScaled_eq_scale, max_eq_right h, norm_scale hs]
    have hr : 0 < norm sqrt u / sqrt (nc u.length) / cl := lt_of_lt_of_le one_pos h
    have hu : 0 < norm sqrt u := by
      by_contra hneg
      have h0 : norm sqrt u = 0 := le_antisymm (not_lt.mp hneg) (norm_nonneg' hs u)
      rw [h0] at hr; simp at hr
    rw [abs_of_pos (by positivity)]
    field_simp

/-- The graft accumulator the driver carries from step to step (second component of `dsTransform`, i.e. of
`dsGraftStep`) after a whole history is `accRun` over the history of the gradients AS THE GRAFT TYPE SEES THEM:
normalised for the `_NORMALIZED` types; it never moves for SGD / SQRT_N / NONE. Clipping does not enter it. -/
theorem graft_accumulator_history (sqrt : α → α) (nc : Nat → α) (c : DSConfig α) (acc0 : List α)
    (hist : List (List α)) :
    hist.foldl (fun acc g => (dsGraftStep sqrt nc c g acc).2) acc0 =
      match c.graftType with
      | .adagrad => accRun 1 1 acc0 hist
      | .adagradNormalized => accRun 1 1 acc0 (hist.map (normalize sqrt c.eps))
      | .rmsprop => accRun c.beta2 (dsW2 c.beta2) acc0 hist
      | .rmspropNormalized => accRun c.beta2 (dsW2 c.beta2) acc0 (hist.map (normalize sqrt c.eps))
      | _ => acc0 := by
  induction hist generalizing acc0 with
  | nil => cases hg : c.graftType <;> simp [accRun]
  | cons g hist ih =>
    rw [List.foldl_cons, ih]
    cases hg : c.graftType <;> simp [dsGraftStep, hg, accRun]

end Variants

/-! ## Part D — the wrapper around an OPAQUE graft step -/
section Wrapper
variable {α : Type} [Field α] [LinearOrder α] [IsStrictOrderedRing α]

/-- `dsTransform` is the wrapper `dsApplyGraft` around the closed-form step; the wrapper itself never looks inside `s`. -/
theorem ds_transform_is_wrapper (sqrt : α → α) (nc : Nat → α) (c : DSConfig α) (step : Nat) (skip : Bool)
    (g acc precond : List α) :
    (dsTransform sqrt nc c step skip g acc precond).1
      = dsApplyGraft sqrt c step skip (dsGraftStep sqrt nc c g acc).1 precond := rfl

/-- Distributed Shampoo, ANY graft step vector `s` (opaque: nothing is assumed about how it was computed):
before the start step the update is `s` (times the lr factors) whatever `p` and the skip flag are; from the start step
on, for a preconditioned parameter and a graft type other than NONE, it is `(‖s'‖/(‖p‖+ε))·p` (times `-mm`) with
`s' = pm·s` the lr-coupled step, and its norm is `|mm|·‖s'‖·‖p‖/(‖p‖+ε)`; for an excluded parameter it is
`(‖s'‖/(‖s'‖+ε))·s'`. -/
theorem ds_wrapper_any_graft_step {sqrt : α → α} (hs : SqrtSpec sqrt) (c : DSConfig α) (step : Nat)
    (s precond : List α) (hp : precond.length = s.length) (hε : 0 ≤ c.eps) :
    let s' := scale (precondMultiplier c) s
    (step < c.start → ∀ skip, dsApplyGraft sqrt c step skip s precond = finalScale (momentumMultiplier c) s') ∧
    (c.start ≤ step → c.graftType ≠ .none →
      dsApplyGraft sqrt c step false s precond
        = scale (-(momentumMultiplier c * (norm sqrt s' / (norm sqrt precond + c.eps)))) precond ∧
      0 ≤ norm sqrt s' / (norm sqrt precond + c.eps) ∧
      norm sqrt (dsApplyGraft sqrt c step false s precond)
        = |momentumMultiplier c| * (norm sqrt s' * norm sqrt precond / (norm sqrt precond + c.eps))) ∧
    (c.start ≤ step → c.graftType ≠ .none →
      dsApplyGraft sqrt c step true s precond
        = scale (-(momentumMultiplier c * (norm sqrt s' / (norm sqrt s' + c.eps)))) s') := by
  intro s'
  have hsl : s'.length = s.length := scale_length _ _
  refine ⟨?_, ?_, ?_⟩
  · intro hw skip
    have hr : runShampoo (α := α) step c.start = 0 := by
      unfold runShampoo; rw [if_neg (Nat.not_le.mpr hw)]
    simp only [dsApplyGraft, hr]
    rw [blend_zero]
    rw [dsShampooUpdate_length]
    cases skip
    · simp only [dsPrecondGrad, Bool.false_eq_true, if_false]; rw [scale_length, hp]
    · simp only [dsPrecondGrad, if_true]; exact le_refl _
  · intro hstart ht
    have hr : runShampoo (α := α) step c.start = 1 := by
      unfold runShampoo; rw [if_pos hstart]
    have hm : 0 ≤ norm sqrt s' / (norm sqrt precond + c.eps) :=
      dsMultiplier_nonneg hε (norm_nonneg' hs s') (norm_nonneg' hs precond)
    have hout : dsApplyGraft sqrt c step false s precond
        = scale (-(momentumMultiplier c * (norm sqrt s' / (norm sqrt precond + c.eps)))) precond := by
      simp only [dsApplyGraft, hr, dsPrecondGrad, Bool.false_eq_true, if_false]
      rw [blend_one _ _ (by rw [dsShampooUpdate_length, hp, scale_length])]
      unfold dsShampooUpdate
      rw [if_neg ht]
      exact finalScale_scale _ _ _
    refine ⟨hout, hm, ?_⟩
    rw [hout, norm_scale hs, abs_neg, abs_mul, abs_of_nonneg hm]
    ring
  · intro hstart ht
    have hr : runShampoo (α := α) step c.start = 1 := by
      unfold runShampoo; rw [if_pos hstart]
    simp only [dsApplyGraft, hr, dsPrecondGrad, if_true]
    rw [blend_one _ _ (by rw [dsShampooUpdate_length])]
    unfold dsShampooUpdate
    rw [if_neg ht]
    exact finalScale_scale _ _ _

/-- Tearfree, ANY graft step vector `s` (SGD, RMSProp, or optax's ADAFACTOR — opaque): before the start step and for a
masked leaf the update is `s` (times `-lr`); from the start step on, for an unmasked leaf with non-zero second-order
update `b`, it is `(‖s‖/‖b‖)·b` (times `-lr`) and has norm `|lr|·‖s‖`; it is zero when `b` is zero. -/
theorem tearfree_wrapper_any_graft_step {sqrt : α → α} (hs : SqrtSpec sqrt) (lr : α) (count start : Nat)
    (s b : List α) :
    (count < start → ∀ masked, tfApplyGraft sqrt lr count start masked s b = tfFinal lr s) ∧
    tfApplyGraft sqrt lr count start true s b = tfFinal lr s ∧
    (start ≤ count → 0 < norm sqrt b →
      tfApplyGraft sqrt lr count start false s b = scale (-(lr * (norm sqrt s / norm sqrt b))) b ∧
      norm sqrt (tfApplyGraft sqrt lr count start false s b) = |lr| * norm sqrt s) ∧
    (start ≤ count → (∀ x ∈ b, x = 0) → tfApplyGraft sqrt lr count start false s b = b) := by
  have h := tearfree_transform_list hs .sgd 0 0 lr count start s [] b
  exact ⟨h.1, h.2.1, fun hc hb => ⟨(h.2.2.1 hc hb).2, (h.2.2.1 hc hb).1⟩, h.2.2.2⟩

end Wrapper

/-- The same wrapper statement in ANY real normed space, with the arithmetic selection of the code
(`run·shampoo + (1 - run)·graft`, `run = 1` from the start step on, else `0`) and an arbitrary graft vector `s`. -/
theorem ds_wrapper_any_graft_step_normed {E : Type} [NormedAddCommGroup E] [NormedSpace ℝ E]
    (ε : ℝ) (step start : Nat) (s p : E) :
    let run : ℝ := runShampoo step start
    let upd := fun skip => run • dsShampooG (normedOps E) ε s (dsPrecondGrad skip s p) + (1 - run) • s
    (step < start → ∀ skip, upd skip = s) ∧
    (start ≤ step → upd false = (‖s‖ / (‖p‖ + ε)) • p) ∧
    (start ≤ step → upd true = (‖s‖ / (‖s‖ + ε)) • s) := by
  intro run upd
  refine ⟨?_, ?_, ?_⟩
  · intro h skip
    have hr : run = 0 := by show runShampoo step start = (0 : ℝ); unfold runShampoo; rw [if_neg (Nat.not_le.mpr h)]
    show run • _ + (1 - run) • s = s
    rw [hr]; simp
  · intro h
    have hr : run = 1 := by show runShampoo step start = (1 : ℝ); unfold runShampoo; rw [if_pos h]
    show run • dsShampooG (normedOps E) ε s (dsPrecondGrad false s p) + (1 - run) • s = _
    rw [hr]; simp only [one_smul, sub_self, zero_smul, add_zero]
    rfl
  · intro h
    have hr : run = 1 := by show runShampoo step start = (1 : ℝ); unfold runShampoo; rw [if_pos h]
    show run • dsShampooG (normedOps E) ε s (dsPrecondGrad true s p) + (1 - run) • s = _
    rw [hr]; simp only [one_smul, sub_self, zero_smul, add_zero]
    rfl


/-! Non-vacuity of Parts C' and D at ℚ / ℝ. -/
example : (dsGraftStep (fun x : ℚ => x) (fun n => (n : ℚ))
    ⟨.sqrtN, 1, 0, 0, 1, true, none, 0⟩ [3, -2, 5] [0, 0, 0]).1 = [1, -1, 1] := by decide +kernel

example (c : DSConfig ℝ) (step : Nat) (s precond : List ℝ) (hp : precond.length = s.length) (hε : 0 ≤ c.eps)
    (hstart : c.start ≤ step) (ht : c.graftType ≠ .none) :
    norm Real.sqrt (dsApplyGraft Real.sqrt c step false s precond)
      = |momentumMultiplier c| * (norm Real.sqrt (scale (precondMultiplier c) s) * norm Real.sqrt precond
          / (norm Real.sqrt precond + c.eps)) :=
  ((ds_wrapper_any_graft_step realSqrtSpec c step s precond hp hε).2.1 hstart ht).2.2

end PrecondVerif.C05
