/-
C14 — training resumes bit-identically from serialized optimizer state at any step.

Property theorems about the pytree / state-dict model `Model/PyTree.lean` (the definitions `drv_c14`
executes): the run-split law, the state-dict round trip, the static part of reachable states, and
resumption at every interruption point — for every tree (any depth, width, node kinds), every pure
step function, every gradient history and every `k` (induction, no bounds).  Helper lemmas are in
`Lemmas/PyTree.lean`.

What the theorems cannot carry (decided on executed runs only, by `harness/props/c14.py`):
purity of the Python implementation (that `update` *is* a function of `(grads, state, params)`),
fidelity of msgpack for array leaves, and that the layout hypothesis `hpres` holds for the real
optimizers (that is property C07; here it is evaluated on every run).
-/
import PrecondVerif.Lemmas.PyTree
import PrecondVerif.Lemmas.Layout

namespace PrecondVerif.C14
open PrecondVerif.Ser

variable {α β σ : Type}

/-- Run-split law, outputs included: running `gs₁ ++ gs₂` is running `gs₁`, then `gs₂` from the state
reached — for ANY pure step function. -/
theorem run_append {S G U : Type} (step : S → G → U × S) (s : S) (gs₁ gs₂ : List G) :
    run step s (gs₁ ++ gs₂) =
      ((run step s gs₁).1 ++ (run step (run step s gs₁).2 gs₂).1,
       (run step (run step s gs₁).2 gs₂).2) :=
  Ser.run_append step s gs₁ gs₂

/-- State-dict round trip: restoring the state dict of `s` into ANY template that differs from `s` at
most in leaf values (`sameStatic`: same node kinds, keys and static field values — what `init` of a
fresh optimizer with the same hyper-parameters returns) gives back exactly `s`.  `wf`: keys of a node
are pairwise distinct (true of every Python dict / class). -/
theorem restore_roundtrip (t s : PyTree α σ) (hwf : wf s = true) (h : sameStatic t s) :
    fromStateDict t (toStateDict s) = .ok s :=
  restore_same t s hwf h

/-- Leaf values of the template are never used: two templates with the same skeleton restore alike. -/
theorem restore_ignores_template_leaves (t t' s : PyTree α σ) (hwf : wf s = true)
    (h : sameStatic t s) (h' : sameStatic t' s) :
    fromStateDict t (toStateDict s) = fromStateDict t' (toStateDict s) := by
  rw [restore_same t s hwf h, restore_same t' s hwf h']

/-- Static fields are NOT written: states that differ only in kinds / static values have the same state
dict (`withStaticOf t s` is `s` carrying `t`'s static part), so no reader can recover them. -/
theorem static_not_serialized (t s : PyTree α σ) :
    toStateDict (withStaticOf t s) = toStateDict s :=
  toStateDict_withStaticOf t s

/-- … and a restore takes them from the template: whenever template and state have the same keys, the
restore succeeds, the result has the *template's* static part and exactly the state's leaves. -/
theorem restore_takes_static_from_template (t s : PyTree α σ) (hwf : wf s = true)
    (h : keyShape t = keyShape s) :
    ∃ r, fromStateDict t (toStateDict s) = .ok r ∧ skeleton r = skeleton t ∧ leaves r = leaves s :=
  ⟨withStaticOf t s, restore_general t s hwf h, skeleton_withStaticOf t s h, leaves_withStaticOf t s⟩

/-- Negative: a static value that changed after `init` is lost by save / restore (this is why every
`pytree_node=False` field of a state class has to be reproduced by `init`). -/
theorem changed_static_is_lost :
    ∃ (t s : PyTree Int Nat), wf s = true ∧ keyShape t = keyShape s ∧
      fromStateDict t (toStateDict s) ≠ .ok s := by
  refine ⟨.node (.dataclass "Q" [("shape", 0)]) [("q", .leaf 0)],
          .node (.dataclass "Q" [("shape", 7)]) [("q", .leaf 5)], by decide, rfl, ?_⟩
  intro h
  have := restore_general (α := Int) (σ := Nat) (.node (.dataclass "Q" [("shape", 0)]) [("q", .leaf 0)])
    (.node (.dataclass "Q" [("shape", 7)]) [("q", .leaf 5)]) (by decide) rfl
  rw [this] at h
  simp [withStaticOf, withStaticOfs] at h

/-- Static part invariant: if one step preserves the skeleton (kinds, keys, static values — the layout
fixed point of C07), every state reachable from `s₀` has the skeleton of `s₀`, hence of a fresh `init`. -/
theorem static_invariant {G U : Type} (step : PyTree α σ → G → U × PyTree α σ)
    (hpres : ∀ s g, skeleton (step s g).2 = skeleton s) (s₀ : PyTree α σ) (gs : List G) :
    sameStatic (run step s₀ gs).2 s₀ :=
  run_invariant step (fun s => skeleton s = skeleton s₀) (fun s g h => (hpres s g).trans h) s₀ gs rfl

/-- Resumption at EVERY interruption point `k`, for every pure layout-preserving step function, every
history and every template with the static part of `s₀`: interrupting after `k` steps, serializing,
restoring into the template and continuing yields exactly the updates and the final state of the
uninterrupted run. -/
theorem resume_eq_uninterrupted {G U : Type} (step : PyTree α σ → G → U × PyTree α σ)
    (hpres : ∀ s g, skeleton (step s g).2 = skeleton s)
    (tmpl s₀ : PyTree α σ) (hwf : wf s₀ = true) (hsame : sameStatic tmpl s₀)
    (gs : List G) (k : Nat) :
    resume step tmpl s₀ gs k = .ok (run step s₀ gs) :=
  resume_ok step hpres tmpl s₀ hwf hsame gs k

/-- The same with the weakest hypothesis on the step: an invariant `P` of the reachable states that
pins their skeleton (the step need not preserve the layout of states that never occur). -/
theorem resume_eq_uninterrupted_of_invariant {G U : Type} (step : PyTree α σ → G → U × PyTree α σ)
    (P : PyTree α σ → Prop) (tmpl s₀ : PyTree α σ) (hP0 : P s₀) (hPstep : ∀ s g, P s → P (step s g).2)
    (hPskel : ∀ s, P s → sameStatic s s₀) (hwf : wf s₀ = true) (hsame : sameStatic tmpl s₀)
    (gs : List G) (k : Nat) :
    resume step tmpl s₀ gs k = .ok (run step s₀ gs) :=
  resume_ok_inv step P tmpl s₀ hP0 hPstep hPskel hwf hsame gs k

/-- Checkpointing through the state dict after every single step changes nothing. -/
theorem checkpoint_every_step {G U : Type} (step : PyTree α σ → G → U × PyTree α σ)
    (hpres : ∀ s g, skeleton (step s g).2 = skeleton s)
    (tmpl s₀ : PyTree α σ) (hwf : wf s₀ = true) (hsame : sameStatic tmpl s₀) (gs : List G) :
    runCheckpointed step tmpl s₀ gs = .ok (run step s₀ gs) :=
  runCheckpointed_ok step hpres tmpl s₀ hwf hsame gs

/-- The step function the driver executes (`toyStep`, a `jax.tree.map` over the leaves) satisfies the
layout hypothesis, so the `resume` op of `drv_c14` must agree with its `run` on every input. -/
theorem toyStep_resume (tmpl s₀ : PyTree Int σ) (hwf : wf s₀ = true) (hsame : sameStatic tmpl s₀)
    (gs : List Int) (k : Nat) :
    resume toyStep tmpl s₀ gs k = .ok (run toyStep s₀ gs) :=
  resume_ok toyStep (fun s _ => skeleton_mapLeaves _ s) tmpl s₀ hwf hsame gs k

/-- Lists / tuples built with flax's keys `str(0), str(1), …` have pairwise distinct keys. -/
theorem list_keys_distinct (n : Nat) : nodupKeys (listKeys n) = true := listKeys_nodup n

/-- Negative: state kept OUTSIDE the pytree (a Python-side counter in the optimizer's closure) breaks
resumption — the restarted process starts from the initial hidden value again. -/
theorem hidden_state_breaks_resume :
    ∃ (step : Nat × PyTree Int Unit → Int → Int × (Nat × PyTree Int Unit)) (s₀ : PyTree Int Unit),
      (∀ h s g, skeleton (step (h, s) g).2.2 = skeleton s) ∧
      (resumeHidden step 0 s₀ s₀ [1, 1] 1).toOption.map Prod.fst ≠
        some (run step (0, s₀) [1, 1]).1 := by
  refine ⟨fun hs g => (g + (hs.1 : Int), (hs.1 + 1, hs.2)), .leaf 0, fun _ _ _ => rfl, ?_⟩
  decide

section layoutInstances
variable {G U : Type}

/-! ### instances for the layout models of C07 (`Model/Layout.lean`)

`layoutOf` reads the C07 layout off a state tree and `skel` is the tree shape the initial layout denotes.
A value-level step function whose states of that layout have that shape (`hskel`) and whose layout moves
as the C07 layout model says (`hstep`; the C07 check ties that model to the real `update` on every run)
resumes exactly, because the initial layout is a fixed point of the layout step (C07's lemmas). -/

/-- Distributed Shampoo (replicated / pmap layouts), any configuration whose update is not rejected. -/
theorem ds_resume_eq_uninterrupted (c : Layout.Cfg) (ps : List (List Nat)) (hacc : Layout.stepRejects c ps = none)
    (layoutOf : PyTree α σ → Layout.DSLayout) (skel : PyTree Unit σ)
    (hskel : ∀ s, layoutOf s = Layout.initLayout c ps → skeleton s = skel)
    (step : PyTree α σ → G → U × PyTree α σ)
    (hstep : ∀ s g, layoutOf s = Layout.initLayout c ps → Layout.layoutStep c ps (layoutOf s) = .ok (layoutOf (step s g).2))
    (tmpl s₀ : PyTree α σ) (h0 : layoutOf s₀ = Layout.initLayout c ps) (ht : layoutOf tmpl = Layout.initLayout c ps)
    (hwf : wf s₀ = true) (gs : List G) (k : Nat) :
    resume step tmpl s₀ gs k = .ok (run step s₀ gs) :=
  resume_of_layout_fixpoint layoutOf (Layout.layoutStep c ps) (Layout.initLayout c ps)
    (by rw [Layout.layoutStep_init, hacc]) skel hskel step hstep tmpl s₀ h0 ht hwf gs k

/-- SM3. -/
theorem sm3_resume_eq_uninterrupted (ps : List (List Nat))
    (layoutOf : PyTree α σ → List Layout.SM3Param) (skel : PyTree Unit σ)
    (hskel : ∀ s, layoutOf s = ps.map Layout.sm3InitParam → skeleton s = skel)
    (step : PyTree α σ → G → U × PyTree α σ)
    (hstep : ∀ s g, layoutOf s = ps.map Layout.sm3InitParam → Layout.sm3Step ps (layoutOf s) = .ok (layoutOf (step s g).2))
    (tmpl s₀ : PyTree α σ) (h0 : layoutOf s₀ = ps.map Layout.sm3InitParam) (ht : layoutOf tmpl = ps.map Layout.sm3InitParam)
    (hwf : wf s₀ = true) (gs : List G) (k : Nat) :
    resume step tmpl s₀ gs k = .ok (run step s₀ gs) :=
  resume_of_layout_fixpoint layoutOf (Layout.sm3Step ps) (ps.map Layout.sm3InitParam)
    (Layout.sm3Step_init ps) skel hskel step hstep tmpl s₀ h0 ht hwf gs k

/-- Tearfree (Shampoo / Sketchy, every grafting and momentum option). -/
theorem tearfree_resume_eq_uninterrupted (c : Layout.TFCfg) (ps : List (List Nat)) (L : Layout.TFLayout) (hinit : Layout.tfInit c ps = .ok L)
    (layoutOf : PyTree α σ → Layout.TFLayout) (skel : PyTree Unit σ)
    (hskel : ∀ s, layoutOf s = L → skeleton s = skel)
    (step : PyTree α σ → G → U × PyTree α σ)
    (hstep : ∀ s g, layoutOf s = L → Layout.tfStep c (layoutOf s) = .ok (layoutOf (step s g).2))
    (tmpl s₀ : PyTree α σ) (h0 : layoutOf s₀ = L) (ht : layoutOf tmpl = L)
    (hwf : wf s₀ = true) (gs : List G) (k : Nat) :
    resume step tmpl s₀ gs k = .ok (run step s₀ gs) :=
  resume_of_layout_fixpoint layoutOf (Layout.tfStep c) (L)
    (Layout.tfStep_init c ps L hinit) skel hskel step hstep tmpl s₀ h0 ht hwf gs k

end layoutInstances

/-! ### the hypotheses are satisfiable: a quantized Shampoo-like state -/

/-- `ShampooState(count, stats=[ParameterStats(statistics=[QuantizedValue(…)], avg_grad=MaskedNode())])` -/
def exState (c q d b : Int) : PyTree Int String :=
  .node (.namedtuple "ShampooState")
    [("count", .leaf c),
     ("stats", PyTree.list
        [.node (.namedtuple "ParameterStats")
          [("statistics", PyTree.list
              [.node (.dataclass "QuantizedValue" [("quantized_dtype", "int16"), ("extract_diagonal", "True"),
                  ("shape", "[4, 4]")])
                [("quantized", .leaf q), ("diagonal", .leaf d), ("bucket_size", .leaf b)]]),
           ("avg_grad", .node (.namedtuple "MaskedNode") []),
           ("momentum", .none)]])]

example : wf (exState 3 1 2 5) = true := by decide
example : sameStatic (exState 0 0 0 0) (exState 3 1 2 5) := rfl
example : fromStateDict (exState 0 0 0 0) (toStateDict (exState 3 1 2 5)) = .ok (exState 3 1 2 5) :=
  restore_roundtrip (exState 0 0 0 0) (exState 3 1 2 5) (by decide) rfl
example : resume toyStep (exState 0 0 0 0) (exState 3 1 2 5) [1, -2, 4] 2
    = .ok (run toyStep (exState 3 1 2 5) [1, -2, 4]) :=
  toyStep_resume (exState 0 0 0 0) (exState 3 1 2 5) (by decide) rfl _ _
example : (run toyStep (exState 3 1 2 5) [1, -2]).1 = [37, 103] := by decide

/-- an SM3 state: `SM3State(count, stats={'w': ParameterStats([acc], QuantizedValue(...))})` -/
def exSM3 (c a m : Int) : PyTree Int String :=
  .node (.namedtuple "SM3State") [("count", .leaf c), ("stats", .node .dict [("w",
    .node (.namedtuple "ParameterStats") [("diagonal_statistics", PyTree.list [.leaf a]),
      ("diagonal_momentum", .node (.dataclass "QuantizedValue" [("quantized_dtype", "int8")]) [("quantized", .leaf m)])])])]

open Classical in
/-- the hypotheses of the SM3 instance are satisfiable: layout read off the skeleton, toy step -/
example (gs : List Int) (k : Nat) :
    resume toyStep (exSM3 0 0 0) (exSM3 3 1 2) gs k = .ok (run toyStep (exSM3 3 1 2) gs) := by
  let skel : PyTree Unit String := skeleton (exSM3 0 0 0)
  let L := [[2]].map Layout.sm3InitParam
  let layoutOf : PyTree Int String → List Layout.SM3Param := fun s => if skeleton s = skel then L else []
  have hL : L ≠ [] := by simp [L]
  have key : ∀ s, layoutOf s = L → skeleton s = skel := by
    intro s h
    by_cases hs : skeleton s = skel
    · exact hs
    · simp only [layoutOf, if_neg hs] at h; exact absurd h.symm hL
  refine sm3_resume_eq_uninterrupted [[2]] layoutOf skel key toyStep ?_ _ _ ?_ ?_ (by decide) gs k
  · intro s g hs
    have h1 := key s hs
    have h2 : skeleton (toyStep s g).2 = skel := (skeleton_mapLeaves _ s).trans h1
    rw [hs]
    show Layout.sm3Step [[2]] ([[2]].map Layout.sm3InitParam) = _
    rw [Layout.sm3Step_init]
    simp only [layoutOf, if_pos h2]; rfl
  · have h : skeleton (exSM3 3 1 2) = skel := rfl
    simp only [layoutOf, if_pos h]; rfl
  · have h : skeleton (exSM3 0 0 0) = skel := rfl
    simp only [layoutOf, if_pos h]; rfl

end PrecondVerif.C14
