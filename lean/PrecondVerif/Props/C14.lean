/-
C14 — training resumes bit-identically from serialized optimizer state at any step.

Property theorems about the pytree / state-dict model `Model/PyTree.lean` (the definitions `drv_c14`
executes): the run-split law, the state-dict round trip, the static part of reachable states, and
resumption at every interruption point — for every tree (any depth, width, node kinds), every pure
step function, every gradient history and every `k` (induction, no bounds).  Helper lemmas are in
`Lemmas/PyTree.lean`.

What the theorems cannot carry (decided on executed runs only, by `harness/props/c14.py`):
purity of the Python implementation (that `update` *is* a function of `(grads, state, params)`),
fidelity of msgpack for array leaves, and that the layout hypothesis `hpres` holds for the real
optimizers (that is property C07; here it is evaluated on every run).
-/
import PrecondVerif.Lemmas.PyTree

namespace PrecondVerif.C14
open PrecondVerif.Ser

variable {α β σ : Type}

/-- Run-split law, outputs included: running `gs₁ ++ gs₂` is running `gs₁`, then `gs₂` from the state
reached — for ANY pure step function. -/
theorem run_append {S G U : Type} (step : S → G → U × S) (s : S) (gs₁ gs₂ : List G) :
    run step s (gs₁ ++ gs₂) =
      ((run step s gs₁).1 ++ (run step (run step s gs₁).2 gs₂).1,
       (run step (run step s gs₁).2 gs₂).2) :=
  Ser.run_append step s gs₁ gs₂

/-- State-dict round trip: restoring the state dict of `s` into ANY template that differs from `s` at
most in leaf values (`sameStatic`: same node kinds, keys and static field values — what `init` of a
fresh optimizer with the same hyper-parameters returns) gives back exactly `s`.  `wf`: keys of a node
are pairwise distinct (true of every Python dict / class). -/
theorem restore_roundtrip (t s : PyTree α σ) (hwf : wf s = true) (h : sameStatic t s) :
    fromStateDict t (toStateDict s) = .ok s :=
  restore_same t s hwf h

/-- Leaf values of the template are never used: two templates with the same skeleton restore alike. -/
theorem restore_ignores_template_leaves (t t' s : PyTree α σ) (hwf : wf s = true)
    (h : sameStatic t s) (h' : sameStatic t' s) :
    fromStateDict t (toStateDict s) = fromStateDict t' (toStateDict s) := by
  rw [restore_same t s hwf h, restore_same t' s hwf h']

/-- Static fields are NOT written: states that differ only in kinds / static values have the same state
dict (`withStaticOf t s` is `s` carrying `t`'s static part), so no reader can recover them. -/
theorem static_not_serialized (t s : PyTree α σ) :
    toStateDict (withStaticOf t s) = toStateDict s :=
  toStateDict_withStaticOf t s

/-- … and a restore takes them from the template: whenever template and state have the same keys, the
restore succeeds, the result has the *template's* static part and exactly the state's leaves. -/
theorem restore_takes_static_from_template (t s : PyTree α σ) (hwf : wf s = true)
    (h : keyShape t = keyShape s) :
    ∃ r, fromStateDict t (toStateDict s) = .ok r ∧ skeleton r = skeleton t ∧ leaves r = leaves s :=
  ⟨withStaticOf t s, restore_general t s hwf h, skeleton_withStaticOf t s h, leaves_withStaticOf t s⟩

/-- Negative: a static value that changed after `init` is lost by save / restore (this is why every
`pytree_node=False` field of a state class has to be reproduced by `init`). -/
theorem changed_static_is_lost :
    ∃ (t s : PyTree Int Nat), wf s = true ∧ keyShape t = keyShape s ∧
      fromStateDict t (toStateDict s) ≠ .ok s := by
  refine ⟨.node (.dataclass "Q" [("shape", 0)]) [("q", .leaf 0)],
          .node (.dataclass "Q" [("shape", 7)]) [("q", .leaf 5)], by decide, rfl, ?_⟩
  intro h
  have := restore_general (α := Int) (σ := Nat) (.node (.dataclass "Q" [("shape", 0)]) [("q", .leaf 0)])
    (.node (.dataclass "Q" [("shape", 7)]) [("q", .leaf 5)]) (by decide) rfl
  rw [this] at h
  simp [withStaticOf, withStaticOfs] at h

/-- Static part invariant: if one step preserves the skeleton (kinds, keys, static values — the layout
fixed point of C07), every state reachable from `s₀` has the skeleton of `s₀`, hence of a fresh `init`. -/
theorem static_invariant {G U : Type} (step : PyTree α σ → G → U × PyTree α σ)
    (hpres : ∀ s g, skeleton (step s g).2 = skeleton s) (s₀ : PyTree α σ) (gs : List G) :
    sameStatic (run step s₀ gs).2 s₀ :=
  run_invariant step (fun s => skeleton s = skeleton s₀) (fun s g h => (hpres s g).trans h) s₀ gs rfl

/-- Resumption at EVERY interruption point `k`, for every pure layout-preserving step function, every
history and every template with the static part of `s₀`: interrupting after `k` steps, serializing,
restoring into the template and continuing yields exactly the updates and the final state of the
uninterrupted run. -/
theorem resume_eq_uninterrupted {G U : Type} (step : PyTree α σ → G → U × PyTree α σ)
    (hpres : ∀ s g, skeleton (step s g).2 = skeleton s)
    (tmpl s₀ : PyTree α σ) (hwf : wf s₀ = true) (hsame : sameStatic tmpl s₀)
    (gs : List G) (k : Nat) :
    resume step tmpl s₀ gs k = .ok (run step s₀ gs) :=
  resume_ok step hpres tmpl s₀ hwf hsame gs k

/-- Checkpointing through the state dict after every single step changes nothing. -/
theorem checkpoint_every_step {G U : Type} (step : PyTree α σ → G → U × PyTree α σ)
    (hpres : ∀ s g, skeleton (step s g).2 = skeleton s)
    (tmpl s₀ : PyTree α σ) (hwf : wf s₀ = true) (hsame : sameStatic tmpl s₀) (gs : List G) :
    runCheckpointed step tmpl s₀ gs = .ok (run step s₀ gs) :=
  runCheckpointed_ok step hpres tmpl s₀ hwf hsame gs

/-- The step function the driver executes (`toyStep`, a `jax.tree.map` over the leaves) satisfies the
layout hypothesis, so the `resume` op of `drv_c14` must agree with its `run` on every input. -/
theorem toyStep_resume (tmpl s₀ : PyTree Int σ) (hwf : wf s₀ = true) (hsame : sameStatic tmpl s₀)
    (gs : List Int) (k : Nat) :
    resume toyStep tmpl s₀ gs k = .ok (run toyStep s₀ gs) :=
  resume_ok toyStep (fun s _ => skeleton_mapLeaves _ s) tmpl s₀ hwf hsame gs k

/-- Lists / tuples built with flax's keys `str(0), str(1), …` have pairwise distinct keys. -/
theorem list_keys_distinct (n : Nat) : nodupKeys (listKeys n) = true := listKeys_nodup n

/-- Negative: state kept OUTSIDE the pytree (a Python-side counter in the optimizer's closure) breaks
resumption — the restarted process starts from the initial hidden value again. -/
theorem hidden_state_breaks_resume :
    ∃ (step : Nat × PyTree Int Unit → Int → Int × (Nat × PyTree Int Unit)) (s₀ : PyTree Int Unit),
      (∀ h s g, skeleton (step (h, s) g).2.2 = skeleton s) ∧
      (resumeHidden step 0 s₀ s₀ [1, 1] 1).toOption.map Prod.fst ≠
        some (run step (0, s₀) [1, 1]).1 := by
  refine ⟨fun hs g => (g + (hs.1 : Int), (hs.1 + 1, hs.2)), .leaf 0, fun _ _ _ => rfl, ?_⟩
  decide

/-! ### the hypotheses are satisfiable: a quantized Shampoo-like state -/

/-- `ShampooState(count, stats=[ParameterStats(statistics=[QuantizedValue(…)], avg_grad=MaskedNode())])` -/
def exState (c q d b : Int) : PyTree Int String :=
  .node (.namedtuple "ShampooState")
    [("count", .leaf c),
     ("stats", PyTree.list
        [.node (.namedtuple "ParameterStats")
          [("statistics", PyTree.list
              [.node (.dataclass "QuantizedValue" [("quantized_dtype", "int16"), ("extract_diagonal", "True"),
                  ("shape", "[4, 4]")])
                [("quantized", .leaf q), ("diagonal", .leaf d), ("bucket_size", .leaf b)]]),
           ("avg_grad", .node (.namedtuple "MaskedNode") []),
           ("momentum", .none)]])]

example : wf (exState 3 1 2 5) = true := by decide
example : sameStatic (exState 0 0 0 0) (exState 3 1 2 5) := rfl
example : fromStateDict (exState 0 0 0 0) (toStateDict (exState 3 1 2 5)) = .ok (exState 3 1 2 5) :=
  restore_roundtrip (exState 0 0 0 0) (exState 3 1 2 5) (by decide) rfl
example : resume toyStep (exState 0 0 0 0) (exState 3 1 2 5) [1, -2, 4] 2
    = .ok (run toyStep (exState 3 1 2 5) [1, -2, 4]) :=
  toyStep_resume (exState 0 0 0 0) (exState 3 1 2 5) (by decide) rfl _ _
example : (run toyStep (exState 3 1 2 5) [1, -2]).1 = [37, 103] := by decide

end PrecondVerif.C14
