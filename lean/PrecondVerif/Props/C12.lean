/-
C12 — SM3 accumulators cover the true second moment.

Only the property theorems and non-vacuity examples live here; helper lemmas are in
`Lemmas/SM3.lean`, the executable model (run at `Rat` and `Float` by the driver) in `Model/SM3.lean`.

Every theorem is stated for every tensor shape of rank ≥ 1 (`shape ≠ []`, any number of axes, any
sizes), every gradient history `gs` (a list of tensors, oldest first; induction over the list) and every
coordinate `idx ∈ indices shape`.  `accRun upd shape gs` are the accumulators the code holds after the
history, `cover accs idx = min_i acc_i[idx_i]`, `adaRun upd gs idx` is the per-coordinate accumulator of
diagonal AdaGrad / RMSProp run with the same update rule `upd` (old value, gradient entry).

* `sm3_cover_monotone`, `sm3_acc_nondecreasing`, `sm3_rank1_is_adagrad` use nothing but the order: they
  hold in every linear order for every update rule that is monotone (resp. inflationary, resp. arbitrary)
  in the accumulator — in particular for IEEE arithmetic as far as rounding is monotone (assumption of the
  harness, not proved here).
* `sm3_cover_exact`, `sm3_acc_nondecreasing_code`, `sm3_step_le_adagrad`, `sm3_step_le_adagrad_code`
  instantiate the code's rule `codeUpd β2 w a g = β2·a + w·g²` in every ordered field.

Momentum (int8-quantized), weight decay, the learning-rate schedule and gradient normalisation act after /
before this recursion and do not enter the accumulators (normalisation only replaces the gradients of
the history); they are covered by the correspondence run only.
-/
import PrecondVerif.Lemmas.SM3
import Mathlib.Analysis.Real.Sqrt

namespace PrecondVerif.C12
open PrecondVerif.SM3

section order
variable {α : Type} [LinearOrder α] [OfNat α 0]

/-- **Cover, arithmetic-agnostic.** For any update rule monotone in the accumulator, after any history the
minimum over the accumulators covering a coordinate — and hence each of them — is at least the value
diagonal AdaGrad/RMSProp with the same rule holds for that coordinate. -/
theorem sm3_cover_monotone (upd : α → α → α) (hmono : ∀ a b g, a ≤ b → upd a g ≤ upd b g)
    (shape : List Nat) (hrank : shape ≠ []) (gs : List (List Nat → α)) (idx : List Nat)
    (hidx : idx ∈ indices shape) :
    adaRun upd gs idx ≤ cover (accRun upd shape gs) idx ∧
      ∀ k, k < shape.length → adaRun upd gs idx ≤ accGet (accRun upd shape gs) k (idx.getD k 0) := by
  have h := cover_run upd hmono shape hrank gs hidx
  refine ⟨h, fun k hk => le_trans h (cover_le ?_)⟩
  rw [length_of_mem_indices hidx]; exact hk

/-- **Monotonicity.** For an inflationary update rule (`a ≤ upd a g`; the code's rule with `β2 = 1`), on
every state reachable from the zero initial state, no accumulator entry decreases in an update.  (Shapes
without zero-size dimension: `jnp.max` is undefined on empty slices.) -/
theorem sm3_acc_nondecreasing (upd : α → α → α) (hinfl : ∀ a g, a ≤ upd a g) (shape : List Nat)
    (hpos : ∀ d ∈ shape, 0 < d) (gs : List (List Nat → α)) (g : List Nat → α) (i j : Nat)
    (hi : i < shape.length) (hj : j < shape.getD i 0) :
    accGet (accRun upd shape gs) i j ≤ accGet (accRun upd shape (gs ++ [g])) i j := by
  rw [accRun_concat]
  exact accGet_le_accStep_of_tight upd hinfl shape _ (tight_accRun upd shape hpos gs) g hi hj

/-- … and therefore along any continuation of the history. -/
theorem sm3_acc_nondecreasing_history (upd : α → α → α) (hinfl : ∀ a g, a ≤ upd a g)
    (shape : List Nat) (hpos : ∀ d ∈ shape, 0 < d) (gs more : List (List Nat → α)) (i j : Nat)
    (hi : i < shape.length) (hj : j < shape.getD i 0) :
    accGet (accRun upd shape gs) i j ≤ accGet (accRun upd shape (gs ++ more)) i j := by
  induction more using List.reverseRecOn with
  | nil => simp
  | append_singleton more g ih =>
    rw [← List.append_assoc]
    exact le_trans ih (sm3_acc_nondecreasing upd hinfl shape hpos (gs ++ more) g i j hi hj)

/-- **Rank 1.** For a vector the (single) accumulator *is* the diagonal AdaGrad/RMSProp accumulator, for
any update rule whatsoever, and so is the statistic `ν` the next step is preconditioned with (the
code's `grad.ndim == 1` shortcut `acc' = ν` is what the generic max-reduction yields). -/
theorem sm3_rank1_is_adagrad (upd : α → α → α) (d : Nat) (gs : List (List Nat → α)) (j : Nat)
    (hj : j < d) :
    accGet (accRun upd [d] gs) 0 j = adaRun upd gs [j] ∧
      cover (accRun upd [d] gs) [j] = adaRun upd gs [j] ∧
      ∀ g, nuAt upd (accRun upd [d] gs) g [j] = adaRun upd (gs ++ [g]) [j] := by
  have hcov : ∀ accs : Accs α, cover accs [j] = accGet accs 0 j := by
    intro accs; simp [cover, coverVals, minL]
  have hmain : accGet (accRun upd [d] gs) 0 j = adaRun upd gs [j] := by
    induction gs using List.reverseRecOn with
    | nil => simp only [accRun, adaRun, List.foldl_nil]; exact accGet_initAccs _ _ _
    | append_singleton gs g ih =>
      rw [accRun_concat, adaRun_concat]
      have hpos : ∀ x ∈ [d], 0 < x := by
        intro x hx; rw [List.mem_singleton.mp hx]; omega
      obtain ⟨idx, hidx, hij, he⟩ :=
        accGet_accStep_attained upd [d] hpos (accRun upd [d] gs) g (i := 0) (j := j)
          (by simp) (by simpa using hj)
      have hs := (mem_indices_singleton hidx).1
      rw [hij] at hs
      rw [he, hs]
      unfold nuAt
      rw [hcov, ih]
  refine ⟨hmain, by rw [hcov, hmain], fun g => ?_⟩
  rw [adaRun_concat]
  unfold nuAt
  rw [hcov, hmain]

end order

section field
variable {α : Type} [Field α] [LinearOrder α] [IsStrictOrderedRing α]

/-- **Cover, the code's arithmetic.** With `ν = β2·min + w·g²`, `0 ≤ β2` (any `w`, in particular the
code's `w = 1 - β2`, or `1` when `β2 = 1`), the minimum over a coordinate's accumulators is at least the
exact decayed sum `Σ_t β2^(T-1-t)·w·g_t²` of that coordinate's squared gradients. -/
theorem sm3_cover_exact (β2 w : α) (hβ : 0 ≤ β2) (shape : List Nat) (hrank : shape ≠ [])
    (gs : List (List Nat → α)) (idx : List Nat) (hidx : idx ∈ indices shape) :
    decayedSum β2 w gs idx ≤ cover (accRun (codeUpd β2 w) shape gs) idx := by
  rw [← adaRun_eq_decayedSum]
  exact (sm3_cover_monotone (codeUpd β2 w) (fun a b g h => codeUpd_mono hβ w a b g h) shape hrank gs
    idx hidx).1

/-- **Monotonicity, the code's arithmetic**: decay `β2 = 1` (for which the code takes `w = wOf 1 = 1`). -/
theorem sm3_acc_nondecreasing_code (shape : List Nat) (hpos : ∀ d ∈ shape, 0 < d)
    (gs : List (List Nat → α)) (g : List Nat → α) (i j : Nat) (hi : i < shape.length)
    (hj : j < shape.getD i 0) :
    accGet (accRun (codeUpd (1 : α) (wOf 1)) shape gs) i j
      ≤ accGet (accRun (codeUpd (1 : α) (wOf 1)) shape (gs ++ [g])) i j :=
  sm3_acc_nondecreasing _ (fun a g => codeUpd_infl (by rw [wOf_one]; exact zero_le_one) a g) shape hpos
    gs g i j hi hj

/-- **Step no larger than AdaGrad's.** For any update rule monotone in the accumulator and preserving
non-negativity, and any preconditioner `rsqrt` that is non-negative and antitone on the non-negative
numbers, the pre-momentum SM3 step of every coordinate is no larger in magnitude than the step diagonal
AdaGrad/RMSProp takes for the same history. -/
theorem sm3_step_le_adagrad (upd : α → α → α) (hmono : ∀ a b g, a ≤ b → upd a g ≤ upd b g)
    (hnn : ∀ a g, 0 ≤ a → 0 ≤ upd a g) (rsqrt : α → α)
    (hanti : ∀ x y, 0 ≤ x → x ≤ y → rsqrt y ≤ rsqrt x) (hrs : ∀ x, 0 ≤ x → 0 ≤ rsqrt x)
    (shape : List Nat) (hrank : shape ≠ []) (gs : List (List Nat → α)) (g : List Nat → α)
    (idx : List Nat) (hidx : idx ∈ indices shape) :
    |pgEntry rsqrt (g idx) (nuAt upd (accRun upd shape gs) g idx)|
      ≤ |pgEntry rsqrt (g idx) (adaRun upd (gs ++ [g]) idx)| := by
  have hS : 0 ≤ adaRun upd gs idx := by
    induction gs using List.reverseRecOn with
    | nil => simp [adaRun]
    | append_singleton gs g' ih => rw [adaRun_concat]; exact hnn _ _ ih
  have hS' : 0 ≤ adaRun upd (gs ++ [g]) idx := by rw [adaRun_concat]; exact hnn _ _ hS
  have hle : adaRun upd (gs ++ [g]) idx ≤ nuAt upd (accRun upd shape gs) g idx := by
    rw [adaRun_concat]
    exact hmono _ _ _ (cover_run upd hmono shape hrank gs hidx)
  unfold pgEntry
  rw [abs_mul, abs_mul, abs_of_nonneg (hrs _ (le_trans hS' hle)), abs_of_nonneg (hrs _ hS')]
  exact mul_le_mul_of_nonneg_left (hanti _ _ hS' hle) (abs_nonneg _)

/-- … instantiated with the code: `ν = β2·min + w·g²`, preconditioner `1/sqrt(ν + ε)`, for any square-root
function positive and monotone on the positive numbers (`Real.sqrt`, or a correctly rounded one), `ε > 0`. -/
theorem sm3_step_le_adagrad_code (β2 w eps : α) (hβ : 0 ≤ β2) (hw : 0 ≤ w) (heps : 0 < eps)
    (sqrt : α → α) (hsp : ∀ x, 0 < x → 0 < sqrt x) (hsm : ∀ x y, 0 < x → x ≤ y → sqrt x ≤ sqrt y)
    (shape : List Nat) (hrank : shape ≠ []) (gs : List (List Nat → α)) (g : List Nat → α)
    (idx : List Nat) (hidx : idx ∈ indices shape) :
    |pgEntry (rsqrtCode sqrt eps) (g idx) (nuAt (codeUpd β2 w) (accRun (codeUpd β2 w) shape gs) g idx)|
      ≤ |pgEntry (rsqrtCode sqrt eps) (g idx) (decayedSum β2 w (gs ++ [g]) idx)| := by
  rw [← adaRun_eq_decayedSum]
  refine sm3_step_le_adagrad (codeUpd β2 w) (fun a b g h => codeUpd_mono hβ w a b g h)
    (fun a g ha => codeUpd_nonneg hβ hw ha g) (rsqrtCode sqrt eps) ?_ ?_ shape hrank gs g idx hidx
  · intro x y hx hxy
    unfold rsqrtCode
    have hx' : 0 < x + eps := by linarith
    exact one_div_le_one_div_of_le (hsp _ hx') (hsm _ _ hx' (by linarith))
  · intro x hx
    unfold rsqrtCode
    exact le_of_lt (one_div_pos.mpr (hsp _ (by linarith)))

end field

/-- **The full update executes the recursion above.** In `fullStep` (the whole `update_fn` for one tensor,
executed at binary64 by the driver) the new accumulators are `accStep` of the code's rule applied to the
gradient actually used, the statistics tensor is `nuAt` in row-major order and the pre-momentum step is
`pgEntry` of the code's preconditioner: momentum payload, bucket sizes, parameters, learning rate,
`β1` and weight decay do not enter the accumulators, normalisation only replaces the gradient. -/
theorem sm3_full_step_is_accStep {α : Type} [Field α] [LinearOrder α] [Quant.HasFloor α]
    (sqrt : α → α) (h : Hyper α) (shape : List Nat) (accs : Accs α)
    (mq : Array Int) (mb param grad : Array α) :
    let r := fullStep sqrt h shape accs mq mb param grad
    let upd := codeUpd h.beta2 (wOf h.beta2)
    let g := ofFlat 0 shape r.g.toArray
    r.accs = accStep upd shape accs g ∧
      r.nu = (indices shape).map (nuAt upd accs g) ∧
      r.pg = List.zipWith (pgEntry (rsqrtCode sqrt h.eps)) r.g r.nu ∧
      r.g = (if h.normalize then normalizeG sqrt h.normEps grad.toList else grad.toList) := by
  refine ⟨rfl, ?_, rfl, rfl⟩
  simp [fullStep, nuList, List.map_map, Function.comp_def]

/-! ### non-vacuity -/

/-- the hypotheses of `sm3_cover_monotone` / `sm3_cover_exact` hold for the code's rule (here decay ¾) -/
example : ∀ a b g : ℚ, a ≤ b → codeUpd (3 / 4) (wOf (3 / 4)) a g ≤ codeUpd (3 / 4) (wOf (3 / 4)) b g :=
  fun a b g h => codeUpd_mono (by norm_num) _ a b g h

/-- `[1, 2] ∈ indices [2, 3, 4]`-style membership is decidable and non-trivial -/
example : [1, 2, 3] ∈ indices [2, 3, 4] := by decide

/-- a concrete rank-2 history at the executed scalar type: gradients `[[1,2],[3,4]]` then `[[1,0],[0,1]]`,
decay 1: accumulators `[5,17]`, `[9,17]`; coordinate `(0,1)` has exact sum 4 and cover `min 5 17 = 5`. -/
example :
    accRun (α := ℚ) (codeUpd 1 (wOf 1)) [2, 2]
        [ofFlat 0 [2, 2] #[1, 2, 3, 4], ofFlat 0 [2, 2] #[1, 0, 0, 1]] = [#[5, 17], #[9, 17]] ∧
      decayedSum (1 : ℚ) 1 [ofFlat 0 [2, 2] #[1, 2, 3, 4], ofFlat 0 [2, 2] #[1, 0, 0, 1]] [0, 1] = 4 := by
  decide +kernel

/-- the preconditioner hypotheses of `sm3_step_le_adagrad_code` hold for the real square root -/
example : (∀ x : ℝ, 0 < x → 0 < Real.sqrt x) ∧
    (∀ x y : ℝ, 0 < x → x ≤ y → Real.sqrt x ≤ Real.sqrt y) :=
  ⟨fun _ hx => Real.sqrt_pos.mpr hx, fun _ _ _ hxy => Real.sqrt_le_sqrt hxy⟩

/-- **Reachability matters.** From a state *not* reachable from zero (axis-0 accumulator `[5]`, axis-1
accumulator `[1]` for a `1×1` tensor) an update with zero gradient and decay 1 lowers the first accumulator
to `1`: monotonicity is a property of reachable states, as stated in `sm3_acc_nondecreasing`. -/
theorem sm3_acc_can_decrease_from_unreachable_state :
    accGet (accStep (α := ℚ) (codeUpd 1 1) [1, 1] [#[5], #[1]] (fun _ => 0)) 0 0 = 1 ∧
      accGet (α := ℚ) [#[5], #[1]] 0 0 = 5 := by
  decide +kernel

end PrecondVerif.C12
