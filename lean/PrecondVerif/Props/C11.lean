/-
C11 — quantized optimizer state round-trips within half a bucket and never wraps.

Only the property theorems and non-vacuity examples live here; helper lemmas are in
`Lemmas/Quant.lean`, the executable model (run at `Rat` by the driver) in `Model/Quant.lean`.

All theorems hold in every linearly ordered field `α` with a lawful floor (`LawfulFloor`: the model's
`HasFloor.floor` satisfies `z ≤ ⌊x⌋ ↔ (z:α) ≤ x`; instance for ℚ = the executed core `Rat.floor`, and
`LawfulFloor.ofFloorRing` for any Mathlib `FloorRing`, e.g. ℝ), for every number of buckets `N ≥ 1`
(127 for int8, 32767 for int16), every matrix view `rows × cols` of a tensor of any rank (a column is the
set of entries sharing the trailing coordinates — the reduction `axis=0` of the code), with and without
`extract_diagonal` (`ed`).  `x i c` is the entry in row `i` of column `c`.

Not covered by exact-arithmetic theorems (shown only on executed inputs): float32 rounding of
`max/N`, `x/bucket`, `q*bucket` (slack `3·N·2⁻²⁴` of a bucket), flush-to-zero / denormals-are-zero
(known findings K1, K2, K4), overflow of `N*bucket` at `max|x| = FLT_MAX` (K3).
-/
import PrecondVerif.Lemmas.Quant

namespace PrecondVerif.C11
open PrecondVerif.Quant

variable {α : Type} [Field α] [LinearOrder α] [IsStrictOrderedRing α] [HasFloor α] [LawfulFloor α]

/-- The stored bucket size of column `c` is the column's max-abs (of the off-diagonal part when the
diagonal is extracted) divided by `N`, and is non-negative. -/
theorem bucket_is_colmax_div_N (N rows cols : Nat) (ed : Bool) (x : Nat → Nat → α) (hN : 1 ≤ N) (c : Nat) :
    (quantize N rows cols ed x).bucket c = maxAbs (column rows (pre ed x) c) / (N : α) ∧
      0 ≤ (quantize N rows cols ed x).bucket c ∧
      ∀ i, i < rows → |pre ed x i c| ≤ maxAbs (column rows (pre ed x) c) := by
  refine ⟨by simp [bucketSize], ?_, fun i hi => le_maxAbs (mem_column _ c hi)⟩
  rw [quantize_bucket]; exact bucketSize_nonneg hN _

/-- `dequantize (quantize x)` differs from `x` by at most half a bucket of the entry's column. -/
theorem roundtrip_half_bucket (N rows cols : Nat) (ed : Bool) (x : Nat → Nat → α) (hN : 1 ≤ N)
    (i c : Nat) (hi : i < rows) :
    |dequantize ed (quantize N rows cols ed x) i c - x i c|
      ≤ (quantize N rows cols ed x).bucket c / 2 := by
  have h := quantEntry_err hN (column rows (pre ed x) c) (mem_column (pre ed x) c hi)
  have e : dequantize ed (quantize N rows cols ed x) i c - x i c
      = dequantEntry (bucketSize N (column rows (pre ed x) c))
          (quantEntry (bucketSize N (column rows (pre ed x) c)) (pre ed x i c)) - pre ed x i c := by
    conv_lhs => rw [pre_add ed x i c]
    cases ed
    · simp [dequantize]
    · by_cases hic : i = c
      · subst hic; simp [dequantize]
      · simp [dequantize, hic]
  rw [e, quantize_bucket]
  exact h

/-- Every stored integer lies in `[-N, N]`: the most negative value `-N-1` (−128, −32768) is never
produced, so negation / absolute value of the payload cannot wrap. -/
theorem no_wrap (N rows cols : Nat) (ed : Bool) (x : Nat → Nat → α) (hN : 1 ≤ N)
    (i c : Nat) (hi : i < rows) :
    |(quantize N rows cols ed x).q i c| ≤ (N : Int) ∧
      (quantize N rows cols ed x).q i c ≠ -(N : Int) - 1 := by
  have h : |(quantize N rows cols ed x).q i c| ≤ (N : Int) := by
    rw [quantize_q]
    exact quantEntry_abs_le hN _ (mem_column (pre ed x) c hi)
  refine ⟨h, ?_⟩
  intro hc
  rw [hc] at h
  have := abs_le.mp h
  omega

/-- Zeros are stored as `0` and dequantize to exactly `0` (whatever the bucket). -/
theorem zero_exact (N rows cols : Nat) (ed : Bool) (x : Nat → Nat → α) (i c : Nat) (hx : x i c = 0) :
    (quantize N rows cols ed x).q i c = 0 ∧ dequantize ed (quantize N rows cols ed x) i c = 0 := by
  have hp : pre ed x i c = 0 := by
    cases ed
    · simpa [pre] using hx
    · by_cases hic : i = c
      · subst hic; exact pre_diag x i
      · simp [pre, offDiag, hic, hx]
  have hq : (quantize N rows cols ed x).q i c = 0 := by
    rw [quantize_q, hp]; exact quantEntry_zero _
  refine ⟨hq, ?_⟩
  cases ed
  · simp only [dequantize, hq]; simp [dequantEntry_zero]
  · by_cases hic : i = c
    · subst hic
      simp only [dequantize, hq, quantize_diag]
      simp [dequantEntry_zero, hx]
    · simp only [dequantize, hq]
      simp [dequantEntry_zero, hic]

/-- With `extract_diagonal`, the diagonal is kept outside the integer payload and reproduced exactly:
the stored diagonal is the diagonal, its payload entry is `0`, and `to_float` returns it unchanged. -/
theorem diagonal_exact (N rows cols : Nat) (x : Nat → Nat → α) (i : Nat) :
    (quantize N rows cols true x).diag i = x i i ∧
      (quantize N rows cols true x).q i i = 0 ∧
      dequantize true (quantize N rows cols true x) i i = x i i := by
  have hq : (quantize N rows cols true x).q i i = 0 := by
    rw [quantize_q, pre_diag]; exact quantEntry_zero _
  refine ⟨by simp, hq, ?_⟩
  simp only [dequantize, hq, quantize_diag]
  simp [dequantEntry_zero]

/-- In a column that is not identically zero some entry (one of largest magnitude) is stored as `±N`:
the full integer range is used, and the bucket can be recovered from the payload. -/
theorem max_hits_N (N rows cols : Nat) (ed : Bool) (x : Nat → Nat → α) (hN : 1 ≤ N) (c : Nat)
    (hm : 0 < maxAbs (column rows (pre ed x) c)) :
    ∃ i, i < rows ∧ |(quantize N rows cols ed x).q i c| = (N : Int) := by
  obtain ⟨y, hy, hq⟩ := quantEntry_max hN (column rows (pre ed x) c) hm
  unfold column at hy
  obtain ⟨i, hi, rfl⟩ := List.mem_map.mp hy
  exact ⟨i, List.mem_range.mp hi, by rw [quantize_q]; exact hq⟩

/-- Re-quantizing a dequantized value reproduces the same integers, the same bucket sizes and the same
diagonal: state that is carried but not updated does not drift. -/
theorem requantize_idempotent (N rows cols : Nat) (ed : Bool) (x : Nat → Nat → α) (hN : 1 ≤ N) :
    (∀ c, (requantize N rows cols ed (quantize N rows cols ed x)).bucket c
        = (quantize N rows cols ed x).bucket c) ∧
    (∀ i c, i < rows → (requantize N rows cols ed (quantize N rows cols ed x)).q i c
        = (quantize N rows cols ed x).q i c) ∧
    (∀ i, (requantize N rows cols ed (quantize N rows cols ed x)).diag i
        = (quantize N rows cols ed x).diag i) := by
  have hb : ∀ c, (requantize N rows cols ed (quantize N rows cols ed x)).bucket c
      = (quantize N rows cols ed x).bucket c := by
    intro c
    unfold requantize
    rw [quantize_bucket, quantize_bucket, column_pre_dequantize]
    exact bucketSize_dequant hN _
  refine ⟨hb, ?_, ?_⟩
  · intro i c hi
    have hbc := hb c
    unfold requantize at hbc ⊢
    rw [quantize_bucket, quantize_bucket] at hbc
    rw [quantize_q, hbc, pre_dequantize, quantize_q]
    exact quantEntry_dequant hN _ (mem_column (pre ed x) c hi)
  · intro i
    unfold requantize
    rw [quantize_diag, quantize_diag]
    cases ed
    · rfl
    · have := (diagonal_exact N rows cols x i).2.2
      simp only [if_true]
      exact this

/-- `jnp.round` semantics of the model: exact half-way ratios go to the even neighbour (no bias). -/
theorem round_ties_to_even (z : Int) :
    roundHalfEven ((z : α) + 1 / 2) = if z % 2 = 0 then z else z + 1 := round_tie z

/-! ### non-vacuity: the hypotheses are satisfiable, at the executed type -/

/-- the theorems apply to the very term the driver evaluates (`Rat`, core instances) -/
example (N rows cols : Nat) (ed : Bool) (x : Nat → Nat → Rat) (hN : 1 ≤ N) (i c : Nat) (hi : i < rows) :
    |dequantize ed (quantize N rows cols ed x) i c - x i c|
      ≤ (quantize N rows cols ed x).bucket c / 2 :=
  roundtrip_half_bucket N rows cols ed x hN i c hi

/-- int8 on the column `[1/2, -127, 3/2]`: integers `[0, -127, 2]` (tie to even both ways), bucket 1 -/
example :
    (quantizeFlat (α := Rat) 127 [3] false #[1/2, -127, 3/2]).q = [0, -127, 2] ∧
    (quantizeFlat (α := Rat) 127 [3] false #[1/2, -127, 3/2]).bucket = [1] := by
  decide +kernel

/-- a non-zero column exists (`max_hits_N` hypothesis), 2×2 with extracted diagonal -/
example : 0 < maxAbs (column 2 (pre true (fromFlat (α := Rat) 2 #[1, 2, 3, 4])) 0) := by
  decide +kernel

/-- the lawful-floor hypothesis holds for any Mathlib `FloorRing` field (ℝ, ℚ, …) -/
example (β : Type) [Field β] [LinearOrder β] [IsStrictOrderedRing β] [FloorRing β] :
    @LawfulFloor β _ _ (HasFloor.ofFloorRing β) := LawfulFloor.ofFloorRing β

end PrecondVerif.C11
