/-
C11 — quantized optimizer state round-trips within half a bucket and never wraps.

Only the property theorems and non-vacuity examples live here; helper lemmas are in
`Lemmas/Quant.lean`, the executable model (run at `Rat` by the driver) in `Model/Quant.lean`.

All theorems hold in every linearly ordered field `α` with a lawful floor (`LawfulFloor`: the model's
`HasFloor.floor` satisfies `z ≤ ⌊x⌋ ↔ (z:α) ≤ x`; instance for ℚ = the executed core `Rat.floor`, and
`LawfulFloor.ofFloorRing` for any Mathlib `FloorRing`, e.g. ℝ), for every number of buckets `N ≥ 1`
(127 for int8, 32767 for int16), every matrix view `rows × cols` of a tensor of any rank (a column is the
set of entries sharing the trailing coordinates — the reduction `axis=0` of the code), with and without
`extract_diagonal` (`ed`).  `x i c` is the entry in row `i` of column `c`.

Rounded arithmetic (`…_fp` theorems): the same computation with a rounding function `fl` after every
arithmetic operation (`quantizeFl`, `dequantizeFl`; the driver runs them with float32 rounding on exact
rationals and the harness compares bit for bit).  Hypothesis `∀ t, FlOK fl u t` is the standard model
`fl t = t(1+δ)`, `|δ| ≤ u` (no underflow, no overflow); `rb`, `rr` say whether the bucket / the ratio is
divided by a rounded division or as `fl (a * fl (1/b))` (what XLA-CPU emits for a constant or broadcast
divisor: two roundings, relative error `2u + u²`).

`…_fl32` theorems have no hypothesis on `fl`: `fl32` (the function the driver runs) is proved to obey the
model on `{0} ∪ {|t| ≥ 2⁻¹²⁶}` (`fl32_obeys_model`) and the column guard `NormalCol 2⁻¹²⁶ N` (decidable) keeps
every rounded operation there.

Not covered by theorems (shown only on executed inputs): flush-to-zero / denormals-are-zero
(known findings K1, K2, K4), overflow of `N*bucket` at `max|x| = FLT_MAX` (K3) — both excluded by the
no-underflow / no-overflow reading of `FlOK`.
-/
import PrecondVerif.Lemmas.QuantFl32

set_option linter.unusedSectionVars false

namespace PrecondVerif.C11
open PrecondVerif.Quant

variable {α : Type} [Field α] [LinearOrder α] [IsStrictOrderedRing α] [HasFloor α] [LawfulFloor α]

/-- The stored bucket size of column `c` is the column's max-abs (of the off-diagonal part when the
diagonal is extracted) divided by `N`, and is non-negative. -/
theorem bucket_is_colmax_div_N (N rows cols : Nat) (ed : Bool) (x : Nat → Nat → α) (hN : 1 ≤ N) (c : Nat) :
    (quantize N rows cols ed x).bucket c = maxAbs (column rows (pre ed x) c) / (N : α) ∧
      0 ≤ (quantize N rows cols ed x).bucket c ∧
      ∀ i, i < rows → |pre ed x i c| ≤ maxAbs (column rows (pre ed x) c) := by
  refine ⟨by simp [bucketSize], ?_, fun i hi => le_maxAbs (mem_column _ c hi)⟩
  rw [quantize_bucket]; exact bucketSize_nonneg hN _

/-- `dequantize (quantize x)` differs from `x` by at most half a bucket of the entry's column. -/
theorem roundtrip_half_bucket (N rows cols : Nat) (ed : Bool) (x : Nat → Nat → α) (hN : 1 ≤ N)
    (i c : Nat) (hi : i < rows) :
    |dequantize ed (quantize N rows cols ed x) i c - x i c|
      ≤ (quantize N rows cols ed x).bucket c / 2 := by
  have h := quantEntry_err hN (column rows (pre ed x) c) (mem_column (pre ed x) c hi)
  have e : dequantize ed (quantize N rows cols ed x) i c - x i c
      = dequantEntry (bucketSize N (column rows (pre ed x) c))
          (quantEntry (bucketSize N (column rows (pre ed x) c)) (pre ed x i c)) - pre ed x i c := by
    conv_lhs => rw [pre_add ed x i c]
    cases ed
    · simp [dequantize]
    · by_cases hic : i = c
      · subst hic; simp [dequantize]
      · simp [dequantize, hic]
  rw [e, quantize_bucket]
  exact h

/-- Every stored integer lies in `[-N, N]`: the most negative value `-N-1` (−128, −32768) is never
produced, so negation / absolute value of the payload cannot wrap. -/
theorem no_wrap (N rows cols : Nat) (ed : Bool) (x : Nat → Nat → α) (hN : 1 ≤ N)
    (i c : Nat) (hi : i < rows) :
    |(quantize N rows cols ed x).q i c| ≤ (N : Int) ∧
      (quantize N rows cols ed x).q i c ≠ -(N : Int) - 1 := by
  have h : |(quantize N rows cols ed x).q i c| ≤ (N : Int) := by
    rw [quantize_q]
    exact quantEntry_abs_le hN _ (mem_column (pre ed x) c hi)
  refine ⟨h, ?_⟩
  intro hc
  rw [hc] at h
  have := abs_le.mp h
  omega

/-- Zeros are stored as `0` and dequantize to exactly `0` (whatever the bucket). -/
theorem zero_exact (N rows cols : Nat) (ed : Bool) (x : Nat → Nat → α) (i c : Nat) (hx : x i c = 0) :
    (quantize N rows cols ed x).q i c = 0 ∧ dequantize ed (quantize N rows cols ed x) i c = 0 := by
  have hp : pre ed x i c = 0 := by
    cases ed
    · simpa [pre] using hx
    · by_cases hic : i = c
      · subst hic; exact pre_diag x i
      · simp [pre, offDiag, hic, hx]
  have hq : (quantize N rows cols ed x).q i c = 0 := by
    rw [quantize_q, hp]; exact quantEntry_zero _
  refine ⟨hq, ?_⟩
  cases ed
  · simp only [dequantize, hq]; simp [dequantEntry_zero]
  · by_cases hic : i = c
    · subst hic
      simp only [dequantize, hq, quantize_diag]
      simp [dequantEntry_zero, hx]
    · simp only [dequantize, hq]
      simp [dequantEntry_zero, hic]

/-- With `extract_diagonal`, the diagonal is kept outside the integer payload and reproduced exactly:
the stored diagonal is the diagonal, its payload entry is `0`, and `to_float` returns it unchanged. -/
theorem diagonal_exact (N rows cols : Nat) (x : Nat → Nat → α) (i : Nat) :
    (quantize N rows cols true x).diag i = x i i ∧
      (quantize N rows cols true x).q i i = 0 ∧
      dequantize true (quantize N rows cols true x) i i = x i i := by
  have hq : (quantize N rows cols true x).q i i = 0 := by
    rw [quantize_q, pre_diag]; exact quantEntry_zero _
  refine ⟨by simp, hq, ?_⟩
  simp only [dequantize, hq, quantize_diag]
  simp [dequantEntry_zero]

/-- In a column that is not identically zero some entry (one of largest magnitude) is stored as `±N`:
the full integer range is used, and the bucket can be recovered from the payload. -/
theorem max_hits_N (N rows cols : Nat) (ed : Bool) (x : Nat → Nat → α) (hN : 1 ≤ N) (c : Nat)
    (hm : 0 < maxAbs (column rows (pre ed x) c)) :
    ∃ i, i < rows ∧ |(quantize N rows cols ed x).q i c| = (N : Int) := by
  obtain ⟨y, hy, hq⟩ := quantEntry_max hN (column rows (pre ed x) c) hm
  unfold column at hy
  obtain ⟨i, hi, rfl⟩ := List.mem_map.mp hy
  exact ⟨i, List.mem_range.mp hi, by rw [quantize_q]; exact hq⟩

/-- Re-quantizing a dequantized value reproduces the same integers, the same bucket sizes and the same
diagonal: state that is carried but not updated does not drift. -/
theorem requantize_idempotent (N rows cols : Nat) (ed : Bool) (x : Nat → Nat → α) (hN : 1 ≤ N) :
    (∀ c, (requantize N rows cols ed (quantize N rows cols ed x)).bucket c
        = (quantize N rows cols ed x).bucket c) ∧
    (∀ i c, i < rows → (requantize N rows cols ed (quantize N rows cols ed x)).q i c
        = (quantize N rows cols ed x).q i c) ∧
    (∀ i, (requantize N rows cols ed (quantize N rows cols ed x)).diag i
        = (quantize N rows cols ed x).diag i) := by
  have hb : ∀ c, (requantize N rows cols ed (quantize N rows cols ed x)).bucket c
      = (quantize N rows cols ed x).bucket c := by
    intro c
    unfold requantize
    rw [quantize_bucket, quantize_bucket, column_pre_dequantize]
    exact bucketSize_dequant hN _
  refine ⟨hb, ?_, ?_⟩
  · intro i c hi
    have hbc := hb c
    unfold requantize at hbc ⊢
    rw [quantize_bucket, quantize_bucket] at hbc
    rw [quantize_q, hbc, pre_dequantize, quantize_q]
    exact quantEntry_dequant hN _ (mem_column (pre ed x) c hi)
  · intro i
    unfold requantize
    rw [quantize_diag, quantize_diag]
    cases ed
    · rfl
    · have := (diagonal_exact N rows cols x i).2.2
      simp only [if_true]
      exact this

/-- `jnp.round` semantics of the model: exact half-way ratios go to the even neighbour (no bias). -/
theorem round_ties_to_even (z : Int) :
    roundHalfEven ((z : α) + 1 / 2) = if z % 2 = 0 then z else z + 1 := round_tie z

/-! ### rounded arithmetic (floating-point error model) -/

/-- General form: every rounding commits a relative error `≤ u`; `eb = opErr rb u`, `er = opErr rr u` are
the errors of the computed bucket and ratio (`u`, or `2u+u²` for the reciprocal form).  The round trip
differs from `x` by at most `((1+eb)(1+u)/2 + N(er + u + er·u))` exact buckets `max|col| / N`. -/
theorem roundtrip_fp_general (fl : α → α) (u : α) (rb rr : Bool) (N rows cols : Nat) (ed : Bool)
    (x : Nat → Nat → α) (hN : 1 ≤ N) (hu : 0 ≤ u) (hfl : ∀ t, FlOK fl u t) (hub1 : opErr rb u < 1)
    (i c : Nat) (hi : i < rows) :
    |dequantizeFl fl ed (quantizeFl fl rb rr N rows cols ed x) i c - x i c|
      ≤ ((1 + opErr rb u) * (1 + u) / 2 + (N : α) * (opErr rr u + u + opErr rr u * u))
          * (maxAbs (column rows (pre ed x) c) / (N : α)) := by
  rw [dequantizeFl_sub hfl]
  have hmem := mem_column (pre ed x) c hi
  by_cases hm : 0 < maxAbs (column rows (pre ed x) c)
  · exact quantEntryFl_err hN _ hu hfl rb rr hub1 hm hmem
  · have h0 : maxAbs (column rows (pre ed x) c) = 0 := le_antisymm (not_lt.mp hm) (maxAbs_nonneg _)
    have hx0 : pre ed x i c = 0 := by
      have := le_maxAbs hmem
      rw [h0] at this
      exact abs_eq_zero.mp (le_antisymm this (abs_nonneg _))
    rw [hx0, quantEntryFl_zero hfl, dequantEntryFl_zero hfl, h0]
    simp

/-- **roundtrip_fp** (standard model: one rounding per operation, `rb = rr = false`).  For `N ≥ 2` and
`u ≤ 1/8` the round trip error is at most `(1/2 + 3·N·u)` exact buckets. -/
theorem roundtrip_fp (fl : α → α) (u : α) (N rows cols : Nat) (ed : Bool)
    (x : Nat → Nat → α) (hN : 2 ≤ N) (hu : 0 ≤ u) (hu8 : u ≤ 1 / 8) (hfl : ∀ t, FlOK fl u t)
    (i c : Nat) (hi : i < rows) :
    |dequantizeFl fl ed (quantizeFl fl false false N rows cols ed x) i c - x i c|
      ≤ (1 / 2 + 3 * (N : α) * u) * (maxAbs (column rows (pre ed x) c) / (N : α)) := by
  have hN1 : 1 ≤ N := by omega
  have h := roundtrip_fp_general fl u false false N rows cols ed x hN1 hu hfl
    (by simp only [opErr]; simp only [Bool.false_eq_true, if_false]; linarith) i c hi
  refine le_trans h (mul_le_mul_of_nonneg_right ?_ (div_nonneg (maxAbs_nonneg _) (natCast_pos'' hN1).le))
  have hN2 : (2 : α) ≤ (N : α) := by exact_mod_cast hN
  simp only [opErr, Bool.false_eq_true, if_false]
  nlinarith [mul_nonneg hu hu, mul_nonneg (sub_nonneg.mpr hN2) hu,
    mul_nonneg (mul_nonneg (sub_nonneg.mpr hN2) hu) (sub_nonneg.mpr hu8),
    mul_nonneg hu (sub_nonneg.mpr hu8)]

/-- **roundtrip_fp_xla** (what XLA-CPU really computes: each of the two divisions may be a rounded
division or a product with a rounded reciprocal, any `rb`, `rr`).  For `N·u ≤ 1/16` the round trip error
is at most `(1/2 + (3N+2)·u)` exact buckets.  float32: `u = 2⁻²⁴`, `N ≤ 32767`. -/
theorem roundtrip_fp_xla (fl : α → α) (u : α) (rb rr : Bool) (N rows cols : Nat) (ed : Bool)
    (x : Nat → Nat → α) (hN : 1 ≤ N) (hu : 0 ≤ u) (hNu : (N : α) * u ≤ 1 / 16) (hfl : ∀ t, FlOK fl u t)
    (i c : Nat) (hi : i < rows) :
    |dequantizeFl fl ed (quantizeFl fl rb rr N rows cols ed x) i c - x i c|
      ≤ (1 / 2 + (3 * (N : α) + 2) * u) * (maxAbs (column rows (pre ed x) c) / (N : α)) := by
  have hN1 : (1 : α) ≤ (N : α) := by exact_mod_cast hN
  have hu16 : u ≤ 1 / 16 := by nlinarith
  have hb := opErr_le hu rb
  have hr := opErr_le hu rr
  have hb0 := opErr_nonneg hu rb
  have hr0 := opErr_nonneg hu rr
  have huu : u ^ 2 ≤ u / 16 := by nlinarith
  have h := roundtrip_fp_general fl u rb rr N rows cols ed x hN hu hfl (by nlinarith) i c hi
  refine le_trans h (mul_le_mul_of_nonneg_right ?_ (div_nonneg (maxAbs_nonneg _) (natCast_pos'' hN).le))
  -- (1+eb)(1+u)/2 + N(er + u + er u) ≤ 1/2 + (3N+2)u with eb, er ≤ e := 2u+u²
  have hNuu : (N : α) * u ^ 2 ≤ u / 16 := by nlinarith
  have s1 : (1 + opErr rb u) * (1 + u) / 2 ≤ (1 + (2 * u + u ^ 2)) * (1 + u) / 2 := by
    have : (1 + opErr rb u) * (1 + u) ≤ (1 + (2 * u + u ^ 2)) * (1 + u) :=
      mul_le_mul_of_nonneg_right (by linarith) (by linarith)
    linarith
  have s2 : (N : α) * (opErr rr u + u + opErr rr u * u)
      ≤ (N : α) * ((2 * u + u ^ 2) + u + (2 * u + u ^ 2) * u) := by
    apply mul_le_mul_of_nonneg_left _ (by linarith)
    have : opErr rr u * u ≤ (2 * u + u ^ 2) * u := mul_le_mul_of_nonneg_right hr hu
    linarith
  have hNu3 : (N : α) * u ^ 3 ≤ u / 256 := by
    have : (N : α) * u ^ 3 = ((N : α) * u ^ 2) * u := by ring
    rw [this]
    nlinarith
  have hu3 : u ^ 3 ≤ u / 256 := by
    have : u ^ 3 = u ^ 2 * u := by ring
    rw [this]; nlinarith
  nlinarith

/-- **no_wrap_fp**.  In rounded arithmetic (any `rb`, `rr`) with `N·u ≤ 1/16` every stored integer still
lies in `[-N, N]`: the computed ratio of the largest entry is `N(1+δ₂)/(1+δ₁)`, which stays below
`N + 1/2` because `N(1+er) < (N+1/2)(1-eb)`.  (`q = N+1` needs `N(1+er) ≥ (N+1/2)(1-eb)`, i.e. about
`N ≥ 1/(8u)`; see `wrap_fp_witness`.) -/
theorem no_wrap_fp (fl : α → α) (u : α) (rb rr : Bool) (N rows cols : Nat) (ed : Bool)
    (x : Nat → Nat → α) (hN : 1 ≤ N) (hu : 0 ≤ u) (hNu : (N : α) * u ≤ 1 / 16) (hfl : ∀ t, FlOK fl u t)
    (i c : Nat) (hi : i < rows) :
    |(quantizeFl fl rb rr N rows cols ed x).q i c| ≤ (N : Int) ∧
      (quantizeFl fl rb rr N rows cols ed x).q i c ≠ -(N : Int) - 1 := by
  have hN1 : (1 : α) ≤ (N : α) := by exact_mod_cast hN
  have hu16 : u ≤ 1 / 16 := by nlinarith
  have hb := opErr_le hu rb
  have hr := opErr_le hu rr
  have huu : u ^ 2 ≤ u / 16 := by nlinarith
  have hNuu : (N : α) * u ^ 2 ≤ u / 16 := by nlinarith
  have h : |(quantizeFl fl rb rr N rows cols ed x).q i c| ≤ (N : Int) := by
    rw [quantizeFl_q]
    have hmem := mem_column (pre ed x) c hi
    by_cases hm : 0 < maxAbs (column rows (pre ed x) c)
    · refine quantEntryFl_abs_le hN _ hu hfl rb rr (by nlinarith) ?_ hm hmem
      have e1 : (N : α) * opErr rr u ≤ (N : α) * (2 * u + u ^ 2) := mul_le_mul_of_nonneg_left hr (by linarith)
      have e2 : (N : α) * opErr rb u ≤ (N : α) * (2 * u + u ^ 2) := mul_le_mul_of_nonneg_left hb (by linarith)
      nlinarith
    · have h0 : maxAbs (column rows (pre ed x) c) = 0 := le_antisymm (not_lt.mp hm) (maxAbs_nonneg _)
      have hx0 : pre ed x i c = 0 := by
        have := le_maxAbs hmem
        rw [h0] at this
        exact abs_eq_zero.mp (le_antisymm this (abs_nonneg _))
      rw [hx0, quantEntryFl_zero hfl]
      simp
  refine ⟨h, ?_⟩
  intro hc
  rw [hc] at h
  have := abs_le.mp h
  omega

/-- **max_hits_N_fp**.  Under the same hypotheses an entry of largest magnitude of a non-zero column is
still stored as exactly `±N`. -/
theorem max_hits_N_fp (fl : α → α) (u : α) (rb rr : Bool) (N rows cols : Nat) (ed : Bool)
    (x : Nat → Nat → α) (hN : 1 ≤ N) (hu : 0 ≤ u) (hNu : (N : α) * u ≤ 1 / 16) (hfl : ∀ t, FlOK fl u t)
    (c : Nat) (hm : 0 < maxAbs (column rows (pre ed x) c)) :
    ∃ i, i < rows ∧ |(quantizeFl fl rb rr N rows cols ed x).q i c| = (N : Int) := by
  have hN1 : (1 : α) ≤ (N : α) := by exact_mod_cast hN
  have hu16 : u ≤ 1 / 16 := by nlinarith
  have hb := opErr_le hu rb
  have hr := opErr_le hu rr
  have huu : u ^ 2 ≤ u / 16 := by nlinarith
  have hNuu : (N : α) * u ^ 2 ≤ u / 16 := by nlinarith
  have hcond : (N : α) * (1 + opErr rr u) < ((N : α) + 1 / 2) * (1 - opErr rb u) := by
    have e1 : (N : α) * opErr rr u ≤ (N : α) * (2 * u + u ^ 2) := mul_le_mul_of_nonneg_left hr (by linarith)
    have e2 : (N : α) * opErr rb u ≤ (N : α) * (2 * u + u ^ 2) := mul_le_mul_of_nonneg_left hb (by linarith)
    nlinarith
  obtain ⟨y, hy, hq⟩ := quantEntryFl_max hN (column rows (pre ed x) c) hu hfl rb rr (by nlinarith) hcond hm
  unfold column at hy
  obtain ⟨i, hi, rfl⟩ := List.mem_map.mp hy
  exact ⟨i, List.mem_range.mp hi, by rw [quantizeFl_q]; exact hq⟩

/-- **zero_exact_fp**, **diagonal_exact_fp**.  Zeros and the extracted diagonal are reproduced exactly in
rounded arithmetic as well. -/
theorem zero_exact_fp (fl : α → α) (u : α) (rb rr : Bool) (N rows cols : Nat) (ed : Bool)
    (x : Nat → Nat → α) (hfl : ∀ t, FlOK fl u t) (i c : Nat) (hx : x i c = 0) :
    dequantizeFl fl ed (quantizeFl fl rb rr N rows cols ed x) i c = 0 := by
  have hp : pre ed x i c = 0 := by
    cases ed
    · simpa [pre] using hx
    · by_cases hic : i = c
      · subst hic; exact pre_diag x i
      · simp [pre, offDiag, hic, hx]
  have h := dequantizeFl_sub hfl rb rr N rows cols ed x i c
  rw [hp, quantEntryFl_zero hfl, dequantEntryFl_zero hfl, hx] at h
  simpa using h

theorem diagonal_exact_fp (fl : α → α) (u : α) (rb rr : Bool) (N rows cols : Nat)
    (x : Nat → Nat → α) (hfl : ∀ t, FlOK fl u t) (i : Nat) :
    dequantizeFl fl true (quantizeFl fl rb rr N rows cols true x) i i = x i i := by
  have h := dequantizeFl_sub hfl rb rr N rows cols true x i i
  rw [pre_diag, quantEntryFl_zero hfl, dequantEntryFl_zero hfl] at h
  exact sub_eq_zero.mp (by simpa using h)

/-- The smallness of `N·u` is needed: with `u = 2⁻⁸` (bfloat16 arithmetic) and `N = 127` the standard model
admits a rounding function for which the single-entry column `[127]` is stored as `128 = N + 1`, which
does not fit int8.  (float32: `u = 2⁻²⁴`, so `N ≤ 32767` is far inside `no_wrap_fp`.) -/
theorem wrap_fp_witness :
    ∃ fl : ℚ → ℚ, (∀ t, FlOK fl (1 / 256) t) ∧
      quantEntryFl fl false (bucketSizeFl fl false 127 [127]) 127 = 128 := by
  refine ⟨fun t => if t = 1 then 1 - 1 / 256 else t * (1 + 1 / 256), ?_, by decide +kernel⟩
  intro t
  unfold FlOK
  by_cases ht : t = 1
  · subst ht; norm_num
  · simp only [if_neg ht]
    rw [show t * (1 + 1 / 256) - t = 1 / 256 * t by ring, abs_mul]
    norm_num

/-! ### the executed rounding function: no residual hypothesis on `fl` -/

/-- **fl32_obeys_model**.  The rounding function the driver runs (`fl32`: nearest-even to 24 significant
bits, on exact rationals) satisfies the error-model hypothesis with `u = 2⁻²⁴` on the whole normal range
(and above: `roundNE` has no overflow) and at zero. -/
theorem fl32_obeys_model (t : ℚ) (ht : t = 0 ∨ (1 : ℚ) / 2 ^ 126 ≤ |t|) :
    |fl32 t - t| ≤ 1 / 2 ^ 24 * |t| := fl32_FlOK t ht

/-- **bf16_cast_error**.  `astype(bfloat16)` (the passthrough dtype): a finite result of a value of
magnitude `≥ 2⁻¹²⁶` is within `2⁻⁸|x|` (half an 8-bit ulp) of `x`. -/
theorem bf16_cast_error (x r : ℚ) (h : bf16Round x = some r) (hx : (1 : ℚ) / 2 ^ 126 ≤ |x|) :
    |r - x| ≤ 1 / 2 ^ 8 * |x| := bf16Round_err h hx

/-- Rounded-arithmetic round trip for any `fl` that obeys the model only on `{0} ∪ {|t| ≥ lo}`, for a column
that satisfies the explicit guard `NormalCol lo N` (identically zero, or exact bucket `b` with
`2·lo ≤ b`, `2·b·lo ≤ 1`, `N·lo ≤ 1` and every non-zero entry `≥ 4·lo·b`). -/
theorem roundtrip_fp_xla_guarded (fl : α → α) (u lo : α) (rb rr : Bool) (N rows cols : Nat) (ed : Bool)
    (x : Nat → Nat → α) (hN : 1 ≤ N) (hu : 0 ≤ u) (hNu : (N : α) * u ≤ 1 / 16) (hlo : 0 ≤ lo)
    (hfl : FlOKAbove fl u lo) (i c : Nat) (hi : i < rows)
    (hg : NormalCol lo N (column rows (pre ed x) c)) :
    |dequantizeFl fl ed (quantizeFl fl rb rr N rows cols ed x) i c - x i c|
      ≤ (1 / 2 + (3 * (N : α) + 2) * u) * (maxAbs (column rows (pre ed x) c) / (N : α)) := by
  have hN1 : (1 : α) ≤ (N : α) := by exact_mod_cast hN
  have hu16 : u ≤ 1 / 16 := by nlinarith
  rw [dequantizeFl_sub' hfl.zero]
  have hmem := mem_column (pre ed x) c hi
  by_cases hm : 0 < maxAbs (column rows (pre ed x) c)
  · rcases hg with h0 | ⟨g1, g2, g4, g3⟩
    · exact absurd h0 hm.ne'
    · obtain ⟨hub1, h1, h2, h3, h4⟩ :=
        quantEntryFl_spec_guard hN _ hu hu16 hlo hfl rb rr hm g1 g2 g4 (g3 _ hmem)
      have h := fp_core hN rfl hm (le_maxAbs hmem) (opErr_nonneg hu rb) hub1 (opErr_nonneg hu rr) hu h1 h2 h3 h4
      exact le_trans h (mul_le_mul_of_nonneg_right (xla_bound_le hN hu hNu rb rr)
        (div_nonneg (maxAbs_nonneg _) (natCast_pos'' hN).le))
  · have h0 : maxAbs (column rows (pre ed x) c) = 0 := le_antisymm (not_lt.mp hm) (maxAbs_nonneg _)
    have hx0 : pre ed x i c = 0 := by
      have := le_maxAbs hmem
      rw [h0] at this
      exact abs_eq_zero.mp (le_antisymm this (abs_nonneg _))
    rw [hx0, quantEntryFl_zero' hfl.zero, dequantEntryFl_zero' hfl.zero, h0]
    simp

/-- no wrap and full range under the same guard -/
theorem no_wrap_fp_guarded (fl : α → α) (u lo : α) (rb rr : Bool) (N rows cols : Nat) (ed : Bool)
    (x : Nat → Nat → α) (hN : 1 ≤ N) (hu : 0 ≤ u) (hNu : (N : α) * u ≤ 1 / 16) (hlo : 0 ≤ lo)
    (hfl : FlOKAbove fl u lo) (i c : Nat) (hi : i < rows)
    (hg : NormalCol lo N (column rows (pre ed x) c)) :
    |(quantizeFl fl rb rr N rows cols ed x).q i c| ≤ (N : Int) ∧
      (0 < maxAbs (column rows (pre ed x) c) → |pre ed x i c| = maxAbs (column rows (pre ed x) c) →
        |(quantizeFl fl rb rr N rows cols ed x).q i c| = (N : Int)) := by
  have hN1 : (1 : α) ≤ (N : α) := by exact_mod_cast hN
  have hu16 : u ≤ 1 / 16 := by nlinarith
  rw [quantizeFl_q]
  have hmem := mem_column (pre ed x) c hi
  by_cases hm : 0 < maxAbs (column rows (pre ed x) c)
  · rcases hg with h0 | ⟨g1, g2, g4, g3⟩
    · exact absurd h0 hm.ne'
    · obtain ⟨hub1, h1, h2, h3, _⟩ :=
        quantEntryFl_spec_guard hN _ hu hu16 hlo hfl rb rr hm g1 g2 g4 (g3 _ hmem)
      exact ⟨fp_nowrap_core hN rfl hm (le_maxAbs hmem) (opErr_nonneg hu rb) hub1 (opErr_nonneg hu rr) h1 h2 h3
          (xla_cond hN hu hNu rb rr),
        fun _ hmax => fp_maxhit_core hN rfl hm hmax (opErr_nonneg hu rb) hub1 (opErr_nonneg hu rr) h1 h2 h3
          (xla_cond hN hu hNu rb rr)⟩
  · have h0 : maxAbs (column rows (pre ed x) c) = 0 := le_antisymm (not_lt.mp hm) (maxAbs_nonneg _)
    have hx0 : pre ed x i c = 0 := by
      have := le_maxAbs hmem
      rw [h0] at this
      exact abs_eq_zero.mp (le_antisymm this (abs_nonneg _))
    rw [hx0, quantEntryFl_zero' hfl.zero]
    exact ⟨by simp, fun h => absurd h hm⟩

/-- **roundtrip_fp_xla_fl32**.  The *executed* model `quantizeFl fl32 …` (float32 rounding after every
operation, any division variant `rb`, `rr`), for every `N` with `N·2⁻²⁴ ≤ 1/16`, round-trips every entry of
a column satisfying the decidable guard `NormalCol 2⁻¹²⁶ N` (the column is zero, or
`2⁻¹²⁵ ≤ max|col|/N ≤ 2¹²⁵`, `N ≤ 2¹²⁶`, non-zero entries `≥ 2⁻¹²⁴·max|col|/N`: every rounded operation
stays in the float32 normal range) within `(1/2 + (3N+2)·2⁻²⁴)` exact buckets.  No hypothesis on `fl`. -/
theorem roundtrip_fp_xla_fl32 (rb rr : Bool) (N rows cols : Nat) (ed : Bool) (x : Nat → Nat → ℚ)
    (hN : 1 ≤ N) (hNu : (N : ℚ) * (1 / 2 ^ 24) ≤ 1 / 16) (i c : Nat) (hi : i < rows)
    (hg : NormalCol (1 / 2 ^ 126) N (column rows (pre ed x) c)) :
    |dequantizeFl fl32 ed (quantizeFl fl32 rb rr N rows cols ed x) i c - x i c|
      ≤ (1 / 2 + (3 * (N : ℚ) + 2) * (1 / 2 ^ 24)) * (maxAbs (column rows (pre ed x) c) / (N : ℚ)) :=
  roundtrip_fp_xla_guarded fl32 (1 / 2 ^ 24) (1 / 2 ^ 126) rb rr N rows cols ed x hN (by positivity) hNu
    (by positivity) fl32_FlOKAbove i c hi hg

/-- the guard as the driver evaluates it (`normalColB`, reported per column by op `quantize_fl32`) -/
theorem guard_is_executed (lo : ℚ) (N : Nat) (col : List ℚ) :
    normalColB lo N col = true ↔ NormalCol lo N col := normalColB_iff lo N col

/-- **no_wrap_fp_fl32**.  Under the same guard the executed model never stores an integer outside `[-N, N]`
and stores the entries of largest magnitude as exactly `±N`. -/
theorem no_wrap_fp_fl32 (rb rr : Bool) (N rows cols : Nat) (ed : Bool) (x : Nat → Nat → ℚ)
    (hN : 1 ≤ N) (hNu : (N : ℚ) * (1 / 2 ^ 24) ≤ 1 / 16) (i c : Nat) (hi : i < rows)
    (hg : NormalCol (1 / 2 ^ 126) N (column rows (pre ed x) c)) :
    |(quantizeFl fl32 rb rr N rows cols ed x).q i c| ≤ (N : Int) ∧
      (0 < maxAbs (column rows (pre ed x) c) → |pre ed x i c| = maxAbs (column rows (pre ed x) c) →
        |(quantizeFl fl32 rb rr N rows cols ed x).q i c| = (N : Int)) :=
  no_wrap_fp_guarded fl32 (1 / 2 ^ 24) (1 / 2 ^ 126) rb rr N rows cols ed x hN (by positivity) hNu
    (by positivity) fl32_FlOKAbove i c hi hg

/-- **requantize_idempotent_fp**.  In rounded arithmetic (standard model, `N·u ≤ 1/32`; the second
quantization may use other division variants `rb'`, `rr'`) re-quantizing a dequantized value reproduces
every stored *integer*.  The bucket size is not reproduced exactly in general: it is
`fl(fl(N·b)/N)`, within `(u + e + u·e) ≤ 4u` relative of the stored one (observed on the real code: 1 ulp),
which is why the statement is about the integers — the ratio of a dequantized entry to the new bucket is
`q(1+θ)` with `N·|θ| < 1/2`. -/
theorem requantize_idempotent_fp (fl : α → α) (u : α) (rb rr rb' rr' : Bool) (N rows cols : Nat) (ed : Bool)
    (x : Nat → Nat → α) (hN : 1 ≤ N) (hu : 0 ≤ u) (hNu : (N : α) * u ≤ 1 / 32) (hfl : ∀ t, FlOK fl u t)
    (i c : Nat) (hi : i < rows) :
    (quantizeFl fl rb' rr' N rows cols ed
        (dequantizeFl fl ed (quantizeFl fl rb rr N rows cols ed x))).q i c
      = (quantizeFl fl rb rr N rows cols ed x).q i c := by
  have h0 := fl_zero hfl
  rw [quantizeFl_q, column_pre_dequantizeFl h0, pre_dequantizeFl h0, quantizeFl_q]
  have hmem := mem_column (pre ed x) c hi
  by_cases hm : 0 < maxAbs (column rows (pre ed x) c)
  · exact quantEntryFl_requant hN _ hu hNu hfl rb rr rb' rr' hm hmem
  · have hm0 : maxAbs (column rows (pre ed x) c) = 0 := le_antisymm (not_lt.mp hm) (maxAbs_nonneg _)
    have hx0 : pre ed x i c = 0 := by
      have := le_maxAbs hmem
      rw [hm0] at this
      exact abs_eq_zero.mp (le_antisymm this (abs_nonneg _))
    rw [hx0, quantEntryFl_zero' h0, dequantEntryFl_zero' h0, quantEntryFl_zero' h0]

/-! ### dtype dispatch: float32 / bfloat16 are casts, int8 / int16 are the bucketed model -/

/-- `quantized_dtype == float32`: `to_float (from_float_value x) = x` (the payload *is* `x`) -/
theorem float32_passthrough (cast : α → α) (rows cols : Nat) (ed : Bool) (x : Nat → Nat → α) :
    toFloatAny ed (quantizeAny cast .float32 rows cols ed x) = x := rfl

/-- `quantized_dtype == bfloat16`: `to_float (from_float_value x)` is the cast of `x`, entry by entry,
whatever `extract_diagonal`; so it is the identity exactly on the values the cast fixes, and
re-quantizing is idempotent as soon as the cast is. -/
theorem bfloat16_is_cast (cast : α → α) (rows cols : Nat) (ed : Bool) (x : Nat → Nat → α) (i c : Nat) :
    toFloatAny ed (quantizeAny cast .bfloat16 rows cols ed x) i c = cast (x i c) := rfl

theorem bfloat16_requantize_idempotent (cast : α → α) (hc : ∀ t, cast (cast t) = cast t)
    (rows cols : Nat) (ed : Bool) (x : Nat → Nat → α) (i c : Nat) :
    toFloatAny ed (quantizeAny cast .bfloat16 rows cols ed
        (toFloatAny ed (quantizeAny cast .bfloat16 rows cols ed x))) i c
      = toFloatAny ed (quantizeAny cast .bfloat16 rows cols ed x) i c := hc _

/-- int8 / int16 are the bucketed model with `N = 127` / `32767` (so every theorem above applies) -/
theorem int_dtypes_bucketed (cast : α → α) (rows cols : Nat) (ed : Bool) (x : Nat → Nat → α) :
    toFloatAny ed (quantizeAny cast .int8 rows cols ed x) = dequantize ed (quantize 127 rows cols ed x) ∧
    toFloatAny ed (quantizeAny cast .int16 rows cols ed x) = dequantize ed (quantize 32767 rows cols ed x) ∧
    numBuckets .int8 = some 127 ∧ numBuckets .int16 = some 32767 ∧
    numBuckets .bfloat16 = none ∧ numBuckets .float32 = none :=
  ⟨rfl, rfl, rfl, rfl, rfl, rfl⟩

/-- which dtype each call site of `distributed_shampoo` / `sm3` asks for: momentum buffers are int8 only
with `best_effort_memory_usage_reduction` and rank > 1; statistics / preconditioners are int16 only on the
pmap path without low-rank compression; diagonal statistics are never bucketed; SM3 momentum always is -/
theorem call_site_dtypes (be lowRank fd pmapAxis sharded : Bool) (rank : Nat) :
    (dsMomentumDtype be rank = .int8 ↔ be = true ∧ 1 < rank) ∧
    (dsMomentumDtype be rank ≠ .int8 → dsMomentumDtype be rank = .float32) ∧
    (dsSecondMomentDtype be lowRank fd pmapAxis sharded = .int16 ↔
        be = true ∧ lowRank = false ∧ fd = false ∧ pmapAxis = true ∧ sharded = false) ∧
    (dsSecondMomentDtype be lowRank fd pmapAxis sharded ≠ .int16 →
        dsSecondMomentDtype be lowRank fd pmapAxis sharded = .float32) ∧
    dsDiagonalStatisticsDtype = .float32 ∧ sm3MomentumDtype = .int8 := by
  refine ⟨?_, ?_, ?_, ?_, rfl, rfl⟩
  · unfold dsMomentumDtype
    by_cases h : 1 < rank <;> cases be <;> simp [h]
  · unfold dsMomentumDtype
    by_cases h : 1 < rank <;> cases be <;> simp [h]
  · unfold dsSecondMomentDtype
    cases be <;> cases lowRank <;> cases fd <;> cases pmapAxis <;> cases sharded <;> simp
  · unfold dsSecondMomentDtype
    cases be <;> cases lowRank <;> cases fd <;> cases pmapAxis <;> cases sharded <;> simp

/-! ### non-vacuity: the hypotheses are satisfiable, at the executed type -/

/-- the theorems apply to the very term the driver evaluates (`Rat`, core instances) -/
example (N rows cols : Nat) (ed : Bool) (x : Nat → Nat → Rat) (hN : 1 ≤ N) (i c : Nat) (hi : i < rows) :
    |dequantize ed (quantize N rows cols ed x) i c - x i c|
      ≤ (quantize N rows cols ed x).bucket c / 2 :=
  roundtrip_half_bucket N rows cols ed x hN i c hi

/-- int8 on the column `[1/2, -127, 3/2]`: integers `[0, -127, 2]` (tie to even both ways), bucket 1 -/
example :
    (quantizeFlat (α := Rat) 127 [3] false #[1/2, -127, 3/2]).q = [0, -127, 2] ∧
    (quantizeFlat (α := Rat) 127 [3] false #[1/2, -127, 3/2]).bucket = [1] := by
  decide +kernel

/-- a non-zero column exists (`max_hits_N` hypothesis), 2×2 with extracted diagonal -/
example : 0 < maxAbs (column 2 (pre true (fromFlat (α := Rat) 2 #[1, 2, 3, 4])) 0) := by
  decide +kernel

/-- the lawful-floor hypothesis holds for any Mathlib `FloorRing` field (ℝ, ℚ, …) -/
example (β : Type) [Field β] [LinearOrder β] [IsStrictOrderedRing β] [FloorRing β] :
    @LawfulFloor β _ _ (HasFloor.ofFloorRing β) := LawfulFloor.ofFloorRing β

/-- the floating-point hypotheses are satisfiable at ℚ with the float32 unit roundoff `u = 2⁻²⁴` and
`N = 32767` (int16): `0 ≤ u`, `N·u ≤ 1/16`, and a rounding function obeying the standard model that is
not the identity (it always errs by the full `u`) -/
example :
    (0 : ℚ) ≤ 1 / 2 ^ 24 ∧ ((32767 : Nat) : ℚ) * (1 / 2 ^ 24) ≤ 1 / 16 ∧ (1 : ℚ) / 2 ^ 24 ≤ 1 / 8 ∧
    (∀ t : ℚ, FlOK (fun t => t * (1 + 1 / 2 ^ 24)) (1 / 2 ^ 24) t) := by
  refine ⟨by norm_num, by norm_num, by norm_num, fun t => ?_⟩
  exact FlOK.of_delta (δ := 1 / 2 ^ 24) (by norm_num) rfl

/-- … and the theorems apply to the term the driver evaluates (`quantizeFl` at `Rat`) for such an `fl` -/
example (rows cols : Nat) (ed : Bool) (x : Nat → Nat → Rat) (rb rr : Bool) (i c : Nat) (hi : i < rows) :
    |dequantizeFl (fun t => t * (1 + 1 / 2 ^ 24)) ed
        (quantizeFl (fun t => t * (1 + 1 / 2 ^ 24)) rb rr 32767 rows cols ed x) i c - x i c|
      ≤ (1 / 2 + (3 * ((32767 : Nat) : ℚ) + 2) * (1 / 2 ^ 24))
          * (maxAbs (column rows (pre ed x) c) / ((32767 : Nat) : ℚ)) :=
  roundtrip_fp_xla _ (1 / 2 ^ 24) rb rr 32767 rows cols ed x (by norm_num) (by norm_num) (by norm_num)
    (fun t => FlOK.of_delta (δ := 1 / 2 ^ 24) (by norm_num) rfl) i c hi

/-- float32 rounding on a concrete int8 column: `[1/3, -1, 1/7]` rounded to float32 first -/
example :
    (quantizeFlatFl fl32 true true 127 [3] false #[fl32 (1/3), -1, fl32 (1/7)]).q = [42, -127, 18] := by
  decide +kernel

/-- the guard of `roundtrip_fp_xla_fl32` is decidable and holds for an ordinary int16 column -/
example : NormalCol (1 / 2 ^ 126 : ℚ) 32767 (column 3 (fromFlat 1 #[fl32 (1/3), -1, 0]) 0) := by
  decide +kernel

end PrecondVerif.C11
