/-
C06 (continued) — "preconditioning with identity matrices returns the gradient unchanged".

The clause is about `Preconditioner.preconditioned_grad`, whose model (`lowPrecondGrad`: reshape → `partition` →
per block `_preconds_for_grad` + the rotate-and-`tensordot` loop → `merge_partitions` → reshape) lives with C02
(`Model/DShampoo.lean`, executed by `drv_c02`), and C02 imports C06 — hence this separate file. It combines C02's
`rotate_tensordot_eq_mode_products` with C06's `merge_partition_congr`. Audited as part of C06's obligations
(`extra_props=("Gen", "C06b")` in `harness/props/c06.py`).
-/
import PrecondVerif.Props.C02
import PrecondVerif.Lemmas.DShampooId

namespace PrecondVerif.C06b
open PrecondVerif.Shapes PrecondVerif.DShampoo

variable {α : Type} [CommRing α]

/-- One block: the loop of `_precondition_block` (cyclic transpose on unpreconditioned axes, `tensordot` with the
slot's matrix on preconditioned ones) with identity matrices in the slots returns the block: same shape, same
entry at every in-bounds index — every rank, every pattern of `None` slots. -/
theorem identity_block_is_id (g : Tensor α) (slots : List (Option (Mx α)))
    (hlen : slots.length = g.shape.length) (hid : ∀ P, some P ∈ slots → IsIdMx P) :
    (lowBlock g slots).Eqv g := by
  obtain ⟨h1, _, h3⟩ := C02.rotate_tensordot_eq_mode_products g slots hlen
  have hs : (specBlock g slots).Eqv g :=
    specBlockFrom_id slots 0 g g hid (by omega) (Tensor.Eqv.refl g)
  refine ⟨h1, ?_⟩
  intro idx hi
  rw [h1] at hi
  rw [h3 idx (inBounds_length hi)]
  exact hs.2 idx (hs.1 ▸ hi)

/-- **Identity preconditioning is the identity**: `preconditioned_grad` (reshape to the merged shape, partition
into blocks, precondition every block with the slots `_preconds_for_grad` hands out, `merge_partitions`, reshape
back) returns the gradient unchanged — the assert of `merge_partitions` holds — whenever every slot it reads
(`< #blocks × #preconditioned axes`) holds an identity matrix. Every rank, shape with dims ≥ 1, block size, merge
limit, `best_effort_shape_interpretation`, and ALL / INPUT / OUTPUT. -/
theorem identity_preconditioning_is_id [Inhabited α] (G : Geom) (P : List (Mx α)) (g : List α)
    (hg : g.length = prod G.shape) (hd : ∀ d ∈ G.shape, 1 ≤ d)
    (hP : ∀ ix, ix < (G.blocks g).length * G.k → IsIdMx (P.getD ix Mx.zero)) :
    lowPrecondGrad G P g = some g := lowPrecondGrad_identity G P g hg hd hP

/-- … in particular with the list the oracle builds: one `jnp.eye` per shape announced by
`shapes_for_preconditioners` (whose length is exactly #blocks × #preconditioned axes, C06
`precond_shapes_agree_with_blocks`). -/
theorem identity_preconditioning_announced_is_id [Inhabited α] (G : Geom) (r : Nat) (g : List α)
    (hg : g.length = prod G.shape) (hd : ∀ d ∈ G.shape, 1 ≤ d) :
    lowPrecondGrad G ((shapesForPreconditioners G.ptype r G.tshape G.block).map fun _ => precondInit) g =
      some g := lowPrecondGrad_identity_announced G r g hg hd

/-- the documented form (`specPrecondGrad`: blocked mode products) agrees, hence is the identity too -/
theorem identity_preconditioning_spec_is_id [Inhabited α] (G : Geom) (P : List (Mx α)) (g : List α)
    (hg : g.length = prod G.shape) (hd : ∀ d ∈ G.shape, 1 ≤ d)
    (hP : ∀ ix, ix < (G.blocks g).length * G.k → IsIdMx (P.getD ix Mx.zero)) :
    specPrecondGrad G P g = some g := by
  rw [← (lowPrecondGrad_eq_specPrecondGrad G P g).1]
  exact lowPrecondGrad_identity G P g hg hd hP

/-! non-vacuity: a 2×3 gradient, block size 2, OUTPUT preconditioning: 2 blocks × 1 axis = 2 identity slots -/
example : IsIdMx (precondInit : Mx ℚ) := precondInit_isId
example : (shapesForPreconditioners .output 0 [2, 3] 2).length = 2 := by decide

end PrecondVerif.C06b
