/-
C01 — inverse p-th root is accurate and its reported error is honest.

Theorems about the definitions of `Model/InvRoot.lean` that `drv_c01` executes (`matPower`, `newtonRoot` =
`newtonOuter`/`outerBody`/`newtonInner`/`iterBody` over `matAlg`, `oneByOne`, `eighRoot`, `powerIteration`), for
every size `n`, padding start `s`, exponent `p`, symmetric input, ridge, and constants in the stated ranges
(`1 < max_error_ratio`, `0 ≤ error_tolerance`, `1 ≤ num_tries`), over any linearly ordered field.  Kernels are
parameters with their specification as hypotheses: `sqrt x ≥ 0`, `rootp z ^ p = z` for `z ≥ 0`,
`invroot x ^ p * x = 1` for `x > 0`, `cast32 x = x` (exact arithmetic), the `eigh` factorisation.
Matrices are read in Mathlib's `Matrix (Fin n) (Fin n) α` through `toM` / `Matrix.of`; `Es α n s` is the masked
identity `I_s`, `dampedM s A d = mask(A) + d·I_s`, `Ds s X = max|X − I_s|`.

Not proved here (decided on executed inputs only): rounding slack and finiteness in IEEE arithmetic, LOBPCG accuracy.
-/
import PrecondVerif.Lemmas.InvRoot

set_option linter.unusedSectionVars false

namespace PrecondVerif.C01
open PrecondVerif.InvRoot Matrix

variable {α : Type} [Field α] [LinearOrder α] [IsStrictOrderedRing α] {n : Nat}

/-- `mat_power`: the squaring loop returns `x^p`, in any monoid. -/
theorem matPower_eq_pow {M : Type} [Monoid M] (x : M) (p : Nat) : matPower (· * ·) 1 x p = x ^ p := by
  have := matPowerLoop_rep (R := M) (· * ·) id (fun _ _ => rfl) p 1 x
  simpa [matPower] using this

/-- `mat_power` on the executed matrix carrier is the matrix power. -/
theorem matPower_matrix (s : Nat) (sqrt : α → α) (X : DMat α n) (p : Nat) :
    toM (matPower (matAlg n s sqrt).mul (matAlg n s sqrt).one X p) = toM X ^ p :=
  (matAlg_rep s sqrt).matPower X p

/-- Newton invariant: every state the inner loop of try `i` reaches (any number of steps `f`) satisfies
`M = H^p · A_d`, and `H`, `M`, `A_d`, `I_s` commute / absorb, with `A_d = mask(A) + ridge·10^i·I_s`. -/
theorem newton_invariant (s : Nat) (c : NConsts α) (p : Nat) (pα alpha : α) (sqrt rootp : α → α)
    (A : Mat α n n) (ridge : α) (htol : 0 ≤ c.tol) (hp : 0 ≤ pα)
    (hroot : ∀ z, 0 ≤ z → rootp z ^ p = z) (hsqrt : ∀ x, 0 ≤ sqrt x) (i f : Nat) :
    let st := newtonInner (matAlg n s sqrt) c p alpha f
        (innerInit (matAlg n s sqrt) pα rootp (DMat.tab (Mat.mask s A)) ridge i)
    let Ad := dampedM s A (ridge * 10 ^ i)
    toM st.m = toM st.h ^ p * Ad ∧ Commute (toM st.h) Ad ∧ Commute (toM st.m) Ad ∧
      Es α n s * toM st.h = toM st.h ∧ toM st.h * Es α n s = toM st.h ∧ st.err = Ds s (toM st.m) := by
  intro st Ad
  have inv := reach_inv s c p pα alpha sqrt rootp A ridge htol hp hroot hsqrt i f
  refine ⟨inv.hm, inv.hc, ?_, inv.he, inv.he', inv.herr⟩
  rw [inv.hm]; exact (inv.hc.pow_left p).mul_left (Commute.refl _)

/-- Honesty of the reported error: for the returned `(X, err, retries)` of the Newton routine,
`retries ≥ 1` and `max|X^p · A_d(retries−1) − I_s| ≤ err` entrywise, with equality of the maximum on the converged
branch (`ratio < max_error_ratio`).  The hypothesis `1 < max_error_ratio` is consumed on the diverged branch, where
`X = H_old`, whose own residual is `err / ratio`. -/
theorem newton_error_honest (s : Nat) (hs : s ≠ 0) (c : NConsts α) (p : Nat) (pα alpha : α)
    (sqrt rootp cast32 : α → α) (thousand epsFloor eps maxEv : α) (A : Mat α n n)
    (hr : 1 < c.rmax) (htol : 0 ≤ c.tol) (hnt : 1 ≤ c.numTries) (hp : 0 ≤ pα)
    (hroot : ∀ z, 0 ≤ z → rootp z ^ p = z) (hsqrt : ∀ x, 0 ≤ sqrt x) (hcast : ∀ x, cast32 x = x) :
    let r := newtonRoot s c p pα alpha sqrt rootp cast32 thousand epsFloor eps maxEv A
    let Ad := dampedM s A (ridgeOf eps maxEv epsFloor * 10 ^ (r.retries - 1))
    1 ≤ r.retries ∧ (∀ i j, |((Matrix.of r.x) ^ p * Ad - Es α n s) i j| ≤ r.err) ∧
      (r.ratio < c.rmax → Ds s ((Matrix.of r.x) ^ p * Ad) = r.err) := by
  intro r Ad
  obtain ⟨k, hk⟩ := newtonOuter_cases (matAlg n s sqrt) c p pα alpha rootp cast32 thousand
    (DMat.tab (Mat.mask s A)) (ridgeOf eps maxEv epsFloor) hnt
  have inv := reach_inv s c p pα alpha sqrt rootp A (ridgeOf eps maxEv epsFloor) htol hp hroot hsqrt k c.numIters
  have hon := blend_honest (matAlg_rep (α := α) (n := n) s sqrt) c hr inv
  have hr_retries : r.retries = k + 1 := by simp [r, newtonRoot, hs, hk, outerBody]
  have hr_x : Matrix.of r.x = toM (blend (matAlg n s sqrt) c (newtonInner (matAlg n s sqrt) c p alpha c.numIters
      (innerInit (matAlg n s sqrt) pα rootp (DMat.tab (Mat.mask s A)) (ridgeOf eps maxEv epsFloor) k))) := by
    simp [r, newtonRoot, hs, hk, outerBody, toM]
  have hr_err : r.err = (matAlg n s sqrt).dist (newtonInner (matAlg n s sqrt) c p alpha c.numIters
      (innerInit (matAlg n s sqrt) pα rootp (DMat.tab (Mat.mask s A)) (ridgeOf eps maxEv epsFloor) k)).m := by
    simp [r, newtonRoot, hs, hk, outerBody, hcast]
  have hr_ratio : r.ratio = (newtonInner (matAlg n s sqrt) c p alpha c.numIters
      (innerInit (matAlg n s sqrt) pα rootp (DMat.tab (Mat.mask s A)) (ridgeOf eps maxEv epsFloor) k)).ratio := by
    simp [r, newtonRoot, hs, hk, outerBody]
  have hAd : Ad = dampedM s A (ridgeOf eps maxEv epsFloor * 10 ^ k) := by
    simp only [Ad, hr_retries, Nat.add_sub_cancel]
  refine ⟨by omega, ?_, ?_⟩
  · intro i j
    rw [hAd, hr_x, hr_err]
    refine le_trans ?_ hon.1
    have := le_maxAbs (Mat.sub (fun a b => (toM (blend (matAlg n s sqrt) c (newtonInner (matAlg n s sqrt) c p alpha
      c.numIters (innerInit (matAlg n s sqrt) pα rootp (DMat.tab (Mat.mask s A)) (ridgeOf eps maxEv epsFloor) k))) ^ p *
      dampedM s A (ridgeOf eps maxEv epsFloor * 10 ^ k)) a b) (Mat.maskedId s)) i j
    simpa [Ds, Mat.sub, Es, Matrix.sub_apply] using this
  · intro hconv
    rw [hAd, hr_x, hr_err]
    exact hon.2 (by rw [← hr_ratio]; exact hconv)

/-- the `padding_start == 0` override: an all-padding input returns the zero matrix with error `0` -/
theorem newton_all_padding (c : NConsts α) (p : Nat) (pα alpha : α) (sqrt rootp cast32 : α → α)
    (thousand epsFloor eps maxEv : α) (A : Mat α n n) :
    (newtonRoot 0 c p pα alpha sqrt rootp cast32 thousand epsFloor eps maxEv A).x = (fun _ _ => 0) ∧
      (newtonRoot 0 c p pα alpha sqrt rootp cast32 thousand epsFloor eps maxEv A).err = 0 := by
  simp [newtonRoot]

/-- the returned root is exactly zero on padding rows and columns -/
theorem newton_padding_zero (s : Nat) (c : NConsts α) (p : Nat) (pα alpha : α)
    (sqrt rootp cast32 : α → α) (thousand epsFloor eps maxEv : α) (A : Mat α n n)
    (htol : 0 ≤ c.tol) (hnt : 1 ≤ c.numTries) (hp : 0 ≤ pα)
    (hroot : ∀ z, 0 ≤ z → rootp z ^ p = z) (hsqrt : ∀ x, 0 ≤ sqrt x) (i j : Fin n)
    (hij : s ≤ i.val ∨ s ≤ j.val) :
    (newtonRoot s c p pα alpha sqrt rootp cast32 thousand epsFloor eps maxEv A).x i j = 0 := by
  by_cases hs : s = 0
  · subst hs; simp [newtonRoot]
  obtain ⟨k, hk⟩ := newtonOuter_cases (matAlg n s sqrt) c p pα alpha rootp cast32 thousand
    (DMat.tab (Mat.mask s A)) (ridgeOf eps maxEv epsFloor) hnt
  have inv := reach_inv s c p pα alpha sqrt rootp A (ridgeOf eps maxEv epsFloor) htol hp hroot hsqrt k c.numIters
  have hb := (matAlg_rep (α := α) (n := n) s sqrt).blend c (newtonInner (matAlg n s sqrt) c p alpha c.numIters
      (innerInit (matAlg n s sqrt) pα rootp (DMat.tab (Mat.mask s A)) (ridgeOf eps maxEv epsFloor) k))
  have hx : (newtonRoot s c p pα alpha sqrt rootp cast32 thousand epsFloor eps maxEv A).x i j =
      toM (blend (matAlg n s sqrt) c (newtonInner (matAlg n s sqrt) c p alpha c.numIters
      (innerInit (matAlg n s sqrt) pα rootp (DMat.tab (Mat.mask s A)) (ridgeOf eps maxEv epsFloor) k))) i j := by
    simp [newtonRoot, hs, hk, outerBody, toM]
  rw [hx]
  apply zero_of_Es_mul s _ _ _ i j hij
  · rw [hb]; split
    · exact inv.he
    · exact inv.hoe
  · rw [hb]; split
    · exact inv.he'
    · exact inv.hoe'

/-- the returned root of a symmetric input is symmetric -/
theorem newton_symmetric (s : Nat) (c : NConsts α) (p : Nat) (pα alpha : α)
    (sqrt rootp cast32 : α → α) (thousand epsFloor eps maxEv : α) (A : Mat α n n) (hA : ∀ i j, A i j = A j i)
    (htol : 0 ≤ c.tol) (hnt : 1 ≤ c.numTries) (hp : 0 ≤ pα)
    (hroot : ∀ z, 0 ≤ z → rootp z ^ p = z) (hsqrt : ∀ x, 0 ≤ sqrt x) (i j : Fin n) :
    (newtonRoot s c p pα alpha sqrt rootp cast32 thousand epsFloor eps maxEv A).x i j =
      (newtonRoot s c p pα alpha sqrt rootp cast32 thousand epsFloor eps maxEv A).x j i := by
  by_cases hs : s = 0
  · subst hs; simp [newtonRoot]
  obtain ⟨k, hk⟩ := newtonOuter_cases (matAlg n s sqrt) c p pα alpha rootp cast32 thousand
    (DMat.tab (Mat.mask s A)) (ridgeOf eps maxEv epsFloor) hnt
  have hsym := reach_sym s c p pα alpha sqrt rootp A (ridgeOf eps maxEv epsFloor) htol hp hroot hsqrt hA k c.numIters
  have hb := (matAlg_rep (α := α) (n := n) s sqrt).blend c (newtonInner (matAlg n s sqrt) c p alpha c.numIters
      (innerInit (matAlg n s sqrt) pα rootp (DMat.tab (Mat.mask s A)) (ridgeOf eps maxEv epsFloor) k))
  have hx : ∀ a b, (newtonRoot s c p pα alpha sqrt rootp cast32 thousand epsFloor eps maxEv A).x a b =
      toM (blend (matAlg n s sqrt) c (newtonInner (matAlg n s sqrt) c p alpha c.numIters
      (innerInit (matAlg n s sqrt) pα rootp (DMat.tab (Mat.mask s A)) (ridgeOf eps maxEv epsFloor) k))) a b := by
    intro a b; simp [newtonRoot, hs, hk, outerBody, toM]
  rw [hx, hx, hb]
  split
  · exact (congrFun (congrFun hsym.1 i) j).symm
  · exact (congrFun (congrFun hsym.2 i) j).symm

/-- the `1×1` branch returns `(a + d)^(-1/p)` and its reported error is the residual of that root, which is `0`
under the kernel specification `invroot x ^ p * x = 1` for `x > 0` -/
theorem onebyone_root (p : Nat) (invroot cast32 : α → α) (a ridge : α) (ha : 0 ≤ a) (hd : 0 < ridge)
    (hinv : ∀ x, 0 < x → invroot x ^ p * x = 1) (hcast : ∀ x, cast32 x = x) :
    (oneByOne p invroot cast32 a ridge).1 = invroot (a + ridge) ∧
      (oneByOne p invroot cast32 a ridge).2 = |(oneByOne p invroot cast32 a ridge).1 ^ p * (a + ridge) - 1| ∧
      (oneByOne p invroot cast32 a ridge).2 = 0 := by
  have hpos : 0 < a + ridge := by linarith
  simp only [oneByOne, hcast, natPow_eq_pow, absS_eq_abs, hinv _ hpos]
  simp

/-- hypotheses of the Newton theorems are satisfiable: `ℚ`, `p = 1` (so `rootp = id`), constants of the source -/
example : ∃ (c : NConsts ℚ) (rootp sqrt : ℚ → ℚ), 1 < c.rmax ∧ 0 ≤ c.tol ∧ 1 ≤ c.numTries ∧
    (∀ z, 0 ≤ z → rootp z ^ 1 = z) ∧ (∀ x, 0 ≤ sqrt x) :=
  ⟨{ numIters := 100, tol := 1 / 1000000, rmax := 6 / 5, retryThr := 1 / 20, numTries := 6 }, id, fun _ => 3,
    by norm_num, by norm_num, by norm_num, fun z _ => by simp, fun _ => by norm_num⟩

end PrecondVerif.C01
