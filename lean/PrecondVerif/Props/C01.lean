/-
C01 — inverse p-th root is accurate and its reported error is honest.

Theorems about the definitions of `Model/InvRoot.lean` that `drv_c01` executes (`matPower`, `newtonRoot` =
`newtonOuter`/`outerBody`/`newtonInner`/`iterBody` over `matAlg`, `oneByOne`, `eighRoot`, `powerIteration`), for
every size `n`, padding start `s`, exponent `p`, symmetric input, ridge, and constants in the stated ranges
(`1 < max_error_ratio`, `0 ≤ error_tolerance`, `1 ≤ num_tries`), over any linearly ordered field.  Kernels are
parameters with their specification as hypotheses: `sqrt x ≥ 0`, `rootp z ^ p = z` for `z ≥ 0`,
`invroot x ^ p * x = 1` for `x > 0`, `cast32 x = x` (exact arithmetic), the `eigh` factorisation.
Matrices are read in Mathlib's `Matrix (Fin n) (Fin n) α` through `toM` / `Matrix.of`; `Es α n s` is the masked
identity `I_s`, `dampedM s A d = mask(A) + d·I_s`, `Ds s X = max|X − I_s|`.

Not proved here (decided on executed inputs only): rounding slack and finiteness in IEEE arithmetic, LOBPCG accuracy.
-/
import PrecondVerif.Lemmas.InvRoot
import PrecondVerif.Lemmas.InvRootReal

set_option linter.unusedSectionVars false

namespace PrecondVerif.C01
open PrecondVerif.InvRoot Matrix

variable {α : Type} [Field α] [LinearOrder α] [IsStrictOrderedRing α] {n : Nat}

/-- `mat_power`: the squaring loop returns `x^p`, in any monoid. -/
theorem matPower_eq_pow {M : Type} [Monoid M] (x : M) (p : Nat) : matPower (· * ·) 1 x p = x ^ p := by
  have := matPowerLoop_rep (R := M) (· * ·) id (fun _ _ => rfl) p 1 x
  simpa [matPower] using this

/-- `mat_power` on the executed matrix carrier is the matrix power. -/
theorem matPower_matrix (s : Nat) (sqrt : α → α) (X : DMat α n) (p : Nat) :
    toM (matPower (matAlg n s sqrt).mul (matAlg n s sqrt).one X p) = toM X ^ p :=
  (matAlg_rep s sqrt).matPower X p

/-- Newton invariant: every state the inner loop of try `i` reaches (any number of steps `f`) satisfies
`M = H^p · A_d`, and `H`, `M`, `A_d`, `I_s` commute / absorb, with `A_d = mask(A) + ridge·10^i·I_s`. -/
theorem newton_invariant (s : Nat) (c : NConsts α) (p : Nat) (pα alpha : α) (sqrt rootp : α → α)
    (A : Mat α n n) (ridge : α) (htol : 0 ≤ c.tol) (hp : 0 ≤ pα)
    (hroot : ∀ z, 0 ≤ z → rootp z ^ p = z) (hsqrt : ∀ x, 0 ≤ sqrt x) (i f : Nat) :
    let st := newtonInner (matAlg n s sqrt) c p alpha f
        (innerInit (matAlg n s sqrt) pα rootp (DMat.tab (Mat.mask s A)) ridge i)
    let Ad := dampedM s A (ridge * 10 ^ i)
    toM st.m = toM st.h ^ p * Ad ∧ Commute (toM st.h) Ad ∧ Commute (toM st.m) Ad ∧
      Es α n s * toM st.h = toM st.h ∧ toM st.h * Es α n s = toM st.h ∧ st.err = Ds s (toM st.m) := by
  intro st Ad
  have inv := reach_inv s c p pα alpha sqrt rootp A ridge htol hp hroot hsqrt i f
  refine ⟨inv.hm, inv.hc, ?_, inv.he, inv.he', inv.herr⟩
  rw [inv.hm]; exact (inv.hc.pow_left p).mul_left (Commute.refl _)

/-- Honesty of the reported error: for the returned `(X, err, retries)` of the Newton routine,
`retries ≥ 1` and `max|X^p · A_d(retries−1) − I_s| ≤ err` entrywise, with equality of the maximum on the converged
branch (`ratio < max_error_ratio`).  The hypothesis `1 < max_error_ratio` is consumed on the diverged branch, where
`X = H_old`, whose own residual is `err / ratio`. -/
theorem newton_error_honest (s : Nat) (hs : s ≠ 0) (c : NConsts α) (p : Nat) (pα alpha : α)
    (sqrt rootp cast32 : α → α) (thousand epsFloor eps maxEv : α) (A : Mat α n n)
    (hr : 1 < c.rmax) (htol : 0 ≤ c.tol) (hnt : 1 ≤ c.numTries) (hp : 0 ≤ pα)
    (hroot : ∀ z, 0 ≤ z → rootp z ^ p = z) (hsqrt : ∀ x, 0 ≤ sqrt x) (hcast : ∀ x, cast32 x = x) :
    let r := newtonRoot s c p pα alpha sqrt rootp cast32 thousand epsFloor eps maxEv A
    let Ad := dampedM s A (ridgeOf eps maxEv epsFloor * 10 ^ (r.retries - 1))
    1 ≤ r.retries ∧ (∀ i j, |((Matrix.of r.x) ^ p * Ad - Es α n s) i j| ≤ r.err) ∧
      (r.ratio < c.rmax → Ds s ((Matrix.of r.x) ^ p * Ad) = r.err) := by
  intro r Ad
  obtain ⟨k, hk⟩ := newtonOuter_cases (matAlg n s sqrt) c p pα alpha rootp cast32 thousand
    (DMat.tab (Mat.mask s A)) (ridgeOf eps maxEv epsFloor) hnt
  have inv := reach_inv s c p pα alpha sqrt rootp A (ridgeOf eps maxEv epsFloor) htol hp hroot hsqrt k c.numIters
  have hon := blend_honest (matAlg_rep (α := α) (n := n) s sqrt) c hr inv
  have hr_retries : r.retries = k + 1 := by simp [r, newtonRoot, hs, hk, outerBody]
  have hr_x : Matrix.of r.x = toM (blend (matAlg n s sqrt) c (newtonInner (matAlg n s sqrt) c p alpha c.numIters
      (innerInit (matAlg n s sqrt) pα rootp (DMat.tab (Mat.mask s A)) (ridgeOf eps maxEv epsFloor) k))) := by
    simp [r, newtonRoot, hs, hk, outerBody, toM]
  have hr_err : r.err = (matAlg n s sqrt).dist (newtonInner (matAlg n s sqrt) c p alpha c.numIters
      (innerInit (matAlg n s sqrt) pα rootp (DMat.tab (Mat.mask s A)) (ridgeOf eps maxEv epsFloor) k)).m := by
    simp [r, newtonRoot, hs, hk, outerBody, hcast]
  have hr_ratio : r.ratio = (newtonInner (matAlg n s sqrt) c p alpha c.numIters
      (innerInit (matAlg n s sqrt) pα rootp (DMat.tab (Mat.mask s A)) (ridgeOf eps maxEv epsFloor) k)).ratio := by
    simp [r, newtonRoot, hs, hk, outerBody]
  have hAd : Ad = dampedM s A (ridgeOf eps maxEv epsFloor * 10 ^ k) := by
    simp only [Ad, hr_retries, Nat.add_sub_cancel]
  refine ⟨by omega, ?_, ?_⟩
  · intro i j
    rw [hAd, hr_x, hr_err]
    refine le_trans ?_ hon.1
    have := le_maxAbs (Mat.sub (fun a b => (toM (blend (matAlg n s sqrt) c (newtonInner (matAlg n s sqrt) c p alpha
      c.numIters (innerInit (matAlg n s sqrt) pα rootp (DMat.tab (Mat.mask s A)) (ridgeOf eps maxEv epsFloor) k))) ^ p *
      dampedM s A (ridgeOf eps maxEv epsFloor * 10 ^ k)) a b) (Mat.maskedId s)) i j
    simpa [Ds, Mat.sub, Es, Matrix.sub_apply] using this
  · intro hconv
    rw [hAd, hr_x, hr_err]
    exact hon.2 (by rw [← hr_ratio]; exact hconv)

/-- the `padding_start == 0` override: an all-padding input returns the zero matrix with error `0` -/
theorem newton_all_padding (c : NConsts α) (p : Nat) (pα alpha : α) (sqrt rootp cast32 : α → α)
    (thousand epsFloor eps maxEv : α) (A : Mat α n n) :
    (newtonRoot 0 c p pα alpha sqrt rootp cast32 thousand epsFloor eps maxEv A).x = (fun _ _ => 0) ∧
      (newtonRoot 0 c p pα alpha sqrt rootp cast32 thousand epsFloor eps maxEv A).err = 0 := by
  simp [newtonRoot]

/-- the returned root is exactly zero on padding rows and columns -/
theorem newton_padding_zero (s : Nat) (c : NConsts α) (p : Nat) (pα alpha : α)
    (sqrt rootp cast32 : α → α) (thousand epsFloor eps maxEv : α) (A : Mat α n n)
    (htol : 0 ≤ c.tol) (hnt : 1 ≤ c.numTries) (hp : 0 ≤ pα)
    (hroot : ∀ z, 0 ≤ z → rootp z ^ p = z) (hsqrt : ∀ x, 0 ≤ sqrt x) (i j : Fin n)
    (hij : s ≤ i.val ∨ s ≤ j.val) :
    (newtonRoot s c p pα alpha sqrt rootp cast32 thousand epsFloor eps maxEv A).x i j = 0 := by
  by_cases hs : s = 0
  · subst hs; simp [newtonRoot]
  obtain ⟨k, hk⟩ := newtonOuter_cases (matAlg n s sqrt) c p pα alpha rootp cast32 thousand
    (DMat.tab (Mat.mask s A)) (ridgeOf eps maxEv epsFloor) hnt
  have inv := reach_inv s c p pα alpha sqrt rootp A (ridgeOf eps maxEv epsFloor) htol hp hroot hsqrt k c.numIters
  have hb := (matAlg_rep (α := α) (n := n) s sqrt).blend c (newtonInner (matAlg n s sqrt) c p alpha c.numIters
      (innerInit (matAlg n s sqrt) pα rootp (DMat.tab (Mat.mask s A)) (ridgeOf eps maxEv epsFloor) k))
  have hx : (newtonRoot s c p pα alpha sqrt rootp cast32 thousand epsFloor eps maxEv A).x i j =
      toM (blend (matAlg n s sqrt) c (newtonInner (matAlg n s sqrt) c p alpha c.numIters
      (innerInit (matAlg n s sqrt) pα rootp (DMat.tab (Mat.mask s A)) (ridgeOf eps maxEv epsFloor) k))) i j := by
    simp [newtonRoot, hs, hk, outerBody, toM]
  rw [hx]
  apply zero_of_Es_mul s _ _ _ i j hij
  · rw [hb]; split
    · exact inv.he
    · exact inv.hoe
  · rw [hb]; split
    · exact inv.he'
    · exact inv.hoe'

/-- the returned root of a symmetric input is symmetric -/
theorem newton_symmetric (s : Nat) (c : NConsts α) (p : Nat) (pα alpha : α)
    (sqrt rootp cast32 : α → α) (thousand epsFloor eps maxEv : α) (A : Mat α n n) (hA : ∀ i j, A i j = A j i)
    (htol : 0 ≤ c.tol) (hnt : 1 ≤ c.numTries) (hp : 0 ≤ pα)
    (hroot : ∀ z, 0 ≤ z → rootp z ^ p = z) (hsqrt : ∀ x, 0 ≤ sqrt x) (i j : Fin n) :
    (newtonRoot s c p pα alpha sqrt rootp cast32 thousand epsFloor eps maxEv A).x i j =
      (newtonRoot s c p pα alpha sqrt rootp cast32 thousand epsFloor eps maxEv A).x j i := by
  by_cases hs : s = 0
  · subst hs; simp [newtonRoot]
  obtain ⟨k, hk⟩ := newtonOuter_cases (matAlg n s sqrt) c p pα alpha rootp cast32 thousand
    (DMat.tab (Mat.mask s A)) (ridgeOf eps maxEv epsFloor) hnt
  have hsym := reach_sym s c p pα alpha sqrt rootp A (ridgeOf eps maxEv epsFloor) htol hp hroot hsqrt hA k c.numIters
  have hb := (matAlg_rep (α := α) (n := n) s sqrt).blend c (newtonInner (matAlg n s sqrt) c p alpha c.numIters
      (innerInit (matAlg n s sqrt) pα rootp (DMat.tab (Mat.mask s A)) (ridgeOf eps maxEv epsFloor) k))
  have hx : ∀ a b, (newtonRoot s c p pα alpha sqrt rootp cast32 thousand epsFloor eps maxEv A).x a b =
      toM (blend (matAlg n s sqrt) c (newtonInner (matAlg n s sqrt) c p alpha c.numIters
      (innerInit (matAlg n s sqrt) pα rootp (DMat.tab (Mat.mask s A)) (ridgeOf eps maxEv epsFloor) k))) a b := by
    intro a b; simp [newtonRoot, hs, hk, outerBody, toM]
  rw [hx, hx, hb]
  split
  · exact (congrFun (congrFun hsym.1 i) j).symm
  · exact (congrFun (congrFun hsym.2 i) j).symm

/-- the `1×1` branch returns `(a + d)^(-1/p)` and its reported error is the residual of that root, which is `0`
under the kernel specification `invroot x ^ p * x = 1` for `x > 0` -/
theorem onebyone_root (p : Nat) (invroot cast32 : α → α) (a ridge : α) (ha : 0 ≤ a) (hd : 0 < ridge)
    (hinv : ∀ x, 0 < x → invroot x ^ p * x = 1) (hcast : ∀ x, cast32 x = x) :
    (oneByOne p invroot cast32 a ridge).1 = invroot (a + ridge) ∧
      (oneByOne p invroot cast32 a ridge).2 = |(oneByOne p invroot cast32 a ridge).1 ^ p * (a + ridge) - 1| ∧
      (oneByOne p invroot cast32 a ridge).2 = 0 := by
  have hpos : 0 < a + ridge := by linarith
  simp only [oneByOne, hcast, natPow_eq_pow, absS_eq_abs, hinv _ hpos]
  simp

/-- the matrix handed to `eigh` is `A_d = mask(A) + d·I_s` -/
theorem eigh_input_is_damped (s : Nat) (A : Mat α n n) (ridge : α) :
    (Matrix.of (regularized s A ridge) : MatR α n) = dampedM s A ridge := by
  ext i j
  simp [regularized, Mat.add, Mat.smul, dampedM, maskM, Es]

/-- eigh root: under the `eigh` specification for the regularised input (`U` orthogonal, `U diag(e) Uᵀ = A_d`, the
`n − s` eigenvalues of the padding are `0` and come first, the others are `≥ d > 0`, and the eigenvectors of the non-zero
eigenvalues span the unpadded coordinates: `U diag(flip(ix)) Uᵀ = I_s`) and the scalar kernel specifications,
`X^p · A_d = I_s`, `X` is symmetric and exactly zero on padding rows and columns. -/
theorem eigh_root_exact [BEq α] [LawfulBEq α] (s p : Nat) (hs : s ≠ 0) (sqrt invroot : α → α) (ridge : α)
    (hridge : 0 < ridge) (A U : Mat α n n) (e : Vec α n)
    (hU1 : (Matrix.of U : MatR α n)ᵀ * Matrix.of U = 1) (hU2 : (Matrix.of U : MatR α n) * (Matrix.of U)ᵀ = 1)
    (hdec : (Matrix.of U : MatR α n) * Matrix.diagonal e * (Matrix.of U)ᵀ = Matrix.of (regularized s A ridge))
    (hproj : (Matrix.of U : MatR α n) * Matrix.diagonal (flipIx n s) * (Matrix.of U)ᵀ = Es α n s)
    (hpos : ∀ i : Fin n, n - 1 - i.val < s → ridge ≤ e i) (hzero : ∀ i : Fin n, ¬ n - 1 - i.val < s → e i = 0)
    (hsqrt : ∀ x, 0 ≤ x → sqrt x * sqrt x = x) (hinv : ∀ x, 0 < x → 0 ≤ invroot x ∧ invroot x ^ p * x = 1) :
    let X : MatR α n := Matrix.of (eighRoot s sqrt invroot ridge A U e).1
    X ^ p * dampedM s A ridge = Es α n s ∧ Xᵀ = X ∧ ∀ i j : Fin n, s ≤ i.val ∨ s ≤ j.val → X i j = 0 := by
  intro X
  have hX : X = Matrix.of (eighVal sqrt U (eighInvE s invroot ridge e)) := by
    simp [X, eighRoot, hs]
  obtain ⟨h1, h2, h3, h4⟩ := eigh_root_core s p sqrt invroot ridge hridge U e hU1 hU2 hpos hzero hsqrt hinv
  rw [hdec, eigh_input_is_damped, hproj] at h1
  rw [hproj] at h3 h4
  rw [hX]
  exact ⟨h1, h2, fun i j hij => zero_of_Es_mul s _ h4 h3 i j hij⟩

/-- the error figure of the eigh routine is, by definition, the masked residual of the decomposition it was handed -/
theorem eigh_error_is_residual [BEq α] (s : Nat) (hs : s ≠ 0) (sqrt invroot : α → α) (ridge : α) (A U : Mat α n n)
    (e : Vec α n) :
    (eighRoot s sqrt invroot ridge A U e).2 =
      Mat.maxAbs (fun i j => ((Mat.mul (Mat.transpose U) (Mat.mul (regularized s A ridge) U)) i j -
        (if i = j then e i * flipIx n s i else 0)) * flipIx n s j : Mat α n n) := by
  simp [eighRoot, hs, eighErr]

/-- Rayleigh bound in any ordered field: the power-iteration estimate never exceeds any `lam ≥ 0` that bounds the
quadratic form, `xᵀ A x ≤ lam · xᵀ x` for all `x` (i.e. `lam·1 − A` positive semi-definite). -/
theorem rayleigh_le_bound (sqrt : α → α) (hsqrt : ∀ x, 0 ≤ x → sqrt x * sqrt x = x) (tol : α) (numIters : Nat)
    (A : Mat α n n) (v0 : Vec α n) (lam : α) (hlam : 0 ≤ lam)
    (hmax : ∀ x : Vec α n, dot x (Mat.mulVec A x) ≤ lam * dot x x) :
    powerIteration sqrt tol numIters A v0 ≤ lam := by
  unfold powerIteration
  exact piLoop_le sqrt hsqrt tol A lam hlam hmax numIters numIters _ hlam

/-- `rayleigh_le_max_eig`: for a real positive semi-definite (symmetric) matrix `A` of any size, any start vector, any
tolerance and iteration bound, the estimate returned by the model's power iteration (with `sqrt = Real.sqrt`) is at most
the largest eigenvalue of `A` — `⨆ i, eigenvalues i` of Mathlib's spectral decomposition (`λ_max·1 − A` is PSD by the
spectral theorem, hence `xᵀAx ≤ λ_max xᵀx`).  Zero iterates are covered (`0/0 = 0` gives the estimate `0 ≤ λ_max`). -/
theorem rayleigh_le_max_eig {n : Nat} (tol : ℝ) (numIters : Nat) (A : Mat ℝ n n) (v0 : Vec ℝ n)
    (hpsd : (Matrix.of A : Matrix (Fin n) (Fin n) ℝ).PosSemidef) :
    powerIteration Real.sqrt tol numIters A v0 ≤ ⨆ i, hpsd.1.eigenvalues i := by
  apply rayleigh_le_bound Real.sqrt (fun x hx => Real.mul_self_sqrt hx) tol numIters A v0
  · exact Real.iSup_nonneg fun i => hpsd.eigenvalues_nonneg i
  · intro x
    have h := quad_le_max_eig (Matrix.of A) hpsd.1 x
    have e1 : dot x (Mat.mulVec A x) = x ⬝ᵥ ((Matrix.of A : Matrix (Fin n) (Fin n) ℝ) *ᵥ x) := by
      simp only [dot, Mat.mulVec, sumFin_eq_sum, dotProduct, Matrix.mulVec, Matrix.of_apply]
    have e2 : dot x x = x ⬝ᵥ x := by simp only [dot, sumFin_eq_sum, dotProduct]
    rw [e1, e2]; exact h

/-- the ridge is therefore never scaled by more than such a bound -/
theorem ridge_le_of_rayleigh (eps maxEv floor lam : α) (heps : 0 ≤ eps) (h : maxEv ≤ lam) (hf : floor ≤ lam) :
    ridgeOf eps maxEv floor ≤ eps * lam := by
  unfold ridgeOf; rw [maxS_eq_max]
  exact mul_le_mul_of_nonneg_left (max_le h hf) heps

/-- ext `eigh_root_perturbed` (no padding, `n ≤ s`): if the `U` handed back by `eigh` is orthogonal, the computed
eigenvalues are `≥ d`, and the decomposition residual satisfies `|Uᵀ R U − diag e|_max ≤ η` for the regularised input
`R = A_d`, then the model's root satisfies `|X^p · A_d − 1|_max ≤ n · η / d` — the "slack proportional to the regularised
condition number" clause (`1/d` is the norm of `A_d⁻¹`; the constant is exactly `n`). -/
theorem eigh_root_perturbed [BEq α] [LawfulBEq α] (s p : Nat) (hs : s ≠ 0) (hns : n ≤ s) (sqrt invroot : α → α)
    (ridge : α) (hridge : 0 < ridge) (A U : Mat α n n) (e : Vec α n) (η : α)
    (hU1 : (Matrix.of U : MatR α n)ᵀ * Matrix.of U = 1) (hU2 : (Matrix.of U : MatR α n) * (Matrix.of U)ᵀ = 1)
    (hge : ∀ i : Fin n, ridge ≤ e i)
    (hη : ∀ i j, |((Matrix.of U : MatR α n)ᵀ * dampedM s A ridge * Matrix.of U - Matrix.diagonal e) i j| ≤ η)
    (hsqrt : ∀ x, 0 ≤ x → sqrt x * sqrt x = x) (hinv : ∀ x, 0 < x → 0 ≤ invroot x ∧ invroot x ^ p * x = 1) :
    let X : MatR α n := Matrix.of (eighRoot s sqrt invroot ridge A U e).1
    ∀ i j, |(X ^ p * dampedM s A ridge - 1) i j| ≤ (n : α) * η / ridge := by
  intro X
  have hX : X = Matrix.of (eighVal sqrt U (eighInvE s invroot ridge e)) := by
    simp [X, eighRoot, hs]
  rw [hX]
  exact eigh_root_perturbed_core s p hns sqrt invroot ridge hridge U e (dampedM s A ridge) η hU1 hU2 hge hη hsqrt hinv

/-- honesty of the eigh error figure (no padding): the figure the routine reports IS such an `η`, so
`|X^p · A_d − 1|_max ≤ n · err / d` for the returned `(X, err)`. -/
theorem eigh_error_honest [BEq α] [LawfulBEq α] (s p : Nat) (hs : s ≠ 0) (hns : n ≤ s) (sqrt invroot : α → α)
    (ridge : α) (hridge : 0 < ridge) (A U : Mat α n n) (e : Vec α n)
    (hU1 : (Matrix.of U : MatR α n)ᵀ * Matrix.of U = 1) (hU2 : (Matrix.of U : MatR α n) * (Matrix.of U)ᵀ = 1)
    (hge : ∀ i : Fin n, ridge ≤ e i)
    (hsqrt : ∀ x, 0 ≤ x → sqrt x * sqrt x = x) (hinv : ∀ x, 0 < x → 0 ≤ invroot x ∧ invroot x ^ p * x = 1) :
    let X : MatR α n := Matrix.of (eighRoot s sqrt invroot ridge A U e).1
    ∀ i j, |(X ^ p * dampedM s A ridge - 1) i j| ≤ (n : α) * (eighRoot s sqrt invroot ridge A U e).2 / ridge := by
  apply eigh_root_perturbed s p hs hns sqrt invroot ridge hridge A U e _ hU1 hU2 hge _ hsqrt hinv
  intro i j
  have hflip : ∀ k : Fin n, (flipIx n s k : α) = 1 := by
    intro k; unfold flipIx; rw [if_pos]; have := k.isLt; omega
  have herr : (eighRoot s sqrt invroot ridge A U e).2 = eighErr s (regularized s A ridge) U e := by
    simp [eighRoot, hs]
  rw [herr]
  have hle := le_maxAbs (fun a b => ((Mat.mul (Mat.transpose U) (Mat.mul (regularized s A ridge) U)) a b -
      (if a = b then e a * flipIx n s a else 0)) * flipIx n s b : Mat α n n) i j
  have hentry : ((Matrix.of U : MatR α n)ᵀ * dampedM s A ridge * Matrix.of U - Matrix.diagonal e) i j =
      ((Mat.mul (Mat.transpose U) (Mat.mul (regularized s A ridge) U)) i j -
      (if i = j then e i * flipIx n s i else 0)) * flipIx n s j := by
    rw [hflip j, mul_one, hflip i, mul_one, Matrix.sub_apply, Matrix.diagonal_apply, Matrix.mul_assoc,
      ← eigh_input_is_damped]
    simp only [Matrix.mul_apply, Matrix.transpose_apply, Matrix.of_apply, Mat.mul, Mat.transpose, sumFin_eq_sum]
  rw [hentry]
  exact hle

/-- hypotheses of the Newton theorems are satisfiable: `ℚ`, `p = 1` (so `rootp = id`), constants of the source -/
example : ∃ (c : NConsts ℚ) (rootp sqrt : ℚ → ℚ), 1 < c.rmax ∧ 0 ≤ c.tol ∧ 1 ≤ c.numTries ∧
    (∀ z, 0 ≤ z → rootp z ^ 1 = z) ∧ (∀ x, 0 ≤ sqrt x) :=
  ⟨{ numIters := 100, tol := 1 / 1000000, rmax := 6 / 5, retryThr := 1 / 20, numTries := 6 }, id, fun _ => 3,
    by norm_num, by norm_num, by norm_num, fun z _ => by simp, fun _ => by norm_num⟩

/-- the eigh hypotheses are satisfiable: `n = 1`, `s = 1`, `A = (3)`, ridge `1`, `U = (1)`, `e = (4)`, `p = 1`,
`invroot x = 1/x`, `sqrt` any function with `sqrt (1/4) = 1/2` -/
example : ∃ (U A : Mat ℚ 1 1) (e : Vec ℚ 1),
    (Matrix.of U : MatR ℚ 1)ᵀ * Matrix.of U = 1 ∧
    (Matrix.of U : MatR ℚ 1) * Matrix.diagonal e * (Matrix.of U)ᵀ = Matrix.of (regularized 1 A 1) ∧
    (Matrix.of U : MatR ℚ 1) * Matrix.diagonal (flipIx 1 1) * (Matrix.of U)ᵀ = Es ℚ 1 1 ∧
    (∀ i : Fin 1, 1 - 1 - i.val < 1 → (1 : ℚ) ≤ e i) := by
  refine ⟨fun _ _ => 1, fun _ _ => 3, fun _ => 4, ?_, ?_, ?_, ?_⟩
  · ext i j; simp [Matrix.mul_apply, Matrix.one_apply, Subsingleton.elim i j]
  · ext i j; simp [Matrix.mul_apply, regularized, Mat.add, Mat.smul, Mat.mask, Mat.maskedId, Mat.one, Mat.ix,
      Subsingleton.elim i j]; norm_num
  · ext i j; simp [Matrix.mul_apply, flipIx, Es, Mat.maskedId, Mat.one, Mat.ix, Subsingleton.elim i j]
  · intro i _; norm_num

/-- `rayleigh_le_max_eig` applies to a non-trivial instance: the `2×2` identity is positive semi-definite -/
example : (Matrix.of (Mat.one : Mat ℝ 2 2) : Matrix (Fin 2) (Fin 2) ℝ).PosSemidef := by
  have h : (Matrix.of (Mat.one : Mat ℝ 2 2) : Matrix (Fin 2) (Fin 2) ℝ) = 1 := by
    ext i j; simp [Mat.one, Matrix.one_apply]
  rw [h]; exact Matrix.PosSemidef.one

/-- the hypotheses of `eigh_root_perturbed` are satisfiable with a non-zero residual: `n = 1`, `A = (3)`, ridge `1`
(so `A_d = (4)`), `U = (1)`, computed eigenvalue `e = 5`, `η = 1` -/
example : ∃ (U A : Mat ℚ 1 1) (e : Vec ℚ 1) (η : ℚ),
    (Matrix.of U : MatR ℚ 1)ᵀ * Matrix.of U = 1 ∧ (∀ i : Fin 1, (1 : ℚ) ≤ e i) ∧
    (∀ i j, |((Matrix.of U : MatR ℚ 1)ᵀ * dampedM 1 A 1 * Matrix.of U - Matrix.diagonal e) i j| ≤ η) := by
  refine ⟨fun _ _ => 1, fun _ _ => 3, fun _ => 5, 1, ?_, ?_, ?_⟩
  · ext i j; simp [Matrix.mul_apply, Matrix.one_apply, Subsingleton.elim i j]
  · intro i; norm_num
  · intro i j
    simp [Matrix.mul_apply, dampedM, maskM, Es, Mat.mask, Mat.maskedId, Mat.one, Mat.ix, Subsingleton.elim i j]
    norm_num

end PrecondVerif.C01
