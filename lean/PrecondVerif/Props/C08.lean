/-
C08 — block-diagonal semantics: blocks and parameters do not influence each other.

Model: `Model/BlockDiag.lean`, executed by `drv_c08` (`Rat` and `Float`).  The second-order part of Distributed Shampoo
is modelled in its *batched* code shape: the statistics of all leaves and all blocks are flattened into one list, every
statistic is padded to the tree-wide `max_size` (`pad_square_matrix`: `[[M, 0], [0, I]]`), the per-matrix routine runs
with `padding_start = size` on every element of the stack, the result is cut `[:size, :size]` and every leaf gets its
slice of the flat list back (`treeRootsG`, `leafUpdateG`).  Statistics (`_compute_stats`), grafting, momentum and the
mode products (`_transform_grad`) are `jax.tree.map`s over the leaves resp. loops over a leaf's own blocks: they enter as
the abstract per-block functions `acc`, `toStats`, `apply`.

All statements hold for every tree, every number of leaves, blocks and statistics, every size and `max_size`, every
history length (the statistics are a fold over the block's own history), every ordered field (ℚ = the driver's `Rat`
run, ℝ).  The per-matrix routine is abstract in the locality theorems, with `root_padding_invariant` as an explicit
hypothesis; `root_padding_invariant_newton` discharges it for the masked coupled Newton iteration of the model
(`rootA`: masks, ridge, Frobenius scaling, inner loop with the error-driven exit, converged/old blend, retry loop with
ridge · 10^i; `sqrt`, `z ↦ z^(1/p)` and the ridge / `max_ev` are parameters, no hypothesis on them is needed).
Not covered by a theorem (decided on executed inputs only): float summation order inside a larger padded matmul,
the `eigh` path (the harness runs it), `power_iteration`'s padding invariance (its start vector is the prefix of one
fixed pseudo-random sequence; checked by the const stage and the `rootpad` runs).
-/
import PrecondVerif.Lemmas.BlockDiag
import Mathlib.Tactic.NormNum

namespace PrecondVerif.C08
open PrecondVerif.BlockDiag

variable {α : Type}

/-! ### the per-matrix routine does not see the padding -/

/-- **root_padding_invariant, Newton model.**  For every statistic `a` of size `s`, every `max_size = N ≥ s`, every
exponent `p ≥ 1`, ridge, tolerance, fuel and number of tries: padding `a` to `N × N` with an identity block, running the
masked coupled Newton routine with `padding_start = s` and cutting `[:s, :s]` gives exactly the result of the routine on
`a` itself — the root, the reported error, the iteration count, the final error ratio and `total_retries`
(so both runs also take the same data-dependent branches). -/
theorem root_padding_invariant_newton [Field α] [LinearOrder α] [IsStrictOrderedRing α]
    {s N : Nat} (c : Cfg α) (hp : 0 < c.p) (hs : s ≤ N) (ridge : α) (a : A2 α) :
    paddedRoot N s c ridge a = rootA s s c ridge a :=
  paddedRoot_eq c hp hs ridge a

/-- the padded iterate is `blockdiag(iterate, 0)`: before the cut, the root computed on the padded statistic is the
zero-extension of the root of the statistic (padded rows and columns are exactly zero). -/
theorem padded_root_is_blockdiag [Field α] [LinearOrder α] [IsStrictOrderedRing α]
    {s N : Nat} (c : Cfg α) (hp : 0 < c.p) (hs : s ≤ N) (ridge : α) (a : A2 α) :
    (rootA N s c ridge (padSq s N a)).2.h = embed N (rootA s s c ridge a).2.h ∧
    ∀ i j, (s ≤ i ∨ s ≤ j) → rdM (rootA N s c ridge (padSq s N a)).2.h i j = 0 := by
  rw [rootA_padSq c hp hs]
  refine ⟨rfl, fun i j h => ?_⟩
  obtain ⟨f, hf⟩ : IsTab s (rootA s s c ridge a).2.h := isTab_outer c _ ridge c.tries 0 _ ⟨_, rfl⟩
  show rdM (embed N (rootA s s c ridge a).2.h) i j = 0
  rw [hf, rdM_embed (good_tabM s f) hs]
  exact good_tabM s f i j h

/-! ### batching is `map`: parameters do not influence each other -/

/-- the batched, padded, stacked computation over the whole tree is `map` of the per-matrix routine over every leaf's own
statistics, given `root_padding_invariant` for the routine: `max_size` changes only the padding. -/
theorem batched_roots_are_map {ρ : Type} (root : Nat → Nat → A2 α → ρ)
    (root_padding_invariant : ∀ N s a, s ≤ N → root N s a = root s s a) (leaves : List (List (Stat α))) :
    treeRootsG root leaves = leaves.map (·.map fun st => root st.size st.size st.dat) :=
  treeRootsG_local root root_padding_invariant leaves

/-- **ds_param_update_local.**  The preconditioners a leaf receives do not depend on the other leaves of the tree: put
the leaf (its list of statistics) into two arbitrary trees — other leaves added, removed, reordered, reshaped (other
statistic sizes, other `max_size`, other batch) or rescaled (other data) — and it gets the same roots, namely the
per-matrix routine applied to its own statistics.  The rest of a leaf's update (`_compute_stats`, `_transform_grad`) is a
`tree.map` that reads only this leaf's gradient, parameter and state. -/
theorem ds_param_update_local {ρ : Type} (root : Nat → Nat → A2 α → ρ)
    (root_padding_invariant : ∀ N s a, s ≤ N → root N s a = root s s a)
    (pre post pre' post' : List (List (Stat α))) (leaf : List (Stat α)) :
    (treeRootsG root (pre ++ leaf :: post))[pre.length]? = some (leaf.map fun st => root st.size st.size st.dat) ∧
    (treeRootsG root (pre ++ leaf :: post))[pre.length]? = (treeRootsG root (pre' ++ leaf :: post'))[pre'.length]? := by
  have key : ∀ pre post : List (List (Stat α)),
      (treeRootsG root (pre ++ leaf :: post))[pre.length]? = some (leaf.map fun st => root st.size st.size st.dat) := by
    intro pre post
    rw [treeRootsG_local root root_padding_invariant]
    simp
  exact ⟨key pre post, by rw [key pre post, key pre' post']⟩

/-- **ds_block_update_local.**  The pre-graft update of a blocked leaf, computed through the tree-wide batched pipeline
with any `max_size = N` that fits, is block by block the single-tensor update of that block's own gradient history:
statistics folded over the block's history, roots of those statistics (unpadded), mode products with the block's
gradient. -/
theorem ds_block_update_local {γ σ ρ : Type} (root : Nat → Nat → A2 α → ρ)
    (root_padding_invariant : ∀ N s a, s ≤ N → root N s a = root s s a)
    (acc : σ → γ → σ) (init : σ) (toStats : σ → List (Stat α)) (apply : List ρ → γ → γ) (N : Nat)
    (blocksHist : List (List γ)) (cur : List γ)
    (hN : ∀ h ∈ blocksHist, ∀ st ∈ toStats (blockStats acc init h), st.size ≤ N) :
    leafUpdateG root acc init toStats apply N blocksHist cur
      = List.zipWith (fun h g => blockUpdateG root acc init toStats apply h g) blocksHist cur := by
  unfold leafUpdateG blockUpdateG
  simp only []
  have hroots : (List.map (fun h => toStats (blockStats acc init h)) blocksHist).flatten.map
        (fun st => root N st.size st.dat)
      = (List.map (fun h => toStats (blockStats acc init h)) blocksHist).flatten.map
        (fun st => root st.size st.size st.dat) := by
    apply List.map_congr_left
    intro st hst
    obtain ⟨l, hl, hst'⟩ := List.mem_flatten.mp hst
    obtain ⟨h, hh, rfl⟩ := List.mem_map.mp hl
    exact root_padding_invariant _ _ _ (hN h hh st hst')
  rw [hroots, regroup_map_flatten, List.map_map, List.zipWith_map_left]
  rfl

/-- the same with the Newton model as the routine (ridge computed from the statistic itself): no residual hypothesis. -/
theorem ds_block_update_local_newton [Field α] [LinearOrder α] [IsStrictOrderedRing α] {γ σ : Type}
    (c : Cfg α) (hp : 0 < c.p) (ridgeOf : Nat → A2 α → α)
    (acc : σ → γ → σ) (init : σ) (toStats : σ → List (Stat α)) (apply : List (Nat × Try α) → γ → γ) (N : Nat)
    (blocksHist : List (List γ)) (cur : List γ)
    (hN : ∀ h ∈ blocksHist, ∀ st ∈ toStats (blockStats acc init h), st.size ≤ N) :
    leafUpdateG (fun N s a => paddedRoot N s c (ridgeOf s a) a) acc init toStats apply N blocksHist cur
      = List.zipWith (fun h g => apply ((toStats (blockStats acc init h)).map
          fun st => rootA st.size st.size c (ridgeOf st.size st.dat) st.dat) g) blocksHist cur := by
  rw [ds_block_update_local _ (fun N s a hs => by rw [paddedRoot_eq c hp hs, paddedRoot_eq c hp (le_refl s)])
    acc init toStats apply N blocksHist cur hN]
  unfold blockUpdateG
  congr 1
  funext h g
  congr 1
  apply List.map_congr_left
  intro st _
  exact paddedRoot_eq c hp (le_refl _) _ _

/-! ### Tearfree Shampoo -/

/-- **tearfree_blocks_local.**  With the cut taken per block (`jnp.max(w, axis=-1, keepdims=True)`), the batched root
routine on the stack of all blocks is `map` of the single-matrix routine over the blocks — for arbitrary per-block
spectra (hence arbitrary per-block gradient scales), any eigen-solver `eig`, any real power `pw`, any `eps`. -/
theorem tearfree_blocks_local [Mul α] [LT α] [DecidableLT α] [Zero α] {σ V ρ : Type}
    (eig : σ → List α × V) (mk : List α → V → ρ) (pw : α → α) (eps : α) (stats : List σ) :
    tfBatched eig mk pw eps stats = stats.map (tfOne eig mk pw eps) :=
  tfBatched_eq_map eig mk pw eps stats

/-- blocked = separate: the roots of a blocked tensor (one stack of `N` blocks) are the concatenation of the roots of
its blocks treated as `N` separate tensors (each a stack of one block). -/
theorem tearfree_blocked_eq_separate [Mul α] [LT α] [DecidableLT α] [Zero α] {σ V ρ : Type}
    (eig : σ → List α × V) (mk : List α → V → ρ) (pw : α → α) (eps : α) (stats : List σ) :
    tfBatched eig mk pw eps stats = (stats.map fun st => tfBatched eig mk pw eps [st]).flatten := by
  rw [tfBatched_eq_map]
  induction stats with
  | nil => rfl
  | cons st rest ih =>
    simp only [List.map_cons, List.flatten_cons]
    rw [← ih, tfBatched_eq_map]
    rfl

/-- the cut mask of the batched code is the per-block mask -/
theorem tearfree_mask_local [Mul α] [LT α] [DecidableLT α] [Zero α] (eps : α) (ws : List (List α)) :
    batchedMask eps ws = ws.map (localMask eps) :=
  batchedMask_eq_map eps ws

/-- **shared_max_not_local (negative; defect D7, repaired by 45ad67a).**  Two 2×2 blocks with gradient scales 1 and
10⁻⁴ (spectra `[1, 1]` and `[10⁻⁸, 10⁻⁸]`), `eps = 10⁻⁶`.  With the cut relative to the maximum over ALL blocks
(`jnp.max(w)`, the unrepaired code) every eigenvalue of the second block is cut and its half-powers — hence its root and
its update — are 0 whatever the real power is; the per-block cut keeps them: the unrepaired routine is not `map` over the
blocks. -/
theorem shared_max_not_local :
    sharedMask (1 / 1000000 : ℚ) [[1, 1], [1 / 100000000, 1 / 100000000]] = [[false, false], [true, true]] ∧
    batchedMask (1 / 1000000 : ℚ) [[1, 1], [1 / 100000000, 1 / 100000000]] = [[false, false], [false, false]] ∧
    (∀ pw : ℚ → ℚ, halfVals pw [true, true] [1 / 100000000, 1 / 100000000] = [0, 0]) ∧
    sharedMask (1 / 1000000 : ℚ) [[1, 1], [1 / 100000000, 1 / 100000000]]
      ≠ [[1, 1], [1 / 100000000, 1 / 100000000]].map (localMask (1 / 1000000 : ℚ)) := by
  have e1 : sharedMask (1 / 1000000 : ℚ) [[1, 1], [1 / 100000000, 1 / 100000000]] = [[false, false], [true, true]] := by
    simp [sharedMask, cutMask, rowMax, maxS]; norm_num
  have e2 : batchedMask (1 / 1000000 : ℚ) [[1, 1], [1 / 100000000, 1 / 100000000]] = [[false, false], [false, false]] := by
    simp [batchedMask, cutMask, rowMax, maxS]; norm_num
  refine ⟨e1, e2, fun pw => rfl, ?_⟩
  rw [← batchedMask_eq_map, e1, e2]
  decide


/-! ### the eigh root (`eigh=True`) -/

/-- **root_padding_invariant, eigh model.**  `matrix_inverse_pth_root_eigh` with the eigen-solver an external kernel.
Hypothesis `KernelPadOK` (the `eigh` spec with zero padding): for `blockdiag(R, 0)` the kept eigenpairs — those not
zeroed by `e *= flip(ix)` — are the eigenpairs of `R` zero-extended (`blockdiag(R, 0)` has the decomposition
`blockdiag(U, I)`); nothing is assumed about the dropped columns.  Then pad / root with `padding_start = s` / cut is the
root of the unpadded statistic, for every `max_size = N ≥ s`, ridge and `e ↦ max(e, ridge)^(-1/p)`. -/
theorem root_padding_invariant_eigh [Field α] [LinearOrder α] [IsStrictOrderedRing α]
    (kernel : Kernel α) (hk : KernelPadOK kernel) (invE : α → α) {s N : Nat} (hs : s ≤ N) (ridge : α) (a : A2 α) :
    paddedEighRoot kernel invE N s ridge a = eighRootA kernel invE s s ridge a := by
  unfold paddedEighRoot
  rw [eighRootA_padSq kernel hk invE hs]
  unfold eighRootA
  exact cutA_embed_tabM _ hs

/-- before the cut the eigh root of the padded statistic is the zero-extension (padded rows and columns exactly 0) -/
theorem padded_eigh_root_is_blockdiag [Field α] [LinearOrder α] [IsStrictOrderedRing α]
    (kernel : Kernel α) (hk : KernelPadOK kernel) (invE : α → α) {s N : Nat} (hs : s ≤ N) (ridge : α) (a : A2 α) :
    eighRootA kernel invE N s ridge (padSq s N a) = embed N (eighRootA kernel invE s s ridge a) :=
  eighRootA_padSq kernel hk invE hs ridge a

/-- **ds_param_update_local for the eigh path**: with `eigh=True` a leaf receives the same roots in any two trees; the
only hypothesis is the kernel's block decomposition of zero-padded matrices. -/
theorem ds_param_update_local_eigh [Field α] [LinearOrder α] [IsStrictOrderedRing α]
    (kernel : Kernel α) (hk : KernelPadOK kernel) (invE : α → α) (ridgeOf : Nat → A2 α → α)
    (pre post pre' post' : List (List (Stat α))) (leaf : List (Stat α)) :
    (treeRootsG (fun N s a => paddedEighRoot kernel invE N s (ridgeOf s a) a) (pre ++ leaf :: post))[pre.length]?
      = some (leaf.map fun st => eighRootA kernel invE st.size st.size (ridgeOf st.size st.dat) st.dat) ∧
    (treeRootsG (fun N s a => paddedEighRoot kernel invE N s (ridgeOf s a) a) (pre ++ leaf :: post))[pre.length]?
      = (treeRootsG (fun N s a => paddedEighRoot kernel invE N s (ridgeOf s a) a) (pre' ++ leaf :: post'))[pre'.length]? := by
  have hinv : ∀ N s a, s ≤ N → (fun N s a => paddedEighRoot kernel invE N s (ridgeOf s a) a) N s a
      = (fun N s a => paddedEighRoot kernel invE N s (ridgeOf s a) a) s s a := fun N s a hs => by
    show paddedEighRoot kernel invE N s (ridgeOf s a) a = paddedEighRoot kernel invE s s (ridgeOf s a) a
    rw [root_padding_invariant_eigh kernel hk invE hs, root_padding_invariant_eigh kernel hk invE (le_refl s)]
  obtain ⟨h1, h2⟩ := ds_param_update_local _ hinv pre post pre' post' leaf
  refine ⟨?_, h2⟩
  rw [h1]
  congr 1
  apply List.map_congr_left
  intro st _
  exact root_padding_invariant_eigh kernel hk invE (le_refl _) _ _

/-- the Newton analogue, stated in the same form (no hypothesis besides `p ≥ 1`) -/
theorem ds_param_update_local_newton [Field α] [LinearOrder α] [IsStrictOrderedRing α]
    (c : Cfg α) (hp : 0 < c.p) (ridgeOf : Nat → A2 α → α)
    (pre post pre' post' : List (List (Stat α))) (leaf : List (Stat α)) :
    (treeRootsG (fun N s a => paddedRoot N s c (ridgeOf s a) a) (pre ++ leaf :: post))[pre.length]?
      = (treeRootsG (fun N s a => paddedRoot N s c (ridgeOf s a) a) (pre' ++ leaf :: post'))[pre'.length]? :=
  (ds_param_update_local _ (fun N s a hs => by
    show paddedRoot N s c (ridgeOf s a) a = paddedRoot s s c (ridgeOf s a) a
    rw [paddedRoot_eq c hp hs, paddedRoot_eq c hp (le_refl s)]) pre post pre' post' leaf).2


/-! ### the eigh root without any assumption on which eigendecomposition the kernel returns -/

/-- **eigh_root_independent_of_kernel.**  Any two eigen-solvers whose answers meet the `eigh` specification for the matrix
they are given (`DsEighSpec`: orthonormal eigenvectors, `U diag(e) Uᵀ` = the masked, regularised matrix, and the `n - s`
eigenvalues the code zeroes by `e *= flip(ix)` are the zero eigenvalues of the padding — what ascending order gives for a
PSD statistic with ridge `> 0`) produce the same root, for every spectrum (repeated and zero eigenvalues included) and
every `e ↦ max(e, ridge)^(-1/p)` obeying the code's zero-eigenvalue rule `invE 0 = 0`.  The root is a function of the
matrix (`spectral_fn_unique`, the argument of C15's `rootOfEigh_unique` for an arbitrary function of the spectrum). -/
theorem eigh_root_independent_of_kernel [Field α] [LinearOrder α] [IsStrictOrderedRing α]
    (k1 k2 : Kernel α) (invE : α → α) (h0 : invE 0 = 0) (n s : Nat) (ridge : α) (a : A2 α)
    (h1 : KernelMeetsSpec k1 n s ridge a) (h2 : KernelMeetsSpec k2 n s ridge a) :
    eighRootA k1 invE n s ridge a = eighRootA k2 invE n s ridge a :=
  eighRootA_kernel_indep k1 k2 invE h0 n s ridge a h1 h2

/-- **root_padding_invariant_eigh_unconditional.**  No `KernelPadOK`: it suffices that the kernel's answers meet the `eigh`
specification on the two matrices it is actually given (the padded and the unpadded regularised statistic).  Whatever
decomposition of `blockdiag(R, 0)` it returns, the root is `blockdiag(root R, 0)`, and pad / root / cut is the root of the
statistic. -/
theorem root_padding_invariant_eigh_unconditional [Field α] [LinearOrder α] [IsStrictOrderedRing α]
    (kernel : Kernel α) (invE : α → α) (h0 : invE 0 = 0) {s N : Nat} (hs : s ≤ N) (ridge : α) (a : A2 α)
    (hN : KernelMeetsSpec kernel N s ridge (padSq s N a)) (hS : KernelMeetsSpec kernel s s ridge a) :
    paddedEighRoot kernel invE N s ridge a = eighRootA kernel invE s s ridge a ∧
    eighRootA kernel invE N s ridge (padSq s N a) = embed N (eighRootA kernel invE s s ridge a) := by
  have h := eighRootA_padSq_of_spec kernel invE h0 hs ridge a hN hS
  refine ⟨?_, h⟩
  unfold paddedEighRoot
  rw [h, eighRootA_def]
  exact cutA_embed_tabM _ hs

/-- **ds_param_update_local_eigh_unconditional.**  With `eigh=True` a leaf receives the same roots in any two trees,
provided only that the eigen-solver meets its specification on the matrices it is given (for every statistic, padded to
any `max_size` and unpadded). -/
theorem ds_param_update_local_eigh_unconditional [Field α] [LinearOrder α] [IsStrictOrderedRing α]
    (kernel : Kernel α) (invE : α → α) (h0 : invE 0 = 0) (ridgeOf : Nat → A2 α → α)
    (hspec : ∀ (N s : Nat) (a : A2 α), s ≤ N → KernelMeetsSpec kernel N s (ridgeOf s a) (padSq s N a))
    (hspec0 : ∀ (s : Nat) (a : A2 α), KernelMeetsSpec kernel s s (ridgeOf s a) a)
    (pre post pre' post' : List (List (Stat α))) (leaf : List (Stat α)) :
    (treeRootsG (fun N s a => paddedEighRoot kernel invE N s (ridgeOf s a) a) (pre ++ leaf :: post))[pre.length]?
      = some (leaf.map fun st => eighRootA kernel invE st.size st.size (ridgeOf st.size st.dat) st.dat) ∧
    (treeRootsG (fun N s a => paddedEighRoot kernel invE N s (ridgeOf s a) a) (pre ++ leaf :: post))[pre.length]?
      = (treeRootsG (fun N s a => paddedEighRoot kernel invE N s (ridgeOf s a) a) (pre' ++ leaf :: post'))[pre'.length]? := by
  have hroot : ∀ N s a, s ≤ N → paddedEighRoot kernel invE N s (ridgeOf s a) a = eighRootA kernel invE s s (ridgeOf s a) a :=
    fun N s a hs => (root_padding_invariant_eigh_unconditional kernel invE h0 hs _ a (hspec N s a hs) (hspec0 s a)).1
  have hinv : ∀ N s a, s ≤ N → (fun N s a => paddedEighRoot kernel invE N s (ridgeOf s a) a) N s a
      = (fun N s a => paddedEighRoot kernel invE N s (ridgeOf s a) a) s s a := fun N s a hs => by
    show paddedEighRoot kernel invE N s (ridgeOf s a) a = paddedEighRoot kernel invE s s (ridgeOf s a) a
    rw [hroot N s a hs, hroot s s a (le_refl s)]
  obtain ⟨h1, h2⟩ := ds_param_update_local _ hinv pre post pre' post' leaf
  refine ⟨?_, h2⟩
  rw [h1]
  congr 1
  apply List.map_congr_left
  intro st _
  exact hroot _ _ _ (le_refl _)

/-! ### the discrete slot plan (`ds_plan`): which statistic sits where -/

/-- **slot count** = Σ over blocks of the number of preconditioned axes = #blocks × #preconditioned axes, for every shape,
block size and `PreconditionerType`. -/
theorem ds_slot_count (pt : PType) (shape : List Nat) (b : Nat) :
    (dsSlotsP pt shape b).length = (dsBlocks shape b).length * (precAxes pt shape.length).length :=
  length_slotsFrom pt shape.length 0 (dsBlocks shape b) (length_of_mem_dsBlocks shape b)

/-- **slot of (block i, k-th preconditioned axis) = i · K + k**, and it carries that block's own slice and size -/
theorem ds_slot_index (pt : PType) (shape : List Nat) (b : Nat) (i k : Nat)
    (hi : i < (dsBlocks shape b).length) (hk : k < (precAxes pt shape.length).length) :
    (dsSlotsP pt shape b)[i * (precAxes pt shape.length).length + k]? =
      some ⟨i, (precAxes pt shape.length)[k], (dsBlocks shape b)[i],
        ((dsBlocks shape b)[i].getD ((precAxes pt shape.length)[k]) (0, 0)).2⟩ := by
  have := slotsFrom_getElem pt shape.length 0 (dsBlocks shape b) (length_of_mem_dsBlocks shape b) i k hi hk
  simpa [dsSlotsP] using this

/-- **a leaf's slots are one contiguous range of the flat statistics list**, starting at `index_start` = the number of
slots of the leaves before it (= the corresponding entry of `indexStarts`), and holding exactly the leaf's own slots:
adding, removing or reshaping other leaves shifts `index_start` but never the contents of the range. -/
theorem ds_leaf_slots_contiguous (pt : PType) (b : Nat) (pre post : List (List Nat)) (sh : List Nat) :
    ((treeSlots pt b (pre ++ sh :: post)).drop (treeSlots pt b pre).length).take (dsSlotsP pt sh b).length
      = dsSlotsP pt sh b ∧
    (indexStarts ((pre ++ sh :: post).map fun s => (dsSlotsP pt s b).length) 0)[pre.length]?
      = some (treeSlots pt b pre).length := by
  constructor
  · rw [treeSlots_append, List.append_assoc, List.drop_left', List.take_left']
    · rfl
    · rfl
  · have := indexStarts_getElem (pre.map fun s => (dsSlotsP pt s b).length) (dsSlotsP pt sh b).length
      (post.map fun s => (dsSlotsP pt s b).length) 0
    simp only [List.length_map, Nat.zero_add] at this
    rw [List.map_append, List.map_cons, this, length_treeSlots]

/-- the contents of a leaf's range do not depend on the other leaves at all -/
theorem ds_leaf_slots_independent (pt : PType) (b : Nat) (pre post pre' post' : List (List Nat)) (sh : List Nat) :
    ((treeSlots pt b (pre ++ sh :: post)).drop (treeSlots pt b pre).length).take (dsSlotsP pt sh b).length
      = ((treeSlots pt b (pre' ++ sh :: post')).drop (treeSlots pt b pre').length).take (dsSlotsP pt sh b).length := by
  rw [(ds_leaf_slots_contiguous pt b pre post sh).1, (ds_leaf_slots_contiguous pt b pre' post' sh).1]

/-! ### the hypotheses are satisfiable (non-vacuity) -/

/-- a concrete configuration of the Newton model over ℚ (`p = 2`; `sqrt`, `rootp` arbitrary) -/
def exCfg : Cfg ℚ := ⟨2, 2, 1 / 1000000, 6 / 5, 1 / 20, 3, 2, 10, fun x => (x + 1) / 2, fun x => x⟩

example : 0 < exCfg.p := by decide

/-- the padding theorem on a concrete 2×2 statistic padded to 4×4 -/
example : paddedRoot 4 2 exCfg (1 / 1000) (tabM 2 fun i j => if i = j then 2 else 1)
    = rootA 2 2 exCfg (1 / 1000) (tabM 2 fun i j => if i = j then 2 else 1) :=
  root_padding_invariant_newton exCfg (by decide) (by decide) _ _

/-- the Newton routine satisfies the hypothesis `root_padding_invariant` of the locality theorems -/
example (ridgeOf : Nat → A2 ℚ → ℚ) : ∀ N s a, s ≤ N →
    (fun N s a => paddedRoot N s exCfg (ridgeOf s a) a) N s a = (fun N s a => paddedRoot N s exCfg (ridgeOf s a) a) s s a :=
  fun N s a hs => by
    show paddedRoot N s exCfg (ridgeOf s a) a = paddedRoot s s exCfg (ridgeOf s a) a
    rw [paddedRoot_eq exCfg (by decide) hs, paddedRoot_eq exCfg (by decide) (le_refl s)]

/-- an eigen-solver satisfying `KernelPadOK` exists (the exact solver for diagonal matrices), so the eigh theorems are not
vacuous -/
example (g : Nat → ℚ) : KernelPadOK (diagKernel g) := diagKernel_padOK g

/-- the hypothesis `KernelMeetsSpec` of the unconditional eigh theorems is satisfiable for every size, padded or not: for
a zero statistic the matrix handed to `eigh` is `diag(ridge, …, ridge, 0, …, 0)` and the exact diagonal solver meets the
specification (in particular its first `n - s` eigenvalues are the zeros of the padding) -/
example (n s : Nat) (hs : s ≤ n) (ridge : ℚ) :
    KernelMeetsSpec (diagKernel fun i => if i < s then ridge else 0) n s ridge (#[] : A2 ℚ) :=
  diagKernel_meetsSpec n s hs ridge

example : (dsSlotsP .input [7, 3] 4).length = 2 ∧ (dsSlotsP .all [7, 3] 4).length = 4 := by decide

/-- a tree with two leaves of different statistic sizes: `max_size` is the larger one, so the first leaf is padded -/
example : maxSizeOf [[(⟨2, #[]⟩ : Stat ℚ)], [⟨5, #[]⟩, ⟨3, #[]⟩]] = 5 := by decide

end PrecondVerif.C08
