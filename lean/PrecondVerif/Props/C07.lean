/- C07 — state contract (theorems; being extended). -/
import PrecondVerif.Model.Layout

namespace PrecondVerif.C07
open PrecondVerif.Shapes PrecondVerif.Layout

/-- the update tree has the parameters' shapes (one float32 leaf per parameter) -/
theorem update_shapes_eq_params (c : Cfg) (ps : List (List Nat)) :
    (updateShapes c ps).map (·.shape) = ps ∧ ∀ l ∈ updateShapes c ps, l.dt = .f32 := by
  constructor
  · simp [updateShapes, f32Leaf, List.map_map, Function.comp_def]
  · intro l hl
    simp only [updateShapes, List.mem_map] at hl
    obtain ⟨s, _, rfl⟩ := hl
    rfl

end PrecondVerif.C07
