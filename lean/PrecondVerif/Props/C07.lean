/-
C07 — state contract: shapes preserved, layout stable, every accepted configuration runs.

All theorems are about the definitions of `Model/Layout.lean` that `drv_c07` executes, for every
configuration in the modelled option space and every list of parameter shapes (any number of
parameters, any ranks and dimensions), and any number of updates.

Decided on executed inputs only: exception *messages*; values; that the hand-written model is the code
(differential correspondence run of the harness).
-/
import PrecondVerif.Lemmas.Layout

namespace PrecondVerif.C07
open PrecondVerif.Shapes PrecondVerif.Layout

/-- the update tree has the parameters' shapes (one float32 leaf per parameter) -/
theorem update_shapes_eq_params (c : Cfg) (ps : List (List Nat)) :
    (updateShapes c ps).map (·.shape) = ps ∧ ∀ l ∈ updateShapes c ps, l.dt = .f32 := by
  constructor
  · simp [updateShapes, f32Leaf, List.map_map, Function.comp_def]
  · intro l hl
    simp only [updateShapes, List.mem_map] at hl
    obtain ⟨s, _, rfl⟩ := hl
    rfl

/-- an accepted configuration's initial layout is `initLayout` -/
theorem layoutInit_ok (c : Cfg) (ps : List (List Nat)) (L : DSLayout) (h : layoutInit c ps = .ok L) :
    L = initLayout c ps := by
  unfold layoutInit at h
  simp only [bind, Except.bind] at h
  cases hv : validate c with
  | error e => simp [hv] at h
  | ok u => simp [hv, pure, Except.pure] at h; exact h.symm

/-- **Layout is a fixed point of update.** If the constructor accepts the configuration, one update of
the initial layout either returns exactly the initial layout, or is an explanatory rejection raised
while the roots are traced (`all layers are too small for compression_rank` / the LOBPCG size check) —
never a changed layout. Every `lax.cond` / `while_loop` type check of the update passes. -/
theorem layout_fixpoint (c : Cfg) (ps : List (List Nat)) (L : DSLayout) (h : layoutInit c ps = .ok L) :
    layoutStep c ps L = .ok L ∨ ∃ cls, layoutStep c ps L = .error (.reject .update cls) := by
  rw [layoutInit_ok c ps L h, layoutStep_init]
  cases hr : stepRejects c ps with
  | none => left; rfl
  | some e =>
    right
    unfold stepRejects at hr
    simp only [] at hr
    split at hr
    · cases hr
    · unfold rootReject at hr
      split at hr
      · cases hr; exact ⟨_, rfl⟩
      · split at hr
        · cases hr; exact ⟨_, rfl⟩
        · cases hr

/-- ... hence after any number of updates (induction over the history) -/
theorem layout_fixpoint_steps (c : Cfg) (ps : List (List Nat)) (L : DSLayout) (k : Nat)
    (h : layoutInit c ps = .ok L) (hacc : stepRejects c ps = none) :
    layoutSteps c ps k L = .ok L := by
  rw [layoutInit_ok c ps L h]
  exact layoutSteps_init c ps hacc k

/-- **No internal error**: constructor, `init` and any number of updates of Distributed Shampoo
(replicated / pmap mode) end in success or in an explanatory rejection, for every configuration and
every parameter tree. -/
theorem no_internal_error (c : Cfg) (ps : List (List Nat)) (k : Nat) (e : Err)
    (h : dsRun c ps k = .error e) : e.isInternal = false := by
  unfold dsRun layoutInit at h
  simp only [bind, Except.bind] at h
  cases hv : validate c with
  | error e' =>
    simp [hv] at h
    subst h
    exact validate_not_internal c _ hv
  | ok u =>
    simp only [hv, pure, Except.pure] at h
    cases k with
    | zero => simp [layoutSteps, pure, Except.pure] at h
    | succ k =>
      cases hr : stepRejects c ps with
      | none => rw [layoutSteps_init c ps hr] at h; cases h
      | some e' =>
        rw [layoutSteps_init_rejected c ps e' hr] at h
        simp only [Except.error.injEq] at h
        subst h
        exact stepRejects_not_internal c ps _ hr

/-- the constructor's rejections are explanatory -/
theorem validate_rejects_explicitly (c : Cfg) (e : Err) (h : validate c = .error e) :
    e = .reject .construct .valueError := by
  unfold validate at h
  repeat' split at h
  all_goals first | (cases h; rfl) | cases h

/-- **Sharded declarations are consistent**: whenever `sharded_init_fn` succeeds,
`sharded_init_shape_and_dtype_fn` succeeds and declares exactly the initial state's tree (structure,
static fields, every leaf's shape and dtype), and `sharded_init_partition_spec_fn` has the same tree
structure — for parameter dimensions ≥ 1 and one partition spec per parameter, of ANY length
(`P()`, `P(None)`, one entry per dimension). -/
theorem sharded_decl_consistent (c : Cfg) (ps : List (List Nat)) (pspecs : List (List String))
    (statSpec : List String) (L : ShardedLayout)
    (hdims : dimsPos ps) (hspec : specsFit ps pspecs)
    (h : shardedInit c ps = .ok L) :
    shapeDtypeDecl c ps = .ok (shardedSig L) ∧
    skeleton (pspecDecl c ps pspecs statSpec) = skeleton (shardedSig L) :=
  ⟨shardedInit_decl c ps L (allStatDims_pos c ps hdims) h, pspecDecl_skeleton c ps pspecs statSpec L hspec h⟩

/-- sharded mode without a device count is rejected by the constructor (D23) -/
theorem sharded_requires_devices (c : Cfg) (hs : c.shard = true) (hn : c.ndev < 1) :
    validate c = .error (.reject .construct .valueError) := by
  unfold validate
  simp only [hs, hn, Bool.true_and, decide_true]
  repeat' split
  all_goals first | rfl | (exfalso; simp_all)

/-- sharded `init` never fails internally -/
theorem sharded_init_no_internal_error (c : Cfg) (ps : List (List Nat)) (e : Err)
    (h : shardedInit c ps = .error e) : e.isInternal = false := by
  unfold shardedInit at h
  simp only [bind, Except.bind] at h
  cases hv : validate c with
  | error e' => simp [hv] at h; subst h; exact validate_not_internal c _ hv
  | ok u =>
    simp only [hv] at h
    split at h
    · cases h; rfl
    · cases h

/-- **Sharded layout is a fixed point of update** (`sharded_update_fn`, `shard_optimizer_states=True`,
with or without `batch_axis_name`): explanatory rejection (LOBPCG size check) or exactly the initial
sharded layout — global stacked statistics / preconditioners keep their padded shapes, local entries
their layout. -/
theorem sharded_layout_fixpoint (c : Cfg) (ps : List (List Nat)) (L : ShardedLayout)
    (hs : c.shard = true) (hdims : dimsPos ps) (h : shardedInit c ps = .ok L) :
    shardedStep c ps L = .ok L ∨ ∃ cls, shardedStep c ps L = .error (.reject .update cls) := by
  have hq : c.quant2 = false := by simp [Cfg.quant2, hs]
  rw [shardedStep_init c ps L hq (allStatDims_pos c ps hdims) h]
  cases hr : rootReject c (globalDims c ps).2 .update with
  | none => left; rfl
  | some e =>
    right
    unfold rootReject at hr
    split at hr
    · cases hr; exact ⟨_, rfl⟩
    · split at hr
      · cases hr; exact ⟨_, rfl⟩
      · cases hr

/-- ... hence after any number of sharded updates (induction over the history): either the first
update is rejected explicitly, or every later state has the initial layout -/
theorem sharded_layout_fixpoint_steps (c : Cfg) (ps : List (List Nat)) (L : ShardedLayout) (k : Nat)
    (hs : c.shard = true) (hdims : dimsPos ps) (h : shardedInit c ps = .ok L)
    (hacc : rootReject c (globalDims c ps).2 .update = none) :
    shardedSteps c ps k L = .ok L :=
  shardedSteps_init c ps L (by simp [Cfg.quant2, hs]) (allStatDims_pos c ps hdims) h hacc k

/-- SM3: rank-0 parameters are rejected explicitly, otherwise the layout is a fixed point of update -/
theorem sm3_layout_fixpoint (ps : List (List Nat)) :
    (∀ L, sm3Init ps = .ok L → sm3Step ps L = .ok L) ∧
    (∀ e, sm3Init ps = .error e → e = .reject .init .valueError) := by
  unfold sm3Init
  constructor
  · intro L h
    split at h
    · cases h
    · simp only [pure, Except.pure, Except.ok.injEq] at h
      subst h
      exact sm3Step_init ps
  · intro e h
    split at h
    · cases h; rfl
    · cases h

/-- Tearfree (Shampoo and Sketchy incl. per-axis ranks from `memory_alloc`, every grafting / momentum
option): the state layout after an update is the initial one -/
theorem tearfree_layout_fixpoint (c : TFCfg) (ps : List (List Nat)) (L : TFLayout)
    (h : tfInit c ps = .ok L) : tfStep c L = .ok L :=
  tfStep_init c ps L h

/-- ... and after any number of updates (induction over the history) -/
theorem tearfree_layout_fixpoint_steps (c : TFCfg) (ps : List (List Nat)) (L : TFLayout) (k : Nat)
    (h : tfInit c ps = .ok L) : tfSteps c k L = .ok L :=
  tfSteps_init c ps L h k

/-- **Tearfree: no internal error.** For every option set of the modelled space and every tree,
constructor + `init` + `k` updates end in success or in an explanatory rejection: a `ValueError` of
the option validation at construction, or of `shampoo.make_blocks` at `init` (more than two large
dimensions); an update never fails. -/
theorem tearfree_no_internal_error (c : TFCfg) (ps : List (List Nat)) (k : Nat) (e : Err)
    (h : tfRun c ps k = .error e) :
    e = .reject .construct .valueError ∨ e = .reject .init .valueError := by
  unfold tfRun at h
  simp only [bind, Except.bind] at h
  cases hi : tfInit c ps with
  | ok L => simp [hi, tfSteps_init c ps L hi k] at h
  | error e' =>
    simp [hi] at h
    subst h
    unfold tfInit at hi
    simp only [bind, Except.bind] at hi
    cases hv : tfValidate c with
    | error e'' =>
      simp [hv] at hi
      subst hi
      exact Or.inl (tfValidate_error c _ hv)
    | ok u =>
      cases hm : mapE (tfParam c) (tfInputs c ps) with
      | ok l => simp [hv, hm, pure, Except.pure] at hi
      | error e'' =>
        simp [hv, hm] at hi
        subst hi
        obtain ⟨x, _, hx⟩ := mapE_error _ _ _ hm
        exact Or.inr (tfParam_error c x _ (tfValidate_sk c hv) hx)

/-! ### non-vacuity -/

def exCfg : Cfg :=
  { blockSize := 8, bestEffortShape := true, mergeBlock := 4096, graftHasDiag := true, batchAxis := false,
    shard := false, ndev := 2, memReduction := true, skipDimGt := 4096, skipRankLt := 1, lobpcgTopk := 0,
    ptype := .input, fdMetrics := true, trainMetrics := true, compRank := 2, fd := true, reset := false,
    avgGrad := true, reuse := true, eigh := false, statSteps := 2, precondSteps := 2, scheduled := false }

/-- a frequent-directions configuration with compression that is accepted and not rejected at update time -/
example : validate exCfg = .ok () ∧ stepRejects exCfg [[6, 5], [7], []] = none := ⟨rfl, by decide⟩

/-- ... and one that is accepted by the constructor but rejected (explicitly) at the first update -/
example : validate exCfg = .ok () ∧
    stepRejects exCfg [[2, 2]] = some (.reject .update .assertionError) := ⟨rfl, by decide⟩

example : specsFit [[3, 4], [5]] [[], [""]] := by simp [specsFit]

example : dimsPos [[6, 5], [7], []] := by
  intro s hs d hd
  simp only [List.mem_cons, List.mem_nil_iff, or_false] at hs
  rcases hs with rfl | rfl | rfl <;> simp at hd <;> omega

/-- a sharded configuration with `batch_axis_name` and quantized momenta that is accepted (D22) -/
def exSharded : Cfg :=
  { exCfg with shard := true, batchAxis := true, fd := false, avgGrad := false, fdMetrics := false, compRank := 0 }

example : ∃ L, shardedInit exSharded [[6, 5], [7]] = .ok L := ⟨_, rfl⟩

def exTF : TFCfg :=
  { graft := .rmsprop, graftDecay := 1, graftEps := 0, skipGt := 4096, skipRank1 := true, minDimFactor := 128,
    clipThreshold := 1, mergeDims := 2, sketchy := true, sh := none,
    sk := some { rank := 2, updateFreq := 1, decay := 1, addGgt := true, ekfac := true,
                 alloc := some [[3, 1], [1], [2, 2, 2]] },
    momDecay := 1, ema := false, wd := 0, wdAfter := true, lrSched := false }

/-- an accepted Sketchy configuration with `memory_alloc` rows, on a tree with a masked vector -/
example : (tfInit exTF [[4, 3], [5], [2, 3, 2]]).toOption.isSome = true := by decide

/-! ### negative witnesses (regression documentation of repaired defects) -/

/-- D3: had `_compute_stats` returned a `MaskedNode` for `avg_grad` (as the unrepaired code did for
skipped parameters), the next update of a preconditioned parameter would fail its type check -/
theorem d3_masked_avg_grad_breaks_update :
    computeStats exCfg [6, 5] { initParam exCfg [6, 5] with ag := none } =
      .error (.internal .update "avg_grad is a MaskedNode") := by rfl

/-- D6: a declaration with a float32 `count` is not the initial state's signature -/
theorem d6_count_dtype_matters :
    leafSig countLeaf ≠ Sig.leaf [] "float32" := by
  simp [leafSig, countLeaf, DT.name]

end PrecondVerif.C07
