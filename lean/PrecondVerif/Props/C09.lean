/-
C09 — the frequent-directions sketch brackets the true second moment.

Model: `Model/FD.lean` — generic `fdStep` / `stepO` / `fdRunO` (SVD kernel as a parameter constrained by `SvdSpec`),
instances `dsFdUpdateRootO` (Distributed Shampoo `_fd_update_root`), `sketchyUpdateAxisO` (Tearfree Sketchy
`_update_axis`), `ocoFdUpdateO` (OCO `_fd_update_fn`). `Drv/C09.lean` executes exactly these definitions at `Float`;
LAPACK supplies the SVD factors and the driver checks them against `SvdSpec` of the model's own `B` on every step.

All statements hold over every linearly ordered field with trivial star (ℚ, ℝ, …), for every dimension `d`, sketch
rank `k ≤ d`, number of gradient columns `m`, decay `0 ≤ β`, every state and every history; the Loewner order is
Mathlib's `Matrix.PosSemidef`. `sqrt` is a parameter with the specification `sqrt x * sqrt x = x` for `0 ≤ x`
(`Real.sqrt` at ℝ), the SVD a parameter meeting `SvdSpec` on the matrices it is actually called with.

Not modelled (identities under `SvdSpec`, exercised only by the correspondence run and the direct oracle): the
unit-norm and padding-mass guards of `_fd_update_root`, floating-point accuracy of the SVD.
-/
import PrecondVerif.Lemmas.FD
import Mathlib.Analysis.Real.Sqrt
import Mathlib.Algebra.Order.Star.Real
import Mathlib.Data.Rat.Star

set_option linter.unusedSectionVars false
set_option linter.overlappingInstances false

namespace PrecondVerif.C09
open PrecondVerif.FD Matrix

section Any
variable {α : Type} [Zero α] [One α] [Add α] [Sub α] [Mul α] [LT α] [DecidableLT α] {d k m : Nat}

/-- **Escaped-mass recurrence** `t' = β·t + ρ` with `ρ = s[k]²` the eigenvalue removed at this step — for any
scalar type (floats included) and any SVD kernel. -/
theorem fd_tail_recurrence (svd : SvdFn α d (k + m)) (sqrt : α → α) (β : α) (st : State α d k) (G : Mat α d m) :
    (fdStep svd sqrt β st G).t = β * st.t + rho k (svd (fdB sqrt β st G)) := rfl

/-- the same recurrence in `_fd_update_root` (before the clamp `where(new_tail <= 0, 0, new_tail)`, which is the
identity on non-negative values), in Sketchy's `_update_axis` and in the OCO sketch. -/
theorem fd_tail_recurrence_instances [Max α] (pw sqrt : α → α) (cfg : DsCfg α) (st : State α d k) (o : SvdOut α d)
    (hps : cfg.ps ≠ 0) (epsilon : α) (relative : Bool) (β : α) (sk : SkState α d k)
    {n : Nat} (oc : OcoState α k n) (oo : SvdOut α n) :
    (dsFdUpdateRootO pw cfg st o).st.t
        = (if 0 < cfg.β * st.t + rho k o then cfg.β * st.t + rho k o else 0) ∧
    (sketchyUpdateAxisO sqrt pw epsilon relative β sk o).st.t
        = sk.t * β + relu (cutoff k o) * relu (cutoff k o) ∧
    (ocoFdUpdateO sqrt oc oo).t = oc.t + rho k oo := by
  refine ⟨?_, rfl, rfl⟩
  simp only [dsFdUpdateRootO, if_neg hps]
  rfl

end Any

section Field
variable {R : Type} [Field R] [LinearOrder R] [IsStrictOrderedRing R] [StarRing R] [TrivialStar R]
  [StarOrderedRing R] {d k m : ℕ}

/-- **One-step bracket.** If `V diag(l) Vᵀ ≤ C ≤ V diag(l) Vᵀ + t·I`, then after one FD step with decay `0 ≤ β`,
gradient factor `G` and ANY SVD meeting its specification on the matrix `B = [√β V diag(√l) | G]` it is given,
`V' diag(l') V'ᵀ ≤ β·C + G Gᵀ ≤ V' diag(l') V'ᵀ + t'·I`, and `l' ≥ 0`, `t' ≥ 0`. -/
theorem fd_step_bracket (svd : SvdFn R d (k + m)) (sqrt : R → R) (hsq : ∀ x, 0 ≤ x → sqrt x * sqrt x = x)
    (β : R) (hβ : 0 ≤ β) (hk : k ≤ d) (st : State R d k) (hl : ∀ a, 0 ≤ st.l a) (ht : 0 ≤ st.t) (G : Mat R d m)
    (hsvd : SvdSpec (fdB sqrt β st G) (svd (fdB sqrt β st G)))
    (C : Matrix (Fin d) (Fin d) R) (hlo : (C - toM (sketch st)).PosSemidef)
    (hhi : (toM (sketch st) + st.t • (1 : Matrix (Fin d) (Fin d) R) - C).PosSemidef) :
    (β • C + toM (outer G) - toM (sketch (fdStep svd sqrt β st G))).PosSemidef ∧
    (toM (sketch (fdStep svd sqrt β st G)) + (fdStep svd sqrt β st G).t • (1 : Matrix (Fin d) (Fin d) R)
      - (β • C + toM (outer G))).PosSemidef ∧
    (∀ a, 0 ≤ (fdStep svd sqrt β st G).l a) ∧ 0 ≤ (fdStep svd sqrt β st G).t := by
  rw [sketch_eq] at hlo hhi
  rw [sketch_eq, outer_eq]
  obtain ⟨h1, h2⟩ := stepO_bracket sqrt hsq β hβ hk st hl G _ hsvd C hlo hhi
  exact ⟨h1, h2, stepO_l_nonneg β st.t _, stepO_t_nonneg β st.t hβ ht _⟩

/-- **Whole-history bracket** (induction over every history, from the zero state): the sketch after any history
`gs` brackets the exact discounted second moment `covFrom β 0 gs` (`C ← β·C + G Gᵀ`), with `l ≥ 0`, `t ≥ 0`. -/
theorem fd_history_bracket (svd : SvdFn R d (k + m)) (sqrt : R → R) (hsq : ∀ x, 0 ≤ x → sqrt x * sqrt x = x)
    (β : R) (hβ : 0 ≤ β) (hk : k ≤ d) (gs : List (Mat R d m))
    (hsvd : SpecAlong svd sqrt β (State.zero d k) gs) :
    (toM (covFrom β (fun _ _ => 0) gs) - toM (sketch (fdRun svd sqrt β gs))).PosSemidef ∧
    (toM (sketch (fdRun svd sqrt β gs)) + (fdRun svd sqrt β gs).t • (1 : Matrix (Fin d) (Fin d) R)
      - toM (covFrom β (fun _ _ => 0) gs)).PosSemidef ∧
    (∀ a, 0 ≤ (fdRun svd sqrt β gs).l a) ∧ 0 ≤ (fdRun svd sqrt β gs).t := by
  rw [covFrom_eq, sketch_eq]
  have hz : toM (fun _ _ => 0 : Mat R d d) = 0 := rfl
  rw [hz]
  have h0 : ((0 : Matrix (Fin d) (Fin d) R) - sketchM (State.zero d k : State R d k)).PosSemidef := by
    rw [sketchM_zero, sub_zero]; exact PosSemidef.zero
  have h1 : (sketchM (State.zero d k : State R d k) + (State.zero d k : State R d k).t • (1 : Matrix (Fin d) (Fin d) R)
      - 0).PosSemidef := by
    rw [sketchM_zero]; simpa [State.zero] using (PosSemidef.zero : (0 : Matrix (Fin d) (Fin d) R).PosSemidef)
  exact fdRunFrom_bracket svd sqrt hsq β hβ hk gs (State.zero d k) (fun _ => le_rfl) le_rfl hsvd 0 h0 h1

/-- the same for the run the driver executes (`fdRunO`: SVD outputs supplied step by step, each meeting `SvdSpec`
of the model's own `fdB` at that step), from any bracketed state. -/
theorem fd_history_bracket_supplied (sqrt : R → R) (hsq : ∀ x, 0 ≤ x → sqrt x * sqrt x = x)
    (β : R) (hβ : 0 ≤ β) (hk : k ≤ d) (steps : List (Mat R d m × SvdOut R d)) (st : State R d k)
    (hl : ∀ a, 0 ≤ st.l a) (ht : 0 ≤ st.t) (hsvd : SpecAlongO sqrt β st steps)
    (C : Mat R d d) (hlo : (toM C - toM (sketch st)).PosSemidef)
    (hhi : (toM (sketch st) + st.t • (1 : Matrix (Fin d) (Fin d) R) - toM C).PosSemidef) :
    (toM (covFrom β C (steps.map Prod.fst)) - toM (sketch (fdRunO β st (steps.map Prod.snd)))).PosSemidef ∧
    (toM (sketch (fdRunO β st (steps.map Prod.snd)))
      + (fdRunO β st (steps.map Prod.snd)).t • (1 : Matrix (Fin d) (Fin d) R)
      - toM (covFrom β C (steps.map Prod.fst))).PosSemidef := by
  rw [sketch_eq] at hlo hhi
  rw [covFrom_eq, sketch_eq]
  exact fdRunO_bracket sqrt hsq β hβ hk steps st hl ht hsvd (toM C) hlo hhi

/-- **Columns orthonormal or zero**: `V'ᵀ V' = diag(kept)`. -/
theorem fd_columns_orthonormal_or_zero (svd : SvdFn R d (k + m)) (sqrt : R → R) (β : R) (hk : k ≤ d)
    (st : State R d k) (G : Mat R d m) (hsvd : SvdSpec (fdB sqrt β st G) (svd (fdB sqrt β st G))) (a b : Fin k) :
    colGram (fdStep svd sqrt β st G).V a b
      = if a = b ∧ kept k (svd (fdB sqrt β st G)) a = true then 1 else 0 :=
  stepO_colGram hsvd.specM hk β st.t a b

/-- **Stored inverse roots** equal `pw (l' + t' + eps)` on the kept directions (0 on the zeroed ones), where
`pw x` stands for `x^(-1/p)`; the escaped mass is inverted as `pw (t' + eps)` when positive. DS uses `eps = 0`
(its ridge enters `l` before the step), Sketchy its (relative) epsilon. -/
theorem fd_inverse_roots (svd : SvdFn R d (k + m)) (sqrt pw : R → R) (eps β : R) (st : State R d k) (G : Mat R d m)
    (a : Fin k) :
    invRoots k pw eps β st.t (svd (fdB sqrt β st G)) a
      = (if kept k (svd (fdB sqrt β st G)) a = true
          then pw ((fdStep svd sqrt β st G).l a + (fdStep svd sqrt β st G).t + eps) else 0) ∧
    invTail pw eps (fdStep svd sqrt β st G).t
      = (if 0 < (fdStep svd sqrt β st G).t then pw ((fdStep svd sqrt β st G).t + eps) else 0) :=
  ⟨invRoots_eq pw eps β st.t _ a, rfl⟩

/-- **Zero-gradient step**: sketch and escaped mass are discounted by the same factor `β`
(`V' diag(l') V'ᵀ = β · V diag(l) Vᵀ`, `t' = β·t`). -/
theorem fd_zero_grad_step (svd : SvdFn R d (k + m)) (sqrt : R → R) (hsq : ∀ x, 0 ≤ x → sqrt x * sqrt x = x)
    (β : R) (hβ : 0 ≤ β) (hk : k ≤ d) (st : State R d k) (hl : ∀ a, 0 ≤ st.l a)
    (hsvd : SvdSpec (fdB sqrt β st (fun _ _ => 0 : Mat R d m)) (svd (fdB sqrt β st (fun _ _ => 0))))  :
    toM (sketch (fdStep svd sqrt β st (fun _ _ => 0 : Mat R d m))) = β • toM (sketch st) ∧
    (fdStep svd sqrt β st (fun _ _ => 0 : Mat R d m)).t = β * st.t := by
  rw [sketch_eq, sketch_eq]
  exact stepO_zero_grad sqrt hsq β hβ hk st hl _ hsvd

/-- **ext — a history of rank ≤ k is tracked exactly**: if every gradient factor lies in a fixed `k`-dimensional
subspace (`G_i = W A_i`, `W : d × k`), the sketch equals the exact second moment and no mass escapes (`t = 0`). -/
theorem fd_low_rank_exact (svd : SvdFn R d (k + m)) (sqrt : R → R) (hsq : ∀ x, 0 ≤ x → sqrt x * sqrt x = x)
    (β : R) (hβ : 0 ≤ β) (hk : k ≤ d) (W : Matrix (Fin d) (Fin k) R) (gs : List (Mat R d m))
    (hW : ∀ G ∈ gs, ∃ A : Matrix (Fin k) (Fin m) R, toM G = W * A)
    (hsvd : SpecAlong svd sqrt β (State.zero d k) gs) :
    toM (sketch (fdRun svd sqrt β gs)) = toM (covFrom β (fun _ _ => 0) gs) ∧ (fdRun svd sqrt β gs).t = 0 := by
  rw [covFrom_eq, sketch_eq]
  have hz : toM (fun _ _ => 0 : Mat R d d) = 0 := rfl
  rw [hz]
  have := fdRunFrom_low_rank svd sqrt hsq β hβ hk W gs hW (State.zero d k) (fun _ => le_rfl) hsvd rfl
    ⟨0, by rw [sketchM_zero]; simp⟩
  rwa [sketchM_zero] at this

/-- **Distributed Shampoo instance**: `_fd_update_root` (with `padding_start > 0`) keeps the bracket around
`β·C + G̃ G̃ᵀ`, where `G̃` is the padding-masked gradient factor and the sketch entering the step is the
re-masked, ridge-shifted one (`dsInput`: the per-step ridge the configuration adds is part of `C`). -/
theorem ds_fd_update_root_bracket [Max R] (sqrt pw : R → R) (hsq : ∀ x, 0 ≤ x → sqrt x * sqrt x = x)
    (cfg : DsCfg R) (hβ : 0 ≤ cfg.β) (hps : cfg.ps ≠ 0) (hk : k ≤ d) (st : State R d k)
    (hl : ∀ a, 0 ≤ (dsInput cfg st).l a) (ht : 0 ≤ st.t) (G : Mat R d d) (o : SvdOut R d)
    (hsvd : SvdSpec (dsB sqrt cfg st G) o)
    (C : Matrix (Fin d) (Fin d) R) (hlo : (C - toM (sketch (dsInput cfg st))).PosSemidef)
    (hhi : (toM (sketch (dsInput cfg st)) + st.t • (1 : Matrix (Fin d) (Fin d) R) - C).PosSemidef) :
    (cfg.β • C + toM (outer (dsMaskG cfg.ps G)) - toM (sketch (dsFdUpdateRootO pw cfg st o).st)).PosSemidef ∧
    (toM (sketch (dsFdUpdateRootO pw cfg st o).st)
      + (dsFdUpdateRootO pw cfg st o).st.t • (1 : Matrix (Fin d) (Fin d) R)
      - (cfg.β • C + toM (outer (dsMaskG cfg.ps G)))).PosSemidef := by
  rw [sketch_eq] at hlo hhi
  rw [sketch_eq, outer_eq]
  have ht' : 0 ≤ (stepO k cfg.β st.t o).t := stepO_t_nonneg cfg.β st.t hβ ht o
  have hS : sketchM (dsFdUpdateRootO pw cfg st o).st = sketchM (stepO k cfg.β st.t o) := by
    simp [dsFdUpdateRootO, hps, sketchM]
  have hT : (dsFdUpdateRootO pw cfg st o).st.t = (stepO k cfg.β st.t o).t := by
    simp only [dsFdUpdateRootO, hps, if_false]
    split_ifs with hpos
    · rfl
    · exact le_antisymm (not_lt.mp hpos) ht' |>.symm
  rw [hS, hT]
  exact stepO_bracket sqrt hsq cfg.β hβ hk (dsInput cfg st) hl (dsMaskG cfg.ps G) o hsvd C hlo hhi

/-- **Tearfree Sketchy instance**: `_update_axis` stores ROOTS `e` of the sketch eigenvalues; the state it
denotes, `(V', e'², t')`, is exactly the generic step (`sqrt ≥ 0` is the extra kernel hypothesis), so the bracket is
kept around `β·C + G Gᵀ` with `β = second_moment_decay` — the sketch is discounted by `sqrt(β)` on the roots and the
escaped mass by `β`. -/
theorem sketchy_update_axis_bracket (sqrt pw : R → R) (hsq : ∀ x, 0 ≤ x → sqrt x * sqrt x = x)
    (hs0 : ∀ x, 0 ≤ sqrt x) (epsilon : R) (relative : Bool) (β : R) (hβ : 0 ≤ β) (hk : k ≤ d)
    (st : SkState R d k) (G : Mat R d m) (o : SvdOut R d) (hsvd : SvdSpec (sketchyB sqrt β st G) o)
    (C : Matrix (Fin d) (Fin d) R) (hlo : (C - toM (sketch st.denote)).PosSemidef)
    (hhi : (toM (sketch st.denote) + st.t • (1 : Matrix (Fin d) (Fin d) R) - C).PosSemidef) :
    (sketchyUpdateAxisO sqrt pw epsilon relative β st o).st.denote = stepO k β st.t o ∧
    (β • C + toM (outer G)
      - toM (sketch (sketchyUpdateAxisO sqrt pw epsilon relative β st o).st.denote)).PosSemidef ∧
    (toM (sketch (sketchyUpdateAxisO sqrt pw epsilon relative β st o).st.denote)
      + (sketchyUpdateAxisO sqrt pw epsilon relative β st o).st.t • (1 : Matrix (Fin d) (Fin d) R)
      - (β • C + toM (outer G))).PosSemidef := by
  rw [sketch_eq] at hlo hhi
  rw [sketch_eq, outer_eq]
  exact ⟨sketchy_denote sqrt pw hsq hs0 epsilon relative β st o hsvd.nonneg,
    sketchy_bracket sqrt pw hsq hs0 epsilon relative β hβ hk st G o hsvd C hlo hhi⟩

/-- **The guards of `_fd_update_root` are identities under the SVD specification.** `dsFdUpdateRootG` is the
code-shaped step WITH the unit-norm window (`0.99 ≤ ‖u_a‖ ≤ 1.01`, renormalisation) and the padding-mass guard
(`‖u_a[padding]‖₁ > 0.01 ⇒ zero the direction`), the later `upshifted *= deflated > 0`, `has_zeros` on the guarded
eigenvalues — what `drv_c09` executes. Whenever the SVD meets `SvdSpec` on the matrix it is given (whose padding rows
are zero by construction: both blocks are masked with `active_ix_d`), `sqrt` is the non-negative root, the window
contains 1 and the threshold is non-negative, it returns EXACTLY the unguarded `dsFdUpdateRootO`. -/
theorem ds_guards_are_identities (sqrt pw : R → R) (hsq : ∀ x, 0 ≤ x → sqrt x * sqrt x = x) (hs0 : ∀ x, 0 ≤ sqrt x)
    (g : Guards R) (hlo : g.lo ≤ 1) (hhi : 1 ≤ g.hi) (hthr : 0 ≤ g.thr) (cfg : DsCfg R) (hβ : 0 ≤ cfg.β)
    (hk : k ≤ d) (st : State R d k) (ht : 0 ≤ st.t) (G : Mat R d d) (o : SvdOut R d)
    (hsvd : SvdSpec (dsB sqrt cfg st G) o) :
    dsFdUpdateRootG sqrt pw g cfg st o = dsFdUpdateRootO pw cfg st o :=
  dsFdUpdateRootG_eq sqrt pw hsq hs0 g hlo hhi hthr cfg hβ hk st ht G o hsvd

/-- so the bracket holds for the guarded, code-shaped `_fd_update_root`. -/
theorem ds_fd_update_root_guarded_bracket (sqrt pw : R → R) (hsq : ∀ x, 0 ≤ x → sqrt x * sqrt x = x)
    (hs0 : ∀ x, 0 ≤ sqrt x) (g : Guards R) (hlo : g.lo ≤ 1) (hhi : 1 ≤ g.hi) (hthr : 0 ≤ g.thr)
    (cfg : DsCfg R) (hβ : 0 ≤ cfg.β) (hps : cfg.ps ≠ 0) (hk : k ≤ d) (st : State R d k)
    (hl : ∀ a, 0 ≤ (dsInput cfg st).l a) (ht : 0 ≤ st.t) (G : Mat R d d) (o : SvdOut R d)
    (hsvd : SvdSpec (dsB sqrt cfg st G) o)
    (C : Matrix (Fin d) (Fin d) R) (hlo' : (C - toM (sketch (dsInput cfg st))).PosSemidef)
    (hhi' : (toM (sketch (dsInput cfg st)) + st.t • (1 : Matrix (Fin d) (Fin d) R) - C).PosSemidef) :
    (cfg.β • C + toM (outer (dsMaskG cfg.ps G)) - toM (sketch (dsFdUpdateRootG sqrt pw g cfg st o).st)).PosSemidef ∧
    (toM (sketch (dsFdUpdateRootG sqrt pw g cfg st o).st)
      + (dsFdUpdateRootG sqrt pw g cfg st o).st.t • (1 : Matrix (Fin d) (Fin d) R)
      - (cfg.β • C + toM (outer (dsMaskG cfg.ps G)))).PosSemidef := by
  rw [dsFdUpdateRootG_eq sqrt pw hsq hs0 g hlo hhi hthr cfg hβ hk st ht G o hsvd]
  exact ds_fd_update_root_bracket sqrt pw hsq cfg hβ hps hk st hl ht G o hsvd C hlo' hhi'

/-- **OCO instance** (`_fd_update_fn`, row form): the state keeps `P : (k+1) × n` (rows of `vt`) and root eigenvalues
`e`; the new gradient REPLACES the last row (`B.at[-1].set(grad_input)`), `rho = s[-1]`, no row is masked. For the
sketch denoted by the first `k` rows, `Pᵀ diag(e²) P ≤ C ≤ Pᵀ diag(e²) P + t·I` is kept around `C + g gᵀ`
with `t' = t + rho²` (S-AdaGrad: `alpha − delta`; RFD-SON: `2(alpha − delta)`). -/
theorem oco_update_bracket {n : ℕ} (sqrt : R → R) (hsq : ∀ x, 0 ≤ x → sqrt x * sqrt x = x) (hk : k ≤ n)
    (st : OcoState R k n) (g : Vec R n) (o : SvdOut R n) (hsvd : SvdSpec (ocoB st g) o)
    (C : Matrix (Fin n) (Fin n) R) (hlo : (C - toM (sketch st.denote)).PosSemidef)
    (hhi : (toM (sketch st.denote) + st.t • (1 : Matrix (Fin n) (Fin n) R) - C).PosSemidef) :
    (C + toM (outer (colOf g)) - toM (sketch (ocoFdUpdateO sqrt st o).denote)).PosSemidef ∧
    (toM (sketch (ocoFdUpdateO sqrt st o).denote) + (ocoFdUpdateO sqrt st o).t • (1 : Matrix (Fin n) (Fin n) R)
      - (C + toM (outer (colOf g)))).PosSemidef ∧
    (ocoFdUpdateO sqrt st o).t = st.t + rho k o ∧
    (∀ a, 0 ≤ (ocoFdUpdateO sqrt st o).denote.l a) := by
  rw [sketch_eq] at hlo hhi
  rw [sketch_eq, outer_eq]
  obtain ⟨h1, h2⟩ := oco_bracket sqrt hsq hk st g o hsvd C hlo hhi
  exact ⟨h1, h2, rfl, fun a => mul_self_nonneg _⟩

end Field

/-! ### known finding K5: the state cut of the public optimizer -/

section Cut
variable {α : Type} [Zero α] [One α] [Add α] [Sub α] [Mul α] {D k : ℕ}

/-- what the next public update reads after `p[:dim, :k+2]` and re-padding (`publicReload`), for every packed state:
directions are kept on the rows `< dim`, the escaped mass is kept, and eigenvalue `a` — stored at row
`max_size − k + a` of the last column — survives only if that row is `< dim`. -/
theorem ds_public_cut_reads (hD : k + 2 < D) (dim : ℕ) (hdim : 1 < dim) (st : State α D k) (inv : Vec α k) (c f : α) :
    (∀ i a, (publicReload dim st inv c f).V i a = if i.1 < dim then st.V i a else 0) ∧
    (∀ a, (publicReload dim st inv c f).l a = if D - k + a.1 < dim then st.l a else 0) ∧
    (publicReload dim st inv c f).t = st.t :=
  ⟨publicReload_V dim st inv c f, publicReload_l dim st inv c f, publicReload_t hD dim hdim st inv c f⟩

/-- **K5 cannot occur when `dim = max_size`**: the cut is the identity on the sketch state. -/
theorem ds_public_cut_harmless_when_dim_eq_max_size (hD : k + 2 < D) (st : State α D k) (inv : Vec α k) (c f : α) :
    (publicReload D st inv c f).V = st.V ∧ (publicReload D st inv c f).l = st.l ∧
    (publicReload D st inv c f).t = st.t := by
  refine ⟨?_, ?_, publicReload_t hD D (by omega) st inv c f⟩
  · funext i a; rw [publicReload_V, if_pos i.2]
  · funext a
    rw [publicReload_l, if_pos]
    have := a.2
    omega

end Cut

/-- witness of K5: `max_size = 5`, rank 1, a statistic of dimension 4; sketch `4·e₀e₀ᵀ`, escaped mass 1 -/
def k5St : State ℚ 5 1 := { V := fun i _ => if i = 0 then 1 else 0, l := fun _ => 4, t := 1 }

/-- **Negative (K5).** Whenever `dim < max_size` the LAST eigenvalue slot (row `max_size − 1`) is cut off and reads 0
at the next update, for every state. Concretely (`max_size 5`, `k = 1`, `dim 4`): a state that brackets
`C = 4·e₀e₀ᵀ` exactly is reloaded with the same directions and escaped mass but eigenvalue 0, and
`sketch + t·I ≥ C` fails (entry `(0,0)`: `0 + 1 − 4 < 0`). -/
theorem ds_public_cut_loses_eigenvalues :
    (∀ (D k dim : ℕ) (hk : 0 < k) (_ : k + 2 < D) (_ : dim < D) (st : State ℚ D k) (inv : Vec ℚ k) (c f : ℚ),
      (publicReload dim st inv c f).l ⟨k - 1, by omega⟩ = 0) ∧
    ((toM (sketch k5St) - toM (sketch k5St)).PosSemidef ∧
      (toM (sketch k5St) + k5St.t • (1 : Matrix (Fin 5) (Fin 5) ℚ) - toM (sketch k5St)).PosSemidef) ∧
    (publicReload 4 k5St (fun _ => 1) 1 0).l = (fun _ => 0) ∧
    (publicReload 4 k5St (fun _ => 1) 1 0).t = 1 ∧
    (∀ i a, i.1 < 4 → (publicReload 4 k5St (fun _ => 1) 1 0).V i a = k5St.V i a) ∧
    ¬ (toM (sketch (publicReload 4 k5St (fun _ => 1) 1 0))
        + (publicReload 4 k5St (fun _ => 1) 1 0).t • (1 : Matrix (Fin 5) (Fin 5) ℚ) - toM (sketch k5St)).PosSemidef := by
  have hl : ∀ a, (publicReload 4 k5St (fun _ => 1) 1 0).l a = 0 := by
    intro a
    rw [publicReload_l, if_neg (by omega)]
  have ht : (publicReload 4 k5St (fun _ => 1) 1 0).t = 1 := publicReload_t (by norm_num) 4 (by norm_num) _ _ _ _
  refine ⟨?_, ⟨?_, ?_⟩, funext hl, ht, ?_, ?_⟩
  · intro D k dim hk hD hdim st inv c f
    rw [publicReload_l, if_neg]
    simp only [not_lt]
    omega
  · rw [sub_self]; exact PosSemidef.zero
  · rw [add_sub_cancel_left]
    simpa [k5St] using (PosSemidef.one : (1 : Matrix (Fin 5) (Fin 5) ℚ).PosSemidef)
  · intro i a hi
    rw [publicReload_V, if_pos hi]
  · intro hA
    have h00 := hA.diag_nonneg (i := (0 : Fin 5))
    simp only [Matrix.sub_apply, Matrix.add_apply, Matrix.smul_apply, Matrix.one_apply_eq, toM_apply, sketch,
      sumFin_eq, Fin.sum_univ_one, smul_eq_mul] at h00
    rw [hl, ht] at h00
    norm_num [k5St] at h00

/-! ### the defect repaired by `fix:` 41a2a86 (D8), kept as a negative theorem -/

/-- **Negative.** The unrepaired Tearfree Sketchy recurrence `tail * sqrt(decay) + ρ` violates the escaped-mass
recurrence: at `decay = 1/4` (`sqrt = 1/2`) a zero-gradient step (`ρ = 0`) from `t = 1` leaves `t' = 1/2`, while
the sketch (and the property's `β·t + ρ`) is discounted to `1/4`. -/
theorem sketchy_tail_sqrt_decay_violates :
    sketchyTailUnrepaired (1 / 2 : ℚ) 1 0 = 1 / 2 ∧ (1 / 2 : ℚ) * (1 / 2) = 1 / 4 ∧
    sketchyTailUnrepaired (1 / 2 : ℚ) 1 0 ≠ (1 / 4 : ℚ) * 1 + 0 := by
  refine ⟨by norm_num [sketchyTailUnrepaired], by norm_num, by norm_num [sketchyTailUnrepaired]⟩

/-! ### the hypotheses are satisfiable: a concrete non-trivial instance at ℝ -/

/-- `d = 2`, `k = 1`, one gradient column `(3, 4)ᵀ/5·5 = (3, 4)`: `B = [0 | g]`, `B Bᵀ = g gᵀ` has the
eigen-decomposition `U = [[3/5, -4/5], [4/5, 3/5]]`, `s = (5, 0)`. -/
noncomputable def exG : Mat ℝ 2 1 := fun i _ => if i = 0 then 3 else 4
noncomputable def exOut : SvdOut ℝ 2 :=
  { U := fun i j => if i = 0 then (if j = 0 then 3 / 5 else -4 / 5) else (if j = 0 then 4 / 5 else 3 / 5)
    s := fun a => if a = 0 then 5 else 0 }

example : SvdSpec (fdB Real.sqrt (1 / 2) (State.zero 2 1) exG) exOut where
  uOrthoRows := by
    intro i j
    fin_cases i <;> fin_cases j <;> norm_num [sumFin_eq, Fin.sum_univ_two, exOut]
  uOrthoCols := by
    intro a b
    fin_cases a <;> fin_cases b <;> norm_num [sumFin_eq, Fin.sum_univ_two, exOut]
  recon := by
    intro i j
    simp only [outer, sumFin_eq, fdB, Fin.sum_univ_add, Fin.addCases_left, Fin.addCases_right, State.zero,
      Fin.sum_univ_one, Fin.sum_univ_two]
    fin_cases i <;> fin_cases j <;> norm_num [exOut, exG]
  nonneg := by
    intro a; fin_cases a <;> norm_num [exOut]
  sorted := by
    intro a b hab
    fin_cases a <;> fin_cases b <;> simp_all [exOut]

example : ∀ x : ℝ, 0 ≤ x → Real.sqrt x * Real.sqrt x = x := fun _ hx => Real.mul_self_sqrt hx

end PrecondVerif.C09
