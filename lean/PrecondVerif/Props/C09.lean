/-
C09 — the frequent-directions sketch brackets the true second moment.

Model: `Model/FD.lean` (generic `fdStep`/`stepO`, instances `dsFdUpdateRootO`, `sketchyUpdateAxisO`,
`ocoFdUpdateO`; executed at `Float` by `Drv/C09.lean` with the SVD supplied by LAPACK and checked against
`SvdSpec` at run time).
-/
import PrecondVerif.Model.FD

namespace PrecondVerif.C09
open PrecondVerif.FD

/-- **Escaped-mass recurrence** `t' = β·t + ρ`, for any scalar type, any SVD kernel. -/
theorem fd_tail_recurrence {α : Type} [Zero α] [One α] [Add α] [Sub α] [Mul α] [LT α] [DecidableLT α]
    {d k m : Nat} (svd : SvdFn α d (k + m)) (sqrt : α → α) (β : α) (st : State α d k) (G : Mat α d m) :
    (fdStep svd sqrt β st G).t = β * st.t + rho k (svd (fdB sqrt β st G)) := rfl

end PrecondVerif.C09
