/-
C16 — OCO algorithms match closed forms; lossless S-AdaGrad is full-matrix AdaGrad.

Only property theorems and non-vacuity examples live here; helper lemmas are in `Lemmas/OCO.lean`.
All statements are about the definitions of `Model/OCO.lean` that `Drv/C16.lean` executes, for every
dimension `n`, every sketch size `k+1`, every history `gs` (induction over the list) and every
`lr`, `δ`. The kernels `rsqrt`, `sqrt`, `svd` are parameters; where a statement needs their
specification it is an explicit hypothesis (`sqrt 0 = 0`, `sqrt x * sqrt x = x` and `0 ≤ sqrt x` for `0 ≤ x`,
`0 < rsqrt x ∧ rsqrt x * rsqrt x * x = 1` for `0 < x`, `SvdSpec`).

Scalars: closed forms, last row and `alpha` recurrence hold over any field; the bracket holds over any
linearly ordered field with trivial star that is a `StarOrderedRing` (ℝ, ℚ, …), Loewner order via
`Matrix.PosSemidef`.
-/
import PrecondVerif.Lemmas.OCO
import Mathlib.Analysis.Real.Sqrt
import Mathlib.Algebra.Order.Star.Real

set_option linter.unusedSectionVars false
set_option linter.overlappingInstances false

namespace PrecondVerif.C16
open PrecondVerif.OCO Finset Matrix

section ClosedForms
variable {α : Type} [Field α] {n : ℕ}

/-- OGD, from any state: `t` counts the steps and `w_T = w_0 − Σ_{k<T} lr · g_k · rsqrt(t_0 + (k+1) + δ)`
(the code's schedule `lr * grad * rsqrt(t + delta)` with the already incremented `t`). -/
theorem ogd_closed_form_from (rsqrt : α → α) (lr δ : α) (s : OgdState α n) (gs : List (Vec α n)) :
    (ogdRunFrom rsqrt lr δ s gs).t = s.t + gs.length ∧
    ∀ i, (ogdRunFrom rsqrt lr δ s gs).w i =
      s.w i - ∑ k ∈ range gs.length, lr * hist gs k i * rsqrt (s.t + ((k : α) + 1) + δ) :=
  ogdRunFrom_closed rsqrt lr δ gs s

/-- OGD from `_ogd_init_fn` (`w_0 = 0`, `t_0 = 0`). -/
theorem ogd_closed_form (rsqrt : α → α) (lr δ : α) (gs : List (Vec α n)) :
    (ogdRun rsqrt lr δ gs).t = gs.length ∧
    ∀ i, (ogdRun rsqrt lr δ gs).w i =
      0 - ∑ k ∈ range gs.length, lr * hist gs k i * rsqrt (((k : α) + 1) + δ) := by
  obtain ⟨ht, hw⟩ := ogdRunFrom_closed rsqrt lr δ gs (ogdInit n)
  refine ⟨by simpa [ogdRun, ogdInit] using ht, fun i => ?_⟩
  have := hw i
  simpa [ogdRun, ogdInit] using this

/-- Diagonal AdaGrad, from any state: the accumulator is the initial one plus the sum of squared
gradients, and every step subtracts `rsqrt(where(h == 0, 1, h)) * g * lr` with the *updated* accumulator. -/
theorem adagrad_closed_form_from [BEq α] (rsqrt : α → α) (lr : α) (s : AdaState α n) (gs : List (Vec α n))
    (i : Fin n) :
    (adaRunFrom rsqrt lr s gs).diagH i = s.diagH i + ∑ k ∈ range gs.length, hist gs k i ^ 2 ∧
    (adaRunFrom rsqrt lr s gs).w i = s.w i - ∑ k ∈ range gs.length,
      rsqrt (nzOr1 (s.diagH i + ∑ u ∈ range (k + 1), hist gs u i ^ 2)) * hist gs k i * lr :=
  adaRunFrom_closed rsqrt lr gs s i

/-- Diagonal AdaGrad from `_diag_adagrad_init_fn`: `diag_h_T = δ + Σ g_t²`. -/
theorem adagrad_closed_form [BEq α] (rsqrt : α → α) (lr δ : α) (gs : List (Vec α n)) (i : Fin n) :
    (adaRun rsqrt lr δ gs).diagH i = δ + ∑ k ∈ range gs.length, hist gs k i ^ 2 ∧
    (adaRun rsqrt lr δ gs).w i = 0 - ∑ k ∈ range gs.length,
      rsqrt (nzOr1 (δ + ∑ u ∈ range (k + 1), hist gs u i ^ 2)) * hist gs k i * lr := by
  have := adaRunFrom_closed rsqrt lr gs (adaInit n δ) i
  simpa [adaRun, adaInit] using this

/-- One AdaGrad step in the code's form. -/
theorem adagrad_step [BEq α] (rsqrt : α → α) (lr : α) (s : AdaState α n) (g : Vec α n) (i : Fin n) :
    (adaUpdate rsqrt lr s g).diagH i = s.diagH i + g i * g i ∧
    (adaUpdate rsqrt lr s g).w i = s.w i - rsqrt (nzOr1 (s.diagH i + g i * g i)) * g i * lr := by
  simp [adaUpdate]

end ClosedForms

section Sketched
variable {α : Type} [Field α] [LinearOrder α] {k n : ℕ}
variable (svd : SvdFn α (k + 1) n) (sqrt rsqrt : α → α) (algo : Algo) (lr : α)

/-- After any sketched update — whatever the SVD returned — the last root-eigenvalue is `sqrt 0`, so
the last sketch row `e_last • P_last` is zero (the code deflates by the smallest singular value). -/
theorem last_row_zero_step (hsqrt : sqrt 0 = 0) (st : FdState α k n) (g : Vec α n) (j : Fin n) :
    (fdUpdate svd sqrt rsqrt algo lr st g).e (Fin.last k) = 0 ∧
    sketchRows (fdUpdate svd sqrt rsqrt algo lr st g) (Fin.last k) j = 0 := by
  have h := fdUpdate_e_last svd sqrt rsqrt algo lr st g
  exact ⟨by rw [h, hsqrt], by simp [sketchRows, h, hsqrt]⟩

/-- For every history (including the empty one) from `_fd_init_fn`, the last sketch row is zero. -/
theorem last_row_zero (hsqrt : sqrt 0 = 0) (δ : α) (gs : List (Vec α n)) (j : Fin n) :
    sketchRows (fdRun svd sqrt rsqrt algo lr δ gs) (Fin.last k) j = 0 :=
  fdRunFrom_last_row svd sqrt rsqrt algo lr hsqrt gs (fdInit k n δ) (by simp [sketchRows, fdInit]) j

/-- `alpha_T = δ + alpha_update_factor · Σ_t ρ_t`, `ρ_t = s_t[-1]²` the escaped mass of step `t`. -/
theorem alpha_recurrence (δ : α) (gs : List (Vec α n)) :
    (fdRun svd sqrt rsqrt algo lr δ gs).alpha
      = δ + alphaFactor algo * (fdRhosFrom svd sqrt rsqrt algo lr (fdInit k n δ) gs).sum := by
  simpa [fdRun, fdInit] using fdRunFrom_alpha svd sqrt rsqrt algo lr gs (fdInit k n δ)

/-- S-AdaGrad: `α_T = δ + Σ_t ρ_t`. -/
theorem sada_alpha (δ : α) (gs : List (Vec α n)) :
    (fdRun svd sqrt rsqrt .sAda lr δ gs).alpha
      = δ + (fdRhosFrom svd sqrt rsqrt .sAda lr (fdInit k n δ) gs).sum := by
  rw [alpha_recurrence]; simp [alphaFactor]

/-- RFD-SON: `α_T = δ + ½ Σ_t ρ_t`. -/
theorem rfd_alpha (δ : α) (gs : List (Vec α n)) :
    (fdRun svd sqrt rsqrt .rfdSon lr δ gs).alpha
      = δ + (fdRhosFrom svd sqrt rsqrt .rfdSon lr (fdInit k n δ) gs).sum / 2 := by
  rw [alpha_recurrence]; simp only [alphaFactor]; ring

/-- FD-SON and Ada-FD never change `alpha`. -/
theorem fdson_adafd_alpha_const (h : algo = .fdSon ∨ algo = .adaFd) (δ : α) (gs : List (Vec α n)) :
    (fdRun svd sqrt rsqrt algo lr δ gs).alpha = δ := by
  rw [alpha_recurrence]; rcases h with rfl | rfl <;> simp [alphaFactor]

end Sketched

section Bracket
variable {R : Type} [Field R] [LinearOrder R] [IsStrictOrderedRing R] [StarRing R] [TrivialStar R]
  [StarOrderedRing R]
variable {k n : ℕ}
variable (svd : SvdFn R (k + 1) n) (sqrt rsqrt : R → R) (algo : Algo) (lr : R)

/-- One-step frequent-directions bracket. If the sketch `G = BᵀB` of a state whose last row is zero
brackets `C` (`G ≤ C ≤ G + a·I` in the Loewner order), then after one `_fd_update_fn` with any SVD
meeting its specification the new sketch brackets `C + g̃ g̃ᵀ` with slack `a + ρ`, where `g̃` is the
scaled gradient written into the last row and `ρ = s[-1]²`. -/
theorem oco_bracket_step (hsq : ∀ x, 0 ≤ x → sqrt x * sqrt x = x) (st : FdState R k n) (g : Vec R n)
    (h0 : ∀ j, sketchRows st (Fin.last k) j = 0)
    (h : SvdSpec (fdB sqrt rsqrt algo lr st g) (svd (fdB sqrt rsqrt algo lr st g)))
    (C : Matrix (Fin n) (Fin n) R) (a : R)
    (hlo : (C - gram (sketchRows st)).PosSemidef)
    (hhi : (gram (sketchRows st) + a • (1 : Matrix (Fin n) (Fin n) R) - C).PosSemidef) :
    (C + vecMulVec (gradInput (sketchFactor sqrt rsqrt algo (st.t + 1) lr) g)
          (gradInput (sketchFactor sqrt rsqrt algo (st.t + 1) lr) g)
        - gram (sketchRows (fdUpdate svd sqrt rsqrt algo lr st g))).PosSemidef ∧
    (gram (sketchRows (fdUpdate svd sqrt rsqrt algo lr st g))
        + (a + fdRho svd sqrt rsqrt algo lr st g) • (1 : Matrix (Fin n) (Fin n) R)
        - (C + vecMulVec (gradInput (sketchFactor sqrt rsqrt algo (st.t + 1) lr) g)
            (gradInput (sketchFactor sqrt rsqrt algo (st.t + 1) lr) g))).PosSemidef ∧
    0 ≤ fdRho svd sqrt rsqrt algo lr st g :=
  ⟨(fd_bracket_step svd sqrt rsqrt algo lr hsq st g h0 h C a hlo hhi).1,
   (fd_bracket_step svd sqrt rsqrt algo lr hsq st g h0 h C a hlo hhi).2,
   fdRho_nonneg svd sqrt rsqrt algo lr st g⟩

/-- History bracket: for every gradient sequence from `_fd_init_fn`, with an SVD meeting its
specification on the matrices it is called with, `BᵀB ≤ Σ g̃_t g̃_tᵀ ≤ BᵀB + (Σ_t ρ_t)·I`. -/
theorem oco_bracket (hsq : ∀ x, 0 ≤ x → sqrt x * sqrt x = x) (δ : R) (gs : List (Vec R n))
    (hs : SvdAlong svd sqrt rsqrt algo lr (fdInit k n δ) gs) :
    (inputsCov (fdInputsFrom svd sqrt rsqrt algo lr (fdInit k n δ) gs)
        - gram (sketchRows (fdRun svd sqrt rsqrt algo lr δ gs))).PosSemidef ∧
    (gram (sketchRows (fdRun svd sqrt rsqrt algo lr δ gs))
        + (fdRhosFrom svd sqrt rsqrt algo lr (fdInit k n δ) gs).sum • (1 : Matrix (Fin n) (Fin n) R)
        - inputsCov (fdInputsFrom svd sqrt rsqrt algo lr (fdInit k n δ) gs)).PosSemidef := by
  have hg0 : gram (sketchRows (fdInit k n δ)) = 0 := by
    ext a b; simp [gram_apply, sketchRows, fdInit]
  have := fd_bracket_from svd sqrt rsqrt algo lr hsq gs (fdInit k n δ)
    (by simp [sketchRows, fdInit]) hs 0 0 (by rw [hg0]; simpa using PosSemidef.zero)
    (by rw [hg0]; simpa using PosSemidef.zero)
  simpa [fdRun] using this

/-- S-AdaGrad in the code's own quantities: the sketch plus the *dynamic diagonal* `α_T − δ` dominates
the exact second moment `Σ g_t g_tᵀ`, which dominates the sketch. -/
theorem sada_bracket (hsq : ∀ x, 0 ≤ x → sqrt x * sqrt x = x) (δ : R) (gs : List (Vec R n))
    (hs : SvdAlong svd sqrt rsqrt .sAda lr (fdInit k n δ) gs) :
    (inputsCov gs - gram (sketchRows (fdRun svd sqrt rsqrt .sAda lr δ gs))).PosSemidef ∧
    (gram (sketchRows (fdRun svd sqrt rsqrt .sAda lr δ gs))
        + ((fdRun svd sqrt rsqrt .sAda lr δ gs).alpha - δ) • (1 : Matrix (Fin n) (Fin n) R)
        - inputsCov gs).PosSemidef := by
  have hin : ∀ (gs : List (Vec R n)) (st : FdState R k n),
      fdInputsFrom svd sqrt rsqrt .sAda lr st gs = gs := by
    intro gs
    induction gs with
    | nil => intro st; rfl
    | cons g gs ih =>
      intro st
      simp only [fdInputsFrom, ih]
      congr 1
      funext j; simp [gradInput, sketchFactor]
  have hb := oco_bracket svd sqrt rsqrt .sAda lr hsq δ gs hs
  rw [hin] at hb
  have hα : (fdRun svd sqrt rsqrt .sAda lr δ gs).alpha - δ
      = (fdRhosFrom svd sqrt rsqrt .sAda lr (fdInit k n δ) gs).sum := by
    rw [sada_alpha]; ring
  rw [hα]
  exact hb

end Bracket

section Lossless
variable {R : Type} [Field R] [LinearOrder R] [IsStrictOrderedRing R] [StarRing R] [TrivialStar R]
  [StarOrderedRing R]
variable {k n : ℕ}
variable (svd : SvdFn R (k + 1) n) (sqrt rsqrt : R → R) (lr : R)

/-- Matrix form of the code's preconditioned direction (the `else` branch of `_fd_update_fn`: RFD-SON, FD-SON with
`inv = 1/x`, S-AdaGrad with `inv = rsqrt`): `update = (Pᵀ diag(safe_inv(α + s²)) P + safe_inv(α) (I − PᵀP)) g`. -/
theorem direction_matrix_form {m : ℕ} (inv : R → R) (alpha : R) (P : Mat R m n) (s2 : Vec R m) (g : Vec R n) :
    precondGeneric inv alpha P s2 g = appliedMatrix inv alpha P s2 *ᵥ g :=
  precondGeneric_eq inv alpha P s2 g

/-- **Lossless S-AdaGrad is full-matrix AdaGrad** (ext). Let the whole history `gs ++ [g]` lie in the row space of a
matrix `W` with fewer rows than the sketch size (history rank < sketch size), `δ > 0`, and let the kernels meet their
specifications (`sqrt x ≥ 0`, `sqrt x ² = x` for `x ≥ 0`; `rsqrt x > 0`, `rsqrt x ² · x = 1` for `x > 0`; `SvdSpec` on
every matrix the SVD is called with). Then no mass ever escapes (`ρ_t = 0` for every step), `alpha` stays `δ`, the sketch
is exact (`BᵀB = Σ g_t g_tᵀ`), and the last step is `w ← w − lr · X g` with `X` positive semidefinite and
`X · X · (δ I + Σ_{t ≤ T} g_t g_tᵀ) = I`: `X` is the full-matrix AdaGrad preconditioner `(δI + Σ ggᵀ)^(-1/2)`.
Every prefix of such a history satisfies the same hypotheses, so this holds for every iterate. -/
theorem sada_lossless (hsq : ∀ x, 0 ≤ x → sqrt x * sqrt x = x) (hsq0 : ∀ x, 0 ≤ x → 0 ≤ sqrt x)
    (hrs : ∀ x, 0 < x → 0 < rsqrt x ∧ rsqrt x * rsqrt x * x = 1)
    (δ : R) (hδ : 0 < δ) (gs : List (Vec R n)) (g : Vec R n)
    (hs : SvdAlong svd sqrt rsqrt .sAda lr (fdInit k n δ) gs)
    (hlast : SvdSpec (fdB sqrt rsqrt .sAda lr (fdRun svd sqrt rsqrt .sAda lr δ gs) g)
      (svd (fdB sqrt rsqrt .sAda lr (fdRun svd sqrt rsqrt .sAda lr δ gs) g)))
    {r : ℕ} (hr : r < k + 1) (W : Matrix (Fin r) (Fin n) R)
    (hW : ∀ x ∈ g :: gs, ∃ c : Fin r → R, x = c ᵥ* W) :
    (∀ ρ ∈ fdRhosFrom svd sqrt rsqrt .sAda lr (fdInit k n δ) gs, ρ = 0) ∧
    fdRho svd sqrt rsqrt .sAda lr (fdRun svd sqrt rsqrt .sAda lr δ gs) g = 0 ∧
    (fdUpdate svd sqrt rsqrt .sAda lr (fdRun svd sqrt rsqrt .sAda lr δ gs) g).alpha = δ ∧
    gram (sketchRows (fdUpdate svd sqrt rsqrt .sAda lr (fdRun svd sqrt rsqrt .sAda lr δ gs) g))
      = inputsCov gs + vecMulVec g g ∧
    ∃ X : Matrix (Fin n) (Fin n) R,
      (∀ j, (fdUpdate svd sqrt rsqrt .sAda lr (fdRun svd sqrt rsqrt .sAda lr δ gs) g).w j
        = (fdRun svd sqrt rsqrt .sAda lr δ gs).w j - lr * (X *ᵥ g) j) ∧
      X.PosSemidef ∧
      X * X * (δ • (1 : Matrix (Fin n) (Fin n) R) + (inputsCov gs + vecMulVec g g)) = 1 := by
  have hinit0 : ∀ j, sketchRows (fdInit k n δ) (Fin.last k) j = 0 := by simp [sketchRows, fdInit]
  have hinitS : InSpan W (fdInit k n δ) := ⟨0, by ext i j; simp [sketchRows, fdInit]⟩
  have hg0 : gram (sketchRows (fdInit k n δ)) = 0 := by
    ext a b; simp [gram_apply, sketchRows, fdInit]
  obtain ⟨hρs, hspan, hgram⟩ := fd_lossless_from svd sqrt rsqrt .sAda lr hsq hsq0 hr W gs (fdInit k n δ)
    hinit0 hinitS hs (fun x hx => hW x (List.mem_cons_of_mem _ hx))
  rw [fdInputsFrom_sAda, hg0, zero_add] at hgram
  have hst0 : ∀ j, sketchRows (fdRunFrom svd sqrt rsqrt .sAda lr (fdInit k n δ) gs) (Fin.last k) j = 0 :=
    fdRunFrom_last_row svd sqrt rsqrt .sAda lr (sqrt_zero_of_spec sqrt hsq) gs (fdInit k n δ) hinit0
  have hα : (fdRunFrom svd sqrt rsqrt .sAda lr (fdInit k n δ) gs).alpha = δ := by
    have := fdRunFrom_alpha svd sqrt rsqrt .sAda lr gs (fdInit k n δ)
    rw [list_sum_eq_zero_of_all_zero _ hρs, mul_zero, add_zero] at this
    exact this
  obtain ⟨h1, h2, h3, X, h4, h5, h6⟩ := sada_lossless_step svd sqrt rsqrt lr hsq hsq0 hrs hr W
    (fdRunFrom svd sqrt rsqrt .sAda lr (fdInit k n δ) gs) g hspan hst0 (by rw [hα]; exact hδ)
    (hW g (List.mem_cons_self ..)) hlast
  rw [hα] at h2 h6
  rw [hgram] at h3 h6
  exact ⟨hρs, h1, h2, h3, X, h4, h5, h6⟩

end Lossless

/-! ### non-vacuity -/

/-- the kernel hypotheses are satisfiable: `Real.sqrt` -/
example : Real.sqrt 0 = 0 ∧ ∀ x : ℝ, 0 ≤ x → Real.sqrt x * Real.sqrt x = x :=
  ⟨Real.sqrt_zero, fun _ hx => Real.mul_self_sqrt hx⟩

/-- a concrete exact SVD of the first matrix `[[0,0],[3,4]]` S-AdaGrad builds in dimension 2 with
sketch size 2: `U = [[0,1],[1,0]]`, `s = (5,0)`, `Vt = [[3/5,4/5],[-4/5,3/5]]`. -/
noncomputable def exSvd : SvdFn ℝ 2 2 := fun _ =>
  { U := ![![0, 1], ![1, 0]], s := ![5, 0], Vt := ![![3 / 5, 4 / 5], ![-4 / 5, 3 / 5]] }

/-- `SvdAlong` (hence the hypotheses of `oco_bracket`, `sada_bracket`, `oco_bracket_step`) holds for the
history `[(3,4)]`, `δ = 1/2`. -/
example : SvdAlong exSvd Real.sqrt (fun x => 1 / Real.sqrt x) .sAda (1 / 4 : ℝ)
    (fdInit 1 2 (1 / 2 : ℝ)) [![3, 4]] := by
  refine ⟨?_, trivial⟩
  constructor
  · intro i j
    rw [sumFin_eq, Fin.sum_univ_two]
    fin_cases i <;> fin_cases j <;>
      simp [exSvd, fdB, setLastRow, sketchRows, fdInit, gradInput, sketchFactor, Fin.last] <;> norm_num
  · intro a b
    rw [sumFin_eq, Fin.sum_univ_two]
    fin_cases a <;> fin_cases b <;> simp [exSvd] <;> norm_num
  · intro a b
    rw [sumFin_eq, Fin.sum_univ_two]
    fin_cases a <;> fin_cases b <;> simp [exSvd]
  · intro i; fin_cases i <;> simp [exSvd]
  · intro i j hij
    fin_cases i <;> fin_cases j <;> simp_all [exSvd]

/-- closed forms on a concrete rational history (`rsqrt` replaced by a rational stand-in) -/
example : (ogdRun (fun x : ℚ => 1 / x) (1 / 2) 1 [![1, -2], ![4, 0]]).w 0 = -(1 / 2 * 1 * (1 / 2) + 1 / 2 * 4 * (1 / 3)) := by
  rw [(ogd_closed_form (fun x : ℚ => 1 / x) (1 / 2) 1 [![1, -2], ![4, 0]]).2 0]
  simp [Finset.sum_range_succ, hist]
  norm_num

/-- the `rsqrt` specification of `sada_lossless` is met by `1 / Real.sqrt` -/
example : ∀ x : ℝ, 0 < x → 0 < 1 / Real.sqrt x ∧ 1 / Real.sqrt x * (1 / Real.sqrt x) * x = 1 := by
  intro x hx
  have hs : 0 < Real.sqrt x := Real.sqrt_pos.mpr hx
  refine ⟨by positivity, ?_⟩
  have h2 : Real.sqrt x * Real.sqrt x = x := Real.mul_self_sqrt hx.le
  field_simp
  nlinarith [h2]

/-- the rank hypothesis of `sada_lossless` on the history `[(3,4)]` (sketch size 2): it lies in the row space of the
one-row matrix `W = [[3,4]]`, `r = 1 < 2` -/
example : ∀ x ∈ [(![3, 4] : Vec ℝ 2)], ∃ c : Fin 1 → ℝ, x = c ᵥ* (!![3, 4] : Matrix (Fin 1) (Fin 2) ℝ) := by
  intro x hx
  simp only [List.mem_singleton] at hx
  subst hx
  refine ⟨![1], ?_⟩
  funext j
  fin_cases j <;> simp [vecMul, dotProduct]

/-- `sada_lossless` instantiated: first step of S-AdaGrad (sketch size 2, dimension 2, `δ = 1/2`, gradient `(3,4)`) with the
exact SVD `exSvd`: the applied matrix is a PSD inverse square root of `½ I + g gᵀ`. -/
example : ∃ X : Matrix (Fin 2) (Fin 2) ℝ, X.PosSemidef ∧
    X * X * ((1 / 2 : ℝ) • (1 : Matrix (Fin 2) (Fin 2) ℝ) + (inputsCov [] + vecMulVec ![3, 4] ![3, 4])) = 1 := by
  have hspec : SvdSpec (fdB Real.sqrt (fun x => 1 / Real.sqrt x) .sAda (1 / 4 : ℝ)
      (fdRun exSvd Real.sqrt (fun x => 1 / Real.sqrt x) .sAda (1 / 4 : ℝ) (1 / 2) []) ![3, 4])
      (exSvd (fdB Real.sqrt (fun x => 1 / Real.sqrt x) .sAda (1 / 4 : ℝ)
        (fdRun exSvd Real.sqrt (fun x => 1 / Real.sqrt x) .sAda (1 / 4 : ℝ) (1 / 2) []) ![3, 4])) := by
    constructor
    · intro i j
      rw [sumFin_eq, Fin.sum_univ_two]
      fin_cases i <;> fin_cases j <;>
        simp [exSvd, fdRun, fdRunFrom, fdB, setLastRow, sketchRows, fdInit, gradInput, sketchFactor, Fin.last] <;> norm_num
    · intro a b
      rw [sumFin_eq, Fin.sum_univ_two]
      fin_cases a <;> fin_cases b <;> simp [exSvd] <;> norm_num
    · intro a b
      rw [sumFin_eq, Fin.sum_univ_two]
      fin_cases a <;> fin_cases b <;> simp [exSvd]
    · intro i; fin_cases i <;> simp [exSvd]
    · intro i j hij
      fin_cases i <;> fin_cases j <;> simp_all [exSvd]
  obtain ⟨-, -, -, -, X, -, h5, h6⟩ := sada_lossless exSvd Real.sqrt (fun x => 1 / Real.sqrt x) (1 / 4 : ℝ)
    (fun _ hx => Real.mul_self_sqrt hx) (fun x _ => Real.sqrt_nonneg x)
    (fun x hx => by
      have hs : 0 < Real.sqrt x := Real.sqrt_pos.mpr hx
      refine ⟨by positivity, ?_⟩
      have h2 : Real.sqrt x * Real.sqrt x = x := Real.mul_self_sqrt hx.le
      field_simp
      nlinarith [h2])
    (1 / 2 : ℝ) (by norm_num) [] ![3, 4] trivial hspec (r := 1) (by norm_num)
    (!![3, 4] : Matrix (Fin 1) (Fin 2) ℝ)
    (fun x hx => by
      simp only [List.mem_singleton] at hx
      subst hx
      exact ⟨![1], by funext j; fin_cases j <;> simp [vecMul, dotProduct]⟩)
  exact ⟨X, h5, h6⟩

end PrecondVerif.C16
