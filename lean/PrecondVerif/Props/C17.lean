/-
C17 — Sketchy memory reallocation respects the memory budget.

Model: `Model/Realloc.lean` (`createRedist`, executed by the driver at `Rat`, `Float`, `Float32`).
The multiplication / division / floor of the code is the parameter `alloc`; the scalar type `α`
of the scores is arbitrary.  Statements quantify over every list of axes (any number of layers,
any dimensions, shared or not), every base rank and every score vector.
-/
import PrecondVerif.Lemmas.Realloc

namespace PrecondVerif.C17
open PrecondVerif.Realloc

/-- **Budget and upper bound, for ANY arithmetic** (IEEE double, float32, exact, broken, …) and any
scores (negative, NaN, …): if `create_redist_dict` returns — i.e. its own assertions pass — then
(1) every axis received a rank, (2) the keys of each group are exactly the axes of that dimension,
(3) every rank is at most the dimension, and (4) the ranks of each group of equal dimension sum to at
most group size × base rank. -/
theorem budget_any_arithmetic {κ α : Type} [Add α] [OfNat α 0] [LT α] [DecidableLT α]
    (alloc : α → Int → α → Int) (k : Int) (axes : List (κ × Nat × α))
    (out : List (Nat × List (κ × Int))) (h : createRedist alloc k axes = .ok out) :
    (∀ a ∈ axes, ∃ g ∈ out, g.1 = a.2.1 ∧ a.1 ∈ g.2.map Prod.fst) ∧
    ∀ g ∈ out,
      (g.2.map Prod.fst).Perm ((groupOf axes g.1).map Prod.fst) ∧
      (∀ p ∈ g.2, p.2 ≤ (g.1 : Int)) ∧
      (g.2.map Prod.snd).sum ≤ ((groupOf axes g.1).length : Int) * k := by
  obtain ⟨hfst, hall⟩ := runGroups_ok _ _ _ h
  have hgrp : ∀ g ∈ out, (g.2.map Prod.fst).Perm ((groupOf axes g.1).map Prod.fst) ∧
      (∀ p ∈ g.2, p.2 ≤ (g.1 : Int)) ∧
      (g.2.map Prod.snd).sum ≤ ((groupOf axes g.1).length : Int) * k :=
    fun g hg => groupRun_budget alloc k g.1 (groupOf axes g.1) g.2 (hall g hg)
  refine ⟨?_, hgrp⟩
  intro a ha
  have hd : a.2.1 ∈ out.map Prod.fst := by
    rw [hfst]
    exact (mem_dedupFirst _ _).mpr (List.mem_map.mpr ⟨a, ha, rfl⟩)
  obtain ⟨g, hg, hga⟩ := List.mem_map.mp hd
  refine ⟨g, hg, hga, ?_⟩
  have := (hgrp g hg).1
  rw [hga] at this
  exact this.mem_iff.mpr (mem_groupOf_keys axes a ha)

/-- The function's `assert realloc[key] <= dim` can never fire, whatever the arithmetic. -/
theorem rank_le_dim_assert_never_fires {κ α : Type} [Add α] [OfNat α 0] [LT α] [DecidableLT α]
    (alloc : α → Int → α → Int) (k : Int) (axes : List (κ × Nat × α)) (r d : Int) :
    createRedist alloc k axes ≠ .error (.rankExceedsDim r d) := by
  intro h
  obtain ⟨d', _, hf⟩ := runGroups_error _ _ _ h
  exact groupRun_ne_rankExceedsDim alloc k d' _ r d hf

/-- **Lower bound, any arithmetic with a non-negative floor**: if the share computation never
returns a negative integer (in floats: `⌊fl(score · fl(R / T))⌋ ≥ 0`) and every dimension is at
least 1, every returned rank is at least 1. -/
theorem rank_ge_one {κ α : Type} [Add α] [OfNat α 0] [LT α] [DecidableLT α]
    (alloc : α → Int → α → Int) (hnn : ∀ s R T, 0 ≤ alloc s R T)
    (k : Int) (axes : List (κ × Nat × α)) (hd : ∀ a ∈ axes, 1 ≤ a.2.1)
    (out : List (Nat × List (κ × Int))) (h : createRedist alloc k axes = .ok out) :
    ∀ g ∈ out, ∀ p ∈ g.2, 1 ≤ p.2 := by
  obtain ⟨hfst, hall⟩ := runGroups_ok _ _ _ h
  intro g hg
  have hmem : g.1 ∈ dims axes := by rw [← hfst]; exact List.mem_map.mpr ⟨g, hg, rfl⟩
  obtain ⟨a, ha, hga⟩ := List.mem_map.mp ((mem_dedupFirst _ _).mp hmem)
  have hd1 : 1 ≤ g.1 := by rw [← hga]; exact hd a ha
  exact groupRun_ge_one_of_nonneg alloc hnn k g.1 hd1 _ g.2 (hall g hg)

/-- **Lower bound and no assertion, for exact arithmetic and every monotone rounding of it**: if
the addition of scores is monotone in the sense of `AddMonotone` (adding non-negatives gives a
non-negative result not smaller than the second summand — every ordered group, and IEEE
round-to-nearest addition), the share computation is sound in the sense of `AllocSound` (a
non-negative score not exceeding the total gets between 0 and the whole resource — `⌊s·(R/T)⌋` does),
scores are non-negative, base rank ≥ 1 and dimensions ≥ 1, then no assertion fires and every rank is
at least 1.  (This is the statement the repair b9b95e4 — suffix sums instead of running subtraction —
makes true beyond exact arithmetic.) -/
theorem bounds_monotone_rounding {κ α : Type} [LE α] [LT α] [DecidableLT α] [Add α] [OfNat α 0]
    (hm : AddMonotone α) (alloc : α → Int → α → Int) (hs : AllocSound alloc) (k : Int) (hk : 1 ≤ k)
    (axes : List (κ × Nat × α)) (hd : ∀ a ∈ axes, 1 ≤ a.2.1) (hnn : ∀ a ∈ axes, (0 : α) ≤ a.2.2) :
    ∃ out, createRedist alloc k axes = .ok out ∧ ∀ g ∈ out, ∀ p ∈ g.2, 1 ≤ p.2 := by
  refine runGroups_all_ok (fun d => groupRun alloc k d (groupOf axes d)) (fun r => ∀ p ∈ r, 1 ≤ p.2)
    (dims axes) ?_
  intro d hdm
  obtain ⟨a, ha, hda⟩ := List.mem_map.mp ((mem_dedupFirst _ _).mp hdm)
  have hd1 : 1 ≤ d := by rw [← hda]; exact hd a ha
  apply groupRun_sound hm alloc hs k hk d hd1
  intro x hx
  obtain ⟨a', ha', _, hsc⟩ := groupOf_scores axes d x hx
  rw [← hsc]; exact hnn a' ha'

/-- **Exact arithmetic**: over any linearly ordered additive group of scores, with a sound share
computation, non-negative scores, base rank ≥ 1 and dimensions ≥ 1: no assertion fires and every
rank is at least 1.  (Together with `budget_any_arithmetic` the result then satisfies the whole
property.) -/
theorem bounds_exact {κ α : Type} [AddCommGroup α] [LinearOrder α] [IsOrderedAddMonoid α]
    (alloc : α → Int → α → Int) (hs : AllocSound alloc) (k : Int) (hk : 1 ≤ k)
    (axes : List (κ × Nat × α)) (hd : ∀ a ∈ axes, 1 ≤ a.2.1) (hnn : ∀ a ∈ axes, (0 : α) ≤ a.2.2) :
    ∃ out, createRedist alloc k axes = .ok out ∧ ∀ g ∈ out, ∀ p ∈ g.2, 1 ≤ p.2 :=
  bounds_monotone_rounding (addMonotone_of_orderedGroup α) alloc hs k hk axes hd hnn

/-- The instance the driver executes at `Rat` (`createRedistRat`, exact `⌊s · (R / T)⌋`):
no assertion fires, every rank is between 1 and the dimension, every group is within budget. -/
theorem bounds_exact_rat (k : Int) (hk : 1 ≤ k) (axes : List (Nat × Nat × Rat))
    (hd : ∀ a ∈ axes, 1 ≤ a.2.1) (hnn : ∀ a ∈ axes, 0 ≤ a.2.2) :
    ∃ out, createRedistRat k axes = .ok out ∧
      ∀ g ∈ out, (∀ p ∈ g.2, 1 ≤ p.2 ∧ p.2 ≤ (g.1 : Int)) ∧
        (g.2.map Prod.snd).sum ≤ ((groupOf axes g.1).length : Int) * k := by
  obtain ⟨out, hout, h1⟩ := bounds_exact allocRat allocRat_sound k hk axes hd hnn
  have hout' : createRedistRat k axes = .ok out := hout
  refine ⟨out, hout', ?_⟩
  intro g hg
  obtain ⟨_, hle, hsum⟩ := (budget_any_arithmetic allocRat k axes out hout').2 g hg
  exact ⟨fun p hp => ⟨h1 g hg p hp, hle p hp⟩, hsum⟩

/-! ### Non-vacuity: concrete instances satisfying the hypotheses -/

/-- Two dimensions, shared and unshared, ties and a zero score: the run succeeds. -/
example : createRedistRat 3 [(0, 5, 2), (1, 5, 0), (2, 7, 1), (3, 5, 2), (4, 5, 1 / 3)]
    = .ok [(5, [(0, 4), (3, 5), (4, 2), (1, 1)]), (7, [(2, 3)])] := by decide +kernel

example : ∀ a ∈ [((0 : Nat), (5 : Nat), (2 : Rat)), (1, 5, 0), (2, 7, 1), (3, 5, 2), (4, 5, 1 / 3)],
    1 ≤ a.2.1 ∧ 0 ≤ a.2.2 := by decide +kernel

/-- `bounds_monotone_rounding`/`bounds_exact` hypotheses are satisfiable: `Rat` has monotone addition and
the exact share computation is sound. -/
example : AddMonotone Rat ∧ AllocSound allocRat := ⟨addMonotone_of_orderedGroup ℚ, allocRat_sound⟩

/-- `rank_ge_one`'s hypothesis is satisfiable: a share arithmetic that is never negative. -/
example : ∀ (s : Rat) (R : Int) (T : Rat), 0 ≤ (fun _ R _ => max R 0 : Rat → Int → Rat → Int) s R T :=
  fun _ R _ => le_max_right R 0

/-! ### Negative theorems (regression documentation of the defects found) -/

/-- The UNREPAIRED leftover loop (the code before `/repo` commit 1e4f52c) over-allocates: three axes of
dimension 3, base rank 2, scores (0, 0, 1) receive ranks (2, 2, 3): sum 7 > budget 6. -/
theorem leftover_overallocates_unrepaired :
    createRedistOldRat 2 [(0, 3, 0), (1, 3, 0), (2, 3, 1)] = .ok [(3, [(2, 3), (0, 2), (1, 2)])] ∧
    ((([(2, 3), (0, 2), (1, 2)] : List (Nat × Int)).map Prod.snd).sum > 3 * 2) := by
  decide +kernel

/-- The repaired loop on the same witness stays within the budget (ranks 3, 2, 1; sum 6). -/
theorem leftover_witness_repaired :
    createRedistRat 2 [(0, 3, 0), (1, 3, 0), (2, 3, 1)] = .ok [(3, [(2, 3), (0, 2), (1, 1)])] := by
  decide +kernel

/-- The defect repaired by `/repo` commit b9b95e4.  Before it the total score was kept by running
subtraction.  IEEE running subtraction on the non-negative scores (2^53, 1, 1) (float32: (2^25, 1, 1))
produces the totals 2^53, 0, -1 — the two 1s are absorbed by the initial sum (observed on the real code;
reproduced bit for bit by the `Float`/`Float32` runs of `createRedistRunning`).  With these totals even
the EXACT share computation hands a NEGATIVE rank to the third axis: three axes of dimension 4, base
rank 4 receive (4, 2, -4), and the budget assertion does not notice because the negative rank pays for
the others.  (`AddMonotone` is what the suffix sums of the repaired code restore.) -/
theorem running_total_negative_rank_witness :
    groupRunGen leftover (fun _ _ => [9007199254740992, 0, -1]) allocRat 4 4
      [((0 : Nat), (9007199254740992 : Rat)), (1, 1), (2, 1)] = .ok [(0, 4), (1, 2), (2, -4)] := by
  decide +kernel

/-- The repaired code on the same scores (exact run): every axis gets the full dimension. -/
theorem scale_disparate_witness_repaired :
    createRedistRat 4 [(0, 4, 9007199254740992), (1, 4, 1), (2, 4, 1)]
      = .ok [(4, [(0, 4), (1, 4), (2, 4)])] := by
  decide +kernel

end PrecondVerif.C17
