/-
C17 — Sketchy memory reallocation respects the memory budget.

Model: `Model/Realloc.lean` (`createRedist`, executed by the driver at `Rat`, `Float`, `Float32`).
The multiplication / division / floor of the code is the parameter `alloc`; the scalar type `α`
of the scores is arbitrary.  Statements quantify over every list of axes (any number of layers,
any dimensions, shared or not), every base rank and every score vector.

Extension (second half of the file): `Model/ReallocState.lean` models what surrounds the allocation in
`create_redist_dict` — the traversal of the state tree (`layers_and_axes`, `create_groups`), `score_fn` with its
five rules and the running average, and the nested dict that is returned — executed by the driver as
`pipelineFloat` / `pipelineRat` (ops `pipe_f64`, `pipe_rat`).  `scores_nonneg` discharges the "scores ≥ 0"
hypothesis of `bounds_exact` for the real scoring rules, `realloc_pipeline_bounds` is the end-to-end statement,
`redist_dict_total` the totality of the returned dict, `realloc_memory_le_uniform` the budget in memory units.
-/
import PrecondVerif.Lemmas.Realloc
import PrecondVerif.Lemmas.ReallocState
import PrecondVerif.Model.Layout

namespace PrecondVerif.C17
open PrecondVerif.Realloc

/-- **Budget and upper bound, for ANY arithmetic** (IEEE double, float32, exact, broken, …) and any
scores (negative, NaN, …): if `create_redist_dict` returns — i.e. its own assertions pass — then
(1) every axis received a rank, (2) the keys of each group are exactly the axes of that dimension,
(3) every rank is at most the dimension, and (4) the ranks of each group of equal dimension sum to at
most group size × base rank. -/
theorem budget_any_arithmetic {κ α : Type} [Add α] [OfNat α 0] [LT α] [DecidableLT α]
    (alloc : α → Int → α → Int) (k : Int) (axes : List (κ × Nat × α))
    (out : List (Nat × List (κ × Int))) (h : createRedist alloc k axes = .ok out) :
    (∀ a ∈ axes, ∃ g ∈ out, g.1 = a.2.1 ∧ a.1 ∈ g.2.map Prod.fst) ∧
    ∀ g ∈ out,
      (g.2.map Prod.fst).Perm ((groupOf axes g.1).map Prod.fst) ∧
      (∀ p ∈ g.2, p.2 ≤ (g.1 : Int)) ∧
      (g.2.map Prod.snd).sum ≤ ((groupOf axes g.1).length : Int) * k := by
  obtain ⟨hfst, hall⟩ := runGroups_ok _ _ _ h
  have hgrp : ∀ g ∈ out, (g.2.map Prod.fst).Perm ((groupOf axes g.1).map Prod.fst) ∧
      (∀ p ∈ g.2, p.2 ≤ (g.1 : Int)) ∧
      (g.2.map Prod.snd).sum ≤ ((groupOf axes g.1).length : Int) * k :=
    fun g hg => groupRun_budget alloc k g.1 (groupOf axes g.1) g.2 (hall g hg)
  refine ⟨?_, hgrp⟩
  intro a ha
  have hd : a.2.1 ∈ out.map Prod.fst := by
    rw [hfst]
    exact (mem_dedupFirst _ _).mpr (List.mem_map.mpr ⟨a, ha, rfl⟩)
  obtain ⟨g, hg, hga⟩ := List.mem_map.mp hd
  refine ⟨g, hg, hga, ?_⟩
  have := (hgrp g hg).1
  rw [hga] at this
  exact this.mem_iff.mpr (mem_groupOf_keys axes a ha)

/-- The function's `assert realloc[key] <= dim` can never fire, whatever the arithmetic. -/
theorem rank_le_dim_assert_never_fires {κ α : Type} [Add α] [OfNat α 0] [LT α] [DecidableLT α]
    (alloc : α → Int → α → Int) (k : Int) (axes : List (κ × Nat × α)) (r d : Int) :
    createRedist alloc k axes ≠ .error (.rankExceedsDim r d) := by
  intro h
  obtain ⟨d', _, hf⟩ := runGroups_error _ _ _ h
  exact groupRun_ne_rankExceedsDim alloc k d' _ r d hf

/-- **Lower bound, any arithmetic with a non-negative floor**: if the share computation never
returns a negative integer (in floats: `⌊fl(score · fl(R / T))⌋ ≥ 0`) and every dimension is at
least 1, every returned rank is at least 1. -/
theorem rank_ge_one {κ α : Type} [Add α] [OfNat α 0] [LT α] [DecidableLT α]
    (alloc : α → Int → α → Int) (hnn : ∀ s R T, 0 ≤ alloc s R T)
    (k : Int) (axes : List (κ × Nat × α)) (hd : ∀ a ∈ axes, 1 ≤ a.2.1)
    (out : List (Nat × List (κ × Int))) (h : createRedist alloc k axes = .ok out) :
    ∀ g ∈ out, ∀ p ∈ g.2, 1 ≤ p.2 := by
  obtain ⟨hfst, hall⟩ := runGroups_ok _ _ _ h
  intro g hg
  have hmem : g.1 ∈ dims axes := by rw [← hfst]; exact List.mem_map.mpr ⟨g, hg, rfl⟩
  obtain ⟨a, ha, hga⟩ := List.mem_map.mp ((mem_dedupFirst _ _).mp hmem)
  have hd1 : 1 ≤ g.1 := by rw [← hga]; exact hd a ha
  exact groupRun_ge_one_of_nonneg alloc hnn k g.1 hd1 _ g.2 (hall g hg)

/-- **Lower bound and no assertion, for exact arithmetic and every monotone rounding of it**: if
the addition of scores is monotone in the sense of `AddMonotone` (adding non-negatives gives a
non-negative result not smaller than the second summand — every ordered group, and IEEE
round-to-nearest addition), the share computation is sound in the sense of `AllocSound` (a
non-negative score not exceeding the total gets between 0 and the whole resource — `⌊s·(R/T)⌋` does),
scores are non-negative, base rank ≥ 1 and dimensions ≥ 1, then no assertion fires and every rank is
at least 1.  (This is the statement the repair b9b95e4 — suffix sums instead of running subtraction —
makes true beyond exact arithmetic.) -/
theorem bounds_monotone_rounding {κ α : Type} [LE α] [LT α] [DecidableLT α] [Add α] [OfNat α 0]
    (hm : AddMonotone α) (alloc : α → Int → α → Int) (hs : AllocSound alloc) (k : Int) (hk : 1 ≤ k)
    (axes : List (κ × Nat × α)) (hd : ∀ a ∈ axes, 1 ≤ a.2.1) (hnn : ∀ a ∈ axes, (0 : α) ≤ a.2.2) :
    ∃ out, createRedist alloc k axes = .ok out ∧ ∀ g ∈ out, ∀ p ∈ g.2, 1 ≤ p.2 := by
  refine runGroups_all_ok (fun d => groupRun alloc k d (groupOf axes d)) (fun r => ∀ p ∈ r, 1 ≤ p.2)
    (dims axes) ?_
  intro d hdm
  obtain ⟨a, ha, hda⟩ := List.mem_map.mp ((mem_dedupFirst _ _).mp hdm)
  have hd1 : 1 ≤ d := by rw [← hda]; exact hd a ha
  apply groupRun_sound hm alloc hs k hk d hd1
  intro x hx
  obtain ⟨a', ha', _, hsc⟩ := groupOf_scores axes d x hx
  rw [← hsc]; exact hnn a' ha'

/-- **Exact arithmetic**: over any linearly ordered additive group of scores, with a sound share
computation, non-negative scores, base rank ≥ 1 and dimensions ≥ 1: no assertion fires and every
rank is at least 1.  (Together with `budget_any_arithmetic` the result then satisfies the whole
property.) -/
theorem bounds_exact {κ α : Type} [AddCommGroup α] [LinearOrder α] [IsOrderedAddMonoid α]
    (alloc : α → Int → α → Int) (hs : AllocSound alloc) (k : Int) (hk : 1 ≤ k)
    (axes : List (κ × Nat × α)) (hd : ∀ a ∈ axes, 1 ≤ a.2.1) (hnn : ∀ a ∈ axes, (0 : α) ≤ a.2.2) :
    ∃ out, createRedist alloc k axes = .ok out ∧ ∀ g ∈ out, ∀ p ∈ g.2, 1 ≤ p.2 :=
  bounds_monotone_rounding (addMonotone_of_orderedGroup α) alloc hs k hk axes hd hnn

/-- The instance the driver executes at `Rat` (`createRedistRat`, exact `⌊s · (R / T)⌋`):
no assertion fires, every rank is between 1 and the dimension, every group is within budget. -/
theorem bounds_exact_rat (k : Int) (hk : 1 ≤ k) (axes : List (Nat × Nat × Rat))
    (hd : ∀ a ∈ axes, 1 ≤ a.2.1) (hnn : ∀ a ∈ axes, 0 ≤ a.2.2) :
    ∃ out, createRedistRat k axes = .ok out ∧
      ∀ g ∈ out, (∀ p ∈ g.2, 1 ≤ p.2 ∧ p.2 ≤ (g.1 : Int)) ∧
        (g.2.map Prod.snd).sum ≤ ((groupOf axes g.1).length : Int) * k := by
  obtain ⟨out, hout, h1⟩ := bounds_exact allocRat allocRat_sound k hk axes hd hnn
  have hout' : createRedistRat k axes = .ok out := hout
  refine ⟨out, hout', ?_⟩
  intro g hg
  obtain ⟨_, hle, hsum⟩ := (budget_any_arithmetic allocRat k axes out hout').2 g hg
  exact ⟨fun p hp => ⟨h1 g hg p hp, hle p hp⟩, hsum⟩

/-! ### Non-vacuity: concrete instances satisfying the hypotheses -/

/-- Two dimensions, shared and unshared, ties and a zero score: the run succeeds. -/
example : createRedistRat 3 [(0, 5, 2), (1, 5, 0), (2, 7, 1), (3, 5, 2), (4, 5, 1 / 3)]
    = .ok [(5, [(0, 4), (3, 5), (4, 2), (1, 1)]), (7, [(2, 3)])] := by decide +kernel

example : ∀ a ∈ [((0 : Nat), (5 : Nat), (2 : Rat)), (1, 5, 0), (2, 7, 1), (3, 5, 2), (4, 5, 1 / 3)],
    1 ≤ a.2.1 ∧ 0 ≤ a.2.2 := by decide +kernel

/-- `bounds_monotone_rounding`/`bounds_exact` hypotheses are satisfiable: `Rat` has monotone addition and
the exact share computation is sound. -/
example : AddMonotone Rat ∧ AllocSound allocRat := ⟨addMonotone_of_orderedGroup ℚ, allocRat_sound⟩

/-- `rank_ge_one`'s hypothesis is satisfiable: a share arithmetic that is never negative. -/
example : ∀ (s : Rat) (R : Int) (T : Rat), 0 ≤ (fun _ R _ => max R 0 : Rat → Int → Rat → Int) s R T :=
  fun _ R _ => le_max_right R 0

/-! ### Negative theorems (regression documentation of the defects found) -/

/-- The UNREPAIRED leftover loop (the code before `/repo` commit 1e4f52c) over-allocates: three axes of
dimension 3, base rank 2, scores (0, 0, 1) receive ranks (2, 2, 3): sum 7 > budget 6. -/
theorem leftover_overallocates_unrepaired :
    createRedistOldRat 2 [(0, 3, 0), (1, 3, 0), (2, 3, 1)] = .ok [(3, [(2, 3), (0, 2), (1, 2)])] ∧
    ((([(2, 3), (0, 2), (1, 2)] : List (Nat × Int)).map Prod.snd).sum > 3 * 2) := by
  decide +kernel

/-- The repaired loop on the same witness stays within the budget (ranks 3, 2, 1; sum 6). -/
theorem leftover_witness_repaired :
    createRedistRat 2 [(0, 3, 0), (1, 3, 0), (2, 3, 1)] = .ok [(3, [(2, 3), (0, 2), (1, 1)])] := by
  decide +kernel

/-- The defect repaired by `/repo` commit b9b95e4.  Before it the total score was kept by running
subtraction.  IEEE running subtraction on the non-negative scores (2^53, 1, 1) (float32: (2^25, 1, 1))
produces the totals 2^53, 0, -1 — the two 1s are absorbed by the initial sum (observed on the real code;
reproduced bit for bit by the `Float`/`Float32` runs of `createRedistRunning`).  With these totals even
the EXACT share computation hands a NEGATIVE rank to the third axis: three axes of dimension 4, base
rank 4 receive (4, 2, -4), and the budget assertion does not notice because the negative rank pays for
the others.  (`AddMonotone` is what the suffix sums of the repaired code restore.) -/
theorem running_total_negative_rank_witness :
    groupRunGen leftover (fun _ _ => [9007199254740992, 0, -1]) allocRat 4 4
      [((0 : Nat), (9007199254740992 : Rat)), (1, 1), (2, 1)] = .ok [(0, 4), (1, 2), (2, -4)] := by
  decide +kernel

/-- The repaired code on the same scores (exact run): every axis gets the full dimension. -/
theorem scale_disparate_witness_repaired :
    createRedistRat 4 [(0, 4, 9007199254740992), (1, 4, 1), (2, 4, 1)]
      = .ok [(4, [(0, 4), (1, 4), (2, 4)])] := by
  decide +kernel

/-! ## Extension: scoring, traversal, returned dictionary, consumption -/

/-- **Scores are non-negative** (and group keys ≥ 1) for every rule of `score_fn` — `tail_rho`, `sketch_trace`,
`sketch_intrinsic_rank`, `ggt_trace`, `ggt_intrinsic_rank`, with or without the running average over several
states — on states whose statistics satisfy the Sketchy invariants (`StatesInv`: `tail ≥ 0`, `eigvals ≥ 0`,
diagonal of `ema_ggt ≥ 0`, value of the external spectral-norm kernel `≥ 0`; dims ≥ 1), in any ordered
field and for either rounding of `jnp.mean`.  The axes come out in the iteration order `order`. -/
theorem scores_nonneg {α : Type} [Field α] [LinearOrder α] [IsStrictOrderedRing α]
    (ofNat : Nat → α) (hof : ∀ n, 0 ≤ ofNat n) (recip : Bool) (rule : Rule) (avg : Bool)
    (states : List (Realloc.Tree α)) (hinv : StatesInv rule states) (order : List Path)
    (n : Nat) (axes : List (Path × Nat × α))
    (ha : axesOf ofNat recip rule avg states order = .ok (n, axes)) :
    axes.map Prod.fst = order ∧ ∀ a ∈ axes, 1 ≤ a.2.1 ∧ 0 ≤ a.2.2 :=
  axesOf_spec ofNat hof recip rule avg states hinv order n axes ha

/-- **End to end** (`create_redist_dict ∘ score_fn`, exact arithmetic): for any tuple of optimizer states
meeting the Sketchy invariants, any rule, base rank ≥ 1 and any sound share computation: whenever the
traversal / scoring half returns axes, the allocation succeeds on them (none of the function's assertions
fires), and whenever the function returns, every score is ≥ 0, every rank is between 1
and the dimension and every group of equal dimension is within `size × base rank`. -/
theorem realloc_pipeline_bounds {α : Type} [Field α] [LinearOrder α] [IsStrictOrderedRing α]
    (alloc : α → Int → α → Int) (hs : AllocSound alloc) (ofNat : Nat → α) (hof : ∀ n, 0 ≤ ofNat n)
    (recip : Bool) (rule : Rule) (avg : Bool) (k : Int) (hk : 1 ≤ k)
    (states : List (Realloc.Tree α)) (hinv : StatesInv rule states) (order : List Path) :
    (∀ n axes, axesOf ofNat recip rule avg states order = .ok (n, axes) →
      ∃ ranks, createRedist alloc k axes = .ok ranks) ∧
    ∀ out, pipeline alloc ofNat recip rule avg k states order = .ok out →
      out.axes.map Prod.fst = order ∧ (∀ a ∈ out.axes, 0 ≤ a.2.2) ∧
      ∀ g ∈ out.ranks, (∀ p ∈ g.2, 1 ≤ p.2 ∧ p.2 ≤ (g.1 : Int)) ∧
        (g.2.map Prod.snd).sum ≤ ((groupOf out.axes g.1).length : Int) * k := by
  have key : ∀ n axes, axesOf ofNat recip rule avg states order = .ok (n, axes) →
      axes.map Prod.fst = order ∧ (∀ a ∈ axes, 0 ≤ a.2.2) ∧
      ∃ ranks, createRedist alloc k axes = .ok ranks ∧
        ∀ g ∈ ranks, (∀ p ∈ g.2, 1 ≤ p.2 ∧ p.2 ≤ (g.1 : Int)) ∧
          (g.2.map Prod.snd).sum ≤ ((groupOf axes g.1).length : Int) * k := by
    intro n axes ha
    obtain ⟨h1, h2⟩ := scores_nonneg ofNat hof recip rule avg states hinv order n axes ha
    obtain ⟨ranks, hr, hge⟩ := bounds_exact alloc hs k hk axes (fun a ha' => (h2 a ha').1) (fun a ha' => (h2 a ha').2)
    refine ⟨h1, fun a ha' => (h2 a ha').2, ranks, hr, ?_⟩
    intro g hg
    obtain ⟨_, hle, hsum⟩ := (budget_any_arithmetic alloc k axes ranks hr).2 g hg
    exact ⟨fun p hp => ⟨hge g hg p hp, hle p hp⟩, hsum⟩
  constructor
  · intro n axes ha
    obtain ⟨_, _, ranks, hr, _⟩ := key n axes ha
    exact ⟨ranks, hr⟩
  · intro out ho
    unfold pipeline at ho
    split at ho
    · cases ho
    · rename_i n axes ha
      obtain ⟨h1, h2, ranks, hr, h3⟩ := key n axes ha
      rw [hr] at ho
      dsimp only at ho
      split at ho
      · cases ho
      · cases ho
        exact ⟨h1, h2, h3⟩

/-- The instance the driver executes at `Rat` (`pipelineRat`, op `pipe_rat`). -/
theorem realloc_pipeline_bounds_rat (recip : Bool) (rule : Rule) (avg : Bool) (k : Int) (hk : 1 ≤ k)
    (states : List (Realloc.Tree Rat)) (hinv : StatesInv rule states) (order : List Path) :
    (∀ n axes, axesOf ratOfNat recip rule avg states order = .ok (n, axes) →
      ∃ ranks, createRedist allocRat k axes = .ok ranks) ∧
    ∀ out, pipelineRat recip rule avg k states order = .ok out →
      out.axes.map Prod.fst = order ∧ (∀ a ∈ out.axes, 0 ≤ a.2.2) ∧
      ∀ g ∈ out.ranks, (∀ p ∈ g.2, 1 ≤ p.2 ∧ p.2 ≤ (g.1 : Int)) ∧
        (g.2.map Prod.snd).sum ≤ ((groupOf out.axes g.1).length : Int) * k :=
  realloc_pipeline_bounds allocRat allocRat_sound ratOfNat (fun n => Nat.cast_nonneg n) recip rule avg k hk
    states hinv order

/-- **The returned dictionary is total and has no stray entries** (any arithmetic).  If the allocation and
the construction of the nested dict succeed then (1) every axis of the input — every layer name
`…/<x>/<i>` found by the traversal — has exactly one rank `r` in the allocation and slot `i` of the row stored
at its own directory `…` holds `r`; (2) every allocated rank is found at its slot; (3) every row has
`num_axes` slots and sits at the directory of some axis of the input (nothing is created for unsketched
leaves); (4) every slot holds 0 or the rank of the axis it belongs to. -/
theorem redist_dict_total {α : Type} [Add α] [OfNat α 0] [LT α] [DecidableLT α]
    (alloc : α → Int → α → Int) (k : Int) (n : Nat) (axes : List (Path × Nat × α))
    (out : List (Nat × List (Path × Int))) (hout : createRedist alloc k axes = .ok out)
    (m : PathMap) (hm : buildMap n (axes.map Prod.fst) out = .ok m) :
    (∀ a ∈ axes, ∃ i r, axisId a.1 = some i ∧ (a.1, r) ∈ flatRanks out ∧
      (∀ r', (a.1, r') ∈ flatRanks out → r' = r) ∧ getSlot m (layerDir a.1) i = some r) ∧
    (∀ w ∈ flatRanks out, ∃ i, axisId w.1 = some i ∧ getSlot m (layerDir w.1) i = some w.2) ∧
    (∀ d row, lookupRow d m = some row → row.length = n ∧ ∃ a ∈ axes, layerDir a.1 = d) ∧
    (∀ d j v, getSlot m d j = some v →
      v = 0 ∨ ∃ w ∈ flatRanks out, w.2 = v ∧ layerDir w.1 = d ∧ axisId w.1 = some j) := by
  unfold buildMap at hm
  split at hm
  · cases hm
  · split at hm
    · rename_i hnd
      split at hm
      · cases hm
      · rename_i m0 hsk
        obtain ⟨h1, _, h3, h4⟩ := writeAll_spec _ m0 m hm
        obtain ⟨_, s2⟩ := skeleton_spec n _ m0 hsk
        have hw := h4 hnd
        refine ⟨?_, hw, ?_, ?_⟩
        · intro a ha
          obtain ⟨g, hg, _, hmem⟩ := (budget_any_arithmetic alloc k axes out hout).1 a ha
          obtain ⟨p, hp, hpa⟩ := List.mem_map.mp hmem
          have hfl : p ∈ flatRanks out := List.mem_flatMap.mpr ⟨g, hg, hp⟩
          obtain ⟨i, hi, hs⟩ := hw p hfl
          refine ⟨i, p.2, hpa ▸ hi, ?_, ?_, hpa ▸ hs⟩
          · rw [← hpa]; exact hfl
          · intro r' hr'
            obtain ⟨i', hi', hs'⟩ := hw (a.1, r') hr'
            rw [← hpa, hi] at hi'
            cases hi'
            rw [← hpa, hs] at hs'
            cases hs'
            rfl
        · intro d row hrow
          have hl := h1 d
          rw [hrow] at hl
          cases h0 : lookupRow d m0 with
          | none => rw [h0] at hl; cases hl
          | some row0 =>
            rw [h0] at hl
            obtain ⟨e1, name, hname, e2⟩ := s2 d row0 h0
            obtain ⟨a, ha, hna⟩ := List.mem_map.mp hname
            refine ⟨?_, a, ha, by rw [hna]; exact e2⟩
            simp only [Option.map_some, Option.some.injEq] at hl
            rw [hl, e1, List.length_replicate]
        · intro d j v hv
          rcases h3 d j v hv with h0 | ⟨w, hw', e1, e2⟩
          · left
            unfold getSlot at h0
            split at h0
            · rename_i row0 hrow0
              obtain ⟨e1, _⟩ := s2 d row0 hrow0
              rw [e1] at h0
              rcases List.getElem?_eq_some_iff.mp h0 with ⟨_, hv0⟩
              rw [List.getElem_replicate] at hv0
              exact hv0.symm
            · cases h0
          · right
            simp only [slotOf, Prod.mk.injEq] at e2
            exact ⟨w, hw', e1, e2.1, e2.2⟩
    · cases hm

/-- **Consumption side, in memory units** (any arithmetic).  `tearfree/sketchy.py` gives an axis of dimension
`d` a sketch of rank `min(d, memory_alloc[path][axis])` (C07: `Layout.sketchAxis`), and `min(d, options.rank)`
without `memory_alloc`; the sketch basis of a rank-`r` axis is a `d × r` matrix.  Within every group of
equal dimension `d` the reallocated ranks need `Σ d·rankᵢ ≤ size · d · min(d, base rank)` entries — never more
than the uniform allocation they replace.  (When `base rank > d` the code's own budget `size × base rank` is
larger than anything the uniform allocation could use; the bound by `size × d` then comes from `rank ≤ d`.) -/
theorem realloc_memory_le_uniform {κ α : Type} [Add α] [OfNat α 0] [LT α] [DecidableLT α]
    (alloc : α → Int → α → Int) (k : Int) (axes : List (κ × Nat × α))
    (out : List (Nat × List (κ × Int))) (h : createRedist alloc k axes = .ok out) :
    ∀ g ∈ out, (g.2.map (fun p => (g.1 : Int) * p.2)).sum
      ≤ ((groupOf axes g.1).length : Int) * ((g.1 : Int) * min (g.1 : Int) k) := by
  intro g hg
  obtain ⟨hperm, hle, hsum⟩ := (budget_any_arithmetic alloc k axes out h).2 g hg
  have hlen : g.2.length = (groupOf axes g.1).length := by
    have := hperm.length_eq
    simpa using this
  have hsum' : (g.2.map Prod.snd).sum ≤ (g.2.length : Int) * (g.1 : Int) := by
    have : ∀ (l : List (κ × Int)), (∀ p ∈ l, p.2 ≤ (g.1 : Int)) → (l.map Prod.snd).sum ≤ (l.length : Int) * (g.1 : Int) := by
      intro l
      induction l with
      | nil => simp
      | cons x xs ih =>
        intro hx
        have h1 := hx x List.mem_cons_self
        have h2 := ih (fun p hp => hx p (List.mem_cons_of_mem _ hp))
        simp only [List.map_cons, List.sum_cons, List.length_cons, Nat.cast_add, Nat.cast_one]
        linarith
    exact this g.2 hle
  have hmul : (g.2.map (fun p => (g.1 : Int) * p.2)).sum = (g.1 : Int) * (g.2.map Prod.snd).sum := by
    induction g.2 with
    | nil => simp
    | cons x xs ih => simp only [List.map_cons, List.sum_cons, ih]; ring
  rw [hmul, ← hlen]
  have hd : (0 : Int) ≤ (g.1 : Int) := Int.natCast_nonneg _
  rw [hlen] at hsum' ⊢
  have hmin : (g.2.map Prod.snd).sum ≤ ((groupOf axes g.1).length : Int) * min (g.1 : Int) k := by
    rcases le_total (g.1 : Int) k with hc | hc
    · rw [min_eq_left hc]; exact hsum'
    · rw [min_eq_right hc]; exact hsum
  calc (g.1 : Int) * (g.2.map Prod.snd).sum
      ≤ (g.1 : Int) * (((groupOf axes g.1).length : Int) * min (g.1 : Int) k) := mul_le_mul_of_nonneg_left hmin hd
    _ = ((groupOf axes g.1).length : Int) * ((g.1 : Int) * min (g.1 : Int) k) := by ring

/-- Link to the C07 layout model: for a reallocated rank `1 ≤ r ≤ d` the Sketchy axis state that
`sketchy._init` builds from `memory_alloc` has basis `d × r`, eigenvalues `r`, inverse eigenvalues `r` — the
clamp `min(d, ·)` of the consumer is the identity on C17's output, so `d · r` above is the real size. -/
theorem realloc_rank_is_layout_rank (cfg : Layout.TFSketchy) (shape : List Nat) (d : Nat) (r : Int)
    (h1 : 1 ≤ r) (hd : r ≤ (d : Int)) :
    (Layout.sketchAxis cfg shape d r.toNat).take 3 =
      [some (Layout.f32Leaf [d, r.toNat]), some (Layout.f32Leaf [r.toNat]), some (Layout.f32Leaf [r.toNat])] := by
  have : min d r.toNat = r.toNat := by
    apply Nat.min_eq_right
    omega
  simp [Layout.sketchAxis, this]


/-! ### Non-vacuity of the extension -/

/-- An executed instance: two states, running average, `sketch_intrinsic_rank` (the second axis has an all-zero
spectrum in both states: score 0 through the `if jnp.sum(x) else 0` guard), one axis grouped through its `dim`
field and one through `eigvecs.shape[0]`; both land in the row of their layer directory `enc/w`. -/
example : pipelineRat true .sketchIntrinsicRank true 3
    [.dict [("inner_state", .dict [("0", .dict [("direction", .dict [("1", .dict [("sketches",
      .dict [("enc", .dict [("w", .dict [("axes", .dict [
        ("0", .dict [("eigvecs", .leaf (.shape [5, 3])), ("eigvals", .leaf (.vec [1, 2, 3]))]),
        ("1", .dict [("dim", .leaf (.int 5)), ("eigvals", .leaf (.vec [0, 0, 0]))])])])])])])])])])]]
    [["enc", "w", "axes", "1"], ["enc", "w", "axes", "0"]]
  = .ok ⟨2, [(["enc", "w", "axes", "1"], 5, 0), (["enc", "w", "axes", "0"], 5, 2)],
      [(5, [(["enc", "w", "axes", "0"], 5), (["enc", "w", "axes", "1"], 1)])], [(["enc", "w"], [5, 1])]⟩ := by
  decide +kernel

/-- `StatesInv`'s leaf invariants are satisfiable by non-trivial statistics. -/
example : LeafInv (.vec [1, 2, 0] : Leaf Rat) ∧ LeafInv (.scalar (1 / 2) : Leaf Rat) ∧
    LeafInv (.mat [[2, -1], [-1, 3]] 4 : Leaf Rat) := by
  refine ⟨?_, ?_, ?_, ?_⟩ <;> simp [LeafInv, diagFrom]

/-- `realloc_pipeline_bounds`' arithmetic hypotheses hold for the instance the driver runs. -/
example : AllocSound allocRat ∧ ∀ n, (0 : Rat) ≤ ratOfNat n := ⟨allocRat_sound, fun n => Nat.cast_nonneg n⟩

/-! ### Negative theorem for the extension -/

/-- The state invariant is needed: `tail_rho` passes the stored `tail` through, so a state violating `tail ≥ 0`
(the defect class C09 guards against) yields a negative score, and scores (-3, 1, 1) for three axes of dimension
8 with base rank 3 make the exact allocation hand out the ranks (-4, -4, 8) — no assertion notices. -/
theorem negative_tail_breaks_lower_bound :
    opVal .tailRho (.scalar (-3 : Rat)) = some (-3) ∧
    createRedistRat 3 [(0, 8, -3), (1, 8, 1), (2, 8, 1)] = .ok [(8, [(1, -4), (2, -4), (0, 8)])] := by
  decide +kernel

end PrecondVerif.C17
