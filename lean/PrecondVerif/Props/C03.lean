/-
C03 — a preconditioner is replaced only by a verified root; failures never leak.

Only property theorems and non-vacuity examples live here; helper lemmas are in `Lemmas/Gate.lean`,
the model in `Model/Gate.lean` (the definitions the driver `drv_c03` executes).

Reported errors and the threshold are `XF` values (every float32/float64 bit pattern is one, with IEEE
`≥`, `<`, `isnan`); candidates, stored values and statistics slices are values of an arbitrary type `π`
and the root results `(cand, err)` of every step are adversarial: nothing is assumed about them.
The threshold is a configuration constant assumed non-NaN (a NaN threshold is outside the statement:
`x ≥ NaN` is false for every `x`, so the gate would accept every non-NaN error).
Histories are lists of any length (induction); `itv` is any refresh interval, `count` any start counter.
-/
import PrecondVerif.Lemmas.Gate

namespace PrecondVerif.C03
open PrecondVerif.Gate

/-! ### the gate decision -/

/-- `_select_preconditioner`: the result is the old value, or it is the candidate and then the reported
error is not NaN and strictly below the threshold — for every non-NaN threshold including `0` and `+∞`. -/
theorem gate_spec {π : Type} (err thr : XF) (hthr : thr.isNaN = false) (new old : π) :
    select err thr new old = old
      ∨ (select err thr new old = new ∧ err.isNaN = false ∧ err.lt thr = true) := by
  cases hs : skip err thr
  · right
    exact ⟨select_of_not_skip _ _ hs, (skip_eq_false_iff hthr).mp hs⟩
  · left
    exact select_of_skip _ _ hs

/-- The gate is exactly the comparison: candidate taken iff the error is non-NaN and below the threshold. -/
theorem gate_decision {π : Type} (err thr : XF) (hthr : thr.isNaN = false) (new old : π) :
    select err thr new old = if (!err.isNaN && err.lt thr) then new else old := by
  cases hs : skip err thr
  · obtain ⟨h1, h2⟩ := (skip_eq_false_iff hthr).mp hs
    simp [select, hs, h1, h2]
  · have : ¬ (err.isNaN = false ∧ err.lt thr = true) := by
      intro h
      have := (skip_eq_false_iff hthr).mpr h
      simp_all
    have h' : (!err.isNaN && err.lt thr) = false := by
      cases h1 : err.isNaN <;> cases h2 : err.lt thr <;> simp_all
    simp [select, hs, h']

/-- A NaN error, an error equal to the threshold and `+∞` are always rejected; with threshold `0` every
non-negative error is rejected. -/
theorem gate_rejects {π : Type} (thr : XF) (hthr : thr.isNaN = false) (new old : π) :
    select XF.nan thr new old = old ∧ select thr thr new old = old ∧ select XF.pinf thr new old = old
      ∧ ∀ e : XF, e.ge (XF.fin 0) = true → select e (XF.fin 0) new old = old := by
  refine ⟨select_of_skip _ _ (skip_nan thr), select_of_skip _ _ (skip_self hthr), ?_, ?_⟩
  · apply select_of_skip
    cases thr <;> simp_all [skip, XF.isNaN, XF.ge]
  · intro e he
    apply select_of_skip
    simp [skip, he]

/-- An accepted error that is non-negative (the reported error is a max of absolute values) is finite. -/
theorem accepted_error_finite (err thr : XF) (hlt : err.lt thr = true) (h0 : err.ge (XF.fin 0) = true) :
    err.isFinite = true :=
  XF.isFinite_of_lt_of_nonneg hlt h0

/-- Non-refresh steps: `efficient_cond` hands the statistics slice with `error = threshold` to the gate,
which keeps the stored value — the slot and its stored error are bit-identical. -/
theorem nonrefresh_keeps_old {π : Type} {sel : Selector π} (hsel : SelOK sel) (thr : XF) (hthr : thr.isNaN = false)
    (itv count : Nat) (s : Slot π) (i : Inp π) (hn : count % itv ≠ 0) :
    slotStep sel thr itv count s i = s := by
  apply slotStep_nonrefresh hsel hthr
  simp [performStep, hn]

/-! ### the three modes take the same decision -/

/-- Quantized mode: the three parallel selects on (quantized matrix, diagonal, bucket sizes) take the same
branch — the stored triple is the whole old triple or the whole candidate triple. -/
theorem quantized_triple_consistent {κ δ β : Type} (err thr : XF) (new old : κ × δ × β) :
    selectTriple err thr new old = select err thr new old :=
  selectTriple_eq_select err thr new old

/-- Sharded mode (repaired): `jnp.where(predicate, old, new)` over the entries of a slot is the select. -/
theorem sharded_where_is_select {α : Type} {n : Nat} (err thr : XF) (new old : Vector α n) :
    selectWhere err thr new old = select err thr new old :=
  selectWhere_eq_select err thr new old

/-- Sharded mode, all slots at once: slot `k` of the result is the select of slot `k`. -/
theorem sharded_gate_slotwise {α : Type} {n : Nat} (thr : XF) (errs : List XF) (olds news : List (Vector α n))
    (k : Nat) (h1 : k < errs.length) (h2 : k < olds.length) (h3 : k < news.length) :
    (shardedGate thr errs olds news)[k]? = some (select errs[k] thr news[k] olds[k]) := by
  induction errs generalizing olds news k with
  | nil => simp at h1
  | cons e es ih =>
    cases olds with
    | nil => simp at h2
    | cons o os =>
      cases news with
      | nil => simp at h3
      | cons c cs =>
        cases k with
        | zero => simp [shardedGate, selectWhere_eq_select]
        | succ k =>
          simp only [shardedGate, List.getElem?_cons_succ, List.getElem_cons_succ]
          exact ih os cs k (by simpa using h1) (by simpa using h2) (by simpa using h3)

/-! ### invariant over all fault histories -/

/-- Over every fault history the stored value of a slot is the initial one or the candidate of a step of
the history at which a refresh was due and whose reported error was non-NaN and below the threshold. -/
theorem slots_inv {π : Type} {sel : Selector π} (hsel : SelOK sel) (thr : XF) (hthr : thr.isNaN = false) (itv count : Nat)
    (s0 : Slot π) (is : List (Inp π)) :
    (slotRun sel thr itv count s0 is).precond = s0.precond
      ∨ ∃ k, ∃ h : k < is.length, (slotRun sel thr itv count s0 is).precond = (is[k]'h).cand
          ∧ (count + k) % itv = 0 ∧ (is[k]'h).err.isNaN = false ∧ (is[k]'h).err.lt thr = true := by
  rcases slotRun_inv hsel hthr itv is count s0 with h | ⟨k, hk, h1, hp, h2, h3⟩
  · exact Or.inl h
  · exact Or.inr ⟨k, hk, h1, by simpa [performStep] using hp, h2, h3⟩

/-- If the initial value is good (e.g. finite) and every candidate whose error passes the gate is good
(supplied by the root computation: a finite error below the threshold certifies a finite root), then the
stored value is good after every fault history — whatever the rejected candidates, statistics slices and
errors were. -/
theorem slots_finite {π : Type} {sel : Selector π} (hsel : SelOK sel) (thr : XF) (hthr : thr.isNaN = false) (itv count : Nat)
    (Good : π → Prop) (s0 : Slot π) (is : List (Inp π)) (h0 : Good s0.precond)
    (hroot : ∀ i ∈ is, i.err.isNaN = false → i.err.lt thr = true → Good i.cand) :
    Good (slotRun sel thr itv count s0 is).precond := by
  rcases slots_inv hsel thr hthr itv count s0 is with h | ⟨k, hk, h1, _, h2, h3⟩
  · rw [h]; exact h0
  · rw [h1]; exact hroot _ (List.getElem_mem hk) h2 h3

/-- Warm-started roots (`reuse_preconditioner`; `frequent_directions`, where the sketch being updated IS the stored packed
preconditioner, and low-rank packed slots in general — the slot value is any type `π`): the root result may depend on the
value currently stored. If the root maps a good stored value to a good candidate whenever its reported error passes the
gate, the stored value stays good for ever — a single accepted bad candidate is what would poison the sketch. -/
theorem slots_finite_warm_start {π : Type} {sel : Selector π} (hsel : SelOK sel) (thr : XF) (hthr : thr.isNaN = false)
    (itv count n : Nat) (root : WarmRoot π) (Good : π → Prop) (s0 : Slot π) (h0 : Good s0.precond)
    (hroot : ∀ c p, Good p → (root c p).err.isNaN = false → (root c p).err.lt thr = true → Good (root c p).cand) :
    Good (slotRunDep sel thr itv root count s0 n).precond :=
  slotRunDep_good hsel hthr itv root Good hroot n count s0 h0

/-- One warm-started step obeys the same gate specification: kept, or the candidate computed from the stored value with a
non-NaN error below the threshold on a refresh step. -/
theorem warm_start_step_spec {π : Type} {sel : Selector π} (hsel : SelOK sel) (thr : XF) (hthr : thr.isNaN = false)
    (itv count : Nat) (root : WarmRoot π) (s : Slot π) :
    (slotStepDep sel thr itv count root s).precond = s.precond
      ∨ ((slotStepDep sel thr itv count root s).precond = (root count s.precond).cand
          ∧ count % itv = 0 ∧ (root count s.precond).err.isNaN = false ∧ (root count s.precond).err.lt thr = true) := by
  rcases slotStep_spec hsel hthr itv count s (root count s.precond) with h | ⟨h, hp, h2, h3⟩
  · exact Or.inl h
  · exact Or.inr ⟨h, by simpa [performStep] using hp, h2, h3⟩

/-- Periodic reset of the warm start (`reset_preconditioner`): the zeroed copy only feeds the root. One step still keeps the
stored value bit for bit, or stores the candidate of an accepted refresh — on reset steps too. -/
theorem reset_step_spec {π : Type} {sel : Selector π} (hsel : SelOK sel) (thr : XF) (hthr : thr.isNaN = false)
    (itv : Nat) (rf : Option Nat) (zero : π → π) (count : Nat) (root : WarmRoot π) (s : Slot π) :
    (slotStepReset sel thr itv rf zero count root s).precond = s.precond
      ∨ ((slotStepReset sel thr itv rf zero count root s).precond = (root count (warmStart rf zero count s.precond)).cand
          ∧ count % itv = 0 ∧ (root count (warmStart rf zero count s.precond)).err.isNaN = false
          ∧ (root count (warmStart rf zero count s.precond)).err.lt thr = true) := by
  rcases slotStep_spec hsel hthr itv count s (root count (warmStart rf zero count s.precond)) with h | ⟨h, hp, h2, h3⟩
  · exact Or.inl h
  · exact Or.inr ⟨h, by simpa [performStep] using hp, h2, h3⟩

/-- A reset step that is not a refresh step leaves the slot (stored value and stored error) untouched. -/
theorem reset_nonrefresh_keeps_old {π : Type} {sel : Selector π} (hsel : SelOK sel) (thr : XF) (hthr : thr.isNaN = false)
    (itv : Nat) (rf : Option Nat) (zero : π → π) (count : Nat) (root : WarmRoot π) (s : Slot π) (hn : count % itv ≠ 0) :
    slotStepReset sel thr itv rf zero count root s = s := by
  unfold slotStepReset
  exact nonrefresh_keeps_old hsel thr hthr itv count s _ hn

/-- Goodness (e.g. finiteness) is preserved for ever with a periodically reset warm start, provided the root turns the warm
start it is given into a good candidate whenever its reported error passes the gate. -/
theorem slots_finite_reset {π : Type} {sel : Selector π} (hsel : SelOK sel) (thr : XF) (hthr : thr.isNaN = false)
    (itv : Nat) (rf : Option Nat) (zero : π → π) (count n : Nat) (root : WarmRoot π) (Good : π → Prop) (s0 : Slot π)
    (h0 : Good s0.precond)
    (hroot : ∀ c p, Good p → (root c (warmStart rf zero c p)).err.isNaN = false → (root c (warmStart rf zero c p)).err.lt thr = true
      → Good (root c (warmStart rf zero c p)).cand) :
    Good (slotRunReset sel thr itv rf zero root count s0 n).precond :=
  slotRunReset_good hsel hthr itv rf zero root Good hroot n count s0 h0

/-- Negative: applying the reset IN PLACE to the list that is also the old operand of the gate violates the specification —
on a reset step whose root is rejected (NaN error) the slot becomes the zeroed value, neither the old value nor the candidate;
and on a reset step that is not a refresh step as well. -/
theorem reset_in_place_leaks :
    (slotStepResetInPlace select (XF.fin (1/10)) 1 (some 4) (fun _ => (0 : Nat)) 4 (fun _ _ => ⟨5, XF.nan, 6⟩) ⟨7, XF.fin 0⟩).precond = 0
      ∧ (slotStepResetInPlace select (XF.fin (1/10)) 3 (some 4) (fun _ => (0 : Nat)) 4 (fun _ _ => ⟨5, XF.fin 0, 6⟩) ⟨7, XF.fin 0⟩).precond = 0
      ∧ (slotStepReset select (XF.fin (1/10)) 1 (some 4) (fun _ => (0 : Nat)) 4 (fun _ _ => ⟨5, XF.nan, 6⟩) ⟨7, XF.fin 0⟩).precond = 7
      ∧ (slotStepReset select (XF.fin (1/10)) 3 (some 4) (fun _ => (0 : Nat)) 4 (fun _ _ => ⟨5, XF.fin 0, 6⟩) ⟨7, XF.fin 0⟩).precond = 7 := by
  refine ⟨?_, ?_, ?_, ?_⟩ <;> decide +kernel

/-- The whole optimizer state (all slots driven by the same counter, any number of slots): if all initial
preconditioners are good and every candidate whose error passes the gate is good, every stored
preconditioner is good after every fault history. -/
theorem state_slots_finite {π : Type} {sel : Selector π} (hsel : SelOK sel) (thr : XF) (hthr : thr.isNaN = false)
    (itv count : Nat) (Good : π → Prop) (ss : List (Slot π)) (hist : List (List (Inp π)))
    (h0 : ∀ s ∈ ss, Good s.precond)
    (hroot : ∀ ins ∈ hist, ∀ i ∈ ins, i.err.isNaN = false → i.err.lt thr = true → Good i.cand) :
    ∀ s ∈ stateRun sel thr itv count ss hist, Good s.precond :=
  stateRun_good hsel hthr itv Good hist count ss h0 hroot

/-- The three modes satisfy the hypothesis `SelOK` of the invariants. -/
theorem modes_selOK {π κ δ β α : Type} {n : Nat} :
    SelOK (select : Selector π) ∧ SelOK (selectTriple : Selector (κ × δ × β))
      ∧ SelOK (selectWhere : Selector (Vector α n)) :=
  ⟨selOK_select, selOK_triple, selOK_where⟩

/-- IEEE facts of `XF` the gate depends on: NaN absorbs, `0 * ∞`, `∞ - ∞` are NaN, every comparison with NaN is false. -/
theorem xf_ieee_facts (x : XF) (q : Rat) :
    XF.nan + x = XF.nan ∧ x + XF.nan = XF.nan ∧ XF.nan * x = XF.nan ∧ x * XF.nan = XF.nan
      ∧ (XF.fin 0) * XF.pinf = XF.nan ∧ XF.pinf - XF.pinf = XF.nan ∧ XF.pinf + XF.ninf = XF.nan
      ∧ XF.ge XF.nan x = false ∧ XF.ge x XF.nan = false ∧ XF.lt XF.nan x = false ∧ XF.lt x XF.nan = false
      ∧ XF.ge XF.pinf (XF.fin q) = true ∧ XF.lt (XF.fin q) XF.pinf = true := by
  refine ⟨?_, ?_, ?_, ?_, ?_, ?_, ?_, XF.ge_nan_left x, XF.ge_nan_right x, XF.lt_nan_left x, XF.lt_nan_right x, rfl, rfl⟩
  · cases x <;> rfl
  · cases x <;> rfl
  · cases x <;> rfl
  · cases x <;> rfl
  · show XF.mul _ _ = _; simp [XF.mul, XF.infTimes]
  · rfl
  · rfl

/-! ### the unrepaired sharded path (negative) -/

/-- `predicate*old + (1-predicate)*new`, the arithmetic blend of the unrepaired sharded path, violates
`gate_spec`: a rejected NaN candidate (NaN error) replaces a finite stored entry by NaN — in `XF` for
every finite old entry and every non-NaN threshold, and in IEEE binary64 on a concrete witness. -/
theorem arith_blend_leaks :
    (∀ (q : Rat) (thr : XF), arithGate XF.nan thr XF.nan (XF.fin q) = XF.nan
        ∧ ¬ (arithGate XF.nan thr XF.nan (XF.fin q) = XF.fin q
              ∨ (arithGate XF.nan thr XF.nan (XF.fin q) = XF.nan ∧ XF.nan.isNaN = false ∧ XF.nan.lt thr = true)))
      ∧ (arithBlend (1.0 : Float) 2.0 (0.0 / 0.0)).isNaN = true
      ∧ (arithBlend (1.0 : Float) 2.0 (1.0 / 0.0)).isNaN = true := by
  refine ⟨fun q thr => ?_, by decide +kernel, by decide +kernel⟩
  have h : arithGate XF.nan thr XF.nan (XF.fin q) = XF.nan := by
    simp only [arithGate, arithBlend, skipAs, skip_nan, if_true]
    show XF.add (XF.mul (XF.fin 1) (XF.fin q)) (XF.mul (XF.add (XF.fin 1) (XF.neg (XF.fin 1))) XF.nan) = XF.nan
    simp [XF.mul, XF.add, XF.neg]
  refine ⟨h, ?_⟩
  rw [h]
  simp [XF.isNaN]

/-- The blend is harmless only on finite data: for finite entries it equals the select. -/
theorem arith_blend_finite_ok (err thr : XF) (a b : Rat) :
    arithGate err thr (XF.fin a) (XF.fin b) = select err thr (XF.fin a) (XF.fin b) := by
  unfold arithGate arithBlend skipAs select
  cases skip err thr
  · show XF.add (XF.mul (XF.fin 0) (XF.fin b)) (XF.mul (XF.add (XF.fin 1) (XF.neg (XF.fin 0))) (XF.fin a)) = _
    simp only [XF.mul, XF.add, XF.neg, if_false, Bool.false_eq_true]
    congr 1
    grind
  · show XF.add (XF.mul (XF.fin 1) (XF.fin b)) (XF.mul (XF.add (XF.fin 1) (XF.neg (XF.fin 1))) (XF.fin a)) = _
    simp only [XF.mul, XF.add, XF.neg, if_true]
    congr 1
    grind

/-! ### non-vacuity -/

/-- thresholds `0`, `0.1`, `+∞` and errors NaN / below / equal / above: the hypotheses are satisfiable and
both branches of `gate_spec` occur -/
example : select (XF.fin (1/100)) (XF.fin (1/10)) "new" "old" = "new" := by decide +kernel
example : select (XF.fin (1/10)) (XF.fin (1/10)) "new" "old" = "old" := by decide +kernel
example : select XF.nan (XF.fin (1/10)) "new" "old" = "old" := by decide +kernel
example : select (XF.fin 0) (XF.fin 0) "new" "old" = "old" := by decide +kernel
example : select (XF.fin 1000) XF.pinf "new" "old" = "new" := by decide +kernel
example : select XF.pinf XF.pinf "new" "old" = "old" := by decide +kernel
example : (XF.fin (1/10)).isNaN = false ∧ XF.pinf.isNaN = false ∧ (XF.fin 0).isNaN = false := by decide +kernel

/-- a history with an accepted root, a NaN root, a non-refresh step and a too-large error: the slot ends
with the last accepted candidate: refreshing every step → candidate 4 (step 3), every 2nd step → candidate 1
(step 0; step 2 is rejected), every 3rd step → candidate 4 (step 3) -/
example :
    (fun (is : List (Inp Nat)) =>
      (slotRun select (XF.fin (1/10)) 1 0 ⟨0, XF.fin 0⟩ is).precond = 4
        ∧ (slotRun select (XF.fin (1/10)) 2 0 ⟨0, XF.fin 0⟩ is).precond = 1
        ∧ (slotRun select (XF.fin (1/10)) 3 0 ⟨0, XF.fin 0⟩ is).precond = 4)
      [⟨1, XF.fin (1/1000), 101⟩, ⟨2, XF.nan, 102⟩, ⟨3, XF.fin (1/2), 103⟩, ⟨4, XF.fin 0, 104⟩] := by
  refine ⟨?_, ?_, ?_⟩ <;> decide +kernel

/-- float32 bit patterns decode exactly: `0x3dcccccd` is the float32 nearest to 0.1, `0x7fc00000` a NaN -/
example : XF.ofBits32 0x3dcccccd = XF.fin (13421773 / 134217728) ∧ XF.ofBits32 0x7fc00000 = XF.nan
    ∧ XF.ofBits32 0xff800000 = XF.ninf ∧ XF.ofBits32 0x3f800000 = XF.fin 1 := by decide +kernel

end PrecondVerif.C03
