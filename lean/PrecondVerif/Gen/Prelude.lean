/-
Python built-ins used by the definitions that `harness/py2lean.py` generates (`Gen/Src.lean`).
Hand-written, core Lean only.  Each definition states the Python construct it stands for; together with
the translation rules at the top of `harness/py2lean.py` this file is the trusted reading of Python
semantics (arbitrary-precision `int` = `Int`; `list`/`tuple`/1-D integer `ndarray` = `List`).

Python exceptions are NOT modelled: where Python raises (`IndexError`, `ZeroDivisionError`, `min` of an
empty sequence without default) these functions return a harmless value (`0` / the default).  The bridge
theorems of `Lemmas/GenBridge.lean` only use them inside their defined range.  `//` and `%` are emitted as
`Int.fdiv` / `Int.fmod` (floor semantics, Python's for every sign combination; divisor 0 gives 0 here and
`ZeroDivisionError` in Python).
-/

namespace PrecondVerif.Gen.Py

/-- `range(n)` / `np.arange(n)` (empty for `n ≤ 0`). -/
def range (n : Int) : List Int := (List.range n.toNat).map Int.ofNat

/-- `range(a, b)`. -/
def range2 (a b : Int) : List Int := (List.range (b - a).toNat).map fun k => a + Int.ofNat k

/-- `enumerate(l)` counting from `k`. -/
def enumFrom {α : Type} (k : Int) : List α → List (Int × α)
  | [] => []
  | x :: xs => (k, x) :: enumFrom (k + 1) xs

/-- `enumerate(l)`. -/
def enumerate {α : Type} (l : List α) : List (Int × α) := enumFrom 0 l

/-- `len(l)`. -/
def len {α : Type} (l : List α) : Int := Int.ofNat l.length

/-- `math.prod(l)` / `np.prod(l)` (left to right, start 1). -/
def prod (l : List Int) : Int := l.foldl (· * ·) 1

/-- `sum(l)` for a list of ints. -/
def sum (l : List Int) : Int := l.foldl (· + ·) 0

/-- `sum(l)` for a list of bools (`True` counts 1). -/
def count (l : List Bool) : Int := Int.ofNat (l.filter id).length

/-- `l[i]`, negative `i` counts from the end; `IndexError` positions give `default`. -/
def get {α : Type} [Inhabited α] (l : List α) (i : Int) : α :=
  if 0 ≤ i then l.getD i.toNat default
  else if (-i).toNat ≤ l.length then l.getD (l.length - (-i).toNat) default else default

/-- `l[i] = v` (in place in Python; here the updated list), negative `i` counts from the end;
`IndexError` positions leave the list unchanged. -/
def setAt {α : Type} (l : List α) (i : Int) (v : α) : List α :=
  if 0 ≤ i then l.set i.toNat v
  else if (-i).toNat ≤ l.length then l.set (l.length - (-i).toNat) v else l

/-- `l * n` for a list `l` (`n ≤ 0` gives `[]`). -/
def «repeat» {α : Type} (l : List α) (n : Int) : List α := (List.replicate n.toNat l).flatten

/-- `np.ones(n) * v`-style constant array: `n` copies of `v` (`n ≤ 0` gives `[]`). -/
def full (n : Int) (v : Int) : List Int := List.replicate n.toNat v

/-- `min(l, default=d)`. -/
def minD (l : List Int) (d : Int) : Int :=
  match l with
  | [] => d
  | x :: xs => xs.foldl min x

/-- `max(l, default=d)`. -/
def maxD (l : List Int) (d : Int) : Int :=
  match l with
  | [] => d
  | x :: xs => xs.foldl max x

/-- `l[:i]` (negative `i` counts from the end). -/
def sliceTo {α : Type} (l : List α) (i : Int) : List α :=
  if 0 ≤ i then l.take i.toNat else l.take (l.length - (-i).toNat)

/-- `l[i:]` (negative `i` counts from the end). -/
def sliceFrom {α : Type} (l : List α) (i : Int) : List α :=
  if 0 ≤ i then l.drop i.toNat else l.drop (l.length - (-i).toNat)

/-- position of a slice bound `i` in a sequence of length `n` (negative from the end, clamped to `[0, n]`). -/
def bound (n : Nat) (i : Int) : Nat := if 0 ≤ i then min i.toNat n else n - (-i).toNat

/-- `l[a:b]`. -/
def slice {α : Type} (l : List α) (a b : Int) : List α := (l.take (bound l.length b)).drop (bound l.length a)

/-- `itertools.product(*ls)` as a list of lists (first factor slowest). -/
def product {α : Type} : List (List α) → List (List α)
  | [] => [[]]
  | l :: ls => l.flatMap fun x => (product ls).map (x :: ·)

end PrecondVerif.Gen.Py
