/-
Python built-ins used by the definitions that `harness/py2lean.py` generates (`Gen/Src.lean`).
Hand-written, core Lean only.  Each definition states the Python construct it stands for; together with
the translation rules at the top of `harness/py2lean.py` this file is the trusted reading of Python
semantics (arbitrary-precision `int` = `Int`; `list`/`tuple`/1-D integer `ndarray` = `List`).

Python exceptions are NOT modelled: where Python raises (`IndexError`, `ZeroDivisionError`, `min` of an
empty sequence without default) these functions return a harmless value (`0` / the default).  The bridge
theorems of `Lemmas/GenBridge.lean` only use them inside their defined range.  `//` and `%` are emitted as
`Int.fdiv` / `Int.fmod` (floor semantics, Python's for every sign combination; divisor 0 gives 0 here and
`ZeroDivisionError` in Python).
-/

namespace PrecondVerif.Gen.Py

/-- `range(n)` / `np.arange(n)` (empty for `n ≤ 0`). -/
def range (n : Int) : List Int := (List.range n.toNat).map Int.ofNat

/-- `range(a, b)`. -/
def range2 (a b : Int) : List Int := (List.range (b - a).toNat).map fun k => a + Int.ofNat k

/-- `enumerate(l)` counting from `k`. -/
def enumFrom {α : Type} (k : Int) : List α → List (Int × α)
  | [] => []
  | x :: xs => (k, x) :: enumFrom (k + 1) xs

/-- `enumerate(l)`. -/
def enumerate {α : Type} (l : List α) : List (Int × α) := enumFrom 0 l

/-- `len(l)`. -/
def len {α : Type} (l : List α) : Int := Int.ofNat l.length

/-- `math.prod(l)` / `np.prod(l)` (left to right, start 1). -/
def prod (l : List Int) : Int := l.foldl (· * ·) 1

/-- `sum(l)` for a list of ints. -/
def sum (l : List Int) : Int := l.foldl (· + ·) 0

/-- `sum(l)` for a list of bools (`True` counts 1). -/
def count (l : List Bool) : Int := Int.ofNat (l.filter id).length

/-- `l[i]`, negative `i` counts from the end; `IndexError` positions give `default`. -/
def get {α : Type} [Inhabited α] (l : List α) (i : Int) : α :=
  if 0 ≤ i then l.getD i.toNat default
  else if (-i).toNat ≤ l.length then l.getD (l.length - (-i).toNat) default else default

/-- `l[i] = v` (in place in Python; here the updated list), negative `i` counts from the end;
`IndexError` positions leave the list unchanged. -/
def setAt {α : Type} (l : List α) (i : Int) (v : α) : List α :=
  if 0 ≤ i then l.set i.toNat v
  else if (-i).toNat ≤ l.length then l.set (l.length - (-i).toNat) v else l

/-- `l * n` for a list `l` (`n ≤ 0` gives `[]`). -/
def «repeat» {α : Type} (l : List α) (n : Int) : List α := (List.replicate n.toNat l).flatten

/-- `np.ones(n) * v`-style constant array: `n` copies of `v` (`n ≤ 0` gives `[]`). -/
def full (n : Int) (v : Int) : List Int := List.replicate n.toNat v

/-- `min(l, default=d)`. -/
def minD (l : List Int) (d : Int) : Int :=
  match l with
  | [] => d
  | x :: xs => xs.foldl min x

/-- `max(l, default=d)`. -/
def maxD (l : List Int) (d : Int) : Int :=
  match l with
  | [] => d
  | x :: xs => xs.foldl max x

/-- `l[:i]` (negative `i` counts from the end). -/
def sliceTo {α : Type} (l : List α) (i : Int) : List α :=
  if 0 ≤ i then l.take i.toNat else l.take (l.length - (-i).toNat)

/-- `l[i:]` (negative `i` counts from the end). -/
def sliceFrom {α : Type} (l : List α) (i : Int) : List α :=
  if 0 ≤ i then l.drop i.toNat else l.drop (l.length - (-i).toNat)

/-- position of a slice bound `i` in a sequence of length `n` (negative from the end, clamped to `[0, n]`). -/
def bound (n : Nat) (i : Int) : Nat := if 0 ≤ i then min i.toNat n else n - (-i).toNat

/-- `l[a:b]`. -/
def slice {α : Type} (l : List α) (a b : Int) : List α := (l.take (bound l.length b)).drop (bound l.length a)

/-- `itertools.product(*ls)` as a list of lists (first factor slowest). -/
def product {α : Type} : List (List α) → List (List α)
  | [] => [[]]
  | l :: ls => l.flatMap fun x => (product ls).map (x :: ·)

/- `list(reversed(l))`, `l.reverse()`: `List.reverse`; `zip(a, b)`: `List.zip` (used directly). -/

/-! ### dicts with distinct keys, in insertion order (Python ≥ 3.7 iteration order) -/

/-- `d[k] = v` / `d.update({k: v})`: replace the value of an existing key in place, else append. -/
def dictSet {K V : Type} [DecidableEq K] : List (K × V) → K → V → List (K × V)
  | [], k, v => [(k, v)]
  | (k', v') :: rest, k, v => if k' = k then (k', v) :: rest else (k', v') :: dictSet rest k v

/-- `d[k]` (`KeyError` positions give `default`). -/
def dictGet {K V : Type} [DecidableEq K] [Inhabited V] : List (K × V) → K → V
  | [], _ => default
  | (k', v') :: rest, k => if k' = k then v' else dictGet rest k

/-- `for k in d` / `d.keys()`. -/
def dictKeys {K V : Type} (d : List (K × V)) : List K := d.map Prod.fst

/-- `d.values()`. -/
def dictValues {K V : Type} (d : List (K × V)) : List V := d.map Prod.snd

/-! ### opaque scalars (Python floats / jnp scalars): the operations are parameters, never interpreted -/

/-- The operations a translated function may apply to values of the opaque scalar type `R`:
`a + b`, `a * b`, `a / b`, conversion of an int (also int literals and literals like `0.0` meeting an `R`),
`int(x // 1)`, truthiness `if x`, and the `<` used by `sorted`. -/
structure RealOps (R : Type) where
  add : R → R → R
  mul : R → R → R
  div : R → R → R
  ofInt : Int → R
  floor : R → Int
  truthy : R → Bool
  lt : R → R → Bool

/-- insertion of `x` (which stood before all of the list) into a list that is descending by `key`:
in front of the first element whose key is not strictly larger. -/
def insDesc {α K : Type} (lt : K → K → Bool) (key : α → K) (x : α) : List α → List α
  | [] => [x]
  | y :: ys => if lt (key x) (key y) then y :: insDesc lt key x ys else x :: y :: ys

/-- `sorted(l, key=key, reverse=True)`: stable (equal keys keep their original order, also with `reverse=True`),
descending.  Written as insertion from the right; it is what CPython returns whenever `<` is a strict weak order on
the keys that occur (no NaN) — for other `<` CPython's result depends on its merge strategy and is not modelled. -/
def sortedDesc {α K : Type} (lt : K → K → Bool) (key : α → K) : List α → List α
  | [] => []
  | x :: xs => insDesc lt key x (sortedDesc lt key xs)

end PrecondVerif.Gen.Py
