/-
Model of the Distributed Shampoo update (property C02), Mathlib-free and scalar-generic.

Two models of one `update` call of `distributed_shampoo(...)`, split at the state boundary (statistics and
preconditioners are state; the inverse root that turns one into the other is an abstract function, C01/C03 give it
its meaning):

`Spec` — the documented blocked-Shampoo math (docstring of `distributed_shampoo`, arXiv 2002.09018 §3-§4, the
in-code comments), written per parameter / block `b` / preconditioned axis:
  * statistics     L_{b,a} ← w1·L_{b,a} + w2·(G_b ×_a G_b),  w1 = β2,  w2 = 1 if β2 = 1 else 1 − β2,  L⁰ = ε·I,
                   only on statistics steps (`step % statistics_compute_steps == 0`);
  * exponent       p = 2·#preconditioned axes, or the override;
  * preconditioned block   G_b ×_{a₁} P_{b,a₁} ×_{a₂} … (mode product along every preconditioned axis, the
                   identity on the others);
  * graft step (7 types, `Model/Graft.lean`), times lr when the learning rate is coupled;
  * rescale        ‖graft‖ / (‖pg‖ + _EPSILON)   (1 for GraftingType.NONE);
  * coupled weight decay `+ wd·param` on both candidates;
  * both momenta   m ← β1·m + w·u,  w = 1 − β1 with moving_average_for_momentum else 1;
  * warm-up selection  `if step ≥ start_preconditioning_step then Shampoo else graft`;
  * Nesterov       w·u + β1·m;
  * decoupled weight decay `+ (lr if coupled lr else 1)·wd·param`;
  * final          −(lr if decoupled lr else 1).

`Low` — the code-shaped version (`Preconditioner.updated_statistics_from_grad`, `preconditioned_grad`,
`_preconds_for_grad`, `_precondition_block`, `_transform_grad`): a FLAT statistics list filled by a running
`index`, slot lists with `None` for INPUT/OUTPUT, the rotate-and-`tensordot` loop, and the ARITHMETIC selection
`run_shampoo * a + (1 − run_shampoo) * b`.

Both share `merge_small_dims`, `BlockPartitioner.partition / merge_partitions` and the reshape of
`Model/Shapes.lean` (C06 proves those lossless) and the graft steps / norm transplant of `Model/Graft.lean` (C05).
`Props/C02.lean` proves that `Low` refines `Spec`.
-/
import PrecondVerif.Model.Shapes
import PrecondVerif.Model.Graft
import PrecondVerif.Model.Schedule

namespace PrecondVerif.DShampoo
open PrecondVerif.Shapes PrecondVerif.Graft

/-- square matrices as index functions (row, column) -/
abbrev Mx (α : Type) := Nat → Nat → α

section Generic
variable {α : Type}

/-- right-nested sum of a list -/
def lsum [Add α] [OfNat α 0] (l : List α) : α := l.foldr (· + ·) 0

def Mx.zero [OfNat α 0] : Mx α := fun _ _ => 0

/-- `matrix_epsilon * jnp.eye(d)` — the initial statistic `L⁰ = ε·I` -/
def statInit [OfNat α 0] (ε : α) : Mx α := fun i j => if i = j then ε else 0

/-- `jnp.eye(d)` — the initial preconditioner -/
def precondInit [OfNat α 0] [OfNat α 1] : Mx α := fun i j => if i = j then 1 else 0

/-! ### statistics -/

/-- `jnp.tensordot(g, g, axes=(axes, axes))` with `axes` = all axes but `a`: the Gram matrix `G ×_a G`,
`(i, j) ↦ Σ_r g[r with i at a] · g[r with j at a]`. -/
def gram [Add α] [Mul α] [OfNat α 0] (g : Tensor α) (a : Nat) : Mx α := fun i j =>
  lsum ((allIdx (popAt g.shape a)).map fun r => g.get (insertAt r a i) * g.get (insertAt r a j))

/-- `gram_weighted_update`: `w1 * old_stats + w2 * gram_matrix` -/
def statStep [Add α] [Mul α] [OfNat α 0] (w1 w2 : α) (L : Mx α) (g : Tensor α) (a : Nat) : Mx α :=
  fun i j => w1 * L i j + w2 * gram g a i j

/-- `w1 = beta2` -/
def statW1 (β2 : α) : α := β2

/-- `w2 = jnp.where(beta2 == 1.0, beta2, 1.0 - beta2)` -/
def statW2 [BEq α] [Sub α] [OfNat α 1] (β2 : α) : α := dsW2 β2

/-- `Low`: the loop of `updated_statistics_from_grad` — for every block, for every preconditioned axis, update
`stats[index]`, `index += 1`. `index` is the running counter on entry. -/
def lowStatsGo [Add α] [Mul α] [OfNat α 0] (w1 w2 : α) (stats : List (Mx α)) (pdims : List Nat) :
    List (Tensor α) → Nat → List (Mx α)
  | [], _ => []
  | g :: gs, index =>
    (pdims.zipIdx.map fun aj => statStep w1 w2 (stats.getD (index + aj.2) Mx.zero) g aj.1) ++
      lowStatsGo w1 w2 stats pdims gs (index + pdims.length)

def lowNewStats [Add α] [Mul α] [OfNat α 0] (w1 w2 : α) (stats : List (Mx α)) (blocks : List (Tensor α))
    (pdims : List Nat) : List (Mx α) :=
  lowStatsGo w1 w2 stats pdims blocks 0

/-- `Spec`: the statistic of block `b` and of the `j`-th preconditioned axis after a statistics step; it lives in
slot `b·k + j` (`k` = number of preconditioned axes). -/
def specNewStat [Add α] [Mul α] [OfNat α 0] [Inhabited α] (w1 w2 : α) (stats : List (Mx α))
    (blocks : List (Tensor α)) (pdims : List Nat) (b j : Nat) : Mx α :=
  statStep w1 w2 (stats.getD (b * pdims.length + j) Mx.zero) (blocks.getD b ⟨[], fun _ => default⟩)
    (pdims.getD j 0)

/-- statistics over a history for ONE slot: `hist` lists, oldest first, (is this a statistics step?, the block's
gradient) -/
def statRun [Add α] [Mul α] [OfNat α 0] (w1 w2 : α) (a : Nat) (L0 : Mx α) (hist : List (Bool × Tensor α)) :
    Mx α :=
  hist.foldl (fun L sg => if sg.1 then statStep w1 w2 L sg.2 a else L) L0

/-! ### preconditioned block -/

/-- mode product along axis `a`, contracting with the FIRST index of `P` (`jnp.tensordot(·, P, [[a],[0]])` put
back in place): `(g ×_a P)[idx] = Σ_j g[idx with j at a] · P[j, idx_a]`. -/
def modeProd [Add α] [Mul α] [OfNat α 0] (g : Tensor α) (a : Nat) (P : Mx α) : Tensor α :=
  { shape := g.shape
    get := fun idx =>
      lsum ((List.range (g.shape.getD a 0)).map fun j => g.get (idx.set a j) * P j (idx.getD a 0)) }

/-- `Spec`: mode products along the preconditioned axes `a, a+1, …` as listed (`none` = axis not preconditioned) -/
def specBlockFrom [Add α] [Mul α] [OfNat α 0] : Nat → Tensor α → List (Option (Mx α)) → Tensor α
  | _, S, [] => S
  | a, S, none :: ss => specBlockFrom (a + 1) S ss
  | a, S, some P :: ss => specBlockFrom (a + 1) (modeProd S a P) ss

def specBlock [Add α] [Mul α] [OfNat α 0] (g : Tensor α) (slots : List (Option (Mx α))) : Tensor α :=
  specBlockFrom 0 g slots

/-- `jnp.transpose(g, axes=roll)` with `roll = (1, …, rank-1, 0)` -/
def rotate (g : Tensor α) : Tensor α :=
  { shape := g.shape.tail ++ [g.shape.headD 0]
    get := fun idx => g.get (idx.getLastD 0 :: idx.dropLast) }

/-- `jnp.tensordot(g, P, axes=[[0], [0]])` for a square `P`: the contracted axis disappears in front, the new one
is appended. -/
def tensordot0 [Add α] [Mul α] [OfNat α 0] (g : Tensor α) (P : Mx α) : Tensor α :=
  { shape := g.shape.tail ++ [g.shape.headD 0]
    get := fun idx =>
      lsum ((List.range (g.shape.headD 0)).map fun j => g.get (j :: idx.dropLast) * P j (idx.getLastD 0)) }

/-- one iteration of the loop of `_precondition_block` -/
def lowBlockStep [Add α] [Mul α] [OfNat α 0] (g : Tensor α) (slot : Option (Mx α)) : Tensor α :=
  match slot with
  | none => rotate g
  | some P => tensordot0 g P

/-- `Low`: `_precondition_block` (uncompressed preconditioners) -/
def lowBlock [Add α] [Mul α] [OfNat α 0] (g : Tensor α) (slots : List (Option (Mx α))) : Tensor α :=
  slots.foldl lowBlockStep g

/-! ### slots -/

/-- `Spec`: the slot of axis `a` in block `b`: `b·k + #{preconditioned axes before a}` when the axis is
preconditioned. -/
def specSlot (should : List Bool) (b a : Nat) : Option Nat :=
  if should.getD a false then
    some (b * (should.filter id).length + ((should.take a).filter id).length)
  else none

def specSlots (pt : PType) (rank b : Nat) : List (Option Nat) :=
  (List.range rank).map (specSlot (shouldPreconditionDims pt rank) b)

/-- `Low`: `_preconds_for_grad(preconditioners, rank, start = b·k, end = (b+1)·k)` -/
def lowSlots (pt : PType) (rank b : Nat) : List (Option Nat) := precondsForGrad pt rank b

def slotMats (P : List (Mx α)) (dflt : Mx α) (slots : List (Option Nat)) : List (Option (Mx α)) :=
  slots.map fun o => o.map fun ix => P.getD ix dflt

/-! ### parameter geometry -/

structure Geom where
  /-- `param.shape` -/
  shape : List Nat
  /-- `block_size` -/
  block : Nat
  /-- `merge_small_dims_block_size` -/
  mergeBlock : Nat
  /-- `best_effort_shape_interpretation` -/
  bestEffort : Bool
  /-- `precondtioner_type` -/
  ptype : PType
  deriving Repr

/-- `_transformed_shape` -/
def Geom.tshape (G : Geom) : List Nat :=
  if G.bestEffort then mergeSmallDims G.shape G.mergeBlock else G.shape

def Geom.rank (G : Geom) : Nat := G.tshape.length

def Geom.should (G : Geom) : List Bool := shouldPreconditionDims G.ptype G.rank

/-- `preconditioned_dims = [i for i, p in enumerate(should_precondition_dims) if p]` -/
def Geom.pdims (G : Geom) : List Nat := (List.range G.rank).filter fun a => G.should.getD a false

/-- number of preconditioners per block -/
def Geom.k (G : Geom) : Nat := numPreconditioned G.ptype G.rank

/-- exponent of the inverse root: `exponent_for_preconditioner()` unless overridden -/
def Geom.exponent (G : Geom) (override : Nat) : Nat :=
  if override = 0 then exponentForPreconditioner G.ptype G.rank else override

/-- a flat row-major list as a tensor of the given shape -/
def ofFlat [OfNat α 0] (shape : List Nat) (l : List α) : Tensor α :=
  { shape := shape, get := fun idx => l.getD (ravel shape idx) 0 }

/-- `partition(reshape(grad, transformed_shape))` -/
def Geom.blocks [OfNat α 0] (G : Geom) (g : List α) : List (Tensor α) :=
  partition ((ofFlat G.shape g).reshape G.tshape) G.block

/-- `reshape(merge_partitions(blocks'), original_shape)` flattened; `none` models the failed assert -/
def Geom.assemble [Inhabited α] (G : Geom) (parts : List (Tensor α)) : Option (List α) :=
  (mergePartitions G.tshape G.block parts).map fun t => (t.reshape G.shape).flat

/-- `preconditioned_grad` with the block operation left open -/
def precondGradWith [OfNat α 0] [Inhabited α] (G : Geom) (blockFn : Nat → Tensor α → Tensor α)
    (g : List α) : Option (List α) :=
  G.assemble ((G.blocks g).zipIdx.map fun gb => blockFn gb.2 gb.1)

/-- `Spec`: block `b` is multiplied along every preconditioned axis `a` by `P[b·k + #preconditioned axes before a]` -/
def specPrecondGrad [Add α] [Mul α] [OfNat α 0] [Inhabited α] (G : Geom) (P : List (Mx α)) (g : List α) :
    Option (List α) :=
  precondGradWith G (fun b gb => specBlock gb (slotMats P Mx.zero (specSlots G.ptype G.rank b))) g

/-- `Low`: `Preconditioner.preconditioned_grad` -/
def lowPrecondGrad [Add α] [Mul α] [OfNat α 0] [Inhabited α] (G : Geom) (P : List (Mx α)) (g : List α) :
    Option (List α) :=
  precondGradWith G (fun b gb => lowBlock gb (slotMats P Mx.zero (lowSlots G.ptype G.rank b))) g


/-! ### the compressed branch of `_precondition_block` (`compression_rank ≠ 0`) -/

/-- a stored preconditioner as the loop finds it: a square matrix, or a packed `d × (r+2)` low-rank-plus-constant
representation (`_low_rank_pack`; it is packed exactly when `application_dim != dim`, C10). -/
inductive Stored (α : Type) where
  | dense (P : Mx α)
  | packed (d r : Nat) (P : Mx α)

/-- `_low_rank_unpack`: `eigvecs = P[:, :r]` (read in place), `inverted_eigvals = P[:r, -2]` -/
def pkE (r : Nat) (P : Mx α) (q : Nat) : α := P q r
/-- `const = P[0, -1]` -/
def pkC (r : Nat) (P : Mx α) : α := P 0 (r + 1)
/-- `has_zeros = P[-1, -2].astype(bool)` -/
def pkSkip [BEq α] [OfNat α 0] (d r : Nat) (P : Mx α) : Bool := !(P (d - 1) r == 0)

/-- `Low`: the compressed branch, the preconditioned axis first (loop invariant):
  lowrank_basis = tensordot(g, eigvecs, [[0],[0]]);  lowrank_component = tensordot(lowrank_basis, eigvecs, [[rank-1],[1]])
  g = transpose(g, roll);  complement = g - lowrank_component;  scaled = tensordot(lowrank_basis * eigvals, eigvecs, …)
  g = where(skip, old_g, const * complement + scaled).
(The rolled `g` is read as 0 outside the array: an index function is only constrained on in-range indices.) -/
def packedStep [Add α] [Sub α] [Mul α] [OfNat α 0] [BEq α] (g : Tensor α) (d r : Nat) (P : Mx α) : Tensor α :=
  { shape := g.shape.tail ++ [g.shape.headD 0]
    get := fun idx =>
      let rest := idx.dropLast
      let b := idx.getLastD 0
      let lb : Nat → α := fun q => lsum ((List.range (g.shape.headD 0)).map fun i => g.get (i :: rest) * P i q)
      let lc : α := lsum ((List.range r).map fun q => lb q * P b q)
      let gt : α := if b < g.shape.headD 0 then g.get (b :: rest) else 0
      let slc : α := lsum ((List.range r).map fun q => lb q * pkE r P q * P b q)
      if pkSkip d r P then gt else pkC r P * (gt - lc) + slc }

/-- `Spec`: the dense matrix a packed preconditioner denotes, `c (I − V Vᵀ) + V diag(e) Vᵀ` (C10's `denote`) -/
def denoteMx [Add α] [Sub α] [Mul α] [OfNat α 0] [OfNat α 1] (r : Nat) (P : Mx α) : Mx α := fun i b =>
  pkC r P * ((if i = b then 1 else 0) - lsum ((List.range r).map fun q => P i q * P b q)) +
    lsum ((List.range r).map fun q => P i q * pkE r P q * P b q)

/-- the matrix a stored preconditioner stands for: itself, the denoted matrix, or the identity when flagged -/
def denoteStored [Add α] [Sub α] [Mul α] [OfNat α 0] [OfNat α 1] [BEq α] : Stored α → Mx α
  | .dense P => P
  | .packed d r P => if pkSkip d r P then precondInit else denoteMx r P

def lowBlockStepC [Add α] [Sub α] [Mul α] [OfNat α 0] [BEq α] (g : Tensor α) (slot : Option (Stored α)) :
    Tensor α :=
  match slot with
  | none => rotate g
  | some (.dense P) => tensordot0 g P
  | some (.packed d r P) => packedStep g d r P

/-- `Low`: `_precondition_block` with its compressed branch -/
def lowBlockC [Add α] [Sub α] [Mul α] [OfNat α 0] [BEq α] (g : Tensor α) (slots : List (Option (Stored α))) :
    Tensor α :=
  slots.foldl lowBlockStepC g

def slotStored (P : List (Stored α)) (dflt : Stored α) (slots : List (Option Nat)) : List (Option (Stored α)) :=
  slots.map fun o => o.map fun ix => P.getD ix dflt

/-- `Low`: `Preconditioner.preconditioned_grad` on stored (dense or packed) preconditioners -/
def lowPrecondGradC [Add α] [Sub α] [Mul α] [OfNat α 0] [BEq α] [Inhabited α] (G : Geom) (P : List (Stored α))
    (g : List α) : Option (List α) :=
  precondGradWith G (fun b gb => lowBlockC gb (slotStored P (.dense Mx.zero) (lowSlots G.ptype G.rank b))) g

/-! ### `_transform_grad` after the preconditioned gradient -/

structure Hyper (α : Type) where
  /-- graft type, beta2, diagonal_epsilon, `_EPSILON`, lr (value at this step), decoupled_learning_rate,
  clip_by_scaled_gradient_norm, start_preconditioning_step -/
  g : DSConfig α
  beta1 : α
  /-- `weight_decay` -/
  wd : α
  /-- `decoupled_weight_decay` -/
  decoupledWd : Bool
  nesterov : Bool
  /-- `moving_average_for_momentum` -/
  movingAvg : Bool

/-- first-order state of one parameter -/
structure PState (α : Type) where
  /-- `diagonal_statistics` -/
  diag : List α
  /-- `diagonal_momentum` -/
  dmom : List α
  /-- `momentum` -/
  mom : List α

structure TOut (α : Type) where
  upd : List α
  st : PState α
  /-- `shampoo_update` (after the rescale), for inspection -/
  shampoo : List α

/-- `x + c * y` elementwise (`update + weight_decay * param`) -/
def axpy [Add α] [Mul α] (c : α) (x y : List α) : List α := List.zipWith (fun a b => a + c * b) x y

/-- `momentum * beta1 + w * update` -/
def momStep [Add α] [Mul α] (β1 w : α) (m u : List α) : List α :=
  List.zipWith (fun m u => m * β1 + w * u) m u

/-- `w = (1.0 - beta1) if moving_average_for_momentum else 1.0` -/
def momW [Sub α] [OfNat α 1] (h : Hyper α) : α := if h.movingAvg then 1 - h.beta1 else 1

/-- `weight_decay != 0 and not decoupled_weight_decay` -/
def coupledWd [BEq α] [OfNat α 0] (h : Hyper α) : Bool := (h.wd != 0) && !h.decoupledWd

/-- `weight_decay != 0 and decoupled_weight_decay` -/
def decoupledWdOn [BEq α] [OfNat α 0] (h : Hyper α) : Bool := (h.wd != 0) && h.decoupledWd

/-- `wd_lr = 1.0 if decoupled_learning_rate else lr` -/
def wdLr [OfNat α 1] (h : Hyper α) : α := if h.g.decoupledLr then 1 else h.g.lr

/-- `w * wd_update + beta1 * momentum_update` -/
def nesterovMix [Add α] [Mul α] (w β1 : α) (u m : List α) : List α :=
  List.zipWith (fun u m => w * u + β1 * m) u m

/-- `x + wd_lr * weight_decay * param` -/
def addDecoupledWd [Add α] [Mul α] (wdlr wd : α) (x p : List α) : List α :=
  List.zipWith (fun x p => x + wdlr * wd * p) x p

/-- documented warm-up selection -/
def selectRun (step start : Nat) (a b : List α) : List α := if start ≤ step then a else b

section Transform
variable [Add α] [Mul α] [Sub α] [Div α] [Neg α] [LT α] [DecidableLT α] [BEq α] [OfNat α 0] [OfNat α 1]

/-- everything of `_transform_grad` up to the two momentum candidates (common to `Low` and `Spec`):
(new diagonal statistics, `grafting_update`, `shampoo_update`, `grafting_update_with_wd`,
`shampoo_update_with_wd`, new `diagonal_momentum`, new `momentum`). -/
structure Cands (α : Type) where
  diag : List α
  graft : List α
  shampoo : List α
  gWd : List α
  sWd : List α
  mG : List α
  mS : List α

def candidates (sqrt : α → α) (natCast : Nat → α) (h : Hyper α) (skip : Bool)
    (g param : List α) (st : PState α) (precond : List α) : Cands α :=
  let r := dsGraftStep sqrt natCast h.g g st.diag
  let graft := scale (precondMultiplier h.g) r.1
  let p := dsPrecondGrad skip graft precond
  let shampoo := dsShampooUpdate sqrt h.g graft p
  let sWd := if coupledWd h then axpy h.wd shampoo param else shampoo
  let gWd := if coupledWd h then axpy h.wd graft param else graft
  let w := momW h
  { diag := r.2, graft := graft, shampoo := shampoo, gWd := gWd, sWd := sWd,
    mG := momStep h.beta1 w st.dmom gWd, mS := momStep h.beta1 w st.mom sWd }

/-- Nesterov, decoupled weight decay and the final `-lr` applied to the selected (momentum, update) pair -/
def finishUpd (h : Hyper α) (param momU wdU : List α) : List α :=
  let nest := if h.nesterov then nesterovMix (momW h) h.beta1 wdU momU else momU
  let nest' := if decoupledWdOn h then addDecoupledWd (wdLr h) h.wd nest param else nest
  finalScale (momentumMultiplier h.g) nest'

/-- `Low`: `_transform_grad` with the arithmetic selection of the code -/
def lowTransform (sqrt : α → α) (natCast : Nat → α) (h : Hyper α) (step : Nat) (skip : Bool)
    (g param : List α) (st : PState α) (precond : List α) : TOut α :=
  let c := candidates sqrt natCast h skip g param st precond
  let run : α := runShampoo step h.g.start
  let momU := blend run c.mS c.mG
  let wdU := blend run c.sWd c.gWd
  { upd := finishUpd h param momU wdU, st := ⟨c.diag, c.mG, c.mS⟩, shampoo := c.shampoo }

/-- `Spec`: the documented pipeline — the Shampoo candidate from `start_preconditioning_step` on, the graft
candidate before. -/
def specTransform (sqrt : α → α) (natCast : Nat → α) (h : Hyper α) (step : Nat) (skip : Bool)
    (g param : List α) (st : PState α) (precond : List α) : TOut α :=
  let c := candidates sqrt natCast h skip g param st precond
  let momU := selectRun step h.g.start c.mS c.mG
  let wdU := selectRun step h.g.start c.sWd c.gWd
  { upd := finishUpd h param momU wdU, st := ⟨c.diag, c.mG, c.mS⟩, shampoo := c.shampoo }

end Transform

/-! ### one parameter, one `update` call, between the state boundaries -/

/-- second-order state of one parameter: flat lists of statistics and preconditioners (slot `b·k + j`) -/
structure SOState (α : Type) where
  stats : List (Mx α)
  preconds : List (Mx α)

/-- the statistics half of a step: refreshed on statistics steps only (`efficient_cond`) -/
def specStats [Add α] [Mul α] [OfNat α 0] [Inhabited α] (G : Geom) (w1 w2 : α) (si step : Nat)
    (stats : List (Mx α)) (g : List α) : List (Mx α) :=
  if Schedule.dsPerformStats si step then
    let bl := G.blocks g
    (List.range (bl.length * G.pdims.length)).map fun s =>
      specNewStat w1 w2 stats bl G.pdims (s / G.pdims.length) (s % G.pdims.length)
  else stats

def lowStats [Add α] [Mul α] [OfNat α 0] (G : Geom) (w1 w2 : α) (si step : Nat)
    (stats : List (Mx α)) (g : List α) : List (Mx α) :=
  if Schedule.dsPerformStats si step then lowNewStats w1 w2 stats (G.blocks g) G.pdims else stats

/-- which preconditioners the update of this step is computed with: the ones stored BEFORE the step in sharded
mode (`sharded_update_fn` transforms the gradient before the new roots exist), the ones stored AFTER the
refresh and gate of this step otherwise (`update_fn`). -/
def usedPreconds {π : Type} (sharded : Bool) (before after : π) : π := if sharded then before else after

section Update
variable [Add α] [Mul α] [Sub α] [Div α] [Neg α] [LT α] [DecidableLT α] [BEq α] [OfNat α 0] [OfNat α 1]
  [Inhabited α]

/-- `Spec`: the update half of one call for one parameter, from the preconditioners stored `before` and `after`
the step; `none` models a failed assert of `merge_partitions`. -/
def specUpdate (sqrt : α → α) (natCast : Nat → α) (sharded : Bool) (G : Geom) (h : Hyper α) (step : Nat)
    (skip : Bool) (g param : List α) (st : PState α) (before after : List (Mx α)) : Option (TOut α) :=
  (if skip then some g else specPrecondGrad G (usedPreconds sharded before after) g).map fun pg =>
    specTransform sqrt natCast h step skip g param st pg

/-- `Low`: `_transform_grad` on `preconditioned_grad` -/
def lowUpdate (sqrt : α → α) (natCast : Nat → α) (sharded : Bool) (G : Geom) (h : Hyper α) (step : Nat)
    (skip : Bool) (g param : List α) (st : PState α) (before after : List (Mx α)) : Option (TOut α) :=
  (if skip then some g else lowPrecondGrad G (usedPreconds sharded before after) g).map fun pg =>
    lowTransform sqrt natCast h step skip g param st pg

/-- `Low` with the compressed branch: `_transform_grad` on `preconditioned_grad` of stored preconditioners -/
def lowUpdateC (sqrt : α → α) (natCast : Nat → α) (sharded : Bool) (G : Geom) (h : Hyper α) (step : Nat)
    (skip : Bool) (g param : List α) (st : PState α) (before after : List (Stored α)) : Option (TOut α) :=
  (if skip then some g else lowPrecondGradC G (usedPreconds sharded before after) g).map fun pg =>
    lowTransform sqrt natCast h step skip g param st pg

end Update

end Generic

end PrecondVerif.DShampoo
