/-
Model of the inverse p-th root routines of `precondition/distributed_shampoo.py` (property C01).
No Mathlib.

Mirrors
  * `mat_power`                      → `matPowerLoop` / `matPower` (the binary exponentiation `while_loop`),
  * `power_iteration`                → `piBody` / `powerIteration` (Rayleigh quotient of the normalised iterate,
                                        masked start vector passed in, fuel = `num_iters`),
  * `matrix_inverse_pth_root`        → `iterCond` / `iterBody` / `newtonInner` (inner `while_loop`, state
                                        `(i, M, H, Hold, err, ratio)`), `outerBody` / `outerLoop` (≤ `num_tries` tries with
                                        ridge `· 10^i`, the converged/old arithmetic blend, the `float32` cast of the error),
                                        `oneByOne` (the `matrix_size == 1` branch), `newtonRoot` (masks on matrix and
                                        identity, ridge scaling, the `padding_start == 0` override),
                                        `lobpcgDeflate` / `lobpcgRedeflate` (top-k pairs are an unconstrained input),
  * `matrix_inverse_pth_root_eigh`   → `eighRoot` (`e ← e·flip(ix)`, `max(e, ridge)^(-1/p)`, residual error).

Generic in the scalar `α` (notation classes only; run at `Rat` and `Float`, reasoned about at ordered fields) and in
the matrix algebra: the Newton iteration is written over a record `Alg M α` of the operations it uses, instantiated
by `matAlg` (matrices `Mat α n n = Fin n → Fin n → α`, definitionally Mathlib's `Matrix (Fin n) (Fin n) α`), so the
invariant theorems hold in any ring.  External kernels are parameters: `sqrt`, `rootp z = z^(1/p)`,
`invroot x = x^(-1/p)`, `cast32` (the `astype(float32)` of the error figure), `eigh` outputs `(U, e)`, LOBPCG pairs.
-/

namespace PrecondVerif.InvRoot

abbrev Mat (α : Type) (m n : Nat) := Fin m → Fin n → α
abbrev Vec (α : Type) (n : Nat) := Fin n → α

variable {α : Type}

/-- `Σ_i f i`, in index order -/
def sumFin [Add α] [Zero α] {n : Nat} (f : Fin n → α) : α := ((List.finRange n).map f).sum

/-- `x^k` by repeated multiplication (`10**i`, `x**p` for integer `p`) -/
def natPow [Mul α] [One α] (x : α) : Nat → α
  | 0 => 1
  | k + 1 => natPow x k * x

/-- `jnp.abs` -/
def absS [Neg α] [LT α] [DecidableLT α] [Zero α] (x : α) : α := if x < 0 then -x else x

/-- `jnp.maximum` (no NaN propagation: only finite runs are compared) -/
def maxS [LT α] [DecidableLT α] (a b : α) : α := if a < b then b else a

namespace Mat
variable {m n k : Nat}

def transpose (A : Mat α m n) : Mat α n m := fun j i => A i j

/-- `jnp.matmul` -/
def mul [Add α] [Mul α] [Zero α] (A : Mat α m k) (B : Mat α k n) : Mat α m n :=
  fun i j => sumFin fun l => A i l * B l j

def add [Add α] (A B : Mat α m n) : Mat α m n := fun i j => A i j + B i j
def sub [Sub α] (A B : Mat α m n) : Mat α m n := fun i j => A i j - B i j
def smul [Mul α] (c : α) (A : Mat α m n) : Mat α m n := fun i j => c * A i j

/-- `jnp.eye(n)` -/
def one [Zero α] [One α] : Mat α n n := fun i j => if i = j then 1 else 0

/-- `ix = (arange(n) < padding_start).astype(dtype)` -/
def ix [Zero α] [One α] (s : Nat) : Vec α n := fun i => if i.val < s then 1 else 0

/-- `identity *= ix` (row-vector broadcast: column `j` is multiplied by `ix[j]`) -/
def maskedId [Zero α] [One α] [Mul α] (s : Nat) : Mat α n n := fun i j => (one : Mat α n n) i j * ix s j

/-- `matrix *= ix[newaxis, :]; matrix *= ix[:, newaxis]` -/
def mask [Zero α] [One α] [Mul α] (s : Nat) (A : Mat α n n) : Mat α n n :=
  fun i j => A i j * ix s j * ix s i

/-- `jnp.max(jnp.abs(A))` (fold from 0: entries of `abs` are non-negative) -/
def maxAbs [Neg α] [LT α] [DecidableLT α] [Zero α] (A : Mat α m n) : α :=
  (List.finRange m).foldl (fun acc i => (List.finRange n).foldl (fun acc j => maxS acc (absS (A i j))) acc) 0

/-- `jnp.linalg.norm(A)` (Frobenius), `sqrt` a parameter -/
def fro [Add α] [Mul α] [Zero α] (sqrt : α → α) (A : Mat α m n) : α :=
  sqrt (sumFin fun i => sumFin fun j => A i j * A i j)

def mulVec [Add α] [Mul α] [Zero α] (A : Mat α m n) (v : Vec α n) : Vec α m := fun i => sumFin fun j => A i j * v j

end Mat

def dot [Add α] [Mul α] [Zero α] {n : Nat} (u v : Vec α n) : α := sumFin fun i => u i * v i

/-! Strict carriers.  A definition of function type is compiled as a function of all its arguments, so a chain of
matrix operations on `Mat` closures would be re-evaluated entry by entry (exponential in the chain length).  Loop states
therefore hold tabulated data (`DVec`, `DMat`); `fn`/`tab` are mutually inverse views (`fn_tab`). -/

abbrev DVec (α : Type) (n : Nat) := Vector α n

def DVec.fn {n : Nat} (v : DVec α n) : Vec α n := fun i => v[i]
def DVec.tab {n : Nat} (v : Vec α n) : DVec α n := Vector.ofFn v

@[simp] theorem DVec.fn_tab {n : Nat} (v : Vec α n) : (DVec.tab v).fn = v := by
  funext i; simp [DVec.fn, DVec.tab]

structure DMat (α : Type) (n : Nat) where
  rows : Vector (Vector α n) n

def DMat.fn {n : Nat} (X : DMat α n) : Mat α n n := fun i j => X.rows[i][j]
def DMat.tab {n : Nat} (A : Mat α n n) : DMat α n := ⟨Vector.ofFn fun i => Vector.ofFn fun j => A i j⟩

@[simp] theorem DMat.fn_tab {n : Nat} (A : Mat α n n) : (DMat.tab A).fn = A := by
  funext i j; simp [DMat.fn, DMat.tab]

/-! ### `mat_power` -/

/-- the `while_loop` of `mat_power`, state `(i, power, mat)`:
`power = mat @ power if i % 2 == 1; i //= 2; mat = mat @ mat` while `i > 0` -/
def matPowerLoop {M : Type} (mul : M → M → M) (i : Nat) (power mat : M) : M :=
  if h : 0 < i then
    matPowerLoop mul (i / 2) (if i % 2 = 1 then mul mat power else power) (mul mat mat)
  else power
termination_by i
decreasing_by omega

/-- `mat_power(mat_m, p)`: start from `jnp.eye` -/
def matPower {M : Type} (mul : M → M → M) (one : M) (x : M) (p : Nat) : M := matPowerLoop mul p one x

/-! ### power iteration -/

structure PIState (α : Type) (n : Nat) where
  i : Nat
  v : DVec α n
  s : α
  sv : DVec α n
  run : Bool

section PI
variable [Add α] [Sub α] [Mul α] [Div α] [Neg α] [Zero α] [LT α] [DecidableLT α]

/-- `_iter_body` of `power_iteration` -/
def piBody {n : Nat} (sqrt : α → α) (tol : α) (A : Mat α n n) (st : PIState α n) : PIState α n :=
  -- new_v = new_v / jnp.linalg.norm(new_v)
  let nrm := sqrt (dot st.v.fn st.v.fn)
  let nv : DVec α n := DVec.tab fun i => st.v.fn i / nrm
  -- s_v = einsum("ij,j->i", matrix, new_v);  s_new = einsum("i,i->", new_v, s_v)
  let sv := DVec.tab (Mat.mulVec A nv.fn)
  let snew := dot nv.fn sv.fn
  { i := st.i + 1, v := sv, s := snew, sv := sv, run := decide (tol < absS (snew - st.s)) }

/-- the `while_loop`: `i < num_iters ∧ run_step` (fuel = remaining iterations) -/
def piLoop {n : Nat} (sqrt : α → α) (tol : α) (A : Mat α n n) (numIters : Nat) : Nat → PIState α n → PIState α n
  | 0, st => st
  | f + 1, st => if decide (st.i < numIters) && st.run then piLoop sqrt tol A numIters f (piBody sqrt tol A st) else st

/-- `power_iteration(matrix, num_iters, error_tolerance, padding_start)`: the eigenvalue estimate `s_out`.
`v0` is the (already masked) start vector `RandomState(1729).uniform(-1, 1, n) * (arange(n) < padding_start)`. -/
def powerIteration {n : Nat} (sqrt : α → α) (tol : α) (numIters : Nat) (A : Mat α n n) (v0 : Vec α n) : α :=
  (piLoop sqrt tol A numIters numIters { i := 0, v := DVec.tab v0, s := 0, sv := DVec.tab v0, run := true }).s

end PI

/-! ### the coupled Newton iteration, over an abstract matrix algebra -/

/-- the operations `matrix_inverse_pth_root` applies to matrices -/
structure Alg (M α : Type) where
  mul : M → M → M
  add : M → M → M
  smul : α → M → M
  /-- `jnp.eye` (start of `mat_power`) -/
  one : M
  /-- `identity` after `identity *= ix` -/
  e : M
  /-- `jnp.max(jnp.abs(X - identity))` -/
  dist : M → α
  /-- `jnp.linalg.norm(X)` -/
  fro : M → α

structure NConsts (α : Type) where
  numIters : Nat
  /-- `error_tolerance` -/
  tol : α
  /-- `max_error_ratio` -/
  rmax : α
  /-- `retry_loop_error_threshold` -/
  retryThr : α
  numTries : Nat

/-- inner loop state `(i, mat_m, mat_h, old_mat_h, error, error_ratio)` -/
structure NState (M α : Type) where
  i : Nat
  m : M
  h : M
  hold : M
  err : α
  ratio : α

/-- outer loop state `(i, resultant_mat_h, error, iters, error_ratio, iter_failed)` -/
structure OState (M α : Type) where
  tries : Nat
  x : M
  err : α
  iters : Nat
  ratio : α
  failed : Bool

section Newton
variable {M : Type} [Add α] [Sub α] [Mul α] [Div α] [Zero α] [One α] [OfNat α 2] [OfNat α 10] [LT α] [DecidableLT α]

/-- `_iter_condition`: `i < num_iters ∧ error > error_tolerance ∧ error_ratio < max_error_ratio` -/
def iterCond (c : NConsts α) (st : NState M α) : Bool :=
  decide (st.i < c.numIters) && (decide (c.tol < st.err) && decide (st.ratio < c.rmax))

/-- `_iter_body` (`alpha = -1/p`) -/
def iterBody (K : Alg M α) (p : Nat) (alpha : α) (st : NState M α) : NState M α :=
  -- mat_m_i = (1 - alpha) * identity + alpha * mat_m
  let mi := K.add (K.smul (1 - alpha) K.e) (K.smul alpha st.m)
  -- new_mat_m = mat_power(mat_m_i, p) @ mat_m;  new_mat_h = mat_h @ mat_m_i
  let m' := K.mul (matPower K.mul K.one mi p) st.m
  let h' := K.mul st.h mi
  -- new_error = max|new_mat_m - identity|
  let err' := K.dist m'
  { i := st.i + 1, m := m', h := h', hold := st.h, err := err', ratio := err' / st.err }

/-- the inner `while_loop` (fuel: at most `num_iters` iterations can run) -/
def newtonInner (K : Alg M α) (c : NConsts α) (p : Nat) (alpha : α) : Nat → NState M α → NState M α
  | 0, st => st
  | f + 1, st => if iterCond c st then newtonInner K c p alpha f (iterBody K p alpha st) else st

/-- the damped matrix of try `i`: `matrix + ridge_epsilon * 10**i * identity` -/
def damped (K : Alg M α) (A : M) (ridge : α) (i : Nat) : M := K.add A (K.smul (ridge * natPow 10 i) K.e)

/-- initial inner state of try `i` -/
def innerInit (K : Alg M α) (pα : α) (rootp : α → α) (A : M) (ridge : α) (i : Nat) : NState M α :=
  let dm := damped K A ridge i
  -- z = (1 + p) / (2 * norm(damped))
  let z := (1 + pα) / (2 * K.fro dm)
  let m0 := K.smul z dm
  -- new_mat_h_0 = identity * z^(1/p)
  let h0 := K.smul (rootp z) K.e
  { i := 0, m := m0, h := h0, hold := h0, err := K.dist m0, ratio := 1 }

/-- `is_converged * mat_h + (1 - is_converged) * old_mat_h` (arithmetic blend, as in the code) -/
def blend (K : Alg M α) (c : NConsts α) (st : NState M α) : M :=
  let conv : α := if st.ratio < c.rmax then 1 else 0
  K.add (K.smul conv st.h) (K.smul (1 - conv) st.hold)

/-- `_outer_body_fn` at try `i` -/
def outerBody (K : Alg M α) (c : NConsts α) (p : Nat) (pα alpha : α) (rootp cast32 : α → α) (A : M) (ridge : α)
    (i : Nat) : OState M α :=
  let st := newtonInner K c p alpha c.numIters (innerInit K pα rootp A ridge i)
  -- error = max|mat_m - identity|.astype(float32)
  let err := cast32 (K.dist st.m)
  { tries := i + 1, x := blend K c st, err := err, iters := st.i, ratio := st.ratio, failed := decide (c.retryThr < err) }

/-- the outer `while_loop`: `iter_failed ∧ i < num_tries` -/
def outerLoop (body : Nat → OState M α) (numTries : Nat) : Nat → OState M α → OState M α
  | 0, st => st
  | f + 1, st => if st.failed && decide (st.tries < numTries) then outerLoop body numTries f (body st.tries) else st

/-- `init_outer_state = (0, identity, 1000.0, 100, 1.0, True)` -/
def outerInit (K : Alg M α) (thousand : α) : OState M α :=
  { tries := 0, x := K.e, err := thousand, iters := 100, ratio := 1, failed := true }

/-- the retry loop of `matrix_inverse_pth_root` (matrix size ≥ 2) on the masked matrix with base ridge `ridge` -/
def newtonOuter (K : Alg M α) (c : NConsts α) (p : Nat) (pα alpha : α) (rootp cast32 : α → α) (thousand : α)
    (A : M) (ridge : α) : OState M α :=
  outerLoop (outerBody K c p pα alpha rootp cast32 A ridge) c.numTries c.numTries (outerInit K thousand)

end Newton

/-! ### the concrete matrix algebra -/

section Concrete
variable [Add α] [Sub α] [Mul α] [Div α] [Neg α] [Zero α] [One α] [OfNat α 2] [OfNat α 10] [LT α] [DecidableLT α]

/-- `n × n` matrices (tabulated) with padding start `s` (`s = n`: no padding) -/
def matAlg (n s : Nat) (sqrt : α → α) : Alg (DMat α n) α where
  mul := fun X Y => DMat.tab (Mat.mul X.fn Y.fn)
  add := fun X Y => DMat.tab (Mat.add X.fn Y.fn)
  smul := fun c X => DMat.tab (Mat.smul c X.fn)
  one := DMat.tab Mat.one
  e := DMat.tab (Mat.maskedId s)
  dist := fun X => Mat.maxAbs (Mat.sub X.fn (Mat.maskedId s))
  fro := fun X => Mat.fro sqrt X.fn

/-- result of a root routine -/
structure RootOut (α : Type) (n : Nat) where
  x : Mat α n n
  err : α
  iters : Nat
  ratio : α
  maxEv : α
  retries : Nat

/-- `ridge_epsilon * jnp.maximum(max_ev, floor)` -/
def ridgeOf (eps maxEv floor : α) : α := eps * maxS maxEv floor

/-- the `matrix_size == 1` branch: `(a + d)^alpha`, error `|X^p (a + d) - 1|` cast to float32, `total_retries = 1` -/
def oneByOne (p : Nat) (invroot cast32 : α → α) (a ridge : α) : α × α :=
  let dm := a + ridge
  let x := invroot dm
  (x, cast32 (absS (natPow x p * dm - 1)))

/-- `matrix_inverse_pth_root(matrix, p, …, relative_matrix_epsilon, padding_start)` without LOBPCG, `n ≥ 2`.
`s` is `padding_start` (`n` when it is `None`); `maxEv` is the power-iteration estimate (or `1` for the absolute
ridge), computed by the caller with `powerIteration` on `Mat.mask s A`. -/
def newtonRoot {n : Nat} (s : Nat) (c : NConsts α) (p : Nat) (pα alpha : α) (sqrt rootp cast32 : α → α)
    (thousand epsFloor eps maxEv : α) (A : Mat α n n) : RootOut α n :=
  let K := matAlg n s sqrt
  let ridge := ridgeOf eps maxEv epsFloor
  let o := newtonOuter K c p pα alpha rootp cast32 thousand (DMat.tab (Mat.mask s A)) ridge
  -- padding_start == 0: root and error are overridden by zeros
  if s = 0 then { x := fun _ _ => 0, err := 0, iters := o.iters, ratio := o.ratio, maxEv := maxEv, retries := o.tries }
  else { x := o.x.fn, err := o.err, iters := o.iters, ratio := o.ratio, maxEv := maxEv, retries := o.tries }

/-! ### eigh root -/

/-- `jnp.flip(ix)` -/
def flipIx (n s : Nat) : Vec α n := fun i => if n - 1 - i.val < s then 1 else 0

/-- `inv_e` of `matrix_inverse_pth_root_eigh`: `e *= flip(ix)`, clip at the ridge, `0` for zero eigenvalues -/
def eighInvE [BEq α] {n : Nat} (s : Nat) (invroot : α → α) (ridge : α) (e : Vec α n) : Vec α n := fun i =>
  let ei := e i * flipIx n s i
  let clipped := maxS ei ridge
  if ei == 0 || !(decide (0 < clipped)) then 0 else invroot clipped

/-- `val = root @ root.T` with `root = u * sqrt(inv_e)` -/
def eighVal {n : Nat} (sqrt : α → α) (U : Mat α n n) (invE : Vec α n) : Mat α n n :=
  let root : Mat α n n := fun i k => U i k * sqrt (invE k)
  Mat.mul root (Mat.transpose root)

/-- the error figure: `max|(uᵀ R u - diag(e)) * flip(ix)|` (`e` already masked) -/
def eighErr {n : Nat} (s : Nat) (R U : Mat α n n) (e : Vec α n) : α :=
  let rec_ := Mat.mul (Mat.transpose U) (Mat.mul R U)
  Mat.maxAbs (fun i j => (rec_ i j - (if i = j then e i * flipIx n s i else 0)) * flipIx n s j : Mat α n n)

/-- the matrix handed to `eigh`: `mask(A) + ridge * identity` -/
def regularized {n : Nat} (s : Nat) (A : Mat α n n) (ridge : α) : Mat α n n :=
  Mat.add (Mat.mask s A) (Mat.smul ridge (Mat.maskedId s))

/-- `matrix_inverse_pth_root_eigh` after the `eigh` call, `(U, e)` being the kernel's output for `regularized s A ridge` -/
def eighRoot [BEq α] {n : Nat} (s : Nat) (sqrt invroot : α → α) (ridge : α) (A U : Mat α n n) (e : Vec α n) :
    Mat α n n × α :=
  let x := eighVal sqrt U (eighInvE s invroot ridge e)
  let err := eighErr s (regularized s A ridge) U e
  if s = 0 then (fun _ _ => 0, 0) else (x, err)

/-! ### LOBPCG deflation (top-k pairs are inputs) -/

/-- `matrix -= (eigvecs * sqrt(eigvals - min eigvals)) (…)ᵀ` -/
def lobpcgDeflate {n k : Nat} (sqrt : α → α) (A : Mat α n n) (V : Mat α n k) (w : Vec α k) (wmin : α) : Mat α n n :=
  let sv : Mat α n k := fun i l => V i l * sqrt (w l - wmin)
  Mat.sub A (Mat.mul sv (Mat.transpose sv))

/-- `resultant = conditioned - (eigvecs * sqrt(pth_diff)) (…)ᵀ`, `pth_diff` a kernel output -/
def lobpcgRedeflate {n k : Nat} (sqrt : α → α) (X : Mat α n n) (V : Mat α n k) (pthDiff : Vec α k) : Mat α n n :=
  let sv : Mat α n k := fun i l => V i l * sqrt (pthDiff l)
  Mat.sub X (Mat.mul sv (Mat.transpose sv))

end Concrete

end PrecondVerif.InvRoot
