/-
Model for property C08 (block-diagonal semantics): the *batched, padded, stacked* shape of the second-order
computation of Distributed Shampoo and Tearfree Shampoo.  No Mathlib.

Mirrors
  * `distributed_shampoo.pad_square_matrix`                       → `padSq`            ([[M, 0], [0, I]])
  * the `padding_start` masks of `matrix_inverse_pth_root`        → `maskA`, `eyeS`    (matrix and identity masked)
  * the coupled Newton iteration of `matrix_inverse_pth_root`     → `iterBody` / `inner` (inner `while_loop`),
    `tryRoot` (one ridge), `outer` (≤ `num_tries` tries, ridge · 10^i), `rootA` (mask, then iterate); a model of our
    own, simpler than `Model/InvRoot.lean` (C01): `mat_power` is repeated multiplication, `max_ev` (power iteration) is
    an input.  `sqrt` and `z ↦ z^(1/p)` are parameters.
  * `_pmap_compute_preconditioners` / `_compute_preconditioners`  → `batchedRoots` (pad every statistic to the tree-wide
    `max_size`, root with `padding_start = size`, cut `p[:size, :size]`), `treeRoots` (flatten the statistics of all leaves,
    batch, give every leaf its slice back), `maxSizeOf`
  * `BlockPartitioner` + `Preconditioner.shapes_for_preconditioners` → `dsSlots` (every statistic slot of a leaf:
    block number, axis, slice offsets, size), `dsPlan`
  * `tearfree/shampoo._blocks_metadata`, the blocks axis           → `tfSlots`
  * `tearfree/shampoo._pth_inv_root` eigenvalue cut                → `localMask` (repaired: per block, `axis=-1`),
    `sharedMask` (unrepaired D7: `jnp.max(w)` over all blocks), `batchedMask` (the batched code shape: `w` zipped with its
    row-wise maximum), `halfVals`

Matrices are `Nat`-indexed functions that vanish outside their size (`F α`); loop states carry tabulated data
(`Array (Array α)`), because a definition of function type is recomputed at every access by the compiler.
-/

namespace PrecondVerif.BlockDiag

variable {α : Type}

/-- matrices as total index functions; a matrix of size `n` is zero outside `[0,n)²` -/
abbrev F (α : Type) := Nat → Nat → α
abbrev A2 (α : Type) := Array (Array α)

/-! ### scalars -/

def absS [Neg α] [LT α] [DecidableLT α] [Zero α] (x : α) : α := if x < 0 then -x else x
def maxS [LT α] [DecidableLT α] (a b : α) : α := if a < b then b else a

/-- `Σ_{l<n} f l` in index order -/
def sumTo [Add α] [Zero α] (n : Nat) (f : Nat → α) : α := (List.range n).foldl (fun acc l => acc + f l) 0

/-- `max(init, max_{l<n} f l)` -/
def maxTo [LT α] [DecidableLT α] (n : Nat) (f : Nat → α) (init : α) : α :=
  (List.range n).foldl (fun acc l => maxS acc (f l)) init

def natPow [Mul α] [One α] (x : α) : Nat → α
  | 0 => 1
  | k + 1 => natPow x k * x

/-! ### tabulation -/

def tabM (n : Nat) (f : F α) : A2 α := Array.ofFn (n := n) fun i => Array.ofFn (n := n) fun j => f i.val j.val
def rdM [Zero α] (a : A2 α) : F α := fun i j => (a.getD i #[]).getD j 0

/-- zero-extension of a tabulated `s × s` matrix to `N × N` -/
def embed [Zero α] (N : Nat) (a : A2 α) : A2 α := tabM N (rdM a)
/-- `p[:s, :s]` -/
def cutA [Zero α] (s : Nat) (a : A2 α) : A2 α := tabM s (rdM a)

/-! ### function-level matrix operations of size `n` -/

def mulF [Add α] [Mul α] [Zero α] (n : Nat) (A B : F α) : F α := fun i j => sumTo n fun l => A i l * B l j

/-- `identity * ix` : the identity masked to `[0,s)` -/
def eyeS [Zero α] [One α] (s : Nat) : F α := fun i j => if i = j ∧ i < s then 1 else 0

/-- `matrix *= ix[newaxis, :]; matrix *= ix[:, newaxis]` (written as a select) -/
def maskF [Zero α] (s : Nat) (A : F α) : F α := fun i j => if i < s ∧ j < s then A i j else 0

/-- `pad_square_matrix`: `[[M, 0], [0, I]]` -/
def padSqF [Zero α] [One α] (s : Nat) (A : F α) : F α :=
  fun i j => if i < s ∧ j < s then A i j else if i = j then 1 else 0

/-- `jnp.max(jnp.abs(A))` over `n × n` (fold from 0) -/
def maxAbsF [Neg α] [LT α] [DecidableLT α] [Zero α] (n : Nat) (A : F α) : α :=
  maxTo n (fun i => maxTo n (fun j => absS (A i j)) 0) 0

/-- squared Frobenius norm over `n × n` -/
def froSqF [Add α] [Mul α] [Zero α] (n : Nat) (A : F α) : α := sumTo n fun i => sumTo n fun j => A i j * A i j

/-! ### array-level operations (each result tabulated) -/

section ops
variable [Zero α] [One α] [Add α] [Sub α] [Mul α] [Div α] [Neg α] [LT α] [DecidableLT α]

def mulA (n : Nat) (a b : A2 α) : A2 α := tabM n (mulF n (rdM a) (rdM b))
def maskA (n s : Nat) (a : A2 α) : A2 α := tabM n (maskF s (rdM a))
def padSq (s N : Nat) (a : A2 α) : A2 α := tabM N (padSqF s (rdM a))
/-- `c1 * identity + c2 * M` -/
def affA (n s : Nat) (c1 c2 : α) (m : A2 α) : A2 α := tabM n fun i j => c1 * eyeS s i j + c2 * rdM m i j
def smulA (n : Nat) (c : α) (m : A2 α) : A2 α := tabM n fun i j => c * rdM m i j
/-- `c * a + d * b` (the converged / old blend) -/
def blendA (n : Nat) (c d : α) (a b : A2 α) : A2 α := tabM n fun i j => c * rdM a i j + d * rdM b i j
/-- `max |M - identity|` -/
def errA (n s : Nat) (m : A2 α) : α := maxAbsF n fun i j => rdM m i j - eyeS s i j
def froSqA (n : Nat) (m : A2 α) : α := froSqF n (rdM m)

/-- `mat_power(M, p)` for `p ≥ 1` as repeated multiplication (`p = 0` gives the unmasked identity as in the code) -/
def matPowA (n : Nat) (m : A2 α) : Nat → A2 α
  | 0 => tabM n fun i j => if i = j then 1 else 0
  | 1 => m
  | k + 2 => mulA n m (matPowA n m (k + 1))

/-! ### coupled Newton iteration -/

structure St (α : Type) where
  i : Nat
  m : A2 α
  h : A2 α
  hOld : A2 α
  err : α
  ratio : α

structure Cfg (α : Type) where
  p : Nat
  pA : α               -- `p` as a scalar
  tol : α              -- error_tolerance
  maxRatio : α         -- max_error_ratio (1.2)
  retryThr : α         -- retry_loop_error_threshold (0.05)
  fuel : Nat           -- num_iters
  tries : Nat          -- num_tries
  ten : α              -- 10
  sqrt : α → α
  rootp : α → α        -- z ↦ z^(1/p)

/-- `_iter_body` -/
def iterBody (n s : Nat) (c : Cfg α) (st : St α) : St α :=
  let alpha : α := -(1 / c.pA)
  let mi := affA n s (1 - alpha) alpha st.m
  let m' := mulA n (matPowA n mi c.p) st.m
  let h' := mulA n st.h mi
  let e' := errA n s m'
  ⟨st.i + 1, m', h', st.h, e', e' / st.err⟩

/-- the inner `while_loop`; the fuel is `num_iters` -/
def inner (n s : Nat) (c : Cfg α) : Nat → St α → St α
  | 0, st => st
  | k + 1, st => if c.tol < st.err ∧ st.ratio < c.maxRatio then inner n s c k (iterBody n s c st) else st

structure Try (α : Type) where
  h : A2 α
  err : α
  iters : Nat
  ratio : α

/-- `damped_matrix = matrix + ridge * identity` -/
def dampA (n s : Nat) (a : A2 α) (ridge : α) : A2 α := tabM n fun i j => rdM a i j + ridge * eyeS s i j
/-- `identity * z^(1/p)` -/
def h0A (n s : Nat) (r : α) : A2 α := tabM n fun i j => eyeS s i j * r
/-- `z = (1 + p) / (2 * ||damped||_F)` -/
def zOf (c : Cfg α) (froSq : α) : α := (1 + c.pA) / ((1 + 1) * c.sqrt froSq)

/-- the state the inner loop starts from (`new_mat_m_0`, `new_mat_h_0`, `new_error`) -/
def initSt (n s : Nat) (c : Cfg α) (a : A2 α) (ridge : α) : St α :=
  let damped := dampA n s a ridge
  let z := zOf c (froSqA n damped)
  let m0 := smulA n z damped
  let h0 := h0A n s (c.rootp z)
  ⟨0, m0, h0, h0, errA n s m0, 1⟩

/-- after the inner loop: final error, `is_converged * mat_h + (1 - is_converged) * old_mat_h` -/
def finishTry (n s : Nat) (c : Cfg α) (st : St α) : Try α :=
  let conv : α := if st.ratio < c.maxRatio then 1 else 0
  ⟨blendA n conv (1 - conv) st.h st.hOld, errA n s st.m, st.i, st.ratio⟩

/-- `_outer_body_fn` for one ridge value (`matrix` already masked) -/
def tryRoot (n s : Nat) (c : Cfg α) (a : A2 α) (ridge : α) : Try α :=
  finishTry n s c (inner n s c c.fuel (initSt n s c a ridge))

/-- the outer retry loop: try `i` uses the ridge `ridge * 10^i`; stops when the error is below the threshold -/
def outer (n s : Nat) (c : Cfg α) (a : A2 α) (ridge : α) : Nat → Nat → Try α → Nat × Try α
  | 0, i, t => (i, t)
  | k + 1, i, _ =>
    let t' := tryRoot n s c a (ridge * natPow c.ten i)
    if c.retryThr < t'.err then outer n s c a ridge k (i + 1) t' else (i + 1, t')

/-- `matrix_inverse_pth_root(a, p, padding_start = s)` on an `n × n` input: (total_retries, root, error, iters, ratio) -/
def rootA (n s : Nat) (c : Cfg α) (ridge : α) (a : A2 α) : Nat × Try α :=
  outer n s c (maskA n s a) ridge c.tries 0 ⟨tabM n (eyeS s), 0, 0, 0⟩

/-- what `_pmap_compute_preconditioners` does with one statistic of size `s`: pad to `N`, root with `padding_start = s`,
cut `[:s, :s]` -/
def paddedRoot (N s : Nat) (c : Cfg α) (ridge : α) (a : A2 α) : Nat × Try α :=
  let r := rootA N s c ridge (padSq s N a)
  (r.1, { r.2 with h := cutA s r.2.h })

end ops

/-! ### eigh root (`matrix_inverse_pth_root_eigh`), the eigen-solver an external kernel -/

/-- `val = U diag(inv_e) Uᵀ` with `e *= flip(ix)`: the first `n - s` (smallest, padding) eigenvalues are dropped;
`invE` is `e ↦ where(e == 0 or max(e, ridge) <= 0, 0, max(e, ridge)^(-1/p))` -/
def eighValF [Add α] [Mul α] [Zero α] (n s : Nat) (invE : α → α) (U : F α) (e : Nat → α) : F α :=
  fun i j => sumTo n fun k => U i k * (if k < n - s then 0 else invE (e k)) * U j k

/-- the eigen-solver: size and (masked, regularised) matrix ↦ eigenvectors (columns) and ascending eigenvalues -/
abbrev Kernel (α : Type) := Nat → A2 α → F α × (Nat → α)

/-- `matrix_inverse_pth_root_eigh(a, p, padding_start = s)` on an `n × n` input -/
def eighRootA [Zero α] [One α] [Add α] [Mul α] (kernel : Kernel α) (invE : α → α) (n s : Nat) (ridge : α) (a : A2 α) : A2 α :=
  let reg := tabM n fun i j => maskF s (rdM a) i j + ridge * eyeS s i j
  let ue := kernel n reg
  tabM n (eighValF n s invE ue.1 ue.2)

/-- pad, root with `padding_start = s`, cut -/
def paddedEighRoot [Zero α] [One α] [Add α] [Mul α] (kernel : Kernel α) (invE : α → α) (N s : Nat) (ridge : α) (a : A2 α) : A2 α :=
  cutA s (eighRootA kernel invE N s ridge (padSq s N a))

/-- the decomposition of `blockdiag(R, 0)` built from a decomposition `(U, e)` of `R`: `N - s` zero eigenvalues first, with
the unit vectors of the padding coordinates, then `(u_k; 0)` -/
def padU [Zero α] [One α] (s N : Nat) (U : F α) : F α := fun i k =>
  if k < N - s then (if i = s + k then 1 else 0) else (if i < s then U i (k - (N - s)) else 0)
def padE [Zero α] (s N : Nat) (e : Nat → α) : Nat → α := fun k => if k < N - s then 0 else e (k - (N - s))

/-! ### batching over the tree -/

/-- give every leaf its slice of the flat result list back (`idx += num_statistics`) -/
def regroup {β : Type} : List Nat → List β → List (List β)
  | [], _ => []
  | k :: ks, l => l.take k :: regroup ks (l.drop k)

/-- a statistic: its size and its data -/
structure Stat (α : Type) where
  size : Nat
  dat : A2 α

def maxSizeOf (leaves : List (List (Stat α))) : Nat :=
  (leaves.flatten.map (·.size)).foldl Nat.max 0

/-- the batched computation for an abstract per-matrix routine `root N s a`: every statistic of every leaf is padded to the
tree-wide `max_size`, the routine is mapped over the stack, every leaf gets its slice back -/
def treeRootsG {ρ : Type} (root : Nat → Nat → A2 α → ρ) (leaves : List (List (Stat α))) : List (List ρ) :=
  let N := maxSizeOf leaves
  regroup (leaves.map List.length) (leaves.flatten.map fun st => root N st.size st.dat)

/-! ### one leaf's update: blocks, statistics, roots, application -/

/-- a block's history folded into its statistics by an abstract accumulation `acc` (`w1 * old + w2 * G Gᵀ` per axis) -/
def blockStats {γ σ : Type} (acc : σ → γ → σ) (init : σ) (hist : List γ) : σ := hist.foldl acc init

/-- pre-graft update of a blocked leaf through the tree-wide batched pipeline.  `parts` : the block slices of each
gradient of the history (`BlockPartitioner.partition`), oldest first; `toStats` : a block's accumulated statistics as a
list of matrices; `apply` : the mode products of a block's gradient with its roots. -/
def leafUpdateG {γ σ ρ : Type} (root : Nat → Nat → A2 α → ρ) (acc : σ → γ → σ) (init : σ) (toStats : σ → List (Stat α))
    (apply : List ρ → γ → γ) (N : Nat) (blocksHist : List (List γ)) (cur : List γ) : List γ :=
  let stats := blocksHist.map fun h => toStats (blockStats acc init h)
  let roots := regroup (stats.map List.length) (stats.flatten.map fun st => root N st.size st.dat)
  List.zipWith apply roots cur

/-- the same block as a tensor of its own -/
def blockUpdateG {γ σ ρ : Type} (root : Nat → Nat → A2 α → ρ) (acc : σ → γ → σ) (init : σ) (toStats : σ → List (Stat α))
    (apply : List ρ → γ → γ) (hist : List γ) (g : γ) : γ :=
  apply ((toStats (blockStats acc init hist)).map fun st => root st.size st.size st.dat) g

/-! ### slot plans (discrete layer) -/

/-- `BlockPartitioner` split sizes of one dimension -/
def splitSizes (d b : Nat) : List Nat :=
  if 0 < b ∧ b < d then List.replicate ((d - 1) / b) b ++ [d - ((d - 1) / b) * b] else [d]

/-- (offset, size) pairs of consecutive pieces -/
def pieces : List Nat → Nat → List (Nat × Nat)
  | [], _ => []
  | s :: ss, o => (o, s) :: pieces ss (o + s)

/-- cartesian product, first component slowest (`itertools.product`, and the order `partition` produces) -/
def cart {β : Type} : List (List β) → List (List β)
  | [] => [[]]
  | l :: ls => l.flatMap fun x => (cart ls).map (x :: ·)

/-- a statistic slot: block number, axis, the block's slice (offset, size) per axis, statistic size -/
structure Slot where
  block : Nat
  axis : Nat
  slice : List (Nat × Nat)
  size : Nat
deriving Repr

/-- `PreconditionerType` -/
inductive PType where
  | all | input | output
deriving Repr, DecidableEq

/-- `Preconditioner.should_precondition_dims` as the list of preconditioned axes -/
def precAxes (pt : PType) (rank : Nat) : List Nat :=
  match pt with
  | .all => List.range rank
  | .input => if rank ≤ 1 then List.range rank else List.range (rank - 1)
  | .output => if rank ≤ 1 then List.range rank else [rank - 1]

/-- the blocks of a leaf: per axis (offset, size), first axis slowest (`BlockPartitioner.partition` order) -/
def dsBlocks (shape : List Nat) (b : Nat) : List (List (Nat × Nat)) :=
  cart (shape.map fun d => pieces (splitSizes d b) 0)

/-- statistic slots of block number `n` -/
def blockSlots (pt : PType) (n : Nat) (blk : List (Nat × Nat)) : List Slot :=
  (precAxes pt blk.length).map fun a => ⟨n, a, blk, (blk.getD a (0, 0)).2⟩

/-- slots of consecutive blocks, numbered from `n` (`for g in partitioned_grads: for axis in preconditioned_dims`) -/
def slotsFrom (pt : PType) : Nat → List (List (Nat × Nat)) → List Slot
  | _, [] => []
  | n, blk :: rest => blockSlots pt n blk ++ slotsFrom pt (n + 1) rest

/-- all statistic slots of a DS leaf of (merged) shape `shape`, in state order: block-major, then preconditioned axis -/
def dsSlotsP (pt : PType) (shape : List Nat) (b : Nat) : List Slot := slotsFrom pt 0 (dsBlocks shape b)

def dsSlots (shape : List Nat) (b : Nat) : List Slot := dsSlotsP .all shape b

/-- the flat statistics list of a tree (`statistics.extend(state.statistics)` leaf by leaf) -/
def treeSlots (pt : PType) (b : Nat) (shapes : List (List Nat)) : List Slot := shapes.flatMap fun sh => dsSlotsP pt sh b

/-- `index_start` of every leaf in the flat / global statistics (prefix sums of the per-leaf counts) -/
def indexStarts : List Nat → Nat → List Nat
  | [], _ => []
  | c :: cs, o => o :: indexStarts cs (o + c)

/-- Tearfree: pieces of one dimension (`d ≥ b` is cut in `d / b` blocks of `b`) -/
def tfPieces (d b : Nat) : List (Nat × Nat) :=
  if b ≤ d then (List.range (d / b)).map fun i => (i * b, b) else [(0, d)]

/-- Tearfree slots: statistics `stats[axis][n]` ; listed block-major like `dsSlots` -/
def tfSlots (shape : List Nat) (b : Nat) : List Slot :=
  let blocks := cart (shape.map fun d => tfPieces d b)
  (List.zipIdx blocks).flatMap fun (blk, n) =>
    (List.zipIdx blk).map fun (os, a) => ⟨n, a, blk, os.2⟩

/-! ### Tearfree eigenvalue cut -/

section cut
variable [Mul α] [LT α] [DecidableLT α] [Zero α]

/-- `jnp.max(w, axis=-1)` of one block (`w` non-empty; fold from the first element) -/
def rowMax : List α → α
  | [] => 0
  | x :: xs => xs.foldl maxS x

/-- `w <= eps * m` -/
def cutMask (eps m : α) (w : List α) : List Bool := w.map fun x => !(decide (eps * m < x))

/-- repaired code: the cut is relative to the block's own largest eigenvalue -/
def localMask (eps : α) (w : List α) : List Bool := cutMask eps (rowMax w) w

/-- the batched code shape: `mask = w <= eps * jnp.max(w, axis=-1, keepdims=True)` on the stack of all blocks -/
def batchedMask (eps : α) (ws : List (List α)) : List (List Bool) :=
  List.zipWith (fun w m => cutMask eps m w) ws (ws.map rowMax)

/-- unrepaired code (D7): `jnp.max(w)` over ALL blocks -/
def sharedMask (eps : α) (ws : List (List α)) : List (List Bool) :=
  ws.map (cutMask eps (rowMax ws.flatten))

/-- `half = where(mask, 0, where(mask, 1, w) ** (-0.5 / p))` with the real power a parameter -/
def halfVals (pw : α → α) (mask : List Bool) (w : List α) : List α :=
  List.zipWith (fun (mk : Bool) x => if mk then 0 else pw x) mask w

end cut

/-- Tearfree's batched root routine on the stack of all blocks of a tensor: `eig` (external kernel) per block, the
cut on the stack, `mk` builds `(half * v)(half * v)ᵀ` from the kept half-powers and the eigenvectors -/
def tfBatched {σ V ρ : Type} [Mul α] [LT α] [DecidableLT α] [Zero α] (eig : σ → List α × V) (mk : List α → V → ρ)
    (pw : α → α) (eps : α) (stats : List σ) : List ρ :=
  let wv := stats.map eig
  let masks := batchedMask eps (wv.map (·.1))
  List.zipWith (fun (x : List α × V) m => mk (halfVals pw m x.1) x.2) wv masks

/-- the routine on a single matrix -/
def tfOne {σ V ρ : Type} [Mul α] [LT α] [DecidableLT α] [Zero α] (eig : σ → List α × V) (mk : List α → V → ρ)
    (pw : α → α) (eps : α) (st : σ) : ρ :=
  mk (halfVals pw (localMask eps (eig st).1) (eig st).1) (eig st).2

/-- the unrepaired routine (D7): cut relative to the maximum over all blocks -/
def tfShared {σ V ρ : Type} [Mul α] [LT α] [DecidableLT α] [Zero α] (eig : σ → List α × V) (mk : List α → V → ρ)
    (pw : α → α) (eps : α) (stats : List σ) : List ρ :=
  let wv := stats.map eig
  let masks := sharedMask eps (wv.map (·.1))
  List.zipWith (fun (x : List α × V) m => mk (halfVals pw m x.1) x.2) wv masks

end PrecondVerif.BlockDiag
