/-
Model of `precondition/quantization_utils.py` (property C11), Mathlib-free.

`QuantizedValue.quantize(fvalue, dtype, extract_diagonal)` for int8 / int16:

    diagonal   = jnp.diag(fvalue);  fvalue = fvalue - jnp.diag(diagonal)      (only if extract_diagonal)
    max_abs    = jnp.max(jnp.abs(fvalue), axis=0)
    bucket     = max_abs / num_buckets                                          (127 or 32767)
    bs_nonzero = jnp.where(bucket > 0, bucket, 1)
    quantized  = jnp.round(fvalue / bs_nonzero)                                 (round half to even)

`to_float`:  `quantized * bucket  (+ jnp.diag(diagonal) if extract_diagonal)`.

The reduction runs over axis 0, so a *column* is the set of all indices that share the trailing
coordinates: a tensor of shape `d0 :: rest` is the `d0 × prod rest` matrix `x i c` with `c` the
row-major rank of the trailing coordinates (rank 1 is a single column).  The model is written once over
notation classes; it is executed at `Rat` by the driver and reasoned about in any ordered field with a
floor (`Lemmas/Quant.lean`, `Props/C11.lean`).
-/

namespace PrecondVerif.Quant

/-- a scalar type with an integer floor -/
class HasFloor (α : Type) where
  floor : α → Int

instance : HasFloor Rat := ⟨Rat.floor⟩

/-- `table n f` tabulates `f 0 … f (n-1)`; `lookup (table n f) f` answers from the table and falls
back to `f` outside it, so it is extensionally `f` (`lookup_table`).  The table is an explicit value so
that it is computed once per `quantize` call (keeps the evaluation of the model linear). -/
def table {β : Type} (n : Nat) (f : Nat → β) : Array β := Array.ofFn (n := n) fun i => f i.val

def lookup {β : Type} (a : Array β) (f : Nat → β) (c : Nat) : β :=
  match a[c]? with
  | some v => v
  | none => f c

theorem lookup_table {β : Type} (n : Nat) (f : Nat → β) : lookup (table n f) f = f := by
  funext c
  simp only [lookup, table, Array.getElem?_ofFn]
  split <;> rename_i h
  · split at h
    · injection h with h; exact h.symm
    · cases h
  · rfl

section generic

variable {α : Type} [OfNat α 0] [OfNat α 1] [Add α] [Sub α] [Neg α] [Mul α] [Div α]
  [LT α] [DecidableLT α] [NatCast α] [IntCast α] [HasFloor α]

/-- `jnp.abs` -/
def absG (x : α) : α := if x < 0 then -x else x

/-- `max` of two scalars -/
def maxG (a b : α) : α := if a < b then b else a

/-- `jnp.max(jnp.abs(col))` of one (non-empty) column; `0` for the empty one -/
def maxAbs (col : List α) : α := col.foldl (fun m x => maxG m (absG x)) 0

/-- `jnp.round`: round to nearest, ties to even -/
def roundHalfEven (x : α) : Int :=
  let f := HasFloor.floor x
  let r := x - (f : α)
  if r + r < 1 then f
  else if 1 < r + r then f + 1
  else if f % 2 = 0 then f else f + 1

/-- `bucket_size` of one column: `max_abs / num_buckets` -/
def bucketSize (N : Nat) (col : List α) : α := maxAbs col / (N : α)

/-- `jnp.where(bs > 0, bs, 1)` -/
def bucketNZ (b : α) : α := if 0 < b then b else 1

/-- one stored integer: `round(x / bs_nonzero)` -/
def quantEntry (b x : α) : Int := roundHalfEven (x / bucketNZ b)

/-- one dequantized entry: `quantized * bucket_size` -/
def dequantEntry (b : α) (q : Int) : α := (q : α) * b

/-- the column `c` of a `rows × _` matrix: everything `jnp.max(…, axis=0)` reduces over -/
def column (rows : Nat) (x : Nat → Nat → α) (c : Nat) : List α := (List.range rows).map (x · c)

/-- `fvalue - jnp.diag(jnp.diag(fvalue))` -/
def offDiag (x : Nat → Nat → α) : Nat → Nat → α :=
  fun i c => x i c - (if i = c then x i i else 0)

/-- `QuantizedValue` payload: integers, diagonal (if extracted), per-column bucket size. -/
structure QV (α : Type) where
  q : Nat → Nat → Int
  diag : Nat → α
  bucket : Nat → α

/-- the tensor that is actually bucketed -/
def pre (ed : Bool) (x : Nat → Nat → α) : Nat → Nat → α := if ed then offDiag x else x

/-- `QuantizedValue.quantize` with `num_buckets = N` on a `rows × cols` matrix view -/
def quantize (N rows cols : Nat) (ed : Bool) (x : Nat → Nat → α) : QV α :=
  let y := pre ed x
  let f := fun c => bucketSize N (column rows y c)
  let tab := table cols f
  { q := fun i c => quantEntry (lookup tab f c) (y i c)
    diag := fun i => if ed then x i i else 0
    bucket := lookup tab f }

/-- `QuantizedValue.to_float` -/
def dequantize (ed : Bool) (v : QV α) : Nat → Nat → α :=
  fun i c =>
    let val := dequantEntry (v.bucket c) (v.q i c)
    if ed then val + (if i = c then v.diag i else 0) else val

/-- quantize what `to_float` returned (state carried but not updated) -/
def requantize (N rows cols : Nat) (ed : Bool) (v : QV α) : QV α :=
  quantize N rows cols ed (dequantize ed v)

/-! ### flat (numpy) view -/

/-- number of columns of a tensor shape under the axis-0 reduction: product of the trailing dims -/
def colsOf (shape : List Nat) : Nat := shape.tail.foldr (· * ·) 1

/-- number of rows: the leading dim -/
def rowsOf (shape : List Nat) : Nat := shape.headD 1

/-- row-major data seen as the `rows × cols` matrix -/
def fromFlat (cols : Nat) (data : Array α) : Nat → Nat → α :=
  fun i c => data.getD (i * cols + c) 0

/-- row-major tabulation of a matrix view -/
def toFlat {β : Type} (rows cols : Nat) (f : Nat → Nat → β) : List β :=
  (List.range rows).flatMap fun i => (List.range cols).map fun c => f i c

/-- everything the harness compares, on flat data: stored integers, bucket sizes, diagonal,
dequantized values, and the integers / buckets of a re-quantization. -/
structure FlatResult (α : Type) where
  q : List Int
  bucket : List α
  diag : List α
  deq : List α
  rq : List Int
  rbucket : List α

def quantizeFlat (N : Nat) (shape : List Nat) (ed : Bool) (data : Array α) : FlatResult α :=
  let rows := rowsOf shape
  let cols := colsOf shape
  let x := fromFlat cols data
  let v := quantize N rows cols ed x
  let d := dequantize ed v
  let w := requantize N rows cols ed v
  { q := toFlat rows cols v.q
    bucket := (List.range cols).map v.bucket
    diag := if ed then (List.range rows).map v.diag else []
    deq := toFlat rows cols d
    rq := toFlat rows cols w.q
    rbucket := (List.range cols).map w.bucket }

/-! ### the same computation with a rounding function after every arithmetic operation

`fl : α → α` is the rounding of the float format (a parameter: the theorems take its error bound as a
hypothesis; the driver runs `fl32`, round-to-nearest-even to 24 bits, on exact rationals).  `max`, `abs`,
`jnp.where`, the subtraction of the extracted diagonal (`x - 0`, `x - x`), `jnp.round` on the computed
ratio, the int→float conversion of the payload and the re-addition of the diagonal (`v + 0`, `0 + d`) are
exact in IEEE arithmetic and therefore carry no `fl`.

A division `a / b` is computed in one of two ways by XLA-CPU (observed, jax 0.11): a correctly rounded
division `fl (a / b)`, or — whenever the divisor is a constant or is broadcast against the dividend —
`fl (a * fl (1 / b))` (two roundings).  `recip` selects the second. -/

/-- `a / b` as computed: one rounded division, or a rounded product with the rounded reciprocal -/
def divFl (fl : α → α) (recip : Bool) (a b : α) : α :=
  if recip then fl (a * fl (1 / b)) else fl (a / b)

/-- `bucket_size = max_abs / num_buckets` as computed -/
def bucketSizeFl (fl : α → α) (rb : Bool) (N : Nat) (col : List α) : α :=
  divFl fl rb (maxAbs col) (N : α)

/-- `round(x / bs_nonzero)` as computed -/
def quantEntryFl (fl : α → α) (rr : Bool) (b x : α) : Int :=
  roundHalfEven (divFl fl rr x (bucketNZ b))

/-- `quantized * bucket_size` as computed -/
def dequantEntryFl (fl : α → α) (b : α) (q : Int) : α := fl ((q : α) * b)

/-- `QuantizedValue.quantize` in rounded arithmetic (`rb`, `rr`: how the bucket / the ratio is divided) -/
def quantizeFl (fl : α → α) (rb rr : Bool) (N rows cols : Nat) (ed : Bool) (x : Nat → Nat → α) : QV α :=
  let y := pre ed x
  let f := fun c => bucketSizeFl fl rb N (column rows y c)
  let tab := table cols f
  { q := fun i c => quantEntryFl fl rr (lookup tab f c) (y i c)
    diag := fun i => if ed then x i i else 0
    bucket := lookup tab f }

/-- `QuantizedValue.to_float` in rounded arithmetic -/
def dequantizeFl (fl : α → α) (ed : Bool) (v : QV α) : Nat → Nat → α :=
  fun i c =>
    let val := dequantEntryFl fl (v.bucket c) (v.q i c)
    if ed then val + (if i = c then v.diag i else 0) else val

/-- what the harness compares in rounded arithmetic, on flat data -/
structure FlatResultFl (α : Type) where
  q : List Int
  bucket : List α
  deq : List α

def quantizeFlatFl (fl : α → α) (rb rr : Bool) (N : Nat) (shape : List Nat) (ed : Bool) (data : Array α) :
    FlatResultFl α :=
  let rows := rowsOf shape
  let cols := colsOf shape
  let v := quantizeFl fl rb rr N rows cols ed (fromFlat cols data)
  { q := toFlat rows cols v.q
    bucket := (List.range cols).map v.bucket
    deq := toFlat rows cols (dequantizeFl fl ed v) }

end generic

/-! ### dtype dispatch of `QuantizedValue.quantize` / `to_float` and of its call sites -/

/-- the four `quantized_dtype`s the code accepts -/
inductive QDtype where
  | int8 | int16 | bfloat16 | float32
  deriving DecidableEq, Repr

/-- `num_buckets` (only the integer dtypes are bucketed) -/
def numBuckets : QDtype → Option Nat
  | .int8 => some 127
  | .int16 => some 32767
  | _ => none

/-- `quantized_dtype_for_momentum_buffers(var)` of `distributed_shampoo` -/
def dsMomentumDtype (bestEffort : Bool) (rank : Nat) : QDtype :=
  if bestEffort && decide (1 < rank) then .int8 else .float32

/-- `quantize_second_moment` / `quantized_dtype_for_second_moment_*_buffers()` of `distributed_shampoo`:
int16 only on the pmap path without low-rank compression -/
def dsSecondMomentDtype (bestEffort lowRank fd pmapAxis sharded : Bool) : QDtype :=
  if bestEffort && !lowRank && !fd && pmapAxis && !sharded then .int16 else .float32

/-- `_quantize_diagonal_statistics`: always stored as float32 (a passthrough `QuantizedValue`) -/
def dsDiagonalStatisticsDtype : QDtype := .float32

/-- `sm3._quantize_momentum`: always int8 -/
def sm3MomentumDtype : QDtype := .int8

/-- payload of a `QuantizedValue` of any dtype: bucketed integers, or cast floats (`diagonal` and
`bucket_size` are `[]` for the float dtypes, whatever `extract_diagonal` says) -/
inductive Payload (α : Type) where
  | ints (v : QV α)
  | floats (f : Nat → Nat → α)

section anydtype

variable {α : Type} [OfNat α 0] [OfNat α 1] [Add α] [Sub α] [Neg α] [Mul α] [Div α]
  [LT α] [DecidableLT α] [NatCast α] [IntCast α] [HasFloor α]

/-- `QuantizedValue.quantize` for every dtype; `cast` is `astype(bfloat16)` seen in float32 -/
def quantizeAny (cast : α → α) (dt : QDtype) (rows cols : Nat) (ed : Bool) (x : Nat → Nat → α) :
    Payload α :=
  match dt with
  | .float32 => .floats x
  | .bfloat16 => .floats fun i c => cast (x i c)
  | .int8 => .ints (quantize 127 rows cols ed x)
  | .int16 => .ints (quantize 32767 rows cols ed x)

/-- `QuantizedValue.to_float` for every dtype (`astype(float32)` of a bfloat16 is exact) -/
def toFloatAny (ed : Bool) : Payload α → Nat → Nat → α
  | .floats f => f
  | .ints v => dequantize ed v

end anydtype

/-! ### bfloat16 on exact rationals (dyadic inputs), float32 passthrough -/

/-- `⌊log₂ a⌋` for a positive rational -/
def floorLog2 (a : Rat) : Int :=
  let n := a.num.toNat
  let d := a.den
  let e : Int := (Nat.log2 n : Int) - (Nat.log2 d : Int)
  -- 2^e may overshoot by one
  if (2 : Rat) ^ e ≤ a then (if (2 : Rat) ^ (e + 1) ≤ a then e + 1 else e) else e - 1

/-- round a rational to `p` significand bits, minimum normal exponent `emin` (gradual underflow),
ties to even; `none` when the result exceeds the largest finite value `(2 - 2^(1-p))·2^emax`. -/
def roundToFormat (p : Nat) (emin emax : Int) (x : Rat) : Option Rat :=
  if x = 0 then some 0 else
  let a := if x < 0 then -x else x
  let e := floorLog2 a
  let e := if e < emin then emin else e
  let ulp : Rat := (2 : Rat) ^ (e - (p : Int) + 1)
  let r : Rat := (roundHalfEven (x / ulp) : Rat) * ulp
  let big : Rat := (2 : Rat) ^ (emax + 1)
  if r ≥ big ∨ r ≤ -big then none else some r

/-- the same rounding without the overflow test (unbounded exponents above): `p` significand bits, ties to
even, gradual underflow below `2^emin`.  `roundToFormat p emin emax x = some r → roundNE p emin x = r`. -/
def roundNE (p : Nat) (emin : Int) (x : Rat) : Rat :=
  if x = 0 then 0 else
  let a := if x < 0 then -x else x
  let e := floorLog2 a
  let e := if e < emin then emin else e
  let ulp : Rat := (2 : Rat) ^ (e - (p : Int) + 1)
  (roundHalfEven (x / ulp) : Rat) * ulp

/-- float32 rounding of an exact value (the `fl` the driver runs `quantizeFl` with) -/
def fl32 (x : Rat) : Rat := roundNE 24 (-126) x

/-- executable form of the guard `NormalCol lo N col` of the `…_fl32` theorems (`Lemmas/QuantFl32.lean`,
`normalColB_iff`): the column is zero, or `2·lo ≤ b`, `2·b·lo ≤ 1`, `N·lo ≤ 1` and every non-zero entry is
`≥ 4·lo·b`, with `b = max|col| / N` -/
def normalColB (lo : Rat) (N : Nat) (col : List Rat) : Bool :=
  let b := bucketSize N col
  decide (maxAbs col = 0) ||
    (decide (2 * lo ≤ b) && decide (2 * b * lo ≤ 1) && decide ((N : Rat) * lo ≤ 1) &&
      col.all fun x => decide (x = 0) || decide (4 * lo * b ≤ absG x))

/-- the guard of every column of a tensor, float32 (`lo = 2⁻¹²⁶`) -/
def normalColsFlat (N : Nat) (shape : List Nat) (ed : Bool) (data : Array Rat) : List Bool :=
  let rows := rowsOf shape
  let cols := colsOf shape
  let y := pre ed (fromFlat cols data)
  (List.range cols).map fun c => normalColB (1 / 2 ^ 126) N (column rows y c)

/-- `|x|` is at least `2^128`: a float32 result would have overflowed -/
def f32Overflows (x : Rat) : Bool := decide ((2 : Rat) ^ (128 : Int) ≤ (if x < 0 then -x else x))

/-- `astype(jnp.bfloat16)` of an exact float32 value, then back to float32 (exact) -/
def bf16Round (x : Rat) : Option Rat := roundToFormat 8 (-126) 127 x

end PrecondVerif.Quant
