/-
Model of the preconditioner acceptance gate of Distributed Shampoo (property C03).

Mirrors (no Mathlib):
  * `_skip(error) = isnan(error) or error >= inverse_failure_threshold`           → `skip`
  * `_select_preconditioner(error, new_p, old_p) = lax.cond(_skip(error), old_p, new_p)`
    (`_pmap_compute_preconditioners`, replicated / pmap path)                      → `select`
  * the three parallel selects on (quantized, diagonal, bucket_size) of
    `_pmap_quantized_compute_preconditioners`                                      → `selectTriple`
  * `sharded_update_fn`: `predicate = isnan(errors) | errors >= thr` reshaped to (-1,1,1) and
    `jnp.where(predicate, old, new)` over all entries of all slots                 → `whereSel`, `shardedGate`
  * the arithmetic blend `predicate*old + (1-predicate)*new` of the UNREPAIRED sharded path
    (kept as arithmetic: it differs from a select on NaN/Inf)                      → `arithBlend`, `arithGate`
  * `efficient_cond(perform_step, root, [statistics slice, error = threshold])`    → `efficientCond`, `candidate`
  * `_update_preconditioners_fn` (`steps == 1` ⇒ always the root)                   → `candidate`
  * metrics kept on non-refresh steps (`efficient_cond(perform_step, new, old)`,
    `_add_metrics_into_local_stats(..., keep_old = ~perform_step)`)                 → `slotStep`

Scalars that may be non-finite are `XF` (extended rationals with IEEE-754 semantics for
`+ - * ≥ < isnan`; signed zeros are not distinguished — no modelled operation depends on them).
Every float32/float64 value is exactly an `XF` (`XF.ofBits32`, `XF.ofBits64`).

The results `(candidate, error)` of the root computation are adversarial inputs of `slotStep`:
nothing is assumed about them. One slot = one statistic/preconditioner pair; the optimizer state is
the product of its slots, all driven by the same step counter.
-/

namespace PrecondVerif.Gate

/-! ### extended floats -/

inductive XF where
  | fin (q : Rat)
  | pinf
  | ninf
  | nan
  deriving DecidableEq, Repr

namespace XF

def isNaN : XF → Bool
  | nan => true
  | _ => false

def isFinite : XF → Bool
  | fin _ => true
  | _ => false

/-- IEEE `a ≥ b` (false as soon as one side is NaN) -/
def ge : XF → XF → Bool
  | nan, _ => false
  | _, nan => false
  | pinf, _ => true
  | _, ninf => true
  | ninf, _ => false
  | fin _, pinf => false
  | fin a, fin b => decide (b ≤ a)

/-- IEEE `a < b` (false as soon as one side is NaN) -/
def lt : XF → XF → Bool
  | nan, _ => false
  | _, nan => false
  | pinf, _ => false
  | _, ninf => false
  | ninf, _ => true
  | fin _, pinf => true
  | fin a, fin b => decide (a < b)

def neg : XF → XF
  | fin q => fin (-q)
  | pinf => ninf
  | ninf => pinf
  | nan => nan

def add : XF → XF → XF
  | nan, _ => nan
  | _, nan => nan
  | pinf, ninf => nan
  | ninf, pinf => nan
  | pinf, _ => pinf
  | _, pinf => pinf
  | ninf, _ => ninf
  | _, ninf => ninf
  | fin a, fin b => fin (a + b)

/-- `±∞ * q` for a finite `q`: NaN at 0, otherwise the sign rule -/
def infTimes (positive : Bool) (q : Rat) : XF :=
  if q = 0 then nan else if (0 < q) = positive then pinf else ninf

def mul : XF → XF → XF
  | nan, _ => nan
  | _, nan => nan
  | fin a, fin b => fin (a * b)
  | fin a, pinf => infTimes true a
  | fin a, ninf => infTimes false a
  | pinf, fin b => infTimes true b
  | ninf, fin b => infTimes false b
  | pinf, pinf => pinf
  | ninf, ninf => pinf
  | pinf, ninf => ninf
  | ninf, pinf => ninf

instance : Add XF := ⟨add⟩
instance : Mul XF := ⟨mul⟩
instance : Neg XF := ⟨neg⟩
instance : Sub XF := ⟨fun a b => add a (neg b)⟩
instance : OfNat XF 0 := ⟨fin 0⟩
instance : OfNat XF 1 := ⟨fin 1⟩

/-- `2^e` as a rational, `e` any integer -/
def pow2 (e : Int) : Rat :=
  if e ≥ 0 then ((2 ^ e.toNat : Nat) : Rat) else 1 / ((2 ^ (-e).toNat : Nat) : Rat)

/-- exact value of an IEEE-754 bit pattern with `ebits` exponent bits and `mbits` mantissa bits -/
def ofBits (ebits mbits : Nat) (n : Nat) : XF :=
  let mant := n % 2 ^ mbits
  let ex := (n / 2 ^ mbits) % 2 ^ ebits
  let negative := (n / 2 ^ (mbits + ebits)) % 2 == 1
  let bias : Int := (2 ^ (ebits - 1) - 1 : Nat)
  if ex == 2 ^ ebits - 1 then
    (if mant == 0 then (if negative then ninf else pinf) else nan)
  else
    let mag : Rat :=
      if ex == 0 then (mant : Rat) * pow2 (1 - bias - (mbits : Int))
      else ((2 ^ mbits + mant : Nat) : Rat) * pow2 ((ex : Int) - bias - (mbits : Int))
    fin (if negative then -mag else mag)

/-- exact value of a float32 bit pattern -/
def ofBits32 (n : Nat) : XF := ofBits 8 23 n

/-- exact value of a float64 bit pattern -/
def ofBits64 (n : Nat) : XF := ofBits 11 52 n

def ofFloat (x : Float) : XF := ofBits64 x.toBits.toNat
def ofFloat32 (x : Float32) : XF := ofBits32 x.toBits.toNat

end XF

/-! ### the gate -/

/-- `_skip`: `jnp.logical_or(jnp.isnan(error), error >= inverse_failure_threshold)` -/
def skip (err thr : XF) : Bool := err.isNaN || err.ge thr

/-- `_select_preconditioner`: `lax.cond(_skip(error), old_p, new_p)` — a select, no arithmetic -/
def select {π : Type} (err thr : XF) (new old : π) : π :=
  if skip err thr then old else new

/-- quantized path: three parallel selects on (quantized matrix, diagonal, bucket sizes) -/
def selectTriple {κ δ β : Type} (err thr : XF) (new old : κ × δ × β) : κ × δ × β :=
  (select err thr new.1 old.1, select err thr new.2.1 old.2.1, select err thr new.2.2 old.2.2)

/-- `jnp.where(predicate, old, new)` with a per-slot predicate broadcast over the entries -/
def whereSel {α : Type} {n : Nat} (p : Bool) (old new : Vector α n) : Vector α n :=
  Vector.zipWith (fun o c => if p then o else c) old new

/-- the sharded path for one slot (entries of the stacked preconditioner of that slot) -/
def selectWhere {α : Type} {n : Nat} (err thr : XF) (new old : Vector α n) : Vector α n :=
  whereSel (skip err thr) old new

/-- the sharded path for all slots at once: `errors.reshape(-1,1,1)`, one `where` -/
def shardedGate {α : Type} {n : Nat} (thr : XF) :
    List XF → List (Vector α n) → List (Vector α n) → List (Vector α n)
  | e :: es, o :: os, c :: cs => selectWhere e thr c o :: shardedGate thr es os cs
  | _, _, _ => []

/-- `predicate * old + (1 - predicate) * new` — the arithmetic of the unrepaired sharded path -/
def arithBlend {α : Type} [Add α] [Mul α] [Sub α] [OfNat α 1] (pred old new : α) : α :=
  pred * old + (1 - pred) * new

/-- `_skip(...).astype(float)` -/
def skipAs {α : Type} [OfNat α 0] [OfNat α 1] (err thr : XF) : α := if skip err thr then 1 else 0

/-- the unrepaired sharded gate on one entry -/
def arithGate (err thr new old : XF) : XF := arithBlend (skipAs err thr) old new

/-! ### refresh / non-refresh candidate -/

/-- `efficient_cond(predicate, compute_fn, init_state)`: a `while_loop` that runs `compute_fn`
once when the predicate holds and returns `init_state` otherwise -/
def efficientCond {β : Type} (predicate : Bool) (compute : Unit → β) (init : β) : β :=
  if predicate then compute () else init

/-- `perform_step = step % preconditioning_compute_steps_t == 0` -/
def performStep (itv count : Nat) : Bool := count % itv == 0

/-- what reaches the gate: `_update_preconditioners_fn` calls the root directly when the interval
is 1, otherwise `efficient_cond(perform_step, root, [statistics slice, error = threshold])` -/
def candidate {π : Type} (itv count : Nat) (thr : XF) (root : Unit → π × XF) (junk : π) : π × XF :=
  if itv == 1 then root ()
  else efficientCond (performStep itv count) root (junk, thr)

/-! ### one slot over a history -/

structure Slot (π : Type) where
  /-- the stored preconditioner -/
  precond : π
  /-- the stored `training_metrics.inverse_pth_root_errors` entry -/
  err : XF

/-- adversarial per-step input of a slot: whatever the root computation returns for the statistics
of that step (`cand`, `err`) and the statistics slice used as the carry of `efficient_cond` -/
structure Inp (π : Type) where
  cand : π
  err : XF
  junk : π

/-- a selector: `sel err thr new old` -/
abbrev Selector (π : Type) := XF → XF → π → π → π

/-- one `update` call seen from one slot at step counter `count` -/
def slotStep {π : Type} (sel : Selector π) (thr : XF) (itv count : Nat) (s : Slot π) (i : Inp π) :
    Slot π :=
  let c := candidate itv count thr (fun _ => (i.cand, i.err)) i.junk
  { precond := sel c.2 thr c.1 s.precond,
    err := if performStep itv count then c.2 else s.err }

/-- the slot after the history `is`, the first input being consumed at counter `count` -/
def slotRun {π : Type} (sel : Selector π) (thr : XF) (itv : Nat) :
    Nat → Slot π → List (Inp π) → Slot π
  | _, s, [] => s
  | count, s, i :: is => slotRun sel thr itv (count + 1) (slotStep sel thr itv count s i) is

/-- root computation with a warm start (`reuse_preconditioner`, and `frequent_directions`, whose sketch IS the stored packed
preconditioner): what the root returns at counter `count` may depend on the value stored in the slot -/
abbrev WarmRoot (π : Type) := Nat → π → Inp π

/-- one `update` call of a slot whose root computation reads the stored value -/
def slotStepDep {π : Type} (sel : Selector π) (thr : XF) (itv count : Nat) (root : WarmRoot π) (s : Slot π) : Slot π :=
  slotStep sel thr itv count s (root count s.precond)

/-- `n` consecutive updates starting at counter `count` -/
def slotRunDep {π : Type} (sel : Selector π) (thr : XF) (itv : Nat) (root : WarmRoot π) :
    Nat → Slot π → Nat → Slot π
  | _, s, 0 => s
  | count, s, n + 1 => slotRunDep sel thr itv root (count + 1) (slotStepDep sel thr itv count root s) n

/-- `pad_and_maybe_zero_preconditioners` with `reset_preconditioner` (`reset_frequency = round(1/(1-beta2))`): the warm start
handed to the root is `where(step % reset_frequency == 0, 0, 1) * stored` — a COPY; the stored value itself is not touched -/
def warmStart {π : Type} (rf : Option Nat) (zero : π → π) (count : Nat) (p : π) : π :=
  match rf with
  | none => p
  | some f => if count % f == 0 then zero p else p

/-- one `update` call with a periodically reset warm start: the gate still chooses between the candidate and the value
that was stored BEFORE the call -/
def slotStepReset {π : Type} (sel : Selector π) (thr : XF) (itv : Nat) (rf : Option Nat) (zero : π → π) (count : Nat)
    (root : WarmRoot π) (s : Slot π) : Slot π :=
  slotStep sel thr itv count s (root count (warmStart rf zero count s.precond))

def slotRunReset {π : Type} (sel : Selector π) (thr : XF) (itv : Nat) (rf : Option Nat) (zero : π → π) (root : WarmRoot π) :
    Nat → Slot π → Nat → Slot π
  | _, s, 0 => s
  | count, s, n + 1 => slotRunReset sel thr itv rf zero root (count + 1) (slotStepReset sel thr itv rf zero count root s) n

/-- a WRONG variant (negative theorems only): the reset applied in place to the list that is also the OLD operand of the gate -/
def slotStepResetInPlace {π : Type} (sel : Selector π) (thr : XF) (itv : Nat) (rf : Option Nat) (zero : π → π) (count : Nat)
    (root : WarmRoot π) (s : Slot π) : Slot π :=
  let p' := warmStart rf zero count s.precond
  slotStep sel thr itv count { s with precond := p' } (root count p')

/-- all slots of the optimizer state advance with the same counter: slot `k` receives the `k`-th root result -/
def stateStep {π : Type} (sel : Selector π) (thr : XF) (itv count : Nat) (ss : List (Slot π)) (ins : List (Inp π)) :
    List (Slot π) :=
  List.zipWith (slotStep sel thr itv count) ss ins

/-- the whole state after a history of per-step lists of root results -/
def stateRun {π : Type} (sel : Selector π) (thr : XF) (itv : Nat) :
    Nat → List (Slot π) → List (List (Inp π)) → List (Slot π)
  | _, ss, [] => ss
  | count, ss, ins :: rest => stateRun sel thr itv (count + 1) (stateStep sel thr itv count ss ins) rest

/-- `True` for the inputs that the gate may accept at counter `count` -/
def Accepted {π : Type} (thr : XF) (itv count : Nat) (i : Inp π) : Prop :=
  performStep itv count = true ∧ i.err.isNaN = false ∧ i.err.lt thr = true

end PrecondVerif.Gate
