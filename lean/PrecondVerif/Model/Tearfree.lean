/-
Model of the Tearfree optimizer (property C15), Mathlib-free and scalar-generic.

Anchors (transcribed by hand, tied to the code by the correspondence run of `harness/props/c15.py`):

* `tearfree/praxis_shim.py::sharded_chain`            → `chain2`, `chain3`, `chainL` (states threaded positionally)
* `tearfree/optimizer.py::tearfree`                   → `tearfreeTx = chain3 graft momentum lr`
* `tearfree/momentum.py::apply`                       → `momentumTransforms`, `momentumTx`
    (`optax.scale`, `optax.trace(decay, nesterov)`, `optax.add_decayed_weights`)
* `optax.scale(-lr)` / `optax.scale_by_schedule`      → `lrTx`
* `tearfree/grafting.py::graft`, `_graft_with`        → `graftTx` (norm transformations `normTx`; `maybe_graft`,
                                                        `_mask_skipped`, `_rmsprop` are `Model/Graft.lean`'s)
* `tearfree/second_order.py::apply`                   → `secondOrderTx = chain3 merge precondition unmerge`
    (`reshaper.merge / unmerge` are `Model/Shapes.lean`'s `tfMerge / tfUnmerge` on `deriveShapes`)
* `tearfree/shampoo.py::_update`                      → `shampooTx`  (`_blockify/_deblockify` from `Model/Shapes.lean`,
    `_update_block_stats` → `axisCov`/`emaUpdate`, `_pth_inv_root` → `rootOfEigh`/`blockRoot`,
    `_precondition_blocks` → `applyAxis`)
* `tearfree/sketchy.py::_update`                      → `sketchyTx`  (`_update_axis` is `Model/FD.lean`'s
    `sketchyUpdateAxis`; `_precondition` → `skApplyAxis`)

One leaf of the parameter tree is modelled (leaves interact only through the step counters, which all equal the
number of updates so far). Updates and parameters are flat row-major lists. External kernels are parameters:
`eigh`, `svd`, `sqrt`, and the real powers `hp p x = x ** (-0.5/p)`, `pw n x = x ** (-1/(2 n))`.

Two facts the model carries (learnt from a probe): the second-order stage sees the MERGED and padded shape — its
exponent is `2 * (merged rank)` — while the graft's skip mask looks at the ORIGINAL shape.

State bookkeeping simplifications (values are unaffected; the state LAYOUT is C07's subject): for
`GraftingType.NONE` the Python state is the direction state alone (here the `GState` wrapper stays, its `count`
and `norm` untouched); a masked leaf has no direction state in Python (here it has one that is never read or
written); constant learning rates have an empty state (here a counter that stays 0). A `sharded_chain` whose state
tuple has the wrong length raises in Python; `chainL` stops at the shorter list (unreachable from `init`).
-/
import PrecondVerif.Model.Shapes
import PrecondVerif.Model.Graft
import PrecondVerif.Model.FD

namespace PrecondVerif.Tearfree
open PrecondVerif.Shapes

/-! ## 1. Gradient transformations and `sharded_chain` -/

/-- a gradient transformation seen from one leaf: `update : updates → state → params → updates × state` -/
structure Tx (S U P : Type) where
  init : P → S
  update : U → S → P → U × S

section Chain
variable {S S₁ S₂ S₃ U P : Type}

/-- `sharded_chain(a, b)`: the state is the tuple of the stages' states; every stage receives the updates produced by
the previous one, its OWN state, and the (unchanged) params -/
def chain2 (a : Tx S₁ U P) (b : Tx S₂ U P) : Tx (S₁ × S₂) U P where
  init := fun p => (a.init p, b.init p)
  update := fun u s p =>
    let r₁ := a.update u s.1 p
    let r₂ := b.update r₁.1 s.2 p
    (r₂.1, (r₁.2, r₂.2))

/-- `sharded_chain(a, b, c)` (state `(s_a, s_b, s_c)`) -/
def chain3 (a : Tx S₁ U P) (b : Tx S₂ U P) (c : Tx S₃ U P) : Tx (S₁ × S₂ × S₃) U P :=
  chain2 a (chain2 b c)

/-- the loop `for s, fn in zip(state, args)` of `sharded_chain.update_fn` -/
def chainLGo : List (Tx S U P) → U → List S → P → U × List S
  | f :: fs, u, s :: ss, p =>
    let r := f.update u s p
    let r' := chainLGo fs r.1 ss p
    (r'.1, r.2 :: r'.2)
  | _, u, _, _ => (u, [])

/-- `sharded_chain(*transforms)` for a list of transformations built at run time -/
def chainL (l : List (Tx S U P)) : Tx (List S) U P where
  init := fun p => l.map fun f => f.init p
  update := chainLGo l

end Chain

/-! ## 2. First-order stages on flat vectors -/
section FirstOrder
variable {α : Type} [Zero α] [One α] [Add α] [Sub α] [Mul α] [Neg α] [LT α] [DecidableLT α] [BEq α]

/-- an elementary optax transformation; the state is the trace vector, or `[]` for a stateless one -/
abbrev FTx (α : Type) := Tx (List α) (List α) (List α)

/-- `optax.scale(c)`: `c * g` -/
def scaleTx (c : α) : FTx α := ⟨fun _ => [], fun u s _ => (u.map fun g => c * g, s)⟩

/-- optax `trace`: `f = lambda g, t: g + decay * t` -/
def traceF (decay g t : α) : α := g + decay * t

/-- `optax.trace(decay, nesterov)` -/
def traceTx (decay : α) (nesterov : Bool) : FTx α where
  init := fun p => p.map fun _ => 0
  update := fun u tr _ =>
    let nt := List.zipWith (traceF decay) u tr
    (if nesterov then List.zipWith (traceF decay) u nt else nt, nt)

/-- `optax.add_decayed_weights(wd)`: `g + wd * p` -/
def addDecayedWeightsTx (wd : α) : FTx α :=
  ⟨fun _ => [], fun u s p => (List.zipWith (fun g x => g + wd * x) u p, s)⟩

/-- `momentum.Options` -/
structure MomOpts (α : Type) where
  ema : Bool
  nesterov : Bool
  decay : α
  wd : α
  after : Bool

/-- the list `momentum.apply` hands to `sharded_chain` -/
def momentumTransforms (o : MomOpts α) : List (FTx α) :=
  let mom := if o.decay == 0 then [] else
    (if o.ema then [scaleTx (1 - o.decay)] else []) ++ [traceTx o.decay o.nesterov]
  let wdt := if 0 < o.wd then [addDecayedWeightsTx o.wd] else []
  if o.after then mom ++ wdt else wdt ++ mom

/-- `momentum.apply(options)` -/
def momentumTx (o : MomOpts α) : Tx (List (List α)) (List α) (List α) := chainL (momentumTransforms o)

/-- learning rate: a number or an optax schedule -/
inductive LR (α : Type) where
  | const (v : α)
  | sched (f : Nat → α)

/-- value used at the `n`-th update -/
def LR.at : LR α → Nat → α
  | .const v, _ => v
  | .sched f, n => f n

/-- `optax.scale(-1.0 * lr)` resp. `optax.scale_by_schedule(lambda x: -1.0 * lr(x))` -/
def lrTx : LR α → Tx Nat (List α) (List α)
  | .const v => ⟨fun _ => 0, fun u n _ => (u.map fun g => (-1 * v) * g, n)⟩
  | .sched f => ⟨fun _ => 0, fun u n _ => (u.map fun g => (-1 * f n) * g, n + 1)⟩

/-! ### grafting -/

inductive GType where
  /-- `GraftingType.NONE`: `graft` returns the direction transformation itself -/
  | none
  | sgd
  | rmsprop
  /-- a norm transformation without a closed form here (`ADAFACTOR`, optax's): its steps are supplied from outside -/
  | opaque
  deriving DecidableEq, Repr, Inhabited

structure GraftOpts (α : Type) where
  type : GType
  decay : α
  eps : α
  start : Nat
  rank1 : Bool
  anyDimGt : Nat

/-- `GraftingState` -/
structure GState (DS NS : Type) where
  count : Nat
  direction : DS
  norm : NS

variable [Div α]

/-- the norm ("graft") transformations: `_sgd()` = `optax.identity()`, `_rmsprop(options)`, or an external table
of steps indexed by the transformation's own update count -/
def normTx (sqrt : α → α) (o : GraftOpts α) (ext : Nat → List α) : Tx (Nat × List α) (List α) (List α) where
  init := fun p => (0, p.map fun _ => 0)
  update := fun u s _ =>
    match o.type with
    | .rmsprop =>
      let r := Graft.tfRmspropStep sqrt o.decay o.eps s.2 u
      (r.1, (s.1, r.2))
    | .opaque => (ext s.1, (s.1 + 1, s.2))
    | _ => (u, s)

/-- `grafting.graft(options, direction)` for a leaf of ORIGINAL shape `shape` -/
def graftTx {DS NS : Type} (sqrt : α → α) (o : GraftOpts α) (shape : List Nat)
    (direction : Tx DS (List α) (List α)) (norm : Tx NS (List α) (List α)) :
    Tx (GState DS NS) (List α) (List α) where
  init := fun p => ⟨0, direction.init p, norm.init p⟩
  update := fun u s p =>
    if o.type = .none then
      let r := direction.update u s.direction p
      (r.1, { s with direction := r.2 })
    else
      let masked := Graft.tfMaskSkipped o.rank1 o.anyDimGt shape
      -- `direction.update(mask(updates), state.direction, mask(params))`: masked leaves never reach it
      let rb := if masked then (u, s.direction) else direction.update u s.direction p
      let rg := norm.update u s.norm p
      (Graft.tfMaybeGraft sqrt s.count o.start masked rg.1 rb.1, ⟨s.count + 1, rb.2, rg.2⟩)

/-- `tearfree(learning_rate, options)`: `sharded_chain(graft_tx, momentum_tx, lr_tx)` -/
def tearfreeTx {GS : Type} (graft : Tx GS (List α) (List α)) (mom : MomOpts α) (lr : LR α) :
    Tx (GS × List (List α) × Nat) (List α) (List α) :=
  chain3 graft (momentumTx mom) (lrTx lr)

/-- fold an update function over a history of `(gradient, params)` pairs, collecting the updates -/
def runTx {S U P : Type} (tx : Tx S U P) : S → List (U × P) → List U × S
  | s, [] => ([], s)
  | s, (u, p) :: rest =>
    let r := tx.update u s p
    let r' := runTx tx r.2 rest
    (r.1 :: r'.1, r'.2)

/-! ### the documented composition (specification) -/

/-- momentum as documented in `momentum.Options`: optional ema pre-scale `(1 - decay) * u`, velocity
`v' = s + decay * v`, output `v'` or (Nesterov) `s + decay * v'`; nothing when `decay = 0` -/
def specMomentum (o : MomOpts α) (u tr : List α) : List α × List α :=
  if o.decay == 0 then (u, tr) else
    let s := if o.ema then u.map fun g => (1 - o.decay) * g else u
    let v := List.zipWith (fun g t => g + o.decay * t) s tr
    (if o.nesterov then List.zipWith (fun g t => g + o.decay * t) s v else v, v)

/-- `u + wd * x` when `wd > 0` -/
def specDecay (wd : α) (u x : List α) : List α :=
  if 0 < wd then List.zipWith (fun g p => g + wd * p) u x else u

/-- weight decay on the configured side of momentum; returns (update, new velocity) -/
def specMomentumStage (o : MomOpts α) (u tr x : List α) : List α × List α :=
  if o.after then
    let r := specMomentum o u tr
    (specDecay o.wd r.1 x, r.2)
  else specMomentum o (specDecay o.wd u x) tr

/-- `-lr(t) * u` -/
def specLr (lr : LR α) (n : Nat) (u : List α) : List α := u.map fun g => (-1 * lr.at n) * g

/-- where the velocity sits in the momentum chain's state tuple, and the tuple built around a velocity -/
def momState (o : MomOpts α) (tr : List α) : List (List α) :=
  let mom := if o.decay == 0 then [] else (if o.ema then [[]] else []) ++ [tr]
  let wdt := if 0 < o.wd then [[]] else []
  if o.after then mom ++ wdt else wdt ++ mom

end FirstOrder

/-! ## 3. The second-order stage -/
section SecondOrder
variable {α : Type} [Zero α] [One α] [Add α] [Sub α] [Mul α] [LT α] [DecidableLT α] [BEq α] [Max α]

/-- tabulate `f 0 … f (n-1)` into DATA (computed once) -/
def tab (n : Nat) (f : Nat → α) : Array α := Array.ofFn (n := n) fun i => f i.val

/-- read flat data, zero outside -/
def rd (a : Array α) (k : Nat) : α := a.getD k 0

/-- flat row-major data as a tensor -/
def ofFlat (shape : List Nat) (a : Array α) : Tensor α := ⟨shape, fun idx => rd a (ravel shape idx)⟩

def ofFlatL (shape : List Nat) (l : List α) : Tensor α := ofFlat shape l.toArray

/-- `Σ_{i<n} f i` -/
def sumRange (n : Nat) (f : Nat → α) : α := ((List.range n).map f).sum

/-- `reshaper.merge(options)` on a leaf with derived shapes `s` -/
def mergeTx {P : Type} (s : TFShapes) (blockSize : Nat) : Tx Unit (List α) P :=
  ⟨fun _ => (), fun u st _ => ((tfMerge 0 s blockSize (ofFlatL s.original u)).flat, st)⟩

/-- `reshaper.unmerge(options)` -/
def unmergeTx {P : Type} (s : TFShapes) (blockSize : Nat) : Tx Unit (List α) P :=
  ⟨fun _ => (), fun u st _ => ((tfUnmerge s blockSize (ofFlatL s.padded u)).flat, st)⟩

/-- `second_order.apply(options)`: `sharded_chain(merge, precondition, unmerge)`; the preconditioner is built for
(and initialised on) the PADDED MERGED shape; `blockSize` is Shampoo's block size, 0 for Sketchy -/
def secondOrderTx {PS P : Type} (mergeDims blockSize : Nat) (shape : List Nat)
    (precond : List Nat → Tx PS (List α) P) : Tx (Unit × PS × Unit) (List α) P :=
  let s := deriveShapes mergeDims blockSize shape
  chain3 (mergeTx s blockSize) (precond s.padded) (unmergeTx s blockSize)

/-! ### views of one axis of a row-major block: index `(o, i, r) ↦ (o * d + i) * inner + r` -/

structure AxView where
  outer : Nat
  d : Nat
  inner : Nat
  deriving Repr

def axView (dims : List Nat) (a : Nat) : AxView :=
  ⟨prod (dims.take a), dims.getD a 0, prod (dims.drop (a + 1))⟩

def axViews (dims : List Nat) : List AxView := (List.range dims.length).map (axView dims)

/-! ### Shampoo -/

/-- `tensordot(x, x, axes=(all but axis, all but axis))`: `C[i][j] = Σ_{o,r} x[o,i,r] x[o,j,r]` (row-major `d × d`) -/
def axisCov (v : AxView) (x : Array α) : Array α :=
  tab (v.d * v.d) fun ij =>
    let i := ij / v.d
    let j := ij % v.d
    sumRange v.outer fun o => sumRange v.inner fun r =>
      rd x ((o * v.d + i) * v.inner + r) * rd x ((o * v.d + j) * v.inner + r)

/-- `_ema_update`: `old + new` if `decay == 1.0` else `old * decay + new * (1 - decay)` -/
def emaScalar (decay old new : α) : α := if decay == 1 then old + new else old * decay + new * (1 - decay)

def emaUpdate (decay : α) (old new : Array α) : Array α :=
  tab old.size fun k => emaScalar decay (rd old k) (rd new k)

/-- one factor of the einsum of `_precondition_blocks`: `y[o,i,r] = Σ_c R[i][c] x[o,c,r]` -/
def applyAxis (v : AxView) (R x : Array α) : Array α :=
  tab (v.outer * v.d * v.inner) fun k =>
    let r := k % v.inner
    let i := (k / v.inner) % v.d
    let o := k / v.inner / v.d
    sumRange v.d fun c => rd R (i * v.d + c) * rd x ((o * v.d + c) * v.inner + r)

/-- output of `jnp.linalg.eigh` on one `n × n` block: eigenvalues, eigenvectors in columns -/
structure EighOut (α : Type) (n : Nat) where
  w : Fin n → α
  V : Fin n → Fin n → α

/-- the external kernel `eigh` -/
abbrev EighFn (α : Type) := (n : Nat) → (Fin n → Fin n → α) → EighOut α n

def vmax : List α → α
  | [] => 0
  | x :: xs => xs.foldl max x

/-- `jnp.max(w, axis=-1)`: the largest eigenvalue OF THIS BLOCK -/
def wmax {n : Nat} (w : Fin n → α) : α := vmax ((List.finRange n).map w)

/-- complement of `mask = w <= eps * max(w)` -/
def kept {n : Nat} (cut : α) (w : Fin n → α) (a : Fin n) : Bool := decide (cut * wmax w < w a)

/-- `half = where(mask, 0, where(mask, 1, w) ** (-0.5 / p))`; `hp x = x ** (-0.5/p)` is an external kernel -/
def half {n : Nat} (hp : α → α) (cut : α) (w : Fin n → α) (a : Fin n) : α :=
  if kept cut w a then hp (w a) else 0

/-- `_pth_inv_root` after the `eigh` call: `half_v = half[None, :] * v`, `einsum("ik,jk->ij", half_v, half_v)` -/
def rootOfEigh {n : Nat} (hp : α → α) (cut : α) (e : EighOut α n) : Fin n → Fin n → α :=
  fun i j => FD.sumFin fun a => (half hp cut e.w a * e.V i a) * (half hp cut e.w a * e.V j a)

/-- the UNREPAIRED `_pth_inv_root` (before `fix:` 45ad67a): the cut was relative to the largest eigenvalue over ALL
blocks of the batch (`gmax`) -/
def rootOfEighGlobalMax {n : Nat} (hp : α → α) (cut gmax : α) (e : EighOut α n) : Fin n → Fin n → α :=
  fun i j => FD.sumFin fun a =>
    ((if cut * gmax < e.w a then hp (e.w a) else 0) * e.V i a) * ((if cut * gmax < e.w a then hp (e.w a) else 0) * e.V j a)

def matToArr {n : Nat} (M : Fin n → Fin n → α) : Array α :=
  ((List.finRange n).flatMap fun i => (List.finRange n).map fun j => M i j).toArray

def arrToMat (n : Nat) (C : Array α) : Fin n → Fin n → α := fun i j => rd C (i.val * n + j.val)

/-- `_pth_inv_root(p, cov)` for one block -/
def blockRoot (eigh : EighFn α) (hp : α → α) (cut : α) (n : Nat) (C : Array α) : Array α :=
  let e := eigh n (arrToMat n C)
  matToArr (rootOfEigh hp cut e)

/-- `_AxesBlocks` of one block -/
structure BlockSt (α : Type) where
  stats : List (Array α)
  roots : List (Array α)

/-- `_ShampooState` of one leaf -/
structure ShState (α : Type) where
  count : Nat
  blocks : List (BlockSt α)

def eyeArr (d : Nat) : Array α := tab (d * d) fun k => if k / d = k % d then 1 else 0

def zeroArr (n : Nat) : Array α := tab n fun _ => 0

/-- `_init`: statistics 0, preconditioners identity -/
def shampooInit (blockSize : Nat) (ps : List Nat) : ShState α :=
  let m := blocksMetadata blockSize ps
  ⟨0, List.replicate m.numBlocks
    ⟨m.blockSizes.map fun d => zeroArr (d * d), m.blockSizes.map fun d => eyeArr d⟩⟩

/-- `_update_block_stats` -/
def blockStatsUpdate (decay : α) (dims : List Nat) (x : Array α) (b : BlockSt α) : BlockSt α :=
  { b with stats := List.zipWith (fun v cov => emaUpdate decay cov (axisCov v x)) (axViews dims) b.stats }

/-- `_update_block_precond` -/
def blockPrecondUpdate (eigh : EighFn α) (hp : α → α) (cut : α) (dims : List Nat) (b : BlockSt α) : BlockSt α :=
  { b with roots := List.zipWith (fun d C => blockRoot eigh hp cut d C) dims b.stats }

/-- `_precondition_blocks` for one block -/
def blockApply (dims : List Nat) (x : Array α) (b : BlockSt α) : Array α :=
  ((axViews dims).zip b.roots).foldl (fun y vr => applyAxis vr.1 vr.2 y) x

/-- block `n` of a blockified tensor (blocks axis `ba`) -/
def extractBlock (B : Array α) (bshape dims : List Nat) (ba n : Nat) : Array α :=
  (Tensor.mk dims fun idx => rd B (ravel bshape (insertAt idx ba n))).flat.toArray

/-- the blockified tensor whose blocks are `ys` -/
def assembleBlocks (ys : List (Array α)) (bshape dims : List Nat) (ba : Nat) : Array α :=
  (Tensor.mk bshape fun idx => rd (ys.getD (idx.getD ba 0) #[]) (ravel dims (popAt idx ba))).flat.toArray

/-- exponent of the inverse root: `p = len(meta.param_shape) * 2` — twice the rank of the MERGED shape -/
def shampooExponent (ps : List Nat) : Nat := 2 * ps.length

/-- `shampoo.apply(options)` on a leaf of (padded, merged) shape `ps`; `hp p x = x ** (-0.5 / p)` -/
def shampooTx {P : Type} (eigh : EighFn α) (hp : Nat → α → α) (cut decay : α) (blockSize sf pf : Nat)
    (ps : List Nat) : Tx (ShState α) (List α) P where
  init := fun _ => shampooInit blockSize ps
  update := fun u st _ =>
    let m := blocksMetadata blockSize ps
    let Bt := blockify (ofFlatL ps u) m
    let B := Bt.flat.toArray
    let dims := m.blockSizes
    let xs := (List.range m.numBlocks).map fun n => extractBlock B Bt.shape dims m.blocksAxis n
    -- `lax.cond(count % update_statistics_freq == 0, stats_updated_blocks, lambda: blocks)`
    let bl₁ := if st.count % sf = 0 then List.zipWith (blockStatsUpdate decay dims) xs st.blocks else st.blocks
    -- `lax.cond(count % update_preconditioners_freq == 0, precond_updated_blocks, lambda: blocks)`
    let bl₂ := if st.count % pf = 0 then
      bl₁.map (blockPrecondUpdate eigh (hp (shampooExponent ps)) cut dims) else bl₁
    let ys := List.zipWith (blockApply dims) xs bl₂
    let Y := assembleBlocks ys Bt.shape dims m.blocksAxis
    ((deblockify (ofFlat Bt.shape Y) m).flat, ⟨st.count + 1, bl₂⟩)

/-! ### Sketchy -/

/-- `_AxisState` (non-ekfac fields) of one axis: `V : d × k` row-major -/
structure SkAx (α : Type) where
  d : Nat
  k : Nat
  V : Array α
  e : Array α
  inv : Array α
  t : α
  invT : α

structure SkState (α : Type) where
  count : Nat
  axes : List (SkAx α)

/-- `_init`: axis `a` of dimension `d` gets a sketch of rank `min d (rankOf a)`; `rankOf` is constantly `options.rank`,
or the entry of `options.memory_alloc` for this tensor and axis -/
def sketchyInit (rankOf : Nat → Nat) (ps : List Nat) : SkState α :=
  ⟨0, List.zipWith (fun a d =>
    let k := min d (rankOf a)
    (⟨d, k, zeroArr (d * k), zeroArr k, zeroArr k, 0, 0⟩ : SkAx α)) (List.range ps.length) ps⟩

/-- the external kernel `svd` (left singular vectors and singular values, see `Model/FD.lean`) -/
abbrev SvdFn (α : Type) := (d n : Nat) → FD.Mat α d n → FD.SvdOut α d

/-- `_update_axis` on the view `v` of the gradient `x`: `g_dm = update.transpose([dim] + others).reshape(d, -1)` -/
def skUpdateAxis (svd : SvdFn α) (sqrt pw : α → α) (eps : α) (rel : Bool) (β : α) (v : AxView)
    (x : Array α) (ax : SkAx α) : SkAx α :=
  let st : FD.SkState α ax.d ax.k :=
    ⟨fun i a => rd ax.V (i.val * ax.k + a.val), fun a => rd ax.e a.val, ax.t⟩
  let m := v.outer * v.inner
  let G : FD.Mat α ax.d m := fun i c => rd x ((c.val / v.inner * v.d + i.val) * v.inner + c.val % v.inner)
  let out := FD.sketchyUpdateAxis (svd ax.d (ax.k + m)) sqrt pw eps rel β st G
  { ax with
    V := ((List.finRange ax.d).flatMap fun i => (List.finRange ax.k).map fun a => out.st.V i a).toArray
    e := ((List.finRange ax.k).map out.st.e).toArray
    inv := ((List.finRange ax.k).map out.invEig).toArray
    t := out.st.t
    invT := out.invTail }

/-- one axis of `_precondition` in place (the code rotates the tensor instead; same entries):
`y = V diag(inv) Vᵀ x + inv_tail (x − V Vᵀ x)` along the axis -/
def skApplyAxis (v : AxView) (ax : SkAx α) (x : Array α) : Array α :=
  let k := ax.k
  -- `lowrank_basis[o, r, q] = Σ_i x[o, i, r] V[i, q]`
  let basis := tab (v.outer * v.inner * k) fun t =>
    let q := t % k
    let r := (t / k) % v.inner
    let o := t / k / v.inner
    sumRange v.d fun i => rd x ((o * v.d + i) * v.inner + r) * rd ax.V (i * k + q)
  tab (v.outer * v.d * v.inner) fun idx =>
    let r := idx % v.inner
    let b := (idx / v.inner) % v.d
    let o := idx / v.inner / v.d
    let lrc := sumRange k fun q => rd basis ((o * v.inner + r) * k + q) * rd ax.V (b * k + q)
    let slc := sumRange k fun q => rd basis ((o * v.inner + r) * k + q) * rd ax.inv q * rd ax.V (b * k + q)
    slc + ax.invT * (rd x idx - lrc)

/-- `sketchy.apply(options)` on a leaf of merged shape `ps`; `pw n x = x ** (-1 / (2 n))`; `rankOf` as in `sketchyInit`
(`options.rank` or `options.memory_alloc`). `add_ggt` only stores an extra statistic and does not enter the update;
`ekfac_svd` and `linear_approx_tail` (undocumented formulas) are not modelled (defaults). -/
def sketchyTx {P : Type} (svd : SvdFn α) (sqrt : α → α) (pw : Nat → α → α) (eps : α) (rel : Bool) (β : α)
    (rankOf : Nat → Nat) (freq : Nat) (ps : List Nat) : Tx (SkState α) (List α) P where
  init := fun _ => sketchyInit rankOf ps
  update := fun u st _ =>
    let x := u.toArray
    let views := axViews ps
    let axes := if st.count % freq = 0 then
      List.zipWith (fun v ax => skUpdateAxis svd sqrt (pw ps.length) eps rel β v x ax) views st.axes
      else st.axes
    let y := (views.zip axes).foldl (fun y va => skApplyAxis va.1 va.2 y) x
    (y.toList, ⟨st.count + 1, axes⟩)

end SecondOrder

end PrecondVerif.Tearfree
