/-
Model of `precondition/tearfree/reallocation.py :: create_redist_dict` (C17).  Mathlib-free.

An *axis* is `(key, dim, score)`.  Axes are grouped by dimension (groups in order of first
occurrence, members in the given order — in Python this is the iteration order of a `set`, which
the harness reads off the real code).  Per group of dimension `d` with `n` axes and base rank `k`:

* `assert n*k >= n`; resource `R := n*k - n`;
* `sorted(..., key=score, reverse=True)` — stable, descending (`sortDesc`);
* the score still to be served at each position: suffix sums of the sorted scores built from the
  small end, `remaining = 0; for s in reversed(sorted): remaining = remaining + s` (`suffixTotals`;
  `/repo` commit b9b95e4 — before it, a total kept by running subtraction, `runningCodeTotals`);
* for each axis in sorted order with its total `T` and `a := alloc s R T` (Python:
  `rd(s * (R / T if T else 0.0)) - 1`, `rd(x) = int(x // 1) + 1`): if `a > d - 1` (outlier) rank `d`,
  `R -= d - 1`; else rank `a + 1`, `R -= a`;
* `assert rank <= d` for all; `assert Σ rank <= n*k`;
* if `Σ rank < n*k`: the leftover loop (one pass in sorted order, `break` when the leftover is used up).

The multiplication / division / floor is the parameter `alloc : α → Int → α → Int`, so that the
budget theorems hold for ANY arithmetic (IEEE double, float32, exact).  The scalar type `α` only
needs `0`, `+`, `<` (and `-` for the superseded running-subtraction variant).
-/

namespace PrecondVerif.Realloc

/-- The three `assert`s of the function. -/
inductive Err where
  | baseRank (budget size : Int)        -- assert group_resource >= group_size
  | rankExceedsDim (rank dim : Int)     -- assert realloc[key] <= dim
  | overBudget (budget allocated : Int) -- assert allocated <= group_resource
  deriving Repr, DecidableEq

section generic
variable {κ : Type} {α : Type}

/-- Insert `x` (which stood *before* all of the list in the original order) into a descending
list: it goes in front of the first element that is not strictly larger — ties keep the original
order, as Python's stable `sorted(..., reverse=True)`. -/
def insDesc [LT α] [DecidableLT α] (x : κ × α) : List (κ × α) → List (κ × α)
  | [] => [x]
  | y :: ys => if x.2 < y.2 then y :: insDesc x ys else x :: y :: ys

def sortDesc [LT α] [DecidableLT α] : List (κ × α) → List (κ × α)
  | [] => []
  | x :: xs => insDesc x (sortDesc xs)

/-- `sum(score_dict[key] for key in group)`: Python's `sum` starts from `0` and adds left to right. -/
def total [Add α] [OfNat α 0] (scores : List α) : α := scores.foldl (· + ·) 0

/-- Total score seen at each position of the sorted list, kept by running subtraction
(`total_score -= pair[1]` after each axis). -/
def runningTotals [Sub α] : α → List α → List α
  | _, [] => []
  | T, s :: ss => T :: runningTotals (T - s) ss

/-- The proportional pass over the sorted axes, each paired with the total score in force at its
position.  Returns `(key, rank)` in sorted order. -/
def pass (alloc : α → Int → α → Int) (d : Int) : Int → List ((κ × α) × α) → List (κ × Int)
  | _, [] => []
  | R, ((key, s), T) :: rest =>
    let a := alloc s R T
    if a > d - 1 then (key, d) :: pass alloc d (R - (d - 1)) rest
    else (key, a + 1) :: pass alloc d (R - a) rest

/-- The repaired leftover loop (`/repo` commit 1e4f52c): every increment that really happens is charged. -/
def leftover (d : Int) : Int → List (κ × Int) → List (κ × Int)
  | _, [] => []
  | extra, (key, r) :: rest =>
    let inc := min (r + 1) d
    let extra' := if inc > r then extra - 1 else extra
    if extra' ≤ 0 then (key, inc) :: rest else (key, inc) :: leftover d extra' rest

/-- The leftover loop as it was before the repair: the *already incremented* value was tested
(`realloc[key] + 1 < dim`), so increments reaching `dim - 1` or `dim` were free. -/
def leftoverOld (d : Int) : Int → List (κ × Int) → List (κ × Int)
  | _, [] => []
  | extra, (key, r) :: rest =>
    let r' := min (r + 1) d
    let extra' := if r' + 1 < d then extra - 1 else extra
    if extra' ≤ 0 then (key, r') :: rest else (key, r') :: leftoverOld d extra' rest

/-- One group, parametrised by the leftover loop and by how the per-position totals are obtained
from the group-order scores and the sorted scores. -/
def groupRunGen (lo : Int → Int → List (κ × Int) → List (κ × Int))
    (totals : List α → List α → List α) [LT α] [DecidableLT α]
    (alloc : α → Int → α → Int) (k : Int) (d : Nat) (group : List (κ × α)) :
    Except Err (List (κ × Int)) :=
  let n : Int := group.length
  let budget := n * k
  if budget < n then .error (.baseRank budget n) else
  let sorted := sortDesc group
  let ts := totals (group.map Prod.snd) (sorted.map Prod.snd)
  let ranks := pass alloc d (budget - n) (sorted.zip ts)
  match ranks.find? (fun p => decide (p.2 > (d : Int))) with
  | some p => .error (.rankExceedsDim p.2 d)
  | none =>
    let allocated := (ranks.map Prod.snd).sum
    if allocated > budget then .error (.overBudget budget allocated)
    else if allocated < budget then .ok (lo d (budget - allocated) ranks)
    else .ok ranks

def headD0 [OfNat α 0] : List α → α
  | [] => 0
  | t :: _ => t

/-- `remaining_scores`: `remaining = 0; for s in reversed(sorted): remaining = remaining + s; append`,
then reversed — position `i` holds `((0 + sₙ) + sₙ₋₁) + … + sᵢ`. -/
def suffixTotals [Add α] [OfNat α 0] : List α → List α
  | [] => []
  | s :: ss =>
    let rest := suffixTotals ss
    (headD0 rest + s) :: rest

/-- Totals of the current code: suffix sums of the sorted scores (the group-order scores are unused). -/
def codeTotals [Add α] [OfNat α 0] (_groupScores sortedScores : List α) : List α :=
  suffixTotals sortedScores

/-- Totals before commit b9b95e4: initial sum in group order, then running subtraction along the sorted list. -/
def runningCodeTotals [Add α] [Sub α] [OfNat α 0] (groupScores sortedScores : List α) : List α :=
  runningTotals (total groupScores) sortedScores

/-- One group of the current (repaired) code. -/
def groupRun [Add α] [OfNat α 0] [LT α] [DecidableLT α]
    (alloc : α → Int → α → Int) (k : Int) (d : Nat) (group : List (κ × α)) :=
  groupRunGen leftover codeTotals alloc k d group

/-- One group of the code before both repairs (old leftover loop, running-subtraction totals). -/
def groupRunOld [Add α] [Sub α] [OfNat α 0] [LT α] [DecidableLT α]
    (alloc : α → Int → α → Int) (k : Int) (d : Nat) (group : List (κ × α)) :=
  groupRunGen leftoverOld runningCodeTotals alloc k d group

/-- One group of the code between the repairs (repaired leftover loop, running-subtraction totals). -/
def groupRunRunning [Add α] [Sub α] [OfNat α 0] [LT α] [DecidableLT α]
    (alloc : α → Int → α → Int) (k : Int) (d : Nat) (group : List (κ × α)) :=
  groupRunGen leftover runningCodeTotals alloc k d group

/-- Distinct values in order of first occurrence (insertion order of the Python dict `group_dict`). -/
def dedupFirst : List Nat → List Nat
  | [] => []
  | x :: xs => x :: (dedupFirst xs).filter (fun y => y != x)

def dims (axes : List (κ × Nat × α)) : List Nat := dedupFirst (axes.map (·.2.1))

def groupOf (axes : List (κ × Nat × α)) (d : Nat) : List (κ × α) :=
  (axes.filter (fun a => a.2.1 == d)).map (fun a => (a.1, a.2.2))

/-- Run `f` on every dimension, stopping at the first failed `assert`. -/
def runGroups {β : Type} (f : Nat → Except Err β) : List Nat → Except Err (List (Nat × β))
  | [] => .ok []
  | d :: ds =>
    match f d with
    | .error e => .error e
    | .ok r =>
      match runGroups f ds with
      | .error e => .error e
      | .ok rs => .ok ((d, r) :: rs)

/-- `create_redist_dict`: for every dimension, the `(key, rank)` list of its group. -/
def createRedistGen (run : Int → Nat → List (κ × α) → Except Err (List (κ × Int)))
    (k : Int) (axes : List (κ × Nat × α)) : Except Err (List (Nat × List (κ × Int))) :=
  runGroups (fun d => run k d (groupOf axes d)) (dims axes)

def createRedist [Add α] [OfNat α 0] [LT α] [DecidableLT α]
    (alloc : α → Int → α → Int) (k : Int) (axes : List (κ × Nat × α)) :=
  createRedistGen (groupRun alloc) k axes

def createRedistRunning [Add α] [Sub α] [OfNat α 0] [LT α] [DecidableLT α]
    (alloc : α → Int → α → Int) (k : Int) (axes : List (κ × Nat × α)) :=
  createRedistGen (groupRunRunning alloc) k axes

def createRedistOld [Add α] [Sub α] [OfNat α 0] [LT α] [DecidableLT α]
    (alloc : α → Int → α → Int) (k : Int) (axes : List (κ × Nat × α)) :=
  createRedistGen (groupRunOld alloc) k axes

end generic

/-! ### Concrete arithmetics -/

/-- Exact arithmetic: `⌊s * (R / T)⌋`, and `⌊s * 0⌋ = 0` when `T = 0` (`… if total_score else 0.0`). -/
def allocRat (s : Rat) (R : Int) (T : Rat) : Int :=
  Rat.floor (s * (if T = 0 then 0 else (R : Rat) / T))

/-- Integer value of an integer-valued finite double (0 for ±0, subnormals, inf, nan). -/
def floatIntegerToInt (y : Float) : Int :=
  let b := y.toBits.toNat
  let neg := b >>> 63 == 1
  let e := (b >>> 52) &&& 0x7ff
  let m := b &&& 0xfffffffffffff
  if e == 0 || e == 0x7ff then 0
  else
    let mant := m + 2 ^ 52
    let mag : Nat := if e ≥ 1075 then mant <<< (e - 1075) else mant >>> (1075 - e)
    if neg then -(mag : Int) else (mag : Int)

/-- IEEE double, same operation order as Python/jnp under x64:
`unit = R / T if T else 0.0` (`bool(T)` is `T != 0`, true for NaN), `int((s * unit) // 1)`. -/
def allocFloat (s : Float) (R : Int) (T : Float) : Int :=
  let unit : Float := if T != 0.0 then Float.ofInt R / T else 0.0
  floatIntegerToInt (Float.floor (s * unit))

def float32IntegerToInt (y : Float32) : Int :=
  let b := y.toBits.toNat
  let neg := b >>> 31 == 1
  let e := (b >>> 23) &&& 0xff
  let m := b &&& 0x7fffff
  if e == 0 || e == 0xff then 0
  else
    let mant := m + 2 ^ 23
    let mag : Nat := if e ≥ 150 then mant <<< (e - 150) else mant >>> (150 - e)
    if neg then -(mag : Int) else (mag : Int)

/-- IEEE single (the default JAX configuration: scores and all scalar arithmetic are float32). -/
def allocFloat32 (s : Float32) (R : Int) (T : Float32) : Int :=
  let unit : Float32 := if T != 0.0 then Float32.ofInt R / T else 0.0
  float32IntegerToInt (Float32.floor (s * unit))

/-! ### The instances the driver executes (instances fixed here, in a Mathlib-free context) -/

def createRedistRat (k : Int) (axes : List (Nat × Nat × Rat)) := createRedist allocRat k axes
def createRedistOldRat (k : Int) (axes : List (Nat × Nat × Rat)) := createRedistOld allocRat k axes
def createRedistFloat (k : Int) (axes : List (Nat × Nat × Float)) := createRedist allocFloat k axes
def createRedistOldFloat (k : Int) (axes : List (Nat × Nat × Float)) := createRedistOld allocFloat k axes
def createRedistFloat32 (k : Int) (axes : List (Nat × Nat × Float32)) := createRedist allocFloat32 k axes
def createRedistOldFloat32 (k : Int) (axes : List (Nat × Nat × Float32)) := createRedistOld allocFloat32 k axes
def createRedistRunningRat (k : Int) (axes : List (Nat × Nat × Rat)) := createRedistRunning allocRat k axes
def createRedistRunningFloat (k : Int) (axes : List (Nat × Nat × Float)) := createRedistRunning allocFloat k axes
def createRedistRunningFloat32 (k : Int) (axes : List (Nat × Nat × Float32)) := createRedistRunning allocFloat32 k axes

end PrecondVerif.Realloc
