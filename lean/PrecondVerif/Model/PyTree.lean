/-
Pytree / state-dict model for property C14 (training resumes bit-identically from serialized
optimizer state) — Mathlib-free, executed by `drv_c14`.

What is modelled (`flax.serialization`, `flax.struct`, as used by the optimizer states of this
repository):

* `PyTree α σ` — a Python object as flax sees it.  `leaf a` is anything whose type is not in
  flax's `_STATE_DICT_REGISTRY` (arrays, numpy / Python scalars); `none` is Python `None`
  (also unregistered, serialized as msgpack nil); `node kind children` is a registered container:
    - `Kind.list`, `Kind.tuple`        Python list / plain tuple; child keys are `str(i)`
      (`PyTree.list` / `PyTree.tuple` build them; `wf` does not re-check it, see `listKeys`),
    - `Kind.dict`                      Python dict, child keys `str(key)` in insertion order,
    - `Kind.namedtuple name`           NamedTuple (ShampooState, ParameterStats, SM3State, optax states,
      the empty `optax.MaskedNode` / `EmptyState`), child keys = `_fields`,
    - `Kind.dataclass name static`     `flax.struct.dataclass`: `children` are the fields with
      `pytree_node=True`, `static` the `pytree_node=False` fields (QuantizedValue.quantized_dtype /
      extract_diagonal / shape, LocalShardedParameterStats.index_start / sizes) with values in `σ`.
* `StateDict α` — what `to_state_dict` returns and msgpack carries: leaves, nil, string-keyed dicts.
* `toStateDict`      = `flax.serialization.to_state_dict`: every registered container becomes the dict
  of its children; **static fields are not written**.
* `fromStateDict t sd` = `flax.serialization.from_state_dict(t, sd)`: an unregistered target returns the
  state *as is* (`StateDict.asTree`); a container target checks the keys the way the corresponding
  flax restore function does (`checkKeys` / `checkUnknown`), restores every child by looking its key
  up in the state dict, and rebuilds the node **with the kind and static fields of the template**.
  Not modelled: the legacy `{name, fields, values}` NamedTuple format (the harness checks that no
  NamedTuple of a state has exactly these field names), `jax.tree_util.Partial`, msgpack chunking.
* `run step s gs` — a training loop of a pure step function, outputs included; `resume` — the same loop
  interrupted after `k` steps, state written with `toStateDict`, restored into a template, continued.
-/

namespace PrecondVerif.Ser

/-- Kind of a registered container node. -/
inductive Kind (σ : Type) where
  | list
  | tuple
  | dict
  | namedtuple (name : String)
  | dataclass (name : String) (static : List (String × σ))
  deriving DecidableEq, Repr

inductive PyTree (α σ : Type) where
  | leaf (a : α)
  | none
  | node (kind : Kind σ) (children : List (String × PyTree α σ))

inductive StateDict (α : Type) where
  | leaf (a : α)
  | nil
  | dict (kvs : List (String × StateDict α))

inductive Err where
  | notADict                       -- container target, non-dict state (Python: TypeError / AttributeError)
  | sizeMismatch (want got : Nat)  -- list / tuple: `len(state_dict) != len(xs)`
  | missingKey (k : String)        -- dict / dataclass / list index key absent
  | unknownKey (k : String)        -- dataclass: field in the state dict that the class does not have
  | fieldMismatch                  -- namedtuple: key sets differ
  deriving DecidableEq, Repr

variable {α β σ : Type}

/-! ### state dict -/

mutual
/-- `flax.serialization.to_state_dict` -/
def toStateDict : PyTree α σ → StateDict α
  | .leaf a => .leaf a
  | .none => .nil
  | .node _ cs => .dict (toStateDicts cs)
def toStateDicts : List (String × PyTree α σ) → List (String × StateDict α)
  | [] => []
  | (k, t) :: rest => (k, toStateDict t) :: toStateDicts rest
end

mutual
/-- A state returned "as is" for an unregistered target (a dict stays a Python dict). -/
def StateDict.asTree : StateDict α → PyTree α σ
  | .leaf a => .leaf a
  | .nil => .none
  | .dict kvs => .node .dict (StateDict.asTrees kvs)
def StateDict.asTrees : List (String × StateDict α) → List (String × PyTree α σ)
  | [] => []
  | (k, s) :: rest => (k, StateDict.asTree s) :: StateDict.asTrees rest
end

/-- every element of `a` occurs in `b` -/
def subKeys (a b : List String) : Bool := a.all fun k => b.contains k

/-- first element of `a` that does not occur in `b` -/
def firstNotIn (a b : List String) : Option String := a.find? fun k => !b.contains k

/-- Key checks performed *before* the children are restored
(`_restore_list`, `_restore_dict`, `_restore_namedtuple`; the dataclass restore checks while it goes). -/
def checkKeys (kind : Kind σ) (tkeys skeys : List String) : Except Err Unit :=
  match kind with
  | .list | .tuple => if skeys.length = tkeys.length then .ok () else .error (.sizeMismatch tkeys.length skeys.length)
  | .dict => match firstNotIn tkeys skeys with
    | some k => .error (.missingKey k)
    | Option.none => .ok ()
  | .namedtuple _ => if subKeys tkeys skeys && subKeys skeys tkeys then .ok () else .error .fieldMismatch
  | .dataclass _ _ => .ok ()

/-- Key check performed *after* the children are restored (dataclass: "Unknown field(s)"). -/
def checkUnknown (kind : Kind σ) (tkeys skeys : List String) : Except Err Unit :=
  match kind with
  | .dataclass _ _ => match firstNotIn skeys tkeys with
    | some k => .error (.unknownKey k)
    | Option.none => .ok ()
  | _ => .ok ()

mutual
/-- `flax.serialization.from_state_dict(template, state)` -/
def fromStateDict : PyTree α σ → StateDict α → Except Err (PyTree α σ)
  | .leaf _, sd => .ok sd.asTree
  | .none, sd => .ok sd.asTree
  | .node kind cs, .dict kvs => do
      checkKeys kind (cs.map Prod.fst) (kvs.map Prod.fst)
      let cs' ← restoreChildren cs kvs
      checkUnknown kind (cs.map Prod.fst) (kvs.map Prod.fst)
      pure (.node kind cs')
  | .node _ _, .leaf _ => .error .notADict
  | .node _ _, .nil => .error .notADict
/-- children of the template restored one by one, each from the entry of the state dict with its key -/
def restoreChildren : List (String × PyTree α σ) → List (String × StateDict α) →
    Except Err (List (String × PyTree α σ))
  | [], _ => .ok []
  | (k, t) :: rest, kvs =>
    match kvs.lookup k with
    | Option.none => .error (.missingKey k)
    | some sd => do
        let t' ← fromStateDict t sd
        let rest' ← restoreChildren rest kvs
        pure ((k, t') :: rest')
end

/-! ### shape of a tree: everything except the leaf values -/

mutual
/-- the tree with every leaf value erased: kinds, class names, keys, *static field values* -/
def skeleton : PyTree α σ → PyTree Unit σ
  | .leaf _ => .leaf ()
  | .none => .none
  | .node k cs => .node k (skeletons cs)
def skeletons : List (String × PyTree α σ) → List (String × PyTree Unit σ)
  | [] => []
  | (k, t) :: rest => (k, skeleton t) :: skeletons rest
end

/-- `t` and `s` differ at most in leaf values (same kinds, keys and static fields) -/
def sameStatic (t s : PyTree α σ) : Prop := skeleton t = skeleton s

/-- erase the static field values too (keys and kinds only) -/
def Kind.eraseStatic : Kind σ → Kind Unit
  | .list => .list
  | .tuple => .tuple
  | .dict => .dict
  | .namedtuple n => .namedtuple n
  | .dataclass n st => .dataclass n (st.map fun p => (p.1, ()))

mutual
def keyShape : PyTree α σ → PyTree Unit Unit
  | .leaf _ => .leaf ()
  | .none => .none
  | .node k cs => .node k.eraseStatic (keyShapes cs)
def keyShapes : List (String × PyTree α σ) → List (String × PyTree Unit Unit)
  | [] => []
  | (k, t) :: rest => (k, keyShape t) :: keyShapes rest
end

mutual
/-- `s` with kinds / static fields replaced by those of `t` wherever both are nodes (what a restore of
`s`'s state dict into the template `t` yields when the two have the same keys). -/
def withStaticOf : PyTree α σ → PyTree α σ → PyTree α σ
  | .node k cs, .node _ ds => .node k (withStaticOfs cs ds)
  | _, s => s
def withStaticOfs : List (String × PyTree α σ) → List (String × PyTree α σ) → List (String × PyTree α σ)
  | (_, t) :: rest, (k, s) :: srest => (k, withStaticOf t s) :: withStaticOfs rest srest
  | _, ss => ss
end

/-- no duplicate among the keys (a Python dict / a class cannot have any) -/
def nodupKeys : List String → Bool
  | [] => true
  | k :: rest => !rest.contains k && nodupKeys rest

mutual
/-- well-formed: child keys of every node are pairwise distinct -/
def wf : PyTree α σ → Bool
  | .leaf _ => true
  | .none => true
  | .node _ cs => nodupKeys (cs.map Prod.fst) && wfs cs
def wfs : List (String × PyTree α σ) → Bool
  | [] => true
  | (_, t) :: rest => wf t && wfs rest
end

/-! ### smart constructors and traversals -/

/-- keys `str(0), str(1), …` that flax gives the elements of a list / tuple -/
def listKeys (n : Nat) : List String := (List.range n).map fun i => toString i

def PyTree.list (xs : List (PyTree α σ)) : PyTree α σ := .node .list ((listKeys xs.length).zip xs)
def PyTree.tuple (xs : List (PyTree α σ)) : PyTree α σ := .node .tuple ((listKeys xs.length).zip xs)

mutual
/-- leaves in field order -/
def leaves : PyTree α σ → List α
  | .leaf a => [a]
  | .none => []
  | .node _ cs => leavesL cs
def leavesL : List (String × PyTree α σ) → List α
  | [] => []
  | (_, t) :: rest => leaves t ++ leavesL rest
end

mutual
/-- apply `f` to every leaf (what `jax.tree.map` does; static fields untouched) -/
def mapLeaves (f : α → β) : PyTree α σ → PyTree β σ
  | .leaf a => .leaf (f a)
  | .none => .none
  | .node k cs => .node k (mapLeavesL f cs)
def mapLeavesL (f : α → β) : List (String × PyTree α σ) → List (String × PyTree β σ)
  | [] => []
  | (k, t) :: rest => (k, mapLeaves f t) :: mapLeavesL f rest
end

mutual
/-- `/`-joined key paths of the state dict with the leaf found there (`none` for nil) -/
def StateDict.paths (pre : String) : StateDict α → List (String × Option α)
  | .leaf a => [(pre, some a)]
  | .nil => [(pre, Option.none)]
  | .dict kvs => StateDict.pathsL pre kvs
def StateDict.pathsL (pre : String) : List (String × StateDict α) → List (String × Option α)
  | [] => []
  | (k, s) :: rest => StateDict.paths (pre ++ "/" ++ k) s ++ StateDict.pathsL pre rest
end

/-! ### training loops -/

/-- `T` steps of a pure step function `step : state → gradient → update × state`; all updates returned. -/
def run {S G U : Type} (step : S → G → U × S) : S → List G → List U × S
  | s, [] => ([], s)
  | s, g :: gs =>
    let r := step s g
    let rr := run step r.2 gs
    (r.1 :: rr.1, rr.2)

/-- The interrupted loop: `k` steps, state serialized to a state dict, restored into `tmpl`
(the `init` of a freshly constructed optimizer), remaining steps. -/
def resume {G U : Type} (step : PyTree α σ → G → U × PyTree α σ) (tmpl s0 : PyTree α σ)
    (gs : List G) (k : Nat) : Except Err (List U × PyTree α σ) :=
  let a := run step s0 (gs.take k)
  match fromStateDict tmpl (toStateDict a.2) with
  | .error e => .error e
  | .ok r =>
    let b := run step r (gs.drop k)
    .ok (a.1 ++ b.1, b.2)

/-- A loop that checkpoints through the state dict after *every* step. -/
def runCheckpointed {G U : Type} (step : PyTree α σ → G → U × PyTree α σ) (tmpl : PyTree α σ) :
    PyTree α σ → List G → Except Err (List U × PyTree α σ)
  | s, [] => .ok ([], s)
  | s, g :: gs =>
    let r := step s g
    match fromStateDict tmpl (toStateDict r.2) with
    | .error e => .error e
    | .ok s' =>
      match runCheckpointed step tmpl s' gs with
      | .error e => .error e
      | .ok rr => .ok (r.1 :: rr.1, rr.2)

/-- Restart with hidden (Python-side, unserialized) state `h`: the resumed process starts from `h0` again. -/
def resumeHidden {H G U : Type} (step : H × PyTree α σ → G → U × (H × PyTree α σ)) (h0 : H)
    (tmpl s0 : PyTree α σ) (gs : List G) (k : Nat) : Except Err (List U × PyTree α σ) :=
  let a := run step (h0, s0) (gs.take k)
  match fromStateDict tmpl (toStateDict a.2.2) with
  | .error e => .error e
  | .ok r =>
    let b := run step (h0, r) (gs.drop k)
    .ok (a.1 ++ b.1, b.2.2)

/-- The toy step the driver runs on integer-leaved trees: every leaf `a ↦ 3a + g`; the update is
the sum of the new leaves. Only leaf values change. -/
def toyStep (s : PyTree Int σ) (g : Int) : Int × PyTree Int σ :=
  let s' := mapLeaves (fun a => 3 * a + g) s
  ((leaves s').foldl (· + ·) 0, s')

end PrecondVerif.Ser
