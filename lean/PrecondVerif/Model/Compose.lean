/-
Glue between the per-property models, Mathlib-free (everything here is executable; `Props/Compose.lean` proves the
cross-property theorems).  Nothing is re-modelled: every definition below only *instantiates* parameters that the
per-property models leave open.

  * `gateKernels`      — C04's kernel record (`Schedule.DSKernels`) whose gate IS C03's `Gate.skip` on the reported
                         error (`bad e = skip e thr`, `failMetrics = thr`: the `error = inverse_failure_threshold`
                         initial carry of `efficient_cond`), with an arbitrary statistics update and root routine.
  * `NewtonCfg`, `newtonOut`, `newtonSlotRoot`
                       — C01's `InvRoot.newtonRoot` as that root routine (the stored previous preconditioner and the fault
                         environment are ignored: no warm start), its error reported to the gate through `rep : α → XF`
                         (`XF.fin` at `Rat`, `XF.ofFloat` at `Float`).
  * `toMx` / `ofMx`    — adapters between C01's matrices `Mat α n n = Fin n → Fin n → α` and C02's `Mx α = Nat → Nat → α`
                         (zero outside `[0,n)²`).
  * `slotStatsUpd`, `slotKernels`, `ParamState`, `lowParamStep` / `specParamStep`
                       — one parameter of Distributed Shampoo: its statistics/preconditioner slots (`b·k + j`) are C04 slot
                         automata all stepped by the same `update` call, slot `i` accumulating C02's `statStep` of block `i / k`
                         along the `i % k`-th preconditioned axis and refreshing through gate ∘ Newton; the update half is
                         C02's `lowUpdate` (resp. `specUpdate`) on the preconditioners stored before / after the step.
  * `distributedTreeRoots`, `shardedTreeRoots`
                       — C08's tree-wide padded batch (`max_size`, `regroup`) computed through C13's `pmapCompute` on `D`
                         devices (resp. the pjit `shardedViews`).
  * `refreshGrads`, `sketchyKernels`
                       — C04's Sketchy automaton (`Schedule.sketchyStep`, one `lax.cond`) with C09's `_update_axis`
                         (`FD.sketchyUpdateAxis`) as its update kernel; the gradients a cadence lets through.
  * `ofA2` / `paddedRootC01`
                       — C01's Newton routine applied to a padded tabulated statistic of C08 (`padSq`, `padding_start = size`,
                         cut `[:size,:size]`).
-/
import PrecondVerif.Model.InvRoot
import PrecondVerif.Model.Gate
import PrecondVerif.Model.Schedule
import PrecondVerif.Model.DShampoo
import PrecondVerif.Model.BlockDiag
import PrecondVerif.Model.Devices
import PrecondVerif.Model.FD
import PrecondVerif.Model.Tearfree

namespace PrecondVerif.Compose
open PrecondVerif.InvRoot PrecondVerif.Gate PrecondVerif.Schedule PrecondVerif.DShampoo

/-! ### C04's automaton with C03's gate -/

section Slot
variable {σ π γ φ δ m α : Type}

/-- `Schedule.DSKernels` with the acceptance gate of `Model/Gate.lean`: the metrics are the reported error. -/
def gateKernels (thr : XF) (statsUpd : σ → γ → σ) (root : σ → π → φ → π × XF) (junk : σ → π)
    (graftUpd : δ → γ → Nat → δ × α × α) (shampooUpd : m → π → γ → Nat → m × α × α) (finish : α → α → Nat → α) :
    DSKernels σ π XF γ φ δ m α where
  statsUpd := statsUpd
  rootAll := root
  junk := junk
  failMetrics := thr
  bad := fun e => skip e thr
  graftUpd := graftUpd
  shampooUpd := shampooUpd
  finish := finish

/-- the (stored preconditioner, stored error) pair of an automaton state, as a slot of `Model/Gate.lean` -/
def slotOf (s : DSState σ π XF δ m) : Slot π := ⟨s.precond, s.metrics⟩

/-- what C03's slot machine is fed at a step: the root result for the statistics after this step's statistics update,
computed with the stored preconditioner at hand, and the statistics slice as the `efficient_cond` carry -/
def slotInput (root : σ → π → φ → π × XF) (junk : σ → π) (stats' : σ) (f : φ) (prev : π) : Inp π :=
  ⟨(root stats' prev f).1, (root stats' prev f).2, junk stats'⟩

/-- the inputs C03's slot machine receives along a history of C04's automaton -/
def slotInputs [Add α] [Mul α] [Sub α] [OfNat α 0] [OfNat α 1] (K : DSKernels σ π XF γ φ δ m α) (cfg : DSCfg) (root : σ → π → φ → π × XF) (junk : σ → π) :
    DSState σ π XF δ m → List (DSInp γ φ) → List (Inp π)
  | _, [] => []
  | s, i :: is =>
    slotInput root junk (dsStats' K cfg s i.grad) i.fault s.precond :: slotInputs K cfg root junk (dsStep K cfg s i).1 is

end Slot

/-! ### C01's Newton routine as the root routine -/

/-- the arguments `matrix_inverse_pth_root` receives besides the statistic -/
structure NewtonCfg (α : Type) where
  c : NConsts α
  /-- exponent -/
  p : Nat
  /-- `p` as a scalar, `alpha = -1/p` -/
  pα : α
  alpha : α
  sqrt : α → α
  rootp : α → α
  cast32 : α → α
  thousand : α
  /-- `_EPSILON`, the floor of `max_ev` -/
  epsFloor : α
  /-- `ridge_epsilon` -/
  eps : α
  /-- `max_ev`: the power-iteration estimate on the masked statistic (relative ridge) or `1` (absolute ridge) -/
  maxEvOf : (n : Nat) → Nat → Mat α n n → α

section Newton
variable {α : Type} [Add α] [Sub α] [Mul α] [Div α] [Neg α] [Zero α] [One α] [OfNat α 2] [OfNat α 10] [LT α]
  [DecidableLT α]

/-- `matrix_inverse_pth_root(A, p, …, padding_start = s)` of C01 with the optimizer's constants -/
def newtonOut (N : NewtonCfg α) {n : Nat} (s : Nat) (A : Mat α n n) : RootOut α n :=
  newtonRoot s N.c N.p N.pα N.alpha N.sqrt N.rootp N.cast32 N.thousand N.epsFloor N.eps (N.maxEvOf n s A) A

/-- the ridge of try `i`: `ridge_epsilon · max(max_ev, _EPSILON) · 10^i` -/
def newtonRidge (N : NewtonCfg α) {n : Nat} (s : Nat) (A : Mat α n n) : α :=
  ridgeOf N.eps (N.maxEvOf n s A) N.epsFloor

/-- the root routine of one slot: (candidate, error as the gate sees it) -/
def newtonSlotRoot (N : NewtonCfg α) (rep : α → XF) {n : Nat} (s : Nat) (A : Mat α n n) (_prev : Mat α n n)
    (_fault : Unit) : Mat α n n × XF :=
  ((newtonOut N s A).x, rep (newtonOut N s A).err)

/-- the `matrix_size == 1` branch of `matrix_inverse_pth_root` (C01's `oneByOne`) as the root routine of a slot whose
statistic is the scalar `a`: ridge `ridge_epsilon · max(max_ev, _EPSILON)`, `max_ev` of the `1 × 1` matrix `(a)` -/
def scalarSlotRoot (N : NewtonCfg α) (rep : α → XF) (invroot : α → α) (a : α) (_prev : α) (_fault : Unit) : α × XF :=
  let r := oneByOne N.p invroot N.cast32 a (ridgeOf N.eps (N.maxEvOf 1 1 fun _ _ => a) N.epsFloor)
  (r.1, rep r.2)

/-- `matrix_inverse_pth_root_eigh` (C01's `eighRoot`) as the root routine of a slot: the eigen-solver `kernel` is an
external routine handed the regularised statistic, `ridgeFn` the ridge (`ridge_epsilon · max(max_ev, error_tolerance)`) -/
def eighSlotRoot [BEq α] (kernel : (n : Nat) → Mat α n n → Mat α n n × Vec α n) (ridgeFn : (n : Nat) → Mat α n n → α)
    (sqrt invroot : α → α) (rep : α → XF) {n : Nat} (s : Nat) (A : Mat α n n) (_prev : Mat α n n) (_fault : Unit) :
    Mat α n n × XF :=
  let ue := kernel n (regularized s A (ridgeFn n A))
  let r := eighRoot s sqrt invroot (ridgeFn n A) A ue.1 ue.2
  (r.1, rep r.2)

end Newton

/-! ### adapters `Mat α n n` ↔ `Mx α` -/

/-- a `Fin`-indexed matrix as a total index function, `0` outside `[0,n)²` -/
def toMx {α : Type} [Zero α] {n : Nat} (X : Mat α n n) : Mx α :=
  fun i j => if h : i < n ∧ j < n then X ⟨i, h.1⟩ ⟨j, h.2⟩ else 0

/-- the `n × n` corner of a total index function -/
def ofMx {α : Type} (n : Nat) (L : Mx α) : Mat α n n := fun i j => L i.val j.val

/-! ### one parameter of Distributed Shampoo: slots (C03/C04/C01) + update half (C02) -/

section Param
variable {α : Type}

/-- what slot `i = b·k + j` accumulates on a statistics step: C02's `statStep` of block `b` along the `j`-th
preconditioned axis (exactly `specNewStat` for the slot's own previous statistic) -/
def slotStatsUpd [Add α] [Mul α] [OfNat α 0] [Inhabited α] (G : Geom) (w1 w2 : α) (i : Nat) (L : Mx α) (g : List α) :
    Mx α :=
  statStep w1 w2 L ((G.blocks g).getD (i / G.pdims.length) ⟨[], fun _ => default⟩)
    (G.pdims.getD (i % G.pdims.length) 0)

/-- the size of the statistic in slot `i` for a gradient `g` (the block's extent along the preconditioned axis) -/
def geomDim [OfNat α 0] [Inhabited α] (G : Geom) (g : List α) (i : Nat) : Nat :=
  (((G.blocks g).getD (i / G.pdims.length) ⟨[], fun _ => default⟩).shape).getD (G.pdims.getD (i % G.pdims.length) 0) 0

abbrev SlotState (α : Type) := DSState (Mx α) (Mx α) XF Unit Unit

variable [Add α] [Sub α] [Mul α] [Div α] [Neg α] [Zero α] [One α] [OfNat α 0] [OfNat α 1] [OfNat α 2] [OfNat α 10]
  [LT α] [DecidableLT α] [Inhabited α]

/-- gate ∘ Newton on a slot of size `d` (no padding: `padding_start = d`) -/
def newtonSlotRootMx (N : NewtonCfg α) (rep : α → XF) (d : Nat) (L : Mx α) (_prev : Mx α) (_fault : Unit) :
    Mx α × XF :=
  (toMx (newtonOut N d (ofMx d L)).x, rep (newtonOut N d (ofMx d L)).err)

/-- the automaton of slot `i`; `dims i` is the size of its statistic.  The update-value components of C04's automaton
are not used at slot level (the update half of the parameter is `lowUpdate` below). -/
def slotKernels (thr : XF) (N : NewtonCfg α) (rep : α → XF) (G : Geom) (w1 w2 : α) (dims : Nat → Nat) (i : Nat) :
    DSKernels (Mx α) (Mx α) XF (List α) Unit Unit Unit Nat :=
  gateKernels thr (slotStatsUpd G w1 w2 i) (newtonSlotRootMx N rep (dims i)) id
    (fun _ _ _ => ((), 0, 0)) (fun _ _ _ _ => ((), 0, 0)) (fun a _ _ => a)

/-- the same with an arbitrary per-slot root routine (eigh, the `1 × 1` branch, a dispatch on the statistic size, …) -/
def slotKernelsWith (thr : XF) (rootOf : Nat → Mx α → Mx α → Unit → Mx α × XF) (G : Geom) (w1 w2 : α) (i : Nat) :
    DSKernels (Mx α) (Mx α) XF (List α) Unit Unit Unit Nat :=
  gateKernels thr (slotStatsUpd G w1 w2 i) (rootOf i) id
    (fun _ _ _ => ((), 0, 0)) (fun _ _ _ _ => ((), 0, 0)) (fun a _ _ => a)

/-- the `1 × 1` branch on a slot held as `Mx`: the statistic is the entry `L 0 0`, the root the `1 × 1` matrix `(x)` -/
def scalarSlotRootMx (N : NewtonCfg α) (rep : α → XF) (invroot : α → α) (L : Mx α) (_prev : Mx α) (_fault : Unit) :
    Mx α × XF :=
  ((fun i j => if i = 0 ∧ j = 0 then (scalarSlotRoot N rep invroot (L 0 0) 0 ()).1 else 0),
    (scalarSlotRoot N rep invroot (L 0 0) 0 ()).2)

/-- what `matrix_inverse_pth_root` does: the scalar branch for `matrix_size == 1`, the coupled Newton iteration otherwise -/
def dispatchSlotRootMx (N : NewtonCfg α) (rep : α → XF) (invroot : α → α) (dims : Nat → Nat) (i : Nat) :
    Mx α → Mx α → Unit → Mx α × XF :=
  if dims i = 1 then scalarSlotRootMx N rep invroot else newtonSlotRootMx N rep (dims i)

/-- all slots of a parameter advance with the same `update` call -/
def slotsStep (mk : Nat → DSKernels (Mx α) (Mx α) XF (List α) Unit Unit Unit Nat) (cfg : DSCfg)
    (slots : List (SlotState α)) (g : List α) : List (SlotState α) :=
  slots.mapIdx fun i sl => (dsStep (mk i) cfg sl ⟨g, ()⟩).1

structure ParamState (α : Type) where
  count : Nat
  slots : List (SlotState α)
  fo : PState α

/-- one `update` call for one parameter with the update half left open: input = (gradient, parameter) -/
def paramStepWith
    (upd : Nat → List α → List α → PState α → List (Mx α) → List (Mx α) → Option (TOut α))
    (mk : Nat → DSKernels (Mx α) (Mx α) XF (List α) Unit Unit Unit Nat) (cfg : DSCfg)
    (s : ParamState α) (i : List α × List α) : ParamState α × Option (TOut α) :=
  let slots' := slotsStep mk cfg s.slots i.1
  let out := upd s.count i.1 i.2 s.fo (s.slots.map (·.precond)) (slots'.map (·.precond))
  ({ count := s.count + 1, slots := slots', fo := match out with | some o => o.st | none => s.fo }, out)

/-- the preconditioners the update of this step is computed with (C02's `usedPreconds`) -/
def usedAt (mk : Nat → DSKernels (Mx α) (Mx α) XF (List α) Unit Unit Unit Nat) (cfg : DSCfg)
    (s : ParamState α) (g : List α) : List (Mx α) :=
  usedPreconds cfg.sharded (s.slots.map (·.precond)) ((slotsStep mk cfg s.slots g).map (·.precond))

variable [BEq α]

/-- code-shaped parameter step: slots through gate ∘ Newton, update by C02's `Low` -/
def lowParamStep (sqrt : α → α) (nc : Nat → α) (G : Geom) (h : Hyper α) (skipP : Bool)
    (mk : Nat → DSKernels (Mx α) (Mx α) XF (List α) Unit Unit Unit Nat) (cfg : DSCfg) :
    ParamState α → List α × List α → ParamState α × Option (TOut α) :=
  paramStepWith (fun step g param st before after =>
    lowUpdate sqrt nc cfg.sharded G h step skipP g param st before after) mk cfg

/-- documented parameter step: the same slots, update by C02's `Spec` -/
def specParamStep (sqrt : α → α) (nc : Nat → α) (G : Geom) (h : Hyper α) (skipP : Bool)
    (mk : Nat → DSKernels (Mx α) (Mx α) XF (List α) Unit Unit Unit Nat) (cfg : DSCfg) :
    ParamState α → List α × List α → ParamState α × Option (TOut α) :=
  paramStepWith (fun step g param st before after =>
    specUpdate sqrt nc cfg.sharded G h step skipP g param st before after) mk cfg

end Param

/-! ### the tree-wide padded batch on `D` devices (C08 × C13) -/

section Tree
variable {α ρ : Type}

/-- `_pmap_compute_preconditioners` for the whole tree: statistics of all leaves flattened, every one handed to the
per-matrix routine with the tree-wide `max_size`, the batch padded with fillers, split over `D` replicas, gathered,
unbatched, cut to the real statistics, and every leaf given its slice back -/
def distributedTreeRoots (root : Nat → Nat → BlockDiag.A2 α → ρ) (filler : BlockDiag.Stat α) (D : Nat)
    (leaves : List (List (BlockDiag.Stat α))) : List (List ρ) :=
  let N := BlockDiag.maxSizeOf leaves
  BlockDiag.regroup (leaves.map List.length)
    (Devices.pmapCompute (fun st => root N st.size st.dat) filler D leaves.flatten)

/-- the sharded (pjit) variant: global arrays over `D` devices, per-leaf views `global[index_start : index_start + count]` -/
def shardedTreeRoots (root : Nat → Nat → BlockDiag.A2 α → ρ) (filler : BlockDiag.Stat α) (D : Nat)
    (leaves : List (List (BlockDiag.Stat α))) : List (List ρ) :=
  let N := BlockDiag.maxSizeOf leaves
  Devices.shardedViews (fun st => root N st.size st.dat) filler D leaves.flatten
    ((BlockDiag.indexStarts (leaves.map List.length) 0).zip (leaves.map List.length))

/-- the acceptance gate applied to the (root, reported error) pairs the tree-wide computation returned, slot by slot:
`_select_preconditioner(error, new_p, old_p)` over all leaves -/
def gateTree {π : Type} (thr : XF) (res : List (List (π × XF))) (old : List (List π)) : List (List π) :=
  List.zipWith (List.zipWith fun r o => select r.2 thr r.1 o) res old

/-- `matrix_inverse_pth_root_eigh` (C08's model, eigen-solver a parameter) in the batch position, as the gate sees it:
the root (pad to `N`, `padding_start = s`, cut) and a reported error computed from the statistic and that root -/
def eighBatchRoot {α : Type} [Zero α] [One α] [Add α] [Mul α] (kernel : BlockDiag.Kernel α) (invE : α → α) (ridgeOf : Nat → BlockDiag.A2 α → α)
    (errOf : Nat → BlockDiag.A2 α → BlockDiag.A2 α → XF) (N s : Nat) (a : BlockDiag.A2 α) : Mx α × XF :=
  (BlockDiag.rdM (BlockDiag.paddedEighRoot kernel invE N s (ridgeOf s a) a), errOf s a (BlockDiag.paddedEighRoot kernel invE N s (ridgeOf s a) a))

/-- a tabulated matrix of C08 as an `n × n` matrix of C01 -/
def ofA2 [Zero α] (n : Nat) (a : BlockDiag.A2 α) : Mat α n n := fun i j => BlockDiag.rdM a i.val j.val

variable [Add α] [Sub α] [Mul α] [Div α] [Neg α] [Zero α] [One α] [OfNat α 2] [OfNat α 10] [LT α] [DecidableLT α]

/-- `max_ev` as `matrix_inverse_pth_root` computes it for a relative ridge: C01's `powerIteration` on the masked
statistic, started from the masked prefix of ONE fixed sequence `u`
(`RandomState(1729).uniform(-1, 1, n) * (arange(n) < padding_start)`: the draws for size `n` are the first `n` draws) -/
def piMaxEv (sqrt : α → α) (tol : α) (numIters : Nat) (u : Nat → α) : (n : Nat) → Nat → Mat α n n → α :=
  fun _ s A => powerIteration sqrt tol numIters (Mat.mask s A) (fun i => if i.val < s then u i.val else 0)

/-- C01's Newton routine in C08's batch position: pad the statistic to `N` (`pad_square_matrix`), root with
`padding_start = s`, cut `[:s, :s]`; result = (root, reported error, total retries) -/
def paddedRootC01 (Nw : NewtonCfg α) (N s : Nat) (a : BlockDiag.A2 α) : Mx α × α × Nat :=
  let o := newtonOut Nw (n := N) s (ofA2 N (BlockDiag.padSq s N a))
  (fun i j => if h : (i < s ∧ j < s) ∧ (i < N ∧ j < N) then o.x ⟨i, h.2.1⟩ ⟨j, h.2.2⟩ else 0, o.err, o.retries)

end Tree

/-! ### a parameter TREE: per-leaf steps that share only the root batch -/

section TreeStep
variable {α : Type} [Add α] [Sub α] [Mul α] [Div α] [Neg α] [Zero α] [One α] [OfNat α 0] [OfNat α 1] [OfNat α 2]
  [OfNat α 10] [LT α] [DecidableLT α] [Inhabited α]

/-- a slot kernel whose root result has been computed elsewhere (in the shared batch) -/
def withRes (K : DSKernels (Mx α) (Mx α) XF (List α) Unit Unit Unit Nat) (r : Mx α × XF) :
    DSKernels (Mx α) (Mx α) XF (List α) Unit Unit Unit Nat :=
  { K with rootAll := fun _ _ _ => r }

/-- `_compute_stats` of one leaf (a `tree.map`): the statistics of its slots after this step's statistics update -/
def leafNewStats (mk : Nat → DSKernels (Mx α) (Mx α) XF (List α) Unit Unit Unit Nat) (cfg : DSCfg) (s : ParamState α)
    (g : List α) : List (Mx α) :=
  s.slots.mapIdx fun i sl => dsStats' (mk i) cfg sl g

/-- the statistics of ALL leaves as the batch `_pmap_compute_preconditioners` flattens: slot `i` of leaf `ℓ` has size
`dims ℓ i` and is tabulated (`BlockDiag.tabM`) -/
def treeBatch (mk : Nat → Nat → DSKernels (Mx α) (Mx α) XF (List α) Unit Unit Unit Nat) (dims : Nat → Nat → Nat)
    (cfg : DSCfg) (ps : List (ParamState α)) (inp : Nat → List α × List α) : List (List (BlockDiag.Stat α)) :=
  ps.mapIdx fun l s => (leafNewStats (mk l) cfg s (inp l).1).mapIdx fun i L =>
    (⟨dims l i, BlockDiag.tabM (dims l i) L⟩ : BlockDiag.Stat α)

/-- **one Distributed Shampoo step of the composed model on a parameter tree, code shape**: statistics per leaf; ONE
root computation for the whole tree (`distributedTreeRoots`: flatten, pad to the tree-wide `max_size`, `D` devices,
regroup); then every slot of every leaf runs its schedule / gate step with the result the batch returned for it, and
every leaf its update half.  `inp l` = (gradient, parameter) of leaf `l`; `upd l`, `mk l`, `dims l` its update half,
slot kernels (statistics update, gate) and statistic sizes. -/
def treeStepBatched (rootB : Nat → Nat → BlockDiag.A2 α → Mx α × XF) (filler : BlockDiag.Stat α) (D : Nat)
    (upd : Nat → Nat → List α → List α → PState α → List (Mx α) → List (Mx α) → Option (TOut α))
    (mk : Nat → Nat → DSKernels (Mx α) (Mx α) XF (List α) Unit Unit Unit Nat) (dims : Nat → Nat → Nat)
    (cfg : DSCfg) (ps : List (ParamState α)) (inp : Nat → List α × List α) :
    List (ParamState α × Option (TOut α)) :=
  let res := distributedTreeRoots rootB filler D (treeBatch mk dims cfg ps inp)
  ps.mapIdx fun l s =>
    paramStepWith (upd l) (fun i => withRes (mk l i) ((res.getD l []).getD i (Mx.zero, XF.nan))) cfg s (inp l)

/-- the same tree with every leaf stepped on its own (`paramStepWith`: each slot calls its own root routine) -/
def treeStepIndep
    (upd : Nat → Nat → List α → List α → PState α → List (Mx α) → List (Mx α) → Option (TOut α))
    (mk : Nat → Nat → DSKernels (Mx α) (Mx α) XF (List α) Unit Unit Unit Nat)
    (cfg : DSCfg) (ps : List (ParamState α)) (inp : Nat → List α × List α) :
    List (ParamState α × Option (TOut α)) :=
  ps.mapIdx fun l s => paramStepWith (upd l) (mk l) cfg s (inp l)

/-- gate ∘ Newton in the batch position, as the gate sees it: (root, reported error) of `paddedRootC01` -/
def newtonBatchRoot (Nw : NewtonCfg α) (rep : α → XF) (N s : Nat) (a : BlockDiag.A2 α) : Mx α × XF :=
  ((paddedRootC01 Nw N s a).1, rep (paddedRootC01 Nw N s a).2.1)

end TreeStep

/-! ### Tearfree Sketchy: C04's cadence around C09's sketch update -/

section Sketchy

/-- the gradients an update cadence `f` lets through, the first element of the history being consumed at counter `c` -/
def refreshGrads {γ : Type} (f : Nat) : Nat → List γ → List γ
  | _, [] => []
  | c, g :: gs => if c % f == 0 then g :: refreshGrads f (c + 1) gs else refreshGrads f (c + 1) gs

/-- `Schedule.SKKernels` for one axis: `upd` is `_update_axis` of `tearfree/sketchy.py` (C09), SVD a parameter -/
def sketchyKernels {α υ : Type} [Zero α] [One α] [Add α] [Sub α] [Mul α] [LT α] [DecidableLT α] [Max α] {d k m : Nat}
    (svd : FD.SvdFn α d (k + m)) (sqrt pw : α → α) (epsilon : α) (relative : Bool) (β : α)
    (precondition : FD.SkState α d k → FD.Mat α d m → υ) : SKKernels (FD.SkState α d k) (FD.Mat α d m) υ :=
  ⟨fun st G => (FD.sketchyUpdateAxis svd sqrt pw epsilon relative β st G).st, precondition⟩

end Sketchy

/-! ### Tearfree Shampoo: one block of `shampoo._update` -/

section TFBlock
open PrecondVerif.Tearfree
variable {α : Type} [Zero α] [One α] [Add α] [Sub α] [Mul α] [LT α] [DecidableLT α] [BEq α] [Max α]

/-- what `shampoo._update` does to ONE block at counter `c`: statistics cond, then preconditioner cond on the result,
then apply — a function of the block's own gradient slice `x` and own stored state `b` only -/
def tfBlockStep (eigh : EighFn α) (hp : α → α) (cut decay : α) (sizes : List Nat) (sf pf c : Nat) (x : Array α)
    (b : BlockSt α) : BlockSt α × Array α :=
  let b₁ := if c % sf = 0 then blockStatsUpdate decay sizes x b else b
  let b₂ := if c % pf = 0 then blockPrecondUpdate eigh hp cut sizes b₁ else b₁
  (b₂, blockApply sizes x b₂)

end TFBlock

end PrecondVerif.Compose
