/-
Index-level description of the blocking transformations (property C06, second round).

`Model/Shapes.lean` models `BlockPartitioner.partition`, Tearfree `_blockify` / `_deblockify` the way the code
computes them (split / concatenate folds, reshape ∘ transpose ∘ reshape).  This file states WHERE every entry
goes, as closed index maps; `Props/C06.lean` proves the two descriptions equal and the driver executes both
against the real code.  Mathlib-free.
-/
import PrecondVerif.Model.Shapes

namespace PrecondVerif.Shapes

/-! ### BlockPartitioner: block number ↦ (offsets, sizes) -/

/-- number of pieces along every axis (`len(split_sizes[a])`) -/
def blockGrid (shape : List Nat) (b : Nat) : List Nat := (splitAll shape b).map List.length

/-- the per-axis piece numbers `(k_1, …, k_r)` of block number `k`: `itertools.product` order, first axis
slowest — the row-major digits of `k` in the grid -/
def blockCoords (shape : List Nat) (b k : Nat) : List Nat := unravel (blockGrid shape b) k

/-- start of block `k` along every axis: the `k_a`-th prefix sum of the split sizes of axis `a` -/
def blockOffsets (shape : List Nat) (b k : Nat) : List Nat :=
  List.zipWith (fun d ka => (offsets (splitSizes d b) 0).getD ka 0) shape (blockCoords shape b k)

/-- shape of block `k`: the `k_a`-th split size of axis `a` -/
def blockDims (shape : List Nat) (b k : Nat) : List Nat :=
  List.zipWith (fun d ka => (splitSizes d b).getD ka 0) shape (blockCoords shape b k)

/-- `offsets + idx`, axis by axis -/
def addOff (offs idx : List Nat) : List Nat := List.zipWith (· + ·) offs idx

/-- the block an entry of the tensor lands in, and its index inside that block -/
def locateBlock (shape : List Nat) (b : Nat) (idx : List Nat) : Nat × List Nat :=
  let locs := List.zipWith (fun d i => locate (splitSizes d b) i) shape idx
  (ravel (blockGrid shape b) (locs.map (·.1)), locs.map (·.2))

/-- (offset, size) pairs of the pieces of one axis -/
def axisPieces (d b : Nat) : List (Nat × Nat) := (offsets (splitSizes d b) 0).zip (splitSizes d b)

/-- cartesian product in `itertools.product` order (first factor slowest), any element type -/
def cartP {β : Type} : List (List β) → List (List β)
  | [] => [[]]
  | l :: ls => l.flatMap fun x => (cartP ls).map (x :: ·)

/-- the sub-tensor `t[o_m : o_m+s_m, o_{m+1} : …]` cut axis by axis, starting at axis `m` -/
def sliceBox {α} (u : Tensor α) : Nat → List (Nat × Nat) → Tensor α
  | _, [] => u
  | m, (o, s) :: box => sliceBox (u.slice m o s) (m + 1) box

/-- the sub-tensor at `offs` of shape `sizes`, as an index function -/
def Tensor.box {α} (t : Tensor α) (offs sizes : List Nat) : Tensor α :=
  { shape := sizes, get := fun idx => t.get (addOff offs idx) }

/-! ### Tearfree blocks: parameter index ↔ (block number, index inside the block) -/

/-- block number of a parameter entry: row-major over the block grid of the large axes -/
def blockIndexOf (m : BlocksMeta) (idx : List Nat) : Nat :=
  ravel m.blocksPerLargeAxis (m.largeAxes.map fun a => idx.getD a 0 / m.largeBlockSize)

/-- index inside its block: `idx mod block size` on the large axes, unchanged on the small ones -/
def innerIndexOf (m : BlocksMeta) (idx : List Nat) : List Nat :=
  m.largeAxes.foldl (fun l a => l.set a (idx.getD a 0 % m.largeBlockSize)) idx

/-- index into the blockified array: the block number inserted at the blocks axis -/
def blockedIndex (m : BlocksMeta) (idx : List Nat) : List Nat :=
  insertAt (innerIndexOf m idx) m.blocksAxis (blockIndexOf m idx)

/-- where block `blk` starts in the parameter: (grid coordinate) × (block size) on the large axes, 0 on the
small ones -/
def tfBlockOffsets (m : BlocksMeta) (blk : Nat) : List Nat :=
  (m.largeAxes.zip (unravel m.blocksPerLargeAxis blk)).foldl
    (fun l p => l.set p.1 (p.2 * m.largeBlockSize)) (List.replicate m.paramShape.length 0)

/-- parameter index of entry `inner` of block `blk`: the block's offsets added -/
def combineIndex (m : BlocksMeta) (blk : Nat) (inner : List Nat) : List Nat :=
  addOff (tfBlockOffsets m blk) inner

/-- parameter index of an index into the blockified array -/
def unblockedIndex (m : BlocksMeta) (x : List Nat) : List Nat :=
  combineIndex m (x.getD m.blocksAxis 0) (popAt x m.blocksAxis)

/-- shape of the blockified array: `block_sizes` with `num_blocks` inserted at the blocks axis -/
def blockedShape (m : BlocksMeta) : List Nat := insertAt m.blockSizes m.blocksAxis m.numBlocks

end PrecondVerif.Shapes
