/-
Model of grafting (property C05), Mathlib-free and scalar-generic.

Anchors (transcribed by hand, checked by the correspondence run of `harness/props/c05.py`):

* Distributed Shampoo, `distributed_shampoo.py::_transform_grad`
    grafting_update  := closed-form graft step (SGD / AdaGrad / RMSProp / normalised variants / sign)
    grafting_update  := grafting_update * (lr if not decoupled_learning_rate else 1.0)
    precond_grad     := preconditioned gradient, or `grafting_update` for a parameter excluded from preconditioning
    multiplier       := ‖grafting_update‖ / (‖precond_grad‖ + _EPSILON)          (1.0 for GraftingType.NONE)
    shampoo_update   := precond_grad * multiplier
    run_shampoo      := (step >= start_preconditioning_step).astype(float)
    update           := -1.0 * (lr if decoupled_learning_rate else 1.0) *
                          (run_shampoo * shampoo_update + (1 - run_shampoo) * grafting_update)
  (momentum `beta1 = 0` and weight decay `0`, the observation point of the property: with `beta1 = 0`
   `momentum * beta1 + w * x` is `x` for `w = 1` resp. `w = 1 - beta1`, and the nesterov branch returns the same).

* Tearfree, `tearfree/grafting.py::_graft_with.maybe_graft`, `_mask_skipped`, `_rmsprop`.

Vectors are flat lists (row-major data of the parameter); the Euclidean norm is `sqrt (Σ xᵢ²)` with the
square root a *parameter* (`Float.sqrt` in the driver, `Real.sqrt` / any function meeting the sqrt
specification in the theorems).

The norm-transplant core is written once over an abstract pair of vector operations (`VecOps`: scaling and
norm) so that the very same definition is (a) executed on lists by the driver and (b) instantiated at any real
normed space in `Props/C05.lean`.
-/

namespace PrecondVerif.Graft

/-- The two vector operations grafting needs: multiplication by a scalar and the norm. -/
structure VecOps (α V : Type) where
  smul : α → V → V
  nrm : V → α

/-! ### Representation-independent core -/
section Generic
variable {α V : Type}

/-- `multiplier = grafting_update_norm / (precond_grad_norm + _EPSILON)` -/
def dsMultiplier [Add α] [Div α] (eps gn pn : α) : α := gn / (pn + eps)

/-- `shampoo_update = precond_grad * multiplier` (graft type ≠ NONE). -/
def dsShampooG [Add α] [Div α] (ops : VecOps α V) (eps : α) (graft p : V) : V :=
  ops.smul (dsMultiplier eps (ops.nrm graft) (ops.nrm p)) p

/-- The skip branch: `precond_grad = grafting_update` for a parameter excluded from preconditioning. -/
def dsPrecondGrad (skip : Bool) (graft precond : V) : V := if skip then graft else precond

/-- Tearfree `multiplier = where(base_norm > 0, ‖graft‖ / base_norm, 0)`. -/
def tfMultiplier [Div α] [LT α] [DecidableLT α] [OfNat α 0] (gn bn : α) : α :=
  if 0 < bn then gn / bn else 0

/-- Tearfree `maybe_graft`: masked leaves get the graft update itself; otherwise
`where(count >= start, base * multiplier, graft_upd)`. -/
def tfMaybeGraftG [Div α] [LT α] [DecidableLT α] [OfNat α 0] (ops : VecOps α V)
    (count start : Nat) (masked : Bool) (g b : V) : V :=
  if masked then g
  else if start ≤ count then ops.smul (tfMultiplier (ops.nrm g) (ops.nrm b)) b
  else g

end Generic

/-! ### Flat vectors -/
section Lists
variable {α : Type}

/-- `Σ xᵢ²` -/
def sumSq [Add α] [Mul α] [OfNat α 0] : List α → α
  | [] => 0
  | x :: xs => x * x + sumSq xs

/-- `jnp.linalg.norm` of the flattened parameter. -/
def norm [Add α] [Mul α] [OfNat α 0] (sqrt : α → α) (v : List α) : α := sqrt (sumSq v)

/-- `v * c` (array times scalar). -/
def scale [Mul α] (c : α) (v : List α) : List α := v.map (fun x => x * c)

def listOps [Add α] [Mul α] [OfNat α 0] (sqrt : α → α) : VecOps α (List α) :=
  ⟨scale, norm sqrt⟩

/-- `jnp.sign` -/
def sgn [LT α] [DecidableLT α] [OfNat α 0] [OfNat α 1] [Neg α] (x : α) : α :=
  if 0 < x then 1 else if x < 0 then -1 else 0

/-- `jnp.maximum` on non-NaN inputs. -/
def maxJ [LT α] [DecidableLT α] (a b : α) : α := if a < b then b else a

/-- `(step >= start_preconditioning_step).astype(dtype)` -/
def runShampoo [OfNat α 0] [OfNat α 1] (step start : Nat) : α := if start ≤ step then 1 else 0

/-- `run * a + (1 - run) * b`, elementwise (the arithmetic blend of the code, not simplified). -/
def blend [Add α] [Mul α] [Sub α] [OfNat α 1] (r : α) (a b : List α) : List α :=
  List.zipWith (fun x y => r * x + (1 - r) * y) a b

/-! #### Second-moment accumulators -/

/-- Distributed Shampoo: `w1 * acc + w2 * g²` (AdaGrad is `w1 = w2 = 1`). -/
def accStep [Add α] [Mul α] (w1 w2 : α) (acc g : List α) : List α :=
  List.zipWith (fun a x => w1 * a + w2 * (x * x)) acc g

/-- `w2 = jnp.where(beta2 == 1.0, beta2, 1.0 - beta2)` -/
def dsW2 [BEq α] [Sub α] [OfNat α 1] (beta2 : α) : α := if beta2 == 1 then beta2 else 1 - beta2

/-- Tearfree RMSProp `ema`: `g² + prev` if `decay == 1`, else `g² * (1 - decay) + decay * prev`. -/
def tfAccStep [Add α] [Mul α] [Sub α] [BEq α] [OfNat α 1] (decay : α) (acc g : List α) : List α :=
  List.zipWith (fun a x => if decay == 1 then x * x + a else x * x * (1 - decay) + decay * a) acc g

/-- Accumulator after a whole gradient history (oldest first). -/
def accRun [Add α] [Mul α] (w1 w2 : α) (acc0 : List α) (hist : List (List α)) : List α :=
  hist.foldl (accStep w1 w2) acc0

def tfAccRun [Add α] [Mul α] [Sub α] [BEq α] [OfNat α 1] (decay : α) (acc0 : List α)
    (hist : List (List α)) : List α :=
  hist.foldl (tfAccStep decay) acc0

/-! #### Closed-form graft steps of Distributed Shampoo -/

inductive GraftType where
  | none | sgd | adagrad | rmsprop | rmspropNormalized | sqrtN | adagradNormalized
  deriving DecidableEq, Repr, Inhabited

/-- `grad / (‖grad‖ + _EPSILON)` -/
def normalize [Add α] [Mul α] [Div α] [OfNat α 0] (sqrt : α → α) (eps : α) (g : List α) : List α :=
  let n := norm sqrt g
  g.map (fun x => x / (n + eps))

/-- `scaled_grad / (sqrt(new_diagonal_statistics) + diagonal_epsilon)` -/
def diagStep [Add α] [Div α] (sqrt : α → α) (diagEps : α) (g acc : List α) : List α :=
  List.zipWith (fun x a => x / (sqrt a + diagEps)) g acc

/-- `clip_by_scaled_gradient_norm`: divide by `max(1, (‖u‖ / sqrt(size)) / clip)`. -/
def clipScaled [Add α] [Mul α] [Div α] [LT α] [DecidableLT α] [OfNat α 0] [OfNat α 1]
    (sqrt : α → α) (natCast : Nat → α) (clip : α) (u : List α) : List α :=
  let n := norm sqrt u / sqrt (natCast u.length)
  let d := maxJ 1 (n / clip)
  u.map (fun x => x / d)

structure DSConfig (α : Type) where
  graftType : GraftType
  beta2 : α
  diagEps : α
  /-- `_EPSILON` -/
  eps : α
  lr : α
  decoupledLr : Bool
  clip : Option α
  start : Nat

/-- The grafting optimizer's own step (before the `lr` coupling) and its new accumulator. -/
def dsGraftStep [Add α] [Mul α] [Sub α] [Div α] [Neg α] [LT α] [DecidableLT α] [BEq α]
    [OfNat α 0] [OfNat α 1] (sqrt : α → α) (natCast : Nat → α) (c : DSConfig α)
    (g acc : List α) : List α × List α :=
  match c.graftType with
  | .adagrad =>
      let acc' := accStep 1 1 acc g
      (diagStep sqrt c.diagEps g acc', acc')
  | .adagradNormalized =>
      let sg := normalize sqrt c.eps g
      let acc' := accStep 1 1 acc sg
      (diagStep sqrt c.diagEps sg acc', acc')
  | .rmsprop =>
      let acc' := accStep c.beta2 (dsW2 c.beta2) acc g
      let u := diagStep sqrt c.diagEps g acc'
      (match c.clip with | some cl => clipScaled sqrt natCast cl u | none => u, acc')
  | .rmspropNormalized =>
      let sg := normalize sqrt c.eps g
      let acc' := accStep c.beta2 (dsW2 c.beta2) acc sg
      let u := diagStep sqrt c.diagEps sg acc'
      (match c.clip with | some cl => clipScaled sqrt natCast cl u | none => u, acc')
  | .sgd => (g, acc)
  | .none => (g, acc)
  | .sqrtN => (g.map (fun x => 1 * sgn x), acc)

/-- `_skip_preconditioning(param)`: rank below `skip_preconditioning_rank_lt` or any dimension above
`skip_preconditioning_dim_size_gt`. -/
def dsSkip (rankLt dimGt : Nat) (shape : List Nat) : Bool :=
  decide (shape.length < rankLt) || shape.any (fun s => decide (dimGt < s))

/-- `preconditioner_multiplier = lr if not decoupled_learning_rate else 1.0` -/
def precondMultiplier [OfNat α 1] (c : DSConfig α) : α := if c.decoupledLr then 1 else c.lr

/-- `momentum_multiplier = lr if decoupled_learning_rate else 1.0` -/
def momentumMultiplier [OfNat α 1] (c : DSConfig α) : α := if c.decoupledLr then c.lr else 1

/-- `shampoo_update`: norm transplant, or the plain preconditioned gradient for `GraftingType.NONE`. -/
def dsShampooUpdate [Add α] [Mul α] [Div α] [OfNat α 0] [OfNat α 1] (sqrt : α → α)
    (c : DSConfig α) (graft p : List α) : List α :=
  if c.graftType = .none then scale 1 p else dsShampooG (listOps sqrt) c.eps graft p

/-- `-1.0 * momentum_multiplier * x` -/
def finalScale [Mul α] [Neg α] [OfNat α 1] (mm : α) (v : List α) : List α :=
  v.map (fun x => -1 * mm * x)

/-- The wrapper of `_transform_grad` around the grafting optimizer's step `s`, which is OPAQUE here (any vector: a
closed-form step below, or one this model does not describe): lr coupling, skip branch, norm transplant, warm-up
selection, final scaling (`beta1 = 0`, `weight_decay = 0`). -/
def dsApplyGraft [Add α] [Mul α] [Sub α] [Div α] [Neg α] [OfNat α 0] [OfNat α 1] (sqrt : α → α)
    (c : DSConfig α) (step : Nat) (skip : Bool) (s precond : List α) : List α :=
  let graft := scale (precondMultiplier c) s
  let p := dsPrecondGrad skip graft precond
  let shampoo := dsShampooUpdate sqrt c graft p
  let mom := blend (runShampoo step c.start) shampoo graft
  finalScale (momentumMultiplier c) mom

/-- One call of `_transform_grad` for one parameter with `beta1 = 0`, `weight_decay = 0`.
`precond` is the preconditioned gradient (whatever the representation of the preconditioners);
`skip` says the parameter is excluded from preconditioning. Returns (update, new diagonal statistics). -/
def dsTransform [Add α] [Mul α] [Sub α] [Div α] [Neg α] [LT α] [DecidableLT α] [BEq α]
    [OfNat α 0] [OfNat α 1] (sqrt : α → α) (natCast : Nat → α) (c : DSConfig α)
    (step : Nat) (skip : Bool) (g acc precond : List α) : List α × List α :=
  let r := dsGraftStep sqrt natCast c g acc
  (dsApplyGraft sqrt c step skip r.1 precond, r.2)

/-! #### Tearfree -/

/-- `_mask_skipped`: rank ≤ 1 (if `skip_preconditioning_rank1`) or any dimension above the limit. -/
def tfMaskSkipped (rank1 : Bool) (anyDimGt : Nat) (shape : List Nat) : Bool :=
  (rank1 && decide (shape.length ≤ 1)) || shape.any (fun s => decide (anyDimGt < s))

def tfMaybeGraft [Add α] [Mul α] [Div α] [LT α] [DecidableLT α] [OfNat α 0] (sqrt : α → α)
    (count start : Nat) (masked : Bool) (g b : List α) : List α :=
  tfMaybeGraftG (listOps sqrt) count start masked g b

/-- Tearfree RMSProp graft step: `g * rsqrt(acc' + epsilon)`; returns (step, new accumulator). -/
def tfRmspropStep [Add α] [Mul α] [Sub α] [Div α] [BEq α] [OfNat α 1] (sqrt : α → α)
    (decay eps : α) (acc g : List α) : List α × List α :=
  let acc' := tfAccStep decay acc g
  (List.zipWith (fun x a => x * (1 / sqrt (a + eps))) g acc', acc')

/-- `optax.scale(-1.0 * learning_rate)` -/
def tfFinal [Mul α] [Neg α] [OfNat α 1] (lr : α) (v : List α) : List α :=
  v.map (fun x => x * (-1 * lr))

/-- The Tearfree graft optimizers with a closed form (`ADAFACTOR` is optax's and stays opaque). -/
inductive TFGraftType where
  | sgd | rmsprop
  deriving DecidableEq, Repr, Inhabited

/-- The graft optimizer's own step: `optax.identity()` for SGD, `_rmsprop` otherwise. -/
def tfGraftStep [Add α] [Mul α] [Sub α] [Div α] [BEq α] [OfNat α 1] (sqrt : α → α)
    (gt : TFGraftType) (decay eps : α) (acc g : List α) : List α × List α :=
  match gt with
  | .sgd => (g, acc)
  | .rmsprop => tfRmspropStep sqrt decay eps acc g

/-- The wrapper of `_graft_with` + `optax.scale(-lr)` around the graft optimizer's step `s`, OPAQUE here (SGD,
RMSProp, or optax's ADAFACTOR which this model does not describe), against the second-order update `b`. -/
def tfApplyGraft [Add α] [Mul α] [Div α] [Neg α] [LT α] [DecidableLT α] [OfNat α 0] [OfNat α 1]
    (sqrt : α → α) (lr : α) (count start : Nat) (masked : Bool) (s b : List α) : List α :=
  tfFinal lr (tfMaybeGraft sqrt count start masked s b)

/-- One update of `tearfree(lr, options)` for one leaf with momentum and weight decay off
(`momentum.apply` is then the identity): graft step, `maybe_graft` against the second-order update `b`
(whatever produced it), `optax.scale(-lr)`. Returns (update, new graft accumulator). -/
def tfTransform [Add α] [Mul α] [Sub α] [Div α] [Neg α] [LT α] [DecidableLT α] [BEq α]
    [OfNat α 0] [OfNat α 1] (sqrt : α → α) (gt : TFGraftType) (decay eps lr : α)
    (count start : Nat) (masked : Bool) (g acc b : List α) : List α × List α :=
  let r := tfGraftStep sqrt gt decay eps acc g
  (tfApplyGraft sqrt lr count start masked r.1 b, r.2)

end Lists

end PrecondVerif.Graft
