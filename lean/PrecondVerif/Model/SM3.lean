/-
Model of `precondition/sm3.py` (property C12), Mathlib-free.

For one parameter tensor of shape `[d_0, …, d_{r-1}]` the optimizer keeps one accumulator vector per
axis (`ParameterStats.diagonal_statistics`, `acc_i : [d_i]`) and an int8-quantized momentum.  One update:

    g   = grad / (‖grad‖ + 1e-16)                       (only if normalize_grads)
    ν   = beta2 * min_i acc_i[idx_i] + w2 * g**2         (`_moving_averages`; rank 1: `accumulators[0]`)
    pg  = g * (1 / sqrt(ν + diagonal_epsilon))
    m'  = beta1 * momentum.to_float() + w1 * pg          (`_moving_averages_momentum`)
    acc_i'[j] = max { ν[idx] | idx_i = j }               (`_sketch_diagonal_statistics`; rank 1: ν itself)
    momentum' = quantize_int8(m')
    update    = -lr * (m' + weight_decay * param  if weight_decay > 0 else m')

with `w = 1 - beta if beta != 1 else 1`.

The accumulator part needs nothing but an order (`<`) and a zero: it is written over
`[LT α] [DecidableLT α] [OfNat α 0]` with the update rule `upd : α → α → α` (old value, gradient entry)
as a *parameter*; the code's rule is `codeUpd beta2 w a g = beta2 * a + w * (g * g)`.  The same
definitions are executed at `Rat` (exact, whole histories) and at `Float` (one full step including
`sqrt`, momentum, quantization, weight decay) by `Drv/C12.lean`, and reasoned about in any linear order /
ordered field in `Lemmas/SM3.lean`, `Props/C12.lean`.

Tensors are functions on multi-indices (`List Nat`, one entry per axis); `indices shape` enumerates the
multi-indices of a shape in row-major (numpy) order, so a flat numpy array is `(indices shape).map t`.
-/
import PrecondVerif.Model.Quant

namespace PrecondVerif.SM3
open PrecondVerif.Quant

/-- all multi-indices of a shape, row-major -/
def indices : List Nat → List (List Nat)
  | [] => [[]]
  | d :: ds => (List.range d).flatMap fun i => (indices ds).map (i :: ·)

/-- row-major flat position of a multi-index -/
def ravel (shape idx : List Nat) : Nat :=
  (List.zip shape idx).foldl (fun acc p => acc * p.1 + p.2) 0

/-- a flat (numpy, row-major) array seen as a tensor -/
def ofFlat {β : Type} (dflt : β) (shape : List Nat) (data : Array β) : List Nat → β :=
  fun idx => data.getD (ravel shape idx) dflt

/-! ### accumulators: order-only part -/

section order
variable {α : Type} [LT α] [DecidableLT α] [OfNat α 0]

/-- `jnp.minimum` -/
def minG (a b : α) : α := if b < a then b else a

/-- `jnp.maximum` -/
def maxG (a b : α) : α := if a < b then b else a

/-- `functools.reduce(jnp.minimum, xs)` (left fold; `0` for the empty list, which the code never forms) -/
def minL : List α → α
  | [] => 0
  | v :: vs => vs.foldl minG v

/-- `jnp.max` over a non-empty set of entries (`0` for the empty set) -/
def maxL : List α → α
  | [] => 0
  | v :: vs => vs.foldl maxG v

/-- per-axis accumulator vectors, `diagonal_statistics` -/
abbrev Accs (α : Type) := List (Array α)

/-- entry `j` of the accumulator of axis `i` (`0` outside the stored range) -/
def accGet (accs : Accs α) (i j : Nat) : α := (accs.getD i #[]).getD j 0

/-- the broadcast accumulator values seen by the coordinate `idx`:
`[reshape(acc_i, expanded_shape(i)) for i in range(grad.ndim)]` evaluated at `idx` -/
def coverVals (accs : Accs α) (idx : List Nat) : List α :=
  (List.range idx.length).map fun i => accGet accs i (idx.getD i 0)

/-- `min_i acc_i[idx_i]`.  For rank 1 the fold is over the single value `accumulators[0][idx_0]`, which
is the code's `grad.ndim < 2` branch. -/
def cover (accs : Accs α) (idx : List Nat) : α := minL (coverVals accs idx)

/-- `_moving_averages` at one coordinate, for an arbitrary update rule -/
def nuAt (upd : α → α → α) (accs : Accs α) (g : List Nat → α) (idx : List Nat) : α :=
  upd (cover accs idx) (g idx)

/-- the new statistics tensor, tabulated once: (multi-index, value) in row-major order -/
def nuList (upd : α → α → α) (shape : List Nat) (accs : Accs α) (g : List Nat → α) :
    List (List Nat × α) :=
  (indices shape).map fun idx => (idx, nuAt upd accs g idx)

/-- `jnp.max(ν, axis = all axes but i)[j]` -/
def sliceMax (pairs : List (List Nat × α)) (i j : Nat) : α :=
  maxL ((pairs.filter fun p => p.1.getD i 0 == j).map (·.2))

/-- `_sketch_diagonal_statistics`: one max-reduction per axis.  (For rank 1 the code stores ν itself;
`jnp.max` over an empty list of axes is the identity, see `sm3_rank1_is_adagrad`.) -/
def sketch (shape : List Nat) (pairs : List (List Nat × α)) : Accs α :=
  (List.range shape.length).map fun i =>
    Array.ofFn (n := shape.getD i 0) fun j => sliceMax pairs i j.val

/-- one update of the accumulators -/
def accStep (upd : α → α → α) (shape : List Nat) (accs : Accs α) (g : List Nat → α) : Accs α :=
  sketch shape (nuList upd shape accs g)

/-- `init_fn`: `[jnp.zeros([s]) for s in param.shape]` -/
def initAccs (shape : List Nat) : Accs α := shape.map fun d => Array.replicate d 0

/-- accumulators after a whole gradient history (oldest gradient first) -/
def accRun (upd : α → α → α) (shape : List Nat) (gs : List (List Nat → α)) : Accs α :=
  gs.foldl (accStep upd shape) (initAccs shape)

/-- diagonal AdaGrad / RMSProp with the *same* update rule: one scalar per coordinate -/
def adaRun (upd : α → α → α) (gs : List (List Nat → α)) (idx : List Nat) : α :=
  gs.foldl (fun s g => upd s (g idx)) 0

end order

/-! ### the code's arithmetic -/

section arith
variable {α : Type} [OfNat α 0] [OfNat α 1] [Add α] [Sub α] [Neg α] [Mul α] [Div α]
  [LT α] [DecidableLT α]

/-- `w = (1.0 - beta) if beta != 1.0 else 1.0` -/
def wOf (β : α) : α := if β < 1 then 1 - β else if 1 < β then 1 - β else 1

/-- `beta2 * a + w * grad**2` -/
def codeUpd (β2 w a g : α) : α := β2 * a + w * (g * g)

/-- `1.0 / jnp.sqrt(t + diagonal_epsilon)` with the square root a parameter -/
def rsqrtCode (sqrt : α → α) (eps : α) (t : α) : α := 1 / sqrt (t + eps)

/-- pre-momentum step of one coordinate: `g * preconditioner` -/
def pgEntry (rsqrt : α → α) (g ν : α) : α := g * rsqrt ν

def sumL (l : List α) : α := l.foldl (· + ·) 0

/-- `g / (jnp.linalg.norm(g) + 1e-16)` on the flat data -/
def normalizeG (sqrt : α → α) (normEps : α) (g : List α) : List α :=
  let n := sqrt (sumL (g.map fun x => x * x)) + normEps
  g.map (· / n)

/-- `beta1 * momentum.to_float() + w * preconditioned_grad` -/
def momEntry (β1 w1 mold pg : α) : α := β1 * mold + w1 * pg

/-- hyper-parameters of `sm3(...)`; `lr` is the value of the schedule at the current count,
`buckets` the int8 bucket count of `QuantizedValue` (127) -/
structure Hyper (α : Type) where
  lr : α
  beta1 : α
  beta2 : α
  eps : α
  wd : α
  normEps : α
  normalize : Bool
  buckets : Nat

/-- everything one update produces, flat row-major -/
structure StepOut (α : Type) where
  g : List α          -- gradient actually used (after normalisation)
  nu : List α         -- new statistics tensor
  accs : Accs α       -- new accumulators
  pg : List α         -- pre-momentum (preconditioned) step
  mold : List α       -- dequantized old momentum
  mom : List α        -- new momentum before quantization
  q : List Int        -- stored int8 payload
  bucket : List α     -- stored bucket sizes
  update : List α     -- returned update

variable [NatCast α] [IntCast α] [HasFloor α]

/-- `update_fn` for one parameter tensor: state `(accs, momentum payload mq / bucket sizes mb)`,
parameter and gradient as flat row-major arrays. -/
def fullStep (sqrt : α → α) (h : Hyper α) (shape : List Nat) (accs : Accs α)
    (mq : Array Int) (mb : Array α) (param grad : Array α) : StepOut α :=
  let g0 := grad.toList
  let gl := if h.normalize then normalizeG sqrt h.normEps g0 else g0
  let g := ofFlat 0 shape gl.toArray
  let pairs := nuList (codeUpd h.beta2 (wOf h.beta2)) shape accs g
  let accs' := sketch shape pairs
  let nu := pairs.map (·.2)
  let pg := List.zipWith (pgEntry (rsqrtCode sqrt h.eps)) gl nu
  let rows := rowsOf shape
  let cols := colsOf shape
  let old : QV α := { q := fun i c => mq.getD (i * cols + c) 0, diag := fun _ => 0,
                      bucket := fun c => mb.getD c 0 }
  let mold := toFlat rows cols (dequantize false old)
  let mom := List.zipWith (momEntry h.beta1 (wOf h.beta1)) mold pg
  let qv := quantize h.buckets rows cols false (fromFlat cols mom.toArray)
  let mwd := if 0 < h.wd then List.zipWith (fun m p => m + h.wd * p) mom param.toList else mom
  { g := gl, nu := nu, accs := accs', pg := pg, mold := mold, mom := mom,
    q := toFlat rows cols qv.q, bucket := (List.range cols).map qv.bucket,
    update := mwd.map fun m => -h.lr * m }

end arith

end PrecondVerif.SM3
