/-
Layout calculus for property C07 (state contract) — Mathlib-free, executed by `drv_c07`.

What is modelled (everything that decides the *layout* of the optimizer state, and every
configuration-dependent exception of the current tree):

* `distributed_shampoo(...)`: option validation (`validate`), replicated/pmap `init_fn` (`initLayout`),
  one `update_fn` call at the level of shapes/dtypes/static fields (`layoutStep`: `_compute_stats`,
  `_compute_preconditioners` incl. the quantized variant, `_transform_grad`; every `lax.cond` /
  `efficient_cond` / `while_loop` whose two sides must have equal types is a check that yields
  `Err.internal` on a mismatch; bare asserts of the code are `Err.internal`, explanatory ones
  `Err.reject`), sharded `sharded_init_fn` (`shardedInit`), `sharded_init_shape_and_dtype_fn`
  (`shapeDtypeDecl`), `sharded_init_partition_spec_fn` (`pspecDecl`), `sharded_update_fn`
  (`shardedStep`).
  Options inside the model: block_size (>= 0), best_effort_shape_interpretation,
  merge_small_dims_block_size, graft type (only: has diagonal statistics or not), batch_axis_name
  (given or not), shard_optimizer_states + num_devices_for_pjit, best_effort_memory_usage_reduction,
  skip_preconditioning_dim_size_gt, skip_preconditioning_rank_lt, lobpcg_topk_precondition,
  precondtioner_type, generate_fd_metrics, generate_training_metrics, compression_rank (any sign),
  frequent_directions, reset_preconditioner, average_grad, reuse_preconditioner, eigh,
  statistics_compute_steps, preconditioning_compute_steps, "interval is scheduled".
  Value-only options (betas, epsilons, weight decay, nesterov, momentum kind, learning rate,
  exponent override, clipping, precision, lobpcg_max_iter, start step, thresholds) do not enter a
  layout and are covered by the harness' oracle only.
* `sm3`: `sm3Init`, `sm3Step`.
* Tearfree: validation order of `tearfree(...)` (`tfValidate`, numeric options as `Rat`),
  `tfInit` (grafting mask, reshaper merge/pad, Shampoo blocks, Sketchy axis states incl. per-axis ranks
  from `memory_alloc`, momentum chain, learning-rate state) and `tfStep`. The internals of optax's
  adafactor state are outside the model (an opaque node).

Parameter dtype. The model (and every theorem about it) is the float32 instance: all parameter-shaped
leaves are `float32`. For parameters of another dtype the real optimizers do NOT keep the layout
(known finding K7: updates come back float32, parameter-dtype state leaves — momenta, graft
accumulators — turn float32 after the first update; float64 under x64 trips a `lax.cond` dtype check);
a dtype-parametric model would have `momQV`/`plainQV`/`avgGradOf` carry the parameter dtype at init and
float32 after `transformGrad`, i.e. the fixed-point theorems fail exactly there. The harness runs a
separate oracle-only stream on non-float32 trees and reports dtype-only failures as K7.

`Sig` is the generic pytree signature the harness extracts from the real state objects.
-/
import PrecondVerif.Model.Shapes

namespace PrecondVerif.Layout
open PrecondVerif.Shapes

/-! ### generic signatures -/

inductive SVal where
  | str (s : String) | bool (b : Bool) | nat (n : Nat) | nats (l : List Nat)
  deriving DecidableEq, Repr

inductive Sig where
  | leaf (shape : List Nat) (dt : String)
  | spec (l : List String)
  | node (kind : String) (static : List SVal) (kids : List Sig)
  deriving Repr

inductive DT where
  | f32 | i32 | i8 | i16
  deriving DecidableEq, Repr

def DT.name : DT → String
  | .f32 => "float32" | .i32 => "int32" | .i8 => "int8" | .i16 => "int16"

structure Leaf where
  shape : List Nat
  dt : DT
  deriving DecidableEq, Repr

/-- `QuantizedValue`: three pytree children (`none` = the empty list `[]`) and three static fields -/
structure QV where
  q : Option Leaf
  d : Option Leaf
  b : Option Leaf
  qdt : DT
  xd : Bool
  shape : List Nat
  deriving DecidableEq, Repr

/-- a statistics / preconditioner entry: plain array or quantized triple -/
inductive Mat where
  | plain (l : Leaf) | quant (q : QV)
  deriving DecidableEq, Repr

/-- `TrainingMetrics` whose leaves all have shape `[n]` float32; `fd` = `FDDiagnostics` present -/
structure Metrics where
  n : Nat
  fd : Bool
  deriving DecidableEq, Repr

structure PStats where
  ds : QV
  st : List Mat
  pr : List Mat
  dm : QV
  m : QV
  ag : Option Leaf
  tm : Option Metrics
  deriving DecidableEq, Repr

structure DSLayout where
  count : Leaf
  stats : List PStats
  deriving DecidableEq, Repr

inductive ExcCls where
  | valueError | assertionError | notImplemented
  deriving DecidableEq, Repr

inductive Phase where
  | construct | init | update
  deriving DecidableEq, Repr

inductive Err where
  | reject (ph : Phase) (cls : ExcCls)
  | internal (ph : Phase) (what : String)
  deriving DecidableEq, Repr

def Err.isInternal : Err → Bool
  | .internal _ _ => true
  | .reject _ _ => false

/-! ### Distributed Shampoo configuration -/

structure Cfg where
  blockSize : Nat
  bestEffortShape : Bool
  mergeBlock : Nat
  graftHasDiag : Bool
  batchAxis : Bool
  shard : Bool
  ndev : Nat
  memReduction : Bool
  skipDimGt : Nat
  skipRankLt : Nat
  lobpcgTopk : Nat
  ptype : PType
  fdMetrics : Bool
  trainMetrics : Bool
  compRank : Int
  fd : Bool
  reset : Bool
  avgGrad : Bool
  reuse : Bool
  eigh : Bool
  statSteps : Nat
  precondSteps : Nat
  scheduled : Bool
  deriving Repr

def Cfg.r (c : Cfg) : Nat := c.compRank.natAbs
/-- `generate_fd_metrics and frequent_directions` -/
def Cfg.genFd (c : Cfg) : Bool := c.fdMetrics && c.fd
/-- `quantize_second_moment` (the int16 buffers exist on the pmap path only) -/
def Cfg.quant2 (c : Cfg) : Bool := c.memReduction && c.compRank == 0 && !c.fd && c.batchAxis && !c.shard

/-- the checks at the top of `distributed_shampoo(...)`, in source order -/
def validate (c : Cfg) : Except Err Unit :=
  if c.reset && !c.fd then .error (.reject .construct .valueError)
  else if c.fd && decide (c.compRank ≤ 0) then .error (.reject .construct .valueError)
  else if c.fd && !c.reuse then .error (.reject .construct .valueError)
  else if c.avgGrad && !c.fd then .error (.reject .construct .valueError)
  -- `num_devices_for_pjit` None / < 1 is transported as `ndev = 0`
  else if c.shard && decide (c.ndev < 1) then .error (.reject .construct .valueError)
  else if c.fd && decide (c.statSteps ≠ c.precondSteps) then .error (.reject .construct .valueError)
  else .ok ()

/-! ### per-parameter pieces -/

def skipParam (c : Cfg) (shape : List Nat) : Bool :=
  decide (shape.length < c.skipRankLt) || shape.any (fun s => decide (s > c.skipDimGt))

def tshape (c : Cfg) (shape : List Nat) : List Nat :=
  if c.bestEffortShape then mergeSmallDims shape c.mergeBlock else shape

/-- `shapes_for_preconditioners()` of the parameter's `Preconditioner` -/
def pshapes (c : Cfg) (shape : List Nat) : List (Nat × Nat) :=
  shapesForPreconditioners c.ptype c.r (tshape c shape) c.blockSize

/-- statistic sizes of a parameter (empty when preconditioning is skipped) -/
def statDims (c : Cfg) (shape : List Nat) : List Nat :=
  if skipParam c shape then [] else (pshapes c shape).map (·.1)

def f32Leaf (shape : List Nat) : Leaf := ⟨shape, .f32⟩

def plainQV (shape : List Nat) : QV := ⟨some (f32Leaf shape), none, none, .f32, false, shape⟩
def emptyQV : QV := ⟨none, none, none, .f32, false, []⟩

/-- `_quantize_momentum(zeros_like(param))` -/
def momQV (c : Cfg) (shape : List Nat) : QV :=
  if c.memReduction && decide (shape.length > 1) then
    ⟨some ⟨shape, .i8⟩, none, some (f32Leaf shape.tail), .i8, false, shape⟩
  else plainQV shape

/-- a `[d, e]` statistics / preconditioner entry in the storage format of the configuration -/
def matOf (c : Cfg) (d e : Nat) : Mat :=
  if c.quant2 then
    .quant ⟨some ⟨[d, e], .i16⟩, some (f32Leaf [d]), some (f32Leaf [d]), .i16, true, [d, e]⟩
  else .plain (f32Leaf [d, e])

def avgGradOf (c : Cfg) (shape : List Nat) : Option Leaf :=
  if c.fd && c.avgGrad then some (f32Leaf shape) else none

def metricsOf (c : Cfg) (n : Nat) : Option Metrics :=
  if c.trainMetrics then some ⟨n, c.genFd⟩ else none

/-- `init_fn._init(param)` -/
def initParam (c : Cfg) (shape : List Nat) : PStats :=
  let dims := if skipParam c shape then [] else pshapes c shape
  { ds := if c.graftHasDiag then plainQV shape else emptyQV
    st := dims.map fun p => matOf c p.1 p.1
    pr := dims.map fun p => matOf c p.1 p.2
    dm := momQV c shape
    m := momQV c shape
    ag := avgGradOf c shape
    tm := metricsOf c dims.length }

def countLeaf : Leaf := ⟨[], .i32⟩

def initLayout (c : Cfg) (ps : List (List Nat)) : DSLayout :=
  ⟨countLeaf, ps.map (initParam c)⟩

/-- `optimizer.init(params)` in replicated / pmap mode -/
def layoutInit (c : Cfg) (ps : List (List Nat)) : Except Err DSLayout := do
  validate c
  pure (initLayout c ps)

/-! ### one update in replicated / pmap mode -/

def maxList (l : List Nat) : Nat := l.foldr max 0

def Mat.dim0 : Mat → Nat
  | .plain l => l.shape.headD 0
  | .quant q => q.shape.headD 0

/-- explanatory rejections raised while the preconditioners of an update are computed, for the
padded statistic size `maxSize` (`precond_dim` / `new_mi_pth_root` assertion message, then the
`lobpcg_topk_precondition` ValueError of `matrix_inverse_pth_root`) -/
def rootReject (c : Cfg) (maxSize : Nat) (ph : Phase) : Option Err :=
  if c.compRank ≠ 0 ∧ c.r + 2 ≥ maxSize then some (.reject ph .assertionError)
  else if c.lobpcgTopk > 0 ∧ !c.eigh ∧ 5 * c.lobpcgTopk ≥ maxSize then some (.reject ph .valueError)
  else none

/-- `_compute_stats` for one parameter: new statistics list and new `avg_grad` -/
def computeStats (c : Cfg) (shape : List Nat) (s : PStats) : Except Err (List Mat × Option Leaf) :=
  if skipParam c shape then
    -- `[[]] * len(state.statistics)`: stays the empty list only if there were no statistics
    if s.st = [] then .ok ([], s.ag) else .error (.internal .update "statistics of a skipped parameter")
  else do
    let ag ← if c.fd && c.avgGrad then
        (match s.ag with
         | some l => if l.shape = shape then pure (some (f32Leaf shape))
                     else .error (.internal .update "avg_grad shape")
         | none => .error (.internal .update "avg_grad is a MaskedNode"))
      else pure s.ag
    let new := (pshapes c shape).map fun p => matOf c p.1 p.1
    -- `stats[index]` for every block/axis
    if s.st.length < new.length then .error (.internal .update "IndexError statistics")
    -- `efficient_cond(perform_step, compute, init_state=state.statistics)`: equal carry types
    else if c.statSteps > 1 ∧ s.st ≠ new then .error (.internal .update "statistics while_loop carry")
    else pure (new, ag)

/-- the preconditioner entry produced for a statistic of size `d` when roots are computed at padded
size `maxSize`: `p[:shape[0], :shape[1]]` of a `[maxSize, precond_dim(maxSize)]` root -/
def newPrecond (c : Cfg) (maxSize d : Nat) : Mat :=
  matOf c (min d maxSize) (min d (precondDim c.r maxSize))

def zipWithE {α β γ} (f : α → β → Except Err γ) : List α → List β → Except Err (List γ)
  | a :: as, b :: bs => do
      let x ← f a b
      let xs ← zipWithE f as bs
      pure (x :: xs)
  | _, _ => pure []

/-- `_select_preconditioner`: `lax.cond` over (old, new) needs equal types; the result has them -/
def selectPrecond (c : Cfg) (maxSize : Nat) (stat prev : Mat) : Except Err Mat :=
  if newPrecond c maxSize stat.dim0 = prev then .ok prev
  else .error (.internal .update "preconditioner cond types")

/-- `efficient_cond(perform_step, [metrics_for_state], [state.training_metrics])`: equal carry types -/
def metricsCarry (c : Cfg) (n : Nat) (old : Option Metrics) : Except Err (Option Metrics) :=
  if c.trainMetrics then
    (if old = some ⟨n, c.genFd⟩ then .ok old else .error (.internal .update "metrics carry types"))
  else .ok none

/-- `_compute_preconditioners` for one parameter, given the padded size of the whole tree -/
def computePrecond (c : Cfg) (maxSize : Nat) (st : List Mat) (s : PStats) :
    Except Err (List Mat × Option Metrics) :=
  if st = [] then
    -- `num_statistics == 0`: `[]` and `init_training_metrics(0, ...)`
    .ok ([], metricsOf c 0)
  else if s.pr.length ≠ st.length then .error (.internal .update "number of preconditioners")
  else match zipWithE (selectPrecond c maxSize) st s.pr, metricsCarry c st.length s.tm with
    | .ok pr, .ok tm => .ok (pr, tm)
    | .error e, _ => .error e
    | _, .error e => .error e

/-- the payload of a `QuantizedValue` dequantizes to an array of the given shape -/
def qvShapeIs (q : QV) (shape : List Nat) : Bool :=
  match q.q with
  | some l => decide (l.shape = shape)
  | none => false

/-- `_transform_grad` for one parameter -/
def transformGrad (c : Cfg) (shape : List Nat) (s : PStats) : Except Err (QV × QV × QV) := do
  let ds ← if c.graftHasDiag then
      (match s.ds.q with
       | some l => if l.shape = shape then pure (plainQV shape)
                   else .error (.internal .update "diagonal statistics shape")
       | none => .error (.internal .update "diagonal statistics missing"))
    else
      (match s.ds.q with
       | some l => pure (plainQV l.shape)
       | none => pure emptyQV)
  if qvShapeIs s.dm shape && qvShapeIs s.m shape then pure (ds, momQV c shape, momQV c shape)
  else .error (.internal .update "momentum shape")

def mapE {α β} (f : α → Except Err β) : List α → Except Err (List β)
  | [] => pure []
  | a :: as => do
      let x ← f a
      let xs ← mapE f as
      pure (x :: xs)

/-- one parameter through `_compute_stats`, `_compute_preconditioners`, `_transform_grad`,
`noStats` = the whole tree has no statistics (`_pmap_compute_preconditioners` returns early) -/
def stepParam (c : Cfg) (maxSize : Nat) (noStats : Bool) (x : List Nat × PStats) : Except Err PStats := do
  let (shape, s) := x
  let (st, ag) ← computeStats c shape s
  let (pr, tm) ← if noStats then pure (s.pr, s.tm) else computePrecond c maxSize st s
  let (ds, dm, m) ← transformGrad c shape s
  pure { ds := ds, st := st, pr := pr, dm := dm, m := m, ag := ag, tm := tm }

/-- `update_fn(grads, state, params)` on layouts (replicated / pmap mode) -/
def layoutStep (c : Cfg) (ps : List (List Nat)) (L : DSLayout) : Except Err DSLayout :=
  if L.stats.length ≠ ps.length then .error (.internal .update "treedef.flatten_up_to")
  else
    let dims := ps.flatMap (statDims c)
    let maxSize := maxList dims
    match (if dims = [] then none else rootReject c maxSize .update) with
    | some e => .error e
    | none => do
      let stats ← mapE (stepParam c maxSize (dims = [])) (ps.zip L.stats)
      pure ⟨L.count, stats⟩

/-- `k` updates -/
def layoutSteps (c : Cfg) (ps : List (List Nat)) : Nat → DSLayout → Except Err DSLayout
  | 0, L => pure L
  | k + 1, L => do
      let L' ← layoutStep c ps L
      layoutSteps c ps k L'

/-- shapes/dtypes of the update tree returned by `update_fn`: `transformed_update` has the shape of
the gradient, which the caller supplies in the parameters' structure -/
def updateShapes (_c : Cfg) (ps : List (List Nat)) : List Leaf := ps.map f32Leaf

/-- `init` followed by `k` updates: the outcome the harness observes -/
def dsRun (c : Cfg) (ps : List (List Nat)) (k : Nat) : Except Err DSLayout := do
  let L ← layoutInit c ps
  layoutSteps c ps k L

/-! ### sharded mode -/

structure LocalStats where
  ds : QV
  dm : QV
  m : QV
  ag : Option Leaf
  tm : Option Metrics
  indexStart : Nat
  sizes : List Nat
  deriving DecidableEq, Repr

structure ShardedLayout where
  count : Leaf
  gStats : Leaf
  gPrecond : Leaf
  gExp : Leaf
  locals : List LocalStats
  deriving DecidableEq, Repr

/-- Python's `-n % k` for `k > 0` -/
def negMod (n k : Nat) : Nat := (k - n % k) % k

/-- `(total number of stacked matrices, padded size)` of the global statistics -/
def globalDims (c : Cfg) (ps : List (List Nat)) : Nat × Nat :=
  let dims := ps.flatMap (statDims c)
  let maxSize := maxList dims
  if maxSize = 0 then (dims.length + c.ndev, max c.blockSize 1)
  else (dims.length + negMod dims.length c.ndev, maxSize)

/-- `index_start` of each parameter: running count of statistics -/
def indexStarts (c : Cfg) : List (List Nat) → Nat → List Nat
  | [], _ => []
  | s :: ss, k => k :: indexStarts c ss (k + (statDims c s).length)

def localOf (c : Cfg) (shape : List Nat) (ix : Nat) : LocalStats :=
  { ds := plainQV shape, dm := momQV c shape, m := momQV c shape, ag := avgGradOf c shape,
    tm := metricsOf c (statDims c shape).length, indexStart := ix, sizes := statDims c shape }

/-- the explanatory `precond_dim` assertion of `sharded_init_fn` fires: the padded size is too small for
the packed representation, or (no statistics at all) `precond_dim(0)` is evaluated inside the loop for a
parameter that is not skipped -/
def shardedInitRejects (c : Cfg) (ps : List (List Nat)) : Bool :=
  decide (c.compRank ≠ 0) &&
    (decide (c.r + 2 ≥ (globalDims c ps).2) ||
     (decide (maxList (ps.flatMap (statDims c)) = 0) && ps.any (fun s => !skipParam c s)))

/-- `sharded_init_fn(params)` -/
def shardedInit (c : Cfg) (ps : List (List Nat)) : Except Err ShardedLayout := do
  validate c
  let (n, ms) := globalDims c ps
  if shardedInitRejects c ps then .error (.reject .init .assertionError)
  else pure (
    { count := countLeaf
      gStats := f32Leaf [n, ms, ms]
      gPrecond := f32Leaf [n, ms, precondDim c.r ms]
      gExp := ⟨[n], .i32⟩
      locals := (ps.zip (indexStarts c ps 0)).map fun (s, ix) => localOf c s ix } : ShardedLayout)

/-- the per-parameter part of `sharded_update_fn`: the local entry is converted to `ParameterStats`
(`_convert_to_parameter_stats`: slices `[:size, :size]` of the global statistics), carried through
`_compute_stats` / `_transform_grad`, and converted back -/
def shardedStepLocal (c : Cfg) (ms : Nat) (x : List Nat × LocalStats) : Except Err LocalStats := do
  let (shape, l) := x
  let st := l.sizes.map fun d => Mat.plain (f32Leaf [min d ms, min d ms])
  let s : PStats := { ds := l.ds, st := st, pr := [], dm := l.dm, m := l.m, ag := l.ag, tm := l.tm }
  let (st', ag) ← computeStats c shape s
  let (ds, dm, m) ← transformGrad c shape s
  -- `_maybe_quantize_statistics` would hand QuantizedValues to `pad_square_matrix` / `jnp.stack`
  if c.quant2 then .error (.internal .update "quantized statistics in sharded mode")
  -- `pad_square_matrix(stat, max_size)` raises when a statistic is larger than the padded size
  else if st'.any (fun x => decide (x.dim0 > ms)) then .error (.internal .update "pad_square_matrix")
  -- `_add_metrics_into_local_stats`: efficient_cond over (old metrics, sliced new metrics)
  else if c.trainMetrics ∧ l.tm ≠ some ⟨l.sizes.length, c.genFd⟩ then
    .error (.internal .update "metrics carry types")
  else if st'.length ≠ l.sizes.length then .error (.internal .update "global statistics count")
  else pure { l with ds := ds, dm := dm, m := m, ag := ag }

def sumSizes (locals : List LocalStats) : Nat := (locals.map fun l => l.sizes.length).foldr (· + ·) 0

/-- `sharded_update_fn` on layouts: local entries per parameter, the global arrays are re-stacked -/
def shardedStep (c : Cfg) (ps : List (List Nat)) (L : ShardedLayout) : Except Err ShardedLayout :=
  if L.locals.length ≠ ps.length then .error (.internal .update "treedef.flatten_up_to")
  else
    let ms := (L.gStats.shape.drop 1).headD 0
    match rootReject c ms .update with
    | some e => .error e
    | none =>
      match mapE (shardedStepLocal c ms) (ps.zip L.locals) with
      | .error e => .error e
      | .ok locals =>
        let n := sumSizes locals
        let tot := if n = 0 then c.ndev else n + negMod n c.ndev
        -- `jnp.where(predicate, old preconditioners, new)`: broadcasting to one shape
        if f32Leaf [tot, ms, precondDim c.r ms] ≠ L.gPrecond then
          .error (.internal .update "global preconditioner shape")
        else .ok { L with gStats := f32Leaf [tot, ms, ms], locals := locals }

/-- `k` sharded updates -/
def shardedSteps (c : Cfg) (ps : List (List Nat)) : Nat → ShardedLayout → Except Err ShardedLayout
  | 0, L => pure L
  | k + 1, L => do
      let L' ← shardedStep c ps L
      shardedSteps c ps k L'

/-! ### signatures of layouts -/

def leafSig (l : Leaf) : Sig := .leaf l.shape l.dt.name
def emptyList : Sig := .node "list" [] []
def masked : Sig := .node "MaskedNode" [] []
def optLeafSig : Option Leaf → Sig
  | some l => leafSig l
  | none => emptyList

def qvSig (q : QV) : Sig :=
  .node "QuantizedValue" [.str q.qdt.name, .bool q.xd, .nats q.shape]
    [optLeafSig q.q, optLeafSig q.d, optLeafSig q.b]

def matSig : Mat → Sig
  | .plain l => leafSig l
  | .quant q => qvSig q

def agSig : Option Leaf → Sig
  | some l => leafSig l
  | none => masked

def tmSig : Option Metrics → Sig
  | none => masked
  | some m => .node "TrainingMetrics" []
      [.leaf [m.n] "float32",
       if m.fd then .node "FDDiagnostics" [] [.leaf [m.n] "float32"] else masked]

def pstatsSig (s : PStats) : Sig :=
  .node "ParameterStats" []
    [qvSig s.ds, .node "list" [] (s.st.map matSig), .node "list" [] (s.pr.map matSig),
     qvSig s.dm, qvSig s.m, agSig s.ag, tmSig s.tm]

def dsSig (L : DSLayout) : Sig :=
  .node "ShampooState" [] [leafSig L.count, .node "ptree" [] (L.stats.map pstatsSig)]

def localSig (l : LocalStats) : Sig :=
  .node "LocalShardedParameterStats" [.nat l.indexStart, .nats l.sizes]
    [qvSig l.ds, qvSig l.dm, qvSig l.m, agSig l.ag, tmSig l.tm]

def shardedSig (L : ShardedLayout) : Sig :=
  .node "ShampooState" []
    [leafSig L.count,
     .node "ShardedShampooStats" []
       [.node "GlobalShardedParameterStats" [] [leafSig L.gStats, leafSig L.gPrecond, leafSig L.gExp],
        .node "ptree" [] (L.locals.map localSig)]]

/-! ### declared shapes/dtypes and partition specs (sharded mode), written after the source -/

/-- `QuantizedValue(m1_shape_and_dtype, [], m1_scale_shape_and_dtype, qdtype, False, shape)` -/
def declMom (c : Cfg) (shape : List Nat) : Sig :=
  if c.memReduction && decide (shape.length > 1) then
    .node "QuantizedValue" [.str "int8", .bool false, .nats shape]
      [.leaf shape "int8", emptyList, .leaf shape.tail "float32"]
  else
    .node "QuantizedValue" [.str "float32", .bool false, .nats shape]
      [.leaf shape "float32", emptyList, emptyList]

def declLocal (c : Cfg) (shape : List Nat) (ix : Nat) : Sig :=
  let sizes := statDims c shape
  .node "LocalShardedParameterStats" [.nat ix, .nats sizes]
    [.node "QuantizedValue" [.str "float32", .bool false, .nats shape]
       [.leaf shape "float32", emptyList, emptyList],
     declMom c shape, declMom c shape,
     (if c.fd && c.avgGrad then .leaf shape "float32" else masked),
     tmSig (metricsOf c sizes.length)]

/-- `sharded_init_shape_and_dtype_fn(params)` -/
def shapeDtypeDecl (c : Cfg) (ps : List (List Nat)) : Except Err Sig := do
  validate c
  let dims := ps.flatMap (statDims c)
  let n0 := dims.length
  let n1 := n0 + negMod n0 c.ndev
  let (n, ms) := if n1 = 0 then (c.ndev, max c.blockSize 1) else (n1, maxList dims)
  if c.compRank ≠ 0 ∧ c.r + 2 ≥ ms then .error (.reject .init .assertionError)
  else pure (
    Sig.node "ShampooState" []
      [.leaf [] "int32",
       .node "ShardedShampooStats" []
         [.node "GlobalShardedParameterStats" []
            [.leaf [n, ms, ms] "float32", .leaf [n, ms, precondDim c.r ms] "float32", .leaf [n] "int32"],
          .node "ptree" [] ((ps.zip (indexStarts c ps 0)).map fun (s, ix) => declLocal c s ix)]])

def specMom (c : Cfg) (shape : List Nat) (pspec : List String) : Sig :=
  if c.memReduction && decide (shape.length > 1) then
    .node "QuantizedValue" [.str "int8", .bool false, .nats shape]
      [.spec pspec, emptyList, (if pspec.length > 1 then .spec pspec.tail else .spec [])]
  else
    .node "QuantizedValue" [.str "float32", .bool false, .nats shape]
      [.spec pspec, emptyList, emptyList]

def specTm (c : Cfg) : Sig :=
  if c.trainMetrics then
    .node "TrainingMetrics" [] [.spec [], if c.genFd then .node "FDDiagnostics" [] [.spec []] else masked]
  else masked

def specLocal (c : Cfg) (shape : List Nat) (pspec : List String) (ix : Nat) : Sig :=
  .node "LocalShardedParameterStats" [.nat ix, .nats (statDims c shape)]
    [.node "QuantizedValue" [.str "float32", .bool false, .nats shape] [.spec pspec, emptyList, emptyList],
     specMom c shape pspec, specMom c shape pspec,
     (if c.fd && c.avgGrad then .spec pspec else masked),
     specTm c]

/-- `sharded_init_partition_spec_fn(params, params_partition_spec, partition_spec_for_statistics)` -/
def pspecDecl (c : Cfg) (ps : List (List Nat)) (pspecs : List (List String)) (statSpec : List String) : Sig :=
  .node "ShampooState" []
    [.spec [],
     .node "ShardedShampooStats" []
       [.node "GlobalShardedParameterStats" [] [.spec statSpec, .spec statSpec, .spec []],
        .node "ptree" [] (((ps.zip pspecs).zip (indexStarts c ps 0)).map fun ((s, p), ix) => specLocal c s p ix)]]

/-- forget shapes, dtypes and specs: the tree structure (node kinds, static fields, arity) only -/
def skeleton : Sig → Sig
  | .leaf _ _ => .leaf [] ""
  | .spec _ => .leaf [] ""
  | .node k s kids => .node k s (kids.map skeleton)

/-! ### SM3 -/

structure SM3Param where
  acc : List Leaf
  mom : QV
  deriving DecidableEq, Repr

def sm3MomQV (shape : List Nat) : QV :=
  ⟨some ⟨shape, .i8⟩, none, some (f32Leaf shape.tail), .i8, false, shape⟩

def sm3InitParam (shape : List Nat) : SM3Param := ⟨shape.map fun s => f32Leaf [s], sm3MomQV shape⟩

/-- `sm3(...).init(params)`: int8 quantization of the momentum rejects rank-0 parameters -/
def sm3Init (ps : List (List Nat)) : Except Err (List SM3Param) :=
  if ps.any (fun s => s.isEmpty) then .error (.reject .init .valueError)
  else pure (ps.map sm3InitParam)

/-- one `update_fn`: the accumulators are reshaped to `[1,..,s_i,..,1]` (needs `acc_i` of size `s_i`),
reduced back along the other axes; the momentum is re-quantized from `to_float() + grad` -/
def sm3StepParam (x : List Nat × SM3Param) : Except Err SM3Param :=
  let (shape, s) := x
  if s.acc ≠ shape.map (fun d => f32Leaf [d]) then .error (.internal .update "accumulator reshape")
  else match s.mom.q with
    | some l => if l.shape = shape then pure ⟨shape.map fun d => f32Leaf [d], sm3MomQV shape⟩
                else .error (.internal .update "momentum shape")
    | none => .error (.internal .update "momentum missing")

def sm3Step (ps : List (List Nat)) (L : List SM3Param) : Except Err (List SM3Param) :=
  if L.length ≠ ps.length then .error (.internal .update "treedef.flatten_up_to")
  else mapE sm3StepParam (ps.zip L)

def sm3Sig (L : List SM3Param) : Sig :=
  .node "SM3State" []
    [.leaf [] "int32",
     .node "ptree" [] (L.map fun p =>
        .node "ParameterStats" [] [.node "list" [] (p.acc.map leafSig), qvSig p.mom])]

/-! ### Tearfree -/

inductive TFGraft where
  | none | sgd | rmsprop | adafactor
  deriving DecidableEq, Repr

structure TFShampoo where
  blockSize : Int
  pf : Int
  sf : Int
  decay : Rat
  deriving Repr

structure TFSketchy where
  rank : Int
  updateFreq : Int
  decay : Rat
  addGgt : Bool
  ekfac : Bool
  /-- `memory_alloc`: per parameter (flatten order) the per-axis ranks, as the nested dict written by
  `reallocation.create_redist_dict` holds them; `none` = no dict (or an empty one): global `rank` -/
  alloc : Option (List (List Nat))
  deriving Repr

structure TFCfg where
  graft : TFGraft
  graftDecay : Rat
  graftEps : Rat
  skipGt : Nat
  skipRank1 : Bool
  minDimFactor : Int
  clipThreshold : Rat
  mergeDims : Int
  sketchy : Bool                 -- second_order_type == SKETCHY
  sh : Option TFShampoo
  sk : Option TFSketchy
  momDecay : Rat
  ema : Bool
  wd : Rat
  wdAfter : Bool
  lrSched : Bool
  deriving Repr

def rejC : Except Err Unit := .error (.reject .construct .valueError)

def inUnit (q : Rat) : Bool := decide (0 ≤ q) && decide (q ≤ 1)

/-- some option check of `tearfree(...)` fails. The constructor runs them in this order —
`second_order.apply` (`_reshaper_options`: options object present; `reshaper.merge`: merge_dims, block
size; `_update_stats_and_precondition` → `shampoo._validate` / `sketchy._validate`), then
`grafting._validate`, then `momentum._validate` — and every one raises `ValueError` at construction, so
outcome kind, phase and class do not depend on which fires first. -/
def tfInvalid (c : TFCfg) : Bool :=
  let bs : Int := if c.sketchy then 0 else match c.sh with
    | some s => s.blockSize
    | none => 0
  -- _reshaper_options / _update_stats_and_precondition: the options object must be present
  (if c.sketchy then c.sk.isNone else c.sh.isNone) ||
  -- reshaper.merge
  decide (c.mergeDims < 2) || (decide (bs < 2) && decide (bs ≠ 0)) ||
  -- sketchy._validate / shampoo._validate
  (if c.sketchy then
     (match c.sk with
      | none => true
      | some k => decide (k.updateFreq ≤ 0) || !inUnit k.decay || decide (k.rank ≤ 0))
   else
     (match c.sh with
      | none => true
      | some s => decide (s.blockSize ≤ 1) || decide (s.pf ≤ 0) || decide (s.sf ≤ 0) || !inUnit s.decay)) ||
  -- grafting._validate
  ((c.graft == .rmsprop || c.graft == .adafactor) && decide (c.graftEps < 0)) ||
  (c.graft == .rmsprop && !(decide (0 < c.graftDecay) && decide (c.graftDecay ≤ 1))) ||
  (c.graft == .adafactor &&
     (!(decide (0 < c.graftDecay) && decide (c.graftDecay < 1)) || !decide (0 < c.minDimFactor) ||
      decide (c.clipThreshold < 1))) ||
  -- momentum._validate
  !inUnit c.momDecay || !decide (c.wd ≥ 0)

def tfValidate (c : TFCfg) : Except Err Unit := if tfInvalid c then rejC else .ok ()

/-- `_mask_skipped`: parameter is left to the grafting update only -/
def tfMasked (c : TFCfg) (shape : List Nat) : Bool :=
  c.graft != .none &&
    ((c.skipRank1 && decide (shape.length ≤ 1)) || shape.any (fun s => decide (s > c.skipGt)))

/-- per-parameter second-order state: `none` = `_GraftMask`, otherwise lists of leaf groups -/
inductive TFParam where
  | masked
  | blocks (stats roots : List Leaf)
  | axes (ax : List (List (Option Leaf)))
  deriving DecidableEq, Repr

def tfBlockSize (c : TFCfg) : Nat :=
  if c.sketchy then 0 else match c.sh with
    | some s => s.blockSize.toNat
    | none => 0

/-- the (merged, padded) shape the second-order transform sees -/
def tfShape (c : TFCfg) (shape : List Nat) : List Nat :=
  (deriveShapes c.mergeDims.toNat (tfBlockSize c) shape).padded

/-- one `_AxisState` of a dimension `d` with sketch rank `rk` (`options.rank` or the `memory_alloc` entry) -/
def sketchAxis (k : TFSketchy) (shape : List Nat) (d rk : Nat) : List (Option Leaf) :=
  let r := min d rk
  let m := min d (r + prod shape / d)
  [some (f32Leaf [d, r]), some (f32Leaf [r]), some (f32Leaf [r]), some (f32Leaf []), some (f32Leaf []),
   (if k.addGgt then some (f32Leaf [d, d]) else none),
   (if k.ekfac then some (f32Leaf [d, m]) else none),
   (if k.ekfac then some (f32Leaf [m]) else none),
   (if k.ekfac then some (f32Leaf []) else none)]

/-- per-axis ranks of a parameter: its `memory_alloc` row (first `ndim` entries) or the global rank -/
def axisRanks (k : TFSketchy) (s : List Nat) (row : Option (List Nat)) : List Nat :=
  match row with
  | some r => r
  | none => s.map fun _ => k.rank.toNat

/-- a parameter as the second-order transform sees it: original shape and its `memory_alloc` row -/
abbrev TFInput := List Nat × Option (List Nat)

def zipRows : List (List Nat) → List (List Nat) → List TFInput
  | [], _ => []
  | s :: ss, [] => (s, none) :: zipRows ss []
  | s :: ss, r :: rs => (s, some r) :: zipRows ss rs

def tfInputs (c : TFCfg) (ps : List (List Nat)) : List TFInput :=
  match c.sk.bind (·.alloc) with
  | some rows => zipRows ps rows
  | none => ps.map fun s => (s, none)

/-- second-order state of one parameter (`shampoo._init.make_blocks` / `sketchy._init._tensor_state`
on the merged and padded shape); `.error` = the explanatory ValueError of `make_blocks` -/
def tfParam (c : TFCfg) (x : TFInput) : Except Err TFParam :=
  let shape := x.1
  if tfMasked c shape then pure .masked
  else
    let s := tfShape c shape
    if c.sketchy then
      match c.sk with
      | some k => pure (.axes (List.zipWith (sketchAxis k s) s (axisRanks k s x.2)))
      | none => .error (.internal .init "no sketchy options")
    else
      let b := tfBlockSize c
      if s.any (· == 1) then .error (.reject .init .valueError)
      else if (s.filter (· ≥ b)).length > 2 then .error (.reject .init .valueError)
      else if s.any (fun d => decide (d ≥ b) && decide (d % b ≠ 0)) then .error (.reject .init .valueError)
      else
        let m := blocksMetadata b s
        let ls := m.blockSizes.map fun d => f32Leaf [m.numBlocks, d, d]
        pure (.blocks ls ls)

structure TFLayout where
  params : List TFParam
  inputs : List TFInput
  deriving DecidableEq, Repr

def tfInit (c : TFCfg) (ps : List (List Nat)) : Except Err TFLayout := do
  tfValidate c
  let l ← mapE (tfParam c) (tfInputs c ps)
  pure ⟨l, tfInputs c ps⟩

/-- one update of the second-order states: the statistics / roots / sketches computed from the
blockified gradient must have the types of the stored ones (`lax.cond(should_update, new, old)`) -/
def tfStepParam (c : TFCfg) (x : TFInput × TFParam) : Except Err TFParam :=
  match tfParam c x.1 with
  | .error _ => .error (.internal .update "update-time shape error")
  | .ok n => if n = x.2 then pure n else .error (.internal .update "cond branch types")

def tfStep (c : TFCfg) (L : TFLayout) : Except Err TFLayout :=
  if L.params.length ≠ L.inputs.length then .error (.internal .update "treedef")
  else do
    let l ← mapE (tfStepParam c) (L.inputs.zip L.params)
    pure { L with params := l }

/-- `k` updates -/
def tfSteps (c : TFCfg) : Nat → TFLayout → Except Err TFLayout
  | 0, L => pure L
  | k + 1, L => do
      let L' ← tfStep c L
      tfSteps c k L'

/-- constructor, `init` and `k` updates: what the harness observes -/
def tfRun (c : TFCfg) (ps : List (List Nat)) (k : Nat) : Except Err TFLayout := do
  let L ← tfInit c ps
  tfSteps c k L

def tfParamSig (c : TFCfg) : TFParam → Sig
  | .masked => .node "_GraftMask" [] []
  | .blocks st ro =>
      .node "_AxesBlocks" [] [.node "list" [] (st.map leafSig), .node "list" [] (ro.map leafSig)]
  | .axes ax =>
      let _ := c
      .node "_TensorState" [] [.node "list" [] (ax.map fun a => .node "_AxisState" [] (a.map agSig))]

def emptyState : Sig := .node "EmptyState" [] []

def tfSig (c : TFCfg) (L : TFLayout) : Sig :=
  let ptreeLeaves := Sig.node "ptree" [] (L.inputs.map fun x => .leaf x.1 "float32")
  let precond := Sig.node (if c.sketchy then "_SketchyState" else "_ShampooState") []
    [.leaf [] "int32", .node "ptree" [] (L.params.map (tfParamSig c))]
  let direction := Sig.node "tuple" [] [masked, precond, masked]
  let graft := match c.graft with
    | .none => direction
    | .sgd => .node "GraftingState" [] [.leaf [] "int32", direction, emptyState]
    | .rmsprop => .node "GraftingState" [] [.leaf [] "int32", direction, .node "RMSPropAccumulator" [] [ptreeLeaves]]
    | .adafactor => .node "GraftingState" [] [.leaf [] "int32", direction, .node "opaque" [] []]
  let momT := if c.momDecay ≠ 0 then
      (if c.ema then [emptyState] else []) ++ [Sig.node "TraceState" [] [ptreeLeaves]]
    else []
  let wdT := if c.wd > 0 then [emptyState] else []
  let mom := Sig.node "tuple" [] (if c.wdAfter then momT ++ wdT else wdT ++ momT)
  let lr := if c.lrSched then Sig.node "ScaleByScheduleState" [] [.leaf [] "int32"] else emptyState
  .node "tuple" [] [graft, mom, lr]

end PrecondVerif.Layout
