/-
Model of the low-rank ("compressed") preconditioner representation of
`precondition/distributed_shampoo.py` (property C10).  No Mathlib.

Mirrors
  * `_fd_low_rank_pack` / `_fd_low_rank_unpack` / `_low_rank_pack` / `_low_rank_unpack`
    (the literal slot indices, written with the code's own negative-index arithmetic
    `sd - 2`, `sd - 1`, `d - r`, `d - 1`; the `.at[..].set(..)` calls are applied in the
    code's order, later ones overriding earlier ones),
  * the compressed branch of `Preconditioner._precondition_block` (`applyPacked`), the dense
    branch (`applyDense`) and the loop over the axes of a gradient block (`blockLoop`),
  * `_low_rank_root` after the `eigh` call (`lowRankRoot`), the matrix handed to `eigh`
    (`regularizedInput`) and their composition with `eigh` as a parameter (`lowRankRootOf`).
  `_precond_dim` / `_should_compress` are `Shapes.precondDim` / `Shapes.shouldCompress`.

Matrices are `Mat α m n = Fin m → Fin n → α` (definitionally Mathlib's `Matrix (Fin m) (Fin n) α`),
sums are `List.finRange` sums.  All definitions are generic in the scalar type through notation
classes; the driver runs them at `Rat` (exact) and `Float`, the theorems are proved for every
commutative ring / linearly ordered field.

A gradient block of any tensor rank enters the compressed branch with the preconditioned axis
first (loop invariant of `_precondition_block`); `tensordot(g, ·, axes=[[0],[0]])` and the cyclic
`transpose` only see the row-major view `(d, n)` with `n` the product of the other dimensions, so
one step is a map `Mat α d n → Mat α n d`, and `blockLoop` re-views the flat data (an `Array`,
tabulated after every step) after every step.
-/
import PrecondVerif.Model.Shapes

namespace PrecondVerif.LowRank
open PrecondVerif.Shapes (prod precondDim shouldCompress)

abbrev Mat (α : Type) (m n : Nat) := Fin m → Fin n → α
abbrev Vec (α : Type) (n : Nat) := Fin n → α

variable {α : Type}

/-- `Σ_{i<n} f i`, summed left to right. -/
def sumFin [Add α] [Zero α] (n : Nat) (f : Fin n → α) : α := ((List.finRange n).map f).sum

namespace Mat
variable {m n : Nat}

def transpose (A : Mat α m n) : Mat α n m := fun j i => A i j

end Mat

/-! ### packing -/

/-- the six fields stored in a packed `d × (r+2)` preconditioner -/
structure Fields (α : Type) (d r : Nat) where
  eigvecs : Mat α d r
  /-- `deflated_eigs` (frequent directions only) -/
  eigvals : Vec α r
  /-- `inverted_eigs` -/
  invEigvals : Vec α r
  const : α
  tail : α
  hasZeros : Bool

/-- `_fd_low_rank_pack` (with `rank = |rank|`): start from zeros, then the six `.at[..].set(..)`
in source order.  Column `-2` is `sd - 2`, column `-1` is `sd - 1` where `sd = rank + 2`;
rows `-rank:` start at `d - rank`, row `-1` is `d - 1`. -/
def fdPack [Zero α] [One α] {d r : Nat} (F : Fields α d r) : Mat α d (r + 2) :=
  -- precond = jnp.zeros((d, rank + 2))
  let p0 : Mat α d (r + 2) := fun _ _ => 0
  -- precond.at[:, :rank].set(eigvecs)
  let p1 : Mat α d (r + 2) := fun i j =>
    if h : j.val < r then F.eigvecs i ⟨j.val, h⟩ else p0 i j
  -- precond.at[:rank, -2].set(inverted_eigs)
  let p2 : Mat α d (r + 2) := fun i j =>
    if h : i.val < r ∧ j.val = (r + 2) - 2 then F.invEigvals ⟨i.val, h.1⟩ else p1 i j
  -- precond.at[0, -1].set(new_const)
  let p3 : Mat α d (r + 2) := fun i j =>
    if i.val = 0 ∧ j.val = (r + 2) - 1 then F.const else p2 i j
  -- precond.at[1, -1].set(new_tail)
  let p4 : Mat α d (r + 2) := fun i j =>
    if i.val = 1 ∧ j.val = (r + 2) - 1 then F.tail else p3 i j
  -- precond.at[-rank:, -1].set(deflated_eigs)
  let p5 : Mat α d (r + 2) := fun i j =>
    if h : d - r ≤ i.val ∧ j.val = (r + 2) - 1 then
      F.eigvals ⟨i.val - (d - r), by have := i.isLt; omega⟩
    else p4 i j
  -- precond.at[-1, -2].set(jnp.asarray(has_zeros).astype(jnp.float32))
  fun i j =>
    if i.val = d - 1 ∧ j.val = (r + 2) - 2 then (if F.hasZeros then 1 else 0) else p5 i j

/-- `_fd_low_rank_unpack`; the hypothesis is the code's `assert storage_dim < dim`
(`storage_dim == r + 2`). `astype(bool)` is `≠ 0`. -/
def fdUnpack [Zero α] [BEq α] {d r : Nat} (h : r + 2 < d) (P : Mat α d (r + 2)) : Fields α d r where
  -- preconditioner[:, :r]
  eigvecs := fun i j => P i ⟨j.val, by have := j.isLt; omega⟩
  -- preconditioner[:r, -2]
  invEigvals := fun i => P ⟨i.val, by have := i.isLt; omega⟩ ⟨(r + 2) - 2, by omega⟩
  -- preconditioner[0, -1]
  const := P ⟨0, by omega⟩ ⟨(r + 2) - 1, by omega⟩
  -- preconditioner[-r:, -1]
  eigvals := fun i => P ⟨d - r + i.val, by have := i.isLt; omega⟩ ⟨(r + 2) - 1, by omega⟩
  -- preconditioner[1, -1]
  tail := P ⟨1, by omega⟩ ⟨(r + 2) - 1, by omega⟩
  -- preconditioner[-1, -2].astype(bool)
  hasZeros := !(P ⟨d - 1, by omega⟩ ⟨(r + 2) - 2, by omega⟩ == 0)

/-- the four fields `_low_rank_unpack` returns -/
structure LRFields (α : Type) (d r : Nat) where
  eigvecs : Mat α d r
  invEigvals : Vec α r
  const : α
  hasZeros : Bool

/-- `_low_rank_pack`: `eigvals` slot zero, `tail = 0.0`, `has_zeros = False` -/
def lowRankPack [Zero α] [One α] {d r : Nat} (V : Mat α d r) (e : Vec α r) (c : α) :
    Mat α d (r + 2) :=
  fdPack { eigvecs := V, eigvals := fun _ => 0, invEigvals := e, const := c, tail := 0,
           hasZeros := false }

/-- `_low_rank_unpack` -/
def lowRankUnpack [Zero α] [BEq α] {d r : Nat} (h : r + 2 < d) (P : Mat α d (r + 2)) :
    LRFields α d r :=
  let F := fdUnpack h P
  { eigvecs := F.eigvecs, invEigvals := F.invEigvals, const := F.const, hasZeros := F.hasZeros }

/-! ### applying a packed preconditioner -/

/-- the compressed branch of `_precondition_block` on the `(d, n)` view of the block
(preconditioned axis first); the result is the `(n, d)` view (axes rolled by one). -/
def applyPacked [Add α] [Sub α] [Mul α] [Zero α] {d r n : Nat}
    (V : Mat α d r) (e : Vec α r) (c : α) (skip : Bool) (G : Mat α d n) : Mat α n d :=
  -- lowrank_basis = jnp.tensordot(g, eigvecs, axes=[[0], [0]])
  let lb : Mat α n r := fun t q => sumFin d fun i => G i t * V i q
  -- lowrank_component = jnp.tensordot(lowrank_basis, eigvecs, axes=[[rank - 1], [1]])
  let lc : Mat α n d := fun t b => sumFin r fun q => lb t q * V b q
  -- g = jnp.transpose(g, axes=roll)
  let g : Mat α n d := fun t b => G b t
  -- complement = g - lowrank_component
  let complement : Mat α n d := fun t b => g t b - lc t b
  -- scaled_basis = lowrank_basis * eigvals
  let sb : Mat α n r := fun t q => lb t q * e q
  -- scaled_lowrank_component = jnp.tensordot(scaled_basis, eigvecs, axes=[[rank - 1], [1]])
  let slc : Mat α n d := fun t b => sumFin r fun q => sb t q * V b q
  -- new_g = const * complement + scaled_lowrank_component;  g = jnp.where(skip, old_g, new_g)
  fun t b => if skip then g t b else c * complement t b + slc t b

/-- unpack, then apply -/
def applyPackedP [Add α] [Sub α] [Mul α] [Zero α] [BEq α] {d r n : Nat} (h : r + 2 < d)
    (P : Mat α d (r + 2)) (G : Mat α d n) : Mat α n d :=
  let F := lowRankUnpack h P
  applyPacked F.eigvecs F.invEigvals F.const F.hasZeros G

/-- the dense branch: `jnp.tensordot(g, P, axes=[[0], [0]])` on the `(d, n)` view -/
def applyDense [Add α] [Mul α] [Zero α] {d n : Nat} (P : Mat α d d) (G : Mat α d n) : Mat α n d :=
  fun t b => sumFin d fun i => G i t * P i b

/-- the dense matrix a packed preconditioner denotes: `c (I − V Vᵀ) + V diag(e) Vᵀ` -/
def denote [Add α] [Sub α] [Mul α] [Zero α] [One α] {d r : Nat}
    (V : Mat α d r) (e : Vec α r) (c : α) : Mat α d d :=
  fun i b => c * ((if i = b then 1 else 0) - sumFin r fun q => V i q * V b q)
    + sumFin r fun q => V i q * e q * V b q

def denoteP [Add α] [Sub α] [Mul α] [Zero α] [One α] [BEq α] {d r : Nat} (h : r + 2 < d)
    (P : Mat α d (r + 2)) : Mat α d d :=
  let F := lowRankUnpack h P
  denote F.eigvecs F.invEigvals F.const

/-! ### the loop of `_precondition_block` on flat row-major data -/

/-- what happens to one axis: not preconditioned (roll only), dense matrix, packed matrix of
rank `r`; matrices are index functions, cut to the axis' dimension when used. -/
inductive AxisOp (α : Type) where
  | roll
  | dense (P : Nat → Nat → α)
  | packed (r : Nat) (P : Nat → Nat → α)

def ofIdx (m n : Nat) (f : Nat → Nat → α) : Mat α m n := fun i j => f i.val j.val

/-- row-major `(d, n)` view of flat data -/
def view (d n : Nat) (t : Nat → α) : Mat α d n := fun i j => t (i.val * n + j.val)

/-- flat row-major data of an `(n, d)` matrix (zero outside) -/
def unview [Zero α] (n d : Nat) (M : Mat α n d) : Nat → α := fun k =>
  if h : k < n * d then
    have hd : 0 < d := Nat.pos_of_ne_zero (by intro h0; subst h0; simp at h)
    M ⟨k / d, Nat.div_lt_of_lt_mul (by rw [Nat.mul_comm]; exact h)⟩ ⟨k % d, Nat.mod_lt _ hd⟩
  else 0

/-- one iteration of the loop with the compressed branch as in the code.
(A packed preconditioner with `r + 2 ≥ d` cannot occur: `_fd_low_rank_unpack` asserts
`storage_dim < dim`; the model rolls in that case.) -/
def stepPacked [Add α] [Sub α] [Mul α] [Zero α] [BEq α] (op : AxisOp α) (d n : Nat)
    (G : Mat α d n) : Mat α n d :=
  match op with
  | .roll => G.transpose
  | .dense P => applyDense (ofIdx d d P) G
  | .packed r P => if h : r + 2 < d then applyPackedP h (ofIdx d (r + 2) P) G else G.transpose

/-- the same iteration with every packed preconditioner replaced by the dense matrix it denotes -/
def stepDenoted [Add α] [Sub α] [Mul α] [Zero α] [One α] [BEq α] (op : AxisOp α) (d n : Nat)
    (G : Mat α d n) : Mat α n d :=
  match op with
  | .roll => G.transpose
  | .dense P => applyDense (ofIdx d d P) G
  | .packed r P =>
    if h : r + 2 < d then
      let F := lowRankUnpack h (ofIdx d (r + 2) P)
      if F.hasZeros then G.transpose else applyDense (denote F.eigvecs F.invEigvals F.const) G
    else G.transpose

/-- number of elements of the remaining axes (`= Shapes.prod`, written so that `size [n]` is `n`
by computation) -/
def size : List Nat → Nat
  | [] => 1
  | [a] => a
  | a :: b :: l => a * size (b :: l)

/-- tabulate the first `n` entries of flat data.  The result is *data* (an `Array`), so it is
computed once; a function-valued "memo" would be recomputed at every access by the compiler's
eta-expansion.  This keeps the evaluation of `blockLoop` polynomial. -/
def tab (n : Nat) (t : Nat → α) : Array α := Array.ofFn (n := n) fun i => t i.val

/-- read flat data (zero outside) -/
def rd [Zero α] (a : Array α) : Nat → α := fun k => a.getD k 0

/-- `_precondition_block`: `ops` has one entry per axis; `shape` is the current shape (the axis
being processed is first and moves to the end), `a` the flat row-major data of the block. -/
def blockLoop [Zero α] (step : AxisOp α → (d n : Nat) → Mat α d n → Mat α n d) :
    List (AxisOp α) → List Nat → Array α → Array α
  | op :: ops, s0 :: rest, a =>
    blockLoop step ops (rest ++ [s0])
      (tab (size rest * s0) (unview (size rest) s0 (step op s0 (size rest) (view s0 (size rest) (rd a)))))
  | _, _, a => a

def preconditionBlock [Add α] [Sub α] [Mul α] [Zero α] [BEq α] :=
  blockLoop (α := α) stepPacked

def preconditionBlockDenoted [Add α] [Sub α] [Mul α] [Zero α] [One α] [BEq α] :=
  blockLoop (α := α) stepDenoted

/-! ### `_low_rank_root` -/

/-- `ix = (arange(d) < padding_start)` as 0/1 (all ones when `padding_start is None`) -/
def ixMask [Zero α] [One α] (ps : Option Nat) (i : Nat) : α :=
  match ps with
  | none => 1
  | some p => if i < p then 1 else 0

/-- `ridge_epsilon * jnp.maximum(max_ev, error_tolerance)` (`max_ev = 1.0` when
`relative_matrix_epsilon` is off, otherwise the power-iteration estimate). -/
def ridgeOf [Mul α] [Max α] (ridgeEps maxEv tol : α) : α := ridgeEps * max maxEv tol

/-- the matrix handed to `eigh`: `matrix * ix[None,:] * ix[:,None] + ridge * (identity * ix)` -/
def regularizedInput [Add α] [Mul α] [Zero α] [One α] {d : Nat} (A : Mat α d d)
    (ps : Option Nat) (ridge : α) : Mat α d d :=
  fun i j => A i j * ixMask ps j.val * ixMask ps i.val
    + ridge * ((if i = j then 1 else 0) * ixMask ps j.val)

/-- the index permutation applied to eigenvalues and eigenvector columns:
`jnp.flip` for positive rank, `jnp.roll(·, -(d - padding_start))` for negative rank. -/
def perm (d : Nat) (neg : Bool) (k : Nat) (i : Fin d) : Fin d :=
  if neg then ⟨(i.val + k) % d, Nat.mod_lt _ (Nat.lt_of_le_of_lt (Nat.zero_le _) i.isLt)⟩
  else ⟨d - 1 - i.val, by have := i.isLt; omega⟩

/-- eigenvalues after `e *= jnp.flip(ix)` (only when `padding_start` is given) -/
def maskedEigs [Mul α] [Zero α] [One α] {d : Nat} (ps : Option Nat) (e : Vec α d) : Vec α d :=
  match ps with
  | none => e
  | some _ => fun i => e i * ixMask ps (d - 1 - i.val)

/-- `clipped_e = maximum(e, ridge); inv_e = where(logical_or(e == 0, clipped_e <= 0), 0, power(clipped_e, alpha))`;
`pw x = x ^ alpha`.  (Repaired, D26: with a zero ridge a non-positive eigenvalue is treated like an exact zero
instead of being raised to a negative power.) -/
def invEigs [Zero α] [BEq α] [Max α] [LE α] [DecidableLE α] {d : Nat} (pw : α → α) (ridge : α) (e : Vec α d) :
    Vec α d :=
  fun i =>
    let clipped := max (e i) ridge
    if (e i == 0) || decide (clipped ≤ 0) then 0 else pw clipped

/-- everything after `eigh` up to the fields handed to `_low_rank_pack`.
`r = |compression_rank|`, `neg = compression_rank < 0`.  The roll for `neg` is by the number of padded
dimensions `num_pad = d - padding_start`, `0` when `padding_start is None` (repaired, D21). -/
def lowRankRootFields [Add α] [Mul α] [Div α] [Zero α] [One α] [BEq α] [Max α] [LE α] [DecidableLE α] [NatCast α]
    {d r : Nat} (hr : r ≤ d) (pw : α → α) (neg : Bool) (ps : Option Nat) (ridge : α)
    (e : Vec α d) (U : Mat α d d) : LRFields α d r :=
  let realDim := ps.getD d
  let invE := invEigs pw ridge (maskedEigs ps e)
  -- roll / flip
  let σ := perm d neg (d - realDim)
  let invE' : Vec α d := fun i => invE (σ i)
  let U' : Mat α d d := fun a i => U a (σ i)
  -- keep_e, to_avg_e = inv_e[:split_ix], inv_e[split_ix:];  u_keep = u[:, :split_ix]
  let keepE : Vec α r := fun q => invE' (Fin.castLE hr q)
  let toAvg : Vec α (d - r) := fun i => invE' ⟨r + i.val, by have := i.isLt; omega⟩
  let uKeep : Mat α d r := fun a q => U' a (Fin.castLE hr q)
  -- const = sum(to_avg_e) / where(num_real_eigs_to_avg > 0, num_real_eigs_to_avg, 1.0)
  let den : α := if r < realDim then ((realDim - r : Nat) : α) else 1
  { eigvecs := uKeep, invEigvals := keepE, const := sumFin (d - r) toAvg / den, hasZeros := false }

/-- `_low_rank_root` after `eigh`: pack, and return zeros when `padding_start == 0` -/
def lowRankRoot [Add α] [Mul α] [Div α] [Zero α] [One α] [BEq α] [Max α] [LE α] [DecidableLE α] [NatCast α]
    {d r : Nat} (h : r + 2 < d) (pw : α → α) (neg : Bool) (ps : Option Nat) (ridge : α)
    (e : Vec α d) (U : Mat α d d) : Mat α d (r + 2) :=
  let F := lowRankRootFields (r := r) (by omega) pw neg ps ridge e U
  let val := lowRankPack F.eigvecs F.invEigvals F.const
  -- val = jnp.where(padding_start == 0, 0.0, val)
  match ps with
  | some 0 => fun _ _ => 0
  | _ => val

/-- `_low_rank_root` with `eigh` (and the real power `pw`, the power-iteration estimate `maxEv`)
as parameters. -/
def lowRankRootOf [Add α] [Mul α] [Div α] [Zero α] [One α] [BEq α] [Max α] [LE α] [DecidableLE α] [NatCast α]
    {d r : Nat} (h : r + 2 < d) (eigh : Mat α d d → Vec α d × Mat α d d) (pw : α → α)
    (neg : Bool) (ps : Option Nat) (ridgeEps maxEv tol : α) (A : Mat α d d) : Mat α d (r + 2) :=
  let ridge := ridgeOf ridgeEps maxEv tol
  let eu := eigh (regularizedInput A ps ridge)
  lowRankRoot h pw neg ps ridge eu.1 eu.2

end PrecondVerif.LowRank
