/-
Model of the frequent-directions (FD) sketch update (property C09). No Mathlib.

One generic step, written once over the scalar type `α` (executed at `Float` by `Drv/C09.lean`,
reasoned about at ordered fields in `Lemmas/FD.lean`, `Props/C09.lean`), and the three code paths
as instances:

  * `precondition/distributed_shampoo.py:_fd_update_root`       → `dsFdUpdateRoot`
  * `precondition/tearfree/sketchy.py:_update_axis`             → `sketchyUpdateAxis`
  * `precondition/oco/algorithms.py:_fd_update_fn` (sketch part) → `ocoFdUpdate`

State of a sketch of rank `k` in dimension `d`: directions `V : d × k`, eigenvalues `l : k`
(covariance units), escaped mass `t`. It denotes the matrix `sketch st = V diag(l) Vᵀ`.

One step with gradient factor `G : d × m` and decay `β`:
  `B = [ √β · V · diag(√l) | G ]`                        (`fdB`; `B Bᵀ = β·sketch + G Gᵀ`)
  `U, s = svd(B)`   — an EXTERNAL KERNEL: a parameter (`SvdFn`), constrained only by `SvdSpec`
  `c = s[k]` (0 when `k ≥ d`), `ρ = c²`, `l'_a = (s_a − c)(s_a + c)`, directions with `l'_a ≤ 0` zeroed,
  `t' = β·t + ρ`, inverse roots `pw (s_a² + β·t + eps)` on the kept directions (`= pw (l'_a + t' + eps)`).

The "unsafe norm" / "padding mass" guards of `_fd_update_root` (columns of `u` not of unit norm,
columns leaking into the padding) are identities whenever the SVD meets its specification; they are not
modelled and are exercised by the correspondence run and the direct oracle only.
-/

namespace PrecondVerif.FD

abbrev Vec (α : Type) (n : Nat) := Fin n → α
abbrev Mat (α : Type) (m n : Nat) := Fin m → Fin n → α

section Generic
variable {α : Type} [Zero α] [One α] [Add α] [Sub α] [Mul α]

/-- `Σ_i f i`, in index order -/
def sumFin {n : Nat} (f : Fin n → α) : α := ((List.finRange n).map f).sum

/-- sketch state: directions, eigenvalues (covariance units), escaped mass -/
structure State (α : Type) (d k : Nat) where
  V : Mat α d k
  l : Vec α k
  t : α

/-- the initial (empty) sketch of all three implementations -/
def State.zero (d k : Nat) : State α d k := { V := fun _ _ => 0, l := fun _ => 0, t := 0 }

/-- the matrix a state denotes: `V diag(l) Vᵀ` -/
def sketch {d k : Nat} (st : State α d k) : Mat α d d :=
  fun i j => sumFin fun a => st.V i a * st.l a * st.V j a

/-- `G Gᵀ` -/
def outer {d m : Nat} (G : Mat α d m) : Mat α d d := fun i j => sumFin fun c => G i c * G j c

/-- `VᵀV` (Gram matrix of the columns) -/
def colGram {d k : Nat} (V : Mat α d k) : Mat α k k := fun a b => sumFin fun i => V i a * V i b

/-- the matrix handed to the SVD: `concatenate([sqrt(decay) * (V * sqrt(l)), G], axis=1)` -/
def fdB {d k m : Nat} (sqrt : α → α) (β : α) (st : State α d k) (G : Mat α d m) : Mat α d (k + m) :=
  fun i => Fin.addCases (fun a => sqrt β * (st.V i a * sqrt (st.l a))) (fun c => G i c)

/-- output of `svd(B, full_matrices=False)` that the step uses: left singular vectors (square; when `B`
has fewer than `d` columns the missing singular values are 0) and singular values -/
structure SvdOut (α : Type) (d : Nat) where
  U : Mat α d d
  s : Vec α d

abbrev SvdFn (α : Type) (d n : Nat) := Mat α d n → SvdOut α d

/-- `s[i]`, 0 beyond the end -/
def sAt {d : Nat} (s : Vec α d) (i : Nat) : α := if h : i < d then s ⟨i, h⟩ else 0

/-- `u[:, j]`, 0 beyond the end -/
def uAt {d : Nat} (U : Mat α d d) (i : Fin d) (j : Nat) : α := if h : j < d then U i ⟨j, h⟩ else 0

/-- `cutoff = s[rank]` (Sketchy: `s[k] if k < len(s) else 0`) -/
def cutoff {d : Nat} (k : Nat) (o : SvdOut α d) : α := sAt o.s k

/-- `rho_t = cutoff ** 2`, the eigenvalue removed at this step -/
def rho {d : Nat} (k : Nat) (o : SvdOut α d) : α := cutoff k o * cutoff k o

/-- `deflated_eigs = (top_eigs - cutoff) * (top_eigs + cutoff)` -/
def deflRaw {d : Nat} (k : Nat) (o : SvdOut α d) (a : Fin k) : α :=
  (sAt o.s a.1 - cutoff k o) * (sAt o.s a.1 + cutoff k o)

variable [LT α] [DecidableLT α]

/-- `deflated_eigs > 0`: the directions that stay in the sketch -/
def kept {d : Nat} (k : Nat) (o : SvdOut α d) (a : Fin k) : Bool := decide (0 < deflRaw k o a)

/-- the deflation given the SVD output: new directions, eigenvalues and escaped mass -/
def stepO {d : Nat} (k : Nat) (β t : α) (o : SvdOut α d) : State α d k :=
  { V := fun i a => if kept k o a then uAt o.U i a.1 else 0
    l := fun a => if kept k o a then deflRaw k o a else 0
    t := β * t + rho k o }

/-- one generic FD step -/
def fdStep {d k m : Nat} (svd : SvdFn α d (k + m)) (sqrt : α → α) (β : α) (st : State α d k)
    (G : Mat α d m) : State α d k :=
  stepO k β st.t (svd (fdB sqrt β st G))

/-- a history of steps -/
def fdRunFrom {d k m : Nat} (svd : SvdFn α d (k + m)) (sqrt : α → α) (β : α) (st : State α d k)
    (gs : List (Mat α d m)) : State α d k :=
  gs.foldl (fdStep svd sqrt β) st

def fdRun {d k m : Nat} (svd : SvdFn α d (k + m)) (sqrt : α → α) (β : α) (gs : List (Mat α d m)) :
    State α d k :=
  fdRunFrom svd sqrt β (State.zero d k) gs

/-- the same history with the SVD outputs supplied step by step (what the driver executes: the harness
supplies LAPACK's factors, the driver checks them against `SvdSpec` of the model's own `fdB`) -/
def fdRunO {d k : Nat} (β : α) : State α d k → List (SvdOut α d) → State α d k
  | st, [] => st
  | st, o :: os => fdRunO β (stepO k β st.t o) os

/-- the exact discounted second moment `C ← β·C + G Gᵀ` along a history -/
def covFrom {d m : Nat} (β : α) (C : Mat α d d) (gs : List (Mat α d m)) : Mat α d d :=
  gs.foldl (fun C G => fun i j => β * C i j + outer G i j) C

/-- stored inverse roots: `pw (s_a² + β·t + eps)` on the kept directions, 0 elsewhere
(`pw x` stands for `x ** (-1/p)`, an external kernel) -/
def invRoots {d : Nat} (k : Nat) (pw : α → α) (eps β t : α) (o : SvdOut α d) : Vec α k :=
  fun a => if kept k o a then pw (sAt o.s a.1 * sAt o.s a.1 + β * t + eps) else 0

/-- inverse root of the escaped mass: `where(tail > 0, pw (tail + eps), 0)` -/
def invTail (pw : α → α) (eps t' : α) : α := if 0 < t' then pw (t' + eps) else 0

/-! ### specification of the SVD kernel -/

/-- `U` orthogonal, `U diag(s²) Uᵀ = B Bᵀ`, singular values non-negative and descending -/
structure SvdSpec [LE α] {d n : Nat} (B : Mat α d n) (o : SvdOut α d) : Prop where
  uOrthoRows : ∀ i j, (sumFin fun a => o.U i a * o.U j a) = if i = j then 1 else 0
  uOrthoCols : ∀ a b, (sumFin fun i => o.U i a * o.U i b) = if a = b then 1 else 0
  recon : ∀ i j, (sumFin fun a => o.U i a * (o.s a * o.s a) * o.U j a) = outer B i j
  nonneg : ∀ a, 0 ≤ o.s a
  sorted : ∀ a b : Fin d, a ≤ b → o.s b ≤ o.s a

/-! ### Distributed Shampoo: `_fd_update_root` -/

/-- `padding_start > arange(n)` as a 0/1 factor -/
def active (ps : Nat) (i : Nat) : α := if i < ps then 1 else 0

structure DsCfg (α : Type) where
  ridgeEps : α       -- ridge_epsilon (matrix_epsilon)
  tol : α            -- error_tolerance
  relative : Bool    -- relative_matrix_epsilon
  β : α              -- decay (beta2)
  ps : Nat           -- padding_start

/-- `ridge_epsilon * maximum(max_ev, error_tolerance)` with `max_ev = fwd_eigvals_r[0]` or 1 -/
def dsRidge [Max α] {k : Nat} (cfg : DsCfg α) (l : Vec α k) : α :=
  cfg.ridgeEps * max (if cfg.relative then (if h : 0 < k then l ⟨0, h⟩ else 0) else 1) cfg.tol

/-- the sketch actually decayed: padding re-zeroed, per-step ridge added on the active directions -/
def dsInput [Max α] {d k : Nat} (cfg : DsCfg α) (st : State α d k) : State α d k :=
  { V := fun i a => st.V i a * active cfg.ps i.1 * active cfg.ps a.1
    l := fun a => (st.l a + dsRidge cfg st.l) * active cfg.ps a.1
    t := st.t }

/-- `padded_grad *= active_ix_d; padded_grad *= active_ix_d[:, newaxis]` -/
def dsMaskG {d : Nat} (ps : Nat) (G : Mat α d d) : Mat α d d :=
  fun i c => G i c * active ps c.1 * active ps i.1

structure DsOut (α : Type) (d k : Nat) where
  st : State α d k       -- eigvecs, deflated_eigs, new_tail
  inverted : Vec α k     -- inverted_eigs
  const : α              -- new_const
  hasZeros : Bool

def dsB [Max α] {d k : Nat} (sqrt : α → α) (cfg : DsCfg α) (st : State α d k) (G : Mat α d d) :
    Mat α d (k + d) :=
  fdB sqrt cfg.β (dsInput cfg st) (dsMaskG cfg.ps G)

/-- `_fd_update_root` given the SVD output of `dsB` -/
def dsFdUpdateRootO [Max α] {d k : Nat} (pw : α → α) (cfg : DsCfg α) (st : State α d k)
    (o : SvdOut α d) : DsOut α d k :=
  let new := stepO k cfg.β st.t o
  -- `new_tail = where(new_tail <= 0, 0, new_tail)`, `new_const = where(new_tail <= 0, 0, new_tail ** alpha)`
  let tail := if 0 < new.t then new.t else 0
  let out : DsOut α d k :=
    { st := { V := new.V, l := new.l, t := tail }
      inverted := invRoots k pw 0 cfg.β st.t o
      const := if 0 < new.t then pw new.t else 0
      hasZeros := ((List.finRange k).any fun a => !(kept k o a)) || !(decide (0 < new.t)) }
  -- `val = where(padding_start == 0, 0, val)`
  if cfg.ps = 0 then
    { st := State.zero d k, inverted := fun _ => 0, const := 0, hasZeros := false }
  else out

def dsFdUpdateRoot [Max α] {d k : Nat} (svd : SvdFn α d (k + d)) (sqrt pw : α → α) (cfg : DsCfg α)
    (st : State α d k) (G : Mat α d d) : DsOut α d k :=
  dsFdUpdateRootO pw cfg st (svd (dsB sqrt cfg st G))

/-! ### the numerical guards of `_fd_update_root` (code-shaped; identities under `SvdSpec`, see `Props/C09.lean`) -/

section Guards
variable [Neg α] [Div α] [LE α] [DecidableLE α]

/-- a boolean mask used as an arithmetic factor (`x *= mask`) -/
def ind (b : Bool) : α := if b then 1 else 0

/-- the literals `0.99`, `1.01` (unit-norm window) and `0.01` (padding-mass threshold) -/
structure Guards (α : Type) where
  lo : α
  hi : α
  thr : α

/-- `jnp.linalg.norm(eigvecs, axis=0)` -/
def colNorm {d k : Nat} (sqrt : α → α) (V : Mat α d k) (a : Fin k) : α := sqrt (sumFin fun i => V i a * V i a)

/-- `safe_normed = (0.99 <= norms) & (norms <= 1.01)` -/
def safeNormed (g : Guards α) (n : α) : Bool := decide (g.lo ≤ n) && decide (n ≤ g.hi)

/-- `eigvecs *= safe_normed; deflated_eigs *= safe_normed; eigvecs /= where(safe_normed, norms, 1.0)` -/
def guardNorm {d k : Nat} (sqrt : α → α) (g : Guards α) (V : Mat α d k) (l : Vec α k) : Mat α d k × Vec α k :=
  (fun i a => V i a * ind (safeNormed g (colNorm sqrt V a)) /
      (if safeNormed g (colNorm sqrt V a) then colNorm sqrt V a else 1),
   fun a => l a * ind (safeNormed g (colNorm sqrt V a)))

def absV (x : α) : α := if x < 0 then -x else x

/-- `padding_ix = arange(d) >= padding_start` as a 0/1 factor -/
def padIx (ps : Nat) (i : Nat) : α := if i < ps then 0 else 1

/-- `padding_mass = norm(eigvecs * padding_ix[:, newaxis], axis=0, ord=1)` -/
def padMass {d k : Nat} (ps : Nat) (V : Mat α d k) (a : Fin k) : α := sumFin fun i => absV (V i a * padIx ps i.1)

/-- `has_significant_padding = padding_mass > 0.01; eigvecs *= 1 - hsp; deflated_eigs *= 1 - hsp` -/
def guardPad {d k : Nat} (g : Guards α) (ps : Nat) (V : Mat α d k) (l : Vec α k) : Mat α d k × Vec α k :=
  (fun i a => V i a * (1 - ind (decide (g.thr < padMass ps V a))),
   fun a => l a * (1 - ind (decide (g.thr < padMass ps V a))))

/-- `_fd_update_root` WITH its guards, given the SVD output of `dsB` (this is what `drv_c09` executes) -/
def dsFdUpdateRootG [Max α] {d k : Nat} (sqrt pw : α → α) (g : Guards α) (cfg : DsCfg α) (st : State α d k)
    (o : SvdOut α d) : DsOut α d k :=
  let new := stepO k cfg.β st.t o
  let tail := if 0 < new.t then new.t else 0
  let n1 := guardNorm sqrt g new.V new.l
  let n2 := guardPad g cfg.ps n1.1 n1.2
  -- `upshifted = (square(top_eigs) + tail*decay) * (deflated_eigs > 0)`, then `where(upshifted <= 0, 0, upshifted**alpha)`
  let ups : Vec α k := fun a => (sAt o.s a.1 * sAt o.s a.1 + cfg.β * st.t) * ind (decide (0 < n2.2 a))
  let out : DsOut α d k :=
    { st := { V := n2.1, l := n2.2, t := tail }
      inverted := fun a => if ups a ≤ 0 then 0 else pw (ups a)
      const := if 0 < new.t then pw new.t else 0
      hasZeros := ((List.finRange k).any fun a => decide (n2.2 a ≤ 0)) || decide (tail ≤ 0) }
  if cfg.ps = 0 then
    { st := State.zero d k, inverted := fun _ => 0, const := 0, hasZeros := false }
  else out

end Guards

/-! ### the packed state and the cut of the public optimizer (known finding K5) -/

/-- `_fd_low_rank_pack` as an index table (`D` rows, `k+2` columns), with the `.at[].set` order of the code:
eigvecs, inverted eigenvalues `[:k, -2]`, const `[0, -1]`, tail `[1, -1]`, eigenvalues `[-k:, -1]`, flag `[-1, -2]` -/
def packN (D k : Nat) (V : Nat → Nat → α) (l inv : Nat → α) (const tail flag : α) (i j : Nat) : α :=
  if j < k then V i j
  else if j = k then (if i = D - 1 then flag else if i < k then inv i else 0)
  else (if D - k ≤ i then l (i - (D - k)) else if i = 1 then tail else if i = 0 then const else 0)

/-- what the public optimizer keeps of a statistic of true dimension `dim`: `p[:dim, :k+2]`, re-padded with zero
rows to `max_size = D` before the next update (`pad_and_maybe_zero_preconditioners`) -/
def cutRepad (dim : Nat) (P : Nat → Nat → α) (i j : Nat) : α := if i < dim then P i j else 0

/-- `_fd_low_rank_unpack`: eigvecs `[:, :k]`, eigenvalues `[-k:, -1]`, tail `[1, -1]` -/
def unpackState (D k : Nat) (P : Nat → Nat → α) : State α D k :=
  { V := fun i a => P i.1 a.1, l := fun a => P (D - k + a.1) (k + 1), t := P 1 (k + 1) }

def packState {D k : Nat} (st : State α D k) (inv : Vec α k) (const flag : α) : Nat → Nat → α :=
  packN D k (fun i j => if h : i < D ∧ j < k then st.V ⟨i, h.1⟩ ⟨j, h.2⟩ else 0)
    (fun a => if h : a < k then st.l ⟨a, h⟩ else 0) (fun a => if h : a < k then inv ⟨a, h⟩ else 0) const st.t flag

/-- the sketch state the next public update starts from -/
def publicReload {D k : Nat} (dim : Nat) (st : State α D k) (inv : Vec α k) (const flag : α) : State α D k :=
  unpackState D k (cutRepad dim (packState st inv const flag))

/-! ### Tearfree Sketchy: `_update_axis` (stores ROOTS of the covariance eigenvalues) -/

structure SkState (α : Type) (d k : Nat) where
  V : Mat α d k
  e : Vec α k        -- square roots of the sketch eigenvalues
  t : α

/-- the generic state a Sketchy axis state denotes -/
def SkState.denote {d k : Nat} (st : SkState α d k) : State α d k :=
  { V := st.V, l := fun a => st.e a * st.e a, t := st.t }

/-- `concatenate([sketch_dk * eigvals * sqrt(decay), g_dm], axis=1)`; the QR pre-reduction leaves `B Bᵀ` unchanged -/
def sketchyB {d k m : Nat} (sqrt : α → α) (β : α) (st : SkState α d k) (G : Mat α d m) : Mat α d (k + m) :=
  fun i => Fin.addCases (fun a => st.V i a * st.e a * sqrt β) (fun c => G i c)

structure SkOut (α : Type) (d k : Nat) where
  st : SkState α d k
  invEig : Vec α k
  invTail : α
  eps : α

/-- `jnp.maximum(x, 0.0)` -/
def relu [Max α] (x : α) : α := max x 0

/-- `sqrt(max(0, top - cutoff)) * sqrt(top + cutoff)` -/
def skDeflated [Max α] {d : Nat} (k : Nat) (sqrt : α → α) (o : SvdOut α d) (a : Fin k) : α :=
  sqrt (relu (relu (sAt o.s a.1) - relu (cutoff k o))) * sqrt (relu (sAt o.s a.1) + relu (cutoff k o))

/-- `undeflated = square(top_eigs) + tail * decay` -/
def skUndeflated [Max α] {d : Nat} (k : Nat) (β t : α) (o : SvdOut α d) (a : Fin k) : α :=
  relu (sAt o.s a.1) * relu (sAt o.s a.1) + t * β

/-- `_update_axis` (non-ekfac, `linear_approx_tail=False`) given the SVD output of `sketchyB` -/
def sketchyUpdateAxisO [Max α] {d k : Nat} (sqrt pw : α → α) (epsilon : α) (relative : Bool) (β : α)
    (st : SkState α d k) (o : SvdOut α d) : SkOut α d k :=
  let c := relu (cutoff k o)
  let defl : Vec α k := fun a => skDeflated k sqrt o a
  let mask : Fin k → Bool := fun a => decide (0 < defl a)
  let tail := st.t * β + c * c
  let und : Vec α k := fun a => skUndeflated k β st.t o a
  let eps := if relative && decide (0 < epsilon) then
      ((List.finRange k).foldl (fun acc a => max acc (und a)) 0) * epsilon else epsilon
  { st := { V := fun i a => if mask a then uAt o.U i a.1 else 0
            e := fun a => if mask a then defl a else 0
            t := tail }
    invEig := fun a => if mask a then pw (und a + eps) else 0
    invTail := invTail pw eps tail
    eps := eps }

def sketchyUpdateAxis [Max α] {d k m : Nat} (svd : SvdFn α d (k + m)) (sqrt pw : α → α) (epsilon : α)
    (relative : Bool) (β : α) (st : SkState α d k) (G : Mat α d m) : SkOut α d k :=
  sketchyUpdateAxisO sqrt pw epsilon relative β st (svd (sketchyB sqrt β st G))

/-- the escaped-mass recurrence of the UNREPAIRED `_update_axis` (before `fix:` 41a2a86): the local name
`decay` held `sqrt(second_moment_decay)` and was used for the tail, `tail * sqrt(decay) + cutoff**2` -/
def sketchyTailUnrepaired (sqrtβ t ρ : α) : α := t * sqrtβ + ρ

/-! ### OCO: the sketch part of `_fd_update_fn` (row form: `P : (k+1) × n`, root eigenvalues `e`) -/

structure OcoState (α : Type) (k n : Nat) where
  P : Mat α (k + 1) n
  e : Vec α (k + 1)
  t : α               -- accumulated escaped mass `Σ rho²` (`alpha - delta` for S-AdaGrad, twice that for RFD)

/-- column-form state denoted by the first `k` rows (the last row always has `e = 0` after a step) -/
def OcoState.denote {k n : Nat} (st : OcoState α k n) : State α n k :=
  { V := fun j a => st.P a.castSucc j, l := fun a => st.e a.castSucc * st.e a.castSucc, t := st.t }

/-- `B = P * e.reshape(-1, 1); B = B.at[-1].set(grad_input)`, transposed to column form (`n × (k+1)`) -/
def ocoB {k n : Nat} (st : OcoState α k n) (g : Vec α n) : Mat α n (k + 1) :=
  fun j a => if a = Fin.last k then g j else st.P a j * st.e a

/-- `_fd_update_fn` sketch update given the SVD of `ocoB` (`vt` rows = left singular vectors of the
column form): `rho = s[-1]`, `s ← (s − rho)(s + rho)`, `P ← vt`, `e ← sqrt(s)`, mass `+= rho²`.
No direction is masked here (rows of `vt` stay orthonormal; a zero eigenvalue carries no weight). -/
def ocoFdUpdateO {k n : Nat} (sqrt : α → α) (st : OcoState α k n) (o : SvdOut α n) : OcoState α k n :=
  let r := sAt o.s k
  { P := fun a j => uAt o.U j a.1
    e := fun a => sqrt ((sAt o.s a.1 - r) * (sAt o.s a.1 + r))
    t := st.t + r * r }

end Generic

end PrecondVerif.FD
