/-
Model of the shape transformations of google-research/precondition (property C06).

Mirrors, on `Nat`/`List` only (no Mathlib):
  * `distributed_shampoo.merge_small_dims`
  * `distributed_shampoo.BlockPartitioner` (`split_sizes`, `partition`, `merge_partitions`)
  * `distributed_shampoo.Preconditioner` shape bookkeeping
    (`should_precondition_dims`, `shapes_for_preconditioners`, `_preconds_for_grad`,
     `exponent_for_preconditioner`, `_precond_dim`, `_should_compress`)
  * `tearfree/shampoo.py` `_blocks_metadata`, `_blockify`, `_deblockify`
  * `tearfree/reshaper.py` `_derive_shapes`, `merge` (reshape + zero pad), `unmerge`

Tensors are index functions: `Tensor α = (shape, get : List Nat → α)`; row-major
`ravel`/`unravel` connect them with flat numpy data.
-/

namespace PrecondVerif.Shapes

/-! ### products, ravel / unravel -/

def prod (l : List Nat) : Nat := l.foldr (· * ·) 1

@[simp] theorem prod_nil : prod [] = 1 := rfl
@[simp] theorem prod_cons (a : Nat) (l : List Nat) : prod (a :: l) = a * prod l := rfl

/-- row-major flat index of a multi-index -/
def ravel : List Nat → List Nat → Nat
  | [], _ => 0
  | _ :: _, [] => 0
  | _ :: ss, i :: is => i * prod ss + ravel ss is

/-- multi-index of a row-major flat index -/
def unravel : List Nat → Nat → List Nat
  | [], _ => []
  | _ :: ss, k => (k / prod ss) :: unravel ss (k % prod ss)

/-- index `idx` is inside `shape` -/
def inBounds : List Nat → List Nat → Prop
  | [], [] => True
  | s :: ss, i :: is => i < s ∧ inBounds ss is
  | _, _ => False

/-- all multi-indices of a shape in row-major order -/
def allIdx : List Nat → List (List Nat)
  | [] => [[]]
  | s :: ss => (List.range s).flatMap fun i => (allIdx ss).map (i :: ·)

/-! ### merge_small_dims -/

/-- the loop of `merge_small_dims`: `prod` is the running product, the result list is
built front to back (Python appends; here we cons in front of the recursive result). -/
def mergeGo (maxDim : Nat) : List Nat → Nat → List Nat
  | [], p => if p > 1 then [p] else []
  | d :: ds, p =>
    if p * d ≤ maxDim then mergeGo maxDim ds (p * d)
    else if p > 1 then p :: mergeGo maxDim ds d
    else mergeGo maxDim ds d

def mergeSmallDims (shape : List Nat) (maxDim : Nat) : List Nat :=
  if shape ≠ [] ∧ shape.all (· == 1) then [1] else mergeGo maxDim shape 1

/-! ### BlockPartitioner -/

/-- `BlockPartitioner.__init__` sizes for one dimension -/
def splitSizes (d b : Nat) : List Nat :=
  if 0 < b ∧ b < d then
    let nsplit := (d - 1) / b
    List.replicate nsplit b ++ [d - nsplit * b]
  else [d]

def splitAll (shape : List Nat) (b : Nat) : List (List Nat) := shape.map (splitSizes · b)

/-- axes that are really split (the `_splits` list) -/
def splitAxes (shape : List Nat) (b : Nat) : List Nat :=
  (List.range shape.length).filter fun i => 0 < b ∧ b < shape.getD i 0

/-- prefix sums: offsets of consecutive pieces -/
def offsets : List Nat → Nat → List Nat
  | [], _ => []
  | s :: ss, o => o :: offsets ss (o + s)

structure Tensor (α : Type) where
  shape : List Nat
  get : List Nat → α

def Tensor.flat {α} (t : Tensor α) : List α := (allIdx t.shape).map t.get

/-- `lax.slice` along one axis (piece of `jnp.split`) -/
def Tensor.slice {α} (t : Tensor α) (axis off size : Nat) : Tensor α :=
  { shape := t.shape.set axis size
    get := fun idx => t.get (idx.set axis (idx.getD axis 0 + off)) }

/-- `jnp.split(t, indices, axis)` with the piece sizes precomputed -/
def Tensor.split {α} (t : Tensor α) (axis : Nat) (sizes : List Nat) : List (Tensor α) :=
  (List.zip (offsets sizes 0) sizes).map fun (o, s) => t.slice axis o s

/-- find the piece containing position `i` among `sizes`: (piece number, local index) -/
def locate : List Nat → Nat → Nat × Nat
  | [], i => (0, i)
  | s :: ss, i => if i < s then (0, i) else
      let (k, j) := locate ss (i - s)
      (k + 1, j)

/-- `jnp.concatenate(ts, axis)` -/
def Tensor.concat {α} [Inhabited α] (ts : List (Tensor α)) (axis : Nat) : Tensor α :=
  let sizes := ts.map fun t => t.shape.getD axis 0
  { shape := (ts.headD ⟨[], fun _ => default⟩).shape.set axis (sizes.foldl (· + ·) 0)
    get := fun idx =>
      let (k, j) := locate sizes (idx.getD axis 0)
      (ts.getD k ⟨[], fun _ => default⟩).get (idx.set axis j) }

/-- `BlockPartitioner.partition` -/
def partition {α} (t : Tensor α) (b : Nat) : List (Tensor α) :=
  (splitAxes t.shape b).foldl
    (fun ts i => ts.flatMap fun u => u.split i (splitSizes (t.shape.getD i 0) b)) [t]

/-- chunk a list into groups of `n` (the `while ind < len` loop) -/
def chunks {α} (n : Nat) (l : List α) : List (List α) :=
  if h : n = 0 ∨ l = [] then [] else
    l.take n :: chunks n (l.drop n)
termination_by l.length
decreasing_by
  simp only [List.length_drop]
  have : l.length ≠ 0 := by
    intro h0; exact h (Or.inr (List.length_eq_zero_iff.mp h0))
  omega

/-- `BlockPartitioner.merge_partitions`; `none` models the failed `assert len == 1` -/
def mergePartitions {α} [Inhabited α] (shape : List Nat) (b : Nat)
    (parts : List (Tensor α)) : Option (Tensor α) :=
  let res := (splitAxes shape b).reverse.foldl
    (fun ps i =>
      let n := (splitSizes (shape.getD i 0) b).length
      (chunks n ps).map fun grp => Tensor.concat grp i) parts
  match res with
  | [t] => some t
  | _ => none

/-! ### Preconditioner bookkeeping -/

inductive PType where
  | all | input | output
  deriving DecidableEq, Repr

def shouldPreconditionDims (pt : PType) (rank : Nat) : List Bool :=
  match pt with
  | .all => List.replicate rank true
  | .input => if rank ≤ 1 then List.replicate rank true
              else List.replicate (rank - 1) true ++ [false]
  | .output => if rank ≤ 1 then List.replicate rank true
               else List.replicate (rank - 1) false ++ [true]

def numPreconditioned (pt : PType) (rank : Nat) : Nat :=
  ((shouldPreconditionDims pt rank).filter id).length

def exponentForPreconditioner (pt : PType) (rank : Nat) : Nat := 2 * numPreconditioned pt rank

/-- `_precond_dim(compression_rank, dim)` with `r = |compression_rank|` (`r = 0` ⇒ off) -/
def precondDim (r dim : Nat) : Nat :=
  if r = 0 then dim else if r + 2 ≥ dim then dim else r + 2

/-- `_should_compress` -/
def shouldCompress (r dim : Nat) : Bool := r != 0 && r + 2 < dim

/-- cartesian product in `itertools.product` order (first factor slowest) -/
def cartesian : List (List Nat) → List (List Nat)
  | [] => [[]]
  | l :: ls => l.flatMap fun x => (cartesian ls).map (x :: ·)

/-- dims of one block that get a preconditioner, in statistics order -/
def blockPrecondDims (pt : PType) (t : List Nat) : List Nat :=
  let rank := t.length
  match pt with
  | .all => t
  | .input => if rank ≤ 1 then t else t.take (rank - 1)
  | .output => if rank ≤ 1 then t else t.drop (rank - 1)

/-- `shapes_for_preconditioners`: list of `[dim, precondDim]` -/
def shapesForPreconditioners (pt : PType) (r : Nat) (shape : List Nat) (b : Nat) :
    List (Nat × Nat) :=
  (cartesian (splitAll shape b)).flatMap fun t =>
    (blockPrecondDims pt t).map fun d => (d, precondDim r d)

/-- `_preconds_for_grad` as repaired (D2): slot list of length `rank`, entries are
indices into the flat preconditioner list, `none` for unpreconditioned axes. -/
def precondsForGrad (pt : PType) (rank blockIx : Nat) : List (Option Nat) :=
  let k := numPreconditioned pt rank
  let sl := (List.range k).map fun j => some (blockIx * k + j)
  match pt with
  | .all => sl
  | .input => if rank ≤ 1 then sl else sl ++ [none]
  | .output => if rank ≤ 1 then sl else List.replicate (rank - 1) none ++ sl

/-! ### Tearfree reshaper (`_derive_shapes`, pad) -/

def padDim (s b : Nat) : Nat :=
  if b = 0 then s else if s ≥ b then ((s + b - 1) / b) * b else s

structure TFShapes where
  original : List Nat
  merged : List Nat
  padded : List Nat
  deriving Repr, DecidableEq

def deriveShapes (mergeDims blockSize : Nat) (shape : List Nat) : TFShapes :=
  let merged := mergeSmallDims shape mergeDims
  if merged = [1] then ⟨shape, [], []⟩
  else ⟨shape, merged, merged.map (padDim · blockSize)⟩

/-- reshape as index function (row-major) -/
def Tensor.reshape {α} (t : Tensor α) (newShape : List Nat) : Tensor α :=
  { shape := newShape, get := fun idx => t.get (unravel t.shape (ravel newShape idx)) }

def lt2 : List Nat → List Nat → Bool
  | [], [] => true
  | i :: is, s :: ss => decide (i < s) && lt2 is ss
  | _, _ => false

/-- `jnp.pad(t, [(0, p - m)])` with zeros -/
def Tensor.padTo {α} (zero : α) (t : Tensor α) (padded : List Nat) : Tensor α :=
  { shape := padded, get := fun idx => if lt2 idx t.shape then t.get idx else zero }

/-- `update[tuple(slice(0, m) ...)]` -/
def Tensor.cropTo {α} (t : Tensor α) (shape : List Nat) : Tensor α :=
  { shape := shape, get := t.get }

def tfMerge {α} (zero : α) (s : TFShapes) (blockSize : Nat) (t : Tensor α) : Tensor α :=
  let m := t.reshape s.merged
  if s.padded ≠ [] ∧ blockSize > 0 then m.padTo zero s.padded else m

def tfUnmerge {α} (s : TFShapes) (blockSize : Nat) (t : Tensor α) : Tensor α :=
  let m := if blockSize = 0 then t else t.cropTo s.merged
  { m with shape := s.merged }.reshape s.original

/-! ### Tearfree Shampoo blocks -/

structure BlocksMeta where
  blockSizes : List Nat
  numBlocks : Nat
  largeBlockSize : Nat
  paramShape : List Nat
  largeAxes : List Nat
  blocksPerLargeAxis : List Nat
  blocksAxis : Nat
  deriving Repr, DecidableEq

def blocksMetadata (blockSize : Nat) (shape : List Nat) : BlocksMeta :=
  let large := (List.range shape.length).filter fun i => shape.getD i 0 ≥ blockSize
  let bpl := large.map fun i => shape.getD i 0 / blockSize
  { blockSizes := shape.map (min · blockSize)
    numBlocks := prod bpl
    largeBlockSize := blockSize
    paramShape := shape
    largeAxes := large
    blocksPerLargeAxis := bpl
    blocksAxis := large.headD 0 }

/-- `jnp.transpose(t, perm)`: output axis `a` is input axis `perm[a]` -/
def Tensor.transpose {α} (t : Tensor α) (perm : List Nat) : Tensor α :=
  { shape := perm.map fun a => t.shape.getD a 0
    get := fun idx =>
      t.get ((List.range t.shape.length).map fun a =>
        idx.getD (perm.idxOf a) 0) }

def popAt (l : List Nat) (i : Nat) : List Nat := l.take i ++ l.drop (i + 1)
def insertAt (l : List Nat) (i : Nat) (x : Nat) : List Nat := l.take i ++ x :: l.drop i

/-- two-large-axes branch of `_blockify`: split both axes into (blocks, block), move the
right blocks axis next to the left one, fuse the two blocks axes -/
def blockifyTwo {α} (t : Tensor α) (before middle after : List Nat) (lB rB bs nB : Nat) :
    Tensor α :=
  let splitShape := before ++ [lB, bs] ++ middle ++ [rB, bs] ++ after
  let x := t.reshape splitShape
  let lIx := before.length
  let rIx := before.length + 2 + middle.length
  let perm := insertAt (popAt (List.range splitShape.length) rIx) (lIx + 1) rIx
  (x.transpose perm).reshape (before ++ [nB, bs] ++ middle ++ [bs] ++ after)

/-- `_blockify` -/
def blockify {α} (t : Tensor α) (m : BlocksMeta) : Tensor α :=
  match m.largeAxes with
  | [] => t.reshape (insertAt t.shape m.blocksAxis 1)
  | [a] =>
    let before := t.shape.take a
    let after := t.shape.drop (a + 1)
    t.reshape (before ++ [m.numBlocks, m.largeBlockSize] ++ after)
  | [a, c] =>
    blockifyTwo t (t.shape.take a) ((t.shape.drop (a + 1)).take (c - a - 1)) (t.shape.drop (c + 1))
      (m.blocksPerLargeAxis.getD 0 0) (m.blocksPerLargeAxis.getD 1 0) m.largeBlockSize m.numBlocks
  | _ => t

/-- two-large-axes branch of `_deblockify` -/
def deblockifyTwo {α} (t : Tensor α) (blocksAxis c : Nat) (bpl paramShape : List Nat) :
    Tensor α :=
  let before := t.shape.take blocksAxis
  let after := t.shape.drop (blocksAxis + 1)
  let x := t.reshape (before ++ bpl ++ after)
  let rIx := blocksAxis + 1
  let perm := insertAt (popAt (List.range x.shape.length) rIx) (c + 1) rIx
  (x.transpose perm).reshape paramShape

/-- `_deblockify` -/
def deblockify {α} (t : Tensor α) (m : BlocksMeta) : Tensor α :=
  match m.largeAxes with
  | [] => t.reshape m.paramShape
  | [_] => t.reshape m.paramShape
  | [_, c] => deblockifyTwo t m.blocksAxis c m.blocksPerLargeAxis m.paramShape
  | _ => t

end PrecondVerif.Shapes
