/-
Model of the refresh / warm-up schedule of google-research/precondition (property C04).

Mirrors, over opaque values (no Mathlib):
  * `distributed_shampoo.preconditioning_compute_steps_schedule`           → `scheduledInterval`
  * `distributed_shampoo._compute_stats` (`step % statistics_compute_steps == 0`
    under `efficient_cond`, only when `statistics_compute_steps > 1`)       → `dsPerformStats`
  * `_pmap_compute_preconditioners` / `sharded_update_fn`
    (`perform_step = step % preconditioning_compute_steps_t == 0`,
     `_update_preconditioners_fn` with the `steps == 1` shortcut,
     `efficient_cond(perform_step, root, [statistics-as-junk, error = failure threshold])`,
     the acceptance gate `_select_preconditioner`, metrics kept when not performed) → `dsCandidate`, `gate`, `dsStep`
  * `_transform_grad`: `run_shampoo = step >= start_preconditioning_step` and the arithmetic blend
    `run_shampoo * shampoo + (1 - run_shampoo) * graft`                      → `runShampoo`, `blend`
  * `update_fn` order (statistics → preconditioners → transform with the NEW preconditioners) and
    `sharded_update_fn` order (statistics → transform with the OLD preconditioners → preconditioners)
  * `tearfree/shampoo.py::_update` (two `lax.cond`s), `tearfree/sketchy.py::_update` (one),
    `tearfree/grafting.py::_graft_with` (`count >= start_preconditioning_step`)

Numerical kernels (statistics update, inverse roots, graft / Shampoo momentum updates) are
parameters; the state components they produce are values of arbitrary types.
The automaton describes ONE preconditioner slot; the optimizer state is the product of the slots
of all statistics, all driven by the same `count`.
-/

namespace PrecondVerif.Schedule

/-! ### generic histories -/

/-- run a step function over a list of inputs, forgetting the outputs -/
def run {S I O : Type} (step : S → I → S × O) (s : S) (is : List I) : S :=
  is.foldl (fun s i => (step s i).1) s

/-- state before step number `k` (i.e. after the first `k` inputs) -/
def stateAt {S I O : Type} (step : S → I → S × O) (s : S) (is : List I) (k : Nat) : S :=
  run step s (is.take k)

/-- the list of (state before the step, input, output) along a history -/
def trace {S I O : Type} (step : S → I → S × O) : S → List I → List (S × I × O)
  | _, [] => []
  | s, i :: is => (s, i, (step s i).2) :: trace step (step s i).1 is

/-! ### `preconditioning_compute_steps_schedule` -/

/-- `jnp.maximum((t // 10) * 10, 1)` with `t = start + (1 - lr/base_lr) * end`; `d = lr step / lr 0`. -/
def scheduledIntervalInt (s e d : Rat) : Int :=
  max (((s + (1 - d) * e) / 10).floor * 10) 1

def scheduledInterval (s e d : Rat) : Nat := (scheduledIntervalInt s e d).toNat

/-- how `preconditioning_compute_steps_t` is obtained at a given count -/
inductive Interval where
  /-- `preconditioning_compute_steps` used as is -/
  | fixed (pi : Nat)
  /-- `decay_preconditioning_compute_steps and end_preconditioning_compute_steps and callable(lr)`;
  `decay t = lr t / lr 0` -/
  | scheduled (s e : Rat) (decay : Nat → Rat)

def Interval.at : Interval → Nat → Nat
  | .fixed pi, _ => pi
  | .scheduled s e decay, t => scheduledInterval s e (decay t)

/-! ### selection arithmetic of `_transform_grad` -/

/-- `(step >= start_preconditioning_step).astype(dtype)` -/
def runShampoo {α : Type} [OfNat α 0] [OfNat α 1] (start count : Nat) : α :=
  if count ≥ start then 1 else 0

/-- `run_shampoo * a + (1.0 - run_shampoo) * b` — kept as arithmetic, as in the code -/
def blend {α : Type} [Add α] [Mul α] [Sub α] [OfNat α 1] (r a b : α) : α :=
  r * a + (1 - r) * b

/-! ### Distributed Shampoo -/

/-- `σ` statistics, `π` preconditioner, `μ` training metrics, `γ` gradient, `φ` per-step fault
environment of the root computation (adversarial), `δ` graft state (diagonal statistics and
diagonal momentum), `m` Shampoo momentum, `α` update values. -/
structure DSKernels (σ π μ γ φ δ m α : Type) where
  /-- `preconditioner.updated_statistics_from_grad` -/
  statsUpd : σ → γ → σ
  /-- `_internal_inverse_pth_root_all`: candidate and its metrics, from the statistics handed in
  (the previous preconditioner is available for `reuse_preconditioner`) -/
  rootAll : σ → π → φ → π × μ
  /-- initial carry of `efficient_cond`: the statistics sliced to preconditioner shape -/
  junk : σ → π
  /-- initial metrics of `efficient_cond`: error = `inverse_failure_threshold` -/
  failMetrics : μ
  /-- `_skip`: `isnan(error) or error >= inverse_failure_threshold` -/
  bad : μ → Bool
  /-- graft branch of `_transform_grad`: new graft state, `grafting_update_with_wd`,
  `grafting_update_with_wd_momentum` -/
  graftUpd : δ → γ → Nat → δ × α × α
  /-- Shampoo branch: new momentum, `shampoo_update_with_wd`, `shampoo_update_with_wd_momentum` -/
  shampooUpd : m → π → γ → Nat → m × α × α
  /-- nesterov / decoupled weight decay / learning-rate post-processing of
  (`momentum_update`, `wd_update`) -/
  finish : α → α → Nat → α

structure DSCfg where
  /-- `statistics_compute_steps` -/
  si : Nat
  /-- `preconditioning_compute_steps_t` as a function of the count -/
  interval : Nat → Nat
  /-- `start_preconditioning_step` -/
  start : Nat
  /-- `shard_optimizer_states` (decides which preconditioner the update of this step uses) -/
  sharded : Bool

structure DSState (σ π μ δ m : Type) where
  count : Nat
  stats : σ
  precond : π
  metrics : μ
  graft : δ
  mom : m

structure DSInp (γ φ : Type) where
  grad : γ
  fault : φ

/-- `_compute_stats`: the cond exists only when `statistics_compute_steps > 1` -/
def dsPerformStats (si count : Nat) : Bool :=
  if si > 1 then count % si == 0 else true

/-- `perform_step = step % preconditioning_compute_steps_t == 0` -/
def dsPerformPrecond (itv count : Nat) : Bool := count % itv == 0

section DS
variable {σ π μ γ φ δ m α : Type}

/-- `_update_preconditioners_fn`: `steps == 1` ⇒ always the root; otherwise `efficient_cond`. -/
def dsCandidate (K : DSKernels σ π μ γ φ δ m α) (itv count : Nat) (stats' : σ) (prev : π) (f : φ) :
    π × μ :=
  if itv == 1 then K.rootAll stats' prev f
  else if dsPerformPrecond itv count then K.rootAll stats' prev f
  else (K.junk stats', K.failMetrics)

/-- `_select_preconditioner` -/
def gate (K : DSKernels σ π μ γ φ δ m α) (old : π) (cand : π × μ) : π :=
  if K.bad cand.2 then old else cand.1

def dsStats' (K : DSKernels σ π μ γ φ δ m α) (cfg : DSCfg) (s : DSState σ π μ δ m) (g : γ) : σ :=
  if dsPerformStats cfg.si s.count then K.statsUpd s.stats g else s.stats

/-- one `update` call -/
def dsStep [Add α] [Mul α] [Sub α] [OfNat α 0] [OfNat α 1]
    (K : DSKernels σ π μ γ φ δ m α) (cfg : DSCfg) (s : DSState σ π μ δ m) (i : DSInp γ φ) :
    DSState σ π μ δ m × α :=
  let stats' := dsStats' K cfg s i.grad
  let itv := cfg.interval s.count
  let cand := dsCandidate K itv s.count stats' s.precond i.fault
  let precond' := gate K s.precond cand
  let metrics' := if dsPerformPrecond itv s.count then cand.2 else s.metrics
  let used := if cfg.sharded then s.precond else precond'
  let gr := K.graftUpd s.graft i.grad s.count
  let sh := K.shampooUpd s.mom used i.grad s.count
  let r : α := runShampoo cfg.start s.count
  let out := K.finish (blend r sh.2.2 gr.2.2) (blend r sh.2.1 gr.2.1) s.count
  ({ count := s.count + 1, stats := stats', precond := precond', metrics := metrics',
     graft := gr.1, mom := sh.1 }, out)

end DS

/-! ### Tearfree Shampoo, Sketchy, grafting -/

structure TFKernels (σ ρ γ υ : Type) where
  /-- `_update_block_stats` over all blocks -/
  statsUpd : σ → γ → σ
  /-- `_update_block_precond` over all blocks -/
  root : σ → ρ
  /-- `_precondition_blocks` -/
  precondition : ρ → γ → υ

structure TFState (σ ρ : Type) where
  count : Nat
  stats : σ
  roots : ρ

/-- `tearfree/shampoo.py::_update`: statistics cond, then preconditioner cond on the blocks the
first cond produced, then preconditioning with the resulting blocks. -/
def tfShampooStep {σ ρ γ υ : Type} (K : TFKernels σ ρ γ υ) (sf pf : Nat) (s : TFState σ ρ) (g : γ) :
    TFState σ ρ × υ :=
  let stats' := if s.count % sf == 0 then K.statsUpd s.stats g else s.stats
  let roots' := if s.count % pf == 0 then K.root stats' else s.roots
  ({ count := s.count + 1, stats := stats', roots := roots' }, K.precondition roots' g)

structure SKKernels (κ γ υ : Type) where
  /-- `_update_sketches` (sketch, tail and inverse roots in one go) -/
  upd : κ → γ → κ
  /-- `_precondition` -/
  precondition : κ → γ → υ

structure SKState (κ : Type) where
  count : Nat
  sketch : κ

/-- `tearfree/sketchy.py::_update` (`ekfac_svd = False`): one cond. -/
def sketchyStep {κ γ υ : Type} (K : SKKernels κ γ υ) (f : Nat) (s : SKState κ) (g : γ) : SKState κ × υ :=
  let sk' := if s.count % f == 0 then K.upd s.sketch g else s.sketch
  ({ count := s.count + 1, sketch := sk' }, K.precondition sk' g)

structure GraftState (D N : Type) where
  count : Nat
  direction : D
  norm : N

/-- `tearfree/grafting.py::_graft_with.update_fn` for one tensor. `masked` is `_masked(base)`
(tensor skipped by rank / size rules); `scale base graft = base * (‖graft‖ / ‖base‖)`. -/
def graftStep {D N γ υ : Type} (dirStep : D → γ → D × υ) (normStep : N → γ → N × υ)
    (scale : υ → υ → υ) (start : Nat) (masked : Bool) (s : GraftState D N) (g : γ) :
    GraftState D N × υ :=
  let d := dirStep s.direction g
  let n := normStep s.norm g
  let out := if masked then n.2 else if s.count ≥ start then scale d.2 n.2 else n.2
  ({ count := s.count + 1, direction := d.1, norm := n.1 }, out)

/-! ### token instantiation executed by the driver

Statistics are the list of gradient indices absorbed so far (most recent first); a preconditioner is
`some l` when it is the root of the statistics `l`, `none` when it is the initial identity; metrics
are `some (l, ok)` likewise. The fault environment of a step is the acceptance flag of the gate. -/

abbrev Tok := List Nat

def tokKernels : DSKernels Tok (Option Tok) (Option (Tok × Bool)) Nat Bool Unit Unit Rat where
  statsUpd := fun s g => g :: s
  rootAll := fun s _ ok => (some s, some (s, ok))
  junk := fun _ => none
  failMetrics := none
  bad := fun
    | none => true
    | some (_, ok) => !ok
  graftUpd := fun _ _ _ => ((), 0, 0)
  shampooUpd := fun _ _ _ _ => ((), 1, 1)
  finish := fun a _ _ => a

def tokInit : DSState Tok (Option Tok) (Option (Tok × Bool)) Unit Unit :=
  { count := 0, stats := [], precond := none, metrics := none, graft := (), mom := () }

def tokTF : TFKernels Tok (Option Tok) Nat Bool where
  statsUpd := fun s g => g :: s
  root := fun s => some s
  precondition := fun _ _ => true

def tokSK : SKKernels Tok Nat Bool where
  upd := fun s g => g :: s
  precondition := fun _ _ => true

end PrecondVerif.Schedule
