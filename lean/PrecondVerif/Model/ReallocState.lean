/-
Model of the SCORING and TRAVERSAL side of `precondition/tearfree/reallocation.py` (C17, extension).
Mathlib-free.  `Model/Realloc.lean` holds the allocation proper (`createRedist`); this file models what
surrounds it in `create_redist_dict`:

* the optimizer state as a JSON-like tree (`Tree`): string-keyed dicts, everything else a leaf
  (`isinstance(value, dict)` is the only test the code makes);
* `layers_and_axes` (`extractItems`, `layerNames`, `numAxesOf`): the set of paths of dicts that have a
  non-dict child; a *layer name* is such a path whose joined string has `'/'` as second-to-last
  character, i.e. (keys are non-empty and contain no `'/'`) a path of ≥ 2 components whose last
  component is one character — the axis id; `num_axes` = number of DISTINCT axis ids in the tree;
* `create_groups` (`dimOf`): the group key of a layer name is its `'dim'` entry if present, else
  `eigvecs.shape[0]`;
* `score_fn` (`opVal`, `meanL`, `scoreOf`): the five rules over the leaf they read
  (`tail`, `eigvals`, `ema_ggt`), averaged over the selected states with `jnp.mean`;
* the returned nested dict (`skeleton`, `writeSlot`, `buildMap`) as a finite map from layer directory
  (`name.split('/')[:-2]`) to a row of `num_axes` integers, and its rendering as a nested dict (`render`).

Set iteration order (Python `set` of names) is not modelled: the order in which the implementation
iterates `layer_names` is an INPUT (`order`), checked to be a permutation of the model's own name set.

External kernel: `jnp.linalg.norm(x, 2)` (largest singular value, LAPACK) is a parameter — the value is
carried in the `mat` leaf (`norm2`) and only `0 ≤ norm2` is assumed by the theorems.

Platform fact (measured by the harness, stage `mean_calibration`): `jnp.mean` of `n` values is evaluated
by XLA CPU as `sum · fl(1/n)` (division by a constant becomes a multiplication by its reciprocal), the sum
left to right; `recip = false` selects the textbook `sum / n` instead.
-/
import PrecondVerif.Model.Realloc

namespace PrecondVerif.Realloc

/-- What a non-dict value of the state can be, as far as the code reads it. -/
inductive Leaf (α : Type) where
  | scalar (x : α)                            -- 0-d array (`tail`)
  | vec (xs : List α)                         -- 1-d array (`eigvals`)
  | mat (rows : List (List α)) (norm2 : α)    -- 2-d array (`ema_ggt`) with the kernel value `norm(·, 2)`
  | shape (dims : List Nat)                   -- an array of which only the shape is read (`eigvecs`)
  | int (n : Nat)                             -- a Python int (`dim`)
  | other                                     -- list, None, masked node, string, …

inductive Tree (α : Type) where
  | leaf (l : Leaf α)
  | dict (items : List (String × Tree α))

abbrev Path := List String

/-- Everything that makes the Python function raise (or silently misbehave: `collision`). -/
inductive TErr where
  | noStates                                -- `states[-1]` on an empty tuple
  | noSketches                              -- KeyError on the way to `['sketches']`
  | shortName (name : Path)                 -- `name[-2]`: IndexError (joined name shorter than 2 characters)
  | badAxisId (name : Path)                 -- `int(key.split('/')[-1])`: ValueError
  | missing (name : Path) (key : String)    -- KeyError
  | badLeaf (name : Path) (key : String)    -- a leaf of a kind the rule / grouping cannot use
  | noLayerDir (name : Path)                -- `dirs[-1]` with `dirs = name.split('/')[:-2]` empty: IndexError
  | slotOutOfRange (name : Path) (numAxes : Nat)   -- `carry[axes_id] = …`: IndexError
  | collision (dir : Path)                  -- two names share (directory, axis id), or a directory is a prefix of another
  | badOrder                                -- harness input: `order` is not a permutation of the layer names
  | assertion (e : Err)                     -- one of the function's `assert`s
  deriving Repr, DecidableEq

section tree
variable {α : Type}

def lookupKey (k : String) : List (String × Tree α) → Option (Tree α)
  | [] => none
  | (k', t) :: rest => if k' = k then some t else lookupKey k rest

/-- `carry[k]` -/
def Tree.get? : Tree α → String → Option (Tree α)
  | .dict items, k => lookupKey k items
  | .leaf _, _ => none

/-- `for d in dirs: carry = carry[d]` -/
def Tree.getPath? (t : Tree α) : Path → Option (Tree α)
  | [] => some t
  | k :: ks =>
    match t.get? k with
    | some s => s.getPath? ks
    | none => none

mutual
/-- contribution of the value stored under key `k` of the dict at `parent` to `extract_paths` -/
def extractChild (parent : Path) (k : String) : Tree α → List Path
  | .leaf _ => [parent]
  | .dict items => extractItems (parent ++ [k]) items
/-- `extract_paths(sketches, parent_key)`, with repetitions (one per non-dict child) -/
def extractItems (parent : Path) : List (String × Tree α) → List Path
  | [] => []
  | (k, t) :: rest => extractChild parent k t ++ extractItems parent rest
end

def extractPaths : Tree α → List Path
  | .leaf _ => []
  | .dict items => extractItems [] items

end tree

/-- distinct values in order of first occurrence -/
def dedup {β : Type} [DecidableEq β] : List β → List β
  | [] => []
  | x :: xs => x :: (dedup xs).filter (fun y => y ≠ x)

/-- length of `'/'.join(cs)` -/
def joinedLen (cs : Path) : Nat := (cs.map String.length).sum + (cs.length - 1)

def lastLen (cs : Path) : Nat :=
  match cs.getLast? with
  | some c => c.length
  | none => 0

/-- `name[-2] == '/'` -/
def isLayerName (cs : Path) : Except TErr Bool :=
  if joinedLen cs < 2 then .error (.shortName cs)
  else .ok (decide (2 ≤ cs.length) && decide (lastLen cs = 1))

def filterNames : List Path → Except TErr (List Path)
  | [] => .ok []
  | p :: ps =>
    match isLayerName p with
    | .error e => .error e
    | .ok b =>
      match filterNames ps with
      | .error e => .error e
      | .ok r => .ok (if b then p :: r else r)

/-- `layers_and_axes(sketches)[0]` as a duplicate-free list -/
def layerNames {α : Type} (sk : Tree α) : Except TErr (List Path) :=
  match filterNames (extractPaths sk) with
  | .error e => .error e
  | .ok r => .ok (dedup r)

def lastComp (cs : Path) : String := cs.getLast?.getD ""

/-- `len(axes_set)`: number of distinct last characters -/
def numAxesOf (names : List Path) : Nat := (dedup (names.map lastComp)).length

/-- `name.split('/')[:-2]` -/
def layerDir (name : Path) : Path := name.dropLast.dropLast

def digitVal (c : Char) : Option Nat :=
  if 48 ≤ c.toNat ∧ c.toNat ≤ 57 then some (c.toNat - 48) else none

/-- `int(s)` for a string of ASCII digits -/
def parseNat (s : String) : Option Nat :=
  match s.toList with
  | [] => none
  | cs => cs.foldl (fun acc c =>
      match acc, digitVal c with
      | some a, some d => some (10 * a + d)
      | _, _ => none) (some 0)

/-- `int(name.split('/')[-1])` (a single character) -/
def axisId (name : Path) : Option Nat := parseNat (lastComp name)

/-- `create_groups`: the group key of a layer name -/
def dimOf {α : Type} (sk : Tree α) (name : Path) : Except TErr Nat :=
  match sk.getPath? name with
  | none => .error (.missing name "")
  | some node =>
    match node.get? "dim" with
    | some (.leaf (.int n)) => .ok n
    | some _ => .error (.badLeaf name "dim")
    | none =>
      match node.get? "eigvecs" with
      | some (.leaf (.shape (d :: _))) => .ok d
      | some _ => .error (.badLeaf name "eigvecs")
      | none => .error (.missing name "eigvecs")

/-! ### scoring -/

inductive Rule where
  | ggtIntrinsicRank | ggtTrace | tailRho | sketchIntrinsicRank | sketchTrace
  deriving DecidableEq, Repr

def Rule.target : Rule → String
  | .ggtIntrinsicRank => "ema_ggt"
  | .ggtTrace => "ema_ggt"
  | .tailRho => "tail"
  | .sketchIntrinsicRank => "eigvals"
  | .sketchTrace => "eigvals"

section score
variable {α : Type}

/-- the diagonal `rows[i][i]`, `i` counted from `i₀` -/
def diagFrom [OfNat α 0] : Nat → List (List α) → List α
  | _, [] => []
  | i, r :: rs => r.getD i 0 :: diagFrom (i + 1) rs

/-- `jnp.trace` -/
def traceOf [Add α] [OfNat α 0] (rows : List (List α)) : α := total (diagFrom 0 rows)

/-- `jnp.max` of a vector (0 for an empty one, where jnp raises) -/
def maxL [OfNat α 0] [LT α] [DecidableLT α] : List α → α
  | [] => 0
  | x :: xs => xs.foldl (fun a b => if a < b then b else a) x

/-- `bool(x)` of a float that is not NaN -/
def truthy [OfNat α 0] [LT α] [DecidableLT α] (x : α) : Bool := decide (x < 0) || decide (0 < x)

/-- `ops_dict[rule]` applied to the leaf `ct[target]` -/
def opVal [Add α] [Div α] [OfNat α 0] [LT α] [DecidableLT α] : Rule → Leaf α → Option α
  | .tailRho, .scalar x => some x
  | .sketchTrace, .vec xs => some (total xs)
  | .sketchIntrinsicRank, .vec xs =>
    let s := total xs
    some (if truthy s then s / maxL xs else 0)
  | .ggtTrace, .mat rows _ => some (traceOf rows)
  | .ggtIntrinsicRank, .mat rows nrm => some (traceOf rows / nrm)
  | _, _ => none

/-- `jnp.mean(jnp.array(vals))` -/
def meanL [Add α] [Mul α] [Div α] [OfNat α 0] (ofNat : Nat → α) (recip : Bool) (vals : List α) : α :=
  if recip then total vals * (ofNat 1 / ofNat vals.length) else total vals / ofNat vals.length

/-- the statistic of layer `name` in one state's sketches -/
def statOf [Add α] [Div α] [OfNat α 0] [LT α] [DecidableLT α] (rule : Rule) (name : Path) (sk : Tree α) :
    Except TErr α :=
  match sk.getPath? name with
  | none => .error (.missing name "")
  | some node =>
    match node.get? rule.target with
    | none => .error (.missing name rule.target)
    | some (.dict _) => .error (.badLeaf name rule.target)
    | some (.leaf l) =>
      match opVal rule l with
      | some v => .ok v
      | none => .error (.badLeaf name rule.target)

def statsOf [Add α] [Div α] [OfNat α 0] [LT α] [DecidableLT α] (rule : Rule) (name : Path) :
    List (Tree α) → Except TErr (List α)
  | [] => .ok []
  | sk :: sks =>
    match statOf rule name sk with
    | .error e => .error e
    | .ok v =>
      match statsOf rule name sks with
      | .error e => .error e
      | .ok vs => .ok (v :: vs)

/-- `score_fn(...)[name]` -/
def scoreOf [Add α] [Mul α] [Div α] [OfNat α 0] [LT α] [DecidableLT α] (ofNat : Nat → α) (recip : Bool)
    (rule : Rule) (sks : List (Tree α)) (name : Path) : Except TErr α :=
  match statsOf rule name sks with
  | .error e => .error e
  | .ok vs => .ok (meanL ofNat recip vs)

def sketchesPath : Path := ["inner_state", "0", "direction", "1", "sketches"]

def sketchesOf (st : Tree α) : Except TErr (Tree α) :=
  match st.getPath? sketchesPath with
  | some sk => .ok sk
  | none => .error .noSketches

def sketchesAll : List (Tree α) → Except TErr (List (Tree α))
  | [] => .ok []
  | st :: sts =>
    match sketchesOf st with
    | .error e => .error e
    | .ok sk =>
      match sketchesAll sts with
      | .error e => .error e
      | .ok sks => .ok (sk :: sks)

/-- one `(name, dim, score)` per layer name, in the given order -/
def axesFor [Add α] [Mul α] [Div α] [OfNat α 0] [LT α] [DecidableLT α] (ofNat : Nat → α) (recip : Bool)
    (rule : Rule) (last : Tree α) (sks : List (Tree α)) : List Path → Except TErr (List (Path × Nat × α))
  | [] => .ok []
  | name :: rest =>
    match dimOf last name with
    | .error e => .error e
    | .ok d =>
      match scoreOf ofNat recip rule sks name with
      | .error e => .error e
      | .ok s =>
        match axesFor ofNat recip rule last sks rest with
        | .error e => .error e
        | .ok r => .ok ((name, d, s) :: r)

/-- The traversal + scoring half of `create_redist_dict`: `(num_axes, [(name, dim, score)])`. -/
def axesOf [Add α] [Mul α] [Div α] [OfNat α 0] [LT α] [DecidableLT α] (ofNat : Nat → α) (recip : Bool)
    (rule : Rule) (avg : Bool) (states : List (Tree α)) (order : List Path) :
    Except TErr (Nat × List (Path × Nat × α)) :=
  match states.getLast? with
  | none => .error .noStates
  | some lastSt =>
    match sketchesOf lastSt with
    | .error e => .error e
    | .ok last =>
      match layerNames last with
      | .error e => .error e
      | .ok names =>
        if !(order.isPerm names) then .error .badOrder else
        match (if avg then sketchesAll states else .ok [last]) with
        | .error e => .error e
        | .ok sks =>
          match axesFor ofNat recip rule last sks order with
          | .error e => .error e
          | .ok axes => .ok (numAxesOf names, axes)

end score

/-! ### the returned dictionary -/

/-- layer directory ↦ row of `num_axes` ranks -/
abbrev PathMap := List (Path × List Int)

def lookupRow (dir : Path) : PathMap → Option (List Int)
  | [] => none
  | (d, r) :: rest => if d = dir then some r else lookupRow dir rest

/-- `cur[dirs[-1]] = row` (replace in place or append) -/
def setRow (dir : Path) (row : List Int) : PathMap → PathMap
  | [] => [(dir, row)]
  | (d, r) :: rest => if d = dir then (d, row) :: rest else (d, r) :: setRow dir row rest

/-- is `p` a proper prefix of `q` -/
def properPrefix (p q : Path) : Bool := p.isPrefixOf q && decide (p.length < q.length)

/-- `create_redist()`: one zero row per layer directory -/
def skeleton (numAxes : Nat) : List Path → Except TErr PathMap
  | [] => .ok []
  | name :: rest =>
    if layerDir name = [] then .error (.noLayerDir name) else
    match skeleton numAxes rest with
    | .error e => .error e
    | .ok m => .ok (setRow (layerDir name) (List.replicate numAxes 0) m)

/-- `carry[axes_id] = rank` -/
def writeSlot (name : Path) (r : Int) (m : PathMap) : Except TErr PathMap :=
  match axisId name with
  | none => .error (.badAxisId name)
  | some i =>
    match lookupRow (layerDir name) m with
    | none => .error (.missing name "")
    | some row =>
      if i < row.length then .ok (setRow (layerDir name) (row.set i r) m)
      else .error (.slotOutOfRange name row.length)

def writeAll : List (Path × Int) → PathMap → Except TErr PathMap
  | [], m => .ok m
  | (name, r) :: rest, m =>
    match writeSlot name r m with
    | .error e => .error e
    | .ok m' => writeAll rest m'

/-- all `(name, rank)` pairs, groups in dict order -/
def flatRanks (out : List (Nat × List (Path × Int))) : List (Path × Int) := out.flatMap (·.2)

/-- the slot of the returned dict a layer name is written to -/
def slotOf (name : Path) : Path × Option Nat := (layerDir name, axisId name)

/-- `carry[axes_id]` read back -/
def getSlot (m : PathMap) (dir : Path) (i : Nat) : Option Int :=
  match lookupRow dir m with
  | some row => row[i]?
  | none => none

/-- a layer directory that is a proper prefix of another one (the nested dict would hold a list where a
dict is needed, or the other way round, depending on the iteration order) -/
def findPrefixClash (names : List Path) : Option Path :=
  match names.find? (fun n => names.any (fun n' => properPrefix (layerDir n) (layerDir n'))) with
  | some n => some (layerDir n)
  | none => none

/-- `redist_dict` after all groups have been written.  Two names that share (directory, axis id) would
silently overwrite each other in Python: flagged as `collision []`. -/
def buildMap (numAxes : Nat) (order : List Path) (out : List (Nat × List (Path × Int))) : Except TErr PathMap :=
  match findPrefixClash order with
  | some d => .error (.collision d)
  | none =>
    if ((flatRanks out).map (fun w => slotOf w.1)).Nodup then
      match skeleton numAxes order with
      | .error e => .error e
      | .ok m => writeAll (flatRanks out) m
    else .error (.collision [])

structure PipelineOut (α : Type) where
  numAxes : Nat
  axes : List (Path × Nat × α)
  ranks : List (Nat × List (Path × Int))
  map : PathMap
  deriving DecidableEq

/-- `create_redist_dict(states=…)` -/
def pipeline {α : Type} [Add α] [Mul α] [Div α] [OfNat α 0] [LT α] [DecidableLT α]
    (alloc : α → Int → α → Int) (ofNat : Nat → α) (recip : Bool)
    (rule : Rule) (avg : Bool) (k : Int) (states : List (Tree α)) (order : List Path) :
    Except TErr (PipelineOut α) :=
  match axesOf ofNat recip rule avg states order with
  | .error e => .error e
  | .ok (n, axes) =>
    match createRedist alloc k axes with
    | .error e => .error (.assertion e)
    | .ok ranks =>
      match buildMap n order ranks with
      | .error e => .error e
      | .ok m => .ok ⟨n, axes, ranks, m⟩

/-! ### rendering as a nested dict -/

inductive RTree where
  | row (r : List Int)
  | node (items : List (String × RTree))

def rlookup (k : String) : List (String × RTree) → Option RTree
  | [] => none
  | (k', t) :: rest => if k' = k then some t else rlookup k rest

def rset (k : String) (v : RTree) : List (String × RTree) → List (String × RTree)
  | [] => [(k, v)]
  | (k', t) :: rest => if k' = k then (k', v) :: rest else (k', t) :: rset k v rest

/-- `cur = res; for d in dirs[:-1]: cur = cur.setdefault(d, {}); cur[dirs[-1]] = row` -/
def rinsert (items : List (String × RTree)) : Path → List Int → List (String × RTree)
  | [], _ => items
  | [k], row => rset k (.row row) items
  | k :: k2 :: ks, row =>
    match rlookup k items with
    | some (.node sub) => rset k (.node (rinsert sub (k2 :: ks) row)) items
    | _ => rset k (.node (rinsert [] (k2 :: ks) row)) items

def render (m : PathMap) : RTree := .node (m.foldl (fun items e => rinsert items e.1 e.2) [])

/-! ### the instances the driver executes -/

def floatOfNat (n : Nat) : Float := Float.ofNat n
def ratOfNat (n : Nat) : Rat := (n : Rat)

def pipelineFloat (recip : Bool) (rule : Rule) (avg : Bool) (k : Int) (states : List (Tree Float))
    (order : List Path) := pipeline allocFloat floatOfNat recip rule avg k states order
def pipelineRat (recip : Bool) (rule : Rule) (avg : Bool) (k : Int) (states : List (Tree Rat))
    (order : List Path) := pipeline allocRat ratOfNat recip rule avg k states order

end PrecondVerif.Realloc
