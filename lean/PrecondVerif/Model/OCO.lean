/-
Model of `precondition/oco/algorithms.py` (property C16). No Mathlib.

Mirrors, generically over the scalar type `α` (executed at `Rat` and `Float`, reasoned about
at ordered fields / ℝ in `Lemmas/OCO.lean`, `Props/C16.lean`):
  * `_ogd_init_fn`, `_ogd_update_fn`
  * `_diag_adagrad_init_fn`, `_diag_adagrad_update_fn`
  * `_fd_init_fn`, `_fd_update_fn` with the four factor sets `_rfd`, `_fdson`, `_adafd`, `_sada`
    (`_fd_method_factors`), the `alpha` update and `safe_invert`.

The in-place mutated `state` dict becomes a returned structure; a history is a `List.foldl`.
External kernels are *parameters*: `rsqrt`, `sqrt : α → α` and the SVD
`svd : Mat α (k+1) n → SvdOut α (k+1) n` (its specification is `SvdSpec`).
The sketch size is written `k+1` so that the last row `Fin.last k` exists (the code asserts
`sketch_size ≥ 2`; nothing below needs it).
-/

namespace PrecondVerif.OCO

abbrev Vec (α : Type) (n : Nat) := Fin n → α
abbrev Mat (α : Type) (m n : Nat) := Fin m → Fin n → α

/-- Marks the places where the Python code materialises an array. It is the identity: a tabulation
`let a := Vector.ofFn v; fun i => a[i]` is eta-expanded by the Lean 4.33 compiler (the table would be rebuilt on
every entry access, which made a 10-step history take minutes), so none is attempted; the driver keeps
evaluation polynomial by decoding every state from concrete arrays. -/
@[inline] def force {α : Type} {n : Nat} (v : Vec α n) : Vec α n := v

@[simp] theorem force_eq {α : Type} {n : Nat} (v : Vec α n) : force v = v := rfl

/-- the same marker for matrices (identity) -/
@[inline] def forceM {α : Type} {m n : Nat} (A : Mat α m n) : Mat α m n := A

@[simp] theorem forceM_eq {α : Type} {m n : Nat} (A : Mat α m n) : forceM A = A := rfl

section Generic
variable {α : Type} [Zero α] [One α] [Add α] [Sub α] [Mul α] [Div α]

/-- `Σ_i f i`, in index order -/
def sumFin {n : Nat} (f : Fin n → α) : α := ((List.finRange n).map f).sum

/-- `jnp.dot(P, g)` -/
def matVec {m n : Nat} (P : Mat α m n) (g : Vec α n) : Vec α m := fun i => sumFin fun j => P i j * g j

/-- `jnp.dot(P.T, c)` -/
def tMatVec {m n : Nat} (P : Mat α m n) (c : Vec α m) : Vec α n := fun j => sumFin fun i => P i j * c i

/-! ### OGD -/

structure OgdState (α : Type) (n : Nat) where
  w : Vec α n
  t : α

/-- `_ogd_init_fn` -/
def ogdInit (n : Nat) : OgdState α n := { w := fun _ => 0, t := 0 }

/-- `_ogd_update_fn`: `t += 1; w -= lr * grad * rsqrt(t + delta)` -/
def ogdUpdate {n : Nat} (rsqrt : α → α) (lr δ : α) (s : OgdState α n) (g : Vec α n) : OgdState α n :=
  let t := s.t + 1
  { w := force fun i => s.w i - lr * g i * rsqrt (t + δ), t := t }

def ogdRunFrom {n : Nat} (rsqrt : α → α) (lr δ : α) (s : OgdState α n) (gs : List (Vec α n)) :
    OgdState α n := gs.foldl (ogdUpdate rsqrt lr δ) s

def ogdRun {n : Nat} (rsqrt : α → α) (lr δ : α) (gs : List (Vec α n)) : OgdState α n :=
  ogdRunFrom rsqrt lr δ (ogdInit n) gs

/-! ### diagonal AdaGrad -/

structure AdaState (α : Type) (n : Nat) where
  w : Vec α n
  diagH : Vec α n

/-- `_diag_adagrad_init_fn`: `diag_h = ones * delta` -/
def adaInit (n : Nat) (δ : α) : AdaState α n := { w := fun _ => 0, diagH := fun _ => 1 * δ }

/-- `jnp.where(h == 0, 1, h)` -/
def nzOr1 [BEq α] (h : α) : α := if h == 0 then 1 else h

/-- `_diag_adagrad_update_fn`: `diag_h += grad**2; w -= rsqrt(where(diag_h == 0, 1, diag_h)) * grad * lr` -/
def adaUpdate [BEq α] {n : Nat} (rsqrt : α → α) (lr : α) (s : AdaState α n) (g : Vec α n) : AdaState α n :=
  let h := force fun i => s.diagH i + g i * g i
  { w := force fun i => s.w i - rsqrt (nzOr1 (h i)) * g i * lr, diagH := h }

def adaRunFrom [BEq α] {n : Nat} (rsqrt : α → α) (lr : α) (s : AdaState α n) (gs : List (Vec α n)) :
    AdaState α n := gs.foldl (adaUpdate rsqrt lr) s

def adaRun [BEq α] {n : Nat} (rsqrt : α → α) (lr δ : α) (gs : List (Vec α n)) : AdaState α n :=
  adaRunFrom rsqrt lr (adaInit n δ) gs

/-! ### sketched methods -/

inductive Algo where
  | rfdSon | fdSon | adaFd | sAda
  deriving DecidableEq, Repr

/-- which function `safe_invert` applies to the eigenvalues -/
inductive EigInv where
  | reciprocal      -- `jnp.reciprocal` (RFD-SON, FD-SON)
  | rsqrt           -- `jax.lax.rsqrt` (S-AdaGrad)
  | adaFdSpecial    -- the string sentinel 'Ada-FD requires special handling'
  deriving DecidableEq, Repr

structure Factors (α : Type) where
  sketch : α      -- sketch_update_factor
  alphaF : α      -- alpha_update_factor
  lr : α          -- lr
  inv : EigInv    -- eig_inversion

/-- `alpha_update_factor` of the four methods: 0.5, 0, 0, 1 -/
def alphaFactor : Algo → α
  | .rfdSon => 1 / (1 + 1)
  | .fdSon => 0
  | .adaFd => 0
  | .sAda => 1

/-- `sketch_update_factor` (evaluated with the already incremented `t`) -/
def sketchFactor (sqrt rsqrt : α → α) (algo : Algo) (t lr : α) : α :=
  match algo with
  | .rfdSon => rsqrt (t * lr)
  | .fdSon => rsqrt (sqrt t * lr)
  | .adaFd => 1
  | .sAda => 1

/-- `_fd_method_factors` -/
def factors (sqrt rsqrt : α → α) (algo : Algo) (t lr : α) : Factors α :=
  match algo with
  | .rfdSon => ⟨sketchFactor sqrt rsqrt algo t lr, alphaFactor algo, 1, .reciprocal⟩
  | .fdSon => ⟨sketchFactor sqrt rsqrt algo t lr, alphaFactor algo, 1, .reciprocal⟩
  | .adaFd => ⟨sketchFactor sqrt rsqrt algo t lr, alphaFactor algo, lr, .adaFdSpecial⟩
  | .sAda => ⟨sketchFactor sqrt rsqrt algo t lr, alphaFactor algo, lr, .rsqrt⟩

structure FdState (α : Type) (k n : Nat) where
  w : Vec α n
  t : α
  alpha : α
  P : Mat α (k + 1) n     -- sketch directions (rows)
  e : Vec α (k + 1)       -- root eigenvalues of the sketch

/-- `_fd_init_fn` -/
def fdInit (k n : Nat) (δ : α) : FdState α k n :=
  { w := fun _ => 0, t := 0, alpha := δ, P := fun _ _ => 0, e := fun _ => 0 }

/-- the sketch the state denotes: `B = P * e.reshape(-1, 1)` (row `i` is `e i • P i`) -/
def sketchRows {k n : Nat} (st : FdState α k n) : Mat α (k + 1) n := fun i j => st.P i j * st.e i

/-- `grad_input = grad.ravel() * sketch_update_factor` -/
def gradInput {n : Nat} (f : α) (g : Vec α n) : Vec α n := fun j => g j * f

/-- `B.at[-1].set(grad_input)` -/
def setLastRow {k n : Nat} (B : Mat α (k + 1) n) (r : Vec α n) : Mat α (k + 1) n :=
  fun i j => if i = Fin.last k then r j else B i j

structure SvdOut (α : Type) (m n : Nat) where
  U : Mat α m m
  s : Vec α m
  Vt : Mat α m n

abbrev SvdFn (α : Type) (m n : Nat) := Mat α m n → SvdOut α m n

/-- the matrix handed to `jnp.linalg.svd` in `_fd_update_fn` -/
def fdB {k n : Nat} (sqrt rsqrt : α → α) (algo : Algo) (lr : α) (st : FdState α k n) (g : Vec α n) :
    Mat α (k + 1) n :=
  forceM (setLastRow (sketchRows st) (gradInput (sketchFactor sqrt rsqrt algo (st.t + 1) lr) g))

/-- the code's `rho = s[-1]` (smallest singular value) -/
def fdSigmaMin {k n : Nat} (svd : SvdFn α (k + 1) n) (sqrt rsqrt : α → α) (algo : Algo) (lr : α)
    (st : FdState α k n) (g : Vec α n) : α :=
  (svd (fdB sqrt rsqrt algo lr st g)).s (Fin.last k)

/-- the escaped mass `rho**2` of one step -/
def fdRho {k n : Nat} (svd : SvdFn α (k + 1) n) (sqrt rsqrt : α → α) (algo : Algo) (lr : α)
    (st : FdState α k n) (g : Vec α n) : α :=
  fdSigmaMin svd sqrt rsqrt algo lr st g * fdSigmaMin svd sqrt rsqrt algo lr st g

/-- deflated squared singular values `s = (s - rho) * (s + rho)` -/
def deflate {m : Nat} (s : Vec α m) (rho : α) : Vec α m := fun i => (s i - rho) * (s i + rho)

/-- `safe_invert(x, inversion) = where(x <= 0, 0, inversion(x))` -/
def safeInvert [LE α] [DecidableLE α] (inv : α → α) (x : α) : α := if x ≤ 0 then 0 else inv x

def reciprocal (x : α) : α := 1 / x

/-- the `else` branch of `_fd_update_fn` (RFD-SON, FD-SON, S-AdaGrad):
`P.T (inv(alpha + s) * P g) + inv(alpha) * (g - P.T P g)` -/
def precondGeneric [LE α] [DecidableLE α] {m n : Nat} (inv : α → α) (alpha : α) (P : Mat α m n)
    (s2 : Vec α m) (g : Vec α n) : Vec α n :=
  let pg := force (matVec P g)
  let invS : Vec α m := fun i => safeInvert inv (alpha + s2 i)
  let invAlpha := safeInvert inv alpha
  let outside : Vec α n := force fun j => g j - tMatVec P pg j
  let sketched : Vec α n := force (tMatVec P fun i => invS i * pg i)
  fun j => sketched j + invAlpha * outside j

/-- the Ada-FD branch: `(g - P.T ((e / (alpha + e)) * P g)) * safe_invert(alpha, reciprocal)` -/
def precondAdaFd [LE α] [DecidableLE α] {m n : Nat} (alpha : α) (P : Mat α m n) (e : Vec α m)
    (g : Vec α n) : Vec α n :=
  let pg := force (matVec P g)
  let d : Vec α m := fun i => e i / (alpha + e i)
  let u : Vec α n := force fun j => g j - tMatVec P (fun i => d i * pg i) j
  fun j => u j * safeInvert reciprocal alpha

/-- `update` of `_fd_update_fn` for the already updated `alpha, P, s, e` -/
def fdDirection [LE α] [DecidableLE α] {m n : Nat} (rsqrt : α → α) (inv : EigInv) (alpha : α)
    (P : Mat α m n) (s2 e : Vec α m) (g : Vec α n) : Vec α n :=
  match inv with
  | .reciprocal => precondGeneric reciprocal alpha P s2 g
  | .rsqrt => precondGeneric rsqrt alpha P s2 g
  | .adaFdSpecial => precondAdaFd alpha P e g

/-- `_fd_update_fn` -/
def fdUpdate [LE α] [DecidableLE α] {k n : Nat} (svd : SvdFn α (k + 1) n) (sqrt rsqrt : α → α)
    (algo : Algo) (lr : α) (st : FdState α k n) (g : Vec α n) : FdState α k n :=
  let t := st.t + 1
  let F := factors sqrt rsqrt algo t lr
  let o := svd (fdB sqrt rsqrt algo lr st g)
  let rho := o.s (Fin.last k)
  let s2 := force (deflate o.s rho)
  let e := force fun i => sqrt (s2 i)
  let alpha := st.alpha + F.alphaF * (rho * rho)
  let upd := force (fdDirection rsqrt F.inv alpha o.Vt s2 e g)
  { w := force fun j => st.w j - F.lr * upd j, t := t, alpha := alpha, P := o.Vt, e := e }

def fdRunFrom [LE α] [DecidableLE α] {k n : Nat} (svd : SvdFn α (k + 1) n) (sqrt rsqrt : α → α)
    (algo : Algo) (lr : α) (st : FdState α k n) (gs : List (Vec α n)) : FdState α k n :=
  gs.foldl (fdUpdate svd sqrt rsqrt algo lr) st

def fdRun [LE α] [DecidableLE α] {k n : Nat} (svd : SvdFn α (k + 1) n) (sqrt rsqrt : α → α)
    (algo : Algo) (lr δ : α) (gs : List (Vec α n)) : FdState α k n :=
  fdRunFrom svd sqrt rsqrt algo lr (fdInit k n δ) gs

/-- the escaped masses `rho_t**2` along a history -/
def fdRhosFrom [LE α] [DecidableLE α] {k n : Nat} (svd : SvdFn α (k + 1) n) (sqrt rsqrt : α → α)
    (algo : Algo) (lr : α) : FdState α k n → List (Vec α n) → List α
  | _, [] => []
  | st, g :: gs => fdRho svd sqrt rsqrt algo lr st g ::
      fdRhosFrom svd sqrt rsqrt algo lr (fdUpdate svd sqrt rsqrt algo lr st g) gs

/-- the scaled gradients `grad_input_t` actually fed to the sketch along a history -/
def fdInputsFrom [LE α] [DecidableLE α] {k n : Nat} (svd : SvdFn α (k + 1) n) (sqrt rsqrt : α → α)
    (algo : Algo) (lr : α) : FdState α k n → List (Vec α n) → List (Vec α n)
  | _, [] => []
  | st, g :: gs => gradInput (sketchFactor sqrt rsqrt algo (st.t + 1) lr) g ::
      fdInputsFrom svd sqrt rsqrt algo lr (fdUpdate svd sqrt rsqrt algo lr st g) gs

/-! ### specification of the SVD kernel (`jnp.linalg.svd(B, full_matrices=False)`, `k+1 ≤ n`) -/

structure SvdSpec [LE α] {m n : Nat} (B : Mat α m n) (o : SvdOut α m n) : Prop where
  /-- `B = U diag(s) Vt` -/
  recon : ∀ i j, B i j = sumFin fun l => o.U i l * o.s l * o.Vt l j
  /-- rows of `Vt` orthonormal -/
  vOrtho : ∀ a b, (sumFin fun j => o.Vt a j * o.Vt b j) = if a = b then 1 else 0
  /-- columns of `U` orthonormal -/
  uOrtho : ∀ a b, (sumFin fun i => o.U i a * o.U i b) = if a = b then 1 else 0
  nonneg : ∀ i, 0 ≤ o.s i
  /-- singular values in descending order -/
  sorted : ∀ i j : Fin m, i ≤ j → o.s j ≤ o.s i

end Generic

end PrecondVerif.OCO
