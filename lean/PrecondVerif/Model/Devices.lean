/-
Device bookkeeping of Distributed Shampoo's preconditioner computation (property C13), on `List` / `Nat`.
Mathlib-free: the driver `drv_c13` executes exactly these definitions.

Anchors in `precondition/distributed_shampoo.py`:

* `batch(x, num_devices)`:      `b = int(n / D); [x[idx:idx+b] for idx in range(0, n, b)]`   -> `batch`
* `unbatch(batched_values)`:    split along axis 0, then (if `b2 > 1`) along axis 1           -> `unbatch`
* `to_pad = -num_statistics % num_devices`                                                    -> `toPad`
* `_pmap_compute_preconditioners` / `_pmap_quantized_compute_preconditioners`:
    pad with identity statistics, exponent 1, padding start 0; `batch`; every replica maps the
    per-matrix root over `all_*[lax.axis_index]`; `all_gather`; `unbatch`; `zip` with the
    `num_statistics` original shapes (drops the fillers)                                      -> `pmapCompute`, `pmapComputeQ`
* the `batch_axis_name=None` branch: `unbatch(jnp.stack([vmap f (all_statistics[0])]))`        -> `replicatedCompute`
* `sharded_init_fn` / `sharded_update_fn` / `sharded_init_shape_and_dtype_fn`:
    `to_pad = -N % D`, and `D` fillers when the tree has no statistics                        -> `shardedToPad`, `shardedDeclared`
* `_matrix_inverse_pth_root_pjit`: statistics partitioned over the devices along axis 0, `vmap` on
    every shard, recombined in order                                                           -> `shardedCompute`
* `_convert_to_parameter_stats`: `global[index_start : index_start + len(sizes)]`              -> `slice`

The per-matrix computation (`matrix_inverse_pth_root`, quantized wrapper, low-rank root, …) is the
parameter `f`; a statistic together with its exponent, padding start and previous preconditioner is
one element of type `α`; the filler (identity, exponent 1, padding start 0, zero previous
preconditioner) is the parameter `filler`.
-/

namespace PrecondVerif.Devices

variable {α β γ δ : Type}

/-- Python `-n % D` (result in `[0, D)` for `D ≥ 1`). -/
def toPad (n D : Nat) : Nat := (D - n % D) % D

/-- `[x[0:b], x[b:2b], …]`, `m` slices (Python slicing: short or empty slices past the end). -/
def chunks (b : Nat) : Nat → List α → List (List α)
  | 0, _ => []
  | m + 1, xs => xs.take b :: chunks b m (xs.drop b)

/-- number of indices in `range(0, n, b)` for `b ≥ 1` -/
def rangeCount (n b : Nat) : Nat := (n + b - 1) / b

/-- `batch(x, num_devices)`: `b = int(n / D)`, one slice per `idx in range(0, n, b)`.
`b = 0` (Python: `range()` raises) is never reached by the callers — they return early when there
is no statistic; the model returns `[]`. -/
def batch (xs : List α) (D : Nat) : List (List α) :=
  let b := xs.length / D
  if b = 0 then [] else chunks b (rangeCount xs.length b) xs

/-- `all_x[lax.axis_index(batch_axis_name)]` -/
def deviceSlice (rows : List (List α)) (d : Nat) : List α := rows.getD d []

/-- `jax.lax.all_gather(v, axis_name)`: entry `d` of the new leading axis is replica `d`'s value. -/
def allGather (D : Nat) (g : Nat → β) : List β := (List.range D).map g

/-- `b2` of `unbatch`: `batched_values.shape[1]` -/
def rowWidth : List (List α) → Nat
  | [] => 0
  | r :: _ => r.length

/-- `unbatch`: for every row of the leading axis, its `b2` entries if `b2 > 1`, else its single entry. -/
def unbatch (rows : List (List α)) : List α :=
  if rowWidth rows > 1 then rows.flatten else rows.flatMap (List.take 1)

/-- statistics list padded with `to_pad` fillers -/
def padTo (filler : α) (xs : List α) (D : Nat) : List α :=
  xs ++ List.replicate (toPad xs.length D) filler

/-- what the `all_gather` returns on every replica: `[D, b]` per-matrix results -/
def pmapGathered (f : α → β) (filler : α) (D : Nat) (xs : List α) : List (List β) :=
  allGather D fun d => (deviceSlice (batch (padTo filler xs D) D) d).map f

/-- all `N + to_pad` results in the order `unbatch` returns them (fillers included) -/
def pmapAll (f : α → β) (filler : α) (D : Nat) (xs : List α) : List β :=
  unbatch (pmapGathered f filler D xs)

/-- `_pmap_compute_preconditioners`: the results attached to the `N` real statistics
(`zip` with `original_shapes` keeps the first `N`; nothing is computed for an empty tree). -/
def pmapCompute (f : α → β) (filler : α) (D : Nat) (xs : List α) : List β :=
  if xs.isEmpty then [] else (pmapAll f filler D xs).take xs.length

/-- `_pmap_quantized_compute_preconditioners`: the three components of the quantized root are
gathered and unbatched separately and zipped afterwards. -/
def pmapComputeQ (f : α → β × γ × δ) (filler : α) (D : Nat) (xs : List α) : List (β × γ × δ) :=
  if xs.isEmpty then [] else
    let g := pmapGathered f filler D xs
    let q := unbatch (g.map (List.map fun r => r.1))
    let d := unbatch (g.map (List.map fun r => r.2.1))
    let b := unbatch (g.map (List.map fun r => r.2.2))
    (q.zip (d.zip b)).take xs.length

/-- the `batch_axis_name=None` branch (one device, no collective):
`unbatch(jnp.stack([vmap f (all_statistics[0])]))` -/
def replicatedCompute (f : α → β) (xs : List α) : List β :=
  if xs.isEmpty then [] else (unbatch [(deviceSlice (batch xs 1) 0).map f]).take xs.length

/-! ### sharded (pjit) variant -/

/-- `sharded_init_fn` / `sharded_update_fn`: `-N % D`, and `D` fillers for a tree without statistics -/
def shardedToPad (n D : Nat) : Nat := if n = 0 then D else toPad n D

/-- `sharded_init_shape_and_dtype_fn`: `n += -n % D; if n == 0: n = D` -/
def shardedDeclared (n D : Nat) : Nat :=
  let m := n + toPad n D
  if m = 0 then D else m

def shardedPad (filler : α) (xs : List α) (D : Nat) : List α :=
  xs ++ List.replicate (shardedToPad xs.length D) filler

/-- `_matrix_inverse_pth_root_pjit`: the stacked statistics are partitioned over the `D` devices along
the leading axis, every device maps `f` over its shard, the shards are recombined in order. -/
def shardedCompute (f : α → β) (filler : α) (D : Nat) (xs : List α) : List β :=
  (allGather D fun d => (deviceSlice (batch (shardedPad filler xs D) D) d).map f).flatten

/-- `x[index_start : index_start + count]` -/
def slice (start count : Nat) (ys : List β) : List β := (ys.drop start).take count

/-- the per-parameter views of the global array (`_convert_to_parameter_stats`) -/
def shardedViews (f : α → β) (filler : α) (D : Nat) (xs : List α) (index : List (Nat × Nat)) : List (List β) :=
  index.map fun sc => slice sc.1 sc.2 (shardedCompute f filler D xs)

/-! ### index maps (for the correspondence run) -/

/-- replica and slot on which padded position `i` is computed (`b` = matrices per replica) -/
def placeOf (b i : Nat) : Nat × Nat := (i / b, i % b)

end PrecondVerif.Devices
