-- Root of the `PrecondVerif` library: every model, lemma and property module.
import PrecondVerif.Kit.Proto
import PrecondVerif.Model.Shapes
import PrecondVerif.Lemmas.Shapes
import PrecondVerif.Drv.C06
import PrecondVerif.Lemmas.Partition
import PrecondVerif.Lemmas.Blockify
import PrecondVerif.Props.C06
