import PrecondVerif.Kit.Loop
import PrecondVerif.Drv.C17

def main : IO Unit := PrecondVerif.Loop.run PrecondVerif.Drv.C17.ops
