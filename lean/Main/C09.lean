import PrecondVerif.Kit.Loop
import PrecondVerif.Drv.C09

def main : IO Unit := PrecondVerif.Loop.run PrecondVerif.Drv.C09.ops
