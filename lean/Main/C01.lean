import PrecondVerif.Kit.Loop
import PrecondVerif.Drv.C01

def main : IO Unit := PrecondVerif.Loop.run PrecondVerif.Drv.C01.ops
