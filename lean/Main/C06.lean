import PrecondVerif.Kit.Loop
import PrecondVerif.Drv.C06

def main : IO Unit := PrecondVerif.Loop.run PrecondVerif.Drv.C06.ops
