import PrecondVerif.Kit.Loop
import PrecondVerif.Drv.C11

def main : IO Unit := PrecondVerif.Loop.run PrecondVerif.Drv.C11.ops
