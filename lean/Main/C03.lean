import PrecondVerif.Kit.Loop
import PrecondVerif.Drv.C03

def main : IO Unit := PrecondVerif.Loop.run PrecondVerif.Drv.C03.ops
