import PrecondVerif.Kit.Loop
import PrecondVerif.Drv.C14

def main : IO Unit := PrecondVerif.Loop.run PrecondVerif.Drv.C14.ops
