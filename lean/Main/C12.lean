import PrecondVerif.Kit.Loop
import PrecondVerif.Drv.C12

def main : IO Unit := PrecondVerif.Loop.run PrecondVerif.Drv.C12.ops
