import PrecondVerif.Kit.Loop
import PrecondVerif.Drv.C07

def main : IO Unit := PrecondVerif.Loop.run PrecondVerif.Drv.C07.ops
