import PrecondVerif.Kit.Loop
import PrecondVerif.Drv.C15

def main : IO Unit := PrecondVerif.Loop.run PrecondVerif.Drv.C15.ops
