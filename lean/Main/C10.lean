import PrecondVerif.Kit.Loop
import PrecondVerif.Drv.C10

def main : IO Unit := PrecondVerif.Loop.run PrecondVerif.Drv.C10.ops
