import PrecondVerif.Kit.Loop
import PrecondVerif.Drv.C02

def main : IO Unit := PrecondVerif.Loop.run PrecondVerif.Drv.C02.ops
