import PrecondVerif.Kit.Loop
import PrecondVerif.Drv.C08

def main : IO Unit := PrecondVerif.Loop.run PrecondVerif.Drv.C08.ops
