import PrecondVerif.Kit.Loop
import PrecondVerif.Drv.C16

def main : IO Unit := PrecondVerif.Loop.run PrecondVerif.Drv.C16.ops
