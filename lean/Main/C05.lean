import PrecondVerif.Kit.Loop
import PrecondVerif.Drv.C05

def main : IO Unit := PrecondVerif.Loop.run PrecondVerif.Drv.C05.ops
