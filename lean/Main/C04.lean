import PrecondVerif.Kit.Loop
import PrecondVerif.Drv.C04

def main : IO Unit := PrecondVerif.Loop.run PrecondVerif.Drv.C04.ops
