import PrecondVerif.Kit.Loop
import PrecondVerif.Drv.C13

def main : IO Unit := PrecondVerif.Loop.run PrecondVerif.Drv.C13.ops
