"""Differential self-test of the translator `harness/py2lean.py` (part of the trusted base).

    /venv/bin/python -m harness.py2lean_selftest

1. Synthetic functions covering every rule of the documented subset (sign cases of // and %, negative indices, slices,
   truthiness, chained comparisons, elif chains with and without fall-through, nested loops, early `return` inside a
   loop, enumerate/range loops, comprehensions with filters, numpy idioms) are translated, evaluated by Lean (`#eval`)
   on a grid of inputs and compared with what CPython computes for the same source.
2. Constructs outside the subset must raise `Untranslatable`.
3. The generated definitions of the real targets are evaluated by Lean on random inputs and compared with the real
   Python functions executed by CPython (numpy/jax objects converted to ints).
Exit code 0 iff everything agrees.
"""
import itertools
import os
import random
import subprocess
import sys
import tempfile
import textwrap

from harness import kit, py2lean
from harness.py2lean import Target, lean_ty, parse_type

SYNTH = '''
import enum
import dataclasses
import math
import itertools
import numpy as np

class Kind(enum.IntEnum):
  A = 1
  B = 2

@dataclasses.dataclass
class Box:
  lo: int
  name: str
  items: list

def divmod_signs(a, b):
  return [a // b, a % b, -a % b, (a - 1) // b]

def first_big(xs, t):
  """early return inside a loop"""
  seen = 0
  for x in xs:
    if x > t:
      return [x, seen]
    seen += 1
  return [-1, seen]

def nested(xs, n):
  acc = []
  total = 0
  for x in xs:
    for j in range(n):
      if (x + j) % 2 == 0:
        total += x * j
      else:
        total -= 1
    acc.append(total)
  return (acc, total)

def elifs(k, xs):
  if k == Kind.A or len(xs) <= 1:
    return [True] * len(xs)
  elif k == Kind.B:
    return [True] * (len(xs) - 1) + [False]

def indexing(xs, i):
  ys = list(xs)
  ys[-1] = xs[0] - xs[-1]
  ys[0] = xs[i]
  return (ys[:-1], ys[1:], ys[-2], min(xs, default=7), max(xs[:1], default=-7))

def truthy(xs, n):
  out = []
  if xs and not n:
    out.append(1)
  if not xs or n:
    out.append(2)
  if 0 < n <= 2 < len(xs) + 2:
    out.append(3)
  y = n if n > 0 else -n
  out.append(abs(n) - y)
  return out

def comps(xs, b, tag):
  big = [i for i, d in enumerate(xs) if d >= b]
  sel = [xs[i] // b for i in big]
  return Box(lo=min(big, default=0), name=tag, items=sel + [math.prod(sel + [1]), sum(xs), sum([d > b for d in xs])])

def arrays(n, b):
  idx = (np.arange(n, dtype=np.int32) + 1) * b
  ones = np.ones(n + 1, dtype=np.int32) * b
  if n > 0:
    ones[-1] = 100 - idx[-1]
  ok = np.all(np.array([b, b]) == 2)
  return (idx, ones, ok)

def ranges(a, b):
  s = 0
  for i in range(a, b):
    s = s * 2 + i
  for i in range(b):
    s -= i
  return s

class Obj:
  def helper(self, d):
    if self._k:
      return [d, d * self._k]
    return [d, d]

  def maybe(self, xs):
    if len(xs) > 1:
      return xs[1:3]

  def user(self, ls, n):
    out = []
    for t in itertools.product(*ls):
      out.extend(map(self.helper, t[:-1]))
    got = self.maybe(out)
    assert n >= 0
    first = got[0]
    return (len(out), any(x[0] > n for x in out), all([x[1] >= n for x in out]), first, got)

def slots(ps, a, b, n):
  q = ps[a:b]
  if n > 2:
    q = [None] * (n - 2) + q
  return q

def alloc_like(dim, k, pairs):
  n = len(pairs)
  budget = n * k
  assert budget >= n, (budget, n)
  srt = sorted(pairs, key=lambda x: x[1], reverse=True)
  rem = []
  acc = 0
  for _, s in reversed(srt):
    acc = acc + s
    rem.append(acc)
  rem.reverse()
  d = {}
  for p, t in zip(srt, rem):
    d.update({p[0]: int((p[1] * t) // 1) + 1})
  for key in d:
    assert d[key] <= dim * 50, key
  tot = sum(d.values())
  left = budget
  for (key, _) in srt:
    d[key] = min(d[key] + 1, dim)
    left = left - 1
    if left <= 0:
      break
  a, _, c = (tot, 0, left)
  return (d, a, c, [v for v in d.values()], [kk for kk in d.keys()])

def branch_local(xs):
  out = []
  for x in xs:
    if x > 2:
      t = x * x
      out.append(t)
    else:
      out.append(x)
  return out
'''

SYNTH_TARGETS = [
    Target("synth.py", "divmod_signs", "divmodSigns", [("a", "int"), ("b", "int")], "list[int]"),
    Target("synth.py", "first_big", "firstBig", [("xs", "list[int]"), ("t", "int")], "list[int]"),
    Target("synth.py", "nested", "nested", [("xs", "list[int]"), ("n", "int")], "tuple[list[int],int]"),
    Target("synth.py", "elifs", "elifs", [("k", "int"), ("xs", "list[int]")], "list[bool]"),
    Target("synth.py", "indexing", "indexing", [("xs", "list[int]"), ("i", "int")], "tuple[list[int],list[int],int,int,int]"),
    Target("synth.py", "truthy", "truthy", [("xs", "list[int]"), ("n", "int")], "list[int]"),
    Target("synth.py", "comps", "comps", [("xs", "list[int]"), ("b", "int")], "tuple[int,list[int]]", opaque=("tag",)),
    Target("synth.py", "arrays", "arrays", [("n", "int"), ("b", "int")], "tuple[arr,arr,bool]"),
    Target("synth.py", "ranges", "ranges", [("a", "int"), ("b", "int")], "int"),
    Target("synth.py", "branch_local", "branchLocal", [("xs", "list[int]")], "list[int]"),
    Target("synth.py", "Obj.helper", "objHelper", [("k", "int"), ("d", "int")], "list[int]", inputs={"self._k": "k"}),
    Target("synth.py", "Obj.maybe", "objMaybe", [("xs", "list[list[int]]")], "list[list[int]]"),
    Target("synth.py", "Obj.user", "objUser", [("k", "int"), ("ls", "list[list[int]]"), ("n", "int")],
           "tuple[int,bool,bool,list[int],list[list[int]]]", inputs={"self._k": "k"}),
    Target("synth.py", "alloc_like", "allocLike", [("dim", "int"), ("k", "int"), ("pairs", "list[tuple[int,real]]")],
           "tuple[dict[int,int],int,int,list[int],list[int]]"),
    Target("synth.py", "slots", "slots", [("ps", "list[option[int]]"), ("a", "int"), ("b", "int"), ("n", "int")], "list[option[int]]"),
]

LISTS = [[], [3], [1, 5], [4, 1, 6], [2, 2, 9, 0], [7, 3, 3, 8, 1]]
SYNTH_INPUTS = {
    "divmod_signs": [(a, b) for a in (-7, -4, -1, 0, 1, 5, 9) for b in (-3, -1, 1, 2, 4)],
    "first_big": [(xs, t) for xs in LISTS for t in (0, 3, 6, 10)],
    "nested": [(xs, n) for xs in LISTS for n in (-1, 0, 1, 3)],
    "elifs": [(k, xs) for k in (1, 2, 3) for xs in LISTS],
    "indexing": [(xs, i) for xs in LISTS[2:] for i in (0, 1, -1, -2)],
    "truthy": [(xs, n) for xs in LISTS for n in (-2, 0, 1, 2, 3)],
    "comps": [(xs, b) for xs in LISTS for b in (1, 2, 3, 5)],
    "arrays": [(n, b) for n in (-1, 0, 1, 2, 4) for b in (1, 2, 3)],
    "ranges": [(a, b) for a in (-2, 0, 1, 3) for b in (-1, 0, 2, 5)],
    "branch_local": [(xs,) for xs in LISTS],
    "Obj.helper": [(k, d) for k in (0, 2, -1) for d in (0, 3)],
    "Obj.maybe": [(xs,) for xs in ([], [[1]], [[1], [2, 3]], [[1], [2], [3], [4]])],
    "Obj.user": [(k, ls, n) for k in (0, 3) for ls in ([], [[2]], [[1, 2], [3]], [[1, 2], [3, 4], [5]], [[4], [], [1]]) for n in (-1, 0, 2)],
    "alloc_like": [(dim, k, pairs) for dim in (2, 5) for k in (0, 1, 3)
                   for pairs in ([], [(7, 2)], [(1, 3), (2, 3), (3, 1)], [(4, 1), (9, 5), (2, 5), (6, 0)], [(1, 9), (2, 9), (3, 30)])],
    "slots": [(ps, a, b, n) for ps in ([], [0, None, 2], [5, 6, 7, 8]) for a in (-5, -1, 0, 1, 2) for b in (-2, 0, 1, 3, 9) for n in (0, 3, 4)],
}

BAD = {
    "while": "def f(n):\n  while n > 0:\n    n -= 1\n  return n\n",
    "continue": "def f(xs):\n  s = 0\n  for x in xs:\n    if x > 2:\n      continue\n    s += x\n  return s\n",
    "true division": "def f(n):\n  return n / 2\n",
    "power": "def f(n):\n  return n ** 2\n",
    "float": "def f(n):\n  return n * 1.5\n",
    "unknown call": "def f(n):\n  return foo(n)\n",
    "conditionally defined": "def f(n):\n  if n > 0:\n    y = 1\n  return y\n",
    "non-bool and as value": "def f(n):\n  return n and 3\n",
    "lambda": "def f(n):\n  g = lambda x: x\n  return n\n",
    "string": "def f(n):\n  return 'a'\n",
    "type change at merge": "def f(n):\n  y = 1\n  if n > 0:\n    y = [1]\n  return n\n",
    "in": "def f(n):\n  return n in [1, 2]\n",
    "sort without reverse": "def f(xs):\n  return sorted(xs, key=lambda x: x)\n",
    "tuple assign of different length": "def f(n):\n  a, b = (n, n, n)\n  return a\n",
    "two generators": "def f(n):\n  return [i + j for i in range(n) for j in range(n)]\n",
}


def to_plain(v):
    import numpy as np
    if isinstance(v, (bool, np.bool_)):
        return bool(v)
    if isinstance(v, (int, np.integer)):
        return int(v)
    if isinstance(v, np.ndarray):
        return [to_plain(x) for x in v.tolist()]
    if isinstance(v, list):
        return [to_plain(x) for x in v]
    if isinstance(v, tuple):
        return tuple(to_plain(x) for x in v)
    if isinstance(v, dict):
        return [(to_plain(a), to_plain(b)) for a, b in v.items()]
    if v is None:
        return None
    if hasattr(v, "__dataclass_fields__"):
        return tuple(to_plain(getattr(v, f)) for f in v.__dataclass_fields__ if not isinstance(getattr(v, f), str))
    raise TypeError(type(v))


def lit(v, t):
    """Lean literal of a plain Python value at translator type t."""
    t = py2lean.res(t)
    if t in ("int", "real"):     # opaque scalars are run at R := Int (see INT_OPS)
        return f"({v} : Int)"
    if isinstance(t, tuple) and t[0] == "dict":
        return "([" + ", ".join(f"({lit(a, t[1][0])}, {lit(b, t[1][1])})" for a, b in v) + "] : List (Int × Int))"
    if isinstance(t, tuple) and t[0] == "option":
        return "none" if v is None else f"(some {lit(v, t[1])})"
    if t == "bool":
        return "true" if v else "false"
    if t == "arr":
        t = ("list", "int")
    if t[0] == "list":
        return "([" + ", ".join(lit(x, t[1]) for x in v) + f"] : {lean_ty(t).replace('R', 'Int')})"
    if t[0] == "tuple":
        assert len(v) == len(t[1]), (v, t)
        return "(" + ", ".join(lit(x, tt) for x, tt in zip(v, t[1])) + ")"
    if t[0] == "option":
        return "none" if v is None else f"(some {lit(v, t[1])})"
    raise TypeError(t)


def lean_eval(defs_text, checks):
    """checks: [(label, lean Bool expression)] -> list of labels that did not print `true`."""
    with tempfile.NamedTemporaryFile("w", suffix=".lean", dir=kit.WORK, delete=False) as f:
        f.write(defs_text + "\n" + INT_OPS)
        for _, c in checks:
            f.write(f"#eval ({c})\n")
        path = f.name
    try:
        rc, out, err = kit.run_cmd(["lake", "env", "lean", path], cwd=kit.LEAN_DIR, timeout=900)
    finally:
        os.unlink(path)
    lines = [l.strip() for l in out.split("\n") if l.strip()]
    if rc != 0 or len(lines) != len(checks):
        errs = [l for l in (out + err).split("\n") if l.strip() and l.strip() not in ("true", "false")]
        return [f"lean failed (rc={rc}, {len(lines)} results for {len(checks)} checks): " + " | ".join(errs[:6])[:1500]]
    return [lab for (lab, _), l in zip(checks, lines) if l != "true"]


INT_OPS = ("def pyIntOps : PrecondVerif.Gen.Py.RealOps Int := { add := (· + ·), mul := (· * ·), div := Int.fdiv, ofInt := id, "
           "floor := id, truthy := fun x => decide (x ≠ 0), lt := fun a b => decide (a < b) }\n")


def call_text(lean_name, target, args):
    real = any("real" in ty for _, ty in target.params) or "real" in target.ret
    return f"PrecondVerif.Gen.{lean_name} " + ("pyIntOps " if real else "") + " ".join(lit(a, parse_type(ty)) for a, (_, ty) in zip(args, target.params))


def main():
    bad = []
    # ---- 1. synthetic functions
    d = tempfile.mkdtemp(dir=kit.WORK)
    open(os.path.join(d, "synth.py"), "w").write(SYNTH)
    text, info = py2lean.generate(d, SYNTH_TARGETS)
    for r in info:
        if r["error"]:
            bad.append(f"synthetic {r['function']} not translated: {r['error']}")
    ns = {}
    exec(compile(SYNTH, "synth.py", "exec"), ns)
    checks = []
    optional = {r["function"].split("::")[1]: r.get("option") for r in info}
    for t in SYNTH_TARGETS:
        rty = parse_type(t.ret)
        opt = optional[t.qual]
        for args in SYNTH_INPUTS[t.qual]:
            try:
                pargs = [list(a) if isinstance(a, list) else a for a in args]
                if t.qual.startswith("Obj."):
                    o = ns["Obj"]()
                    if "self._k" in t.inputs:
                        o._k, pargs = pargs[0], pargs[1:]
                    want = to_plain(getattr(o, t.qual.split(".")[1])(*pargs))
                else:
                    want = to_plain(ns[t.qual](*pargs, *(["x"] * len(t.opaque))))
            except (AssertionError, TypeError):
                if not opt:
                    continue
                want = None     # failed assert / operation on None: `none` ("no value") in the translation
            except (IndexError, ZeroDivisionError, ValueError):
                continue        # Python raises: outside the translated domain
            wt = ("option", rty) if opt else rty
            checks.append((f"{t.qual}{args} = {want}", f"{call_text(t.lean, t, args)} == {lit(want, wt)}"))
    nsyn = len(checks)
    bad += ["synthetic mismatch: " + x for x in lean_eval(text, checks)]
    # ---- 2. constructs outside the subset
    for what, src in BAD.items():
        open(os.path.join(d, "bad.py"), "w").write(src)
        _, inf = py2lean.generate(d, [Target("bad.py", "f", "f", [("n", "int")] if "(n)" in src else [("xs", "list[int]")], "int")])
        if not inf[0]["error"]:
            bad.append(f"construct outside the subset was translated: {what}")
    # ---- 3. real targets against CPython
    import numpy as np
    from precondition import distributed_shampoo as ds
    from precondition.tearfree import reshaper, shampoo as tfs
    text, info = py2lean.generate()
    for r in info:
        if r["error"]:
            bad.append(f"{r['function']} not translated: {r['error']}")
    tg = {t.lean: t for t in py2lean.TARGETS if isinstance(t, Target)}
    rng = random.Random(0)
    checks = []

    class P:
        def __init__(self, shape):
            self.shape = tuple(shape)
    shapes = [[]] + [[rng.randint(1, 9) for _ in range(rng.randint(1, 5))] for _ in range(40)] + [[1, 1], [1], [0, 3], [12, 1, 7]]
    for s in shapes:
        for m in (0, 1, 2, 4, 6, 12, 40):
            checks.append((f"merge {s} {m}", f"{call_text('mergeSmallDims', tg['mergeSmallDims'], (s, m))} == {lit(to_plain(ds.merge_small_dims(s, m)), parse_type('list[int]'))}"))
        for b in (-1, 0, 1, 2, 3, 5):
            bp = ds.BlockPartitioner(P(s), b)
            want = ([(int(i), to_plain(ix)) for i, ix in bp._splits], to_plain(list(bp._split_sizes)))
            checks.append((f"partitioner {s} {b}", f"{call_text('blockPartitionerInit', tg['blockPartitionerInit'], (s, b))} == {lit(want, parse_type(tg['blockPartitionerInit'].ret))}"))
            for pt in (1, 2, 3):
                pre = ds.Preconditioner.__new__(ds.Preconditioner)
                pre._partitioner, pre._preconditioner_type = bp, ds.PreconditionerType(pt)
                want = to_plain(pre.should_precondition_dims())
                ss = to_plain(list(bp._split_sizes))
                checks.append((f"should {s} {b} {pt}", f"{call_text('shouldPreconditionDims', tg['shouldPreconditionDims'], (ss, pt))} == {lit(want, parse_type('option[list[bool]]'))}"))
                checks.append((f"exponent {s} {b} {pt}", f"{call_text('exponentForPreconditioner', tg['exponentForPreconditioner'], (ss, pt))} == {lit(int(pre.exponent_for_preconditioner()), parse_type('option[int]'))}"))
                if len(checks) % 3 == 0 and int(np.prod([len(x) for x in ss] + [1])) <= 40:
                    for rc in (0, 1, -2):
                        pre._compression_rank = rc
                        want = to_plain([list(x) for x in pre.shapes_for_preconditioners()])
                        checks.append((f"shapes {s} {b} {pt} {rc}", f"{call_text('shapesForPreconditioners', tg['shapesForPreconditioners'], (ss, pt, rc))} == {lit(want, parse_type('list[list[int]]'))}"))
                    k = sum(pre.should_precondition_dims())
                    ps = list(range(3 * k + 1))
                    for (st_, en_) in ((0, k), (k, 2 * k), (1, k)):
                        try:
                            want = to_plain(pre._preconds_for_grad(ps, len(ss), st_, en_))
                        except AssertionError:
                            want = None
                        checks.append((f"slots {s} {b} {pt} {st_} {en_}", f"{call_text('precondsForGrad', tg['precondsForGrad'], (ps, pt, len(ss), st_, en_))} == {lit(want, parse_type('option[list[option[int]]]'))}"))
        for b in (0, 2, 3, 4):
            for md in (2, 3, 6, 16):
                sh = reshaper._derive_shapes(reshaper.Options(merge_dims=md, block_size=b), P(s))
                want = (to_plain(sh.original_shape), to_plain(sh.merged_shape), to_plain(sh.padded_shape))
                checks.append((f"derive {s} {md} {b}", f"{call_text('deriveShapes', tg['deriveShapes'], (md, b, s))} == {lit(want, parse_type(tg['deriveShapes'].ret))}"))
        for b in (1, 2, 3, 5):
            meta = tfs._blocks_metadata(tfs.Options(block_size=b), s, "p")
            checks.append((f"meta {s} {b}", f"{call_text('blocksMetadata', tg['blocksMetadata'], (b, s))} == {lit(to_plain(meta), parse_type(tg['blocksMetadata'].ret))}"))
    for c, dd in itertools.product(range(-6, 7), range(0, 12)):
        checks.append((f"precond_dim {c} {dd}", f"{call_text('precondDim', tg['precondDim'], (c, dd))} == {lit(int(ds._precond_dim(c, dd)), 'int')}"))
        checks.append((f"should_compress {c} {dd}", f"{call_text('shouldCompress', tg['shouldCompress'], (c, dd))} == {lit(bool(ds._should_compress(c, dd)), 'bool')}"))
    from precondition.tearfree import grafting
    import jax.numpy as jnp
    for s in shapes[:25]:
        for r1 in (True, False):
            for gt in (0, 3, 8, 4096):
                o = grafting.Options(skip_preconditioning_rank1=r1, skip_preconditioning_any_dim_gt=gt)
                want = bool(grafting._masked(grafting._mask_skipped(o, jnp.zeros(s))))
                checks.append((f"mask {s} {r1} {gt}", f"{call_text('tfMaskSkipped', tg['tfMaskSkipped'], (r1, gt, s))} == {lit(want, 'bool')}"))
    for n, dd in itertools.product(range(0, 14), range(1, 7)):
        checks.append((f"to_pad {n} {dd}", f"PrecondVerif.Gen.toPad ({n} : Int) ({dd} : Int) == {lit(-n % dd, 'int')}"))
    bad += ["real-target mismatch: " + x for x in lean_eval(text, checks)]
    print(f"py2lean selftest: {nsyn} synthetic evaluations, {len(BAD)} rejected constructs, {len(checks)} real-target evaluations, "
          f"{len(bad)} problems")
    for b in bad[:20]:
        print("  " + b)
    return 1 if bad else 0


if __name__ == "__main__":
    sys.exit(main())
