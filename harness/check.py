"""Entry point:  /venv/bin/python -m harness.check <ID> --tier quick|thorough [--replay file]

Runs the Lean stage, constant stage, correspondence stage and failing-input search of one property
against /repo's current working tree and writes evidence/<ID>.json.
"""
import argparse
import importlib
import json
import os
import sys
import traceback
import warnings

warnings.filterwarnings("ignore")
os.environ.setdefault("JAX_PLATFORMS", "cpu")
os.environ.setdefault("TF_CPP_MIN_LOG_LEVEL", "3")

from harness import kit  # noqa: E402


def _descendants(pid):
    kids = {}
    for d in os.listdir("/proc"):
        if d.isdigit():
            try:
                with open(f"/proc/{d}/stat") as fh:
                    rest = fh.read().rsplit(")", 1)[1].split()
                kids.setdefault(int(rest[1]), []).append(int(d))
            except (OSError, IndexError, ValueError):
                pass
    out, todo = [], [pid]
    while todo:
        for k in kids.get(todo.pop(), []):
            out.append(k)
            todo.append(k)
    return out


def _arm_watchdog(tier):
    """Wall-clock limit for the whole check (a hung worker must not hold a run slot for ever): on expiry all
    descendant processes are killed and the check exits 2 (infrastructure, never a violation).  A daemon timer THREAD is
    used, not SIGALRM: in a multi-threaded process (JAX/XLA) the signal may be delivered to another thread and never wake
    a main thread that is blocked on a lock."""
    import signal
    import threading
    limit = int(os.environ.get("VERIF_MAX_WALL", "2400" if tier == "quick" else "10800"))

    def _expired():
        print(f"infrastructure error: wall-clock limit of {limit} s reached (hung worker?); killing workers", flush=True)
        for k in _descendants(os.getpid()):
            try:
                os.kill(k, signal.SIGKILL)
            except OSError:
                pass
        os._exit(2)
    t = threading.Timer(limit, _expired)
    t.daemon = True
    t.start()


def main():
    ap = argparse.ArgumentParser()
    ap.add_argument("pid")
    ap.add_argument("--tier", default=os.environ.get("VERIF_TIER", "quick"), choices=["quick", "thorough"])
    ap.add_argument("--replay", default=None)
    args = ap.parse_args()
    seed = int(os.environ.get("VERIF_SEED", "0") or 0)
    pid = args.pid.upper()
    try:
        mod = importlib.import_module(f"harness.props.{pid.lower()}")
    except ImportError as e:
        print(f"infrastructure error: no check module for {pid}: {e}")
        return 2
    slot = kit.acquire_run_slot()   # at most VERIF_RUN_SLOTS checks run at once on this machine
    _arm_watchdog(args.tier)
    ctx = kit.Check(pid, args.tier, seed)
    try:
        if args.replay:
            data = json.load(open(args.replay))
            mod.replay(ctx, data)
        else:
            mod.run(ctx)
        return ctx.finish()
    except kit.InfraError as e:
        print(f"infrastructure error: {e}")
        return 2
    except Exception:
        traceback.print_exc()
        if ctx.violations:
            # failing inputs were already found on the real implementation before the harness tripped (typically over an
            # output whose shape/type changed with the code): report them rather than hiding them behind exit 2
            ctx.notes.append("the harness raised after recording violations: " + traceback.format_exc()[-600:])
            try:
                return ctx.finish()
            except Exception:  # noqa: BLE001
                traceback.print_exc()
        print("infrastructure error: unexpected exception in the harness")
        return 2


if __name__ == "__main__":
    sys.exit(main())
