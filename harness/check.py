"""Entry point:  /venv/bin/python -m harness.check <ID> --tier quick|thorough [--replay file]

Runs the Lean stage, constant stage, correspondence stage and failing-input search of one property
against /repo's current working tree and writes evidence/<ID>.json.
"""
import argparse
import importlib
import json
import os
import sys
import traceback
import warnings

warnings.filterwarnings("ignore")
os.environ.setdefault("JAX_PLATFORMS", "cpu")
os.environ.setdefault("TF_CPP_MIN_LOG_LEVEL", "3")

from harness import kit  # noqa: E402


def main():
    ap = argparse.ArgumentParser()
    ap.add_argument("pid")
    ap.add_argument("--tier", default=os.environ.get("VERIF_TIER", "quick"), choices=["quick", "thorough"])
    ap.add_argument("--replay", default=None)
    args = ap.parse_args()
    seed = int(os.environ.get("VERIF_SEED", "0") or 0)
    pid = args.pid.upper()
    try:
        mod = importlib.import_module(f"harness.props.{pid.lower()}")
    except ImportError as e:
        print(f"infrastructure error: no check module for {pid}: {e}")
        return 2
    slot = kit.acquire_run_slot()   # at most VERIF_RUN_SLOTS checks run at once on this machine
    ctx = kit.Check(pid, args.tier, seed)
    try:
        if args.replay:
            data = json.load(open(args.replay))
            mod.replay(ctx, data)
        else:
            mod.run(ctx)
        return ctx.finish()
    except kit.InfraError as e:
        print(f"infrastructure error: {e}")
        return 2
    except Exception:
        traceback.print_exc()
        print("infrastructure error: unexpected exception in the harness")
        return 2


if __name__ == "__main__":
    sys.exit(main())
