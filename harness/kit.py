"""Shared machinery of the checks: Lean stage (build + axiom audit + token grep),
driver pipe, evidence writer, known-findings handling, decision and exit codes.

Exit codes: 0 property held on everything explored (KNOWN-FINDING lines allowed),
1 violation (a line `VIOLATION property=<id> replay=<path>` is printed),
2 infrastructure problem / time-out (never reported as a violation).
"""
from __future__ import annotations

import json
import os
import re
import subprocess
import sys
import time
import traceback

ROOT = os.path.dirname(os.path.dirname(os.path.abspath(__file__)))
LEAN_DIR = os.path.join(ROOT, "lean")
WORK = os.path.join(ROOT, ".work")
REPO = os.environ.get("PRECONDITION_REPO", "/repo")
ALLOWED_AXIOMS = {"propext", "Classical.choice", "Quot.sound"}
FORBIDDEN = [r"\bsorry\b", r"\badmit\b", r"^\s*axiom\s", r"\bnative_decide\b", r"\bbv_decide\b",
             r"\bimplemented_by\b", r"\bunsafe\s", r"maxHeartbeats\s+0\b"]
TRUSTED_BASE = [
    "Lean 4.33.0 kernel; Mathlib v4.33.0 as a library of proved lemmas",
    "axioms allowed in property theorems: propext, Classical.choice, Quot.sound (audited by #print axioms on every run)",
    "no axioms of our own; no sorry/admit/native_decide/bv_decide (grepped on every run)",
    "hand-written Lean model tied to /repo by the differential correspondence run of this check (Python harness, JSON line protocol, compiled Lean driver)",
    "JAX/XLA, LAPACK, optax, flax and IEEE rounding are modelled, not verified",
]


class InfraError(Exception):
    pass


def _strip_comments(src: str) -> str:
    # remove /- ... -/ (nested not handled beyond one level, good enough for our files) and -- comments
    out = []
    i = 0
    depth = 0
    n = len(src)
    while i < n:
        if src.startswith("/-", i):
            depth += 1
            i += 2
            continue
        if depth and src.startswith("-/", i):
            depth -= 1
            i += 2
            continue
        if depth:
            if src[i] == "\n":
                out.append("\n")
            i += 1
            continue
        if src.startswith("--", i):
            while i < n and src[i] != "\n":
                i += 1
            continue
        out.append(src[i])
        i += 1
    return "".join(out)


def lean_sources():
    res = []
    for base, _dirs, files in os.walk(os.path.join(LEAN_DIR, "PrecondVerif")):
        for f in files:
            if f.endswith(".lean"):
                res.append(os.path.join(base, f))
    for f in sorted(os.listdir(os.path.join(LEAN_DIR, "Main"))):
        if f.endswith(".lean"):
            res.append(os.path.join(LEAN_DIR, "Main", f))
    return sorted(res)


def import_closure(roots):
    """Lean source files of this project transitively imported by the given module names
    (`PrecondVerif.*` / `Main.*`); Mathlib and core imports are outside the project and not followed."""
    seen, todo, files = set(), list(roots), []
    while todo:
        m = todo.pop()
        if m in seen:
            continue
        seen.add(m)
        p = os.path.join(LEAN_DIR, *m.split(".")) + ".lean"
        if not os.path.exists(p):
            continue
        files.append(p)
        for mm in re.finditer(r"^\s*(?:public\s+)?import\s+((?:PrecondVerif|Main)\.[\w.]+)", _strip_comments(open(p).read()), re.M):
            todo.append(mm.group(1))
    return sorted(files)


def grep_forbidden(files=None):
    hits = []
    for p in (files if files is not None else lean_sources()):
        body = _strip_comments(open(p).read())
        for ln, line in enumerate(body.split("\n"), 1):
            for pat in FORBIDDEN:
                if re.search(pat, line):
                    hits.append(f"{os.path.relpath(p, ROOT)}:{ln}: {line.strip()[:120]}")
    return hits


def theorem_names(props_file: str):
    """Names of the theorems stated in a Props file, qualified by enclosing namespaces."""
    src = _strip_comments(open(props_file).read())
    ns = []
    names = []
    for line in src.split("\n"):
        m = re.match(r"^namespace\s+(\S+)", line)
        if m:
            ns.append(m.group(1))
            continue
        m = re.match(r"^end\s+(\S+)", line)
        if m and ns and ns[-1] == m.group(1):
            ns.pop()
            continue
        m = re.match(r"^(?:@\[[^\]]*\]\s*)?(?:private\s+|protected\s+)?theorem\s+([^\s:({\[]+)", line)
        if m:
            names.append(".".join(ns + [m.group(1)]))
    return names


def run_cmd(cmd, cwd=None, timeout=3600, env=None, input_text=None):
    p = subprocess.run(cmd, cwd=cwd, capture_output=True, text=True, timeout=timeout, env=env,
                       input=input_text)
    return p.returncode, p.stdout, p.stderr


def lean_error_sites(text, limit=4):
    """' [File.lean: theorem name, ...]' for the first errors of a failed `lake build` (the declaration enclosing
    each reported error position), so that a stage failure names what no longer proves."""
    sites = []
    for m in re.finditer(r"error: (?:\./)?(\S+?\.lean):(\d+):\d+", text):
        rel, ln = m.group(1), int(m.group(2))
        p = rel if os.path.isabs(rel) else os.path.join(LEAN_DIR, rel)
        decl = None
        try:
            lines = open(p).read().split("\n")
            for i in range(min(ln, len(lines)) - 1, -1, -1):
                mm = re.match(r"^(?:@\[[^\]]*\]\s*)?(?:private\s+|protected\s+)?(theorem|def|example|instance|abbrev)\s*([^\s:({\[]*)", lines[i])
                if mm:
                    decl = (mm.group(1) + " " + mm.group(2)).strip()
                    break
        except OSError:
            pass
        site = f"{os.path.basename(rel)}: {decl or 'line ' + str(ln)}"
        if site not in sites:
            sites.append(site)
        if len(sites) >= limit:
            break
    return (" [" + ", ".join(sites) + "]") if sites else ""


class Check:
    def __init__(self, pid: str, tier: str, seed: int):
        self.pid = pid
        self.tier = tier
        self.seed = seed
        self.t0 = time.time()
        self.violations = []      # dicts: what, case, (replay data)
        self.known_hits = []      # (finding id, what)
        self.stage_failures = []  # dicts: stage, name, detail
        self.cov = {
            "evaluations": 0, "distinct_nontrivial": 0, "rule": "", "samples": [],
            "obligations": 0, "discharged": 0, "checker_cmd": "", "trusted_base": list(TRUSTED_BASE),
            "theorems": [], "correspondence": {}, "search_evaluations": 0, "distribution": {},
        }
        self.assumptions = []
        self.notes = []
        self._distinct = set()
        os.makedirs(WORK, exist_ok=True)
        os.makedirs(os.path.join(ROOT, "evidence"), exist_ok=True)
        os.makedirs(os.path.join(ROOT, "replays"), exist_ok=True)
        self.known = self._load_known()

    def exe_name(self):
        return "drv_" + self.pid.lower()

    # ------------------------------------------------------------------ known findings
    def _load_known(self):
        p = os.path.join(ROOT, "known_findings.json")
        if not os.path.exists(p):
            return []
        data = json.load(open(p))
        return [f for f in data.get("findings", []) if f.get("property") == self.pid]

    def known_ids(self):
        return {f["id"] for f in self.known}

    def known_finding(self, fid: str, what: str):
        """Record that a listed finding was reproduced (only call if fid in known_ids())."""
        if (fid, what) not in self.known_hits:
            self.known_hits.append((fid, what))

    # ------------------------------------------------------------------ Lean stage
    def lean_stage(self, modules=None, leanchecker=None, extra_props=()):
        """Build the property module + driver, audit axioms of every theorem in Props/<pid>.lean,
        grep forbidden tokens. Records obligations/discharged.

        extra_props: names of further Props files (e.g. ("Gen",) -> Props/Gen.lean, the bridge theorems about the
        definitions regenerated from the source by `gen_stage`).  Their theorems that belong to this property (a
        namespace component equal to the property id, e.g. `PrecondVerif.GenProps.C06.*`; all of them if the file has
        no such namespace) are built, axiom-audited and counted like the property's own, and the file's imports join
        the forbidden-token closure."""
        own = modules or [f"PrecondVerif.Props.{self.pid}"]
        extra_mods = [f"PrecondVerif.Props.{x}" for x in extra_props]
        modules = list(own) + [m for m in extra_mods if m not in own]
        props_file = os.path.join(LEAN_DIR, "PrecondVerif", "Props", f"{self.pid}.lean")

        def extra_names():
            res = []
            for x in extra_props:
                pf = os.path.join(LEAN_DIR, "PrecondVerif", "Props", f"{x}.lean")
                if os.path.exists(pf):
                    allx = theorem_names(pf)
                    mine = [n for n in allx if self.pid in n.split(".")]
                    res += mine or allx
            return res
        cmd = ["lake", "build"] + modules + [self.exe_name()]
        self.cov["checker_cmd"] = "cd lean && " + " ".join(cmd) + " && lake env lean .work/audit_%s.lean (#print axioms) [+ leanchecker in thorough tier]" % self.pid
        rc, out, err = run_cmd(cmd, cwd=LEAN_DIR, timeout=3000)
        if getattr(self, "_gen_text", None) is not None:
            try:
                now = open(os.path.join(ROOT, GEN_FILE)).read()
            except OSError:
                now = None
            if now != self._gen_text:
                raise InfraError("lean/PrecondVerif/Gen/Src.lean was rewritten during this run by a check of a different source "
                                 "tree (concurrent runs against different trees are not supported); re-run")
        if rc != 0:
            self.stage_failures.append({"stage": "lean", "name": "lake build " + " ".join(modules) + lean_error_sites(out + err),
                                        "detail": (out + err)[-3000:]})
            names = (theorem_names(props_file) if os.path.exists(props_file) else []) + extra_names()
            self.cov["obligations"] = max(len(names), 1)
            self.cov["discharged"] = 0
            return False
        names = theorem_names(props_file)
        if not names:
            raise InfraError(f"no theorems found in {props_file}")
        names = names + extra_names()
        audit = os.path.join(WORK, f"audit_{self.pid}.lean")
        with open(audit, "w") as f:
            for m in modules:
                f.write(f"import {m}\n")
            for n in names:
                f.write(f"#print axioms {n}\n")
        rc, out, err = run_cmd(["lake", "env", "lean", audit], cwd=LEAN_DIR, timeout=1800)
        text = out + err
        results = {}
        # "'name' depends on axioms: [a, b]" / "'name' does not depend on any axioms"
        for m in re.finditer(r"'([^']+)' depends on axioms: \[([^\]]*)\]", text, re.S):
            results[m.group(1)] = {a.strip() for a in m.group(2).replace("\n", " ").split(",") if a.strip()}
        for m in re.finditer(r"'([^']+)' does not depend on any axioms", text):
            results[m.group(1)] = set()
        ok = 0
        thms = []
        for n in names:
            ax = results.get(n)
            if ax is None:
                self.stage_failures.append({"stage": "lean", "name": n, "detail": "no #print axioms output: " + text[-500:]})
                thms.append({"theorem": n, "axioms": None})
            elif not ax <= ALLOWED_AXIOMS:
                self.stage_failures.append({"stage": "lean", "name": n, "detail": f"disallowed axioms {sorted(ax - ALLOWED_AXIOMS)}"})
                thms.append({"theorem": n, "axioms": sorted(ax)})
            else:
                ok += 1
                thms.append({"theorem": n, "axioms": sorted(ax)})
        # every project file the property's theorems and its driver depend on (transitive imports)
        hits = grep_forbidden(import_closure(list(modules) + [f"Main.{self.pid}"]))
        if hits:
            self.stage_failures.append({"stage": "lean", "name": "forbidden-token grep", "detail": "; ".join(hits[:10])})
        self.cov["obligations"] = len(names)
        self.cov["discharged"] = ok if not hits else 0
        self.cov["theorems"] = thms
        if (leanchecker if leanchecker is not None else self.tier == "thorough"):
            rc, out, err = run_cmd(["lake", "env", "leanchecker"] + modules, cwd=LEAN_DIR, timeout=3000)
            self.cov["leanchecker"] = {"rc": rc, "tail": (out + err)[-300:]}
            if rc != 0:
                self.stage_failures.append({"stage": "lean", "name": "leanchecker", "detail": (out + err)[-1000:]})
        return not any(s["stage"] == "lean" for s in self.stage_failures)

    # ------------------------------------------------------------------ driver
    def driver(self, requests, timeout=1800):
        """Send a list of JSON-able requests through the compiled Lean driver; returns list of replies."""
        exe = os.path.join(LEAN_DIR, ".lake", "build", "bin", self.exe_name())
        if not os.path.exists(exe):
            rc, out, err = run_cmd(["lake", "build", self.exe_name()], cwd=LEAN_DIR, timeout=3000)
            if rc != 0:
                raise InfraError("driver build failed: " + (out + err)[-2000:])
        text = "\n".join(json.dumps(r, separators=(",", ":")) for r in requests) + "\n"
        p = subprocess.run([exe], input=text, capture_output=True, text=True, timeout=timeout)
        if p.returncode != 0:
            raise InfraError(f"driver exited {p.returncode}: {p.stderr[-500:]}")
        lines = [l for l in p.stdout.split("\n") if l.strip()]
        if len(lines) != len(requests):
            raise InfraError(f"driver returned {len(lines)} lines for {len(requests)} requests")
        return [json.loads(l) for l in lines]

    # ------------------------------------------------------------------ recording
    def evaluated(self, n=1):
        self.cov["evaluations"] += n

    def nontrivial(self, key):
        """Count a distinct non-trivial case (key must be hashable and identify the case)."""
        self._distinct.add(key)

    def sample(self, s, limit=6):
        if len(self.cov["samples"]) < limit:
            self.cov["samples"].append(s)

    def dist(self, key, n=1):
        d = self.cov["distribution"]
        d[key] = d.get(key, 0) + n

    def corr(self, op, agree: bool, n=1):
        c = self.cov["correspondence"].setdefault(op, {"agree": 0, "disagree": 0})
        c["agree" if agree else "disagree"] += n

    def disagree(self, op, case, impl, model, note=""):
        """Model and implementation differ on `case` (correspondence broken)."""
        self.corr(op, False)
        if sum(1 for s in self.stage_failures if s["stage"] == "correspondence") < 20:
            self.stage_failures.append({"stage": "correspondence", "name": op,
                                        "detail": {"case": case, "impl": impl, "model": model, "note": note}})

    def const_fail(self, name, detail):
        self.stage_failures.append({"stage": "const", "name": name, "detail": detail})

    def violation(self, what, case):
        """The property itself fails on the real implementation for `case` (direct oracle)."""
        if len(self.violations) < 50:
            self.violations.append({"what": what, "case": case})

    # ------------------------------------------------------------------ finish
    def finish(self):
        wall = time.time() - self.t0
        self.cov["distinct_nontrivial"] = len(self._distinct)
        ev = {
            "property_id": self.pid, "tier": self.tier, "seed": self.seed, "level": "proof",
            "coverage": self.cov, "assumptions": self.assumptions, "wall_s": round(wall, 2),
            "violations": len(self.violations) + (1 if (self.stage_failures and not self.violations) else 0),
            "known_findings_reproduced": [f"{a}: {b}" for a, b in self.known_hits],
            "stage_failures": self.stage_failures[:20], "notes": self.notes,
        }
        evdir = os.environ.get("VERIF_EVIDENCE_DIR") or os.path.join(ROOT, "evidence")
        os.makedirs(evdir, exist_ok=True)
        with open(os.path.join(evdir, f"{self.pid}.json"), "w") as f:
            json.dump(ev, f, indent=1, default=str)
        for fid, what in self.known_hits:
            print(f"KNOWN-FINDING: property={self.pid} {fid} {what}")
        if self.violations:
            rp = os.path.join("replays", f"{self.pid}-{self.seed}.json")
            with open(os.path.join(ROOT, rp), "w") as f:
                json.dump({"property": self.pid, "tier": self.tier, "seed": self.seed,
                           "kind": "failing-input", "violations": self.violations,
                           "stage_failures": self.stage_failures[:20]}, f, indent=1, default=str)
            for v in self.violations[:5]:
                print(f"  failing input: {v['what']}: {json.dumps(v['case'], default=str)[:400]}")
            print(f"VIOLATION property={self.pid} replay={rp}")
            return 1
        if self.stage_failures:
            rp = os.path.join("replays", f"{self.pid}-{self.seed}.json")
            with open(os.path.join(ROOT, rp), "w") as f:
                json.dump({"property": self.pid, "tier": self.tier, "seed": self.seed,
                           "kind": "obligation-broken",
                           "no_longer_checks": [f"{s['stage']}:{s['name']}" for s in self.stage_failures],
                           "stage_failures": self.stage_failures[:20],
                           "search_evaluations": self.cov.get("search_evaluations", 0)}, f, indent=1, default=str)
            for s in self.stage_failures[:5]:
                print(f"  no longer checks: {s['stage']}:{s['name']}: {json.dumps(s['detail'], default=str)[:400]}")
            print(f"VIOLATION property={self.pid} replay={rp} no-failing-input-found")
            return 1
        print(f"OK property={self.pid} tier={self.tier} seed={self.seed} obligations={self.cov['obligations']} "
              f"discharged={self.cov['discharged']} evaluations={self.cov['evaluations']} "
              f"distinct_nontrivial={self.cov['distinct_nontrivial']} wall={wall:.1f}s")
        return 0


# ---------------------------------------------------------------------- exact number transport
def f64_hex(x) -> str:
    import struct
    return "0x%016x" % struct.unpack("<Q", struct.pack("<d", float(x)))[0]


def hex_f64(s: str) -> float:
    import struct
    return struct.unpack("<d", struct.pack("<Q", int(s, 16)))[0]


def f32_hex(x) -> str:
    import struct
    import numpy as np
    return "0x%08x" % struct.unpack("<I", struct.pack("<f", np.float32(x)))[0]


def hex_f32(s: str):
    import struct
    import numpy as np
    return np.float32(struct.unpack("<f", struct.pack("<I", int(s, 16)))[0])


def rat_str(fr) -> str:
    """fractions.Fraction -> "p/q"."""
    return f"{fr.numerator}/{fr.denominator}" if fr.denominator != 1 else f"{fr.numerator}"


def str_rat(s: str):
    from fractions import Fraction
    return Fraction(s)


# ---------------------------------------------------------------------- worker pool
def worker_env(ndev=None):
    env = dict(os.environ)
    env.setdefault("JAX_PLATFORMS", "cpu")
    env["OMP_NUM_THREADS"] = "1"
    env["TF_CPP_MIN_LOG_LEVEL"] = "3"
    flags = "--xla_cpu_multi_thread_eigen=false"
    if ndev:
        # forced host devices: on a heavily loaded machine a device thread of a CPU pmap can be starved for longer than XLA's
        # default 40 s collective rendezvous limit (the process is then aborted -> BrokenProcessPool -> exit 2)
        flags = (f"--xla_force_host_platform_device_count={ndev} " + flags +
                 " --xla_cpu_collective_call_terminate_timeout_seconds=1800"
                 " --xla_cpu_collective_call_warn_stuck_timeout_seconds=600"
                 " --xla_cpu_collective_timeout_seconds=1800")
    env["XLA_FLAGS"] = flags
    return env


def _pool_init(envd):
    os.environ.update(envd)
    import warnings
    warnings.filterwarnings("ignore")
    import logging
    logging.disable(logging.CRITICAL)


def parallel_map(fn, tasks, nproc=None, max_tasks_per_child=None, ndev=None, timeout=3000):
    """Run fn(task) over tasks in spawned worker processes (fresh interpreter; bounded tasks per child so
    XLA compilation caches cannot exhaust memory). fn must be a module-level function."""
    import concurrent.futures as cf
    import multiprocessing as mp
    if not tasks:
        return []
    nproc = nproc or min(14, max(1, len(tasks)))
    envd = {k: v for k, v in worker_env(ndev).items() if k in ("JAX_PLATFORMS", "OMP_NUM_THREADS", "TF_CPP_MIN_LOG_LEVEL", "XLA_FLAGS")}
    ctx = mp.get_context("spawn")
    kw = {}
    # max_tasks_per_child is deliberately ignored: with the spawn context on CPython 3.12.1 the pool can
    # deadlock when workers retire; worker functions call jax.clear_caches() themselves to bound memory.
    with cf.ProcessPoolExecutor(max_workers=nproc, mp_context=ctx, initializer=_pool_init, initargs=(envd,), **kw) as ex:
        futs = [ex.submit(fn, t) for t in tasks]
        out = []
        for f in futs:
            out.append(f.result(timeout=timeout))
        return out


def chunked(lst, n):
    return [lst[i:i + n] for i in range(0, len(lst), n)]


def repo_src():
    """Directory of the `precondition` package actually imported (the editable install of /repo, or a
    scratch worktree put first on PYTHONPATH)."""
    import importlib.util
    spec = importlib.util.find_spec("precondition")
    if spec is None or not spec.submodule_search_locations:
        raise InfraError("precondition package not importable")
    return list(spec.submodule_search_locations)[0]


GEN_FILE = os.path.join("lean", "PrecondVerif", "Gen", "Src.lean")


def gen_stage(ctx):
    """Second tie between model and code: re-run the Python -> Lean translator (harness/py2lean.py) on the source
    that is imported NOW and make lean/PrecondVerif/Gen/Src.lean equal to its output.  The bridge theorems of
    Props/Gen.lean (built by `lean_stage(extra_props=("Gen",))`) are then re-checked by the kernel against what the
    code says today.  Records `cov["generated_model"]`; a function the translator cannot handle is a stage failure.

    Concurrency: the text is first written to a per-process temp file; Gen/Src.lean is replaced (os.replace, atomic,
    under .work/gen.lock) only when the new text differs from the file that is there — in the normal case (text ==
    committed text == file) nothing is written, so any number of checks of the SAME source tree may run at once.
    If the text differs from the file it is replaced whether or not it equals the committed text (equal: a stale file
    left by a run against another tree is restored; different: the source has changed).  Concurrent runs against
    DIFFERENT source trees (e.g. a mutation worktree on PYTHONPATH next to a run on /repo) share this one file and are
    NOT supported: `lean_stage` re-reads the file after the build and raises InfraError (exit 2, never a violation)
    when it no longer holds the text this run generated."""
    import fcntl
    import hashlib
    from harness import py2lean
    t0 = time.time()
    text, info = py2lean.generate(repo_src())
    path = os.path.join(ROOT, GEN_FILE)
    os.makedirs(os.path.dirname(path), exist_ok=True)
    tmp = os.path.join(WORK, f"gen_src.{os.getpid()}.lean")
    with open(tmp, "w") as f:
        f.write(text)
    try:
        committed = subprocess.run(["git", "-C", ROOT, "show", "HEAD:" + GEN_FILE.replace(os.sep, "/")], capture_output=True,
                                   text=True, timeout=60)
        committed = committed.stdout if committed.returncode == 0 else None
    except Exception:  # noqa: BLE001
        committed = None
    with open(os.path.join(WORK, "gen.lock"), "w") as lock:
        fcntl.flock(lock, fcntl.LOCK_EX)
        try:
            old = open(path).read()
        except OSError:
            old = None
        rewritten = old != text
        if rewritten:
            tmp2 = f"{path}.{os.getpid()}.tmp"      # same directory, so that os.replace is atomic
            os.replace(tmp, tmp2)
            os.replace(tmp2, path)
        else:
            os.unlink(tmp)
    ctx._gen_text = text
    tracked = committed is not None
    differs = tracked and committed != text
    ctx.cov["generated_model"] = {
        "file": GEN_FILE, "translator": "harness/py2lean.py", "source_dir": repo_src(),
        "functions": info, "text_sha256": hashlib.sha256(text.encode()).hexdigest(),
        "text_changed_vs_committed": (differs if tracked else "untracked"),
        "file_rewritten_by_this_run": rewritten, "seconds": round(time.time() - t0, 3),
    }
    for r in info:
        if r["error"]:
            e = r["error"]
            ctx.stage_failures.append({"stage": "translate", "name": r["function"],
                                       "detail": f"Untranslatable({e['function']}, line {e['lineno']}, {e['construct']})"})
    tb = ctx.cov["trusted_base"]
    line = ("Python -> Lean translator harness/py2lean.py + Gen/Prelude.lean (documented subset; Python int = Int, // % = Int.fdiv/fmod, "
            "exceptions and numpy int32 overflow not modelled): Gen/Src.lean is regenerated from the current source on every run and tied "
            "to the hand-written model by the bridge theorems of Props/Gen.lean")
    if line not in tb:
        tb.append(line)
    return not any(r["error"] for r in info)


def acquire_run_slot():
    """Machine-wide throttle: at most VERIF_RUN_SLOTS (default 3) checks run concurrently (each uses up to
    14 worker processes). Returns the held lock file (released when the process exits)."""
    import fcntl
    k = int(os.environ.get("VERIF_RUN_SLOTS", "3"))
    d = os.path.join(WORK, "slots")
    os.makedirs(d, exist_ok=True)
    fds = [open(os.path.join(d, f"{i}.lock"), "w") for i in range(k)]
    while True:
        for f in fds:
            try:
                fcntl.flock(f, fcntl.LOCK_EX | fcntl.LOCK_NB)
                return f
            except BlockingIOError:
                pass
        time.sleep(3)
