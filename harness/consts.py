"""Extraction of literals from the current source with `ast` (the only part of the model regenerated from source).

    module_assign("distributed_shampoo.py", "_EPSILON")            -> value of a module-level assignment
    func_default("distributed_shampoo.py", "matrix_inverse_pth_root", "error_tolerance") -> default of an argument
    func_local("distributed_shampoo.py", "matrix_inverse_pth_root", "max_error_ratio")   -> first literal assigned to a local name
    func_literals("tearfree/shampoo.py", "_pth_inv_root")          -> all numeric literals in a function body (in source order)
"""
import ast
import os

from harness import kit


def _tree(rel):
    p = os.path.join(kit.repo_src(), rel)
    return ast.parse(open(p).read(), p)


def _find_func(tree, name):
    for node in ast.walk(tree):
        if isinstance(node, (ast.FunctionDef, ast.AsyncFunctionDef)) and node.name == name:
            return node
    raise kit.InfraError(f"function {name} not found")


def _lit(node):
    try:
        return ast.literal_eval(node)
    except Exception:  # noqa: BLE001
        return None


def module_assign(rel, name):
    for node in _tree(rel).body:
        if isinstance(node, ast.Assign):
            for t in node.targets:
                if isinstance(t, ast.Name) and t.id == name:
                    return _lit(node.value)
        if isinstance(node, ast.AnnAssign) and isinstance(node.target, ast.Name) and node.target.id == name:
            return _lit(node.value)
    raise kit.InfraError(f"{name} not found in {rel}")


def func_default(rel, func, arg):
    f = _find_func(_tree(rel), func)
    args = f.args.args
    defaults = f.args.defaults
    off = len(args) - len(defaults)
    for i, a in enumerate(args):
        if a.arg == arg and i >= off:
            return _lit(defaults[i - off])
    for a, d in zip(f.args.kwonlyargs, f.args.kw_defaults):
        if a.arg == arg and d is not None:
            return _lit(d)
    raise kit.InfraError(f"default of {arg} in {func} not found")


def func_local(rel, func, name):
    f = _find_func(_tree(rel), func)
    for node in ast.walk(f):
        if isinstance(node, ast.Assign):
            for t in node.targets:
                if isinstance(t, ast.Name) and t.id == name:
                    v = _lit(node.value)
                    if v is not None:
                        return v
    raise kit.InfraError(f"literal local {name} in {func} not found")


def func_literals(rel, func):
    f = _find_func(_tree(rel), func)
    out = []
    for node in ast.walk(f):
        if isinstance(node, ast.Constant) and isinstance(node.value, (int, float)) and not isinstance(node.value, bool):
            out.append(node.value)
    return out


def class_field_default(rel, cls, field):
    for node in ast.walk(_tree(rel)):
        if isinstance(node, ast.ClassDef) and node.name == cls:
            for st in node.body:
                if isinstance(st, ast.AnnAssign) and isinstance(st.target, ast.Name) and st.target.id == field and st.value is not None:
                    return _lit(st.value)
    raise kit.InfraError(f"{cls}.{field} default not found")
