"""py2lean — regenerate the Lean model of the pure integer/list core of `precondition` from its source.

    text, info = generate()        # deterministic text of lean/PrecondVerif/Gen/Src.lean + per-function record
    python -m harness.py2lean      # print the text;   --write  rewrite the file;   --selftest  see bottom

The translator is part of the TRUSTED BASE (together with `lean/PrecondVerif/Gen/Prelude.lean`): the kernel
checks theorems about the text produced here, so the rules below are the assumed reading of Python.
Anything outside them raises `Untranslatable(function, lineno, construct)` — never a guess.

Types.  Every Python value has one of the static types below, inferred bottom-up from the declared types of
the inputs (TARGETS); a variable may not change type where control flow merges.
    int            -> Int   (arbitrary precision, exactly Python's; NOT Nat: `-n % d`, `d - 1`, negative
                             `compression_rank` are real.  The bridge theorems move to Nat by casts.)
    bool           -> Bool
    list[T] / tuple used as a sequence / `x.shape`  -> List T
    arr            -> List Int   1-D integer ndarray (`np.arange`, `np.ones`, `np.array([..])`): `+ *` with an
                             int broadcast; the int32 wrap-around of numpy is NOT modelled (dims < 2^31 assumed)
    tuple[T1,..]   -> T1 × ..   fixed-length tuples and keyword-only dataclass constructor calls (fields in
                             the order of the class definition, fields fed by an `opaque` parameter dropped)
    T | None       -> Option T  only as the result of a function whose end can be reached without `return`
    real           -> R         OPAQUE scalar (Python float / jnp scalar).  A function with a `real` in its signature gets
                             `{R : Type} (ops : Py.RealOps R)`; the only operations are the uninterpreted fields of `ops`:
                             `a + b`, `a * b`, `a / b` -> ops.add/mul/div (an int operand, an int literal or a literal like
                             `0.0` is converted by ops.ofInt first, as Python converts it), `int(x // 1)` -> ops.floor x,
                             truthiness -> ops.truthy x, the `<` of `sorted` -> ops.lt.  No other use (`-`, comparisons,
                             printing) is translated.  An int variable that a loop turns into a real (`remaining = 0;
                             remaining = remaining + score`) is converted by ops.ofInt before the loop.
    dict[K,V]      -> List (K × V)  keys distinct, in insertion order: `{}`, `d[k]` -> Py.dictGet, `d[k] = v` and
                             `d.update({k: v})` -> Py.dictSet (replace in place or append), `for k in d`, `d.keys()`,
                             `d.values()`
Expressions (all pure, single evaluation):
    int literals, True/False, names, `+ - *` on ints, unary `-`      -> the same on Int
    `a // b`, `a % b`                    -> Int.fdiv a b, Int.fmod a b   (floor semantics = Python for all signs;
                                            b = 0 is ZeroDivisionError in Python and 0 here)
    `< <= > >= == !=` (chains allowed)   -> decide (..) joined by &&     (ints; `== !=` also lists/bools)
    `and or not`                         -> && || !   operands must be bool, or sit in a condition, where the
                                            truthiness rule applies: int x -> x ≠ 0, sequence -> not empty
    `a if c else b`                      -> if c then a else b
    `abs(x)` -> (Int.natAbs x : Int);  `min/max(a, b)` -> min/max;  `min/max(l, default=d)` -> Py.minD/maxD
    `len(l)` -> Py.len;  `math.prod(l)`, `np.prod(l)` -> Py.prod;  `sum(l)` -> Py.sum / Py.count (bools)
    `[a, b]`, `(a, b)`, `list(l)`, `tuple(l)`; `l1 + l2` -> ++;  `l * n` -> Py.repeat l n
    `l[i]` -> Py.get l i (negative i from the end);  `l[:i]`, `l[i:]`, `l[a:b]` -> Py.sliceTo / sliceFrom / slice
    `None` -> none (element of a list[option[T]]);  `any(l)`, `all(l)` for a sequence of bools -> List.any/all l id
    `itertools.product(*ls)` -> Py.product ls (list of lists, first factor slowest)
    `reversed(l)` -> List.reverse l;  `zip(a, b)` -> List.zip a b
    `sorted(l, key=lambda x: e, reverse=True)` -> Py.sortedDesc lt (fun x => e) l   (stable insertion sort, equal keys keep
      their order — CPython's result whenever `<` is a strict weak order on the keys; int or real keys)
    `map(f, l)` for a translated function or method f -> List.map (fun v => f .. v) l
    `t[k]` for a fixed-length tuple and literal k -> projection
    `[e for x in it if c]` and the generator expression `(e for x in it if c)` (one generator;
      `for i, d in enumerate(..)` allowed) -> List.map (List.filter ..)
    `range(n)`, `range(a, b)`, `enumerate(l)` as iterables -> Py.range, Py.range2, Py.enumerate
    numpy idioms: `np.array(l[, dtype])` -> l as arr;  `np.all(np.array(l) == c)` -> List.all l (· = c);
      `np.arange(n[, dtype])` -> Py.range n;  `np.ones(n[, dtype])` -> Py.full n 1;  `np.zeros` -> Py.full n 0;
      `arr + k`, `arr - k`, `arr * k`, `k + arr`, `k * arr` -> List.map
    `Enum.NAME` for an `enum.IntEnum` class of the same module -> its integer literal
    a call of another translated function (bare, module-qualified or `self.` name) -> the generated definition;
      parameters the callee reads from `self.<attr>` are passed from the same attribute of the caller
    source expressions named in a target's `inputs` (e.g. `param.shape`, `options.block_size`,
      `self._partitioner.split_sizes()`) -> the corresponding parameter of the generated definition
Statements:
    `x = e`, `x op= e` (op in + - * // %), `self.a = e` (a local named self_a), `l[i] = e` -> `let` (shadowing)
    `a, b, _ = e` for a fixed-length tuple e -> projections;  `l.reverse()` -> let l := List.reverse l
    `l.append(e)` -> let l := l ++ [e];   `l.extend(e)` -> let l := l ++ e
    `if / elif / else` without `return` inside -> `let (vars) := if c then .. else ..` over the variables
      assigned in a branch that are live afterwards (defined before, or assigned on both branches);
      with a `return` inside -> `if c then .. else ..` with the rest of the block continued in both branches
    `for x in it:` -> a top-level definition `<f>_loop<k> (free variables) (state) (x)` = the loop body as a
      state transformer over the tuple of variables it assigns (that exist before the loop), and
      `List.foldl (<f>_loop<k> ..) state it`; variables first assigned inside the body are body-local.
      A `return` or `assert` inside the body adds an `Option` component to the state (the finished function
      result): once it is `some _` the remaining iterations are the identity, and it is returned after the fold.
      A `break` adds a Bool component: once it is true the remaining iterations are the identity.
    `return e`; `pass`; docstrings.  Reaching the end of the function returns `none` (see T | None).
    `assert c` -> if c then <rest> else none;  `x = f(..)` with a translated f that may return None ->
      match f .. with | none => none | some x => <rest>  (Python would raise on the first use of None; exceptions
      are not modelled, so in a function with an assert or such a call the result `none` means "no value": end
      reached, assert failed, or None used).
  Not translated (Untranslatable): while, continue, for-else, try/with/raise/del, lambdas (except a sort key), nested
  defs, comprehensions with several generators, starred/keyword arguments (except dataclass constructors,
  `dtype=`, `default=`), strings, floats, division `/`, `**`, `in`, `is`, any unknown call or attribute.
Extraction rules for functions that are not pure as a whole are explicit in TARGETS: `inputs` (source
expression -> parameter or expression over the parameters, e.g. `x.ndim` -> `len(x_shape)`; closure variables of a
nested function are simply declared as parameters), `opaque` (parameters that may only flow into a dropped
constructor field), `result` (expression returned after the last statement, e.g. the attributes `__init__` has
set), `returns` (what each returned expression stands for, e.g. `_GraftMask()` -> True, `x` -> False for the
predicate of `_mask_skipped`), `closure` (parameters of a nested function that are variables of the enclosing one: a
translated caller passes its own variable of that name) and `body_of` (translate the body of one `for` loop of a
function, from its first statement up to a named statement, as a function of the loop variable — the per-dimension
allocation of `create_redist_dict`).  An expression
repeated inline (`to_pad = -n % d`) is extracted by the `assign-pattern` rule (class ExprTarget).
Emitted text depends only on the AST of the target functions (no line numbers, comments or hashes), so a
change that the text does not show is a change the translator does not see.
"""
from __future__ import annotations

import ast
import hashlib
import os
import sys

GEN_REL = os.path.join("lean", "PrecondVerif", "Gen", "Src.lean")


class Untranslatable(Exception):
    def __init__(self, function, lineno, construct):
        super().__init__(f"{function}:{lineno}: {construct}")
        self.function, self.lineno, self.construct = function, lineno, construct


# ------------------------------------------------------------------------------------------ targets
class Target:
    def __init__(self, rel, qual, lean, params, ret, inputs=None, opaque=(), result=None, returns=None, body_of=None, closure=()):
        self.rel, self.qual, self.lean = rel, qual, lean
        self.params = params            # [(lean parameter name, type string)] in the order of the Lean definition
        self.ret = ret                  # type string of the result
        self.inputs = inputs or {}      # ast.unparse(source expression) -> parameter name
        self.opaque = tuple(opaque)     # python parameters that are not translated
        self.result = result            # python expression returned at the end (for __init__)
        self.returns = returns or {}    # ast.unparse(returned expression) -> python expression it stands for
        self.body_of = body_of          # (loop header, prefix of the first statement NOT taken): translate that loop's body
        self.closure = tuple(closure)   # parameters that are variables of the enclosing function: a caller passes its own


class ExprTarget:
    """Extraction rule `assign-pattern` for an expression that is repeated inline instead of living in a function:
    EVERY assignment `<var> = <value>` of the file whose value contains the operator `op` is abstracted — maximal
    operands that are names or `len(<name>)` become parameters a0, a1, .. in order of appearance — and all
    occurrences must abstract to the same expression with `nparams` parameters.  That expression is translated as
    `def <lean> (a0 a1 .. : Int) : Int`; occurrences that differ from each other are Untranslatable."""
    def __init__(self, rel, var, lean, nparams, op=ast.Mod):
        self.rel, self.var, self.lean, self.nparams, self.op = rel, var, lean, nparams, op
        self.qual = f"<every `{var} = ..` with {op.__name__}>"

    def function_source(self, mod):
        occ = [n for n in ast.walk(mod.tree) if isinstance(n, ast.Assign) and len(n.targets) == 1
               and isinstance(n.targets[0], ast.Name) and n.targets[0].id == self.var
               and any(isinstance(x, ast.BinOp) and isinstance(x.op, self.op) for x in ast.walk(n.value))]
        occ.sort(key=lambda n: n.lineno)
        if not occ:
            raise Untranslatable(self.qual, 0, f"no such assignment in {self.rel}")
        shapes = []
        for n in occ:
            names = {}

            class Abs(ast.NodeTransformer):
                def operand(self, node):
                    k = ast.unparse(node)
                    names.setdefault(k, f"a{len(names)}")
                    return ast.copy_location(ast.Name(id=names[k], ctx=ast.Load()), node)

                def visit_Name(self, node):
                    return self.operand(node)

                def visit_Call(self, node):
                    if ast.unparse(node.func) == "len" and len(node.args) == 1 and isinstance(node.args[0], ast.Name) and not node.keywords:
                        return self.operand(node)
                    return self.generic_visit(node)
            shapes.append((ast.unparse(Abs().visit(ast.parse(ast.unparse(n.value), mode="eval").body)), len(names), n.lineno))
        for sh, k, ln in shapes:
            if sh != shapes[0][0] or k != self.nparams:
                raise Untranslatable(self.qual, ln, f"occurrence `{sh}` differs from `{shapes[0][0]}` (line {shapes[0][2]}) or has {k} != {self.nparams} operands")
        params = ", ".join(f"a{i}" for i in range(self.nparams))
        src = f"def {self.var}({params}):\n  return {shapes[0][0]}\n"
        return src, [ln for _, _, ln in shapes], "\n".join(ast.unparse(n) for n in occ)


DS = "distributed_shampoo.py"
RE = os.path.join("tearfree", "reallocation.py")
TARGETS = [
    Target(DS, "merge_small_dims", "mergeSmallDims", [("shape_to_merge", "list[int]"), ("max_dim", "int")], "list[int]"),
    Target(DS, "_precond_dim", "precondDim", [("compression_rank", "int"), ("dim", "int")], "int"),
    Target(DS, "_should_compress", "shouldCompress", [("compression_rank", "int"), ("dim", "int")], "bool"),
    Target(DS, "BlockPartitioner.__init__", "blockPartitionerInit", [("param_shape", "list[int]"), ("block_size", "int")],
           "tuple[list[tuple[int,arr]],list[arr]]", inputs={"param.shape": "param_shape"},
           result="(self._splits, self._split_sizes)"),
    Target(DS, "Preconditioner.should_precondition_dims", "shouldPreconditionDims",
           [("split_sizes", "list[arr]"), ("preconditioner_type", "int")], "list[bool]",
           inputs={"self._partitioner.split_sizes()": "split_sizes", "self._preconditioner_type": "preconditioner_type"}),
    Target(os.path.join("tearfree", "reshaper.py"), "_derive_shapes", "deriveShapes",
           [("merge_dims", "int"), ("block_size", "int"), ("param_shape", "list[int]")],
           "tuple[list[int],list[int],list[int]]",
           inputs={"options.merge_dims": "merge_dims", "options.block_size": "block_size", "param.shape": "param_shape"}),
    Target(os.path.join("tearfree", "shampoo.py"), "_blocks_metadata", "blocksMetadata",
           [("block_size", "int"), ("param_shape", "list[int]")],
           "tuple[list[int],int,int,list[int],list[int],list[int],int]",
           inputs={"options.block_size": "block_size"}, opaque=("debug",)),
    ExprTarget(DS, "to_pad", "toPad", 2),
    Target(DS, "Preconditioner._preconditioner_shape", "preconditionerShape", [("compression_rank", "int"), ("dim", "int")], "list[int]",
           inputs={"self._compression_rank": "compression_rank"}),
    Target(DS, "Preconditioner.shapes_for_preconditioners", "shapesForPreconditioners",
           [("split_sizes", "list[arr]"), ("preconditioner_type", "int"), ("compression_rank", "int")], "list[list[int]]",
           inputs={"self._partitioner.split_sizes()": "split_sizes", "self._preconditioner_type": "preconditioner_type",
                   "self._compression_rank": "compression_rank"}),
    Target(DS, "Preconditioner.exponent_for_preconditioner", "exponentForPreconditioner",
           [("split_sizes", "list[arr]"), ("preconditioner_type", "int")], "int",
           inputs={"self._partitioner.split_sizes()": "split_sizes", "self._preconditioner_type": "preconditioner_type"}),
    # the preconditioner objects are stood for by optional ints (list positions): the function only moves them around
    Target(DS, "Preconditioner._preconds_for_grad", "precondsForGrad",
           [("preconditioners", "list[option[int]]"), ("preconditioner_type", "int"), ("rank", "int"), ("start", "int"), ("end", "int")],
           "list[option[int]]", inputs={"self._preconditioner_type": "preconditioner_type"}),
    # closure of distributed_shampoo(): the two thresholds are the enclosing function's arguments
    Target(DS, "distributed_shampoo._skip_preconditioning", "dsSkipPreconditioning",
           [("skip_preconditioning_rank_lt", "int"), ("skip_preconditioning_dim_size_gt", "int"), ("param_shape", "list[int]")], "bool",
           inputs={"param.shape": "param_shape"}),
    # predicate of tearfree grafting._mask_skipped: `return _GraftMask()` = masked, `return x` = kept
    Target(os.path.join("tearfree", "grafting.py"), "_mask_skipped._maybe_mask", "tfMaskSkipped",
           [("skip_preconditioning_rank1", "bool"), ("skip_preconditioning_any_dim_gt", "int"), ("x_shape", "list[int]")], "bool",
           inputs={"options.skip_preconditioning_rank1": "skip_preconditioning_rank1",
                   "options.skip_preconditioning_any_dim_gt": "skip_preconditioning_any_dim_gt", "x.shape": "x_shape", "x.ndim": "len(x_shape)"},
           returns={"_GraftMask()": "True", "x": "False"}),
    Target("sm3.py", "sm3._get_expanded_shape", "sm3ExpandedShape", [("shape", "list[int]"), ("i", "int")], "list[int]"),
    # tearfree/reallocation.py::create_redist_dict: the per-dimension allocation.  Scores are opaque scalars (`real`), keys
    # are stood for by ints; the group arrives as the list [(key, score_dict[key]) for key in group] in group order.
    Target(RE, "create_redist_dict.rd", "reallocRd", [("x", "real")], "int"),
    Target(RE, "create_redist_dict.grp_info", "reallocGrpInfo", [("sketchy_rank", "int"), ("group_scores", "list[tuple[int,real]]")],
           "tuple[list[int],int,int]", inputs={"group_dict[dim]": "[p[0] for p in group_scores]"}, opaque=("dim",),
           closure=("sketchy_rank", "group_scores")),
    Target(RE, "create_redist_dict.is_outlier", "reallocIsOutlier",
           [("score", "real"), ("total_score", "real"), ("total_resource", "int"), ("dim", "int")], "bool"),
    Target(RE, "create_redist_dict", "redistGroup", [("dim", "int"), ("sketchy_rank", "int"), ("group_scores", "list[tuple[int,real]]")],
           "dict[int,int]", body_of=("for dim in group_dict", "redist_dict = alloc_fn("), result="realloc",
           inputs={"[(key, score_dict[key]) for key in group]": "group_scores"}),
]

LEAN_KEYWORDS = {
    "at", "end", "from", "in", "then", "else", "fun", "show", "have", "open", "instance", "prefix", "local", "variable",
    "def", "theorem", "let", "do", "match", "with", "if", "by", "where", "import", "namespace", "section", "universe",
    "structure", "class", "inductive", "deriving", "extends", "mutual", "macro", "syntax", "notation", "infix", "postfix",
    "for", "return", "unless", "try", "catch", "finally", "Type", "Prop", "Sort", "private", "protected", "partial",
    "noncomputable", "axiom", "example", "abbrev", "opaque", "attribute", "set_option", "calc", "obtain", "using", "export",
    "nomatch", "nofun", "suffices", "exists", "forall", "this", "true", "false", "not", "and", "or", "id", "min", "max",
}


def lname(n):
    return f"«{n}»" if n in LEAN_KEYWORDS else n


# ------------------------------------------------------------------------------------------ types
class TVar:
    """Element type of a `[]` literal until an append/merge fixes it."""
    def __init__(self):
        self.ref = None


def res(t):
    while isinstance(t, TVar) and t.ref is not None:
        t = t.ref
    return t


def parse_type(s):
    s = s.replace(" ", "")
    pos = [0]

    def go():
        i = pos[0]
        j = i
        while j < len(s) and (s[j].isalnum() or s[j] == "_"):
            j += 1
        head = s[i:j]
        pos[0] = j
        args = []
        if j < len(s) and s[j] == "[":
            pos[0] += 1
            while True:
                args.append(go())
                if s[pos[0]] == ",":
                    pos[0] += 1
                    continue
                assert s[pos[0]] == "]", s
                pos[0] += 1
                break
        if head in ("int", "bool", "arr", "opaque", "real") and not args:
            return head
        if head == "dict" and len(args) == 2:
            return ("dict", tuple(args))
        if head == "list" and len(args) == 1:
            return ("list", args[0])
        if head == "option" and len(args) == 1:
            return ("option", args[0])
        if head == "tuple" and len(args) >= 2:
            return ("tuple", tuple(args))
        raise ValueError("bad type " + s)
    t = go()
    assert pos[0] == len(s), s
    return t


def lean_ty(t, top=True):
    t = res(t)
    if t == "int":
        return "Int"
    if t == "bool":
        return "Bool"
    if t == "real":
        return "R"
    if t == "arr":
        return "List Int" if top else "(List Int)"
    if isinstance(t, TVar):
        raise KeyError("unresolved element type")
    if t[0] == "list":
        r = "List " + lean_ty(t[1], False)
    elif t[0] == "option":
        r = "Option " + lean_ty(t[1], False)
    elif t[0] == "dict":
        r = "List (" + " × ".join(lean_ty(x, False) for x in t[1]) + ")"
    elif t[0] == "tuple":
        r = " × ".join(lean_ty(x, False) for x in t[1])
    else:
        raise KeyError(str(t))
    return r if top else "(" + r + ")"


def is_seq(t):
    t = res(t)
    return t == "arr" or (isinstance(t, tuple) and t[0] == "list")


def elem_ty(t):
    t = res(t)
    return "int" if t == "arr" else t[1]


def unify(a, b, strict):
    """True when the two types are the same (binding `[]` element variables).  strict: arr and list[int] differ
    (their `+`/`*` mean different things); otherwise only the Lean type has to agree."""
    a, b = res(a), res(b)
    if isinstance(a, TVar):
        if a is not b:
            a.ref = b
        return True
    if isinstance(b, TVar):
        b.ref = a
        return True
    if not strict:
        if a == "arr":
            a = ("list", "int")
        if b == "arr":
            b = ("list", "int")
    if isinstance(a, str) or isinstance(b, str):
        return a == b
    if a[0] != b[0]:
        return False
    if a[0] in ("list", "option"):
        return unify(a[1], b[1], strict)
    return len(a[1]) == len(b[1]) and all(unify(x, y, strict) for x, y in zip(a[1], b[1]))


def proj(v, i, n):
    """Text of component i (0-based) of the right-nested n-tuple `v`."""
    if n == 1:
        return v
    return v + ".2" * i + (".1" if i < n - 1 else "")


# ------------------------------------------------------------------------------------------ module context
class Module:
    def __init__(self, src_dir, rel, src=None):
        self.rel = rel
        self.path = os.path.join(src_dir, rel)
        self.src = open(self.path).read() if src is None else src
        self.tree = ast.parse(self.src, self.path)
        self.classes = {n.name: n for n in self.tree.body if isinstance(n, ast.ClassDef)}

    def find(self, qual):
        parts = qual.split(".")
        body = self.tree.body
        node = None
        for p in parts:
            node = next((n for n in body if isinstance(n, (ast.FunctionDef, ast.ClassDef)) and n.name == p), None)
            if node is None:
                raise Untranslatable(qual, 0, f"definition not found in {self.rel}")
            body = node.body
        if not isinstance(node, ast.FunctionDef):
            raise Untranslatable(qual, node.lineno, "not a function")
        return node

    def int_enum(self, cls, name):
        c = self.classes.get(cls)
        if c is None or not any(ast.unparse(b).endswith("IntEnum") for b in c.bases):
            return None
        for st in c.body:
            if isinstance(st, ast.Assign) and len(st.targets) == 1 and isinstance(st.targets[0], ast.Name) \
                    and st.targets[0].id == name and isinstance(st.value, ast.Constant) and type(st.value.value) is int:
                return st.value.value
        return None

    def dataclass_fields(self, cls):
        c = self.classes.get(cls)
        if c is None or not any("dataclass" in ast.unparse(d) for d in c.decorator_list):
            return None
        return [st.target.id for st in c.body if isinstance(st, ast.AnnAssign) and isinstance(st.target, ast.Name)]


# ------------------------------------------------------------------------------------------ function translator
def contains(stmts, kinds):
    for s in stmts:
        for n in ast.walk(s):
            if isinstance(n, kinds):
                return True
    return False


class Handlers:
    def __init__(self, ret, raw, brk):
        self.ret, self.raw, self.brk = ret, raw, brk


def is_dict(t):
    t = res(t)
    return isinstance(t, tuple) and t[0] == "dict"


class FnTranslator:
    def __init__(self, mod, target, known):
        self.mod, self.t, self.known = mod, target, known     # known: python function name -> (lean name, param types, ret type)
        self.fn = mod.find(target.qual)
        self.src_node = self.fn
        if getattr(target, "body_of", None):
            self.fn = self.loop_body_fn(self.fn, *target.body_of)
        self.real = any("real" in ty for _, ty in target.params) or "real" in target.ret
        self.defs = []          # loop definitions (text), in order of completion
        self.nloop = 0
        self.nst = 0
        self.holes = {}         # placeholder -> TVar (type annotation of a `[]` literal)
        self.used = set()       # environment names read (for the free variables of loop bodies)
        self.ret_ty = parse_type(target.ret)
        self.option = False     # result is Option (end reachable without return / assert / None-able callee)
        self.in_loop = False
        self.pynames = {n.id for n in ast.walk(self.fn) if isinstance(n, ast.Name)} | {a.arg for a in self.fn.args.args}

    def loop_body_fn(self, fn, header, stop):
        """Extraction rule `body_of`: the statements of the loop `header` of the function, up to (not including)
        the first one whose text starts with `stop`, as a function of the loop variables."""
        loops = [n for n in fn.body if isinstance(n, ast.For) and f"for {ast.unparse(n.target)} in {ast.unparse(n.iter)}" == header]
        if len(loops) != 1:
            raise Untranslatable(self.t.qual, fn.lineno, f"{len(loops)} loops `{header}` in the function body")
        loop, body = loops[0], []
        for st in loop.body:
            if ast.unparse(st).startswith(stop):
                break
            body.append(st)
        else:
            raise Untranslatable(self.t.qual, loop.lineno, f"no statement starting with `{stop}` in the loop")
        self.src_node = loop
        args = [ast.arg(arg=x.id) for x in ast.walk(loop.target) if isinstance(x, ast.Name)]
        f = ast.FunctionDef(name="loop_body", args=ast.arguments(posonlyargs=[], args=args, kwonlyargs=[], kw_defaults=[], defaults=[]),
                            body=body, decorator_list=[])
        f.lineno = loop.lineno
        return f

    def bad(self, node, what):
        raise Untranslatable(self.t.qual, getattr(node, "lineno", self.fn.lineno), what)

    # ---------------------------------------------------------------- names
    def var_of(self, node):
        """Local-variable name of an assignable / readable place: a name, or `self.attr`."""
        if isinstance(node, ast.Name):
            return node.id
        if isinstance(node, ast.Attribute) and isinstance(node.value, ast.Name) and node.value.id == "self":
            return "self_" + node.attr
        return None

    def fresh(self, stem):
        self.nst += 1
        n = f"py_{stem}{self.nst}"
        if n in self.pynames:
            raise Untranslatable(self.t.qual, self.fn.lineno, f"source uses the reserved name {n}")
        return n

    # ---------------------------------------------------------------- expressions: (text, type)
    def expr(self, e, env):
        key = ast.unparse(e)
        if key in self.t.inputs:
            p = self.t.inputs[key]
            if p in env:
                self.used.add(p)
                return lname(p), env[p]
            return self.expr(ast.parse(p, mode="eval").body, env)     # an expression over the parameters
        if isinstance(e, ast.Constant):
            if e.value is None:
                return "none", ("option", TVar())
            if type(e.value) is bool:
                return ("true" if e.value else "false"), "bool"
            if type(e.value) is int:
                return f"({e.value} : Int)", "int"
            if type(e.value) is float and e.value == int(e.value) and abs(e.value) < 2 ** 53 and self.real:
                return f"(ops.ofInt ({int(e.value)} : Int))", "real"    # 0.0, 1.0, ..: the int converted
            self.bad(e, f"constant {e.value!r}")
        v = self.var_of(e)
        if v is not None and v in env:
            if env[v] == "opaque":
                return None, "opaque"
            self.used.add(v)
            return lname(v), env[v]
        if isinstance(e, ast.Name):
            self.bad(e, f"name '{e.id}' is not defined on every path (or is not a translated value)")
        if isinstance(e, ast.Attribute):
            if isinstance(e.value, ast.Name):
                k = self.mod.int_enum(e.value.id, e.attr)
                if k is not None:
                    return f"({k} : Int)", "int"
            self.bad(e, f"attribute {key}")
        if isinstance(e, ast.UnaryOp):
            if isinstance(e.op, ast.USub):
                a, ta = self.expr(e.operand, env)
                if ta != "int":
                    self.bad(e, "unary minus on a non-int")
                return f"(-{a})", "int"
            if isinstance(e.op, ast.Not):
                return f"(!{self.truth(e.operand, env)})", "bool"
            self.bad(e, "unary operator " + type(e.op).__name__)
        if isinstance(e, ast.BinOp):
            return self.binop(e, e.op, e.left, e.right, env)
        if isinstance(e, ast.BoolOp):
            op = " && " if isinstance(e.op, ast.And) else " || "
            parts = []
            for x in e.values:
                a, ta = self.expr(x, env)
                if ta != "bool":
                    self.bad(e, "and/or with a non-bool operand outside a condition")
                parts.append(a)
            return "(" + op.join(parts) + ")", "bool"
        if isinstance(e, ast.Compare):
            return self.compare(e, env)
        if isinstance(e, ast.IfExp):
            c = self.truth(e.test, env)
            a, ta = self.expr(e.body, env)
            b, tb = self.expr(e.orelse, env)
            if not unify(ta, tb, True):
                self.bad(e, "conditional expression with branches of different types")
            return f"(if {c} then {a} else {b})", ta
        if isinstance(e, (ast.List, ast.Tuple)):
            return self.seq_literal(e, env)
        if isinstance(e, ast.Dict) and not e.keys:
            kv, vv = TVar(), TVar()
            hk, hv = f"⟦hole{len(self.holes)}⟧", f"⟦hole{len(self.holes) + 1}⟧"
            self.holes[hk], self.holes[hv] = kv, vv
            return f"([] : List ({hk} × {hv}))", ("dict", (kv, vv))
        if isinstance(e, ast.Subscript):
            return self.subscript(e, env)
        if isinstance(e, (ast.ListComp, ast.GeneratorExp)):
            return self.listcomp(e, env)
        if isinstance(e, ast.Call):
            return self.call(e, env)
        self.bad(e, type(e).__name__)

    def int_expr(self, e, env, what):
        a, ta = self.expr(e, env)
        if ta != "int":
            self.bad(e, what + " must be an int")
        return a

    def truth(self, e, env):
        """Python truthiness of an expression in a condition."""
        if isinstance(e, ast.BoolOp):
            op = " && " if isinstance(e.op, ast.And) else " || "
            return "(" + op.join(self.truth(x, env) for x in e.values) + ")"
        if isinstance(e, ast.UnaryOp) and isinstance(e.op, ast.Not):
            return f"(!{self.truth(e.operand, env)})"
        a, ta = self.expr(e, env)
        ta = res(ta)
        if ta == "bool":
            return a
        if ta == "int":
            return f"(decide ({a} ≠ 0))"
        if ta == "real":
            return f"(ops.truthy {a})"
        if is_seq(ta):
            return f"(!(List.isEmpty {a}))"
        self.bad(e, "truthiness of this type")

    def binop(self, node, op, l, r, env):
        a, ta = self.expr(l, env)
        b, tb = self.expr(r, env)
        ta, tb = res(ta), res(tb)
        sym = {ast.Add: "+", ast.Sub: "-", ast.Mult: "*"}.get(type(op))
        rop = {ast.Add: "add", ast.Mult: "mul", ast.Div: "div"}.get(type(op))
        if rop and self.real and {ta, tb} <= {"int", "real"} and (ta == "real" or tb == "real" or rop == "div"):
            # opaque scalars: the operation is a parameter; an int operand is converted first (as Python does)
            a2 = a if ta == "real" else f"(ops.ofInt {a})"
            b2 = b if tb == "real" else f"(ops.ofInt {b})"
            return f"(ops.{rop} {a2} {b2})", "real"
        if ta == "int" and tb == "int":
            if sym:
                return f"({a} {sym} {b})", "int"
            if isinstance(op, ast.FloorDiv):
                return f"(Int.fdiv {a} {b})", "int"
            if isinstance(op, ast.Mod):
                return f"(Int.fmod {a} {b})", "int"
        if ta == "arr" and tb == "int" and sym:
            return f"(List.map (fun py_v => py_v {sym} {b}) {a})", "arr"
        if ta == "int" and tb == "arr" and sym in ("+", "*"):
            return f"(List.map (fun py_v => {a} {sym} py_v) {b})", "arr"
        if isinstance(op, ast.Add) and is_seq(ta) and is_seq(tb) and ta != "arr" and tb != "arr":
            if not unify(ta, tb, True):
                self.bad(node, "concatenation of lists of different types")
            return f"({a} ++ {b})", ta
        if isinstance(op, ast.Mult) and is_seq(ta) and ta != "arr" and tb == "int":
            return f"(Py.repeat {a} {b})", ta
        self.bad(node, f"operator {type(op).__name__} on {ta} and {tb}")

    def compare(self, e, env):
        items = [e.left] + list(e.comparators)
        vals = [self.expr(x, env) for x in items]
        parts = []
        for (a, ta), (b, tb), op in zip(vals, vals[1:], e.ops):
            ta, tb = res(ta), res(tb)
            sym = {ast.Lt: "<", ast.LtE: "≤", ast.Gt: ">", ast.GtE: "≥", ast.Eq: "=", ast.NotEq: "≠"}.get(type(op))
            if sym is None:
                self.bad(e, "comparison " + type(op).__name__)
            if ta == "int" and tb == "int":
                pass
            elif sym in ("=", "≠") and "arr" not in (ta, tb) and "opaque" not in (ta, tb) and unify(ta, tb, True):
                pass    # lists / bools / tuples of ints: structural equality, as Python's
            else:
                self.bad(e, f"comparison {sym} on {ta} and {tb}")
            parts.append(f"(decide ({a} {sym} {b}))")
        return (parts[0] if len(parts) == 1 else "(" + " && ".join(parts) + ")"), "bool"

    def seq_literal(self, e, env):
        if any(isinstance(x, ast.Starred) for x in e.elts):
            self.bad(e, "starred element")
        vals = [self.expr(x, env) for x in e.elts]
        if isinstance(e, ast.Tuple):
            if len(vals) < 2:
                self.bad(e, "tuple literal of length < 2")
            if any(t == "opaque" for _, t in vals):
                self.bad(e, "opaque value in a tuple")
            return "(" + ", ".join(a for a, _ in vals) + ")", ("tuple", tuple(t for _, t in vals))
        if not vals:
            v = TVar()
            h = f"⟦hole{len(self.holes)}⟧"
            self.holes[h] = v
            return f"([] : List {h})", ("list", v)
        t0 = vals[0][1]
        for _, t in vals[1:]:
            if not unify(t0, t, True):
                self.bad(e, "list literal with elements of different types")
        if t0 == "opaque":
            self.bad(e, "opaque value in a list")
        return "[" + ", ".join(a for a, _ in vals) + "]", ("list", t0)

    def subscript(self, e, env):
        a, ta = self.expr(e.value, env)
        ta = res(ta)
        if isinstance(e.slice, ast.Slice):
            sl = e.slice
            if sl.step is not None or not is_seq(ta):
                self.bad(e, "slice with a step / of a non-sequence")
            if sl.lower is None and sl.upper is not None:
                return f"(Py.sliceTo {a} {self.int_expr(sl.upper, env, 'slice bound')})", ta
            if sl.upper is None and sl.lower is not None:
                return f"(Py.sliceFrom {a} {self.int_expr(sl.lower, env, 'slice bound')})", ta
            if sl.lower is not None and sl.upper is not None:
                return (f"(Py.slice {a} {self.int_expr(sl.lower, env, 'slice bound')} "
                        f"{self.int_expr(sl.upper, env, 'slice bound')})"), ta
            self.bad(e, "slice without bounds")
        if isinstance(ta, tuple) and ta[0] == "tuple":
            if isinstance(e.slice, ast.Constant) and type(e.slice.value) is int and 0 <= e.slice.value < len(ta[1]):
                return "(" + proj(a, e.slice.value, len(ta[1])) + ")", ta[1][e.slice.value]
            self.bad(e, "index of a fixed-length tuple must be a literal in range")
        if is_seq(ta):
            return f"(Py.get {a} {self.int_expr(e.slice, env, 'index')})", elem_ty(ta)
        if is_dict(ta):
            kx, tk = self.expr(e.slice, env)
            if not unify(ta[1][0], tk, True):
                self.bad(e, "dict key of a different type")
            return f"(Py.dictGet {a} {kx})", ta[1][1]
        self.bad(e, "subscript of " + str(ta))

    def bind_target(self, tgt, ety, arg):
        """`for <tgt> in ..` / comprehension target: returns ([(name, type, text)], names)."""
        if isinstance(tgt, ast.Name):
            return [(tgt.id, ety, arg)]
        ety = res(ety)
        if isinstance(tgt, ast.Tuple) and isinstance(ety, tuple) and ety[0] == "tuple" and len(tgt.elts) == len(ety[1]) \
                and all(isinstance(x, ast.Name) for x in tgt.elts):
            n = len(tgt.elts)
            return [(x.id, ety[1][i], proj(arg, i, n)) for i, x in enumerate(tgt.elts)]
        self.bad(tgt, "loop target")

    def iterable(self, e, env):
        """(text, element type) of something iterated over."""
        if isinstance(e, ast.Call) and isinstance(e.func, ast.Name) and not e.keywords:
            if e.func.id == "range" and len(e.args) == 1:
                return f"(Py.range {self.int_expr(e.args[0], env, 'range bound')})", "int"
            if e.func.id == "range" and len(e.args) == 2:
                return (f"(Py.range2 {self.int_expr(e.args[0], env, 'range bound')} "
                        f"{self.int_expr(e.args[1], env, 'range bound')})"), "int"
            if e.func.id == "enumerate" and len(e.args) == 1:
                a, ta = self.expr(e.args[0], env)
                if not is_seq(ta):
                    self.bad(e, "enumerate of a non-sequence")
                return f"(Py.enumerate {a})", ("tuple", ("int", elem_ty(ta)))
        a, ta = self.expr(e, env)
        if is_dict(ta):
            return f"(Py.dictKeys {a})", res(ta)[1][0]
        if not is_seq(ta):
            self.bad(e, "iteration over a non-sequence")
        return a, elem_ty(ta)

    def callee(self, fnode):
        """Registry entry of a translated function referred to as `name`, `module.name` or `self.name`."""
        f = ast.unparse(fnode)
        base = f.split(".")[-1]
        if base in self.known and (f.count(".") == 0 or (f.count(".") == 1)):
            return base, self.known[base]
        return None, None

    def apply_known(self, node, base, entry, arg_texts, env):
        """Text and type of a call of a translated function: positional arguments fill the non-self parameters in
        order; parameters the callee reads from `self.<..>` are taken from the same source expression here."""
        ln, plist, rty, real, npy = entry
        if real and not self.real:
            self.bad(node, f"call of {base}, which works on opaque scalars, from a function that has none")
        if len(arg_texts) != npy:
            self.bad(node, f"call of {base} with {len(arg_texts)} arguments")
        parts = ["ops"] if real else []
        for kind, pty, src in plist:
            if kind == "self":
                a, ta = self.expr(ast.parse(src, mode="eval").body, env)
            elif kind == "closure":
                a, ta = self.expr(ast.Name(id=src, ctx=ast.Load()), env)
            else:
                a, ta = arg_texts[src]
            if not unify(ta, pty, False):
                self.bad(node, f"argument of {base} has type {res(ta)}, expected {res(pty)}")
            parts.append(a)
        return f"({ln} {' '.join(parts)})", rty

    def listcomp(self, e, env):
        if len(e.generators) != 1 or e.generators[0].is_async:
            self.bad(e, "comprehension with several generators")
        g = e.generators[0]
        it, ety = self.iterable(g.iter, env)
        arg = "py_x"
        binds = self.bind_target(g.target, ety, arg)
        env2 = dict(env)
        for n, t, _ in binds:
            env2[n] = t
        pre = "".join(f"let {lname(n)} := {tx}; " for n, _, tx in binds if tx != arg or n != arg)
        if len(binds) == 1 and isinstance(g.target, ast.Name):
            arg = lname(g.target.id)
            pre = ""
        src = it
        if g.ifs:
            cond = " && ".join(self.truth(c, env2) for c in g.ifs)
            src = f"(List.filter (fun ({arg} : {lean_ty(ety)}) => {pre}{cond}) {it})"
        body, tb = self.expr(e.elt, env2)
        if tb == "opaque":
            self.bad(e, "opaque comprehension element")
        return f"(List.map (fun ({arg} : {lean_ty(ety)}) => {pre}{body}) {src})", ("list", tb)

    def call(self, e, env):
        f = ast.unparse(e.func)
        kw = {k.arg: k.value for k in e.keywords}
        if None in kw or (any(isinstance(a, ast.Starred) for a in e.args) and f != "itertools.product"):
            self.bad(e, "starred / ** arguments")
        nargs = len(e.args)

        def arg(i):
            return self.expr(e.args[i], env)

        if f == "len" and nargs == 1 and not kw:
            a, ta = arg(0)
            if not is_seq(ta):
                self.bad(e, "len of a non-sequence")
            return f"(Py.len {a})", "int"
        if f == "abs" and nargs == 1 and not kw:
            return f"(Int.natAbs {self.int_expr(e.args[0], env, 'abs argument')} : Int)", "int"
        if f in ("min", "max") and nargs == 2 and not kw:
            return f"({f} {self.int_expr(e.args[0], env, f)} {self.int_expr(e.args[1], env, f)})", "int"
        if f in ("min", "max") and nargs == 1 and set(kw) == {"default"}:
            a, ta = arg(0)
            if not (is_seq(ta) and res(elem_ty(ta)) == "int"):
                self.bad(e, f + " of a non-int sequence")
            return f"(Py.{f}D {a} {self.int_expr(kw['default'], env, 'default')})", "int"
        if f in ("list", "tuple") and nargs == 1 and not kw:
            a, ta = arg(0)
            if not is_seq(ta) or res(ta) == "arr":
                self.bad(e, f + "() of a non-list")
            return a, ta
        if f in ("math.prod", "np.prod") and nargs == 1 and not kw:
            a, ta = arg(0)
            if not (is_seq(ta) and unify(elem_ty(ta), "int", True)):
                self.bad(e, "prod of a non-int sequence")
            return f"(Py.prod {a})", "int"
        if f == "sum" and nargs == 1 and not kw:
            a, ta = arg(0)
            if is_seq(ta) and res(elem_ty(ta)) == "int":
                return f"(Py.sum {a})", "int"
            if is_seq(ta) and res(elem_ty(ta)) == "bool":
                return f"(Py.count {a})", "int"
            self.bad(e, "sum of this type")
        if f == "np.array" and nargs == 1 and set(kw) <= {"dtype"}:
            a, ta = arg(0)
            if not (is_seq(ta) and unify(elem_ty(ta), "int", True)):
                self.bad(e, "np.array of a non-int sequence")
            return a, "arr"
        if f == "np.all" and nargs == 1 and not kw:
            c = e.args[0]
            if isinstance(c, ast.Compare) and len(c.ops) == 1:
                a, ta = self.expr(c.left, env)
                sym = {ast.Lt: "<", ast.LtE: "≤", ast.Gt: ">", ast.GtE: "≥", ast.Eq: "=", ast.NotEq: "≠"}.get(type(c.ops[0]))
                if res(ta) == "arr" and sym:
                    b = self.int_expr(c.comparators[0], env, "array comparison operand")
                    return f"(List.all {a} (fun py_v => decide (py_v {sym} {b})))", "bool"
            self.bad(e, "np.all of anything but `<int array> <cmp> <int>`")
        if f == "np.arange" and nargs == 1 and set(kw) <= {"dtype"}:
            return f"(Py.range {self.int_expr(e.args[0], env, 'arange bound')})", "arr"
        if f in ("np.ones", "np.zeros") and nargs == 1 and set(kw) <= {"dtype"}:
            return f"(Py.full {self.int_expr(e.args[0], env, 'array length')} ({1 if f == 'np.ones' else 0} : Int))", "arr"
        if f == "int" and nargs == 1 and not kw and isinstance(e.args[0], ast.BinOp) and isinstance(e.args[0].op, ast.FloorDiv) \
                and isinstance(e.args[0].right, ast.Constant) and e.args[0].right.value == 1 and type(e.args[0].right.value) is int:
            a, ta = self.expr(e.args[0].left, env)
            if res(ta) == "real":
                return f"(ops.floor {a})", "int"
            if res(ta) == "int":
                return a, "int"
            self.bad(e, "int(x // 1) of this type")
        if f == "reversed" and nargs == 1 and not kw:
            a, ta = arg(0)
            if not is_seq(ta) or res(ta) == "arr":
                self.bad(e, "reversed of a non-list")
            return f"(List.reverse {a})", ta
        if f == "zip" and nargs == 2 and not kw:
            (a, ta), (b, tb) = arg(0), arg(1)
            if not (is_seq(ta) and is_seq(tb)):
                self.bad(e, "zip of non-sequences")
            return f"(List.zip {a} {b})", ("list", ("tuple", (elem_ty(ta), elem_ty(tb))))
        if f == "sorted" and nargs == 1 and set(kw) == {"key", "reverse"} and isinstance(kw["reverse"], ast.Constant) \
                and kw["reverse"].value is True and isinstance(kw["key"], ast.Lambda) and len(kw["key"].args.args) == 1 \
                and not kw["key"].args.defaults:
            a, ta = arg(0)
            if not is_seq(ta) or res(ta) == "arr":
                self.bad(e, "sorted of a non-list")
            x = kw["key"].args.args[0].arg
            env2 = dict(env)
            env2[x] = elem_ty(ta)
            kx, tk = self.expr(kw["key"].body, env2)
            lt = {"real": "ops.lt", "int": "(fun py_a py_b => decide (py_a < py_b))"}.get(res(tk))
            if lt is None:
                self.bad(e, "sort key of this type")
            return f"(Py.sortedDesc {lt} (fun ({lname(x)} : {lean_ty(elem_ty(ta))}) => {kx}) {a})", ta
        if isinstance(e.func, ast.Attribute) and e.func.attr in ("values", "keys") and nargs == 0 and not kw:
            n = self.dict_place(e.func.value, env)
            if n is not None:
                self.used.add(n)
                kt, vt = res(env[n])[1]
                return (f"(Py.dictValues {lname(n)})", ("list", vt)) if e.func.attr == "values" else (f"(Py.dictKeys {lname(n)})", ("list", kt))
        if f in ("any", "all") and nargs == 1 and not kw:
            a, ta = arg(0)
            if not (is_seq(ta) and res(elem_ty(ta)) == "bool"):
                self.bad(e, f + " of anything but a sequence of bools")
            return f"(List.{f} {a} id)", "bool"
        if f == "itertools.product" and nargs == 1 and not kw and isinstance(e.args[0], ast.Starred):
            a, ta = self.expr(e.args[0].value, env)
            if not (is_seq(ta) and is_seq(elem_ty(ta))):
                self.bad(e, "itertools.product(*x) of anything but a list of sequences")
            et = res(elem_ty(ta))
            return f"(Py.product {a})", ("list", ("list", elem_ty(et)))
        if f == "map" and nargs == 2 and not kw:
            base, entry = self.callee(e.args[0])
            if entry is None:
                self.bad(e, "map of anything but a translated function")
            a, ta = arg(1)
            if not is_seq(ta):
                self.bad(e, "map over a non-sequence")
            body, rty = self.apply_known(e, base, entry, [("py_m", elem_ty(ta))], env)     # f takes one argument
            return f"(List.map (fun (py_m : {lean_ty(elem_ty(ta))}) => {body}) {a})", ("list", rty)
        # another translated function (bare name, module.name or self.name)
        base, entry = self.callee(e.func)
        if entry is not None and not kw:
            return self.apply_known(e, base, entry, [arg(i) for i in range(nargs)], env)
        # keyword-only dataclass constructor of this module -> tuple in field order
        fields = self.mod.dataclass_fields(f)
        if fields is not None and nargs == 0 and set(kw) == set(fields):
            vals = [(n,) + self.expr(kw[n], env) for n in fields]
            vals = [(n, a, t) for n, a, t in vals if t != "opaque"]
            if len(vals) < 2:
                self.bad(e, "constructor with fewer than two translated fields")
            return "(" + ", ".join(a for _, a, _ in vals) + ")", ("tuple", tuple(t for _, _, t in vals))
        self.bad(e, f"call of {f}")

    # ---------------------------------------------------------------- statements
    def assigned(self, stmts, defined):
        """Ordered names a block may assign that are visible after it: plain/augmented/subscript assignments and
        append/extend targets; a loop exports only what existed before it."""
        out = []
        defined = set(defined)

        def add(n):
            if n not in out:
                out.append(n)
        for s in stmts:
            if isinstance(s, ast.Assign) and len(s.targets) == 1:
                t = s.targets[0]
                if isinstance(t, ast.Subscript):
                    t = t.value
                for n in ([x.id for x in t.elts if isinstance(x, ast.Name) and x.id != "_"] if isinstance(t, ast.Tuple) else [self.var_of(t)]):
                    if n:
                        add(n)
                        defined.add(n)
            elif isinstance(s, ast.AugAssign):
                n = self.var_of(s.target)
                if n:
                    add(n)
            elif isinstance(s, ast.Expr) and isinstance(s.value, ast.Call) and isinstance(s.value.func, ast.Attribute) \
                    and s.value.func.attr in ("append", "extend", "update", "reverse"):
                n = self.var_of(s.value.func.value)
                if n:
                    add(n)
            elif isinstance(s, ast.If):
                for n in self.assigned(s.body, defined) + self.assigned(s.orelse, defined):
                    add(n)
                both = set(self.surely(s.body)) & set(self.surely(s.orelse))
                defined |= both
            elif isinstance(s, ast.For):
                lv = {x.id for x in ast.walk(s.target) if isinstance(x, ast.Name)}
                for n in self.assigned(s.body, defined | lv):
                    if n in defined and n not in lv:
                        add(n)
        return out

    def surely(self, stmts):
        """Names assigned on every path through the block (by plain assignment)."""
        out = []
        for s in stmts:
            if isinstance(s, ast.Assign) and len(s.targets) == 1:
                t = s.targets[0]
                for n in ([x.id for x in t.elts if isinstance(x, ast.Name) and x.id != "_"] if isinstance(t, ast.Tuple) else [self.var_of(t)]):
                    if n and n not in out:
                        out.append(n)
            elif isinstance(s, ast.If):
                b = self.surely(s.orelse)
                out += [n for n in self.surely(s.body) if n in b and n not in out]
        return out

    def tuple_text(self, names):
        return lname(names[0]) if len(names) == 1 else "(" + ", ".join(lname(n) for n in names) + ")"

    def unpack(self, names, var):
        if len(names) == 1:
            return [] if lname(names[0]) == var else [f"let {lname(names[0])} := {var}"]
        return [f"let {lname(n)} := {proj(var, i, len(names))}" for i, n in enumerate(names)]

    def opt_call(self, s):
        """`x = f(..)` where the translated f may return None."""
        if isinstance(s, ast.Assign) and isinstance(s.value, ast.Call):
            _, entry = self.callee(s.value.func)
            return entry is not None and isinstance(res(entry[2]), tuple) and res(entry[2])[0] == "option"
        return False

    def has_exit(self, stmts, brk=True):
        """The block can stop in the middle: return, assert, bind of a None-able call (at any depth), or a `break`
        of the loop the block belongs to."""
        for st in stmts:
            if isinstance(st, (ast.Return, ast.Assert)) or self.opt_call(st) or (brk and isinstance(st, ast.Break)):
                return True
            if isinstance(st, ast.If) and self.has_exit(st.body + st.orelse, brk):
                return True
            if isinstance(st, ast.For) and self.has_exit(st.body, False):
                return True
        return False

    def dict_place(self, node, env):
        n = self.var_of(node)
        if n is not None and n in env and is_dict(env[n]):
            return n
        return None

    def block(self, stmts, env, k, h):
        """Lines of the Lean term for `stmts` followed by the continuation k(env).  h: how to leave —
        h.ret(text, type, node) a `return`, h.raw(text) a finished function result, h.brk() a `break`."""
        if not stmts:
            return k(env)
        s, rest = stmts[0], stmts[1:]

        def cont(env2):
            return self.block(rest, env2, k, h)

        if isinstance(s, ast.Pass) or (isinstance(s, ast.Expr) and isinstance(s.value, ast.Constant) and isinstance(s.value.value, str)):
            return cont(env)
        if isinstance(s, ast.Return):
            if s.value is None:
                self.bad(s, "bare return")
            val = s.value
            if self.t.returns:
                key = ast.unparse(val)
                if key not in self.t.returns:
                    self.bad(s, f"return of `{key}`, which the target's `returns` rule does not name")
                val = ast.parse(self.t.returns[key], mode="eval").body
            a, ta = self.expr(val, env)
            return h.ret(a, ta, s)
        if isinstance(s, ast.Break):
            if h.brk is None:
                self.bad(s, "break outside a loop")
            return h.brk()
        if isinstance(s, ast.Assign):
            if len(s.targets) != 1:
                self.bad(s, "chained assignment")
            t = s.targets[0]
            if isinstance(t, ast.Subscript):
                n = self.var_of(t.value)
                if n is not None and n in env and is_dict(env[n]) and not isinstance(t.slice, ast.Slice):
                    kt, vt = res(env[n])[1]
                    kx, tk = self.expr(t.slice, env)
                    v, tv = self.expr(s.value, env)
                    if not (unify(kt, tk, True) and unify(vt, tv, True)):
                        self.bad(s, "dict entry of a different type")
                    self.used.add(n)
                    return [f"let {lname(n)} := Py.dictSet {lname(n)} {kx} {v}"] + cont(env)
                if n is None or n not in env or not is_seq(env[n]) or isinstance(t.slice, ast.Slice):
                    self.bad(s, "assignment to this subscript")
                v, tv = self.expr(s.value, env)
                if not unify(elem_ty(env[n]), tv, True):
                    self.bad(s, "element assignment of a different type")
                self.used.add(n)
                return [f"let {lname(n)} := Py.setAt {lname(n)} {self.int_expr(t.slice, env, 'index')} {v}"] + cont(env)
            if isinstance(t, ast.Tuple) and all(isinstance(x, ast.Name) for x in t.elts) and not self.opt_call(s):
                v, tv = self.expr(s.value, env)
                tv = res(tv)
                if not (isinstance(tv, tuple) and tv[0] == "tuple" and len(tv[1]) == len(t.elts)):
                    self.bad(s, "tuple assignment from something that is not a tuple of that length")
                var = self.fresh("t")
                env2 = dict(env)
                lines = [f"let {var} := {v}"]
                for i, x in enumerate(t.elts):
                    if x.id != "_":
                        env2[x.id] = tv[1][i]
                        lines.append(f"let {lname(x.id)} := {proj(var, i, len(t.elts))}")
                return lines + cont(env2)
            n = self.var_of(t)
            if n is None:
                self.bad(s, "assignment target " + ast.unparse(t))
            v, tv = self.expr(s.value, env)
            if tv == "opaque":
                self.bad(s, "assignment of an untranslated value")
            env2 = dict(env)
            if self.opt_call(s):
                if not self.option:
                    self.bad(s, "use of a possibly-None result")
                env2[n] = res(tv)[1]
                return [f"match {v} with", "| none =>"] + ["  " + x for x in h.raw("none")] + [f"| some {lname(n)} =>"] \
                    + ["  " + x for x in cont(env2)]
            env2[n] = tv
            return [f"let {lname(n)} := {v}"] + cont(env2)
        if isinstance(s, ast.AugAssign):
            n = self.var_of(s.target)
            if n is None or n not in env:
                self.bad(s, "augmented assignment target")
            v, tv = self.binop(s, s.op, s.target, s.value, env)
            env2 = dict(env)
            env2[n] = tv
            return [f"let {lname(n)} := {v}"] + cont(env2)
        if isinstance(s, ast.Expr):
            c = s.value
            if isinstance(c, ast.Call) and isinstance(c.func, ast.Attribute) and not c.keywords:
                n, attr = self.var_of(c.func.value), c.func.attr
                if attr == "update" and n is not None and n in env and is_dict(env[n]) and len(c.args) == 1 \
                        and isinstance(c.args[0], ast.Dict) and len(c.args[0].keys) == 1 and c.args[0].keys[0] is not None:
                    kt, vt = res(env[n])[1]
                    kx, tk = self.expr(c.args[0].keys[0], env)
                    v, tv = self.expr(c.args[0].values[0], env)
                    if not (unify(kt, tk, True) and unify(vt, tv, True)):
                        self.bad(s, "dict entry of a different type")
                    self.used.add(n)
                    return [f"let {lname(n)} := Py.dictSet {lname(n)} {kx} {v}"] + cont(env)
                if attr == "reverse" and not c.args and n is not None and n in env and is_seq(env[n]) and res(env[n]) != "arr":
                    self.used.add(n)
                    return [f"let {lname(n)} := List.reverse {lname(n)}"] + cont(env)
                if attr in ("append", "extend") and len(c.args) == 1:
                    if n is None or n not in env or res(env[n]) == "arr" or not is_seq(env[n]):
                        self.bad(s, "append/extend on something that is not a local list")
                    v, tv = self.expr(c.args[0], env)
                    self.used.add(n)
                    if attr == "append":
                        if not unify(elem_ty(env[n]), tv, True):
                            self.bad(s, f"append of {res(tv)} to {res(env[n])}")
                        return [f"let {lname(n)} := {lname(n)} ++ [{v}]"] + cont(env)
                    if not (is_seq(tv) and unify(elem_ty(env[n]), elem_ty(tv), True)):
                        self.bad(s, "extend with a different element type")
                    return [f"let {lname(n)} := {lname(n)} ++ {v}"] + cont(env)
            self.bad(s, "expression statement " + ast.unparse(c)[:40])
        if isinstance(s, ast.Assert):
            if not self.option:
                self.bad(s, "assert in a function whose result is not optional")
            return [f"if {self.truth(s.test, env)} then"] + ["  " + x for x in cont(env)] + ["else"] + ["  " + x for x in h.raw("none")]
        if isinstance(s, ast.If):
            return self.if_stmt(s, env, cont, h)
        if isinstance(s, ast.For):
            return self.for_stmt(s, env, cont, h)
        self.bad(s, type(s).__name__)

    def if_stmt(self, s, env, cont, h):
        c = self.truth(s.test, env)
        if self.has_exit(s.body + s.orelse):
            a = self.block(s.body, env, cont, h)
            b = self.block(s.orelse, env, cont, h)
            return [f"if {c} then"] + ["  " + x for x in a] + ["else"] + ["  " + x for x in b]
        both = set(self.surely(s.body)) & set(self.surely(s.orelse))
        live = [n for n in self.assigned(s.body, env) + self.assigned(s.orelse, env) if n in env or n in both]
        live = list(dict.fromkeys(live))
        if not live:
            return cont(env)
        ends = []

        def k(env2):
            ends.append(env2)
            return [self.tuple_text(live)]
        a = self.block(s.body, env, k, h)
        b = self.block(s.orelse, env, k, h)
        env3 = dict(env)
        for n in live:
            if not unify(ends[0][n], ends[1][n], True):
                self.bad(s, f"'{n}' has different types on the two branches")
            env3[n] = ends[0][n]
        var = lname(live[0]) if len(live) == 1 else self.fresh("if")
        return ([f"let {var} :=", f"  if {c} then"] + ["    " + x for x in a] + ["  else"] + ["    " + x for x in b]
                + self.unpack(live, var) + cont(env3))

    def for_stmt(self, s, env, cont, h, promoted=()):
        if s.orelse:
            self.bad(s, "for-else")
        if contains(s.body, ast.Continue):
            self.bad(s, "continue")
        snap = (self.nloop, self.nst, len(self.defs), dict(self.holes), set(self.used))
        pre_lines = []
        if promoted:
            env = dict(env)
            for n in promoted:      # an int variable that the loop turns into an opaque scalar: convert it first
                env[n] = "real"
                pre_lines.append(f"let {lname(n)} := (ops.ofInt {lname(n)})")
        self.nloop += 1
        name = f"{self.t.lean}_loop{self.nloop}"
        it, ety = self.iterable(s.iter, env)
        binds = [b for b in self.bind_target(s.target, ety, "py_x")]
        lv = [n for n, _, _ in binds]
        env_b = dict(env)
        for n, t, _ in binds:
            if n != "_":
                env_b[n] = t
        state = [n for n in self.assigned(s.body, env_b) if n in env and n not in lv]
        early = self.has_exit(s.body, False)
        brk = any(isinstance(n, ast.Break) for n in self.own_level(s.body))
        outer_used, self.used = self.used, set()
        ends = []
        wrap = (lambda a: f"some {a}") if self.option else (lambda a: a)

        def st_tuple(e, b):
            parts = ([e] if early else []) + ([b] if brk else []) + [lname(n) for n in state]
            return parts[0] if len(parts) == 1 else "(" + ", ".join(parts) + ")"

        def k(env2):
            ends.append(env2)
            return [st_tuple("none", "false")]

        def ret_b(a, ta, node):
            if not unify(ta, self.ret_ty, False):
                self.bad(node, f"return of {res(ta)}, declared {self.t.ret}")
            return [st_tuple(f"(some ({wrap(a)}))", "false")]
        hb = Handlers(ret_b, lambda text: [st_tuple(f"(some {text})", "false")], (lambda: [st_tuple("none", "true")]) if brk else None)
        body = self.block(s.body, env_b, k, hb)
        if not state and not early:
            self.bad(s, "loop without effect")
        need = []
        for e2 in ends:
            for n in state:
                if not unify(env[n], e2[n], True):
                    if res(env[n]) == "int" and res(e2[n]) == "real" and n not in promoted:
                        need.append(n)
                    else:
                        self.bad(s, f"'{n}' changes type inside the loop")
        if need:
            self.nloop, self.nst = snap[0], snap[1]
            del self.defs[snap[2]:]
            self.holes, self.used = snap[3], snap[4]
            return self.for_stmt(s, env, cont, h, tuple(promoted) + tuple(dict.fromkeys(need)))
        free = [n for n in env if n in self.used and n not in state and n not in lv and env[n] != "opaque"]
        self.used = outer_used | set(free) | set(state)
        ncomp = len(state) + (1 if early else 0) + (1 if brk else 0)
        off = (1 if early else 0) + (1 if brk else 0)
        resty = lean_ty(("option", self.ret_ty) if self.option else self.ret_ty, False)

        def finish_def():
            sty = " × ".join(([f"Option {resty}"] if early else []) + (["Bool"] if brk else []) + [lean_ty(env[n], False) for n in state])
            head = (f"def {name}" + self.real_sig() + "".join(f" ({lname(n)} : {lean_ty(env[n])})" for n in free)
                    + f" (py_st : {sty}) (py_x : {lean_ty(ety)}) : {sty} :=")
            pre = [f"let {lname(n)} := {proj('py_st', i + off, ncomp)}" for i, n in enumerate(state)]
            pre += [f"let {lname(n)} := {tx}" for n, _, tx in binds if n != "_"]
            lines = pre + body
            if brk:
                lines = [f"if {proj('py_st', 1 if early else 0, ncomp)} then", "  py_st", "else"] + ["  " + x for x in lines]
            if early:
                lines = [f"match {proj('py_st', 0, ncomp)} with", "| some _ => py_st", "| none =>"] + ["  " + x for x in lines]
            return "\n".join([head] + ["  " + x for x in lines])
        self.defs.append(finish_def)        # rendered at the end, when `[]` element types are known
        var = self.fresh("st")
        if ncomp == 1 and not early and not brk:
            var = lname(state[0])
        call = (f"List.foldl ({name}" + (" ops" if self.real else "") + "".join(" " + lname(n) for n in free)
                + f") {st_tuple('none', 'false')} {it}")
        out = pre_lines + [f"let {var} := {call}"]
        env_after = dict(env)
        after = [f"let {lname(n)} := {proj(var, i + off, ncomp)}" for i, n in enumerate(state) if lname(n) != var] + cont(env_after)
        if early:
            r = self.fresh("r")
            return out + [f"match {proj(var, 0, ncomp)} with", f"| some {r} =>"] + ["  " + x for x in h.raw(r)] \
                + ["| none =>"] + ["  " + x for x in after]
        return out + after

    def own_level(self, stmts):
        """Statements of a loop body that belong to this loop (not to a nested loop)."""
        for st in stmts:
            yield st
            if isinstance(st, ast.If):
                yield from self.own_level(st.body + st.orelse)

    def real_sig(self):
        return " {R : Type} (ops : Py.RealOps R)" if self.real else ""

    # ---------------------------------------------------------------- whole function
    def translate(self):
        fn, t = self.fn, self.t
        if fn.args.vararg or fn.args.kwarg or fn.args.kwonlyargs or fn.args.posonlyargs:
            self.bad(fn, "*args / **kwargs / keyword-only / positional-only parameters")
        if contains(fn.body, (ast.FunctionDef, ast.While, ast.Try, ast.With, ast.Yield, ast.Global, ast.Nonlocal)):
            self.bad(fn, "nested def / while / try / with / yield / global")
        env = {}
        declared = dict(t.params)
        for n, ty in t.params:
            env[n] = parse_type(ty)
        for a in fn.args.args:
            if a.arg in t.opaque:
                env[a.arg] = "opaque"
            elif a.arg not in declared and a.arg != "self" and not any(k == a.arg or k.startswith(a.arg + ".") for k in t.inputs):
                self.bad(fn, f"parameter '{a.arg}' has no declared type")
        body = list(fn.body)
        if t.result is not None:
            if contains(body, ast.Return):
                self.bad(fn, "`result` rule on a function that returns")
            body.append(ast.copy_location(ast.Return(value=ast.parse(t.result, mode="eval").body), body[-1]))
            ast.fix_missing_locations(body[-1])
        option = self.option = (not self.always_returns(body)) or any(
            isinstance(n, ast.Assert) or self.opt_call(n) for st in body for n in ast.walk(st))

        def ret(a, ta, node):
            if not unify(ta, self.ret_ty, False):
                self.bad(node, f"return of {res(ta)}, declared {t.ret}")
            return [f"some {a}" if option else a]

        def k(env2):
            return ["none"]
        lines = self.block(body, env, k, Handlers(ret, lambda text: [text], None))
        rty = lean_ty(self.ret_ty, False) if option else lean_ty(self.ret_ty)
        head = (f"def {t.lean}" + self.real_sig() + "".join(f" ({lname(n)} : {lean_ty(env[n])})" for n, _ in t.params)
                + f" : {'Option ' if option else ''}{rty} :=")
        text = "\n\n".join([d() for d in self.defs] + ["\n".join([head] + ["  " + x for x in lines])])
        for h, v in self.holes.items():
            try:
                text = text.replace(h, lean_ty(v, False))
            except KeyError:
                self.bad(fn, "a `[]` whose element type is never fixed")
        return text, option

    def always_returns(self, stmts):
        for s in stmts:
            if isinstance(s, ast.Return):
                return True
            if isinstance(s, ast.If) and s.orelse and self.always_returns(s.body) and self.always_returns(s.orelse):
                return True
        return False


# ------------------------------------------------------------------------------------------ file generation
def generate(src_dir=None, targets=None):
    """Returns (text of Gen/Src.lean, [record per target]).  A target that cannot be translated is left out of
    the text (so everything stated about it stops building) and its record carries the error."""
    if src_dir is None:
        from harness import kit
        src_dir = kit.repo_src()
    targets = TARGETS if targets is None else targets
    mods, known, chunks, info = {}, {}, [], []
    rels = []
    for t in targets:
        if t.rel not in rels:
            rels.append(t.rel)
    for t in targets:
        rec = {"function": f"{t.rel}::{t.qual}", "lean": f"PrecondVerif.Gen.{t.lean}", "source_sha256": None, "error": None}
        try:
            if t.rel not in mods:
                mods[t.rel] = Module(src_dir, t.rel)
            mod = mods[t.rel]
            if isinstance(t, ExprTarget):
                fsrc, lines, seg = t.function_source(mod)
                ft = Target(t.rel, t.var, t.lean, [(f"a{i}", "int") for i in range(t.nparams)], "int")
                tr = FnTranslator(Module(src_dir, t.rel, fsrc), ft, {})
                rec["lines"] = lines
                t = ft
            else:
                tr = FnTranslator(mod, t, known)
                seg = ast.get_source_segment(mod.src, tr.src_node) or ""
                rec["lines"] = [tr.src_node.lineno, tr.src_node.end_lineno]
            rec["source_sha256"] = hashlib.sha256(seg.encode()).hexdigest()
            text, option = tr.translate()
            rec["option"] = option
            rty = ("option", tr.ret_ty) if option else tr.ret_ty
            selfsrc = {v: k for k, v in getattr(t, "inputs", {}).items() if k.startswith("self.")}
            pyargs = [a.arg for a in tr.fn.args.args if a.arg != "self"]
            plist, seq = [], [i for i, a in enumerate(pyargs) if a not in dict(t.params)]
            for n, p in t.params:
                if n in selfsrc:
                    plist.append(("self", parse_type(p), selfsrc[n]))
                elif n in getattr(t, "closure", ()):
                    plist.append(("closure", parse_type(p), n))
                elif n in pyargs:
                    plist.append(("arg", parse_type(p), pyargs.index(n)))
                else:       # named differently from the Python argument: the next unnamed position
                    plist.append(("arg", parse_type(p), seq.pop(0) if seq else len(pyargs)))
            known[t.qual.split(".")[-1]] = (t.lean, plist, rty, tr.real, len(pyargs))
            chunks.append(f"/-- `{rec['function'].replace(os.sep, '/')}` -/\n" + text)
        except Untranslatable as e:
            rec["error"] = {"function": e.function, "lineno": e.lineno, "construct": e.construct}
        except (OSError, SyntaxError) as e:
            rec["error"] = {"function": t.qual, "lineno": 0, "construct": f"{type(e).__name__}: {e}"}
        info.append(rec)
    header = ("/- GENERATED by harness/py2lean.py from " + ", ".join("precondition/" + r.replace(os.sep, "/") for r in rels)
              + " — do not edit.\n   Regenerated from the current source by every run of the checks that use it (kit.gen_stage);\n"
              "   translation rules: header of harness/py2lean.py; Python built-ins: Gen/Prelude.lean. -/\n"
              "import PrecondVerif.Gen.Prelude\n\nset_option linter.unusedVariables false\n\nnamespace PrecondVerif.Gen\n\n")
    text = header + "\n\n".join(chunks) + "\n\nend PrecondVerif.Gen\n"
    return text, info


def main(argv):
    text, info = generate()
    if "--write" in argv:
        root = os.path.dirname(os.path.dirname(os.path.abspath(__file__)))
        p = os.path.join(root, GEN_REL)
        os.makedirs(os.path.dirname(p), exist_ok=True)
        if not os.path.exists(p) or open(p).read() != text:
            tmp = f"{p}.{os.getpid()}.tmp"
            with open(tmp, "w") as f:
                f.write(text)
            os.replace(tmp, p)
            print("rewritten", p)
    else:
        sys.stdout.write(text)
    for r in info:
        if r["error"]:
            print("UNTRANSLATABLE", r["function"], r["error"], file=sys.stderr)
    return 1 if any(r["error"] for r in info) else 0


if __name__ == "__main__":
    sys.exit(main(sys.argv[1:]))
